(* Proofs about Model/Parser.v, part 11: inline options at the head of a pattern equal compile-time options
   (property C18 on the parser model itself, not on the token abstraction of Model/Options.v).

   "(?cs)" ++ p parsed under the option word o, against p parsed under o2 = the word "(?cs)" produces from o
   (cs any non-empty string of option characters  + - i m n s x u  in either case: "(?i)", "(?im-sx)", ...).

   Part 1 (exact): the first round of both passes only consumes "(?cs)" and switches the options:
     parse o ("(?cs)" ++ p) = parse_from o o2 p
   where parse_from on oc runs the same two passes on p from the initial state whose three nodes (the root Capture,
   its Alternate, the first Concatenate) were made under [on] while the options in force are [oc].
   So the ONLY difference between the two spellings is the Options field of these three nodes.

   Part 2: that difference survives into the tree exactly there: the root Capture, its child when it is the
   Alternate / Concatenate / Empty made from those nodes, and the first alternative under the same condition.
   [norm] blanks these (keeping RightToLeft, which inline options cannot change);  norm t = norm t'.
   Error code, capture table and every other node are equal. *)
From Coq Require Import ZifyBool.
From Verif Require Import Base.Prelude Gen.ParseLitGen Model.Escape Model.ParseLit Model.GroupMap Model.CharClass Model.Options
  Model.Parser Proofs.ParseLitProofs Proofs.GMBase Proofs.ParserScan Proofs.ParserTree Proofs.ParserMain Proofs.ParserPre
  Proofs.ParserProofs Proofs.GMPrescan Proofs.ParserOkTree Proofs.ParserOkMain Proofs.ParserOkPre Proofs.ParserOkAgree.

(* ---------------------------------------------------------------- option characters *)
Definition ochar (ch : Z) : bool :=
  (ch =? 45) || (ch =? 43) || negb ((option_from_code ch =? 0) || is_only_top_option (option_from_code ch)).

(* the word "(?cs)" makes of o *)
Definition inline_word (o : Z) (cs : list Z) : Z := scan_options false (fst (ochars_of cs)) o.

Lemma ochars_of_app cs : forall r, forallb ochar cs = true -> (forall c r', r = c :: r' -> ochar c = false) ->
  ochars_of (cs ++ r) = (fst (ochars_of cs), r).
Proof.
  induction cs as [|c cs IH]; intros r F Hr.
  - cbn [app ochars_of fst]. destruct r as [|c r']; [reflexivity|].
    specialize (Hr c r' eq_refl). unfold ochar in Hr. cbn [ochars_of].
    destruct (c =? 45); [discriminate|]. destruct (c =? 43); [discriminate|]. cbn [orb] in Hr.
    destruct ((option_from_code c =? 0) || is_only_top_option (option_from_code c)); [reflexivity | discriminate].
  - cbn [forallb] in F. apply andb_prop in F. destruct F as [F1 F2]. specialize (IH r F2 Hr).
    cbn [app ochars_of]. unfold ochar in F1.
    destruct (c =? 45). { rewrite IH. destruct (ochars_of cs). reflexivity. }
    destruct (c =? 43). { rewrite IH. destruct (ochars_of cs). reflexivity. }
    cbn [orb] in F1. destruct ((option_from_code c =? 0) || is_only_top_option (option_from_code c)); [discriminate|].
    rewrite IH. destruct (ochars_of cs). reflexivity.
Qed.

Lemma scan_options_text_inline o cs p : forallb ochar cs = true ->
  scan_options_text o (cs ++ 41 :: p) = (inline_word o cs, 41 :: p).
Proof.
  intros F. unfold scan_options_text. rewrite (ochars_of_app cs (41 :: p) F); [reflexivity|].
  intros c r' E. inversion E; subst. reflexivity.
Qed.

(* an option character is none of the characters scanGroupOpen / the pre-scan look for after "(?" *)
Lemma ochar_not ch k : ochar ch = true -> ochar k = false -> (ch =? k) = false.
Proof. intros H K. destruct (ch =? k) eqn:E; [|reflexivity]. apply Z.eqb_eq in E. subst. congruence. Qed.

Lemma blank_at_paren x p : hd_is p 40 = true -> starts_qhash (tl p) = false -> blank x BNorm p = POk p.
Proof.
  destruct p as [|c t]; [discriminate|]. cbn [hd_is tl]. intros H Q. assert (c = 40) by lia. subst c.
  cbn [blank]. change (is_space 40) with false. rewrite andb_false_r. cbn [Z.eqb Pos.eqb]. rewrite andb_false_r, Q. reflexivity.
Qed.

Lemma take_run_at_paren o t : take_run o (40 :: t) = ([], 40 :: t).
Proof.
  cbn [take_run]. assert (S : is_stopper o 40 = true) by (unfold is_stopper; destruct (useX o); reflexivity).
  rewrite S. reflexivity.
Qed.

Section Inline.
Variable is_word_char : Z -> bool.
Variable to_lower : Z -> Z.
Variable simple_fold : Z -> Z.
Variable participates : Z -> bool.
Variable cat_in : Z -> Z -> bool.
Variable cat_name : list Z -> Z.

Local Notation parse := (parse is_word_char to_lower simple_fold participates cat_in cat_name).
Local Notation count_captures := (count_captures is_word_char to_lower simple_fold cat_in cat_name).
Local Notation prescan_loop := (prescan_loop is_word_char to_lower simple_fold cat_in cat_name).
Local Notation prescan_step := (prescan_step is_word_char to_lower simple_fold cat_in cat_name).
Local Notation prescan_open := (prescan_open is_word_char).
Local Notation scan_loop_full := (scan_loop_full is_word_char to_lower simple_fold participates cat_in cat_name).
Local Notation scan_round := (scan_round is_word_char to_lower simple_fold participates cat_in cat_name).
Local Notation round_open := (round_open is_word_char cat_in).
Local Notation group_open := (group_open is_word_char).
Local Notation add_group := (add_group cat_in).

(* the initial state of scanRegex with the nodes made under [on] and the options [oc] in force *)
Definition st_init (on oc : Z) : mst :=
  mkMS [] (mk_node_mn T_Capture on 0 (-1)) (mk_node T_Alternate on) (mk_node T_Concatenate on) None oc [] false 1.

Definition finish (r : pr mst) : pr rnode :=
  pdo st <- r ;
  match ms_stack st with
  | _ :: _ => PE PE_MissingParen []
  | [] => pdo st' <- add_group st ; match ms_unit st' with Some u => POk u | None => PC 43 end
  end.

Definition scan_regex_from (tb : captab) (mco : bool) (on oc : Z) (p : list Z) : pr rnode :=
  finish (scan_loop_full (S (length p)) tb mco (st_init on oc) p false).

Definition parse_from (on oc : Z) (mco_flag : bool) (p : list Z) : res presult :=
  if negb pl_bounds_ok then Crash 2
  else if negb (forallb (fun c => 0 <=? c) p) then Crash 3
  else
    let mco := mco_flag || useE oc || useRE2 oc in
    match (pdo tb <- count_captures mco oc p ;
           pdo t <- scan_regex_from (captab_main tb) mco on oc p ;
           POk (PR_Tree t (t_caps tb) (t_captop tb))) with
    | POk r => Ok r
    | PE c _ => Ok (PR_Err c)
    | PO => Ok PR_Outside
    | PC w => Crash w
    | PF => Fuel
    end.

Lemma parse_from_same o mco_flag p : parse_from o o mco_flag p = parse o mco_flag p.
Proof. reflexivity. Qed.

(* ---------------------------------------------------------------- fuel *)
Lemma prescan_loop_more mco f : forall st p k, psafe (prescan_loop f mco st p) ->
  prescan_loop (f + k) mco st p = prescan_loop f mco st p.
Proof.
  induction f as [|f IH]; intros st p k S; [cbn in S; contradiction|].
  cbn [Nat.add Parser.prescan_loop] in *. destruct p as [|ch p1]; [reflexivity|].
  destruct (prescan_step mco st ch p1) as [[st' q]|e q| | |]; cbn [pbind] in *; try reflexivity.
  apply IH. exact S.
Qed.

Lemma scan_loop_more tb mco f : forall st p w k, psafe (scan_loop_full f tb mco st p w) ->
  scan_loop_full (f + k) tb mco st p w = scan_loop_full f tb mco st p w.
Proof.
  induction f as [|f IH]; intros st p w k S; [cbn in S; contradiction|].
  cbn [Nat.add Parser.scan_loop_full] in *. destruct p as [|ch p1]; [reflexivity|].
  destruct (scan_round tb mco st (ch :: p1) w) as [[st' [[q wq]|]]|e q| | |]; cbn [pbind] in *; try reflexivity.
  apply IH. exact S.
Qed.

Lemma prescan_loop_eq f mco st ch p1 :
  prescan_loop (S f) mco st (ch :: p1) = pdo r <- prescan_step mco st ch p1 ; let '(st', q) := r in prescan_loop f mco st' q.
Proof. reflexivity. Qed.

Lemma scan_loop_eq f tb mco st ch p1 w :
  scan_loop_full (S f) tb mco st (ch :: p1) w =
  pdo r <- scan_round tb mco st (ch :: p1) w ;
  let '(st', nxt) := r in match nxt with None => POk st' | Some (q, wq) => scan_loop_full f tb mco st' q wq end.
Proof. reflexivity. Qed.

(* ---------------------------------------------------------------- the first round *)
Section Prefix.
Variable cs : list Z.
Hypothesis Hne : cs <> [].
Hypothesis Hcs : forallb ochar cs = true.

Definition inline_prefix : list Z := 40 :: 63 :: cs ++ [41].

Lemma prefix_app p : inline_prefix ++ p = 40 :: 63 :: cs ++ 41 :: p.
Proof. unfold inline_prefix. cbn [app]. rewrite <- app_assoc. reflexivity. Qed.

Lemma cs_head : exists c r, cs = c :: r /\ ochar c = true.
Proof. destruct cs as [|c r]; [congruence|]. cbn [forallb] in Hcs. apply andb_prop in Hcs. exists c, r. tauto. Qed.

Lemma prescan_first mco c o p :
  prescan_step mco (mkCS c o [] false) 40 (63 :: cs ++ 41 :: p) = POk (mkCS c (inline_word o cs) [] false, p).
Proof.
  destruct cs_head as [c0 [r [E Oc]]].
  unfold Parser.prescan_step. cbn [Z.eqb Pos.eqb]. unfold Parser.prescan_open. cbv zeta. cbn [cs_o cs_c cs_os cs_ign].
  assert (Q : starts_qhash (63 :: cs ++ 41 :: p) = false).
  { rewrite E. unfold starts_qhash, nth_is. cbn [app hd_is skipn]. rewrite (ochar_not c0 35 Oc eq_refl). reflexivity. }
  rewrite Q. cbn [hd_is Z.eqb Pos.eqb tl].
  assert (N1 : hd_is (cs ++ 41 :: p) 60 = false) by (rewrite E; cbn [app hd_is]; apply ochar_not; [exact Oc | reflexivity]).
  assert (N2 : hd_is (cs ++ 41 :: p) 39 = false) by (rewrite E; cbn [app hd_is]; apply ochar_not; [exact Oc | reflexivity]).
  assert (N3 : hd_is (cs ++ 41 :: p) 80 = false) by (rewrite E; cbn [app hd_is]; apply ochar_not; [exact Oc | reflexivity]).
  rewrite N1, N2, N3. cbn [orb]. rewrite !andb_false_r. cbn [andb].
  rewrite (scan_options_text_inline o cs p Hcs). cbn [hd_is Z.eqb Pos.eqb tl]. reflexivity.
Qed.

Lemma group_open_first tb mco gt o a p : (gt =? T_ExprCond) = false ->
  group_open tb mco gt (mkGV o false a) (63 :: cs ++ 41 :: p) = POk (None, mkGV (inline_word o cs) false a, p).
Proof.
  intros Hg. destruct cs_head as [c0 [r [E Oc]]].
  unfold Parser.group_open. cbv zeta. cbn [gv_o gv_ign gv_autocap is_nil hd_is Z.eqb Pos.eqb negb orb tl].
  assert (N0 : nth_is 1 (63 :: cs ++ 41 :: p) 41 = false).
  { rewrite E. unfold nth_is. cbn [app skipn hd_is]. apply ochar_not; [exact Oc | reflexivity]. }
  rewrite N0. pose proof (scan_options_text_inline o cs p Hcs) as SO. rewrite E in SO |- *. cbn [app] in SO |- *.
  rewrite (ochar_not c0 58 Oc eq_refl), (ochar_not c0 61 Oc eq_refl), (ochar_not c0 33 Oc eq_refl), (ochar_not c0 62 Oc eq_refl),
    (ochar_not c0 39 Oc eq_refl), (ochar_not c0 60 Oc eq_refl), (ochar_not c0 40 Oc eq_refl), (ochar_not c0 80 Oc eq_refl).
  cbn [orb andb]. rewrite Hg, SO. cbn [Z.eqb Pos.eqb]. reflexivity.
Qed.

Lemma scan_round_first tb mco st p w : ms_ign st = false ->
  (n_t (ms_group st) =? T_ExprCond) = false ->
  scan_round tb mco st (40 :: 63 :: cs ++ 41 :: p) w =
  POk (mkMS (ms_stack st) (ms_group st) (ms_alt st) (ms_concat st) (ms_unit st) (inline_word (ms_o st) cs) (ms_os st) false (ms_autocap st),
       Some (p, false)).
Proof.
  intros Hi Hg. destruct cs_head as [c0 [r [E Oc]]].
  assert (Q : starts_qhash (63 :: cs ++ 41 :: p) = false).
  { rewrite E. unfold starts_qhash, nth_is. cbn [app hd_is skipn]. rewrite (ochar_not c0 35 Oc eq_refl). reflexivity. }
  unfold Parser.scan_round. cbv zeta.
  assert (B : scan_blank_full (ms_o st) (40 :: 63 :: cs ++ 41 :: p) = POk (40 :: 63 :: cs ++ 41 :: p)).
  { unfold scan_blank_full. apply blank_at_paren; [reflexivity | exact Q]. }
  rewrite B. cbn [pbind]. rewrite take_run_at_paren, B. cbn [pbind].
  change (is_special 40) with true. cbn [negb]. unfold Parser.add_run at 1. cbn [pbind Z.eqb Pos.eqb].
  unfold Parser.round_open. cbv zeta. rewrite Hi.
  assert (N3 : nth_is 1 (63 :: cs ++ 41 :: p) 80 = false).
  { rewrite E. unfold nth_is. cbn [app skipn hd_is]. apply ochar_not; [exact Oc | reflexivity]. }
  rewrite N3, !andb_false_r. cbn [andb].
  rewrite (group_open_first tb mco (n_t (ms_group st)) (ms_o st) (ms_autocap st) p Hg). cbn [pbind gv_o gv_ign gv_autocap]. reflexivity.
Qed.

Lemma ochar_nonneg c : ochar c = true -> (0 <=? c) = true.
Proof.
  intros H. destruct (0 <=? c) eqn:E; [reflexivity|]. exfalso. assert (c < 0) by lia.
  unfold ochar, option_from_code in H.
  repeat match type of H with context [c =? ?k] => replace (c =? k) with false in H by lia end.
  cbn in H. discriminate.
Qed.

Lemma minv_init on oc : minv (st_init on oc).
Proof. split; [|reflexivity]. constructor; cbn; auto; (split; [constructor | reflexivity]). Qed.

Lemma inline_word_top o : useRTL (inline_word o cs) = useRTL o /\ useE (inline_word o cs) = useE o /\ useRE2 (inline_word o cs) = useRE2 o.
Proof. exact (inline_options_keep_top_bits o (cs ++ [41]) _ _ (scan_options_text_inline o cs [] Hcs)). Qed.

Lemma count_captures_prefix mco o p : count_captures mco o (inline_prefix ++ p) = count_captures mco (inline_word o cs) p.
Proof.
  destruct (inline_word_top o) as [_ [KE _]].
  unfold Parser.count_captures. rewrite prefix_app.
  assert (L : length (40 :: 63 :: cs ++ 41 :: p) = S (S (length p) + (length cs + 1))%nat) by (cbn [length]; rewrite app_length; cbn [length]; lia).
  rewrite L, prescan_loop_eq, prescan_first. cbn [pbind].
  rewrite KE. replace (S (S (length p) + (length cs + 1)))%nat with (S (length p) + S (length cs + 1))%nat by lia.
  rewrite prescan_loop_more; [reflexivity|].
  pose proof (prescan_loop_ok is_word_char to_lower simple_fold participates cat_in cat_name mco (S (length p)) (mkCS c_init (inline_word o cs) [] false) p
                (cinv_init mco) ltac:(lia)) as K.
  destruct (prescan_loop (S (length p)) mco (mkCS c_init (inline_word o cs) [] false) p); cbn; auto.
Qed.

Lemma scan_regex_prefix tb mco o p :
  scan_regex is_word_char to_lower simple_fold participates cat_in cat_name tb mco o (inline_prefix ++ p) = scan_regex_from tb mco o (inline_word o cs) p.
Proof.
  unfold Parser.scan_regex, scan_regex_from, finish. cbv zeta. fold (st_init o o). rewrite prefix_app.
  assert (L : length (40 :: 63 :: cs ++ 41 :: p) = S (S (length p) + (length cs + 1))%nat) by (cbn [length]; rewrite app_length; cbn [length]; lia).
  rewrite L, scan_loop_eq.
  rewrite (scan_round_first tb mco (st_init o o) p false eq_refl eq_refl). cbn [pbind st_init ms_stack ms_group ms_alt ms_concat ms_unit ms_o ms_os ms_autocap].
  fold (st_init o (inline_word o cs)).
  replace (S (S (length p) + (length cs + 1)))%nat with (S (length p) + S (length cs + 1))%nat by lia.
  rewrite scan_loop_more; [reflexivity|].
  pose proof (scan_loop_full_ok is_word_char to_lower simple_fold participates cat_in cat_name tb mco (S (length p)) (st_init o (inline_word o cs)) p false
                (minv_init _ _) eq_refl ltac:(lia)) as K.
  destruct (scan_loop_full (S (length p)) tb mco (st_init o (inline_word o cs)) p false); cbn; auto.
Qed.

(* Part 1 *)
Theorem parse_inline_prefix o mco_flag p :
  parse o mco_flag (inline_prefix ++ p) = parse_from o (inline_word o cs) mco_flag p.
Proof.
  destruct (inline_word_top o) as [_ [KE KR]].
  unfold Parser.parse, parse_from. destruct (negb pl_bounds_ok); [reflexivity|].
  assert (F : forallb (fun c => 0 <=? c) (inline_prefix ++ p) = forallb (fun c => 0 <=? c) p).
  { rewrite forallb_app. unfold inline_prefix. cbn [forallb]. rewrite forallb_app. cbn [forallb].
    replace (forallb (fun c => 0 <=? c) cs) with true; [reflexivity|]. symmetry. apply forallb_forall. intros c Hc.
    apply ochar_nonneg. rewrite forallb_forall in Hcs. apply Hcs. exact Hc. }
  rewrite F. destruct (negb (forallb (fun c => 0 <=? c) p)); [reflexivity|]. cbv zeta.
  rewrite KE, KR, count_captures_prefix.
  destruct (count_captures (mco_flag || useE o || useRE2 o) (inline_word o cs) p) as [tb|e q| | |]; cbn [pbind]; try reflexivity.
  rewrite scan_regex_prefix. reflexivity.
Qed.

End Prefix.

End Inline.

(* ================================================================ Part 2: the Options of the three first nodes *)
Definition seto (v : Z) (x : rnode) : rnode := let 'RN t _ ch m n str st kids := x in RN t v ch m n str st kids.

Lemma seto_same x : seto (n_o x) x = x. Proof. destruct x; reflexivity. Qed.
Lemma seto_seto v w x : seto v (seto w x) = seto v x. Proof. destruct x; reflexivity. Qed.
Lemma seto_set_kids v x k : seto v (set_kids x k) = set_kids (seto v x) k. Proof. destruct x; reflexivity. Qed.
Lemma n_o_seto v x : n_o (seto v x) = v. Proof. destruct x; reflexivity. Qed.
Lemma n_t_seto v x : n_t (seto v x) = n_t x. Proof. destruct x; reflexivity. Qed.
Lemma n_kids_seto v x : n_kids (seto v x) = n_kids x. Proof. destruct x; reflexivity. Qed.
Lemma set_kids_set_kids x k k' : set_kids (set_kids x k) k' = set_kids x k'. Proof. destruct x; reflexivity. Qed.
Lemma n_kids_set_kids x k : n_kids (set_kids x k) = k. Proof. destruct x; reflexivity. Qed.
Lemma n_t_set_kids x k : n_t (set_kids x k) = n_t x. Proof. destruct x; reflexivity. Qed.
Lemma n_o_set_kids x k : n_o (set_kids x k) = n_o x. Proof. destruct x; reflexivity. Qed.

(* the same node up to Options, RightToLeft kept *)
Definition oeqn (x x' : rnode) : Prop := exists v, x' = seto v x /\ useRTL v = useRTL (n_o x).
Definition is_ec (t : Z) : bool := (t =? T_Empty) || (t =? T_Concatenate).
(* a reduced first Concatenate: itself or its only child (equal), or an Empty / Concatenate made from it *)
Definition krel (x x' : rnode) : Prop := x = x' \/ (is_ec (n_t x) = true /\ oeqn x x').
(* the reduced Alternate *)
Definition yrel (y y' : rnode) : Prop :=
  y = y' \/ ((is_ec (n_t y) || (n_t y =? T_Nothing)) = true /\ oeqn y y') \/
  (n_t y = T_Alternate /\ exists v x x' r, n_kids y = x :: r /\ krel x x' /\ y' = set_kids (seto v y) (x' :: r) /\ useRTL v = useRTL (n_o y)).

Lemma krel_refl x : krel x x. Proof. left; reflexivity. Qed.
Lemma oeqn_refl x : oeqn x x. Proof. exists (n_o x). rewrite seto_same. auto. Qed.

Definition rrel {A} (R : A -> A -> Prop) (x y : res A) : Prop :=
  match x, y with
  | Ok a, Ok b => R a b
  | Err c, Err c' => c = c'
  | Crash w, Crash w' => w = w'
  | Fuel, Fuel => True
  | _, _ => False
  end.

Definition prel {A} (R : A -> A -> Prop) (x y : pr A) : Prop :=
  match x, y with
  | POk a, POk b => R a b
  | PE c q, PE c' q' => c = c' /\ q = q'
  | PO, PO => True
  | PC w, PC w' => w = w'
  | PF, PF => True
  | _, _ => False
  end.

Lemma prel_bind {A B} (R : A -> A -> Prop) (R' : B -> B -> Prop) x y (f g : A -> pr B) :
  prel R x y -> (forall a b, R a b -> prel R' (f a) (g b)) -> prel R' (pbind x f) (pbind y g).
Proof. intros H K. destruct x, y; cbn in *; try contradiction; auto. Qed.

Lemma prel_refl {A} (R : A -> A -> Prop) x : (forall a, R a a) -> prel R x x.
Proof. intros H. destruct x; cbn; auto. Qed.

Lemma prel_of_res {A} (R : A -> A -> Prop) x y q : rrel R x y -> prel R (of_res x q) (of_res y q).
Proof. destruct x, y; cbn; try contradiction; auto. Qed.

Definition pmap {A B} (f : A -> B) (x : pr A) : pr B := pbind x (fun a => POk (f a)).
Definition rmap {A B} (f : A -> B) (x : res A) : res B := bind x (fun a => Ok (f a)).

Section Relabel.
Variable is_word_char : Z -> bool.
Variable to_lower : Z -> Z.
Variable simple_fold : Z -> Z.
Variable participates : Z -> bool.
Variable cat_in : Z -> Z -> bool.
Variable cat_name : list Z -> Z.

Local Notation reduce := (reduce cat_in).
Local Notation add_child := (add_child cat_in).
Local Notation reduce_alternation := (reduce_alternation cat_in).
Local Notation sl_step := (sl_step cat_in).
Local Notation sl_run := (sl_run cat_in).

Lemma add_child_eq p c : add_child p c = do r <- reduce c ; Ok (set_kids p (n_kids p ++ [r])).
Proof. reflexivity. Qed.

Lemma add_child_seto v c u : add_child (seto v c) u = rmap (seto v) (add_child c u).
Proof.
  unfold Parser.add_child, rmap. destruct (reduce u) as [r| | |]; cbn [bind]; try reflexivity.
  destruct c; reflexivity.
Qed.

Lemma reverse_left_seto v c : useRTL v = useRTL (n_o c) -> reverse_left (seto v c) = seto v (reverse_left c).
Proof. intros H. unfold reverse_left. rewrite n_o_seto, n_t_seto, n_kids_seto, H. destruct (useRTL (n_o c) && (n_t c =? T_Concatenate)); [rewrite seto_set_kids|]; reflexivity. Qed.

Lemma reverse_left_t c : n_t (reverse_left c) = n_t c.
Proof. unfold reverse_left. destruct (useRTL (n_o c) && (n_t c =? T_Concatenate)); [apply n_t_set_kids | reflexivity]. Qed.
Lemma reverse_left_o c : n_o (reverse_left c) = n_o c.
Proof. unfold reverse_left. destruct (useRTL (n_o c) && (n_t c =? T_Concatenate)); [apply n_o_set_kids | reflexivity]. Qed.

Lemma reduce_concat_eq o ch m n str st kids :
  reduce (RN T_Concatenate o ch m n str st kids) = reduce_concatenation (RN T_Concatenate (clear_I o) ch m n str st kids).
Proof. destruct kids; reflexivity. Qed.

Lemma reduce_alt_eq o ch m n str st kids :
  reduce (RN T_Alternate o ch m n str st kids) = reduce_alternation (RN T_Alternate (clear_I o) ch m n str st kids).
Proof. destruct kids; reflexivity. Qed.

(* the first Concatenate, reduced *)
Lemma reduce_concat_rel c v : n_t c = T_Concatenate -> useRTL v = useRTL (n_o c) -> rrel krel (reduce c) (reduce (seto v c)).
Proof.
  intros Ht Hr. destruct c as [t o ch m n str st kids]. cbn [n_t n_o seto] in *. subst t.
  rewrite !reduce_concat_eq. unfold Parser.reduce_concatenation. cbn [n_kids n_o].
  assert (R1 : useRTL (clear_I v) = useRTL (clear_I o)) by (rewrite !useRTL_clear_I; exact Hr).
  destruct kids as [|k0 [|k1 kr]].
  - cbn. right. split; [reflexivity|]. exists (clear_I v). split; [reflexivity | exact R1].
  - cbn. left. reflexivity.
  - destruct (find (fun k => n_t k =? T_Nothing) (k0 :: k1 :: kr)); [cbn; left; reflexivity|].
    destruct (cl_loop k0 (k1 :: kr)) as [l1| | |]; cbn [bind rrel]; auto.
    rewrite R1. destruct (st_run (mkST [] false 0) (flat_map (flat_concat (useRTL (clear_I o))) l1)) as [s| | |]; cbn [bind rrel]; auto.
    unfold replace_if_unnecessary. cbn [set_kids n_kids n_t n_o].
    destruct (rev (st_out s)) as [|a [|b r]].
    + right. split; [reflexivity|]. exists (clear_I v). split; [reflexivity | exact R1].
    + left. reflexivity.
    + right. split; [reflexivity|]. exists (clear_I v). split; [reflexivity | exact R1].
Qed.

(* ---- the first Alternate, reduced *)
Lemma is_ec_cases t : is_ec t = true -> t = T_Empty \/ t = T_Concatenate.
Proof. unfold is_ec. lia. Qed.

Lemma oeqn_t x x' : oeqn x x' -> n_t x' = n_t x.
Proof. intros [v [-> _]]. apply n_t_seto. Qed.

Definition same_err {A B} (x : res A) (y : res B) : Prop :=
  match x, y with Err a, Err b => a = b | Crash a, Crash b => a = b | Fuel, Fuel => True | _, _ => False end.

Lemma sl_step_bottom l x x' w cn o at_ : (l = [] -> w = false) ->
  match sl_step (mkSL (l ++ [x]) w cn o) at_, sl_step (mkSL (l ++ [x']) w cn o) at_ with
  | Ok s, Ok s' => exists l2, sl_out s = l2 ++ [x] /\ sl_out s' = l2 ++ [x'] /\ sl_was s' = sl_was s /\ sl_cannot s' = sl_cannot s /\
                              sl_opt s' = sl_opt s /\ (l2 = [] -> sl_was s = false)
  | a, b => same_err a b
  end.
Proof.
  intros Hl. unfold Parser.sl_step. cbn [sl_out sl_was sl_cannot sl_opt].
  destruct ((n_t at_ =? T_Set) || (n_t at_ =? T_One)).
  - destruct w.
    + destruct l as [|prev out2]; [discriminate (Hl eq_refl)|]. cbn [app].
      match goal with |- context [bind ?f _] => destruct f as [[cannot|]| | |] end; cbn [bind same_err]; auto.
      * exists (at_ :: prev :: out2). cbn. repeat split; auto; discriminate.
      * destruct (if n_t prev =? T_One then Ok (add_char cat_in empty_cls (n_ch prev)) else match n_set prev with Some c => Ok c | None => Crash 25 end) as [pc| | |];
          cbn [bind same_err]; auto.
        destruct (if n_t at_ =? T_One then Ok (add_char cat_in pc (n_ch at_)) else match n_set at_ with Some c => Ok (add_set cat_in pc c) | None => Crash 23 end) as [pc'| | |];
          cbn [bind same_err]; auto.
        destruct prev as [pt po pch pm pn pstr pst pk].
        exists (RN T_Set (clear_I po) pch pm pn pstr (Some pc') pk :: out2). cbn. repeat split; auto; discriminate.
    + cbn [negb orb].
      destruct (n_t at_ =? T_Set).
      * destruct (n_set at_); cbn [bind same_err]; auto. exists (at_ :: l). cbn. repeat split; auto; discriminate.
      * cbn [bind]. exists (at_ :: l). cbn. repeat split; auto; discriminate.
  - destruct (n_t at_ =? T_Nothing).
    + exists l. cbn. repeat split; auto.
    + exists (at_ :: l). cbn. repeat split; auto; discriminate.
Qed.

Lemma sl_run_bottom L : forall l x x' w cn o, (l = [] -> w = false) ->
  match sl_run (mkSL (l ++ [x]) w cn o) L, sl_run (mkSL (l ++ [x']) w cn o) L with
  | Ok s, Ok s' => exists l2, sl_out s = l2 ++ [x] /\ sl_out s' = l2 ++ [x']
  | a, b => same_err a b
  end.
Proof.
  induction L as [|at_ L IH]; intros l x x' w cn o Hl; cbn [Parser.sl_run].
  - exists l. auto.
  - pose proof (sl_step_bottom l x x' w cn o at_ Hl) as S.
    destruct (sl_step (mkSL (l ++ [x]) w cn o) at_) as [s| | |], (sl_step (mkSL (l ++ [x']) w cn o) at_) as [s'| | |];
      cbn [bind same_err] in *; try contradiction; auto.
    destruct S as [l2 [E1 [E2 [E3 [E4 [E5 E6]]]]]]. destruct s as [o1 w1 c1 p1], s' as [o2 w2 c2 p2]. cbn in *. subst.
    apply IH. exact E6.
Qed.

Definition lrel (ks ks' : list rnode) : Prop :=
  ks = ks' \/ exists x x' rl, ks = x :: rl /\ ks' = x' :: rl /\ is_ec (n_t x) = true /\ oeqn x x'.

Lemma lrel_hd ks ks' : lrel ks ks' -> match ks, ks' with
  | [], [] => True | x :: r, x' :: r' => r = r' /\ krel x x' | _, _ => False end.
Proof.
  intros [-> | [x [x' [rl [-> [-> [E O]]]]]]].
  - destruct ks'; auto. split; [reflexivity | left; reflexivity].
  - split; [reflexivity | right; auto].
Qed.

Lemma replace_alt_rel o1 o2 ch m n str st D D' : lrel D D' -> useRTL o2 = useRTL o1 ->
  yrel (replace_if_unnecessary (RN T_Alternate o1 ch m n str st D)) (replace_if_unnecessary (RN T_Alternate o2 ch m n str st D')).
Proof.
  intros L R. pose proof (lrel_hd D D' L) as H. unfold replace_if_unnecessary. cbn [n_kids n_t n_o].
  destruct D as [|d [|d2 dr]], D' as [|d' [|d2' dr']]; try contradiction; try (apply proj1 in H; discriminate).
  - change (T_Alternate =? T_Alternate) with true. cbv iota. right. left. split; [reflexivity|]. exists o2. split; [reflexivity | exact R].
  - destruct H as [_ [-> | [E O]]]; [left; reflexivity | right; left; split; [rewrite E; reflexivity | exact O]].
  - destruct H as [H K]. inversion H; subst. right. right. split; [reflexivity|].
    exists o2, d, d', (d2' :: dr'). cbn. repeat split; auto.
Qed.

Lemma drop_redundant_rel D D' : lrel D D' -> lrel (drop_redundant false D) (drop_redundant false D').
Proof.
  intros [-> | [x [x' [rl [-> [-> [E O]]]]]]]; [left; reflexivity|].
  cbn [drop_redundant]. rewrite (oeqn_t _ _ O).
  destruct (is_ec_cases _ E) as [Ht | Ht]; rewrite Ht; cbn [Z.eqb Pos.eqb andb orb];
    right; eexists _, _, _; (split; [reflexivity|]); (split; [reflexivity|]); split; auto.
Qed.

Definition alt_post (y0 : rnode) : rnode :=
  let y := replace_if_unnecessary y0 in if n_t y =? T_Alternate then remove_redundant y else y.
Definition alt_post_r (y0 : rnode) : res rnode :=
  let y := replace_if_unnecessary y0 in if n_t y =? T_Alternate then Ok (remove_redundant y) else Ok y.
Lemma alt_post_r_eq y0 : alt_post_r y0 = Ok (alt_post y0).
Proof. unfold alt_post_r, alt_post. cbv zeta. destruct (n_t (replace_if_unnecessary y0) =? T_Alternate); reflexivity. Qed.

Lemma alt_post_rel o1 o2 ch m n str st ks ks' : lrel ks ks' -> useRTL o2 = useRTL o1 ->
  yrel (alt_post (RN T_Alternate o1 ch m n str st ks)) (alt_post (RN T_Alternate o2 ch m n str st ks')).
Proof.
  intros L R. pose proof (lrel_hd ks ks' L) as H. unfold alt_post. cbv zeta.
  destruct ks as [|k [|k2 kr]], ks' as [|k' [|k2' kr']]; try contradiction; try (apply proj1 in H; discriminate).
  - unfold replace_if_unnecessary. cbn [n_kids n_t n_o]. change (T_Alternate =? T_Alternate) with true. cbv iota.
    cbn [mk_node n_t]. change (T_Nothing =? T_Alternate) with false. cbv iota.
    right. left. split; [reflexivity|]. exists o2. split; [reflexivity | exact R].
  - unfold replace_if_unnecessary at 1 2 3 4. cbn [n_kids].
    destruct H as [_ [-> | [E O]]]; [left; reflexivity|].
    rewrite (oeqn_t _ _ O). destruct (is_ec_cases _ E) as [Ht | Ht]; rewrite Ht;
      [change (T_Empty =? T_Alternate) with false | change (T_Concatenate =? T_Alternate) with false]; cbv iota;
      right; left; (split; [rewrite Ht; reflexivity | exact O]).
  - unfold replace_if_unnecessary at 1 2 3 4. cbn [n_kids n_t]. change (T_Alternate =? T_Alternate) with true. cbv iota.
    unfold remove_redundant. cbn [set_kids n_kids]. apply replace_alt_rel; [|exact R]. apply drop_redundant_rel. exact L.
Qed.

Lemma flat_alt_ec x : is_ec (n_t x) = true -> flat_alt x = [x].
Proof. intros E. destruct x as [t o ch m n str st kids]. cbn [n_t] in E. destruct (is_ec_cases _ E) as [-> | ->]; reflexivity. Qed.

Lemma sl_step_ec s x : is_ec (n_t x) = true -> sl_step s x = Ok (mkSL (x :: sl_out s) false false (sl_opt s)).
Proof. intros E. unfold Parser.sl_step. destruct (is_ec_cases _ E) as [Ht | Ht]; rewrite Ht; reflexivity. Qed.

Lemma reduce_alternation_rel o1 o2 ch m n str st x x' r : krel x x' -> useRTL o2 = useRTL o1 ->
  rrel yrel (reduce_alternation (RN T_Alternate o1 ch m n str st (x :: r))) (reduce_alternation (RN T_Alternate o2 ch m n str st (x' :: r))).
Proof.
  intros K R. unfold Parser.reduce_alternation. cbn [n_kids].
  destruct r as [|k1 r'].
  { cbn. destruct K as [-> | [E O]]; [left; reflexivity | right; left; split; [rewrite E; reflexivity | exact O]]. }
  destruct K as [<- | [E O]].
  { destruct (sl_run (mkSL [] false false 0) (flatten_alts (x :: k1 :: r'))) as [s| | |]; cbn [bind rrel]; auto.
    cbn [set_kids].
    change (rrel yrel (alt_post_r (RN T_Alternate o1 ch m n str st (rev (sl_out s)))) (alt_post_r (RN T_Alternate o2 ch m n str st (rev (sl_out s))))).
    rewrite !alt_post_r_eq. cbn [rrel]. apply alt_post_rel; [left; reflexivity | exact R]. }
  unfold flatten_alts. cbn [flat_map]. rewrite (flat_alt_ec x E), (flat_alt_ec x') by (rewrite (oeqn_t _ _ O); exact E).
  cbn [app Parser.sl_run]. rewrite (sl_step_ec _ x E), (sl_step_ec _ x') by (rewrite (oeqn_t _ _ O); exact E).
  cbn [bind sl_out sl_opt].
  pose proof (sl_run_bottom (flat_alt k1 ++ flat_map flat_alt r') [] x x' false false 0 (fun _ => eq_refl)) as S. cbn [app] in S.
  destruct (sl_run (mkSL [x] false false 0) (flat_alt k1 ++ flat_map flat_alt r')) as [s| | |],
           (sl_run (mkSL [x'] false false 0) (flat_alt k1 ++ flat_map flat_alt r')) as [s'| | |]; cbn [bind rrel same_err] in *; try contradiction; auto.
  destruct S as [l2 [E1 E2]]. cbn [set_kids].
  change (rrel yrel (alt_post_r (RN T_Alternate o1 ch m n str st (rev (sl_out s)))) (alt_post_r (RN T_Alternate o2 ch m n str st (rev (sl_out s'))))).
  rewrite !alt_post_r_eq. cbn [rrel]. rewrite E1, E2, !rev_app_distr. cbn [rev app].
  apply alt_post_rel; [|exact R]. right. exists x, x', (rev l2). auto.
Qed.

(* ---------------------------------------------------------------- the main pass on two states that differ in those Options *)
Local Notation add_concatenate := (add_concatenate cat_in).
Local Notation add_concatenate3 := (add_concatenate3 cat_in).
Local Notation add_ones := (add_ones simple_fold cat_in).
Local Notation add_to_concatenate := (add_to_concatenate simple_fold participates cat_in).
Local Notation add_alternate := (add_alternate cat_in).
Local Notation add_group := (add_group cat_in).
Local Notation pop_group := (pop_group cat_in).
Local Notation add_run := (add_run simple_fold participates cat_in).
Local Notation scan_quantifier := (scan_quantifier cat_in).
Local Notation after_unit := (after_unit cat_in).
Local Notation round_open := (round_open is_word_char cat_in).
Local Notation round_close := (round_close cat_in).
Local Notation scan_round := (scan_round is_word_char to_lower simple_fold participates cat_in cat_name).
Local Notation scan_loop_full := (scan_loop_full is_word_char to_lower simple_fold participates cat_in cat_name).
Local Notation mk_node_ch := (mk_node_ch simple_fold cat_in).
Local Notation make_quantifier := (make_quantifier cat_in).

(* replace the stack, the group and the alternation, relabel the concatenation *)
Definition T (s : list (rnode * rnode * rnode)) (g a : rnode) (v : Z) (st : mst) : mst :=
  mkMS s g a (seto v (ms_concat st)) (ms_unit st) (ms_o st) (ms_os st) (ms_ign st) (ms_autocap st).

Definition same_frame (st r : mst) : Prop :=
  ms_stack r = ms_stack st /\ ms_group r = ms_group st /\ ms_alt r = ms_alt st /\
  n_o (ms_concat r) = n_o (ms_concat st) /\ n_t (ms_concat r) = n_t (ms_concat st).

Lemma same_frame_refl st : same_frame st st. Proof. repeat split. Qed.
Lemma same_frame_trans a b c : same_frame a b -> same_frame b c -> same_frame a c.
Proof. intros [A1 [A2 [A3 [A4 A5]]]] [B1 [B2 [B3 [B4 B5]]]]. repeat split; congruence. Qed.

Lemma add_child_ot c u r : add_child c u = Ok r -> n_o r = n_o c /\ n_t r = n_t c.
Proof.
  unfold Parser.add_child. destruct (reduce u); cbn [bind]; try discriminate. intros H. inversion H; subst.
  split; [apply n_o_set_kids | apply n_t_set_kids].
Qed.

(* [F] touches the concatenation and the unit only *)
Definition conc_only (F : mst -> pr mst) : Prop :=
  (forall s g a v st, F (T s g a v st) = pmap (T s g a v) (F st)) /\ (forall st r, F st = POk r -> same_frame st r).
Definition conc_only2 {B} (F : mst -> pr (mst * B)) : Prop :=
  (forall s g a v st, F (T s g a v st) = pmap (fun rb => (T s g a v (fst rb), snd rb)) (F st)) /\
  (forall st r b, F st = POk (r, b) -> same_frame st r).

Lemma add_concatenate_conc : conc_only add_concatenate.
Proof.
  split.
  - intros s g a v st. unfold Parser.add_concatenate, pmap, T. cbn [ms_unit ms_concat]. destruct (ms_unit st) as [u|]; [|reflexivity].
    rewrite add_child_seto. destruct (add_child (ms_concat st) u); reflexivity.
  - intros st r. unfold Parser.add_concatenate. destruct (ms_unit st) as [u|]; [|discriminate].
    destruct (add_child (ms_concat st) u) as [c| | |] eqn:E; cbn; try discriminate. intros H. inversion H; subst.
    destruct (add_child_ot _ _ _ E). repeat split; assumption.
Qed.

Lemma add_concatenate3_conc lazy mn mx : conc_only (fun st => add_concatenate3 st lazy mn mx).
Proof.
  split.
  - intros s g a v st. unfold Parser.add_concatenate3, pmap, T. cbn [ms_unit ms_concat]. destruct (ms_unit st) as [u|]; [|reflexivity].
    destruct (make_quantifier u lazy mn mx) as [q| | |]; cbn [of_res pbind]; try reflexivity.
    rewrite add_child_seto. destruct (add_child (ms_concat st) q); reflexivity.
  - intros st r. unfold Parser.add_concatenate3. destruct (ms_unit st) as [u|]; [|discriminate].
    destruct (make_quantifier u lazy mn mx) as [q| | |]; cbn [of_res pbind]; try discriminate.
    destruct (add_child (ms_concat st) q) as [c| | |] eqn:E; cbn; try discriminate. intros H. inversion H; subst.
    destruct (add_child_ot _ _ _ E). repeat split; assumption.
Qed.

Lemma add_ones_seto o v s : forall c, add_ones o (seto v c) s = pmap (seto v) (add_ones o c s).
Proof.
  induction s as [|ch s IH]; intros c; cbn [Parser.add_ones]; [reflexivity|].
  destruct (mk_node_ch T_One o ch) as [x| | | |]; cbn [pbind pmap]; try reflexivity.
  rewrite add_child_seto. destruct (add_child c x) as [c'| | |]; cbn [rmap bind of_res pbind]; try reflexivity.
  apply IH.
Qed.

Lemma add_ones_ot o s : forall c r, add_ones o c s = POk r -> n_o r = n_o c /\ n_t r = n_t c.
Proof.
  induction s as [|ch s IH]; intros c r; cbn [Parser.add_ones]; [intros H; inversion H; auto|].
  destruct (mk_node_ch T_One o ch) as [x| | | |]; cbn [pbind]; try discriminate.
  destruct (add_child c x) as [c'| | |] eqn:E; cbn [of_res pbind]; try discriminate. intros H.
  destruct (IH _ _ H) as [A B]. destruct (add_child_ot _ _ _ E) as [C D]. split; congruence.
Qed.

Lemma add_to_concatenate_seto o v c s : add_to_concatenate o (seto v c) s = pmap (seto v) (add_to_concatenate o c s).
Proof.
  unfold Parser.add_to_concatenate. destruct s as [|ch [|ch2 s']]; [reflexivity | apply add_ones_seto |].
  destruct (negb (useI o) || negb (existsb participates (ch :: ch2 :: s'))); [|apply add_ones_seto].
  rewrite add_child_seto. destruct (add_child c (mk_node_str T_Multi (clear_I o) (ch :: ch2 :: s'))); reflexivity.
Qed.

Lemma add_to_concatenate_ot o c s r : add_to_concatenate o c s = POk r -> n_o r = n_o c /\ n_t r = n_t c.
Proof.
  unfold Parser.add_to_concatenate. destruct s as [|ch [|ch2 s']]; [intros H; inversion H; auto | apply add_ones_ot |].
  destruct (negb (useI o) || negb (existsb participates (ch :: ch2 :: s'))); [|apply add_ones_ot].
  destruct (add_child c (mk_node_str T_Multi (clear_I o) (ch :: ch2 :: s'))) eqn:E; cbn; try discriminate.
  intros H. inversion H; subst. eapply add_child_ot; exact E.
Qed.

Lemma add_run_conc run isq : conc_only (fun st => add_run st run isq).
Proof.
  split.
  - intros s g a v st. unfold Parser.add_run, pmap. destruct run as [|c0 run']; [reflexivity|]. cbv zeta.
    change (ms_o (T s g a v st)) with (ms_o st). change (ms_concat (T s g a v st)) with (seto v (ms_concat st)). rewrite add_to_concatenate_seto.
    destruct (add_to_concatenate (ms_o st) (ms_concat st) (if isq then removelast (c0 :: run') else c0 :: run')) as [c| | | |]; cbn [pmap pbind]; try reflexivity.
    destruct isq; [|reflexivity].
    destruct (mk_node_ch T_One (ms_o st) (last (c0 :: run') 0)) as [u| | | |]; reflexivity.
  - intros st r. unfold Parser.add_run. destruct run as [|c0 run']; [intros H; inversion H; apply same_frame_refl|]. cbv zeta.
    destruct (add_to_concatenate (ms_o st) (ms_concat st) (if isq then removelast (c0 :: run') else c0 :: run')) as [c| | | |] eqn:E; cbn [pbind]; try discriminate.
    destruct (add_to_concatenate_ot _ _ _ _ E) as [A B].
    destruct isq.
    + destruct (mk_node_ch T_One (ms_o st) (last (c0 :: run') 0)) as [u| | | |]; cbn [pbind]; try discriminate.
      intros H. inversion H; subst. repeat split; assumption.
    + intros H. inversion H; subst. repeat split; assumption.
Qed.

Definition T2 s g a v (x : mst * list Z) : mst * list Z := (T s g a v (fst x), snd x).
Definition T3 s g a v (x : mst * list Z * bool) : mst * list Z * bool := (T s g a v (fst (fst x)), snd (fst x), snd x).

Lemma scan_quantifier_T s g a v st p : scan_quantifier (T s g a v st) p = pmap (T2 s g a v) (scan_quantifier st p).
Proof.
  unfold Parser.scan_quantifier. destruct p as [|ch p1]; [reflexivity|].
  change (ms_unit (T s g a v st)) with (ms_unit st). change (ms_o (T s g a v st)) with (ms_o st).
  destruct (ms_unit st) as [u|]; [|reflexivity].
  match goal with |- context [pbind ?r _] => destruct r as [[[[mn mx] q]|]|e q| | |] end; cbn [pbind pmap]; try reflexivity.
  - destruct (scan_blank_full (ms_o st) q) as [q1| | | |]; cbn [pbind]; try reflexivity.
    destruct (if hd_is q1 63 then (true, tl q1) else (false, q1)) as [lazy q2].
    destruct (mx <? mn); [reflexivity|].
    rewrite (proj1 (add_concatenate3_conc lazy mn mx)). destruct (add_concatenate3 st lazy mn mx); reflexivity.
  - rewrite (proj1 add_concatenate_conc). destruct (add_concatenate st); reflexivity.
Qed.

Lemma scan_quantifier_same st p r q : scan_quantifier st p = POk (r, q) -> same_frame st r.
Proof.
  unfold Parser.scan_quantifier. destruct p as [|ch p1]; [discriminate|].
  destruct (ms_unit st) as [u|]; [|intros H; inversion H; apply same_frame_refl].
  match goal with |- context [pbind ?r _] => destruct r as [[[[mn mx] q0]|]|e q0| | |] end; cbn [pbind]; try discriminate.
  - destruct (scan_blank_full (ms_o st) q0) as [q1| | | |]; cbn [pbind]; try discriminate.
    destruct (if hd_is q1 63 then (true, tl q1) else (false, q1)) as [lazy q2].
    destruct (mx <? mn); [discriminate|].
    destruct (add_concatenate3 st lazy mn mx) as [r1| | | |] eqn:E; cbn [pbind]; try discriminate.
    intros H. inversion H; subst. exact (proj2 (add_concatenate3_conc lazy mn mx) _ _ E).
  - destruct (add_concatenate st) as [r1| | | |] eqn:E; cbn [pbind]; try discriminate.
    intros H. inversion H; subst. exact (proj2 add_concatenate_conc _ _ E).
Qed.

Lemma after_unit_T s g a v st p : after_unit (T s g a v st) p = pmap (T3 s g a v) (after_unit st p).
Proof.
  unfold Parser.after_unit. change (ms_o (T s g a v st)) with (ms_o st).
  destruct (scan_blank_full (ms_o st) p) as [p1| | | |]; cbn [pbind pmap]; try reflexivity.
  destruct (is_nil p1 || negb (is_true_quantifier p1)).
  - rewrite (proj1 add_concatenate_conc). destruct (add_concatenate st); reflexivity.
  - rewrite scan_quantifier_T. destruct (scan_quantifier st p1) as [[r q]| | | |]; reflexivity.
Qed.

Lemma after_unit_same st p r q w : after_unit st p = POk (r, q, w) -> same_frame st r.
Proof.
  unfold Parser.after_unit. destruct (scan_blank_full (ms_o st) p) as [p1| | | |]; cbn [pbind]; try discriminate.
  destruct (is_nil p1 || negb (is_true_quantifier p1)).
  - destruct (add_concatenate st) as [r1| | | |] eqn:E; cbn [pbind]; try discriminate.
    intros H. inversion H; subst. exact (proj2 add_concatenate_conc _ _ E).
  - destruct (scan_quantifier st p1) as [[r1 q1]| | | |] eqn:E; cbn [pbind]; try discriminate.
    intros H. inversion H; subst. eapply scan_quantifier_same; exact E.
Qed.

(* ---- the relation *)
Definition bg (o : Z) : rnode := mk_node_mn T_Capture o 0 (-1).

(* the bottom frame: the root Capture, its Alternate, and -- until the first "|" -- the first Concatenate *)
Inductive Bot : rnode -> rnode -> rnode -> rnode -> rnode -> Z -> Prop :=
| Bot_first og og' a va c v :
    useRTL og' = useRTL og -> n_t a = T_Alternate -> n_kids a = [] -> n_t c = T_Concatenate ->
    useRTL v = useRTL (n_o c) -> useRTL va = useRTL (n_o a) ->
    Bot (bg og) a c (bg og') (seto va a) v
| Bot_later og og' a va x x' r c :
    useRTL og' = useRTL og -> n_t a = T_Alternate -> n_kids a = x :: r -> krel x x' -> useRTL va = useRTL (n_o a) ->
    Bot (bg og) a c (bg og') (set_kids (seto va a) (x' :: r)) (n_o c).

Inductive Frames : list (rnode * rnode * rnode) -> rnode -> rnode -> rnode ->
                   list (rnode * rnode * rnode) -> rnode -> rnode -> Z -> Prop :=
| Fr_bot g a c g' a' v : Bot g a c g' a' v -> Frames [] g a c [] g' a' v
| Fr_up fs g0 a0 c0 g0' a0' v0 g a c : Bot g0 a0 c0 g0' a0' v0 ->
    Frames (fs ++ [(g0, a0, c0)]) g a c (fs ++ [(g0', a0', seto v0 c0)]) g a (n_o c).

Definition SR (st st' : mst) : Prop :=
  exists s' g' a' v, st' = T s' g' a' v st /\ Frames (ms_stack st) (ms_group st) (ms_alt st) (ms_concat st) s' g' a' v.

Lemma Bot_concat g a c g' a' v c2 : Bot g a c g' a' v -> n_o c2 = n_o c -> n_t c2 = n_t c -> Bot g a c2 g' a' v.
Proof.
  intros B Ho Ht. inversion B; subst.
  - constructor; auto; congruence.
  - rewrite <- Ho. econstructor; eauto.
Qed.

Lemma Frames_concat s g a c s' g' a' v c2 : Frames s g a c s' g' a' v -> n_o c2 = n_o c -> n_t c2 = n_t c -> Frames s g a c2 s' g' a' v.
Proof.
  intros F Ho Ht. inversion F; subst.
  - constructor. eapply Bot_concat; eassumption.
  - rewrite <- Ho. constructor. assumption.
Qed.

Lemma Frames_same st r s' g' a' v : same_frame st r ->
  Frames (ms_stack st) (ms_group st) (ms_alt st) (ms_concat st) s' g' a' v ->
  Frames (ms_stack r) (ms_group r) (ms_alt r) (ms_concat r) s' g' a' v.
Proof. intros [E1 [E2 [E3 [E4 E5]]]] F. rewrite E1, E2, E3. eapply Frames_concat; eassumption. Qed.

Lemma conc_SR F : conc_only F -> forall st st', SR st st' -> prel SR (F st) (F st').
Proof.
  intros [C1 C2] st st' [s' [g' [a' [v [-> Fr]]]]]. rewrite C1. destruct (F st) as [r| | | |] eqn:E; cbn; auto.
  exists s', g', a', v. split; [reflexivity|]. eapply Frames_same; [apply C2; exact E | exact Fr].
Qed.

Definition R2 {B} (x y : mst * B) : Prop := SR (fst x) (fst y) /\ snd x = snd y.
Definition R3 (x y : mst * list Z * bool) : Prop := SR (fst (fst x)) (fst (fst y)) /\ snd (fst x) = snd (fst y) /\ snd x = snd y.

Lemma after_unit_SR st st' p : SR st st' -> prel R3 (after_unit st p) (after_unit st' p).
Proof.
  intros [s' [g' [a' [v [-> Fr]]]]]. rewrite after_unit_T. destruct (after_unit st p) as [[[r q] w]| | | |] eqn:E; cbn; auto.
  split; [|auto]. exists s', g', a', v. split; [reflexivity|]. eapply Frames_same; [eapply after_unit_same; exact E | exact Fr].
Qed.

Lemma SR_set_unit st st' u : SR st st' -> SR (set_unit st u) (set_unit st' u).
Proof. intros [s' [g' [a' [v [-> Fr]]]]]. exists s', g', a', v. split; [reflexivity | exact Fr]. Qed.

Lemma SR_ctl st st' o os ig ac : SR st st' ->
  SR (mkMS (ms_stack st) (ms_group st) (ms_alt st) (ms_concat st) (ms_unit st) o os ig ac)
     (mkMS (ms_stack st') (ms_group st') (ms_alt st') (ms_concat st') (ms_unit st') o os ig ac).
Proof. intros [s' [g' [a' [v [-> Fr]]]]]. exists s', g', a', v. split; [reflexivity | exact Fr]. Qed.

Lemma SR_fields st st' : SR st st' ->
  ms_unit st' = ms_unit st /\ ms_o st' = ms_o st /\ ms_os st' = ms_os st /\ ms_ign st' = ms_ign st /\ ms_autocap st' = ms_autocap st /\
  n_t (ms_group st') = n_t (ms_group st) /\ (ms_stack st = [] <-> ms_stack st' = []).
Proof.
  intros [s' [g' [a' [v [-> Fr]]]]]. cbn. repeat split; auto.
  - inversion Fr; subst; [|reflexivity]. match goal with H : Bot _ _ _ _ _ _ |- _ => inversion H; reflexivity end.
  - inversion Fr; subst; auto. intros HH. destruct fs; discriminate.
  - inversion Fr; subst; auto. intros HH. destruct fs; discriminate.
Qed.

Lemma Bot_inv g a c g' a' v : Bot g a c g' a' v ->
  exists og og', g = bg og /\ g' = bg og' /\ useRTL og' = useRTL og /\ n_t a = T_Alternate /\
    ((exists va, n_kids a = [] /\ n_t c = T_Concatenate /\ useRTL v = useRTL (n_o c) /\ useRTL va = useRTL (n_o a) /\ a' = seto va a) \/
     (exists va x x' r, n_kids a = x :: r /\ krel x x' /\ useRTL va = useRTL (n_o a) /\ a' = set_kids (seto va a) (x' :: r) /\ v = n_o c)).
Proof.
  intros B. inversion B; subst; exists og, og'; repeat (split; [solve [auto]|]).
  - left. exists va. auto.
  - right. exists va, x, x', r. auto.
Qed.

Lemma SR_bot_intro g a c g' a' v u o os ig ac : Bot g a c g' a' v ->
  SR (mkMS [] g a c u o os ig ac) (mkMS [] g' a' (seto v c) u o os ig ac).
Proof. intros B. exists [], g', a', v. split; [reflexivity | constructor; exact B]. Qed.

Lemma SR_up_intro fs g0 a0 c0 g0' a0' v0 g a c u o os ig ac : Bot g0 a0 c0 g0' a0' v0 ->
  SR (mkMS (fs ++ [(g0, a0, c0)]) g a c u o os ig ac) (mkMS (fs ++ [(g0', a0', seto v0 c0)]) g a c u o os ig ac).
Proof.
  intros B. exists (fs ++ [(g0', a0', seto v0 c0)]), g, a, (n_o c). split.
  - unfold T. cbn. rewrite seto_same. reflexivity.
  - constructor. exact B.
Qed.

Lemma SR_cases st st' : SR st st' ->
  (exists g a c g' a' v u o os ig ac, st = mkMS [] g a c u o os ig ac /\ st' = mkMS [] g' a' (seto v c) u o os ig ac /\ Bot g a c g' a' v) \/
  (exists fs g0 a0 c0 g0' a0' v0 g a c u o os ig ac,
     st = mkMS (fs ++ [(g0, a0, c0)]) g a c u o os ig ac /\ st' = mkMS (fs ++ [(g0', a0', seto v0 c0)]) g a c u o os ig ac /\
     Bot g0 a0 c0 g0' a0' v0).
Proof.
  intros [s' [g' [a' [v [-> Fr]]]]]. destruct st as [stk g a c u o os ig ac]. cbn [ms_stack ms_group ms_alt ms_concat] in Fr.
  inversion Fr; subst.
  - left. exists g, a, c, g', a', v, u, o, os, ig, ac. auto.
  - right. exists fs, g0, a0, c0, g0', a0', v0, g', a', c, u, o, os, ig, ac. split; [reflexivity|]. split; [|assumption].
    unfold T. cbn. rewrite seto_same. reflexivity.
Qed.

Lemma fresh_alt_step og og' a va r r' (o : Z) u os ig ac :
  useRTL og' = useRTL og -> n_t a = T_Alternate -> n_kids a = [] -> useRTL va = useRTL (n_o a) -> krel r r' ->
  SR (mkMS [] (bg og) (set_kids a (n_kids a ++ [r])) (mk_node T_Concatenate o) u o os ig ac)
     (mkMS [] (bg og') (seto va (set_kids a (n_kids a ++ [r']))) (mk_node T_Concatenate o) u o os ig ac).
Proof.
  intros R1 Ht Hk R2 K. rewrite Hk. cbn [app].
  replace (seto va (set_kids a [r'])) with (set_kids (seto va (set_kids a [r])) [r']) by (destruct a; reflexivity).
  change (mk_node T_Concatenate o) with (seto (n_o (mk_node T_Concatenate o)) (mk_node T_Concatenate o)) at 2.
  apply SR_bot_intro. apply (Bot_later og og' (set_kids a [r]) va r r' [] (mk_node T_Concatenate o)); auto.
  - rewrite n_t_set_kids. exact Ht.
  - apply n_kids_set_kids.
  - rewrite n_o_set_kids. exact R2.
Qed.

Lemma add_alternate_SR st st' : SR st st' -> prel SR (add_alternate st) (add_alternate st').
Proof.
  intros H. destruct (SR_cases _ _ H) as [[g [a [c [g' [a' [v [u [o [os [ig [ac [-> [-> B]]]]]]]]]]]]] |
                                           [fs [g0 [a0 [c0 [g0' [a0' [v0 [g [a [c [u [o [os [ig [ac [-> [-> B]]]]]]]]]]]]]]]]]].
  - destruct (Bot_inv _ _ _ _ _ _ B) as [og [og' [-> [-> [R1 [Ht [[va [Hk [Hc [Rv [Ra ->]]]]] | [va [x [x' [r [Hk [K [Ra [-> ->]]]]]]]]]]]]]]].
    + unfold Parser.add_alternate. cbn [ms_concat ms_group ms_alt ms_o ms_stack ms_unit ms_os ms_ign ms_autocap].
      change (is_cond_t (n_t (bg og))) with false. change (is_cond_t (n_t (bg og'))) with false. cbv iota.
      rewrite reverse_left_seto by exact Rv. rewrite add_child_seto. unfold Parser.add_child.
      pose proof (reduce_concat_rel (reverse_left c) v ltac:(rewrite reverse_left_t; exact Hc) ltac:(rewrite reverse_left_o; exact Rv)) as RR.
      destruct (reduce (reverse_left c)) as [r| | |], (reduce (seto v (reverse_left c))) as [r'| | |];
        cbn [rrel bind rmap of_res pbind prel] in *; try contradiction; auto.
      apply fresh_alt_step; assumption.
    + unfold Parser.add_alternate. cbn [ms_concat ms_group ms_alt ms_o ms_stack ms_unit ms_os ms_ign ms_autocap].
      change (is_cond_t (n_t (bg og))) with false. change (is_cond_t (n_t (bg og'))) with false. cbv iota.
      rewrite seto_same. unfold Parser.add_child. rewrite n_kids_set_kids, Hk.
      destruct (reduce (reverse_left c)) as [k| | |]; cbn [bind of_res pbind prel]; auto.
      rewrite set_kids_set_kids.
      replace (set_kids (seto va a) ((x' :: r) ++ [k])) with (set_kids (seto va (set_kids a ((x :: r) ++ [k]))) (x' :: (r ++ [k]))) by (destruct a; reflexivity).
      change (mk_node T_Concatenate o) with (seto (n_o (mk_node T_Concatenate o)) (mk_node T_Concatenate o)) at 2.
      apply SR_bot_intro. apply (Bot_later og og' (set_kids a ((x :: r) ++ [k])) va x x' (r ++ [k]) (mk_node T_Concatenate o)); auto.
      * rewrite n_t_set_kids. exact Ht.
      * apply n_kids_set_kids.
      * rewrite n_o_set_kids. exact Ra.
  - unfold Parser.add_alternate. cbn [ms_concat ms_group ms_alt ms_o ms_stack ms_unit ms_os ms_ign ms_autocap].
    destruct (is_cond_t (n_t g)).
    + destruct (add_child g (reverse_left c)) as [g1| | |]; cbn [of_res pbind prel]; auto. apply SR_up_intro. exact B.
    + destruct (add_child a (reverse_left c)) as [a1| | |]; cbn [of_res pbind prel]; auto. apply SR_up_intro. exact B.
Qed.

Lemma app_last_cons {A} (fs : list A) f : exists h t, fs ++ [f] = h :: t.
Proof. destruct fs as [|h t]; [exists f, [] | exists h, (t ++ [f])]; reflexivity. Qed.

(* addGroup inside a group: the frames on the stack are not read *)
Lemma add_group_up fs g0 a0 c0 g0' a0' v0 g a c u o os ig ac : Bot g0 a0 c0 g0' a0' v0 ->
  prel SR (add_group (mkMS (fs ++ [(g0, a0, c0)]) g a c u o os ig ac)) (add_group (mkMS (fs ++ [(g0', a0', seto v0 c0)]) g a c u o os ig ac)).
Proof.
  intros B. unfold Parser.add_group. cbn [ms_concat ms_group ms_alt ms_o ms_stack ms_unit ms_os ms_ign ms_autocap]. cbv zeta.
  destruct (is_cond_t (n_t g)).
  - destruct (add_child g (reverse_left c)) as [g1| | |]; cbn [of_res pbind prel]; auto.
    destruct ((n_t g1 =? T_BackRefCond) && (2 <? zlen (n_kids g1)) || (3 <? zlen (n_kids g1))); cbn [prel]; auto.
    apply SR_up_intro. exact B.
  - destruct (add_child a (reverse_left c)) as [a1| | |]; cbn [of_res pbind prel]; auto.
    destruct (add_child g a1) as [g1| | |]; cbn [of_res pbind prel]; auto. apply SR_up_intro. exact B.
Qed.

Lemma pop_group_SR st st' : SR st st' -> prel SR (pop_group st) (pop_group st').
Proof.
  intros H. destruct (SR_cases _ _ H) as [[g [a [c [g' [a' [v [u [o [os [ig [ac [-> [-> B]]]]]]]]]]]]] |
                                           [fs [g0 [a0 [c0 [g0' [a0' [v0 [g [a [c [u [o [os [ig [ac [-> [-> B]]]]]]]]]]]]]]]]]].
  - cbn. reflexivity.
  - unfold Parser.pop_group. cbn [ms_stack ms_unit ms_o ms_os ms_ign ms_autocap].
    destruct fs as [|[[g1 a1] c1] fs']; cbn [app].
    + destruct (Bot_inv _ _ _ _ _ _ B) as [og [og' [-> [-> _]]]].
      change (n_t (bg og) =? T_ExprCond) with false. change (n_t (bg og') =? T_ExprCond) with false. cbn [andb prel].
      apply SR_bot_intro. exact B.
    + destruct ((n_t g1 =? T_ExprCond) && match n_kids g1 with [] => true | _ => false end).
      * destruct u as [u|]; [|cbn; auto]. destruct (add_child g1 u) as [g2| | |]; cbn [of_res pbind prel]; auto.
        apply SR_up_intro. exact B.
      * cbn [prel]. apply SR_up_intro. exact B.
Qed.

Lemma pop_options_SR st st' : SR st st' -> prel SR (pop_options st) (pop_options st').
Proof.
  intros H. destruct (SR_fields _ _ H) as [_ [_ [Eos _]]]. unfold pop_options. rewrite Eos.
  destruct (ms_os st) as [|o1 r]; cbn [prel]; [reflexivity|].
  pose proof (SR_ctl st st' o1 r (ms_ign st) (ms_autocap st) H) as K.
  destruct (SR_fields _ _ H) as [_ [_ [_ [Ei [Ea _]]]]]. rewrite Ei, Ea. exact K.
Qed.

(* pushGroup; startGroup *)
Lemma push_start_SR st st' gn : SR st st' -> SR (start_group (push_group st) gn) (start_group (push_group st') gn).
Proof.
  intros H. destruct (SR_cases _ _ H) as [[g [a [c [g' [a' [v [u [o [os [ig [ac [-> [-> B]]]]]]]]]]]]] |
                                           [fs [g0 [a0 [c0 [g0' [a0' [v0 [g [a [c [u [o [os [ig [ac [-> [-> B]]]]]]]]]]]]]]]]]].
  - unfold start_group, push_group. cbn [ms_stack ms_group ms_alt ms_concat ms_unit ms_o ms_os ms_ign ms_autocap].
    apply (SR_up_intro [] g a c g' a' v). exact B.
  - unfold start_group, push_group. cbn [ms_stack ms_group ms_alt ms_concat ms_unit ms_o ms_os ms_ign ms_autocap].
    apply (SR_up_intro ((g, a, c) :: fs)). exact B.
Qed.

Lemma round_open_SR tb mco st st' p3 : SR st st' -> prel R2 (round_open tb mco st p3) (round_open tb mco st' p3).
Proof.
  intros H. destruct (SR_fields _ _ H) as [Eu [Eo [Eos [Ei [Ea [Et _]]]]]].
  unfold Parser.round_open. cbv zeta. rewrite Eo, Ei, Ea, Et, Eos.
  destruct (useRE2 (ms_o st) && negb (ms_ign st) && hd_is p3 63 && nth_is 1 p3 80 && nth_is 2 p3 61).
  - destruct (python_backref is_word_char tb (ms_o st) (skipn 3 p3)) as [[x q]| | | |]; cbn [pbind prel]; auto.
    eapply prel_bind; [apply after_unit_SR; apply SR_set_unit; exact H|].
    intros [[r1 q1] w1] [[r2 q2] w2] [K1 [K2 K3]]. cbn in *. subst. split; [exact K1 | reflexivity].
  - destruct (Parser.group_open is_word_char tb mco (n_t (ms_group st)) (mkGV (ms_o st) (ms_ign st) (ms_autocap st)) p3) as [[[gg vv] q]| | | |];
      cbn [pbind prel]; auto.
    destruct gg as [gn|]; cbn [prel]; (split; [|reflexivity]); cbn [fst].
    + apply push_start_SR. apply SR_ctl. exact H.
    + apply SR_ctl. exact H.
Qed.

Lemma round_close_SR st st' p3 : SR st st' -> prel R2 (round_close st p3) (round_close st' p3).
Proof.
  intros H. destruct (SR_cases _ _ H) as [[g [a [c [g' [a' [v [u [o [os [ig [ac [-> [-> B]]]]]]]]]]]]] |
                                           [fs [g0 [a0 [c0 [g0' [a0' [v0 [g [a [c [u [o [os [ig [ac [-> [-> B]]]]]]]]]]]]]]]]]].
  - cbn. auto.
  - unfold Parser.round_close. cbn [ms_stack].
    destruct (app_last_cons fs (g0, a0, c0)) as [h1 [t1 E1]]. destruct (app_last_cons fs (g0', a0', seto v0 c0)) as [h2 [t2 E2]].
    rewrite E1 at 1. rewrite E2 at 1. cbv iota.
    eapply prel_bind; [apply add_group_up; exact B|]. intros s2 s2' H2.
    eapply prel_bind; [apply pop_group_SR; exact H2|]. intros s3 s3' H3.
    eapply prel_bind; [apply pop_options_SR; exact H3|]. intros s4 s4' H4.
    destruct (SR_fields _ _ H4) as [Eu _]. rewrite Eu.
    destruct (ms_unit s4).
    + eapply prel_bind; [apply after_unit_SR; exact H4|].
      intros [[r1 q1] w1] [[r2 q2] w2] [K1 [K2 K3]]. cbn in *. subst. split; [exact K1 | reflexivity].
    + cbn. split; [exact H4 | reflexivity].
Qed.

Lemma R3_next (x y : mst * list Z * bool) : R3 x y ->
  prel R2 (let '(st', q', wq) := x in POk (st', Some (q', wq))) (let '(st', q', wq) := y in POk (st', Some (q', wq))).
Proof. destruct x as [[r1 q1] w1], y as [[r2 q2] w2]. intros [K1 [K2 K3]]. cbn in *. subst. split; [exact K1 | reflexivity]. Qed.

Lemma scan_round_SR tb mco st st' p w : SR st st' -> prel R2 (scan_round tb mco st p w) (scan_round tb mco st' p w).
Proof.
  intros H. destruct (SR_fields _ _ H) as [_ [Eo _]]. unfold Parser.scan_round. cbv zeta. rewrite Eo.
  destruct (scan_blank_full (ms_o st) p) as [p0| | | |]; cbn [pbind prel]; auto.
  destruct (take_run (ms_o st) p0) as [run p1].
  destruct (scan_blank_full (ms_o st) p1) as [p2| | | |]; cbn [pbind prel]; auto.
  destruct p2 as [|ch p3].
  { eapply prel_bind; [apply (conc_SR _ (add_run_conc run false)); exact H|]. intros s1 s1' H1. split; [exact H1 | reflexivity]. }
  destruct (negb (is_special ch)).
  { eapply prel_bind; [apply (conc_SR _ (add_run_conc run false)); exact H|]. intros s1 s1' H1. split; [exact H1 | reflexivity]. }
  eapply prel_bind; [apply (conc_SR _ (add_run_conc run (is_quantifier ch))); exact H|]. intros s1 s1' H1.
  assert (UT : forall (u : pr rnode) q,
            prel R2 (pdo x <- u ; pdo r <- after_unit (set_unit s1 (Some x)) q ; let '(st', q', wq) := r in POk (st', Some (q', wq)))
                    (pdo x <- u ; pdo r <- after_unit (set_unit s1' (Some x)) q ; let '(st', q', wq) := r in POk (st', Some (q', wq)))).
  { intros u q. destruct u as [x| | | |]; cbn [pbind prel]; auto.
    eapply prel_bind; [apply after_unit_SR; apply SR_set_unit; exact H1|]. intros x1 x2 K. apply R3_next. exact K. }
  destruct (ch =? 91).
  { destruct (cs_scan is_word_char cat_name (S (length p3)) false (ms_o st) p3) as [[syn q]| | | |]; cbn [pbind prel]; auto; apply UT. }
  destruct (ch =? 40); [apply round_open_SR; exact H1|].
  destruct (ch =? 124).
  { eapply prel_bind; [apply add_alternate_SR; exact H1|]. intros s2 s2' H2. split; [exact H2 | reflexivity]. }
  destruct (ch =? 41); [apply round_close_SR; exact H1|].
  destruct (ch =? 92).
  { destruct (Parser.scan_backslash_full is_word_char to_lower simple_fold cat_in cat_name false tb (ms_o st) p3) as [[b q]| | | |]; cbn [pbind prel]; auto;
    destruct b as [x|]; [exact (UT (POk x) q) | cbn; auto]. }
  destruct ((ch =? 94) || (ch =? 36) || (ch =? 46)); [apply UT|].
  destruct ((ch =? 123) || (ch =? 42) || (ch =? 43) || (ch =? 63)); [|cbn; auto].
  destruct (SR_fields _ _ H1) as [Eu1 _]. rewrite Eu1. destruct (ms_unit s1); [|cbn; auto].
  eapply prel_bind; [apply after_unit_SR; exact H1|]. intros x1 x2 K. apply R3_next. exact K.
Qed.

Lemma loop_SR tb mco f : forall st st' p w, SR st st' -> prel SR (scan_loop_full f tb mco st p w) (scan_loop_full f tb mco st' p w).
Proof.
  induction f as [|f IH]; intros st st' p w H; cbn [Parser.scan_loop_full]; [cbn; auto|].
  destruct p as [|c p']; [exact H|].
  eapply prel_bind; [apply scan_round_SR; exact H|]. intros [s1 n1] [s1' n1'] [K1 K2]. cbn [fst snd] in K1, K2. subst n1'.
  destruct n1 as [[q wq]|]; [apply IH; exact K1 | exact K1].
Qed.

(* ---- the end: addGroup on the bottom frame *)
Definition rootrel (t t' : rnode) : Prop :=
  exists og og' y y', useRTL og' = useRTL og /\ t = set_kids (bg og) [y] /\ t' = set_kids (bg og') [y'] /\ yrel y y'.

Lemma finish_SR r r' : prel SR r r' -> prel rootrel (finish cat_in r) (finish cat_in r').
Proof.
  intros H. unfold finish. eapply prel_bind; [exact H|]. clear r r' H. intros st st' H.
  destruct (SR_cases _ _ H) as [[g [a [c [g' [a' [v [u [o [os [ig [ac [-> [-> B]]]]]]]]]]]]] |
                                 [fs [g0 [a0 [c0 [g0' [a0' [v0 [g [a [c [u [o [os [ig [ac [-> [-> B]]]]]]]]]]]]]]]]]].
  - cbn [ms_stack]. destruct (Bot_inv _ _ _ _ _ _ B) as [og [og' [-> [-> [R1 [Ht [[va [Hk [Hc [Rv [Ra ->]]]]] | [va [x [x' [r [Hk [K [Ra [-> ->]]]]]]]]]]]]]]].
    + unfold Parser.add_group. cbn [ms_concat ms_group ms_alt ms_o ms_stack ms_unit ms_os ms_ign ms_autocap]. cbv zeta.
      change (is_cond_t (n_t (bg og))) with false. change (is_cond_t (n_t (bg og'))) with false. cbv iota.
      rewrite reverse_left_seto by exact Rv. rewrite add_child_seto.
      rewrite (add_child_eq a (reverse_left c)), (add_child_eq a (seto v (reverse_left c))).
      pose proof (reduce_concat_rel (reverse_left c) v ltac:(rewrite reverse_left_t; exact Hc) ltac:(rewrite reverse_left_o; exact Rv)) as RR.
      destruct (reduce (reverse_left c)) as [k| | |], (reduce (seto v (reverse_left c))) as [k'| | |];
        cbn [rrel bind rmap of_res pbind prel] in *; try contradiction; auto.
      rewrite Hk. cbn [app]. destruct a as [t oa ch m n str st kids]. cbn [n_t n_o] in *. subst t. cbn [set_kids seto].
      unfold Parser.add_child. rewrite !reduce_alt_eq.
      pose proof (reduce_alternation_rel (clear_I oa) (clear_I va) ch m n str st k k' [] RR ltac:(rewrite !useRTL_clear_I; exact Ra)) as RA.
      destruct (reduce_alternation (RN T_Alternate (clear_I oa) ch m n str st [k])) as [y| | |],
               (reduce_alternation (RN T_Alternate (clear_I va) ch m n str st [k'])) as [y'| | |];
        cbn [rrel bind of_res pbind prel ms_unit] in *; try contradiction; auto.
      exists og, og', y, y'. auto.
    + unfold Parser.add_group. cbn [ms_concat ms_group ms_alt ms_o ms_stack ms_unit ms_os ms_ign ms_autocap]. cbv zeta.
      change (is_cond_t (n_t (bg og))) with false. change (is_cond_t (n_t (bg og'))) with false. cbv iota.
      rewrite seto_same. rewrite (add_child_eq a (reverse_left c)), (add_child_eq (set_kids (seto va a) (x' :: r)) (reverse_left c)). rewrite n_kids_set_kids, Hk.
      destruct (reduce (reverse_left c)) as [k| | |]; cbn [bind of_res pbind prel]; auto.
      rewrite set_kids_set_kids. destruct a as [t oa ch m n str st kids]. cbn [n_t n_o] in *. subst t. cbn [set_kids seto app].
      unfold Parser.add_child. rewrite !reduce_alt_eq.
      pose proof (reduce_alternation_rel (clear_I oa) (clear_I va) ch m n str st x x' (r ++ [k]) K ltac:(rewrite !useRTL_clear_I; exact Ra)) as RA.
      destruct (reduce_alternation (RN T_Alternate (clear_I oa) ch m n str st (x :: r ++ [k]))) as [y| | |],
               (reduce_alternation (RN T_Alternate (clear_I va) ch m n str st (x' :: r ++ [k]))) as [y'| | |];
        cbn [rrel bind of_res pbind prel ms_unit] in *; try contradiction; auto.
      exists og, og', y, y'. auto.
  - cbn [ms_stack].
    destruct (app_last_cons fs (g0, a0, c0)) as [h1 [t1 E1]]. destruct (app_last_cons fs (g0', a0', seto v0 c0)) as [h2 [t2 E2]].
    rewrite E1, E2. cbn. auto.
Qed.

(* ---------------------------------------------------------------- the statement on trees *)
Definition rtl_only (o : Z) : Z := if useRTL o then 64 else 0.
Definition blank_o (x : rnode) : rnode := seto (rtl_only (n_o x)) x.
Definition norm_alt1 (x : rnode) : rnode := if is_ec (n_t x) then blank_o x else x.
Definition norm_kid (y : rnode) : rnode :=
  if is_ec (n_t y) || (n_t y =? T_Nothing) then blank_o y
  else if n_t y =? T_Alternate then
    match n_kids y with x :: r => set_kids (blank_o y) (norm_alt1 x :: r) | [] => y end
  else y.
(* blank the Options (all but RightToLeft) of the root, of its child when that is an Alternate / Concatenate / Empty /
   Nothing, and of the first alternative when that is a Concatenate / Empty *)
Definition norm (t : rnode) : rnode := match n_kids t with [y] => set_kids (blank_o t) [norm_kid y] | _ => t end.

Lemma blank_oeqn x x' : oeqn x x' -> blank_o x' = blank_o x.
Proof. intros [v [-> R]]. unfold blank_o, rtl_only. rewrite n_o_seto, seto_seto, R. reflexivity. Qed.

Lemma norm_alt1_krel x x' : krel x x' -> norm_alt1 x' = norm_alt1 x.
Proof.
  intros [-> | [E O]]; [reflexivity|]. unfold norm_alt1. rewrite (oeqn_t _ _ O), E. apply blank_oeqn. exact O.
Qed.

Lemma norm_kid_yrel y y' : yrel y y' -> norm_kid y' = norm_kid y.
Proof.
  intros [-> | [[E O] | [Ht [v [x [x' [r [Hk [K [-> R]]]]]]]]]]; [reflexivity | |].
  - unfold norm_kid. rewrite (oeqn_t _ _ O), E. apply blank_oeqn. exact O.
  - unfold norm_kid. rewrite n_t_set_kids, n_t_seto, Ht, n_kids_set_kids, Hk.
    change (is_ec T_Alternate || (T_Alternate =? T_Nothing)) with false. change (T_Alternate =? T_Alternate) with true. cbv iota.
    rewrite (norm_alt1_krel _ _ K). unfold blank_o, rtl_only. rewrite n_o_set_kids, n_o_seto, R.
    destruct y; reflexivity.
Qed.

Lemma norm_rootrel t t' : rootrel t t' -> norm t' = norm t.
Proof.
  intros [og [og' [y [y' [R [-> [-> Y]]]]]]]. unfold norm. rewrite !n_kids_set_kids, (norm_kid_yrel _ _ Y).
  unfold blank_o, rtl_only. rewrite !n_o_set_kids. cbn [bg mk_node_mn n_o]. rewrite R. reflexivity.
Qed.

Definition norm_res (r : res presult) : res presult :=
  match r with Ok (PR_Tree t c k) => Ok (PR_Tree (norm t) c k) | x => x end.

Lemma SR_init on oc : useRTL oc = useRTL on -> SR (st_init on oc) (st_init oc oc).
Proof.
  intros R. unfold st_init.
  change (mk_node_mn T_Capture on 0 (-1)) with (bg on). change (mk_node_mn T_Capture oc 0 (-1)) with (bg oc).
  change (mk_node T_Alternate oc) with (seto oc (mk_node T_Alternate on)).
  change (mk_node T_Concatenate oc) with (seto oc (mk_node T_Concatenate on)).
  apply SR_bot_intro. constructor; auto.
Qed.

(* Part 2 *)
Theorem parse_from_relabel on oc mco_flag p : useRTL oc = useRTL on ->
  norm_res (parse_from is_word_char to_lower simple_fold participates cat_in cat_name on oc mco_flag p) =
  norm_res (parse_from is_word_char to_lower simple_fold participates cat_in cat_name oc oc mco_flag p).
Proof.
  intros R. unfold parse_from. destruct (negb pl_bounds_ok); [reflexivity|].
  destruct (negb (forallb (fun c => 0 <=? c) p)); [reflexivity|]. cbv zeta.
  destruct (count_captures is_word_char to_lower simple_fold cat_in cat_name (mco_flag || useE oc || useRE2 oc) oc p) as [tb|e q| | |];
    cbn [pbind]; try reflexivity.
  unfold scan_regex_from.
  pose proof (finish_SR _ _ (loop_SR (captab_main tb) (mco_flag || useE oc || useRE2 oc) (S (length p)) _ _ p false (SR_init on oc R))) as K.
  destruct (finish cat_in (scan_loop_full (S (length p)) (captab_main tb) (mco_flag || useE oc || useRE2 oc) (st_init on oc) p false)) as [t|e q| | |],
           (finish cat_in (scan_loop_full (S (length p)) (captab_main tb) (mco_flag || useE oc || useRE2 oc) (st_init oc oc) p false)) as [t'|e' q'| | |];
    cbn [prel] in K; try contradiction; cbn [pbind norm_res]; try reflexivity.
  - rewrite (norm_rootrel _ _ K). reflexivity.
  - destruct K as [-> _]. reflexivity.
  - subst. reflexivity.
Qed.

(* C18 on the parser: "(?cs)" ++ p under o and p under the word "(?cs)" makes of o: the same error code, the same capture
   table, the same tree up to the Options of the nodes made before the first character was read *)
Theorem parse_inline_norm cs o mco_flag p : cs <> [] -> forallb ochar cs = true ->
  norm_res (Parser.parse is_word_char to_lower simple_fold participates cat_in cat_name o mco_flag (inline_prefix cs ++ p)) =
  norm_res (Parser.parse is_word_char to_lower simple_fold participates cat_in cat_name (inline_word o cs) mco_flag p).
Proof.
  intros Hne Hcs. rewrite (parse_inline_prefix is_word_char to_lower simple_fold participates cat_in cat_name cs Hne Hcs).
  rewrite <- (parse_from_same is_word_char to_lower simple_fold participates cat_in cat_name (inline_word o cs)).
  apply parse_from_relabel. exact (proj1 (inline_word_top cs Hcs o)).
Qed.

End Relabel.

(* letters only: "(?imnsx)" switches on exactly these bits *)
Definition oletter (c : Z) : bool := ochar c && negb (c =? 45) && negb (c =? 43).

Lemma inline_word_letters cs : forall o, forallb oletter cs = true ->
  inline_word o cs = fold_left (fun a c => Z.lor a (option_from_code c)) cs o.
Proof.
  unfold inline_word. induction cs as [|c cs IH]; intros o F; [reflexivity|].
  cbn [forallb] in F. apply andb_prop in F. destruct F as [F1 F2]. unfold oletter, ochar in F1.
  cbn [ochars_of fold_left]. destruct (c =? 45); [rewrite !andb_false_r in F1; cbn in F1; discriminate|].
  destruct (c =? 43); [rewrite !andb_false_r in F1; discriminate|]. cbn [orb negb andb] in F1. rewrite !andb_true_r in F1.
  destruct ((option_from_code c =? 0) || is_only_top_option (option_from_code c)); [discriminate|].
  specialize (IH (Z.lor o (option_from_code c)) F2). destruct (ochars_of cs) as [l r]. cbn [fst scan_options] in *. exact IH.
Qed.
