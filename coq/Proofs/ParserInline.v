(* Proofs about Model/Parser.v, part 11: inline options at the head of a pattern equal compile-time options
   (property C18 on the parser model itself, not on the token abstraction of Model/Options.v).

   "(?cs)" ++ p parsed under the option word o, against p parsed under o2 = the word "(?cs)" produces from o
   (cs any non-empty string of option characters  + - i m n s x u  in either case: "(?i)", "(?im-sx)", ...).

   Part 1 (exact): the first round of both passes only consumes "(?cs)" and switches the options:
     parse o ("(?cs)" ++ p) = parse_from o o2 p
   where parse_from on oc runs the same two passes on p from the initial state whose three nodes (the root Capture,
   its Alternate, the first Concatenate) were made under [on] while the options in force are [oc].
   So the ONLY difference between the two spellings is the Options field of these three nodes.

   Part 2: that difference survives into the tree exactly there: the root Capture, its child when it is the
   Alternate / Concatenate / Empty made from those nodes, and the first alternative under the same condition.
   [norm] blanks these (keeping RightToLeft, which inline options cannot change);  norm t = norm t'.
   Error code, capture table and every other node are equal. *)
From Coq Require Import ZifyBool.
From Verif Require Import Base.Prelude Gen.ParseLitGen Model.Escape Model.ParseLit Model.GroupMap Model.CharClass Model.Options
  Model.Parser Proofs.ParseLitProofs Proofs.GMBase Proofs.ParserScan Proofs.ParserTree Proofs.ParserMain Proofs.ParserPre
  Proofs.ParserProofs Proofs.GMPrescan Proofs.ParserOkTree Proofs.ParserOkMain Proofs.ParserOkPre Proofs.ParserOkAgree.

(* ---------------------------------------------------------------- option characters *)
Definition ochar (ch : Z) : bool :=
  (ch =? 45) || (ch =? 43) || negb ((option_from_code ch =? 0) || is_only_top_option (option_from_code ch)).

(* the word "(?cs)" makes of o *)
Definition inline_word (o : Z) (cs : list Z) : Z := scan_options false (fst (ochars_of cs)) o.

Lemma ochars_of_app cs : forall r, forallb ochar cs = true -> (forall c r', r = c :: r' -> ochar c = false) ->
  ochars_of (cs ++ r) = (fst (ochars_of cs), r).
Proof.
  induction cs as [|c cs IH]; intros r F Hr.
  - cbn [app ochars_of fst]. destruct r as [|c r']; [reflexivity|].
    specialize (Hr c r' eq_refl). unfold ochar in Hr. cbn [ochars_of].
    destruct (c =? 45); [discriminate|]. destruct (c =? 43); [discriminate|]. cbn [orb] in Hr.
    destruct ((option_from_code c =? 0) || is_only_top_option (option_from_code c)); [reflexivity | discriminate].
  - cbn [forallb] in F. apply andb_prop in F. destruct F as [F1 F2]. specialize (IH r F2 Hr).
    cbn [app ochars_of]. unfold ochar in F1.
    destruct (c =? 45). { rewrite IH. destruct (ochars_of cs). reflexivity. }
    destruct (c =? 43). { rewrite IH. destruct (ochars_of cs). reflexivity. }
    cbn [orb] in F1. destruct ((option_from_code c =? 0) || is_only_top_option (option_from_code c)); [discriminate|].
    rewrite IH. destruct (ochars_of cs). reflexivity.
Qed.

Lemma scan_options_text_inline o cs p : forallb ochar cs = true ->
  scan_options_text o (cs ++ 41 :: p) = (inline_word o cs, 41 :: p).
Proof.
  intros F. unfold scan_options_text. rewrite (ochars_of_app cs (41 :: p) F); [reflexivity|].
  intros c r' E. inversion E; subst. reflexivity.
Qed.

(* an option character is none of the characters scanGroupOpen / the pre-scan look for after "(?" *)
Lemma ochar_not ch k : ochar ch = true -> ochar k = false -> (ch =? k) = false.
Proof. intros H K. destruct (ch =? k) eqn:E; [|reflexivity]. apply Z.eqb_eq in E. subst. congruence. Qed.

Lemma blank_at_paren x p : hd_is p 40 = true -> starts_qhash (tl p) = false -> blank x BNorm p = POk p.
Proof.
  destruct p as [|c t]; [discriminate|]. cbn [hd_is tl]. intros H Q. assert (c = 40) by lia. subst c.
  cbn [blank]. change (is_space 40) with false. rewrite andb_false_r. cbn [Z.eqb Pos.eqb]. rewrite andb_false_r, Q. reflexivity.
Qed.

Lemma take_run_at_paren o t : take_run o (40 :: t) = ([], 40 :: t).
Proof.
  cbn [take_run]. assert (S : is_stopper o 40 = true) by (unfold is_stopper; destruct (useX o); reflexivity).
  rewrite S. reflexivity.
Qed.

Section Inline.
Variable is_word_char : Z -> bool.
Variable to_lower : Z -> Z.
Variable simple_fold : Z -> Z.
Variable participates : Z -> bool.
Variable cat_in : Z -> Z -> bool.
Variable cat_name : list Z -> Z.

Local Notation parse := (parse is_word_char to_lower simple_fold participates cat_in cat_name).
Local Notation count_captures := (count_captures is_word_char to_lower simple_fold cat_in cat_name).
Local Notation prescan_loop := (prescan_loop is_word_char to_lower simple_fold cat_in cat_name).
Local Notation prescan_step := (prescan_step is_word_char to_lower simple_fold cat_in cat_name).
Local Notation prescan_open := (prescan_open is_word_char).
Local Notation scan_loop_full := (scan_loop_full is_word_char to_lower simple_fold participates cat_in cat_name).
Local Notation scan_round := (scan_round is_word_char to_lower simple_fold participates cat_in cat_name).
Local Notation round_open := (round_open is_word_char cat_in).
Local Notation group_open := (group_open is_word_char).
Local Notation add_group := (add_group cat_in).

(* the initial state of scanRegex with the nodes made under [on] and the options [oc] in force *)
Definition st_init (on oc : Z) : mst :=
  mkMS [] (mk_node_mn T_Capture on 0 (-1)) (mk_node T_Alternate on) (mk_node T_Concatenate on) None oc [] false 1.

Definition finish (r : pr mst) : pr rnode :=
  pdo st <- r ;
  match ms_stack st with
  | _ :: _ => PE PE_MissingParen []
  | [] => pdo st' <- add_group st ; match ms_unit st' with Some u => POk u | None => PC 43 end
  end.

Definition scan_regex_from (tb : captab) (mco : bool) (on oc : Z) (p : list Z) : pr rnode :=
  finish (scan_loop_full (S (length p)) tb mco (st_init on oc) p false).

Definition parse_from (on oc : Z) (mco_flag : bool) (p : list Z) : res presult :=
  if negb pl_bounds_ok then Crash 2
  else if negb (forallb (fun c => 0 <=? c) p) then Crash 3
  else
    let mco := mco_flag || useE oc || useRE2 oc in
    match (pdo tb <- count_captures mco oc p ;
           pdo t <- scan_regex_from (captab_main tb) mco on oc p ;
           POk (PR_Tree t (t_caps tb) (t_captop tb))) with
    | POk r => Ok r
    | PE c _ => Ok (PR_Err c)
    | PO => Ok PR_Outside
    | PC w => Crash w
    | PF => Fuel
    end.

Lemma parse_from_same o mco_flag p : parse_from o o mco_flag p = parse o mco_flag p.
Proof. reflexivity. Qed.

(* ---------------------------------------------------------------- fuel *)
Lemma prescan_loop_more mco f : forall st p k, psafe (prescan_loop f mco st p) ->
  prescan_loop (f + k) mco st p = prescan_loop f mco st p.
Proof.
  induction f as [|f IH]; intros st p k S; [cbn in S; contradiction|].
  cbn [Nat.add Parser.prescan_loop] in *. destruct p as [|ch p1]; [reflexivity|].
  destruct (prescan_step mco st ch p1) as [[st' q]|e q| | |]; cbn [pbind] in *; try reflexivity.
  apply IH. exact S.
Qed.

Lemma scan_loop_more tb mco f : forall st p w k, psafe (scan_loop_full f tb mco st p w) ->
  scan_loop_full (f + k) tb mco st p w = scan_loop_full f tb mco st p w.
Proof.
  induction f as [|f IH]; intros st p w k S; [cbn in S; contradiction|].
  cbn [Nat.add Parser.scan_loop_full] in *. destruct p as [|ch p1]; [reflexivity|].
  destruct (scan_round tb mco st (ch :: p1) w) as [[st' [[q wq]|]]|e q| | |]; cbn [pbind] in *; try reflexivity.
  apply IH. exact S.
Qed.

Lemma prescan_loop_eq f mco st ch p1 :
  prescan_loop (S f) mco st (ch :: p1) = pdo r <- prescan_step mco st ch p1 ; let '(st', q) := r in prescan_loop f mco st' q.
Proof. reflexivity. Qed.

Lemma scan_loop_eq f tb mco st ch p1 w :
  scan_loop_full (S f) tb mco st (ch :: p1) w =
  pdo r <- scan_round tb mco st (ch :: p1) w ;
  let '(st', nxt) := r in match nxt with None => POk st' | Some (q, wq) => scan_loop_full f tb mco st' q wq end.
Proof. reflexivity. Qed.

(* ---------------------------------------------------------------- the first round *)
Section Prefix.
Variable cs : list Z.
Hypothesis Hne : cs <> [].
Hypothesis Hcs : forallb ochar cs = true.

Definition inline_prefix : list Z := 40 :: 63 :: cs ++ [41].

Lemma prefix_app p : inline_prefix ++ p = 40 :: 63 :: cs ++ 41 :: p.
Proof. unfold inline_prefix. cbn [app]. rewrite <- app_assoc. reflexivity. Qed.

Lemma cs_head : exists c r, cs = c :: r /\ ochar c = true.
Proof. destruct cs as [|c r]; [congruence|]. cbn [forallb] in Hcs. apply andb_prop in Hcs. exists c, r. tauto. Qed.

Lemma prescan_first mco c o p :
  prescan_step mco (mkCS c o [] false) 40 (63 :: cs ++ 41 :: p) = POk (mkCS c (inline_word o cs) [] false, p).
Proof.
  destruct cs_head as [c0 [r [E Oc]]].
  unfold Parser.prescan_step. cbn [Z.eqb Pos.eqb]. unfold Parser.prescan_open. cbv zeta. cbn [cs_o cs_c cs_os cs_ign].
  assert (Q : starts_qhash (63 :: cs ++ 41 :: p) = false).
  { rewrite E. unfold starts_qhash, nth_is. cbn [app hd_is skipn]. rewrite (ochar_not c0 35 Oc eq_refl). reflexivity. }
  rewrite Q. cbn [hd_is Z.eqb Pos.eqb tl].
  assert (N1 : hd_is (cs ++ 41 :: p) 60 = false) by (rewrite E; cbn [app hd_is]; apply ochar_not; [exact Oc | reflexivity]).
  assert (N2 : hd_is (cs ++ 41 :: p) 39 = false) by (rewrite E; cbn [app hd_is]; apply ochar_not; [exact Oc | reflexivity]).
  assert (N3 : hd_is (cs ++ 41 :: p) 80 = false) by (rewrite E; cbn [app hd_is]; apply ochar_not; [exact Oc | reflexivity]).
  rewrite N1, N2, N3. cbn [orb]. rewrite !andb_false_r. cbn [andb].
  rewrite (scan_options_text_inline o cs p Hcs). cbn [hd_is Z.eqb Pos.eqb tl]. reflexivity.
Qed.

Lemma group_open_first tb mco gt o a p : (gt =? T_ExprCond) = false ->
  group_open tb mco gt (mkGV o false a) (63 :: cs ++ 41 :: p) = POk (None, mkGV (inline_word o cs) false a, p).
Proof.
  intros Hg. destruct cs_head as [c0 [r [E Oc]]].
  unfold Parser.group_open. cbv zeta. cbn [gv_o gv_ign gv_autocap is_nil hd_is Z.eqb Pos.eqb negb orb tl].
  assert (N0 : nth_is 1 (63 :: cs ++ 41 :: p) 41 = false).
  { rewrite E. unfold nth_is. cbn [app skipn hd_is]. apply ochar_not; [exact Oc | reflexivity]. }
  rewrite N0. pose proof (scan_options_text_inline o cs p Hcs) as SO. rewrite E in SO |- *. cbn [app] in SO |- *.
  rewrite (ochar_not c0 58 Oc eq_refl), (ochar_not c0 61 Oc eq_refl), (ochar_not c0 33 Oc eq_refl), (ochar_not c0 62 Oc eq_refl),
    (ochar_not c0 39 Oc eq_refl), (ochar_not c0 60 Oc eq_refl), (ochar_not c0 40 Oc eq_refl), (ochar_not c0 80 Oc eq_refl).
  cbn [orb andb]. rewrite Hg, SO. cbn [Z.eqb Pos.eqb]. reflexivity.
Qed.

Lemma scan_round_first tb mco st p w : ms_ign st = false ->
  (n_t (ms_group st) =? T_ExprCond) = false ->
  scan_round tb mco st (40 :: 63 :: cs ++ 41 :: p) w =
  POk (mkMS (ms_stack st) (ms_group st) (ms_alt st) (ms_concat st) (ms_unit st) (inline_word (ms_o st) cs) (ms_os st) false (ms_autocap st),
       Some (p, false)).
Proof.
  intros Hi Hg. destruct cs_head as [c0 [r [E Oc]]].
  assert (Q : starts_qhash (63 :: cs ++ 41 :: p) = false).
  { rewrite E. unfold starts_qhash, nth_is. cbn [app hd_is skipn]. rewrite (ochar_not c0 35 Oc eq_refl). reflexivity. }
  unfold Parser.scan_round. cbv zeta.
  assert (B : scan_blank_full (ms_o st) (40 :: 63 :: cs ++ 41 :: p) = POk (40 :: 63 :: cs ++ 41 :: p)).
  { unfold scan_blank_full. apply blank_at_paren; [reflexivity | exact Q]. }
  rewrite B. cbn [pbind]. rewrite take_run_at_paren, B. cbn [pbind].
  change (is_special 40) with true. cbn [negb]. unfold Parser.add_run at 1. cbn [pbind Z.eqb Pos.eqb].
  unfold Parser.round_open. cbv zeta. rewrite Hi.
  assert (N3 : nth_is 1 (63 :: cs ++ 41 :: p) 80 = false).
  { rewrite E. unfold nth_is. cbn [app skipn hd_is]. apply ochar_not; [exact Oc | reflexivity]. }
  rewrite N3, !andb_false_r. cbn [andb].
  rewrite (group_open_first tb mco (n_t (ms_group st)) (ms_o st) (ms_autocap st) p Hg). cbn [pbind gv_o gv_ign gv_autocap]. reflexivity.
Qed.

Lemma ochar_nonneg c : ochar c = true -> (0 <=? c) = true.
Proof.
  intros H. destruct (0 <=? c) eqn:E; [reflexivity|]. exfalso. assert (c < 0) by lia.
  unfold ochar, option_from_code in H.
  repeat match type of H with context [c =? ?k] => replace (c =? k) with false in H by lia end.
  cbn in H. discriminate.
Qed.

Lemma minv_init on oc : minv (st_init on oc).
Proof. split; [|reflexivity]. constructor; cbn; auto; (split; [constructor | reflexivity]). Qed.

Lemma inline_word_top o : useRTL (inline_word o cs) = useRTL o /\ useE (inline_word o cs) = useE o /\ useRE2 (inline_word o cs) = useRE2 o.
Proof. exact (inline_options_keep_top_bits o (cs ++ [41]) _ _ (scan_options_text_inline o cs [] Hcs)). Qed.

Lemma count_captures_prefix mco o p : count_captures mco o (inline_prefix ++ p) = count_captures mco (inline_word o cs) p.
Proof.
  destruct (inline_word_top o) as [_ [KE _]].
  unfold Parser.count_captures. rewrite prefix_app.
  assert (L : length (40 :: 63 :: cs ++ 41 :: p) = S (S (length p) + (length cs + 1))%nat) by (cbn [length]; rewrite app_length; cbn [length]; lia).
  rewrite L, prescan_loop_eq, prescan_first. cbn [pbind].
  rewrite KE. replace (S (S (length p) + (length cs + 1)))%nat with (S (length p) + S (length cs + 1))%nat by lia.
  rewrite prescan_loop_more; [reflexivity|].
  pose proof (prescan_loop_ok is_word_char to_lower simple_fold participates cat_in cat_name mco (S (length p)) (mkCS c_init (inline_word o cs) [] false) p
                (cinv_init mco) ltac:(lia)) as K.
  destruct (prescan_loop (S (length p)) mco (mkCS c_init (inline_word o cs) [] false) p); cbn; auto.
Qed.

Lemma scan_regex_prefix tb mco o p :
  scan_regex is_word_char to_lower simple_fold participates cat_in cat_name tb mco o (inline_prefix ++ p) = scan_regex_from tb mco o (inline_word o cs) p.
Proof.
  unfold Parser.scan_regex, scan_regex_from, finish. cbv zeta. fold (st_init o o). rewrite prefix_app.
  assert (L : length (40 :: 63 :: cs ++ 41 :: p) = S (S (length p) + (length cs + 1))%nat) by (cbn [length]; rewrite app_length; cbn [length]; lia).
  rewrite L, scan_loop_eq.
  rewrite (scan_round_first tb mco (st_init o o) p false eq_refl eq_refl). cbn [pbind st_init ms_stack ms_group ms_alt ms_concat ms_unit ms_o ms_os ms_autocap].
  fold (st_init o (inline_word o cs)).
  replace (S (S (length p) + (length cs + 1)))%nat with (S (length p) + S (length cs + 1))%nat by lia.
  rewrite scan_loop_more; [reflexivity|].
  pose proof (scan_loop_full_ok is_word_char to_lower simple_fold participates cat_in cat_name tb mco (S (length p)) (st_init o (inline_word o cs)) p false
                (minv_init _ _) eq_refl ltac:(lia)) as K.
  destruct (scan_loop_full (S (length p)) tb mco (st_init o (inline_word o cs)) p false); cbn; auto.
Qed.

(* Part 1 *)
Theorem parse_inline_prefix o mco_flag p :
  parse o mco_flag (inline_prefix ++ p) = parse_from o (inline_word o cs) mco_flag p.
Proof.
  destruct (inline_word_top o) as [_ [KE KR]].
  unfold Parser.parse, parse_from. destruct (negb pl_bounds_ok); [reflexivity|].
  assert (F : forallb (fun c => 0 <=? c) (inline_prefix ++ p) = forallb (fun c => 0 <=? c) p).
  { rewrite forallb_app. unfold inline_prefix. cbn [forallb]. rewrite forallb_app. cbn [forallb].
    replace (forallb (fun c => 0 <=? c) cs) with true; [reflexivity|]. symmetry. apply forallb_forall. intros c Hc.
    apply ochar_nonneg. rewrite forallb_forall in Hcs. apply Hcs. exact Hc. }
  rewrite F. destruct (negb (forallb (fun c => 0 <=? c) p)); [reflexivity|]. cbv zeta.
  rewrite KE, KR, count_captures_prefix.
  destruct (count_captures (mco_flag || useE o || useRE2 o) (inline_word o cs) p) as [tb|e q| | |]; cbn [pbind]; try reflexivity.
  rewrite scan_regex_prefix. reflexivity.
Qed.

End Prefix.

End Inline.
