(* C04, part 6: soundness of findFirstCharClass (Analysis2.try_ffcc / find_first_char_class):
   whenever the analysis returns a class, every successful attempt consumes at least one character
   and the first character it consumes (the one at the attempt position, resp. before it for a
   right-to-left pattern) belongs to the class. *)
From Coq Require Import ZifyBool.
From Verif Require Import Base.Prelude Model.Tree Model.Spec Model.CharClass Model.Analysis Model.Analysis2
     Proofs.SpecProofs Proofs.CharClassRanges Proofs.CharClassProofs Proofs.MaskProofs
     Proofs.AnalysisReach Proofs.AnalysisProofs Proofs.AnalysisPrefix Proofs.Analysis2Cls.

(* ---- the inner loops of try_ffcc as top-level functions ---- *)
Section Loops.
Variable cat_in : Z -> Z -> bool.
Variable sets : list cls.

Fixpoint ffcc_cat (l : list node) (cc : option cls) : Z * option cls :=
  match l with
  | [] => (-1, cc)
  | x :: l' => let '(v, cc') := try_ffcc cat_in sets x cc in if v =? -1 then ffcc_cat l' cc' else (v, cc')
  end.

Fixpoint ffcc_alt (l : list node) (cc : option cls) (anynull : bool) : Z * option cls :=
  match l with
  | [] => ((if anynull then -1 else 1), cc)
  | x :: l' => let '(v, cc') := try_ffcc cat_in sets x cc in
               if v =? 0 then (0, cc') else ffcc_alt l' cc' (anynull || (v =? -1))
  end.

Lemma ffcc_concat_eq o l cc : try_ffcc cat_in sets (NConcat o l) cc = ffcc_cat l cc.
Proof. reflexivity. Qed.
Lemma ffcc_alternate_eq o l cc : try_ffcc cat_in sets (NAlternate o l) cc = ffcc_alt l cc false.
Proof. reflexivity. Qed.

Definition ffcc_cond (yes n : node) (cc : option cls) : Z * option cls :=
  let p1 := try_ffcc cat_in sets yes cc in
  let p2 := try_ffcc cat_in sets n (snd p1) in
  ((if (fst p1 =? 0) || (fst p2 =? 0) then 0 else if (fst p1 =? -1) || (fst p2 =? -1) then -1 else 1), snd p2).

Lemma ffcc_brc_eq o g yes n cc : try_ffcc cat_in sets (NBackRefCond o g yes (Some n)) cc = ffcc_cond yes n cc.
Proof.
  cbn [try_ffcc]. unfold ffcc_cond. destruct (try_ffcc cat_in sets yes cc) as [a cc1]. cbn [fst snd].
  destruct (try_ffcc cat_in sets n cc1) as [b cc2]. cbn [fst snd].
  destruct ((a =? 0) || (b =? 0)); [reflexivity|]. destruct ((a =? -1) || (b =? -1)); reflexivity.
Qed.
Lemma ffcc_ec_eq o c yes n cc : try_ffcc cat_in sets (NExprCond o c yes (Some n)) cc = ffcc_cond yes n cc.
Proof.
  cbn [try_ffcc]. unfold ffcc_cond. destruct (try_ffcc cat_in sets yes cc) as [a cc1]. cbn [fst snd].
  destruct (try_ffcc cat_in sets n cc1) as [b cc2]. cbn [fst snd].
  destruct ((a =? 0) || (b =? 0)); [reflexivity|]. destruct ((a =? -1) || (b =? -1)); reflexivity.
Qed.

Lemma ffcc_loop_eq lz o m n r cc :
  try_ffcc cat_in sets (NLoop lz o m n r) cc =
  let p := try_ffcc cat_in sets r cc in ((if (fst p <=? 0) || negb (m =? 0) then fst p else -1), snd p).
Proof.
  cbn [try_ffcc]. destruct (try_ffcc cat_in sets r cc) as [v cc']. cbn [fst snd].
  destruct ((v <=? 0) || negb (m =? 0)); reflexivity.
Qed.

Lemma ffcc_cat_cons x l cc :
  ffcc_cat (x :: l) cc =
  let p := try_ffcc cat_in sets x cc in if fst p =? -1 then ffcc_cat l (snd p) else p.
Proof. cbn [ffcc_cat]. destruct (try_ffcc cat_in sets x cc) as [v cc']. reflexivity. Qed.

Lemma ffcc_alt_cons x l cc an :
  ffcc_alt (x :: l) cc an =
  let p := try_ffcc cat_in sets x cc in
  if fst p =? 0 then (0, snd p) else ffcc_alt l (snd p) (an || (fst p =? -1)).
Proof. cbn [ffcc_alt]. destruct (try_ffcc cat_in sets x cc) as [v cc']. reflexivity. Qed.

(* ---- membership in the accumulator ---- *)
Definition accm (cc : option cls) (x : Z) : bool := match cc with Some c => cmem cat_in c x | None => false end.
Definition cc_ok (cc : option cls) : Prop := match cc with Some c => acc_ok cat_in c | None => True end.

Definition sets_good : Prop := forall id, gcls cat_in (set_cls sets id).

Definition tri (v : Z) : Prop := v = 1 \/ v = 0 \/ v = -1.

Lemma ffcc_ret_tri b : tri (ffcc_ret b).
Proof. unfold tri, ffcc_ret. destruct b; auto. Qed.

(* the accumulator only grows, stays well-formed, and the result is one of 1, 0, -1 *)
Definition mono_at (t : node) : Prop :=
  forall cc, lits_ok t = true -> cc_ok cc ->
    cc_ok (snd (try_ffcc cat_in sets t cc)) /\ tri (fst (try_ffcc cat_in sets t cc)) /\
    forall x, valid_rune x -> accm cc x = true -> accm (snd (try_ffcc cat_in sets t cc)) x = true.

Lemma a2_rune_ok c : rune_ok c = true -> 0 <= c <= max_rune.
Proof. unfold rune_ok, MAXR, max_rune. lia. Qed.

Lemma cc_ok_default cc : cc_ok cc -> acc_ok cat_in (match cc with Some x => x | None => empty_cls end).
Proof. destruct cc; [auto|intros _; apply a2_empty_acc]. Qed.

Lemma accm_default cc x : cmem cat_in (match cc with Some x => x | None => empty_cls end) x = accm cc x.
Proof. destruct cc; reflexivity. Qed.

(* complement of one character, as tryFindFirstCharClass builds it *)
Definition compl_of (c : Z) : list (Z * Z) :=
  (if 0 <? c then [(0, c - 1)] else []) ++ (if c <? MAXR then [(c + 1, MAXR)] else []).

Lemma compl_wf c : 0 <= c <= max_rune -> wf_ranges (compl_of c).
Proof.
  intros Hc. unfold compl_of, MAXR, max_rune in *. unfold wf_ranges.
  destruct (0 <? c) eqn:E1, (c <? 1114111) eqn:E2; cbn [app]; repeat constructor; cbn [fst snd]; unfold max_rune; lia.
Qed.

Lemma compl_mem c x : valid_rune x -> x <> c -> mem (compl_of c) x = true.
Proof.
  unfold valid_rune, max_rune. intros Hx Hne. unfold compl_of, MAXR.
  rewrite mem_app. destruct (x <? c) eqn:E.
  - destruct (0 <? c) eqn:E1; [|lia]. unfold mem, in_range. cbn [existsb fst snd]. lia.
  - destruct (c <? 1114111) eqn:E2; [|lia].
    apply orb_true_iff. right. unfold mem, in_range. cbn [existsb fst snd]. lia.
Qed.

Lemma mono_leaf_add (cc : option cls) (f : cls -> cls) (v : Z) :
  cc_ok cc -> tri v ->
  (forall c0, acc_ok cat_in c0 -> is_mergeable c0 = true ->
     acc_ok cat_in (f c0) /\ forall x, valid_rune x -> cmem cat_in c0 x = true -> cmem cat_in (f c0) x = true) ->
  let c0 := match cc with Some x => x | None => empty_cls end in
  let r := if is_mergeable c0 then (v, Some (f c0)) else (0, Some c0) in
  cc_ok (snd r) /\ tri (fst r) /\ forall x, valid_rune x -> accm cc x = true -> accm (snd r) x = true.
Proof.
  intros Hok Hv Hf c0 r. pose proof (cc_ok_default cc Hok) as H0. fold c0 in H0.
  subst r. destruct (is_mergeable c0) eqn:Em; cbn [fst snd cc_ok accm].
  - destruct (Hf c0 H0 Em) as [A B]. split; [exact A|]. split; [exact Hv|].
    intros x Hx Hm. apply B; [exact Hx|]. subst c0. rewrite accm_default. exact Hm.
  - split; [exact H0|]. split; [right; left; reflexivity|].
    intros x Hx Hm. subst c0. rewrite accm_default. exact Hm.
Qed.

Lemma mono_set (cc : option cls) id (v : Z) :
  sets_good -> cc_ok cc -> tri v ->
  let r := match cc with
           | None => (v, Some (cls_copy (set_cls sets id)))
           | Some c0 => if is_mergeable c0 && is_mergeable (set_cls sets id)
                        then (v, Some (add_set cat_in c0 (set_cls sets id))) else (0, cc)
           end in
  cc_ok (snd r) /\ tri (fst r) /\ forall x, valid_rune x -> accm cc x = true -> accm (snd r) x = true.
Proof.
  intros Hg Hok Hv r. subst r. destruct cc as [c0|]; cbn [fst snd].
  - destruct (is_mergeable c0 && is_mergeable (set_cls sets id)) eqn:Em; cbn [fst snd cc_ok accm].
    + apply andb_true_iff in Em. destruct Em as [E1 E2].
      destruct (a2_add_set cat_in c0 (set_cls sets id) Hok E1 (Hg id) E2) as [A B].
      split; [exact A|]. split; [exact Hv|]. intros x Hx Hm. rewrite B by exact Hx. rewrite Hm. reflexivity.
    + split; [exact Hok|]. split; [right; left; reflexivity|]. auto.
  - cbn [cc_ok accm]. split; [apply a2_copy_acc; apply Hg|]. split; [exact Hv|]. intros x _ H. discriminate H.
Qed.

Lemma ffcc_mono_all : sets_good -> forall t, mono_at t.
Proof.
  intros Hg. induction t using node_ind'; unfold mono_at; intros cc Hl Hok.
  - (* NChar *)
    destruct k; cbn [try_ffcc lits_ok] in *.
    + apply (mono_leaf_add cc (fun c0 => add_char cat_in c0 c) 1 Hok); [left; reflexivity|].
      intros c0 H0 Em. destruct (a2_add_char cat_in c0 c H0 Em (a2_rune_ok c Hl)) as [A B].
      split; [exact A|]. intros x Hx Hm. rewrite B by exact Hx. rewrite Hm. reflexivity.
    + fold (compl_of c).
      apply (mono_leaf_add cc (fun c0 => add_ranges cat_in c0 (compl_of c)) 1 Hok); [left; reflexivity|].
      intros c0 H0 Em. destruct (a2_add_ranges cat_in c0 (compl_of c) H0 Em (compl_wf c (a2_rune_ok c Hl))) as [A B].
      split; [exact A|]. intros x Hx Hm. rewrite B by exact Hx. rewrite Hm. reflexivity.
    + apply (mono_set cc c 1 Hg Hok). left; reflexivity.
  - (* NCharLoop *)
    destruct k; cbn [try_ffcc lits_ok] in *.
    + apply (mono_leaf_add cc (fun c0 => add_char cat_in c0 c) (ffcc_ret (0 <? m)) Hok); [apply ffcc_ret_tri|].
      intros c0 H0 Em. destruct (a2_add_char cat_in c0 c H0 Em (a2_rune_ok c Hl)) as [A B].
      split; [exact A|]. intros x Hx Hm. rewrite B by exact Hx. rewrite Hm. reflexivity.
    + fold (compl_of c).
      apply (mono_leaf_add cc (fun c0 => add_ranges cat_in c0 (compl_of c)) (ffcc_ret (0 <? m)) Hok); [apply ffcc_ret_tri|].
      intros c0 H0 Em. destruct (a2_add_ranges cat_in c0 (compl_of c) H0 Em (compl_wf c (a2_rune_ok c Hl))) as [A B].
      split; [exact A|]. intros x Hx Hm. rewrite B by exact Hx. rewrite Hm. reflexivity.
    + apply (mono_set cc c (ffcc_ret (0 <? m)) Hg Hok). apply ffcc_ret_tri.
  - (* NMulti *)
    cbn [try_ffcc lits_ok] in *.
    assert (Hc : rune_ok (if is_rtl o then last s 0 else hd 0 s) = true).
    { destruct s as [|a s']; [discriminate Hl|]. rewrite forallb_forall in Hl.
      destruct (is_rtl o); [|apply Hl; left; reflexivity].
      apply Hl. assert (Hne : a :: s' <> []) by discriminate.
      destruct (exists_last Hne) as [l' [z Hz]]. rewrite Hz. rewrite last_last. apply in_or_app. right. left. reflexivity. }
    apply (mono_leaf_add cc (fun c0 => add_char cat_in c0 (if is_rtl o then last s 0 else hd 0 s)) 1 Hok); [left; reflexivity|].
    intros c0 H0 Em. destruct (a2_add_char cat_in c0 _ H0 Em (a2_rune_ok _ Hc)) as [A B].
    split; [exact A|]. intros x Hx Hm. rewrite B by exact Hx. rewrite Hm. reflexivity.
  - (* NRef *) cbn [try_ffcc fst snd]. split; [exact Hok|]. split; [right; left; reflexivity|]. auto.
  - cbn [try_ffcc fst snd]. split; [exact Hok|]. split; [right; right; reflexivity|]. auto.
  - cbn [try_ffcc fst snd]. split; [exact Hok|]. split; [right; right; reflexivity|]. auto.
  - cbn [try_ffcc fst snd]. split; [exact Hok|]. split; [right; right; reflexivity|]. auto.
  - cbn [try_ffcc fst snd]. split; [exact Hok|]. split; [right; right; reflexivity|]. auto.
  - (* NConcat *)
    rewrite ffcc_concat_eq. cbn [lits_ok] in Hl. revert cc Hok.
    induction l as [|x l IHl]; intros cc Hok.
    + cbn [ffcc_cat fst snd]. split; [exact Hok|]. split; [right; right; reflexivity|]. auto.
    + rewrite ffcc_cat_cons. cbn [forallb] in Hl. apply andb_true_iff in Hl. destruct Hl as [Hx Hl'].
      inversion H as [|? ? Px Pl]; subst. destruct (Px cc Hx Hok) as (A & B & C).
      cbv zeta. destruct (fst (try_ffcc cat_in sets x cc) =? -1).
      * destruct (IHl Pl Hl' _ A) as (A' & B' & C'). split; [exact A'|]. split; [exact B'|].
        intros z Hz Hm. apply C'; [exact Hz|]. apply C; assumption.
      * split; [exact A|]. split; [exact B|exact C].
  - (* NAlternate *)
    rewrite ffcc_alternate_eq. cbn [lits_ok] in Hl. generalize false. revert cc Hok.
    induction l as [|x l IHl]; intros cc Hok an.
    + cbn [ffcc_alt fst snd]. split; [exact Hok|]. split; [destruct an; [right; right|left]; reflexivity|]. auto.
    + rewrite ffcc_alt_cons. cbn [forallb] in Hl. apply andb_true_iff in Hl. destruct Hl as [Hx Hl'].
      inversion H as [|? ? Px Pl]; subst. destruct (Px cc Hx Hok) as (A & B & C).
      cbv zeta. destruct (fst (try_ffcc cat_in sets x cc) =? 0).
      * cbn [fst snd]. split; [exact A|]. split; [right; left; reflexivity|exact C].
      * destruct (IHl Pl Hl' _ A (an || (fst (try_ffcc cat_in sets x cc) =? -1))) as (A' & B' & C').
        split; [exact A'|]. split; [exact B'|].
        intros z Hz Hm. apply C'; [exact Hz|]. apply C; assumption.
  - (* NLoop *)
    rewrite ffcc_loop_eq. cbn [lits_ok] in Hl. destruct (IHt cc Hl Hok) as (A & B & C). cbv zeta. cbn [fst snd].
    split; [exact A|]. split; [|exact C].
    destruct ((fst (try_ffcc cat_in sets t cc) <=? 0) || negb (m =? 0)); [exact B|right; right; reflexivity].
  - (* NCapture *) cbn [try_ffcc lits_ok] in *. apply IHt; assumption.
  - (* NGroup *) cbn [try_ffcc fst snd]. split; [exact Hok|]. split; [right; left; reflexivity|]. auto.
  - cbn [try_ffcc fst snd]. split; [exact Hok|]. split; [right; right; reflexivity|]. auto.
  - cbn [try_ffcc fst snd]. split; [exact Hok|]. split; [right; right; reflexivity|]. auto.
  - (* NAtomic *) cbn [try_ffcc lits_ok] in *. apply IHt; assumption.
  - (* NBackRefCond *)
    destruct no as [n|]; [|cbn [try_ffcc fst snd]; split; [exact Hok|]; split; [right; right; reflexivity|]; auto].
    rewrite ffcc_brc_eq. unfold ffcc_cond. cbn [lits_ok] in Hl. apply andb_true_iff in Hl. destruct Hl as [Hy Hn].
    cbn [opt_all] in H. destruct (IHt cc Hy Hok) as (A & B & C). destruct (H _ Hn A) as (A' & B' & C').
    cbv zeta. cbn [fst snd]. split; [exact A'|]. split.
    + destruct ((fst (try_ffcc cat_in sets t cc) =? 0) || (fst (try_ffcc cat_in sets n (snd (try_ffcc cat_in sets t cc))) =? 0));
        [right; left; reflexivity|].
      destruct ((fst (try_ffcc cat_in sets t cc) =? -1) || (fst (try_ffcc cat_in sets n (snd (try_ffcc cat_in sets t cc))) =? -1));
        [right; right; reflexivity|left; reflexivity].
    + intros z Hz Hm. apply C'; [exact Hz|]. apply C; assumption.
  - (* NExprCond *)
    destruct no as [n|]; [|cbn [try_ffcc fst snd]; split; [exact Hok|]; split; [right; right; reflexivity|]; auto].
    rewrite ffcc_ec_eq. unfold ffcc_cond. cbn [lits_ok] in Hl. apply andb_true_iff in Hl. destruct Hl as [Hy Hn].
    cbn [opt_all] in H. destruct (IHt2 cc Hy Hok) as (A & B & C). destruct (H _ Hn A) as (A' & B' & C').
    cbv zeta. cbn [fst snd]. split; [exact A'|]. split.
    + destruct ((fst (try_ffcc cat_in sets t2 cc) =? 0) || (fst (try_ffcc cat_in sets n (snd (try_ffcc cat_in sets t2 cc))) =? 0));
        [right; left; reflexivity|].
      destruct ((fst (try_ffcc cat_in sets t2 cc) =? -1) || (fst (try_ffcc cat_in sets n (snd (try_ffcc cat_in sets t2 cc))) =? -1));
        [right; right; reflexivity|left; reflexivity].
    + intros z Hz Hm. apply C'; [exact Hz|]. apply C; assumption.
Qed.

End Loops.

(* ------------------------------------------------------------------------------------------ *)
(* soundness against the reference semantics                                                   *)

Section Sound.
Variable e : env.
Variable cat_in : Z -> Z -> bool.
Variable sets : list cls.
Hypothesis Hgood : sets_good cat_in sets.
(* the oracle of the semantics answers as CharIn does on the exported class structures *)
Hypothesis Hagree : forall id x, set_in e id x = cmem cat_in (set_cls sets id) x.
Hypothesis Hvalid : forall i, valid_rune (char_at e i).

Notation T := (try_ffcc cat_in sets).
Notation accm := (accm cat_in).
Notation cc_ok := (cc_ok cat_in).

(* the first character a direction-d node reads from state s *)
Definition fchar (d : bool) (s : st) : Z := if d then char_at e (pos s - 1) else char_at e (pos s).

Lemma fchar_valid d s : valid_rune (fchar d s).
Proof. unfold fchar. destruct d; apply Hvalid. Qed.

Lemma fchar_pos d s s1 : pos s1 = pos s -> fchar d s1 = fchar d s.
Proof. unfold fchar. intros ->. reflexivity. Qed.

Definition FT (d : bool) (t : node) (s y : st) : Prop :=
  shape_ok d t = true -> no_ci_lit t = true -> lits_ok t = true -> inb e s -> caps_nonneg (caps s) ->
  forall cc, cc_ok cc -> fst (T t cc) <> 0 ->
    (fst (T t cc) = 1 -> 0 < disp d s y) /\ (0 < disp d s y -> accm (snd (T t cc)) (fchar d s) = true).

Definition FS (d : bool) (l : list node) (s y : st) : Prop :=
  forallb (shape_ok d) l = true -> forallb no_ci_lit l = true -> forallb lits_ok l = true ->
  inb e s -> caps_nonneg (caps s) ->
  forall cc, cc_ok cc -> fst (ffcc_cat cat_in sets l cc) <> 0 ->
    (fst (ffcc_cat cat_in sets l cc) = 1 -> 0 < disp d s y) /\
    (0 < disp d s y -> accm (snd (ffcc_cat cat_in sets l cc)) (fchar d s) = true).

Definition FI (d : bool) (r : node) (limit : Z) (s : st) (count : Z) (y : st) : Prop :=
  shape_ok d r = true -> no_ci_lit r = true -> lits_ok r = true -> 0 <= limit -> inb e s -> caps_nonneg (caps s) ->
  forall cc, cc_ok cc -> fst (T r cc) <> 0 ->
    (fst (T r cc) = 1 -> count < 0 -> 0 < disp d s y) /\ (0 < disp d s y -> accm (snd (T r cc)) (fchar d s) = true).

Lemma run_len_pos k c o : forall maxn p, 0 < run_len e k c o maxn p -> char_test e k c (next_char e o p) = true.
Proof.
  destruct maxn as [|m]; intros p H; cbn [run_len] in H; [lia|].
  destruct ((0 <? avail e o p) && char_test e k c (next_char e o p)) eqn:E; [|lia].
  apply andb_true_iff in E. tauto.
Qed.

Lemma next_char_fchar d o s : is_rtl o = d -> next_char e o (pos s) = fchar d s.
Proof. intros <-. unfold next_char, fchar. reflexivity. Qed.

(* the leaf cases: the accumulator after adding what the first character was tested against *)
Lemma leaf_add_sound (cc : option cls) (f : cls -> cls) (v x : Z) :
  cc_ok cc ->
  let c0 := match cc with Some z => z | None => empty_cls end in
  let r := if is_mergeable c0 then (v, Some (f c0)) else (0, Some c0) in
  fst r <> 0 ->
  (forall c0, acc_ok cat_in c0 -> is_mergeable c0 = true -> cmem cat_in (f c0) x = true) ->
  fst r = v /\ accm (snd r) x = true.
Proof.
  intros Hok c0 r Hne Hf. pose proof (cc_ok_default cat_in cc Hok) as H0. fold c0 in H0.
  subst r. destruct (is_mergeable c0) eqn:Em; cbn [fst snd] in *; [|congruence].
  split; [reflexivity|]. cbn [Analysis2Ffcc.accm]. apply Hf; assumption.
Qed.

Lemma set_sound (cc : option cls) id (v x : Z) :
  cc_ok cc -> valid_rune x -> cmem cat_in (set_cls sets id) x = true ->
  let r := match cc with
           | None => (v, Some (cls_copy (set_cls sets id)))
           | Some c0 => if is_mergeable c0 && is_mergeable (set_cls sets id)
                        then (v, Some (add_set cat_in c0 (set_cls sets id))) else (0, cc)
           end in
  fst r <> 0 -> fst r = v /\ accm (snd r) x = true.
Proof.
  intros Hok Hx Hm r Hne. subst r. destruct cc as [c0|]; cbn [fst snd] in *.
  - destruct (is_mergeable c0 && is_mergeable (set_cls sets id)) eqn:Em; cbn [fst snd] in *; [|congruence].
    apply andb_true_iff in Em. destruct Em as [E1 E2]. split; [reflexivity|].
    cbn [Analysis2Ffcc.accm]. destruct (a2_add_set cat_in c0 (set_cls sets id) Hok E1 (Hgood id) E2) as [_ B].
    rewrite B by exact Hx. rewrite Hm. apply orb_true_r.
  - split; [reflexivity|]. cbn [Analysis2Ffcc.accm]. rewrite a2_copy_mem by apply Hgood. exact Hm.
Qed.

Lemma str_match_nth : forall str p i, str_match_at e false str p = true -> (i < length str)%nat ->
  nth i str 0 = char_at e (p + Z.of_nat i).
Proof.
  induction str as [|c str IH]; intros p i Hm Hi; cbn [length] in Hi; [lia|].
  cbn [str_match_at] in Hm. apply andb_true_iff in Hm. destruct Hm as [Hc Hr].
  destruct i as [|i]; cbn [nth].
  - replace (p + Z.of_nat 0) with p by lia. lia.
  - rewrite (IH (p + 1) i Hr) by lia. f_equal. lia.
Qed.

Lemma last_nth (l : list Z) : l <> [] -> last l 0 = nth (length l - 1) l 0.
Proof.
  intros Hne. destruct (exists_last Hne) as [l' [z ->]]. rewrite last_last.
  rewrite app_length. cbn [length]. replace (length l' + 1 - 1)%nat with (length l') by lia.
  rewrite app_nth2 by lia. replace (length l' - length l')%nat with 0%nat by lia. reflexivity.
Qed.

Lemma ffcc_fwd d t s y : Reach e t s y -> shape_ok d t = true -> inb e s -> caps_nonneg (caps s) ->
  inb e y /\ 0 <= disp d s y /\ caps_nonneg (caps y).
Proof.
  intros Hr Hs Hb Hcn. destruct (proj1 (an_shape_all e d) _ _ _ Hr Hs Hb Hcn) as [Hy [H0 _]].
  split; [exact Hy|]. split; [exact H0|]. exact (an_reach_caps e _ _ _ Hr Hcn).
Qed.

Lemma ffcc_fwd_seq d l s y : ReachSeq e l s y -> forallb (shape_ok d) l = true -> inb e s -> caps_nonneg (caps s) ->
  inb e y /\ 0 <= disp d s y.
Proof.
  intros Hr Hs Hb Hcn. destruct (proj1 (proj2 (an_shape_all e d)) _ _ _ Hr Hs Hb Hcn) as [Hy [H0 _]]. tauto.
Qed.

Lemma ffcc_fwd_iter d r limit s count y : ReachIter e r limit s count y -> shape_ok d r = true -> 0 <= limit ->
  inb e s -> caps_nonneg (caps s) -> inb e y /\ 0 <= disp d s y.
Proof.
  intros Hr Hs Hl Hb Hcn. destruct (proj2 (proj2 (an_shape_all e d)) _ _ _ _ _ Hr Hs Hl Hb Hcn) as [Hy [H0 _]]. tauto.
Qed.

Lemma disp_zero_pos d s y : disp d s y = 0 -> pos y = pos s.
Proof. unfold disp. destruct d; lia. Qed.

(* a zero-width node: the result is -1 and nothing is consumed *)
Lemma ft_zero_width d t s y :
  (forall cc, T t cc = (-1, cc)) -> pos y = pos s -> FT d t s y.
Proof.
  intros HT Hp _ _ _ _ _ cc _ _. rewrite HT. cbn [fst snd]. unfold disp. rewrite Hp. split; intros; destruct d; lia.
Qed.

Lemma ft_zero_result d t s y : (forall cc, fst (T t cc) = 0) -> FT d t s y.
Proof. intros HT _ _ _ _ _ cc _ Hne. rewrite HT in Hne. congruence. Qed.

Lemma ffcc_all (d : bool) :
  (forall t s y, Reach e t s y -> FT d t s y) /\
  (forall l s y, ReachSeq e l s y -> FS d l s y) /\
  (forall r limit s count y, ReachIter e r limit s count y -> FI d r limit s count y).
Proof.
  apply Reach_mutind.
  - (* R_char *)
    intros k o c s Hc Hs Hn Hl Hb Hcn cc Hok Hne.
    cbn [shape_ok] in Hs. apply eqb_prop in Hs.
    apply andb_true_iff in Hc. destruct Hc as [Hav Hch]. rewrite (next_char_fchar d o s Hs) in Hch.
    assert (Hd : disp d s (with_pos s (pos s + dir o)) = 1).
    { unfold disp, dir. cbn [pos with_pos]. rewrite Hs. destruct d; lia. }
    rewrite Hd. pose proof (fchar_valid d s) as Hx.
    assert (G : accm (snd (T (NChar k o c) cc)) (fchar d s) = true).
    { destruct k; cbn [try_ffcc lits_ok char_test] in *.
      - apply (leaf_add_sound cc (fun c0 => add_char cat_in c0 c) 1 (fchar d s) Hok Hne).
        intros c0 H0 Em. destruct (a2_add_char cat_in c0 c H0 Em (a2_rune_ok cat_in c Hl)) as [_ B].
        rewrite B by exact Hx. rewrite Hch. apply orb_true_r.
      - fold (compl_of c) in *.
        apply (leaf_add_sound cc (fun c0 => add_ranges cat_in c0 (compl_of c)) 1 (fchar d s) Hok Hne).
        intros c0 H0 Em.
        destruct (a2_add_ranges cat_in c0 (compl_of c) H0 Em (compl_wf cat_in c (a2_rune_ok cat_in c Hl))) as [_ B].
        rewrite B by exact Hx. rewrite (compl_mem cat_in); [apply orb_true_r|exact Hx|lia].
      - rewrite Hagree in Hch. apply (set_sound cc c 1 (fchar d s) Hok Hx Hch Hne). }
    split; [lia|]. intros _. exact G.
  - (* R_charloop *)
    intros k l o c m n s y Hin Hs Hn Hl Hb Hcn cc Hok Hne.
    cbn [shape_ok] in Hs. apply andb_true_iff in Hs. destruct Hs as [Hs Hmn].
    apply andb_true_iff in Hs. destruct Hs as [Hs Hm0]. apply eqb_prop in Hs.
    apply an_charloop_in2 in Hin. destruct Hin as [j [maxn [-> [Hj _]]]].
    assert (Hd : disp d s (with_pos s (pos s + dir o * j)) = j).
    { unfold disp, dir. cbn [pos with_pos]. rewrite Hs. destruct d; lia. }
    rewrite Hd. pose proof (fchar_valid d s) as Hx.
    assert (Hv : fst (T (NCharLoop k l o c m n) cc) = 1 -> 0 < m).
    { destruct k; cbn [try_ffcc].
      - destruct (is_mergeable _); cbn [fst]; [|lia]. unfold ffcc_ret. destruct (0 <? m) eqn:E; lia.
      - destruct (is_mergeable _); cbn [fst]; [|lia]. unfold ffcc_ret. destruct (0 <? m) eqn:E; lia.
      - destruct cc as [c0|]; [destruct (is_mergeable c0 && _)|]; cbn [fst]; try lia;
          unfold ffcc_ret; destruct (0 <? m) eqn:E; lia. }
    split; [intros H1; specialize (Hv H1); lia|]. intros Hj0.
    assert (Hch : char_test e k c (fchar d s) = true).
    { rewrite <- (next_char_fchar d o s Hs). apply (run_len_pos k c o maxn). lia. }
    destruct k; cbn [try_ffcc lits_ok char_test] in *.
    + apply (leaf_add_sound cc (fun c0 => add_char cat_in c0 c) (ffcc_ret (0 <? m)) (fchar d s) Hok Hne).
      intros c0 H0 Em. destruct (a2_add_char cat_in c0 c H0 Em (a2_rune_ok cat_in c Hl)) as [_ B].
      rewrite B by exact Hx. rewrite Hch. apply orb_true_r.
    + fold (compl_of c) in *.
      apply (leaf_add_sound cc (fun c0 => add_ranges cat_in c0 (compl_of c)) (ffcc_ret (0 <? m)) (fchar d s) Hok Hne).
      intros c0 H0 Em.
      destruct (a2_add_ranges cat_in c0 (compl_of c) H0 Em (compl_wf cat_in c (a2_rune_ok cat_in c Hl))) as [_ B].
      rewrite B by exact Hx. rewrite (compl_mem cat_in); [apply orb_true_r|exact Hx|lia].
    + rewrite Hagree in Hch. apply (set_sound cc c (ffcc_ret (0 <? m)) (fchar d s) Hok Hx Hch Hne).
  - (* R_multi *)
    intros o str s y Hin Hs Hn Hl Hb Hcn cc Hok Hne. cbn [shape_ok no_ci_lit lits_ok try_ffcc] in *.
    apply eqb_prop in Hs. apply negb_true_iff in Hn.
    apply an_multi_in in Hin. destruct Hin as [-> [Hav Hm]]. rewrite Hn in Hm.
    assert (Hne0 : str <> []) by (destruct str; [discriminate Hl|discriminate]).
    assert (Hlen : 0 < zlen str) by (unfold zlen; destruct str; [congruence|cbn [length]; lia]).
    assert (Hd : disp d s (with_pos s (pos s + dir o * zlen str)) = zlen str).
    { unfold disp, dir. cbn [pos with_pos]. rewrite Hs. destruct d; lia. }
    rewrite Hd. split; [lia|]. intros _.
    pose proof (fchar_valid d s) as Hx.
    assert (Hfc : (if is_rtl o then last str 0 else hd 0 str) = fchar d s).
    { rewrite Hs in *. unfold fchar. destruct d.
      - rewrite (last_nth str Hne0).
        rewrite (str_match_nth str (pos s - zlen str) (length str - 1) Hm) by (unfold zlen in Hlen; lia).
        f_equal. unfold zlen in *. lia.
      - destruct str as [|c0 str']; [congruence|]. cbn [hd].
        pose proof (str_match_nth (c0 :: str') (pos s) 0 Hm) as H0. cbn [nth length] in H0.
        rewrite H0 by lia. f_equal. lia. }
    rewrite Hfc in *.
    assert (Hc : rune_ok (fchar d s) = true).
    { unfold rune_ok, MAXR. destruct Hx as [H1 H2]. unfold max_rune in H2. lia. }
    apply (leaf_add_sound cc (fun c0 => add_char cat_in c0 (fchar d s)) 1 (fchar d s) Hok Hne).
    intros c0 H0 Em. destruct (a2_add_char cat_in c0 _ H0 Em (a2_rune_ok cat_in _ Hc)) as [_ B].
    rewrite B by exact Hx. rewrite Z.eqb_refl. apply orb_true_r.
  - (* R_ref *) intros o g s y _. apply ft_zero_result. reflexivity.
  - (* R_anchor *) intros a s _. apply ft_zero_width; reflexivity.
  - (* R_empty *) intros s. apply ft_zero_width; reflexivity.
  - (* R_bump *) intros s. apply ft_zero_width; reflexivity.
  - (* R_concat *)
    intros o l s y _ IH Hs Hn Hl Hb Hcn cc Hok Hne. rewrite ffcc_concat_eq in *.
    cbn [shape_ok no_ci_lit lits_ok] in *. apply IH; assumption.
  - (* R_alt *)
    intros o l x s y Hin Hr IH Hs Hn Hl Hb Hcn cc Hok Hne. rewrite ffcc_alternate_eq in *.
    pose proof (an_alt_forallb d l Hs) as Hfa. cbn [no_ci_lit lits_ok] in *.
    destruct (ffcc_fwd d x s y Hr ltac:(rewrite forallb_forall in Hfa; apply Hfa; exact Hin) Hb Hcn) as [_ [Hd0 _]].
    clear Hs. revert Hin Hfa Hn Hl Hok Hne. generalize false. revert cc.
    induction l as [|x0 l IHl]; intros cc an Hin Hfa Hn Hl Hok Hne; [destruct Hin|].
    rewrite ffcc_alt_cons in *. cbv zeta in *.
    cbn [forallb] in Hfa, Hn, Hl.
    apply andb_true_iff in Hfa. destruct Hfa as [Hsx Hsl].
    apply andb_true_iff in Hn. destruct Hn as [Hnx Hnl].
    apply andb_true_iff in Hl. destruct Hl as [Hlx Hll].
    destruct (ffcc_mono_all cat_in sets Hgood x0 cc Hlx Hok) as (A & B & C).
    destruct (fst (T x0 cc) =? 0) eqn:E0; [cbn [fst] in Hne; congruence|].
    destruct Hin as [->|Hin].
    + (* the branch taken *)
      destruct (IH Hsx Hnx Hlx Hb Hcn cc Hok ltac:(lia)) as [I1 I2].
      split.
      * intros H1.
        assert (Hx1 : fst (T x cc) = 1).
        { destruct B as [B|[B|B]]; [exact B|lia|].
          exfalso. rewrite B in H1. replace (an || (-1 =? -1)) with true in H1 by (destruct an; reflexivity).
          clear - H1 Hll. revert H1. generalize (snd (T x cc)). induction l as [|z l IHz]; intros c1 H1.
          - cbn in H1. lia.
          - rewrite ffcc_alt_cons in H1. cbv zeta in H1. destruct (fst (T z c1) =? 0); [cbn in H1; lia|].
            cbn [orb] in H1. cbn [forallb] in Hll. apply andb_true_iff in Hll. eapply IHz; [tauto|exact H1]. }
        apply I1. exact Hx1.
      * intros Hp. specialize (I2 Hp).
        (* the rest of the branches only add to the accumulator *)
        clear - I2 Hll A Hgood Hvalid. pose proof (fchar_valid d s) as Hx.
        revert A I2. generalize (an || (fst (T x cc) =? -1)). generalize (snd (T x cc)).
        induction l as [|z l IHz]; intros c1 an' A I2; [exact I2|].
        rewrite ffcc_alt_cons. cbv zeta. cbn [forallb] in Hll. apply andb_true_iff in Hll. destruct Hll as [Hz Hll].
        destruct (ffcc_mono_all cat_in sets Hgood z c1 Hz A) as (A' & B' & C').
        destruct (fst (T z c1) =? 0); [cbn [snd]; apply C'; assumption|].
        apply IHz; [exact Hll|exact A'|apply C'; assumption].
    + (* a later branch *)
      apply (IHl (snd (T x0 cc)) (an || (fst (T x0 cc) =? -1))); assumption.
  - (* R_loop0 *)
    intros lazy o m n r s y Hm0 Hr IH Hs Hn Hl Hb Hcn cc Hok Hne. subst m.
    rewrite ffcc_loop_eq in *. cbv zeta in *. cbn [fst snd shape_ok no_ci_lit lits_ok] in *.
    apply andb_true_iff in Hs. destruct Hs as [Hmn Hsr].
    assert (Hlim : 0 <= loop_limit 0 n) by (unfold loop_limit, INF; destruct (n =? 2147483647); lia).
    destruct (ffcc_mono_all cat_in sets Hgood r cc Hl Hok) as (_ & B & _).
    assert (Hr0 : fst (T r cc) <> 0).
    { intros H0. rewrite H0 in Hne. cbn in Hne. congruence. }
    destruct (IH Hsr Hn Hl Hlim Hb Hcn cc Hok Hr0) as [_ I2].
    split; [|exact I2].
    intros H1. exfalso. destruct B as [B|[B|B]]; rewrite B in H1; cbn in H1; lia.
  - (* R_loop1 *)
    intros lazy o m n r s s1 y Hm0 Hr1 IH1 Hr2 IH2 Hs Hn Hl Hb Hcn cc Hok Hne.
    rewrite ffcc_loop_eq in *. cbv zeta in *. cbn [fst snd shape_ok no_ci_lit lits_ok] in *.
    apply andb_true_iff in Hs. destruct Hs as [Hmn Hsr].
    assert (Hlim : 0 <= loop_limit m n) by (unfold loop_limit, INF; destruct (n =? 2147483647); lia).
    replace ((fst (T r cc) <=? 0) || negb (m =? 0)) with true in * by (replace (m =? 0) with false by lia; apply eq_sym, orb_true_r).
    destruct (ffcc_fwd d r s s1 Hr1 Hsr Hb Hcn) as [Hb1 [Hd1 Hcn1]].
    destruct (ffcc_fwd_iter d r _ s1 _ y Hr2 Hsr Hlim Hb1 Hcn1) as [_ Hd2].
    destruct (IH1 Hsr Hn Hl Hb Hcn cc Hok Hne) as [I1 I2].
    destruct (IH2 Hsr Hn Hl Hlim Hb1 Hcn1 cc Hok Hne) as [_ J2].
    rewrite (an_disp_trans d s s1 y).
    split; [intros H1; specialize (I1 H1); lia|].
    intros Hp. destruct (Z.eq_dec (disp d s s1) 0) as [Hz|Hz].
    + rewrite <- (fchar_pos d s s1 (disp_zero_pos d s s1 Hz)). apply J2. lia.
    + apply I2. lia.
  - (* R_capture *)
    intros o g r s s1 Hr IH Hs Hn Hl Hb Hcn cc Hok Hne. cbn [try_ffcc shape_ok no_ci_lit lits_ok] in *.
    exact (IH Hs Hn Hl Hb Hcn cc Hok Hne).
  - (* R_balance *)
    intros o g u r s s1 top rest _ Hr IH _ Hs Hn Hl Hb Hcn cc Hok Hne. cbn [try_ffcc shape_ok no_ci_lit lits_ok] in *.
    exact (IH Hs Hn Hl Hb Hcn cc Hok Hne).
  - (* R_group *) intros r s y _ _. apply ft_zero_result. reflexivity.
  - (* R_poslook *) intros o r s s1 _ _. apply ft_zero_width; reflexivity.
  - (* R_neglook *) intros o r s. apply ft_zero_width; reflexivity.
  - (* R_atomic *)
    intros r s y Hr IH Hs Hn Hl Hb Hcn cc Hok Hne. cbn [try_ffcc shape_ok no_ci_lit lits_ok] in *.
    exact (IH Hs Hn Hl Hb Hcn cc Hok Hne).
  - (* R_brc_yes *)
    intros o g yes no s y _ Hr IH Hs Hn Hl Hb Hcn cc Hok Hne.
    destruct no as [n|]; [|cbn [shape_ok] in Hs; rewrite andb_false_r in Hs; discriminate Hs].
    rewrite ffcc_brc_eq in *. unfold ffcc_cond in *. cbv zeta in *. cbn [fst snd shape_ok no_ci_lit lits_ok] in *.
    apply andb_true_iff in Hs. destruct Hs as [Hsy Hsn].
    apply andb_true_iff in Hn. destruct Hn as [Hny Hnn].
    apply andb_true_iff in Hl. destruct Hl as [Hly Hln].
    destruct (ffcc_mono_all cat_in sets Hgood yes cc Hly Hok) as (A & B & C).
    destruct (ffcc_mono_all cat_in sets Hgood n _ Hln A) as (A' & B' & C').
    destruct (fst (T yes cc) =? 0) eqn:E1; [cbn in Hne; congruence|].
    destruct (fst (T n (snd (T yes cc))) =? 0) eqn:E2; [cbn in Hne; congruence|]. cbn [orb] in *.
    destruct (IH Hsy Hny Hly Hb Hcn cc Hok ltac:(lia)) as [I1 I2].
    split.
    + intros H1. apply I1. destruct (fst (T yes cc) =? -1) eqn:E3; [cbn in H1; lia|].
      destruct B as [B|[B|B]]; lia.
    + intros Hp. apply C'; [apply fchar_valid|]. apply I2. exact Hp.
  - (* R_brc_no *)
    intros o g yes n s y _ Hr IH Hs Hn Hl Hb Hcn cc Hok Hne.
    rewrite ffcc_brc_eq in *. unfold ffcc_cond in *. cbv zeta in *. cbn [fst snd shape_ok no_ci_lit lits_ok] in *.
    apply andb_true_iff in Hs. destruct Hs as [Hsy Hsn].
    apply andb_true_iff in Hn. destruct Hn as [Hny Hnn].
    apply andb_true_iff in Hl. destruct Hl as [Hly Hln].
    destruct (ffcc_mono_all cat_in sets Hgood yes cc Hly Hok) as (A & B & C).
    destruct (ffcc_mono_all cat_in sets Hgood n _ Hln A) as (A' & B' & C').
    destruct (fst (T yes cc) =? 0) eqn:E1; [cbn in Hne; congruence|].
    destruct (fst (T n (snd (T yes cc))) =? 0) eqn:E2; [cbn in Hne; congruence|]. cbn [orb] in *.
    destruct (IH Hsn Hnn Hln Hb Hcn _ A ltac:(lia)) as [I1 I2].
    split; [|exact I2].
    intros H1. apply I1. destruct (fst (T yes cc) =? -1) eqn:E3; [cbn in H1; lia|]. cbn [orb] in H1.
    destruct (fst (T n (snd (T yes cc))) =? -1) eqn:E4; [lia|]. destruct B' as [B'|[B'|B']]; lia.
  - (* R_brc_none *)
    intros o g yes s _ Hs. cbn [shape_ok] in Hs. rewrite andb_false_r in Hs. discriminate Hs.
  - (* R_ec_yes *)
    intros o c yes no s s1 y Hrc _ Hr IH Hs Hn Hl Hb Hcn cc Hok Hne.
    destruct no as [n|]; [|cbn [shape_ok] in Hs; rewrite andb_false_r in Hs; discriminate Hs].
    rewrite ffcc_ec_eq in *. unfold ffcc_cond in *. cbv zeta in *. cbn [fst snd shape_ok no_ci_lit lits_ok] in *.
    apply andb_true_iff in Hs. destruct Hs as [Hsy Hsn].
    apply andb_true_iff in Hn. destruct Hn as [Hn Hnn]. apply andb_true_iff in Hn. destruct Hn as [Hnc Hny].
    apply andb_true_iff in Hl. destruct Hl as [Hly Hln].
    destruct (ffcc_mono_all cat_in sets Hgood yes cc Hly Hok) as (A & B & C).
    destruct (ffcc_mono_all cat_in sets Hgood n _ Hln A) as (A' & B' & C').
    destruct (fst (T yes cc) =? 0) eqn:E1; [cbn in Hne; congruence|].
    destruct (fst (T n (snd (T yes cc))) =? 0) eqn:E2; [cbn in Hne; congruence|]. cbn [orb] in *.
    assert (Hb' : inb e (with_pos s1 (pos s))) by exact Hb.
    assert (Hcn' : caps_nonneg (caps (with_pos s1 (pos s)))).
    { cbn [caps with_pos]. exact (an_reach_caps e _ _ _ Hrc Hcn). }
    destruct (IH Hsy Hny Hly Hb' Hcn' cc Hok ltac:(lia)) as [I1 I2].
    assert (Hdd : disp d (with_pos s1 (pos s)) y = disp d s y) by reflexivity.
    assert (Hff : fchar d (with_pos s1 (pos s)) = fchar d s) by reflexivity.
    rewrite Hdd, Hff in *.
    split.
    + intros H1. apply I1. destruct (fst (T yes cc) =? -1) eqn:E3; [cbn in H1; lia|].
      destruct B as [B|[B|B]]; lia.
    + intros Hp. apply C'; [apply fchar_valid|]. apply I2. exact Hp.
  - (* R_ec_no *)
    intros o c yes n s y Hr IH Hs Hn Hl Hb Hcn cc Hok Hne.
    rewrite ffcc_ec_eq in *. unfold ffcc_cond in *. cbv zeta in *. cbn [fst snd shape_ok no_ci_lit lits_ok] in *.
    apply andb_true_iff in Hs. destruct Hs as [Hsy Hsn].
    apply andb_true_iff in Hn. destruct Hn as [Hn Hnn]. apply andb_true_iff in Hn. destruct Hn as [Hnc Hny].
    apply andb_true_iff in Hl. destruct Hl as [Hly Hln].
    destruct (ffcc_mono_all cat_in sets Hgood yes cc Hly Hok) as (A & B & C).
    destruct (ffcc_mono_all cat_in sets Hgood n _ Hln A) as (A' & B' & C').
    destruct (fst (T yes cc) =? 0) eqn:E1; [cbn in Hne; congruence|].
    destruct (fst (T n (snd (T yes cc))) =? 0) eqn:E2; [cbn in Hne; congruence|]. cbn [orb] in *.
    destruct (IH Hsn Hnn Hln Hb Hcn _ A ltac:(lia)) as [I1 I2].
    split; [|exact I2].
    intros H1. apply I1. destruct (fst (T yes cc) =? -1) eqn:E3; [cbn in H1; lia|]. cbn [orb] in H1.
    destruct (fst (T n (snd (T yes cc))) =? -1) eqn:E4; [lia|]. destruct B' as [B'|[B'|B']]; lia.
  - (* R_ec_none *)
    intros o c yes s Hs. cbn [shape_ok] in Hs. rewrite andb_false_r in Hs. discriminate Hs.
  - (* RS_nil *)
    intros s _ _ _ _ _ cc _ _. cbn [ffcc_cat fst snd]. rewrite an_disp_refl. split; intros; lia.
  - (* RS_cons *)
    intros x l s s1 y Hr1 IH1 Hr2 IH2 Hs Hn Hl Hb Hcn cc Hok Hne. rewrite ffcc_cat_cons in *. cbv zeta in *.
    cbn [forallb] in Hs, Hn, Hl.
    apply andb_true_iff in Hs. destruct Hs as [Hsx Hsl].
    apply andb_true_iff in Hn. destruct Hn as [Hnx Hnl].
    apply andb_true_iff in Hl. destruct Hl as [Hlx Hll].
    destruct (ffcc_mono_all cat_in sets Hgood x cc Hlx Hok) as (A & B & C).
    destruct (ffcc_fwd d x s s1 Hr1 Hsx Hb Hcn) as [Hb1 [Hd1 Hcn1]].
    destruct (ffcc_fwd_seq d l s1 y Hr2 Hsl Hb1 Hcn1) as [_ Hd2].
    rewrite (an_disp_trans d s s1 y).
    destruct (fst (T x cc) =? -1) eqn:E1.
    + destruct (IH1 Hsx Hnx Hlx Hb Hcn cc Hok ltac:(lia)) as [_ I2].
      destruct (IH2 Hsl Hnl Hll Hb1 Hcn1 _ A Hne) as [J1 J2].
      split; [intros H1; specialize (J1 H1); lia|].
      intros Hp. destruct (Z.eq_dec (disp d s s1) 0) as [Hz|Hz].
      * rewrite <- (fchar_pos d s s1 (disp_zero_pos d s s1 Hz)). apply J2. lia.
      * (* consumed by x: later children only add *)
        assert (I3 : accm (snd (T x cc)) (fchar d s) = true) by (apply I2; lia).
        clear - I3 Hll A Hgood Hvalid. pose proof (fchar_valid d s) as Hx.
        revert A I3. generalize (snd (T x cc)).
        induction l as [|z l IHz]; intros c1 A I3; [exact I3|].
        rewrite ffcc_cat_cons. cbv zeta. cbn [forallb] in Hll. apply andb_true_iff in Hll. destruct Hll as [Hz Hll].
        destruct (ffcc_mono_all cat_in sets Hgood z c1 Hz A) as (A' & B' & C').
        destruct (fst (T z c1) =? -1); [|apply C'; assumption].
        apply IHz; [exact Hll|exact A'|apply C'; assumption].
    + destruct (IH1 Hsx Hnx Hlx Hb Hcn cc Hok Hne) as [I1 I2].
      assert (H1 : fst (T x cc) = 1) by (destruct B as [B|[B|B]]; lia).
      specialize (I1 H1). split; [intros _; lia|]. intros _. apply I2. exact I1.
  - (* RI_stop *)
    intros r limit s count Hc Hs Hn Hl Hlim Hb Hcn cc Hok Hne. rewrite an_disp_refl.
    split; [|intros; lia]. intros H1 Hc0.
    (* count < 0 and the iteration stops: only possible when limit <= count, excluded by 0 <= limit *)
    lia.
  - (* RI_more *)
    intros r limit s count s1 y Hc Hr1 IH1 Hr2 IH2 Hs Hn Hl Hlim Hb Hcn cc Hok Hne.
    destruct (ffcc_fwd d r s s1 Hr1 Hs Hb Hcn) as [Hb1 [Hd1 Hcn1]].
    destruct (ffcc_fwd_iter d r _ s1 _ y Hr2 Hs Hlim Hb1 Hcn1) as [_ Hd2].
    destruct (IH1 Hs Hn Hl Hb Hcn cc Hok Hne) as [I1 I2].
    destruct (IH2 Hs Hn Hl Hlim Hb1 Hcn1 cc Hok Hne) as [_ J2].
    rewrite (an_disp_trans d s s1 y).
    split; [intros H1 _; specialize (I1 H1); lia|].
    intros Hp. destruct (Z.eq_dec (disp d s s1) 0) as [Hz|Hz].
    + rewrite <- (fchar_pos d s s1 (disp_zero_pos d s s1 Hz)). apply J2. lia.
    + apply I2. lia.
Qed.

(* findFirstCharClass returned the class C: every successful attempt consumes at least one character and the
   first one (at p for a left-to-right pattern, at p-1 for a right-to-left one) is in C *)
Theorem a2_first_char_class_sound (d : bool) fuel root p s' C :
  shape_ok d root = true -> no_ci_lit root = true -> lits_ok root = true -> 0 <= p <= tlen e ->
  find_first_char_class cat_in sets root = Some C ->
  attempt e fuel root p = Ok (Some s') ->
  (if d then 0 < p /\ pos s' < p else p < tlen e /\ p < pos s') /\
  char_in cat_in C (if d then char_at e (p - 1) else char_at e p) = true.
Proof.
  intros Hs Hn Hl Hp Hf Ha. pose proof (attempt_reach e _ _ _ _ Ha) as Hr.
  unfold find_first_char_class in Hf. destruct (T root None) as [v cc] eqn:ET.
  destruct (v =? 1) eqn:Ev; [|discriminate Hf]. subst cc. assert (v = 1) by lia. subst v.
  assert (Hb : inb e {| pos := p; caps := [] |}) by exact Hp.
  destruct (proj1 (ffcc_all d) _ _ _ Hr Hs Hn Hl Hb an_caps_nonneg_nil None I) as [I1 I2];
    [rewrite ET; cbn; lia|].
  rewrite ET in I1, I2. cbn [fst snd] in I1, I2. specialize (I1 eq_refl). specialize (I2 I1).
  destruct (ffcc_fwd d root _ _ Hr Hs Hb an_caps_nonneg_nil) as [Hy _].
  unfold inb, disp, fchar in *. cbn [pos] in *. cbn [Analysis2Ffcc.accm] in I2. unfold cmem in I2.
  destruct d; (split; [lia|exact I2]).
Qed.

End Sound.

(* the boolean check of the exported class table implies the hypothesis sets_good *)
Lemma sets_good_b cat_in sets : forallb cls_good_b sets = true -> sets_good cat_in sets.
Proof.
  intros H id. unfold set_cls. rewrite forallb_forall in H.
  destruct (nth_in_or_default (Z.to_nat id) sets empty_cls) as [Hin|Hd].
  - apply a2_cls_good_b. apply H. exact Hin.
  - rewrite Hd. apply (a2_empty_acc cat_in).
Qed.
