(* The data tables the class model carries are the tables of /repo/syntax/charclass.go as the
   translator reads them on every run (coq/Gen/CharClassGen.v): a change of lcTable or of a shorthand
   boundary list in the source makes one of these equalities fail to check. *)
From Verif Require Import Base.Prelude Model.CharClass Gen.CharClassGen.

(* an "old string" boundary list in, out, in, out ... as closed ranges *)
Fixpoint ccg_pairs (l : list Z) : list (Z * Z) :=
  match l with
  | a :: b :: r => (a, b - 1) :: ccg_pairs r
  | _ => []
  end.

Lemma ccg_lc_table : lc_table = G_lcTable.
Proof. vm_compute. reflexivity. Qed.

Lemma ccg_lc_ops : G_LowercaseSet = 0 /\ G_LowercaseAdd = 1 /\ G_LowercaseBor = 2 /\ G_LowercaseBad = 3.
Proof. repeat split; reflexivity. Qed.

Lemma ccg_ecma_space : ecma_space_ranges = ccg_pairs G_ecmaSpace.
Proof. vm_compute. reflexivity. Qed.

Lemma ccg_ecma_word : ecma_word_ranges = ccg_pairs G_ecmaWord.
Proof. vm_compute. reflexivity. Qed.

Lemma ccg_ecma_digit : ecma_digit_ranges = ccg_pairs G_ecmaDigit.
Proof. vm_compute. reflexivity. Qed.

Lemma ccg_re2_space : re2_space_ranges = ccg_pairs G_re2Space.
Proof. vm_compute. reflexivity. Qed.

Lemma ccg_all :
  lc_table = G_lcTable /\
  (G_LowercaseSet = 0 /\ G_LowercaseAdd = 1 /\ G_LowercaseBor = 2 /\ G_LowercaseBad = 3) /\
  ecma_space_ranges = ccg_pairs G_ecmaSpace /\ ecma_word_ranges = ccg_pairs G_ecmaWord /\
  ecma_digit_ranges = ccg_pairs G_ecmaDigit /\ re2_space_ranges = ccg_pairs G_re2Space.
Proof.
  split; [exact ccg_lc_table|]. split; [exact ccg_lc_ops|]. split; [exact ccg_ecma_space|].
  split; [exact ccg_ecma_word|]. split; [exact ccg_ecma_digit|exact ccg_re2_space].
Qed.
