(* Reading the interpreter's capture arrays through [caps_rel]: isMatched / matchIndex /
   matchLength agree with the reference semantics' capture table (no balancing groups: every
   recorded length is >= 0). *)
From Verif Require Import Base.Prelude Model.Tree Model.Spec Model.VM Model.Writer
  Proofs.SpecProofs Proofs.SpecBoundsProofs Proofs.VMU Proofs.VMUOps Proofs.VMUOps2 Proofs.VMUOps6
  Proofs.CompileBase Proofs.CompileDefs.
From Coq Require Import ZifyBool.

Lemma cf_znth_last2 (x : list Z) i len :
  znth (x ++ [i; len]) (zlen (x ++ [i; len]) - 1) = Some len /\
  znth (x ++ [i; len]) (zlen (x ++ [i; len]) - 2) = Some i.
Proof.
  rewrite zlen_app. change (zlen [i; len]) with 2. pose proof (zlen_nonneg x) as Hx. unfold znth.
  replace (zlen x + 2 - 1 <? 0) with false by lia. replace (zlen x + 2 - 2 <? 0) with false by lia.
  unfold zlen in *. split.
  - rewrite nth_error_app2 by lia. replace (Z.to_nat (Z.of_nat (length x) + 2 - 1) - length x)%nat with 1%nat by lia. reflexivity.
  - rewrite nth_error_app2 by lia. replace (Z.to_nat (Z.of_nat (length x) + 2 - 2) - length x)%nat with 0%nat by lia. reflexivity.
Qed.

Section CF.
Variable e : env.
Variable p : program.

Lemma cf_matched c M g : caps_rel p c M -> 0 <= g < capsize p -> sb_caps_ok e c ->
  vm_is_matched g M = Some (is_matched g c).
Proof.
  intros [Hl Hc] Hg Hok. unfold vm_is_matched, is_matched, mc_get.
  replace (g <? 0) with false by lia. rewrite (cc_znth_nth M g []) by lia. rewrite Hc by exact Hg.
  pose proof (sb_caps_ok_get e g c Hok) as F.
  destruct (cap_get g c) as [|[i len] rest]; [reflexivity|].
  cbn [rev]. rewrite cc_flat_app. cbn [flat].
  destruct (cf_znth_last2 (flat (rev rest)) i len) as [H1 _]. rewrite H1.
  rewrite zlen_app. change (zlen [i; len]) with 2. pose proof (zlen_nonneg (flat (rev rest))).
  replace (zlen (flat (rev rest)) + 2 =? 0) with false by lia.
  inversion F as [|? ? Hiv _]; subst. destruct Hiv as (_ & Hlen & _). cbn [snd] in Hlen.
  replace (len =? -2) with false by lia. reflexivity.
Qed.

Lemma cf_index_length c M g i len rest : caps_rel p c M -> 0 <= g < capsize p -> sb_caps_ok e c ->
  cap_get g c = (i, len) :: rest ->
  vm_match_index g M = Some i /\ vm_match_length g M = Some len /\ 0 <= i /\ 0 <= len /\ i + len <= tlen e.
Proof.
  intros [Hl Hc] Hg Hok Hget. unfold vm_match_index, vm_match_length, mc_get.
  rewrite (cc_znth_nth M g []) by lia. rewrite Hc by exact Hg.
  pose proof (sb_caps_ok_get e g c Hok) as F. rewrite Hget in *.
  cbn [rev]. rewrite cc_flat_app. cbn [flat].
  destruct (cf_znth_last2 (flat (rev rest)) i len) as [H1 H2]. rewrite H1, H2.
  inversion F as [|? ? Hiv _]; subst. destruct Hiv as (Hi & Hlen & Hsum). cbn [fst snd] in *.
  replace (0 <=? i) with true by lia. replace (0 <=? len) with true by lia.
  repeat split; try reflexivity; lia.
Qed.

End CF.
