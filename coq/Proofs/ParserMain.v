(* Proofs about Model/Parser.v, part 3: the back-slash and group-open scanners, the main loop's state
   invariant, one round of scanRegex. *)
From Coq Require Import ZifyBool.
From Verif Require Import Base.Prelude Gen.ParseLitGen Model.Escape Model.ParseLit Model.GroupMap Model.CharClass
  Model.Parser Proofs.ParseLitProofs Proofs.ParserScan Proofs.ParserTree.

(* [pgood r n]: a scanner that builds a node: no fault, the cursor moves right, the node is good *)
Definition node_ok (b : bres) : Prop := match b with BNode x => good x | BNil => True end.

Lemma scan_decimal_nonneg p : forall i v r, 0 <= i -> scan_decimal i p = Ok (v, r) -> 0 <= v.
Proof.
  induction p as [|c p IH]; intros i v r Hi H; cbn [scan_decimal] in H.
  - inversion H. lia.
  - destruct ((c - 48 <? 0) || (9 <? c - 48)) eqn:E; [inversion H; lia|].
    destruct ((214748364 <? i) || ((i =? 214748364) && (7 <? c - 48))); [discriminate|].
    eapply IH; [|exact H]. lia.
Qed.

Lemma decimal_nonneg p v r : decimal p = POk (v, r) -> 0 <= v.
Proof.
  unfold decimal, of_res. destruct (scan_decimal 0 p) as [[v' r']|c|w|] eqn:E; try discriminate.
  intros H. inversion H; subst. eapply scan_decimal_nonneg; [|exact E]. lia.
Qed.

(* scanBlank stops in front of something it would not skip, so running it again changes nothing *)
Lemma blank_head_full x p : forall md c t, blank x md p = POk (c :: t) ->
  x && is_space c = false /\ x && (c =? 35) = false /\ (c =? 40) && starts_qhash t = false.
Proof.
  induction p as [|a p IH]; intros md c t H; cbn [blank] in H.
  - destruct md; discriminate.
  - destruct md.
    + destruct (x && is_space a) eqn:E1; [exact (IH _ _ _ H)|].
      destruct (x && (a =? 35)) eqn:E2; [exact (IH _ _ _ H)|].
      destruct ((a =? 40) && starts_qhash p) eqn:E3; [exact (IH _ _ _ H)|].
      inversion H; subst. auto.
    + destruct (a =? 10) eqn:E10.
      * destruct (is_space 10) eqn:Es; [exact (IH _ _ _ H)|].
        inversion H; subst. assert (c = 10) by lia. subst c. rewrite Es.
        split; [apply andb_false_r | split; [destruct x; reflexivity | reflexivity]].
      * exact (IH _ _ _ H).
    + destruct (a =? 41); exact (IH _ _ _ H).
Qed.

Lemma blank_idem x md p q : blank x md p = POk q -> blank x BNorm q = POk q.
Proof.
  intros H. destruct q as [|c t]; [reflexivity|].
  destruct (blank_head_full x p md c t H) as [H1 [H2 H3]]. cbn [blank]. rewrite H1, H2, H3. reflexivity.
Qed.

Lemma take_run_nil_head o c t : take_run o (c :: t) = ([], c :: t) -> is_stopper o c = true.
Proof. intros H. eapply take_run_stop. exact H. Qed.

Lemma take_run_len o p run p1 : take_run o p = (run, p1) -> length p = (length run + length p1)%nat.
Proof. intros H. apply take_run_app in H. subst. apply app_length. Qed.

Lemma skipn_le {A} k (q : list A) : (length (skipn k q) <= length q)%nat.
Proof. rewrite skipn_length. lia. Qed.

Section Main.
Variable is_word_char : Z -> bool.
Variable to_lower : Z -> Z.
Variable simple_fold : Z -> Z.
Variable participates : Z -> bool.
Variable cat_in : Z -> Z -> bool.
Variable cat_name : list Z -> Z.

Local Notation char_escape := (char_escape is_word_char).
Local Notation parse_property := (parse_property is_word_char cat_name).
Local Notation cs_scan := (cs_scan is_word_char cat_name).
Local Notation mk_node_ch := (mk_node_ch simple_fold cat_in).
Local Notation mk_node_set := (mk_node_set simple_fold cat_in).
Local Notation char_code := (char_code is_word_char to_lower simple_fold cat_in).
Local Notation name_or_num := (name_or_num is_word_char to_lower simple_fold cat_in).
Local Notation basic_backslash := (basic_backslash is_word_char to_lower simple_fold cat_in).
Local Notation scan_backslash_full := (scan_backslash_full is_word_char to_lower simple_fold cat_in cat_name).
Local Notation class_node := (class_node to_lower simple_fold cat_in).

(* a scanner returning a [bres]: no fault, moves right, good node; a node whenever scan_only is off *)
Definition badv (r : pr (bres * list Z)) (n : nat) (so : bool) : Prop :=
  match r with
  | POk (b, q) => (length q <= n)%nat /\ node_ok b /\ (so = false -> b <> BNil)
  | PE _ q => (length q <= n)%nat
  | PO => True
  | PC _ | PF => False
  end.

Lemma badv_weaken r n m so : badv r n so -> (n <= m)%nat -> badv r m so.
Proof. destruct r as [[b q]|c q| | |]; cbn; intros; try lia; auto. destruct H as [H1 H2]. split; [lia | exact H2]. Qed.

Ltac bfin := cbn [badv padv padv0 pbind length node_ok] in *; repeat match goal with |- _ /\ _ => split end;
  try assumption; try (intros; discriminate); try lia; auto.

Lemma char_code_badv so o p : p <> [] -> badv (char_code so o p) (length p) so.
Proof.
  intros Hne. unfold Parser.char_code.
  pose proof (char_escape_adv is_word_char to_lower o p Hne) as CE.
  destruct (char_escape o p) as [[c q]|e q| | |]; cbn [pbind padv] in *; [ | exact CE | exact I | contradiction | contradiction].
  destruct so; [bfin|].
  pose proof (mk_node_ch_ok simple_fold cat_in T_One o (if useI o then to_lower c else c)
                ltac:(reflexivity) ltac:(tnum; lia) ltac:(reflexivity)) as M.
  destruct (mk_node_ch T_One o (if useI o then to_lower c else c)); cbn [pbind badv]; try contradiction; auto.
  bfin.
Qed.

Lemma ref_node_good o g : good (mk_node_mn T_Ref o g 0).
Proof. apply good_leaf; reflexivity || (tnum; lia). Qed.

Lemma name_or_num_badv so tb o k close p0 cur :
  p0 <> [] -> cur <> [] -> (length cur <= length p0)%nat -> badv (name_or_num so tb o k close p0 cur) (length p0) so.
Proof.
  intros H0 Hc Hl. unfold Parser.name_or_num. destruct cur as [|ch cur']; [congruence|].
  destruct (is_digit ch).
  - pose proof (decimal_adv (ch :: cur')) as D.
    destruct (decimal (ch :: cur')) as [[capnum r1]|e q| | |]; cbn [pbind padv] in *;
      [ | bfin | exact I | contradiction | contradiction].
    pose proof (tl_len r1) as T.
    destruct (hd_is r1 close); [|apply char_code_badv; exact H0].
    destruct (ct_slot tb capnum); [|bfin].
    pose proof (ref_node_good o capnum). bfin.
  - destruct (useE o); [exact I|].
    pose proof (scan_word_len' is_word_char to_lower (ch :: cur')) as W. destruct (scan_word is_word_char (ch :: cur')) as [nm r1]. cbn [snd] in W.
    pose proof (tl_len r1) as T.
    destruct (negb (match nm with [] => true | _ => false end) && hd_is r1 close).
    + destruct so; [bfin|].
      destruct (ct_name tb nm) as [g|]; [|bfin].
      pose proof (ref_node_good o g). bfin.
    + destruct k; [|apply char_code_badv; exact H0].
      destruct (negb (match nm with [] => true | _ => false end)); bfin.
Qed.

Lemma basic_backslash_badv so tb o p : badv (basic_backslash so tb o p) (length p) so.
Proof.
  unfold Parser.basic_backslash. destruct p as [|ch p1]; [bfin|].
  destruct ((ch =? 107) && (negb (useE o) || useU o || ct_named tb)).
  { destruct p1 as [|c2 p2]; [bfin|].
    destruct (negb ((c2 =? 60) || (negb (useE o) && (c2 =? 39)))); [bfin|].
    destruct p2 as [|c3 p3]; [bfin|].
    apply name_or_num_badv; try discriminate. cbn [length]. lia. }
  destruct (negb (useE o) && ((ch =? 60) || (ch =? 39)) && longer (ch :: p1) 1) eqn:E.
  { destruct p1 as [|c2 p2]; [cbn in E; rewrite andb_false_r in E; discriminate|].
    apply name_or_num_badv; try discriminate. cbn [length]. lia. }
  destruct ((49 <=? ch) && (ch <=? 57)); [|apply char_code_badv; discriminate].
  pose proof (decimal_adv (ch :: p1)) as D.
  destruct (decimal (ch :: p1)) as [[capnum q]|e q| | |]; cbn [pbind padv] in *;
    [ | bfin | exact I | contradiction | contradiction].
  destruct so; [bfin|].
  destruct (ct_slot tb capnum); [pose proof (ref_node_good o capnum); bfin|].
  destruct ((capnum <=? 9) && negb (useE o)); [bfin | apply char_code_badv; discriminate].
Qed.

Lemma set_node_badv so o s q n :
  (length q <= n)%nat ->
  badv (pdo x <- mk_node_set T_Set o s ; POk (BNode x, q)) n so.
Proof.
  intros Hq. pose proof (mk_node_set_ok simple_fold cat_in o s) as M.
  destruct (mk_node_set T_Set o s); cbn [pbind badv]; try contradiction; auto.
  bfin.
Qed.

Lemma scan_backslash_full_badv so tb o p : badv (scan_backslash_full so tb o p) (length p) so.
Proof.
  unfold Parser.scan_backslash_full. destruct p as [|ch p1]; [bfin|].
  destruct (zmem ch pl_assert_letters).
  { destruct so; [bfin|].
    assert (G : good (mk_node (type_from_code o ch) o)).
    { apply good_mk_node; unfold type_from_code;
        repeat match goal with |- context [if ?b then _ else _] => destruct b end; try reflexivity; try (tnum; lia). }
    bfin. }
  destruct (zmem ch pl_class_letters).
  { destruct so; [bfin|]. apply set_node_badv. cbn [length]. lia. }
  destruct ((ch =? 112) || (ch =? 80)); [|apply basic_backslash_badv].
  destruct (useE o && negb (useU o)); [apply basic_backslash_badv|].
  pose proof (parse_property_adv is_word_char to_lower simple_fold participates cat_in cat_name o p1) as PP.
  destruct (parse_property o p1) as [[id q]|e q| | |]; cbn [pbind padv] in *;
    [ | bfin | exact I | contradiction | contradiction].
  destruct so; [bfin|].
  apply set_node_badv. cbn [length]. lia.
Qed.

(* the Set node of a bracket expression *)
Lemma class_node_ok o s :
  match class_node o s with POk y => good y | PO => True | PE _ _ | PC _ | PF => False end.
Proof.
  unfold Parser.class_node. destruct (useI o && (pp_ci_span_limit <? syn_span o s)); [exact I|].
  pose proof (scan_char_set_rnc cat_in simple_fold to_lower pp_orbit_fuel (Opts (useI o) (useE o) (useRE2 o)) s) as R.
  destruct (scan_char_set cat_in simple_fold to_lower pp_orbit_fuel (Opts (useI o) (useE o) (useRE2 o)) s); cbn in R; try contradiction; auto.
  apply mk_node_set_ok.
Qed.

(* ---------------------------------------------------------------- scanGroupOpen *)
Definition group_t (t : Z) : bool :=
  (t =? T_Capture) || (t =? T_Group) || (t =? T_PosLook) || (t =? T_NegLook) || (t =? T_Atomic) ||
  (t =? T_ExprCond) || (t =? T_BackRefCond).
(* a group node as scanGroupOpen makes it: one of the group kinds, no children yet *)
Definition fresh_group (g : rnode) : Prop := group_t (n_t g) = true /\ n_kids g = [] .

Definition gadv (r : pr (option rnode * gvars * list Z)) (n : nat) : Prop :=
  match r with
  | POk (g, _, q) => (length q <= n)%nat /\ match g with Some x => fresh_group x | None => True end
  | PE _ q => (length q <= n)%nat
  | PO => True
  | PC _ | PF => False
  end.

Ltac gfin := cbn [gadv badv padv padv0 pbind length node_ok] in *; unfold fresh_group;
  repeat match goal with |- _ /\ _ => split end; try assumption; try reflexivity; try (intros; discriminate); try lia; auto.

Ltac csplit := repeat match goal with |- _ /\ _ => split end.
Ltac plia := unfold padv, padv0 in *; cbn [length] in *; lia.

Local Notation group_name := (group_name is_word_char).
Local Notation group_cond := (group_cond is_word_char).
Local Notation group_pyname := (group_pyname is_word_char).
Local Notation group_open := (group_open is_word_char).
Local Notation python_backref := (python_backref is_word_char).

Lemma fresh_mk t o : group_t t = true -> fresh_group (mk_node t o).
Proof. intros H. split; [exact H | reflexivity]. Qed.
Lemma fresh_mk_mn t o m n : group_t t = true -> fresh_group (mk_node_mn t o m n).
Proof. intros H. split; [exact H | reflexivity]. Qed.

Lemma group_name_gadv tb mco v close cur : cur <> [] -> gadv (group_name tb mco v close cur) (length cur).
Proof.
  intros Hc. unfold Parser.group_name. destruct cur as [|ch cur']; [congruence|].
  destruct (useE (gv_o v)); [exact I|].
  set (cur := ch :: cur') in *.
  (* first part: the name or number *)
  match goal with |- gadv (pbind ?a _) _ => assert (A : padv a (length cur)) end.
  { destruct (is_digit ch).
    - pose proof (decimal_adv cur) as D.
      destruct (decimal cur) as [[n q]|e q| | |]; cbn [pbind padv] in *; [ | exact D | exact I | contradiction | contradiction].
      destruct (hd_is_not q close && hd_is_not q 45); [exact D|].
      match goal with |- padv (if ?b then _ else _) _ => destruct b end; exact D.
    - destruct (is_word_char ch).
      + pose proof (scan_word_len' is_word_char to_lower cur) as W. destruct (scan_word is_word_char cur) as [nm q]. cbn [snd] in W.
        destruct (hd_is_not q close && hd_is_not q 45); exact W.
      + destruct (ch =? 45); plia. }
  match goal with |- gadv (pbind ?a _) _ => destruct a as [[[capnum proceed] q]|e q| | |] end;
    cbn [pbind padv] in *; [ | exact A | exact I | contradiction | contradiction].
  (* second part: the name after the dash *)
  match goal with |- gadv (pbind ?a _) _ => assert (B : padv a (length cur)) end.
  { destruct ((negb (capnum =? -1) || proceed) && hd_is q 45); [|cbn; exact A].
    pose proof (tl_len q) as T. destruct (tl q) as [|c3 q1'] eqn:Eq1; [plia|].
    destruct (is_digit c3).
    - pose proof (decimal_adv (c3 :: q1')) as D.
      destruct (decimal (c3 :: q1')) as [[u q2]|e q2| | |]; cbn [pbind padv] in *; [ | plia | exact I | contradiction | contradiction].
      destruct (negb (ct_slot tb u)); [plia|]. destruct (hd_is_not q2 close); plia.
    - destruct (is_word_char c3); [|plia].
      pose proof (scan_word_len' is_word_char to_lower (c3 :: q1')) as W. destruct (scan_word is_word_char (c3 :: q1')) as [nm q2]. cbn [snd] in W.
      destruct (ct_name tb nm); [|plia]. destruct (hd_is_not q2 close); plia. }
  match goal with |- gadv (pbind ?a _) _ => destruct a as [[uncapnum q3]|e q3| | |] end;
    cbn [pbind padv] in *; [ | exact B | exact I | contradiction | contradiction].
  pose proof (tl_len q3) as T3.
  destruct ((negb (capnum =? -1) || negb (uncapnum =? -1)) && hd_is q3 close); gfin.
Qed.

Lemma group_cond_gadv tb v p1 : gadv (group_cond tb v p1) (length p1).
Proof.
  unfold Parser.group_cond. pose proof (tl_len p1) as T.
  match goal with |- gadv (pbind ?a _) _ =>
    assert (A : match a with POk (Some (_, q)) => (length q <= length p1)%nat | POk None => True
                             | PE _ q => (length q <= length p1)%nat | PO => True | _ => False end) end.
  { destruct (tl p1) as [|c p2'] eqn:E2; [exact I|].
    destruct (is_digit c).
    - pose proof (decimal_adv (c :: p2')) as D.
      destruct (decimal (c :: p2')) as [[n q]|e q| | |]; cbn [pbind padv] in *; [ | plia | exact I | contradiction | contradiction].
      pose proof (tl_len q) as Tq.
      destruct (hd_is q 41); [destruct (ct_slot tb n); plia | plia].
    - destruct (is_word_char c); [|exact I].
      destruct (useE (gv_o v)); [exact I|].
      pose proof (scan_word_len' is_word_char to_lower (c :: p2')) as W. destruct (scan_word is_word_char (c :: p2')) as [nm q]. cbn [snd] in W.
      pose proof (tl_len q) as Tq.
      destruct (ct_name tb nm); [|exact I]. destruct (hd_is q 41); [plia | exact I]. }
  match goal with |- gadv (pbind ?a _) _ => destruct a as [[[g q1]|]|e q| | |] end;
    cbn [pbind] in *; [ | | exact A | exact I | contradiction | contradiction].
  - gfin.
  - repeat match goal with |- context [if ?b then _ else _] => destruct b end; gfin.
Qed.

Lemma group_pyname_gadv tb mco v p2 : gadv (group_pyname tb mco v p2) (length p2).
Proof.
  unfold Parser.group_pyname. pose proof (tl_len p2) as T.
  destruct (negb (longer p2 2)); [gfin|].
  destruct (negb (hd_is p2 60)); [gfin|].
  destruct (is_word_char (nth 1 p2 0)); [|gfin].
  destruct (useE (gv_o v)); [exact I|].
  pose proof (scan_word_len' is_word_char to_lower (tl p2)) as W. destruct (scan_word is_word_char (tl p2)) as [nm q]. cbn [snd] in W.
  pose proof (tl_len q) as Tq.
  destruct (hd_is_not q 62); [gfin|].
  match goal with |- context [if ?b then _ else _] => destruct b end; gfin.
Qed.

Lemma group_open_gadv tb mco gt v p : gadv (group_open tb mco gt v p) (length p).
Proof.
  unfold Parser.group_open.
  destruct (is_nil p || negb (hd_is p 63) || nth_is 1 p 41).
  { destruct (useN (gv_o v) || gv_ign v); gfin. }
  pose proof (tl_len p) as T.
  destruct (tl p) as [|ch p2] eqn:E1; [gfin|].
  cbn [length] in T.
  destruct (ch =? 58); [gfin|].
  destruct (ch =? 61); [gfin|].
  destruct (ch =? 33); [gfin|].
  destruct (ch =? 62); [gfin|].
  destruct ((ch =? 39) || (ch =? 60)).
  { destruct p2 as [|c2 p3]; [gfin|]. cbn [length] in T.
    destruct ((c2 =? 61) || (c2 =? 33)).
    - destruct ((if ch =? 39 then 39 else 62) =? 39); [gfin|].
      destruct (c2 =? 61); gfin.
    - pose proof (group_name_gadv tb mco (mkGV (gv_o v) false (gv_autocap v)) (if ch =? 39 then 39 else 62) (c2 :: p3) ltac:(discriminate)) as G.
      destruct (group_name tb mco (mkGV (gv_o v) false (gv_autocap v)) (if ch =? 39 then 39 else 62) (c2 :: p3)) as [[[g v'] q]|e q| | |];
        cbn [gadv length] in *; try contradiction; try exact I; try lia. destruct G as [G1 G2]. split; [lia | exact G2]. }
  destruct (ch =? 40).
  { pose proof (group_cond_gadv tb (mkGV (gv_o v) false (gv_autocap v)) (ch :: p2)) as G.
    destruct (group_cond tb (mkGV (gv_o v) false (gv_autocap v)) (ch :: p2)) as [[[g v'] q]|e q| | |];
      cbn [gadv length] in *; try contradiction; try exact I; try lia. destruct G as [G1 G2]. split; [lia | exact G2]. }
  destruct ((ch =? 80) && useRE2 (gv_o v)).
  { pose proof (group_pyname_gadv tb mco (mkGV (gv_o v) false (gv_autocap v)) p2) as G.
    destruct (group_pyname tb mco (mkGV (gv_o v) false (gv_autocap v)) p2) as [[[g v'] q]|e q| | |];
      cbn [gadv length] in *; try contradiction; try exact I; try lia. destruct G as [G1 G2]. split; [lia | exact G2]. }
  assert (L : forall o2 q, (if gt =? T_ExprCond then (gv_o v, ch :: p2) else scan_options_text (gv_o v) (ch :: p2)) = (o2, q) ->
              (length q <= S (length p2))%nat).
  { intros o2 q H. destruct (gt =? T_ExprCond); [inversion H; cbn [length]; lia|].
    apply scan_options_text_len in H. cbn [length] in H. exact H. }
  destruct (if gt =? T_ExprCond then (gv_o v, ch :: p2) else scan_options_text (gv_o v) (ch :: p2)) as [o2 q] eqn:Eo.
  specialize (L o2 q eq_refl).
  destruct q as [|c q1]; [gfin|]. cbn [length] in L.
  destruct (c =? 41); [gfin|]. destruct (c =? 58); gfin.
Qed.

Lemma python_backref_adv tb o p :
  match python_backref tb o p with
  | POk (x, q) => (length q <= length p)%nat /\ good x
  | PE _ q => (length q <= length p)%nat
  | PO => True
  | PC _ | PF => False
  end.
Proof.
  unfold Parser.python_backref. destruct p as [|ch p']; [plia|].
  destruct (useE o); [exact I|].
  destruct (negb (is_word_char ch)); [plia|].
  pose proof (scan_word_len' is_word_char to_lower (ch :: p')) as W. destruct (scan_word is_word_char (ch :: p')) as [nm q]. cbn [snd] in W.
  pose proof (tl_len q) as Tq.
  destruct (negb (is_nil nm) && hd_is q 41); [|exact W].
  destruct (ct_name tb nm) as [g|]; [|plia]. split; [lia | apply ref_node_good].
Qed.

(* ---------------------------------------------------------------- the state of scanRegex *)
Definition kids_good (x : rnode) : Prop := Forall good (n_kids x).
Definition alt_ok (a : rnode) : Prop := kids_good a /\ n_t a = T_Alternate.
Definition concat_ok (c : rnode) : Prop := kids_good c /\ n_t c = T_Concatenate.
Definition group_ok (g : rnode) : Prop := kids_good g /\ group_t (n_t g) = true.
Definition frame_ok (f : rnode * rnode * rnode) : Prop :=
  let '(g, a, c) := f in group_ok g /\ alt_ok a /\ concat_ok c.

(* everything but the depth of the option stack *)
Record mbody (st : mst) : Prop := mkMB {
  mb_group : group_ok (ms_group st);
  mb_alt : alt_ok (ms_alt st);
  mb_concat : concat_ok (ms_concat st);
  mb_stack : Forall frame_ok (ms_stack st);
  mb_unit : match ms_unit st with Some u => good u | None => True end }.

(* pushOptions / popOptions run in step with pushGroup / popGroup *)
Definition minv (st : mst) : Prop := mbody st /\ length (ms_os st) = length (ms_stack st).

Local Notation add_child := (add_child cat_in).
Local Notation ACO := (add_child_ok is_word_char to_lower simple_fold participates cat_in cat_name).

Lemma add_child_pres parent child : kids_good parent -> good child ->
  exists p', add_child parent child = Ok p' /\ kids_good p' /\ n_kids p' <> [] /\ n_t p' = n_t parent /\
             length (n_kids p') = S (length (n_kids parent)).
Proof.
  intros K G. destruct (ACO parent child K G) as [p' [E [K' [NE [Ht [_ [_ L]]]]]]].
  exists p'. repeat split; assumption.
Qed.

(* a finished group node is good *)
Lemma group_done g : group_ok g -> n_kids g <> [] -> good g.
Proof.
  intros [K T] NE. destruct g as [t o ch m n str st kids]. cbn [n_kids n_t] in *. unfold kids_good in K. cbn [n_kids] in K.
  apply good_eq. split; [|exact K]. unfold shape_ok. repeat split; intros; try assumption; exfalso; unfold group_t in T; tnum; lia.
Qed.

Lemma alt_good a : alt_ok a -> good a.
Proof.
  intros [K T]. destruct a as [t o ch m n str st kids]. cbn [n_kids n_t] in *. unfold kids_good in K. cbn [n_kids] in K.
  apply good_eq. split; [|exact K]. unfold shape_ok. repeat split; intros; exfalso; tnum; lia.
Qed.

Lemma concat_rev_good c : concat_ok c -> good (reverse_left c).
Proof.
  intros [K T]. apply (reverse_left_good is_word_char to_lower simple_fold participates cat_in cat_name); assumption.
Qed.

Local Notation add_concatenate := (add_concatenate cat_in).
Local Notation add_concatenate3 := (add_concatenate3 cat_in).
Local Notation add_ones := (add_ones simple_fold cat_in).
Local Notation add_to_concatenate := (add_to_concatenate simple_fold participates cat_in).
Local Notation add_alternate := (add_alternate cat_in).
Local Notation add_group := (add_group cat_in).
Local Notation pop_group := (pop_group cat_in).
Local Notation add_run := (add_run simple_fold participates cat_in).
Local Notation scan_quantifier := (scan_quantifier cat_in).
Local Notation after_unit := (after_unit cat_in).
Local Notation round_open := (round_open is_word_char cat_in).
Local Notation round_close := (round_close cat_in).
Local Notation simple_unit := (simple_unit simple_fold cat_in).
Local Notation scan_round := (scan_round is_word_char to_lower simple_fold participates cat_in cat_name).
Local Notation scan_loop_full := (scan_loop_full is_word_char to_lower simple_fold participates cat_in cat_name).
Local Notation scan_regex := (scan_regex is_word_char to_lower simple_fold participates cat_in cat_name).

(* the fields a step leaves alone *)
Definition same_nest (st st' : mst) : Prop :=
  ms_stack st' = ms_stack st /\ ms_os st' = ms_os st.

Lemma add_concatenate_ok st : mbody st -> ms_unit st <> None ->
  exists st', add_concatenate st = POk st' /\ mbody st' /\ ms_unit st' = None /\ same_nest st st'.
Proof.
  intros [Bg Ba Bc Bs Bu] Hu. unfold Parser.add_concatenate. destruct (ms_unit st) as [u|] eqn:Eu; [|congruence].
  destruct Bc as [Kc Tc].
  destruct (add_child_pres (ms_concat st) u Kc Bu) as [c' [E [K' [_ [T' _]]]]]. rewrite E. cbn [of_res pbind].
  eexists. split; [reflexivity|]. split; [|split; [reflexivity | split; reflexivity]].
  constructor; cbn; auto. split; [exact K' | congruence].
Qed.

Lemma add_concatenate3_ok st lazy mn mx : mbody st -> ms_unit st <> None -> 0 <= mn ->
  exists st', add_concatenate3 st lazy mn mx = POk st' /\ mbody st' /\ ms_unit st' = None /\ same_nest st st'.
Proof.
  intros [Bg Ba Bc Bs Bu] Hu Hmn. unfold Parser.add_concatenate3. destruct (ms_unit st) as [u|] eqn:Eu; [|congruence].
  destruct (make_quantifier_ok is_word_char to_lower simple_fold participates cat_in cat_name u lazy mn mx Bu Hmn) as [q [Eq Gq]].
  rewrite Eq. cbn [of_res pbind].
  destruct Bc as [Kc Tc].
  destruct (add_child_pres (ms_concat st) q Kc Gq) as [c' [E [K' [_ [T' _]]]]]. rewrite E. cbn [of_res pbind].
  eexists. split; [reflexivity|]. split; [|split; [reflexivity | split; reflexivity]].
  constructor; cbn; auto. split; [exact K' | congruence].
Qed.

Lemma add_ones_ok o s : forall c, concat_ok c ->
  match add_ones o c s with POk c' => concat_ok c' | PO => True | _ => False end.
Proof.
  induction s as [|ch s IH]; intros c Hc; cbn [Parser.add_ones]; [exact Hc|].
  pose proof (mk_node_ch_ok simple_fold cat_in T_One o ch ltac:(reflexivity) ltac:(tnum; lia) ltac:(reflexivity)) as M.
  destruct (Parser.mk_node_ch simple_fold cat_in T_One o ch) as [x| | | |]; cbn [pbind]; try contradiction; auto.
  destruct Hc as [Kc Tc].
  destruct (add_child_pres c x Kc M) as [c' [E [K' [_ [T' _]]]]]. rewrite E. cbn [of_res pbind].
  apply IH. split; [exact K' | congruence].
Qed.

Lemma add_to_concatenate_ok o c s : concat_ok c ->
  match add_to_concatenate o c s with POk c' => concat_ok c' | PO => True | _ => False end.
Proof.
  intros Hc. unfold Parser.add_to_concatenate.
  destruct s as [|ch [|ch2 s']]; [exact Hc | apply add_ones_ok; exact Hc |].
  destruct (negb (useI o) || negb (existsb participates (ch :: ch2 :: s'))); [|apply add_ones_ok; exact Hc].
  destruct Hc as [Kc Tc].
  assert (G : good (mk_node_str T_Multi (clear_I o) (ch :: ch2 :: s'))).
  { apply good_eq. split; [|constructor]. unfold shape_ok. repeat split; intros; try discriminate; exfalso; tnum; lia. }
  destruct (add_child_pres c _ Kc G) as [c' [E [K' [_ [T' _]]]]]. rewrite E. cbn [of_res].
  split; [exact K' | congruence].
Qed.

Lemma add_run_ok st run isq : mbody st -> ms_unit st = None ->
  match add_run st run isq with
  | POk st' => mbody st' /\ same_nest st st' /\ (ms_unit st' <> None -> run <> [] /\ isq = true) /\
               (isq = true -> run <> [] -> ms_unit st' <> None)
  | PO => True
  | _ => False
  end.
Proof.
  intros B Hu. unfold Parser.add_run. destruct run as [|r0 run'].
  { split; [exact B|]. split; [split; reflexivity|]. split; [intros H; congruence | intros _ H; congruence]. }
  set (run := r0 :: run') in *.
  pose proof (add_to_concatenate_ok (ms_o st) (ms_concat st) (if isq then removelast run else run) (mb_concat st B)) as A.
  destruct (add_to_concatenate (ms_o st) (ms_concat st) (if isq then removelast run else run)) as [c| | | |];
    cbn [pbind]; try contradiction; auto.
  destruct B as [Bg Ba Bc Bs Bu].
  destruct isq.
  - pose proof (mk_node_ch_ok simple_fold cat_in T_One (ms_o st) (last run 0) ltac:(reflexivity) ltac:(tnum; lia) ltac:(reflexivity)) as M.
    destruct (Parser.mk_node_ch simple_fold cat_in T_One (ms_o st) (last run 0)) as [u| | | |]; cbn [pbind]; try contradiction; auto.
    split; [constructor; cbn; auto|]. split; [split; reflexivity|]. split; intros; [split; [discriminate | reflexivity] | cbn; discriminate].
  - split; [constructor; cbn; auto; rewrite Hu; exact I|]. split; [split; reflexivity|].
    split; [cbn; intros H; congruence | discriminate].
Qed.

Lemma add_alternate_ok st : mbody st ->
  exists st', add_alternate st = POk st' /\ mbody st' /\ same_nest st st' /\ ms_unit st' = ms_unit st.
Proof.
  intros [Bg Ba Bc Bs Bu]. unfold Parser.add_alternate.
  pose proof (concat_rev_good _ Bc) as Gc.
  assert (Fc : concat_ok (mk_node T_Concatenate (ms_o st))) by (split; [constructor | reflexivity]).
  destruct (is_cond_t (n_t (ms_group st))).
  - destruct Bg as [Kg Tg].
    destruct (add_child_pres (ms_group st) _ Kg Gc) as [g' [E [K' [_ [T' _]]]]]. rewrite E. cbn [of_res pbind].
    eexists. split; [reflexivity|]. split; [|split; [split; reflexivity | reflexivity]].
    constructor; cbn; auto. split; [exact K' | congruence].
  - destruct Ba as [Ka Ta].
    destruct (add_child_pres (ms_alt st) _ Ka Gc) as [a' [E [K' [_ [T' _]]]]]. rewrite E. cbn [of_res pbind].
    eexists. split; [reflexivity|]. split; [|split; [split; reflexivity | reflexivity]].
    constructor; cbn; auto. split; [exact K' | congruence].
Qed.

Lemma add_group_ok st : mbody st ->
  match add_group st with
  | POk st' => mbody st' /\ same_nest st st' /\ ms_unit st' <> None
  | PE _ _ => True
  | _ => False
  end.
Proof.
  intros [Bg Ba Bc Bs Bu]. unfold Parser.add_group.
  pose proof (concat_rev_good _ Bc) as Gc.
  destruct (is_cond_t (n_t (ms_group st))).
  - destruct Bg as [Kg Tg].
    destruct (add_child_pres (ms_group st) _ Kg Gc) as [g' [E [K' [NE [T' _]]]]]. rewrite E. cbn [of_res pbind].
    match goal with |- context [if ?b then _ else _] => destruct b end; [exact I|].
    assert (Gg : group_ok g') by (split; [exact K' | congruence]).
    split; [|split; [split; reflexivity | cbn; discriminate]].
    constructor; cbn; auto. apply group_done; assumption.
  - destruct Ba as [Ka Ta].
    destruct (add_child_pres (ms_alt st) _ Ka Gc) as [a' [E [K' [_ [T' _]]]]]. rewrite E. cbn [of_res pbind].
    assert (Aa : alt_ok a') by (split; [exact K' | congruence]).
    destruct Bg as [Kg Tg].
    destruct (add_child_pres (ms_group st) a' Kg (alt_good _ Aa)) as [g' [E2 [K2 [NE2 [T2 _]]]]]. rewrite E2. cbn [of_res pbind].
    assert (Gg : group_ok g') by (split; [exact K2 | congruence]).
    split; [|split; [split; reflexivity | cbn; discriminate]].
    constructor; cbn; auto. apply group_done; assumption.
Qed.

Lemma pop_group_ok st : mbody st -> ms_stack st <> [] ->
  match pop_group st with
  | POk st' => mbody st' /\ ms_os st' = ms_os st /\ S (length (ms_stack st')) = length (ms_stack st)
  | PE _ _ => True
  | _ => False
  end.
Proof.
  intros [Bg Ba Bc Bs Bu] NE. unfold Parser.pop_group.
  destruct (ms_stack st) as [|[[g a] c] r] eqn:Es; [congruence|].
  inversion Bs as [|? ? Hf Fr]; subst. unfold frame_ok in Hf. destruct Hf as [Fg [Fa Fc]].
  destruct ((n_t g =? T_ExprCond) && match n_kids g with [] => true | _ => false end).
  - destruct (ms_unit st) as [u|]; [|exact I].
    destruct Fg as [Kg Tg].
    destruct (add_child_pres g u Kg Bu) as [g' [E [K' [_ [T' _]]]]]. rewrite E. cbn [of_res pbind].
    split; [|split; [reflexivity | cbn; reflexivity]].
    constructor; cbn; auto. split; [exact K' | congruence].
  - split; [|split; [reflexivity | cbn; reflexivity]].
    constructor; cbn; auto.
Qed.

(* ---------------------------------------------------------------- quantifiers *)
Lemma brace_counts_ok p1 :
  match brace_counts p1 with
  | POk (Some (mn, _, q)) => 0 <= mn /\ (length q <= length p1)%nat
  | POk None => True
  | PE _ _ | PO => True
  | _ => False
  end.
Proof.
  unfold brace_counts.
  pose proof (decimal_adv p1) as D. pose proof (decimal_nonneg p1) as NN.
  destruct (decimal p1) as [[mn q]|e q0| | |]; cbn [pbind padv] in *; [ | exact I | exact I | contradiction | contradiction].
  specialize (NN mn q eq_refl).
  match goal with |- match pbind ?a _ with _ => _ end => assert (A : padv a (length p1)) end.
  { destruct ((length q <? length p1)%nat && hd_is q 44); [|cbn; exact D].
    pose proof (tl_len q) as T.
    destruct (is_nil (tl q) || hd_is (tl q) 125); [cbn; lia|].
    eapply padv_weaken; [apply decimal_adv | lia]. }
  match goal with |- match pbind ?a _ with _ => _ end => destruct a as [[mx q2]|e q2| | |] end;
    cbn [pbind padv] in *; [ | exact I | exact I | contradiction | contradiction].
  pose proof (tl_len q2) as T2.
  destruct ((length q =? length p1)%nat || negb (hd_is q2 125)); [exact I|]. split; [exact NN | lia].
Qed.

Lemma scan_quantifier_ok st p : mbody st -> ms_unit st <> None -> p <> [] ->
  match scan_quantifier st p with
  | POk (st', q) => mbody st' /\ ms_unit st' = None /\ same_nest st st' /\ (length q <= length p)%nat
  | PE _ _ | PO => True
  | _ => False
  end.
Proof.
  intros B Hu Hp. unfold Parser.scan_quantifier. destruct p as [|ch p1]; [congruence|].
  destruct (ms_unit st) as [u|] eqn:Eu; [|congruence].
  match goal with |- match pbind ?a _ with _ => _ end =>
    assert (A : match a with POk (Some (mn, _, q)) => 0 <= mn /\ (length q <= length p1)%nat
                             | POk None => True | PE _ _ | PO => True | _ => False end) end.
  { destruct (ch =? 42); [split; [lia | lia]|].
    destruct (ch =? 63); [split; [lia | lia]|].
    destruct (ch =? 43); [split; [lia | lia]|].
    destruct (ch =? 123); [apply brace_counts_ok | exact I]. }
  match goal with |- match pbind ?a _ with _ => _ end => destruct a as [[[[mn mx] q]|]|e q0| | |] end;
    cbn [pbind] in *; try contradiction; try exact I.
  - destruct A as [Hmn Hq].
    pose proof (scan_blank_full_adv (ms_o st) q) as Bq.
    destruct (scan_blank_full (ms_o st) q) as [q1|e q1| | |]; cbn [pbind padv0] in *; try contradiction; try exact I.
    pose proof (tl_len q1) as T1.
    destruct (if hd_is q1 63 then (true, tl q1) else (false, q1)) as [lazy q2] eqn:El.
    assert (L2 : (length q2 <= length q1)%nat) by (destruct (hd_is q1 63); inversion El; subst; lia).
    destruct (mx <? mn); [exact I|].
    destruct (add_concatenate3_ok st lazy mn mx B ltac:(congruence) Hmn) as [st' [E [B' [U' N']]]].
    rewrite E. cbn [pbind]. csplit; try assumption; try apply N'. cbn [length]. lia.
  - destruct (add_concatenate_ok st B ltac:(congruence)) as [st' [E [B' [U' N']]]].
    rewrite E. cbn [pbind]. csplit; try assumption; try apply N'. lia.
Qed.

Lemma is_true_quantifier_nonempty p : is_true_quantifier p = true -> p <> [].
Proof. destruct p; [discriminate | discriminate]. Qed.

Lemma after_unit_ok st p : mbody st -> ms_unit st <> None ->
  match after_unit st p with
  | POk (st', q, _) => mbody st' /\ ms_unit st' = None /\ same_nest st st' /\ (length q <= length p)%nat
  | PE _ _ | PO => True
  | _ => False
  end.
Proof.
  intros B Hu. unfold Parser.after_unit.
  pose proof (scan_blank_full_adv (ms_o st) p) as Bp.
  destruct (scan_blank_full (ms_o st) p) as [p1|e p1| | |]; cbn [pbind padv0] in *; try contradiction; try exact I.
  destruct (is_nil p1 || negb (is_true_quantifier p1)) eqn:E.
  - destruct (add_concatenate_ok st B Hu) as [st' [E' [B' [U' N']]]]. rewrite E'. cbn [pbind].
    csplit; try assumption; apply N'.
  - assert (Q : is_true_quantifier p1 = true) by (destruct (is_nil p1); [discriminate|]; destruct (is_true_quantifier p1); [reflexivity | discriminate]).
    pose proof (scan_quantifier_ok st p1 B Hu (is_true_quantifier_nonempty _ Q)) as S.
    destruct (scan_quantifier st p1) as [[st' q]|e q| | |]; cbn [pbind]; try contradiction; try exact I.
    destruct S as [S1 [S2 [S3 S4]]]. csplit; try assumption; try apply S3. lia.
Qed.

(* ---------------------------------------------------------------- the cases of a round *)
(* what a round hands on: the invariant, no pending unit, a strictly shorter pattern *)
Definition round_res (r : pr (mst * option (list Z * bool))) (n : nat) : Prop :=
  match r with
  | POk (st', None) => minv st'
  | POk (st', Some (q, _)) => minv st' /\ ms_unit st' = None /\ (length q <= n)%nat
  | PE _ _ | PO => True
  | _ => False
  end.

Lemma minv_same st st' : minv st -> mbody st' -> same_nest st st' -> minv st'.
Proof. intros [_ D] B [S1 S2]. split; [exact B | rewrite S1, S2; exact D]. Qed.

Lemma mbody_set_unit st x : mbody st -> good x -> mbody (set_unit st (Some x)).
Proof. intros [Bg Ba Bc Bs Bu] G. constructor; cbn; auto. Qed.

(* a unit followed by its quantifier *)
Lemma unit_then_ok st1 x q n : minv st1 -> good x -> (length q <= n)%nat ->
  round_res (pdo r <- after_unit (set_unit st1 (Some x)) q ; let '(st', q', wq) := r in POk (st', Some (q', wq))) n.
Proof.
  intros Iv G Hq. pose proof (after_unit_ok (set_unit st1 (Some x)) q (mbody_set_unit _ _ (proj1 Iv) G) ltac:(cbn; discriminate)) as A.
  destruct (after_unit (set_unit st1 (Some x)) q) as [[[st' q'] wq]|e q0| | |]; cbn [pbind round_res]; try contradiction; try exact I; auto.
  destruct A as [A1 [A2 [A3 A4]]]. split; [|split; [exact A2 | lia]].
  eapply minv_same; [exact Iv | exact A1 |]. destruct A3 as [S1 S2]. split; [exact S1 | exact S2].
Qed.

Lemma round_open_ok tb mco st1 p3 : minv st1 -> ms_unit st1 = None ->
  round_res (round_open tb mco st1 p3) (length p3).
Proof.
  intros Iv Hu. unfold Parser.round_open.
  destruct (useRE2 (ms_o st1) && negb (ms_ign st1) && hd_is p3 63 && nth_is 1 p3 80 && nth_is 2 p3 61).
  { pose proof (python_backref_adv tb (ms_o st1) (skipn 3 p3)) as P. pose proof (skipn_le 3 p3) as SK.
    destruct (python_backref tb (ms_o st1) (skipn 3 p3)) as [[x q]|e q| | |]; cbn [pbind round_res]; try contradiction; try exact I; auto.
    destruct P as [P1 P2]. apply unit_then_ok; [exact Iv | exact P2 | lia]. }
  pose proof (group_open_gadv tb mco (n_t (ms_group st1)) (mkGV (ms_o st1) (ms_ign st1) (ms_autocap st1)) p3) as G.
  destruct (group_open tb mco (n_t (ms_group st1)) (mkGV (ms_o st1) (ms_ign st1) (ms_autocap st1)) p3) as [[[g v] q]|e q| | |];
    cbn [pbind round_res gadv] in *; try contradiction; try exact I; auto.
  destruct G as [G1 G2]. destruct Iv as [[Bg Ba Bc Bs Bu] D].
  destruct g as [gn|]; cbn [round_res].
  - split; [|split; [cbn; exact Hu | exact G1]].
    destruct G2 as [Gt Gk].
    split; [|cbn; lia].
    constructor; cbn.
    + split; [unfold kids_good; rewrite Gk; constructor | exact Gt].
    + split; [constructor | reflexivity].
    + split; [constructor | reflexivity].
    + constructor; [|exact Bs]. unfold frame_ok. auto.
    + rewrite Hu. exact I.
  - split; [|split; [cbn; exact Hu | exact G1]].
    split; [constructor; cbn; auto | cbn; exact D].
Qed.

Lemma round_close_ok st1 p3 : minv st1 ->
  round_res (round_close st1 p3) (length p3).
Proof.
  intros Iv. unfold Parser.round_close. destruct (ms_stack st1) as [|f r] eqn:Es; [exact I|].
  destruct Iv as [B D].
  pose proof (add_group_ok st1 B) as A.
  destruct (add_group st1) as [st2|e q| | |]; cbn [pbind round_res]; try contradiction; try exact I; auto.
  destruct A as [B2 [[S1 S2] U2]].
  pose proof (pop_group_ok st2 B2 ltac:(rewrite S1, Es; discriminate)) as P.
  destruct (pop_group st2) as [st3|e q| | |]; cbn [pbind round_res]; try contradiction; try exact I; auto.
  destruct P as [B3 [O3 L3]].
  assert (Hos : length (ms_os st3) = S (length (ms_stack st3))) by (rewrite O3, S2, D, <- S1, <- L3; reflexivity).
  unfold pop_options. destruct (ms_os st3) as [|o r3]; [cbn in Hos; lia|].
  cbn [pbind].
  set (st4 := mkMS (ms_stack st3) (ms_group st3) (ms_alt st3) (ms_concat st3) (ms_unit st3) o r3 (ms_ign st3) (ms_autocap st3)).
  assert (I4 : minv st4).
  { split.
    - destruct B3 as [Bg Ba Bc Bs Bu]. constructor; cbn; auto.
    - cbn in *. lia. }
  destruct (ms_unit st4) as [u|] eqn:Eu.
  - pose proof (after_unit_ok st4 p3 (proj1 I4) ltac:(congruence)) as A.
    destruct (after_unit st4 p3) as [[[st' q'] wq]|e q0| | |]; cbn [pbind round_res]; try contradiction; try exact I; auto.
    destruct A as [A1 [A2 [A3 A4]]]. split; [|split; [exact A2 | exact A4]].
    eapply minv_same; [exact I4 | exact A1 | exact A3].
  - cbn [round_res]. split; [exact I4 | split; [exact Eu | lia]].
Qed.

Lemma simple_unit_ok o ch :
  match simple_unit o ch with POk y => good y | PO => True | _ => False end.
Proof.
  unfold Parser.simple_unit.
  destruct (ch =? 94); [apply good_mk_node; destruct (useM o); try reflexivity; tnum; lia|].
  destruct (ch =? 36).
  { apply good_mk_node; destruct (useM o); try reflexivity; try (tnum; lia);
      destruct (useRE2 o || useE o); try reflexivity; tnum; lia. }
  destruct (useS o); [apply mk_node_set_ok|].
  destruct (useE o); [apply mk_node_set_ok|].
  apply mk_node_ch_ok; try reflexivity. tnum. lia.
Qed.

(* ---------------------------------------------------------------- one round, the loop, scanRegex *)
Lemma round_res_weaken r n m : round_res r n -> (n <= m)%nat -> round_res r m.
Proof.
  destruct r as [[st' [[q wq]|]]|e q| | |]; cbn [round_res]; intros H L; auto.
  destruct H as [H1 [H2 H3]]. split; [exact H1 | split; [exact H2 | lia]].
Qed.

Lemma minv_add_run st st1 : minv st -> mbody st1 -> same_nest st st1 -> minv st1.
Proof. apply minv_same. Qed.

Lemma scan_round_ok tb mco st p wasq : minv st -> ms_unit st = None -> p <> [] ->
  round_res (scan_round tb mco st p wasq) (pred (length p)).
Proof.
  intros Iv Hu Hp. unfold Parser.scan_round.
  pose proof (scan_blank_full_adv (ms_o st) p) as B0.
  destruct (scan_blank_full (ms_o st) p) as [p0|e q| | |] eqn:E0; cbn [pbind padv0 round_res] in *; try contradiction; try exact I.
  destruct (take_run (ms_o st) p0) as [run p1] eqn:Er.
  pose proof (take_run_len _ _ _ _ Er) as Lr.
  pose proof (scan_blank_full_adv (ms_o st) p1) as B1.
  destruct (scan_blank_full (ms_o st) p1) as [p2|e q| | |] eqn:E1; cbn [pbind padv0 round_res] in *; try contradiction; try exact I.
  destruct p2 as [|ch p3].
  { (* the end of the pattern *)
    pose proof (add_run_ok st run false (proj1 Iv) Hu) as A.
    destruct (add_run st run false) as [st1| | | |]; cbn [pbind round_res]; try contradiction; try exact I.
    destruct A as [A1 [A2 _]]. eapply minv_same; [exact Iv | exact A1 | exact A2]. }
  cbn [length] in B1.
  destruct (negb (is_special ch)) eqn:Esp.
  { (* an ordinary character after blanks: the round must have moved *)
    pose proof (add_run_ok st run false (proj1 Iv) Hu) as A.
    destruct (add_run st run false) as [st1| | | |]; cbn [pbind round_res]; try contradiction; try exact I.
    destruct A as [A1 [A2 [A3 _]]].
    split; [eapply minv_same; [exact Iv | exact A1 | exact A2]|].
    split; [destruct (ms_unit st1); [destruct (A3 ltac:(discriminate)) as [_ F]; discriminate | reflexivity]|].
    cbn [length].
    destruct run as [|r0 run'].
    - (* nothing taken: the character in front is a stopper that is not special, i.e. a blank, which scanBlank skips *)
      exfalso. cbn [length] in Lr.
      assert (p1 = p0) by (pose proof (take_run_app _ _ _ _ Er) as Ea; cbn [app] in Ea; congruence). subst p1.
      unfold scan_blank_full in E0, E1. rewrite (blank_idem _ _ _ _ E0) in E1. inversion E1; subst p0.
      pose proof (take_run_nil_head _ _ _ Er) as St.
      destruct (blank_head_full _ _ _ _ _ E0) as [H1 [H2 _]].
      unfold is_stopper in St. destruct (useX (ms_o st)); [|rewrite St in Esp; discriminate].
      destruct (stopper_not_special_is_blank ch St ltac:(destruct (is_special ch); [discriminate | reflexivity])) as [S|S].
      + rewrite S in H1. discriminate.
      + subst ch. discriminate.
    - cbn [length] in Lr. lia. }
  (* a special character *)
  assert (Lp3 : (length p3 <= pred (length p))%nat) by lia.
  pose proof (add_run_ok st run (is_quantifier ch) (proj1 Iv) Hu) as A.
  destruct (add_run st run (is_quantifier ch)) as [st1| | | |] eqn:Ea; cbn [pbind round_res]; try contradiction; try exact I.
  destruct A as [A1 [A2 [A3 A4]]].
  assert (I1 : minv st1) by (eapply minv_same; [exact Iv | exact A1 | exact A2]).
  assert (NQ : is_quantifier ch = false -> ms_unit st1 = None).
  { intros Hq. destruct (ms_unit st1); [|reflexivity]. destruct (A3 ltac:(discriminate)) as [_ F]. congruence. }
  destruct (ch =? 91) eqn:C1.
  { pose proof (cs_scan_adv is_word_char to_lower simple_fold participates cat_in cat_name (S (length p3)) false (ms_o st) p3 ltac:(lia)) as CS.
    destruct (cs_scan (S (length p3)) false (ms_o st) p3) as [[syn q]|e q| | |]; cbn [pbind padv round_res] in *; try contradiction; try exact I.
    pose proof (class_node_ok (ms_o st) syn) as CN.
    destruct (class_node (ms_o st) syn) as [x| | | |]; cbn [pbind round_res]; try contradiction; try exact I.
    apply unit_then_ok; [exact I1 | exact CN | lia]. }
  destruct (ch =? 40) eqn:C2.
  { eapply round_res_weaken; [apply round_open_ok; [exact I1|] | exact Lp3].
    apply NQ. assert (ch = 40) by lia. subst ch. reflexivity. }
  destruct (ch =? 124) eqn:C3.
  { destruct (add_alternate_ok st1 (proj1 I1)) as [st2 [E2 [B2 [N2 U2]]]]. rewrite E2. cbn [pbind round_res].
    split; [eapply minv_same; [exact I1 | exact B2 | exact N2]|].
    split; [rewrite U2; apply NQ; assert (ch = 124) by lia; subst ch; reflexivity | exact Lp3]. }
  destruct (ch =? 41) eqn:C4.
  { eapply round_res_weaken; [apply round_close_ok; exact I1 | exact Lp3]. }
  destruct (ch =? 92) eqn:C5.
  { pose proof (scan_backslash_full_badv false tb (ms_o st) p3) as SB.
    destruct (scan_backslash_full false tb (ms_o st) p3) as [[b q]|e q| | |]; cbn [pbind badv round_res] in *; try contradiction; try exact I.
    destruct SB as [S1 [S2 S3]].
    destruct b as [x|]; [|exfalso; apply (S3 eq_refl); reflexivity].
    cbn [pbind]. apply unit_then_ok; [exact I1 | exact S2 | lia]. }
  destruct ((ch =? 94) || (ch =? 36) || (ch =? 46)) eqn:C6.
  { pose proof (simple_unit_ok (ms_o st) ch) as SU.
    destruct (simple_unit (ms_o st) ch) as [x| | | |]; cbn [pbind round_res]; try contradiction; try exact I.
    apply unit_then_ok; [exact I1 | exact SU | exact Lp3]. }
  destruct ((ch =? 123) || (ch =? 42) || (ch =? 43) || (ch =? 63)) eqn:C7; [|exact I].
  destruct (ms_unit st1) as [u|] eqn:Eu; [|exact I].
  destruct (A3 ltac:(discriminate)) as [Hrun _].
  pose proof (after_unit_ok st1 (ch :: p3) (proj1 I1) ltac:(congruence)) as AU.
  destruct (after_unit st1 (ch :: p3)) as [[[st' q'] wq]|e q0| | |]; cbn [pbind round_res]; try contradiction; try exact I.
  destruct AU as [U1 [U2 [U3 U4]]].
  split; [eapply minv_same; [exact I1 | exact U1 | exact U3]|]. split; [exact U2|].
  cbn [length] in U4. destruct run as [|r0 run']; [congruence|]. cbn [length] in Lr. lia.
Qed.

Lemma scan_loop_full_ok tb mco fuel : forall st p wasq, minv st -> ms_unit st = None -> (length p < fuel)%nat ->
  match scan_loop_full fuel tb mco st p wasq with
  | POk st' => minv st'
  | PE _ _ | PO => True
  | _ => False
  end.
Proof.
  induction fuel as [|f IH]; intros st p wasq Iv Hu Hf; [lia|].
  cbn [Parser.scan_loop_full]. destruct p as [|c p']; [exact Iv|].
  pose proof (scan_round_ok tb mco st (c :: p') wasq Iv Hu ltac:(discriminate)) as R.
  destruct (scan_round tb mco st (c :: p') wasq) as [[st' [[q wq]|]]|e q| | |]; cbn [pbind round_res] in *; try contradiction; try exact I.
  - destruct R as [R1 [R2 R3]]. apply IH; [exact R1 | exact R2 | cbn [length] in *; lia].
  - exact R.
Qed.

Lemma scan_regex_ok tb mco o p : psafe (scan_regex tb mco o p).
Proof.
  unfold Parser.scan_regex.
  set (st0 := mkMS [] (mk_node_mn T_Capture o 0 (-1)) (mk_node T_Alternate o) (mk_node T_Concatenate o) None o [] false 1).
  assert (I0 : minv st0).
  { split; [|reflexivity]. constructor; cbn; auto.
    - split; [constructor | reflexivity].
    - split; [constructor | reflexivity].
    - split; [constructor | reflexivity]. }
  pose proof (scan_loop_full_ok tb mco (S (length p)) st0 p false I0 eq_refl ltac:(lia)) as L.
  destruct (scan_loop_full (S (length p)) tb mco st0 p false) as [st| | | |]; cbn [pbind psafe]; try contradiction; try exact I.
  destruct (ms_stack st); [|exact I].
  pose proof (add_group_ok st (proj1 L)) as A.
  destruct (add_group st) as [st'| | | |]; cbn [pbind psafe]; try contradiction; try exact I.
  destruct A as [_ [_ U]]. destruct (ms_unit st'); [exact I | congruence].
Qed.

End Main.
