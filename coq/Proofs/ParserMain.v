(* Proofs about Model/Parser.v, part 3: the back-slash and group-open scanners, the main loop's state
   invariant, one round of scanRegex. *)
From Coq Require Import ZifyBool.
From Verif Require Import Base.Prelude Gen.ParseLitGen Model.Escape Model.ParseLit Model.GroupMap Model.CharClass
  Model.Parser Proofs.ParseLitProofs Proofs.ParserScan Proofs.ParserTree.

(* [pgood r n]: a scanner that builds a node: no fault, the cursor moves right, the node is good *)
Definition node_ok (b : bres) : Prop := match b with BNode x => good x | BNil => True end.

Lemma scan_decimal_nonneg p : forall i v r, 0 <= i -> scan_decimal i p = Ok (v, r) -> 0 <= v.
Proof.
  induction p as [|c p IH]; intros i v r Hi H; cbn [scan_decimal] in H.
  - inversion H. lia.
  - destruct ((c - 48 <? 0) || (9 <? c - 48)) eqn:E; [inversion H; lia|].
    destruct ((214748364 <? i) || ((i =? 214748364) && (7 <? c - 48))); [discriminate|].
    eapply IH; [|exact H]. lia.
Qed.

Lemma decimal_nonneg p v r : decimal p = POk (v, r) -> 0 <= v.
Proof.
  unfold decimal, of_res. destruct (scan_decimal 0 p) as [[v' r']|c|w|] eqn:E; try discriminate.
  intros H. inversion H; subst. eapply scan_decimal_nonneg; [|exact E]. lia.
Qed.

Section Main.
Variable is_word_char : Z -> bool.
Variable to_lower : Z -> Z.
Variable simple_fold : Z -> Z.
Variable participates : Z -> bool.
Variable cat_in : Z -> Z -> bool.
Variable cat_name : list Z -> Z.

Local Notation char_escape := (char_escape is_word_char).
Local Notation parse_property := (parse_property is_word_char cat_name).
Local Notation cs_scan := (cs_scan is_word_char cat_name).
Local Notation mk_node_ch := (mk_node_ch simple_fold cat_in).
Local Notation mk_node_set := (mk_node_set simple_fold cat_in).
Local Notation char_code := (char_code is_word_char to_lower simple_fold cat_in).
Local Notation name_or_num := (name_or_num is_word_char to_lower simple_fold cat_in).
Local Notation basic_backslash := (basic_backslash is_word_char to_lower simple_fold cat_in).
Local Notation scan_backslash_full := (scan_backslash_full is_word_char to_lower simple_fold cat_in cat_name).
Local Notation class_node := (class_node to_lower simple_fold cat_in).

(* a scanner returning a [bres]: no fault, moves right, good node; a node whenever scan_only is off *)
Definition badv (r : pr (bres * list Z)) (n : nat) (so : bool) : Prop :=
  match r with
  | POk (b, q) => (length q <= n)%nat /\ node_ok b /\ (so = false -> b <> BNil)
  | PE _ q => (length q <= n)%nat
  | PO => True
  | PC _ | PF => False
  end.

Lemma badv_weaken r n m so : badv r n so -> (n <= m)%nat -> badv r m so.
Proof. destruct r as [[b q]|c q| | |]; cbn; intros; try lia; auto. destruct H as [H1 H2]. split; [lia | exact H2]. Qed.

Ltac bfin := cbn [badv padv padv0 pbind length node_ok] in *; repeat match goal with |- _ /\ _ => split end;
  try assumption; try (intros; discriminate); try lia; auto.

Lemma char_code_badv so o p : p <> [] -> badv (char_code so o p) (length p) so.
Proof.
  intros Hne. unfold Parser.char_code.
  pose proof (char_escape_adv is_word_char to_lower o p Hne) as CE.
  destruct (char_escape o p) as [[c q]|e q| | |]; cbn [pbind padv] in *; [ | exact CE | exact I | contradiction | contradiction].
  destruct so; [bfin|].
  pose proof (mk_node_ch_ok simple_fold cat_in T_One o (if useI o then to_lower c else c)
                ltac:(reflexivity) ltac:(tnum; lia) ltac:(reflexivity)) as M.
  destruct (mk_node_ch T_One o (if useI o then to_lower c else c)); cbn [pbind badv]; try contradiction; auto.
  bfin.
Qed.

Lemma ref_node_good o g : good (mk_node_mn T_Ref o g 0).
Proof. apply good_leaf; reflexivity || (tnum; lia). Qed.

Lemma name_or_num_badv so tb o k close p0 cur :
  p0 <> [] -> cur <> [] -> (length cur <= length p0)%nat -> badv (name_or_num so tb o k close p0 cur) (length p0) so.
Proof.
  intros H0 Hc Hl. unfold Parser.name_or_num. destruct cur as [|ch cur']; [congruence|].
  destruct (is_digit ch).
  - pose proof (decimal_adv (ch :: cur')) as D.
    destruct (decimal (ch :: cur')) as [[capnum r1]|e q| | |]; cbn [pbind padv] in *;
      [ | bfin | exact I | contradiction | contradiction].
    pose proof (tl_len r1) as T.
    destruct (hd_is r1 close); [|apply char_code_badv; exact H0].
    destruct (ct_slot tb capnum); [|bfin].
    pose proof (ref_node_good o capnum). bfin.
  - destruct (useE o); [exact I|].
    pose proof (scan_word_len' is_word_char to_lower (ch :: cur')) as W. destruct (scan_word is_word_char (ch :: cur')) as [nm r1]. cbn [snd] in W.
    pose proof (tl_len r1) as T.
    destruct (negb (match nm with [] => true | _ => false end) && hd_is r1 close).
    + destruct so; [bfin|].
      destruct (ct_name tb nm) as [g|]; [|bfin].
      pose proof (ref_node_good o g). bfin.
    + destruct k; [|apply char_code_badv; exact H0].
      destruct (negb (match nm with [] => true | _ => false end)); bfin.
Qed.

Lemma basic_backslash_badv so tb o p : badv (basic_backslash so tb o p) (length p) so.
Proof.
  unfold Parser.basic_backslash. destruct p as [|ch p1]; [bfin|].
  destruct ((ch =? 107) && (negb (useE o) || useU o || ct_named tb)).
  { destruct p1 as [|c2 p2]; [bfin|].
    destruct (negb ((c2 =? 60) || (negb (useE o) && (c2 =? 39)))); [bfin|].
    destruct p2 as [|c3 p3]; [bfin|].
    apply name_or_num_badv; try discriminate. cbn [length]. lia. }
  destruct (negb (useE o) && ((ch =? 60) || (ch =? 39)) && longer (ch :: p1) 1) eqn:E.
  { destruct p1 as [|c2 p2]; [cbn in E; rewrite andb_false_r in E; discriminate|].
    apply name_or_num_badv; try discriminate. cbn [length]. lia. }
  destruct ((49 <=? ch) && (ch <=? 57)); [|apply char_code_badv; discriminate].
  pose proof (decimal_adv (ch :: p1)) as D.
  destruct (decimal (ch :: p1)) as [[capnum q]|e q| | |]; cbn [pbind padv] in *;
    [ | bfin | exact I | contradiction | contradiction].
  destruct so; [bfin|].
  destruct (ct_slot tb capnum); [pose proof (ref_node_good o capnum); bfin|].
  destruct ((capnum <=? 9) && negb (useE o)); [bfin | apply char_code_badv; discriminate].
Qed.

Lemma set_node_badv so o s q n :
  (length q <= n)%nat ->
  badv (pdo x <- mk_node_set T_Set o s ; POk (BNode x, q)) n so.
Proof.
  intros Hq. pose proof (mk_node_set_ok simple_fold cat_in o s) as M.
  destruct (mk_node_set T_Set o s); cbn [pbind badv]; try contradiction; auto.
  bfin.
Qed.

Lemma scan_backslash_full_badv so tb o p : badv (scan_backslash_full so tb o p) (length p) so.
Proof.
  unfold Parser.scan_backslash_full. destruct p as [|ch p1]; [bfin|].
  destruct (zmem ch pl_assert_letters).
  { destruct so; [bfin|].
    assert (G : good (mk_node (type_from_code o ch) o)).
    { apply good_mk_node; unfold type_from_code;
        repeat match goal with |- context [if ?b then _ else _] => destruct b end; try reflexivity; try (tnum; lia). }
    bfin. }
  destruct (zmem ch pl_class_letters).
  { destruct so; [bfin|]. apply set_node_badv. cbn [length]. lia. }
  destruct ((ch =? 112) || (ch =? 80)); [|apply basic_backslash_badv].
  destruct (useE o && negb (useU o)); [apply basic_backslash_badv|].
  pose proof (parse_property_adv is_word_char to_lower simple_fold participates cat_in cat_name o p1) as PP.
  destruct (parse_property o p1) as [[id q]|e q| | |]; cbn [pbind padv] in *;
    [ | bfin | exact I | contradiction | contradiction].
  destruct so; [bfin|].
  apply set_node_badv. cbn [length]. lia.
Qed.

(* the Set node of a bracket expression *)
Lemma class_node_ok o s :
  match class_node o s with POk y => good y | PO => True | PE _ _ | PC _ | PF => False end.
Proof.
  unfold Parser.class_node. destruct (useI o && (pp_ci_span_limit <? syn_span o s)); [exact I|].
  pose proof (scan_char_set_rnc cat_in simple_fold to_lower pp_orbit_fuel (Opts (useI o) (useE o) (useRE2 o)) s) as R.
  destruct (scan_char_set cat_in simple_fold to_lower pp_orbit_fuel (Opts (useI o) (useE o) (useRE2 o)) s); cbn in R; try contradiction; auto.
  apply mk_node_set_ok.
Qed.

(* ---------------------------------------------------------------- scanGroupOpen *)
Definition group_t (t : Z) : bool :=
  (t =? T_Capture) || (t =? T_Group) || (t =? T_PosLook) || (t =? T_NegLook) || (t =? T_Atomic) ||
  (t =? T_ExprCond) || (t =? T_BackRefCond).
(* a group node as scanGroupOpen makes it: one of the group kinds, no children yet *)
Definition fresh_group (g : rnode) : Prop := group_t (n_t g) = true /\ n_kids g = [] .

Definition gadv (r : pr (option rnode * gvars * list Z)) (n : nat) : Prop :=
  match r with
  | POk (g, _, q) => (length q <= n)%nat /\ match g with Some x => fresh_group x | None => True end
  | PE _ q => (length q <= n)%nat
  | PO => True
  | PC _ | PF => False
  end.

Ltac gfin := cbn [gadv badv padv padv0 pbind length node_ok] in *; unfold fresh_group;
  repeat match goal with |- _ /\ _ => split end; try assumption; try reflexivity; try (intros; discriminate); try lia; auto.

Ltac plia := unfold padv, padv0 in *; cbn [length] in *; lia.

Local Notation group_name := (group_name is_word_char).
Local Notation group_cond := (group_cond is_word_char).
Local Notation group_pyname := (group_pyname is_word_char).
Local Notation group_open := (group_open is_word_char).
Local Notation python_backref := (python_backref is_word_char).

Lemma fresh_mk t o : group_t t = true -> fresh_group (mk_node t o).
Proof. intros H. split; [exact H | reflexivity]. Qed.
Lemma fresh_mk_mn t o m n : group_t t = true -> fresh_group (mk_node_mn t o m n).
Proof. intros H. split; [exact H | reflexivity]. Qed.

Lemma group_name_gadv tb mco v close cur : cur <> [] -> gadv (group_name tb mco v close cur) (length cur).
Proof.
  intros Hc. unfold Parser.group_name. destruct cur as [|ch cur']; [congruence|].
  destruct (useE (gv_o v)); [exact I|].
  set (cur := ch :: cur') in *.
  (* first part: the name or number *)
  match goal with |- gadv (pbind ?a _) _ => assert (A : padv a (length cur)) end.
  { destruct (is_digit ch).
    - pose proof (decimal_adv cur) as D.
      destruct (decimal cur) as [[n q]|e q| | |]; cbn [pbind padv] in *; [ | exact D | exact I | contradiction | contradiction].
      destruct (hd_is_not q close && hd_is_not q 45); [exact D|].
      destruct ((if ct_slot tb n then n else -1) =? 0); exact D.
    - destruct (is_word_char ch).
      + pose proof (scan_word_len' is_word_char to_lower cur) as W. destruct (scan_word is_word_char cur) as [nm q]. cbn [snd] in W.
        destruct (hd_is_not q close && hd_is_not q 45); exact W.
      + destruct (ch =? 45); plia. }
  match goal with |- gadv (pbind ?a _) _ => destruct a as [[[capnum proceed] q]|e q| | |] end;
    cbn [pbind padv] in *; [ | exact A | exact I | contradiction | contradiction].
  (* second part: the name after the dash *)
  match goal with |- gadv (pbind ?a _) _ => assert (B : padv a (length cur)) end.
  { destruct ((negb (capnum =? -1) || proceed) && hd_is q 45); [|cbn; exact A].
    pose proof (tl_len q) as T. destruct (tl q) as [|c3 q1'] eqn:Eq1; [plia|].
    destruct (is_digit c3).
    - pose proof (decimal_adv (c3 :: q1')) as D.
      destruct (decimal (c3 :: q1')) as [[u q2]|e q2| | |]; cbn [pbind padv] in *; [ | plia | exact I | contradiction | contradiction].
      destruct (negb (ct_slot tb u)); [plia|]. destruct (hd_is_not q2 close); plia.
    - destruct (is_word_char c3); [|plia].
      pose proof (scan_word_len' is_word_char to_lower (c3 :: q1')) as W. destruct (scan_word is_word_char (c3 :: q1')) as [nm q2]. cbn [snd] in W.
      destruct (ct_name tb nm); [|plia]. destruct (hd_is_not q2 close); plia. }
  match goal with |- gadv (pbind ?a _) _ => destruct a as [[uncapnum q3]|e q3| | |] end;
    cbn [pbind padv] in *; [ | exact B | exact I | contradiction | contradiction].
  pose proof (tl_len q3) as T3.
  destruct ((negb (capnum =? -1) || negb (uncapnum =? -1)) && hd_is q3 close); gfin.
Qed.

Lemma group_cond_gadv tb v p1 : gadv (group_cond tb v p1) (length p1).
Proof.
  unfold Parser.group_cond. pose proof (tl_len p1) as T.
  match goal with |- gadv (pbind ?a _) _ =>
    assert (A : match a with POk (Some (_, q)) => (length q <= length p1)%nat | POk None => True
                             | PE _ q => (length q <= length p1)%nat | PO => True | _ => False end) end.
  { destruct (tl p1) as [|c p2'] eqn:E2; [exact I|].
    destruct (is_digit c).
    - pose proof (decimal_adv (c :: p2')) as D.
      destruct (decimal (c :: p2')) as [[n q]|e q| | |]; cbn [pbind padv] in *; [ | plia | exact I | contradiction | contradiction].
      pose proof (tl_len q) as Tq.
      destruct (hd_is q 41); [destruct (ct_slot tb n); plia | plia].
    - destruct (is_word_char c); [|exact I].
      destruct (useE (gv_o v)); [exact I|].
      pose proof (scan_word_len' is_word_char to_lower (c :: p2')) as W. destruct (scan_word is_word_char (c :: p2')) as [nm q]. cbn [snd] in W.
      pose proof (tl_len q) as Tq.
      destruct (ct_name tb nm); [|exact I]. destruct (hd_is q 41); [plia | exact I]. }
  match goal with |- gadv (pbind ?a _) _ => destruct a as [[[g q1]|]|e q| | |] end;
    cbn [pbind] in *; [ | | exact A | exact I | contradiction | contradiction].
  - gfin.
  - repeat match goal with |- context [if ?b then _ else _] => destruct b end; gfin.
Qed.

Lemma group_pyname_gadv tb mco v p2 : gadv (group_pyname tb mco v p2) (length p2).
Proof.
  unfold Parser.group_pyname. pose proof (tl_len p2) as T.
  destruct (negb (longer p2 2)); [gfin|].
  destruct (negb (hd_is p2 60)); [gfin|].
  destruct (is_word_char (nth 1 p2 0)); [|gfin].
  destruct (useE (gv_o v)); [exact I|].
  pose proof (scan_word_len' is_word_char to_lower (tl p2)) as W. destruct (scan_word is_word_char (tl p2)) as [nm q]. cbn [snd] in W.
  pose proof (tl_len q) as Tq.
  destruct (hd_is_not q 62); [gfin|].
  match goal with |- context [if ?b then _ else _] => destruct b end; gfin.
Qed.

Lemma group_open_gadv tb mco gt v p : gadv (group_open tb mco gt v p) (length p).
Proof.
  unfold Parser.group_open.
  destruct (is_nil p || negb (hd_is p 63) || nth_is 1 p 41).
  { destruct (useN (gv_o v) || gv_ign v); gfin. }
  pose proof (tl_len p) as T.
  destruct (tl p) as [|ch p2] eqn:E1; [gfin|].
  cbn [length] in T.
  destruct (ch =? 58); [gfin|].
  destruct (ch =? 61); [gfin|].
  destruct (ch =? 33); [gfin|].
  destruct (ch =? 62); [gfin|].
  destruct ((ch =? 39) || (ch =? 60)).
  { destruct p2 as [|c2 p3]; [gfin|]. cbn [length] in T.
    destruct ((c2 =? 61) || (c2 =? 33)).
    - destruct ((if ch =? 39 then 39 else 62) =? 39); [gfin|].
      destruct (c2 =? 61); gfin.
    - pose proof (group_name_gadv tb mco (mkGV (gv_o v) false (gv_autocap v)) (if ch =? 39 then 39 else 62) (c2 :: p3) ltac:(discriminate)) as G.
      destruct (group_name tb mco (mkGV (gv_o v) false (gv_autocap v)) (if ch =? 39 then 39 else 62) (c2 :: p3)) as [[[g v'] q]|e q| | |];
        cbn [gadv length] in *; try contradiction; try exact I; try lia. destruct G as [G1 G2]. split; [lia | exact G2]. }
  destruct (ch =? 40).
  { pose proof (group_cond_gadv tb (mkGV (gv_o v) false (gv_autocap v)) (ch :: p2)) as G.
    destruct (group_cond tb (mkGV (gv_o v) false (gv_autocap v)) (ch :: p2)) as [[[g v'] q]|e q| | |];
      cbn [gadv length] in *; try contradiction; try exact I; try lia. destruct G as [G1 G2]. split; [lia | exact G2]. }
  destruct ((ch =? 80) && useRE2 (gv_o v)).
  { pose proof (group_pyname_gadv tb mco (mkGV (gv_o v) false (gv_autocap v)) p2) as G.
    destruct (group_pyname tb mco (mkGV (gv_o v) false (gv_autocap v)) p2) as [[[g v'] q]|e q| | |];
      cbn [gadv length] in *; try contradiction; try exact I; try lia. destruct G as [G1 G2]. split; [lia | exact G2]. }
  assert (L : forall o2 q, (if gt =? T_ExprCond then (gv_o v, ch :: p2) else scan_options_text (gv_o v) (ch :: p2)) = (o2, q) ->
              (length q <= S (length p2))%nat).
  { intros o2 q H. destruct (gt =? T_ExprCond); [inversion H; cbn [length]; lia|].
    apply scan_options_text_len in H. cbn [length] in H. exact H. }
  destruct (if gt =? T_ExprCond then (gv_o v, ch :: p2) else scan_options_text (gv_o v) (ch :: p2)) as [o2 q] eqn:Eo.
  specialize (L o2 q eq_refl).
  destruct q as [|c q1]; [gfin|]. cbn [length] in L.
  destruct (c =? 41); [gfin|]. destruct (c =? 58); gfin.
Qed.

Lemma python_backref_adv tb o p :
  match python_backref tb o p with
  | POk (x, q) => (length q <= length p)%nat /\ good x
  | PE _ q => (length q <= length p)%nat
  | PO => True
  | PC _ | PF => False
  end.
Proof.
  unfold Parser.python_backref. destruct p as [|ch p']; [plia|].
  destruct (useE o); [exact I|].
  destruct (negb (is_word_char ch)); [plia|].
  pose proof (scan_word_len' is_word_char to_lower (ch :: p')) as W. destruct (scan_word is_word_char (ch :: p')) as [nm q]. cbn [snd] in W.
  pose proof (tl_len q) as Tq.
  destruct (negb (is_nil nm) && hd_is q 41); [|exact W].
  destruct (ct_name tb nm) as [g|]; [|plia]. split; [lia | apply ref_node_good].
Qed.

End Main.
