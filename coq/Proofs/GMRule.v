(* The documented numbering rule (C17: numbering_rule), read off the pre-scan's marks and table. *)
From Verif Require Import Base.Prelude Model.GroupMap Proofs.GMBase Proofs.OptionsProofs Proofs.GMLookups Proofs.GMPrescan Proofs.GMAgree.
From Coq Require Import Sorting.Sorted.

(* what one token does to the capture bookkeeping, by the mark it leaves *)
Lemma pstep_cases : forall mco ecma ps tok ps' mk,
  pstep mco ecma ps tok = Ok (ps', mk) ->
  match mk with
  | PNone => p_c ps' = p_c ps
  | PAuto k => k = c_autocap (p_c ps)
               /\ p_c ps' = note_slot k (mkC (k + 1) (c_caps (p_c ps)) (c_capcount (p_c ps)) (c_captop (p_c ps))
                                             (c_capnames (p_c ps)) (c_capnamelist (p_c ps)))
  | PName s => note_name mco ecma s (p_c ps) = Ok (p_c ps')
               /\ (mco = false -> exists s', tok = TNamed s' /\ s = s')
  | PNum n => mco = false /\ 0 < n /\ tok = TNumbered n /\ p_c ps' = note_slot n (p_c ps)
  end.
Proof.
  intros mco ecma ps tok ps' mk H. unfold pstep in H.
  destruct (ostep PreScan (p_o ps) tok) as [o'| | |]; try discriminate. cbn [bind] in H.
  destruct (o_skip (p_o ps)); [injection H as <- <-; reflexivity|].
  destruct tok; try (injection H as <- <-; reflexivity).
  - destruct (negb (has (o_opts (p_o ps)) opt_n) && negb (p_ign ps)); injection H as <- <-; cbn; auto.
  - destruct (note_name mco ecma s (p_c ps)) as [c'| | |] eqn:E; try discriminate. cbn [bind] in H.
    injection H as <- <-. cbn. split; [assumption|]. intros _. eauto.
  - destruct ecma; [injection H as <- <-; reflexivity|].
    destruct (n <=? 0) eqn:E0; [injection H as <- <-; reflexivity|].
    destruct (maxint32 <? n); [discriminate|].
    destruct mco.
    + destruct (note_name true false (itoa n) (p_c ps)) as [c'| | |] eqn:E; try discriminate. cbn [bind] in H.
      injection H as <- <-. cbn. split; [assumption|discriminate].
    + injection H as <- <-. cbn. apply Z.leb_gt in E0. auto.
Qed.

(* ---------- lists read off the marks ---------- *)
Fixpoint autos (mks : list pmark) : list Z :=
  match mks with [] => [] | PAuto k :: r => k :: autos r | _ :: r => autos r end.
Fixpoint pnums (mks : list pmark) : list Z :=
  match mks with [] => [] | PNum n :: r => n :: pnums r | _ :: r => pnums r end.
Fixpoint pnames (mks : list pmark) : list name :=
  match mks with [] => [] | PName s :: r => s :: pnames r | _ :: r => pnames r end.

Definition nmem (s : name) (l : list name) : bool := existsb (zlist_eqb s) l.
Lemma nmem_In : forall s l, nmem s l = true <-> In s l.
Proof.
  intros s l. unfold nmem. rewrite existsb_exists. split.
  - intros [x [Hx E]]. apply zlist_eqb_eq in E. now subst.
  - intros H. exists s. split; [assumption|apply zlist_eqb_refl].
Qed.
Lemma nmem_false : forall s l, nmem s l = false <-> ~ In s l.
Proof.
  intros s l. split; intros H.
  - intros Hi. apply nmem_In in Hi. congruence.
  - destruct (nmem s l) eqn:E; [apply nmem_In in E; contradiction|reflexivity].
Qed.

(* the names in order of first appearance, given the ones already seen *)
Fixpoint new_names (seen : list name) (l : list name) : list name :=
  match l with
  | [] => []
  | s :: r => if nmem s seen then new_names seen r else s :: new_names (seen ++ [s]) r
  end.

(* ================= numbers not maintained in pattern order ================= *)

Lemma note_name_default : forall lim ecma s c c',
  pinv lim false c -> note_name false ecma s c = Ok c' ->
  c_autocap c' = c_autocap c /\ c_caps c' = c_caps c
  /\ c_capnamelist c' = (if nmem s (c_capnamelist c) then c_capnamelist c else c_capnamelist c ++ [s]).
Proof.
  intros lim ecma s c c' Hinv H. unfold note_name in H.
  destruct (aget s (names_of c)) as [v|] eqn:Eg.
  - destruct ecma; [discriminate|]. injection H as <-. cbn.
    assert (In s (c_capnamelist c)) by (rewrite <- (pi_keys _ _ _ Hinv); eapply aget_some_key; eauto).
    now rewrite (proj2 (nmem_In _ _) H).
  - injection H as <-. cbn.
    assert (~ In s (c_capnamelist c)) by (rewrite <- (pi_keys _ _ _ Hinv); now apply aget_none_keys).
    now rewrite (proj2 (nmem_false _ _) H).
Qed.

(* the loop of countCaptures, when numbers are not kept in pattern order *)
Lemma prun_shape_default : forall lim ecma ts ps ps' mks,
  lim <= maxint32 -> pinv lim false (p_c ps) -> Forall tok_lex ts -> Forall (tok_small lim) ts ->
  c_autocap (p_c ps) + Z.of_nat (length ts) < maxint32 ->
  prun false ecma ps ts = Ok (ps', mks) ->
  c_autocap (p_c ps') = c_autocap (p_c ps) + Z.of_nat (length (autos mks))
  /\ autos mks = map (fun i => c_autocap (p_c ps) + Z.of_nat i) (seq 0 (length (autos mks)))
  /\ (forall k, In k (c_caps (p_c ps')) <-> In k (c_caps (p_c ps)) \/ In k (autos mks) \/ In k (pnums mks))
  /\ c_capnamelist (p_c ps') = c_capnamelist (p_c ps) ++ new_names (c_capnamelist (p_c ps)) (pnames mks).
Proof.
  intros lim ecma ts. induction ts as [|tok ts IH]; intros ps ps' mks Hlim Hinv Hlex Hsmall Hlt H.
  - cbn in H. injection H as <- <-. cbn. rewrite app_nil_r. repeat split; try lia; tauto.
  - cbn [prun] in H.
    destruct (pstep false ecma ps tok) as [[ps1 mk]| | |] eqn:E1; try discriminate. cbn [bind] in H.
    destruct (prun false ecma ps1 ts) as [[ps2 mks2]| | |] eqn:E2; try discriminate. cbn [bind] in H.
    injection H as <- <-.
    inversion Hlex as [|? ? Hl1 Hl2]; subst. inversion Hsmall as [|? ? Hs1 Hs2]; subst.
    cbn [length] in Hlt.
    destruct (pstep_inv lim Hlim false ecma ps tok ps1 mk Hinv Hl1 Hs1 ltac:(lia) E1) as [P1 [P2 _]].
    destruct (IH ps1 ps2 mks2 Hlim P1 Hl2 Hs2 ltac:(lia) E2) as [I1 [I2 [I3 I4]]].
    pose proof (pstep_cases _ _ _ _ _ _ E1) as C.
    destruct mk.
    + (* PNone *) cbn [autos pnums pnames]. rewrite C in *. auto.
    + (* PAuto *) destruct C as [-> C].
      destruct (auto_slot_inv lim false (p_c ps) Hinv ltac:(lia)) as [_ [A2 [_ [_ _]]]]. cbn zeta in A2.
      rewrite <- C in A2.
      destruct (note_slot_fields (c_autocap (p_c ps))
        (mkC (c_autocap (p_c ps) + 1) (c_caps (p_c ps)) (c_capcount (p_c ps)) (c_captop (p_c ps)) (c_capnames (p_c ps)) (c_capnamelist (p_c ps)))) as [_ [_ Fl]].
      rewrite <- C in Fl. cbn [c_capnamelist] in Fl.
      cbn [autos pnums pnames length]. split; [rewrite I1, A2; lia|]. split; [|split].
      * cbn [seq map]. f_equal; [lia|]. rewrite I2 at 1. rewrite <- seq_shift, map_map. rewrite A2.
        apply map_ext. intros. lia.
      * assert (Hc1 : forall k, In k (c_caps (p_c ps1)) <-> k = c_autocap (p_c ps) \/ In k (c_caps (p_c ps))).
        { intros k. rewrite C. rewrite note_slot_caps. reflexivity. }
        intros k. rewrite I3, Hc1. cbn [In]. intuition.
      * now rewrite I4, Fl.
    + (* PName *) destruct C as [C _].
      destruct (note_name_default lim ecma s (p_c ps) (p_c ps1) Hinv C) as [N1 [N2 N3]].
      cbn [autos pnums pnames new_names]. rewrite I1, N1. split; [reflexivity|]. split; [rewrite <- N1; exact I2|].
      split; [intros k; now rewrite I3, N2|].
      rewrite I4, N3. destruct (nmem s (c_capnamelist (p_c ps))); [reflexivity|]. now rewrite <- app_assoc.
    + (* PNum *) destruct C as [_ [Hn [_ C]]].
      destruct (note_slot_fields n (p_c ps)) as [Fa [_ Fl]]. rewrite <- C in Fa, Fl.
      cbn [autos pnums pnames]. rewrite I1, Fa. split; [reflexivity|]. split; [rewrite <- Fa; exact I2|].
      split; [|now rewrite I4, Fl].
      assert (Hc1 : forall k, In k (c_caps (p_c ps1)) <-> k = n \/ In k (c_caps (p_c ps))).
      { intros k. rewrite C. rewrite note_slot_caps. reflexivity. }
      intros k. rewrite I3, Hc1. cbn [In]. intuition.
Qed.

(* numbering_rule, numbers not maintained in pattern order (default mode):
   - the plain "(" that capture are numbered 1, 2, ..., u in order of their opening parenthesis;
   - an explicitly numbered group keeps its number (it is filed under that number: [pnums]);
   - the distinct names, in order of first appearance, get the successive numbers from u+1 on
     that are not explicit numbers ([chain]); a repeated name has one entry, hence one number;
   - and these are all the group numbers. *)
Theorem numbering_default : forall lim o ts t mks,
  ts_ok_unguarded lim ts ->
  prescan false false o ts = Ok (t, mks) ->
  let u := Z.of_nat (length (autos mks)) in
  autos mks = map (fun i => 1 + Z.of_nat i) (seq 0 (length (autos mks)))
  /\ exists ks,
       chain (0 :: autos mks ++ pnums mks) (u + 1) ks
       /\ (forall k, In k (t_caps t) <-> k = 0 \/ In k (autos mks) \/ In k (pnums mks) \/ In k ks)
       /\ match t_capnames t with
          | Some m => Forall2 (fun s k => aget s m = Some k) (new_names [] (pnames mks)) ks
          | None => new_names [] (pnames mks) = []
          end.
Proof.
  intros lim o ts t mks [Hlex [Hsmall [Hlim Hb]]] H. cbn zeta.
  unfold prescan in H.
  destruct (prun false false (p_init o) ts) as [[st mks']| | |] eqn:Ep; try discriminate. cbn [bind] in H.
  destruct (assign_default (p_c st)) as [t'| | |] eqn:Ea; try discriminate. cbn [bind] in H.
  injection H as <- <-.
  pose proof (prun_len _ _ _ _ _ _ Ep) as Hnl. cbn in Hnl.
  destruct (prun_inv lim Hlim false false ts (p_init o) st mks' (pinv_init lim false) Hlex Hsmall
              ltac:(cbn [p_init p_c c_init c_autocap]; lia) Ep) as [Hinv [Hauto _]].
  cbn [p_init p_c c_init c_autocap] in Hauto.
  destruct (prun_shape_default lim false ts (p_init o) st mks' Hlim (pinv_init lim false) Hlex Hsmall
              ltac:(cbn [p_init p_c c_init c_autocap]; lia) Ep) as [S1 [S2 [S3 S4]]].
  cbn [p_init p_c c_init c_autocap c_caps c_capnamelist app] in S1, S2, S3, S4.
  split; [exact S2|].
  destruct (assign_default_wf lim (p_c st) t' Hinv) as [_ [_ [_ [ks [K1 [K2 K3]]]]]]; [|assumption|].
  { pose proof (pi_topb _ _ _ Hinv). lia. }
  exists ks. split; [|split].
  - rewrite S1 in K1. replace (1 + Z.of_nat (length (autos mks'))) with (Z.of_nat (length (autos mks')) + 1) in K1 by lia.
    apply (chain_ext (c_caps (p_c st))); [|exact K1].
    intros n _. rewrite S3. cbn [In]. rewrite in_app_iff. intuition.
  - intros k. rewrite K2, S3. cbn [In]. intuition.
  - rewrite S4 in K3. exact K3.
Qed.

(* ================= numbers maintained in pattern order ================= *)

(* every group that opens something new — a capturing "(" or a name not seen before — gets the
   next number; a name seen before has its one entry, hence the number it got then *)
Fixpoint mco_rule (get : name -> option Z) (a : Z) (seen : list name) (mks : list pmark) : Prop :=
  match mks with
  | [] => True
  | PAuto k :: r => k = a /\ mco_rule get (a + 1) seen r
  | PName s :: r => if nmem s seen then mco_rule get a seen r
                    else get s = Some a /\ mco_rule get (a + 1) (seen ++ [s]) r
  | PNum _ :: _ => False
  | PNone :: r => mco_rule get a seen r
  end.

Lemma note_name_mco : forall lim ecma s c c',
  pinv lim true c -> note_name true ecma s c = Ok c' ->
  if nmem s (c_capnamelist c)
  then c_capnamelist c' = c_capnamelist c /\ c_autocap c' = c_autocap c
  else c_capnamelist c' = c_capnamelist c ++ [s] /\ c_autocap c' = c_autocap c + 1
       /\ aget s (names_of c') = Some (c_autocap c).
Proof.
  intros lim ecma s c c' Hinv H. unfold note_name in H.
  destruct (aget s (names_of c)) as [v|] eqn:Eg.
  - destruct ecma; [discriminate|]. injection H as <-. cbn.
    assert (In s (c_capnamelist c)) by (rewrite <- (pi_keys _ _ _ Hinv); eapply aget_some_key; eauto).
    rewrite (proj2 (nmem_In _ _) H). auto.
  - assert (~ In s (c_capnamelist c)) by (rewrite <- (pi_keys _ _ _ Hinv); now apply aget_none_keys).
    rewrite (proj2 (nmem_false _ _) H0).
    set (c1 := mkC (c_autocap c + 1) (c_caps c) (c_capcount c) (c_captop c)
                   (Some (aset s (c_autocap c) (names_of c))) (c_capnamelist c)) in *.
    destruct (note_slot_fields (c_autocap c) c1) as [Fa [Fn Fl]].
    injection H as <-. cbn [c_capnamelist c_autocap]. rewrite Fa, Fl. cbn [c1 c_autocap c_capnamelist].
    split; [reflexivity|]. split; [reflexivity|].
    unfold names_of. cbn [c_capnames]. rewrite Fn. cbn [c1 c_capnames]. apply aget_aset_same.
Qed.

Lemma prun_shape_mco : forall lim ecma ts ps ps' mks get,
  lim <= maxint32 -> pinv lim true (p_c ps) -> Forall tok_lex ts -> Forall (tok_small lim) ts ->
  c_autocap (p_c ps) + Z.of_nat (length ts) < maxint32 ->
  prun true ecma ps ts = Ok (ps', mks) ->
  (forall s v, aget s (names_of (p_c ps')) = Some v -> get s = Some v) ->
  mco_rule get (c_autocap (p_c ps)) (c_capnamelist (p_c ps)) mks.
Proof.
  intros lim ecma ts. induction ts as [|tok ts IH]; intros ps ps' mks get Hlim Hinv Hlex Hsmall Hlt H Hget.
  - cbn in H. injection H as <- <-. exact I.
  - cbn [prun] in H.
    destruct (pstep true ecma ps tok) as [[ps1 mk]| | |] eqn:E1; try discriminate. cbn [bind] in H.
    destruct (prun true ecma ps1 ts) as [[ps2 mks2]| | |] eqn:E2; try discriminate. cbn [bind] in H.
    injection H as <- <-.
    inversion Hlex as [|? ? Hl1 Hl2]; subst. inversion Hsmall as [|? ? Hs1 Hs2]; subst.
    cbn [length] in Hlt.
    destruct (pstep_inv lim Hlim true ecma ps tok ps1 mk Hinv Hl1 Hs1 ltac:(lia) E1) as [P1 [P2 _]].
    destruct (prun_inv lim Hlim true ecma ts ps1 ps2 mks2 P1 Hl2 Hs2 ltac:(lia) E2) as [_ [_ [_ [Q4 _]]]].
    pose proof (IH ps1 ps2 mks2 get Hlim P1 Hl2 Hs2 ltac:(lia) E2 Hget) as R.
    pose proof (pstep_cases _ _ _ _ _ _ E1) as C.
    destruct mk; cbn [mco_rule].
    + rewrite C in R. exact R.
    + destruct C as [-> C].
      destruct (auto_slot_inv lim true (p_c ps) Hinv ltac:(lia)) as [_ [A2 _]]. cbn zeta in A2. rewrite <- C in A2.
      destruct (note_slot_fields (c_autocap (p_c ps))
        (mkC (c_autocap (p_c ps) + 1) (c_caps (p_c ps)) (c_capcount (p_c ps)) (c_captop (p_c ps)) (c_capnames (p_c ps)) (c_capnamelist (p_c ps)))) as [_ [_ Fl]].
      rewrite <- C in Fl. cbn [c_capnamelist] in Fl.
      split; [reflexivity|]. now rewrite <- A2, <- Fl.
    + destruct C as [C _].
      pose proof (note_name_mco lim ecma s (p_c ps) (p_c ps1) Hinv C) as N.
      destruct (nmem s (c_capnamelist (p_c ps))).
      * destruct N as [N1 N2]. now rewrite <- N1, <- N2.
      * destruct N as [N1 [N2 N3]]. split; [apply Hget, (Q4 eq_refl), N3|]. now rewrite <- N1, <- N2.
    + destruct C as [C _]. discriminate.
Qed.

(* numbering_rule with MaintainCaptureOrder (also ECMAScript, RE2): pure pattern order *)
Theorem numbering_ordered : forall lim ecma o ts t mks,
  ts_ok_unguarded lim ts ->
  prescan true ecma o ts = Ok (t, mks) ->
  mco_rule (fun s => match t_capnames t with Some m => aget s m | None => None end) 1 [] mks.
Proof.
  intros lim ecma o ts t mks [Hlex [Hsmall [Hlim Hb]]] H.
  unfold prescan in H.
  destruct (prun true ecma (p_init o) ts) as [[st mks']| | |] eqn:Ep; try discriminate. cbn [bind] in H.
  destruct (assign_ordered ecma (p_c st)) as [t'| | |] eqn:Ea; try discriminate. cbn [bind] in H.
  injection H as <- <-.
  destruct (prun_inv lim Hlim true ecma ts (p_init o) st mks' (pinv_init lim true) Hlex Hsmall
              ltac:(cbn [p_init p_c c_init c_autocap]; lia) Ep) as [Hinv _].
  destruct (assign_ordered_weak lim ecma (p_c st) t' Hinv Ea) as [_ [_ H3]].
  apply (prun_shape_mco lim ecma ts (p_init o) st mks' _ Hlim (pinv_init lim true) Hlex Hsmall); try assumption.
  - cbn [p_init p_c c_init c_autocap]. lia.
  - intros s v Hv. destruct (H3 s v Hv) as [m [-> Hm]]. exact Hm.
Qed.
