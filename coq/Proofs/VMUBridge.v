(* The link between the interpreter with its real, finite stack capacities (VM.step / VM.run /
   VM.exec_at, limit = -1) and the unbounded-stack view [ustep] used by compile_correct:
   every real step that succeeds is a ustep.  Hence a successful real run is a [usteps] path
   ending in a Done step, and since [ustep] is a function that path is THE path. *)
From Verif Require Import Base.Prelude Model.Tree Model.Spec Model.VM Gen.RunnerGen
  Proofs.VMLimitProofs Proofs.VMLimitSimProofs Proofs.VMU.
From Coq Require Import Relations ZifyBool.

Definition same (s1 s2 : vm) : Prop :=
  pc s1 = pc s2 /\ mode s1 = mode s2 /\ tp s1 = tp s2 /\ track s1 = track s2 /\
  stack s1 = stack s2 /\ crawl s1 = crawl s2 /\ mcaps s1 = mcaps s2.

Definition out_same (o1 o2 : outcome) : Prop :=
  match o1, o2 with
  | Next a, Next b => same a b
  | Done a, Done b => same a b
  | Fail c, Fail c' => c = c'
  | Crashed w, Crashed w' => w = w'
  | _, _ => False
  end.

(* only the successful left side matters *)
Definition relU {A} (R : A -> A -> Prop) (r1 r2 : res A) : Prop :=
  match r1 with Ok a => exists b, r2 = Ok b /\ R a b | _ => True end.

Lemma relU_bind {A B} (R : A -> A -> Prop) (Q : B -> B -> Prop) r1 r2 k1 k2 :
  relU R r1 r2 -> (forall a b, R a b -> relU Q (k1 a) (k2 b)) -> relU Q (bind r1 k1) (bind r2 k2).
Proof.
  intros H K. destruct r1 as [a| | |]; cbn [bind relU]; try exact I.
  destruct H as [b [-> Hab]]. cbn [bind]. apply K. exact Hab.
Qed.

Section Bridge.
Variable e : env.
Variable p : program.
Hypothesis tc_nonneg : 0 <= trackcount p.

Definition need : Z := trackcount p * G_ensure_factor.
Definition roomy (k : Z) (s : vm) : Prop :=
  zlen (track s) + need + k <= tcap s /\ zlen (stack s) + need + k <= scap s.

Lemma u_ensure s1 s2 : same s1 s2 -> roomy 0 s2 ->
  relU same (ensure_storage p (-1) s1) (ensure_storage p (-1) s2).
Proof.
  intros HS [HT HK]. unfold relU.
  destruct (ensure_storage p (-1) s1) as [a| | |] eqn:E1; try exact I.
  exists s2. split.
  - unfold ensure_storage. fold need.
    replace (scap s2 - zlen (stack s2) <? need) with false by lia.
    replace (tcap s2 - zlen (track s2) <? need) with false by lia. reflexivity.
  - unfold ensure_storage in E1.
    repeat match type of E1 with context [if ?b then _ else _] => destruct b end;
      try discriminate; injection E1 as <-; unfold same in *; vm_cbn; tauto.
Qed.

Lemma u_goto s1 s2 a : same s1 s2 -> roomy 0 s2 ->
  relU out_same (cont (goto p (-1) s1 a)) (cont (goto p (-1) s2 a)).
Proof.
  intros HS HR. unfold cont, goto.
  assert (Hpc : pc s1 = pc s2) by (unfold same in HS; tauto). rewrite <- Hpc.
  apply relU_bind with (R := same); [|intros x y Hxy; cbn [relU]; eexists; split; [reflexivity|exact Hxy]].
  apply relU_bind with (R := same).
  - destruct (a <=? pc s1); [apply u_ensure; assumption|cbn [relU]; eexists; split; [reflexivity|exact HS]].
  - intros x y Hxy. destruct (code_at p a); cbn [relU]; [|exact I].
    eexists; split; [reflexivity|]. unfold same in *. vm_cbn. tauto.
Qed.

Lemma u_adv s1 s2 i : same s1 s2 ->
  relU out_same (cont (advance p s1 i)) (cont (advance p s2 i)).
Proof.
  intros HS. unfold cont, advance.
  assert (Hpc : pc s1 = pc s2) by (unfold same in HS; tauto). rewrite <- Hpc.
  destruct (code_at p (pc s1 + i + 1)); cbn [bind relU]; [|exact I].
  eexists; split; [reflexivity|]. cbn [out_same]. unfold same in *. vm_cbn. tauto.
Qed.

Lemma u_brk s1 s2 : same s1 s2 -> roomy 0 s2 ->
  relU out_same (brk p (-1) s1) (brk p (-1) s2).
Proof.
  intros HS [HT HK]. unfold brk.
  apply relU_bind with (R := same); [|intros x y Hxy; cbn [relU]; eexists; split; [reflexivity|exact Hxy]].
  unfold backtrack. unfold same in HS. destruct HS as (Hpc & Hmd & Htp & Htr & Hst & Hcr & Hmc).
  rewrite <- Htr, <- Hpc.
  destruct (track s1) as [|np t] eqn:Et; [exact I|].
  destruct (if np <? 0 then (- np, Back2Bit) else (np, BackBit)) as [newpos m].
  destruct (code_at p newpos); [|exact I].
  apply relU_bind with (R := same).
  - assert (HS1 : same (set_track s1 t) (set_track s2 t)) by (unfold same; vm_cbn; tauto).
    destruct (newpos <? pc s1); [|cbn [relU]; eexists; split; [reflexivity|exact HS1]].
    apply u_ensure; [exact HS1|]. unfold roomy. vm_cbn. rewrite <- Htr, vml_zlen_cons in HT.
    pose proof (vml_zlen_nonneg t). lia.
  - intros x y Hxy. cbn [relU]. eexists; split; [reflexivity|]. unfold same in *. vm_cbn. tauto.
Qed.

Ltac vm_cbv :=
  cbv beta iota zeta delta
      [pc mode tp track tcap stack scap crawl mcaps
       set_pc set_tp set_track set_stack set_caps set_tcap set_scap bind].

Ltac sim_case :=
  match goal with
  | |- context [match ?x with _ => _ end] =>
      lazymatch x with
      | context [match _ with _ => _ end] => fail
      | context [bind _ _] => fail
      | _ => destruct x eqn:?
      end
  | |- context [bind ?x _] =>
      lazymatch x with
      | context [match _ with _ => _ end] => fail
      | context [bind _ _] => fail
      | _ => destruct x eqn:?
      end
  end.

Ltac u_states HT HK :=
  unfold same, roomy; vm_cbv; repeat split;
  try (clear - HT HK tc_nonneg; unfold need, G_ensure_factor in *; vml_lens;
       repeat match goal with |- context [zlen ?l] =>
         lazymatch goal with H : 0 <= zlen l |- _ => fail | _ => pose proof (vml_zlen_nonneg l) end end;
       lia).

Ltac u_norm :=
  repeat match goal with
         | H : Some _ = Some _ |- _ => injection H as H; try subst
         | H1 : ?x = Some ?a, H2 : ?x = Some ?b |- _ =>
             assert (a = b) by congruence; try subst b; clear H2
         end.

Ltac u_skipn :=
  repeat match goal with
         | H : context [zlen (skipn ?k ?l)] |- _ =>
             lazymatch goal with
             | _ : zlen (skipn k l) <= zlen l |- _ => fail
             | _ => pose proof (vml_zlen_skipn_le k l)
             end
         end.

Ltac u_leaf HT HK :=
  repeat match goal with H : context [Z.land _ _] |- _ => clear H end;
  u_norm;
  first
    [ exact I
    | apply u_adv; u_states HT HK
    | apply u_goto; u_states HT HK
    | apply u_brk; u_states HT HK
    | cbn [relU]; eexists; split; [reflexivity|]; cbn [out_same]; u_states HT HK
    | exfalso; congruence
    | exfalso; u_skipn; unfold need, G_ensure_factor in *; vml_lens;
      repeat match goal with H : context [zlen ?l] |- _ =>
        lazymatch goal with H' : 0 <= zlen l |- _ => fail | _ => pose proof (vml_zlen_nonneg l) end end;
      lia ].

Lemma step_u s1 s2 :
  same s1 s2 -> roomy 16 s2 -> relU out_same (step e p (-1) s1) (step e p (-1) s2).
Proof.
  destruct s1 as [pc1 md1 tp1 tr1 tc1 st1 sc1 cr1 mc1].
  destruct s2 as [pc2 md2 tp2 tr2 tc2 st2 sc2 cr2 mc2].
  unfold same, roomy. vm_cbn. intros (-> & -> & -> & -> & -> & -> & ->) [HT HK].
  unfold step. unfold tpush, spush, opnd, trackto, uncapture, do_capture, do_transfer, fwdchars.
  repeat (vm_cbv; rewrite ?uncapture_to_pure; vm_cbv; sim_case).
  all: vm_cbv.
  all: u_leaf HT HK.
Qed.

Lemma same_norm a b : same a b -> norm a = norm b.
Proof.
  unfold same, norm. intros (H1 & H2 & H3 & H4 & H5 & H6 & H7). rewrite H1, H2, H3, H4, H5, H6, H7. reflexivity.
Qed.

Lemma same_repad s : same s (repad p (norm s)).
Proof. unfold same, repad, norm, VMU.mk. vm_cbn. repeat split. Qed.

Lemma roomy_repad s : roomy 16 (repad p (norm s)).
Proof. unfold roomy, repad, norm, VMU.mk, pad, need. vm_cbn. lia. Qed.

(* every real step that succeeds is a ustep *)
Lemma step_is_ustep s o : step e p (-1) s = Ok o ->
  match o with
  | Next s' => ustep e p (norm s) = Ok (Next (norm s'))
  | Done s' => ustep e p (norm s) = Ok (Done (norm s'))
  | _ => True
  end.
Proof.
  intros H. pose proof (step_u s (repad p (norm s)) (same_repad s) (roomy_repad s)) as G.
  rewrite H in G. cbn [relU] in G. destruct G as [o2 [E2 Ho]].
  unfold ustep. rewrite E2.
  destruct o as [a|a|c|w], o2 as [b|b|c'|w']; cbn [out_same] in Ho; try contradiction; try exact I.
  - rewrite (same_norm a b Ho). reflexivity.
  - rewrite (same_norm a b Ho). reflexivity.
Qed.

Lemma run_steps_usteps k : forall s s' b, run_steps e p (-1) k s = Ok (s', b) ->
  if b then exists sd, usteps e p (norm s) (norm sd) /\ ustep e p (norm sd) = Ok (Done (norm s'))
  else usteps e p (norm s) (norm s').
Proof.
  induction k as [|k IH]; intros s s' b H; cbn [run_steps] in H.
  - injection H as <- <-. apply usteps_refl.
  - destruct (step e p (-1) s) as [o| | |] eqn:E; try discriminate.
    pose proof (step_is_ustep s o E) as G.
    destruct o as [a|a|c|w]; try discriminate.
    + specialize (IH a s' b H). destruct b.
      * destruct IH as [sd [H1 H2]]. exists sd. split; [|exact H2].
        eapply usteps_step; [exact G|exact H1].
      * eapply usteps_step; [exact G|exact IH].
    + injection H as <- <-. exists s. split; [apply usteps_refl|exact G].
Qed.

Lemma run_usteps fuel : forall s s', run e p (-1) fuel s = Ok s' ->
  exists sd, usteps e p (norm s) (norm sd) /\ ustep e p (norm sd) = Ok (Done (norm s')).
Proof.
  induction fuel as [|f IH]; intros s s' H; cbn [run] in H; [discriminate|].
  destruct (run_steps e p (-1) 1000 s) as [[s1 b]| | |] eqn:E; try discriminate. cbn [bind fst snd] in H.
  pose proof (run_steps_usteps 1000 s s1 b E) as G. destruct b.
  - injection H as <-. exact G.
  - destruct (IH s1 s' H) as [sd [H1 H2]]. exists sd. split; [|exact H2].
    eapply usteps_trans; eassumption.
Qed.

Lemma goto_norm L s n s' : goto p L s n = Ok s' ->
  norm s' = VMU.mk n 0 (tp s) (track s) (stack s) (crawl s) (mcaps s).
Proof.
  unfold goto. intros H.
  assert (He : forall s1, ensure_storage p L s = Ok s1 -> norm s1 = norm s).
  { intros s1 H1. unfold ensure_storage in H1.
    repeat match type of H1 with context [if ?b then _ else _] => destruct b end;
      try discriminate; injection H1 as <-; reflexivity. }
  destruct (n <=? pc s).
  - destruct (ensure_storage p L s) as [s1| | |] eqn:E; try discriminate. cbn [bind] in H.
    destruct (code_at p n); [|discriminate]. injection H as <-.
    specialize (He s1 eq_refl). unfold norm, VMU.mk in *. vm_cbn. injection He as _ _ -> -> -> -> ->. reflexivity.
  - cbn [bind] in H. destruct (code_at p n); [|discriminate]. injection H as <-. reflexivity.
Qed.

Lemma exec_at_usteps fuel t s' : exec_at e p (-1) fuel t = Ok s' ->
  exists sd, usteps e p (VMU.mk 0 0 t [] [] [] (repeat [] (Z.to_nat (capsize p)))) (norm sd) /\
             ustep e p (norm sd) = Ok (Done (norm s')).
Proof.
  unfold exec_at. intros H.
  destruct (goto p (-1) (init_vm p (-1) t) 0) as [s0| | |] eqn:E; try discriminate. cbn [bind] in H.
  apply goto_norm in E. cbn [init_vm tp track stack crawl mcaps] in E.
  destruct (run_usteps fuel s0 s' H) as [sd [H1 H2]]. exists sd. rewrite <- E. split; assumption.
Qed.

(* [ustep] is a function: the path to a Done step is unique *)
Lemma usteps_done_unique a b b' c c' :
  usteps e p a b -> ustep e p b = Ok (Done b') -> usteps e p a c -> ustep e p c = Ok (Done c') ->
  b = c /\ b' = c'.
Proof.
  intros H1 Hb H2 Hc. apply clos_rt_rt1n in H1. apply clos_rt_rt1n in H2.
  revert c c' H2 Hc. induction H1 as [a|a a1 b Ha H1 IH]; intros c c' H2 Hc.
  - inversion H2; subst.
    + rewrite Hb in Hc. injection Hc as <-. split; reflexivity.
    + match goal with H : ustep1 _ _ a _ |- _ => unfold ustep1 in H; rewrite Hb in H; discriminate end.
  - inversion H2; subst.
    + unfold ustep1 in Ha. rewrite Hc in Ha. discriminate.
    + match goal with H : ustep1 _ _ a ?y |- _ =>
        unfold ustep1 in Ha, H; rewrite Ha in H; injection H as <- end.
      apply IH; assumption.
Qed.

End Bridge.
