(* C07 x C02: the reference matcher of a tree without \G does not read the scan start, so FindNextMatch's
   independent search IS FindRunesMatchStartingAt (C07_fresh_search_is_starting_at with its hypothesis
   [no_G] discharged).  Composition only: Proofs/ComposeEntry.v proves that Spec.sem reads [tstart] through
   the AStart anchor alone, Proofs/ComposeExec.v builds the matcher. *)
From Verif Require Import Base.Prelude Model.Tree Model.Spec Model.Iter Proofs.IterProofs
     Proofs.ComposeEntry Proofs.ComposeExec.

Theorem cit_spec_matcher_no_G : forall (e : env) (fuel : nat) (root : node),
  ce_no_start root = true -> no_G (cx_spec_matcher e fuel root).
Proof.
  intros e fuel root Hn ts ts' p. unfold cx_spec_matcher.
  change (cx_env_at e ts) with (ce_env_at e ts). change (cx_env_at e ts') with (ce_env_at e ts').
  rewrite (ce_attempt_at e ts fuel root p Hn), (ce_attempt_at e ts' fuel root p Hn). reflexivity.
Qed.

Theorem cit_fresh_search_is_starting_at : forall (e : env) (fuel : nat) (root : node) (rtl : bool),
  ce_no_start root = true ->
  forall lfuel ts pos, 0 <= pos ->
    search_from rtl (tlen e) (cx_spec_matcher e fuel root) lfuel ts pos =
    find_runes_match_starting_at rtl (tlen e) (cx_spec_matcher e fuel root) lfuel pos.
Proof.
  intros e fuel root rtl Hn lfuel ts pos Hp.
  apply search_from_noG; [apply cit_spec_matcher_no_G; exact Hn|exact Hp].
Qed.
