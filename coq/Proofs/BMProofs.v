(* C03: the Boyer-Moore prefix machine (Model/BM.v = syntax/prefix.go newBmPrefix / Scan / IsMatch) never
   skips an occurrence.

   1. table invariants proved of newBmPrefix's construction:
        [bmp_pos_ok]  positive[i] is a legal shift: 1 <= |positive[i]| <= distance of i to the far end of the
                      pattern, with the sign of the scan direction, and NO shift s smaller than it is viable
                      (viable = the pattern moved by s agrees with its own matched tail and differs at i);
        [bmp_neg_ok]  the bad-character advance looked up for a rune c is the distance from the tail of the
                      pattern to the occurrence of c nearest to the tail (the whole length when c does not
                      occur), for EVERY non-negative rune, through the ASCII array or the unicode rows;
      both directions, the case-insensitive constructor included (it works on the lower-cased pattern).
   2. Scan: a returned position is an occurrence inside the window, none lies before it in scan
      direction; -1 means there is none ([bmp_scan_sound]); no fault and no fuel exhaustion on texts of
      non-negative runes ([bmp_scan_total]).  IsMatch = "an occurrence at this position".
   3. the facts findFirstCharDefault needs ([fd_bm_scan_fact], the IsMatch hypothesis of fd_default_H1). *)
From Coq Require Import ZifyBool.
From Verif Require Import Base.Prelude Model.Scan Model.Finder Model.BM Proofs.ScanProofs Proofs.FinderProofs.

(* ====================================================================================
   slices
   ==================================================================================== *)
Definition bm_gz (l : list Z) (i : Z) : Z := nth (Z.to_nat i) l 0.

Lemma bmp_zlen_nonneg : forall {A} (l : list A), 0 <= zlen l.
Proof. intros. unfold zlen. lia. Qed.

Lemma bmp_at_Ok : forall l i x, bm_at l i = Ok x -> 0 <= i < zlen l /\ bm_gz l i = x.
Proof.
  intros l i x H. unfold bm_at, znth in H. destruct (i <? 0) eqn:E; [discriminate|].
  destruct (nth_error l (Z.to_nat i)) as [y|] eqn:En; [|discriminate]. inversion H; subst y.
  split.
  - assert (Hlt : (Z.to_nat i < length l)%nat) by (apply nth_error_Some; rewrite En; discriminate).
    unfold zlen. lia.
  - unfold bm_gz. exact (nth_error_nth l _ 0 En).
Qed.

Lemma bmp_at_in : forall l i, 0 <= i < zlen l -> bm_at l i = Ok (bm_gz l i).
Proof.
  intros l i H. unfold bm_at, znth. destruct (i <? 0) eqn:E; [lia|].
  assert (Hlt : (Z.to_nat i < length l)%nat) by (unfold zlen in H; lia).
  unfold bm_gz. rewrite (nth_error_nth' l 0 Hlt). reflexivity.
Qed.

Lemma bmp_at_not_fuel : forall l i, bm_at l i <> Fuel.
Proof. intros l i. unfold bm_at. destruct (znth l i); discriminate. Qed.

Lemma bmp_set_nat_length : forall l k v, length (bm_set_nat l k v) = length l.
Proof. induction l as [|x l IH]; intros [|k] v; cbn; auto. Qed.

Lemma bmp_set_nat_nth : forall l k v j, (k < length l)%nat ->
  nth j (bm_set_nat l k v) 0 = if Nat.eqb j k then v else nth j l 0.
Proof.
  induction l as [|x l IH]; intros k v j Hk; [cbn in Hk; lia|].
  destruct k as [|k]; destruct j as [|j]; cbn; try reflexivity.
  apply IH. cbn in Hk. lia.
Qed.

Lemma bmp_set_Ok : forall l i v l', bm_set l i v = Ok l' ->
  0 <= i < zlen l /\ zlen l' = zlen l /\
  forall k, 0 <= k -> bm_gz l' k = if k =? i then v else bm_gz l k.
Proof.
  intros l i v l' H. unfold bm_set in H. destruct ((0 <=? i) && (i <? zlen l)) eqn:E; [|discriminate].
  inversion H; subst l'. split; [lia|]. split.
  - unfold zlen. rewrite bmp_set_nat_length. reflexivity.
  - intros k Hk. unfold bm_gz. rewrite bmp_set_nat_nth by (unfold zlen in E; lia).
    destruct (Nat.eqb (Z.to_nat k) (Z.to_nat i)) eqn:E1; destruct (k =? i) eqn:E2; try reflexivity.
    + apply Nat.eqb_eq in E1. lia.
    + apply Nat.eqb_neq in E1. assert (k = i) by lia. subst. lia.
Qed.

Lemma bmp_set_in : forall l i v, 0 <= i < zlen l -> exists l', bm_set l i v = Ok l'.
Proof. intros l i v H. unfold bm_set. replace ((0 <=? i) && (i <? zlen l)) with true by lia. eauto. Qed.

Lemma bmp_repeat_zlen : forall (x : Z) k, zlen (repeat x k) = Z.of_nat k.
Proof. intros. unfold zlen. rewrite repeat_length. reflexivity. Qed.

Lemma bmp_repeat_nth : forall (x : Z) k j, (j < k)%nat -> nth j (repeat x k) 0 = x.
Proof. induction k as [|k IH]; intros j H; [lia|]. destruct j; cbn; [reflexivity|]. apply IH. lia. Qed.

Lemma bmp_repeat_gz : forall (x : Z) k i, 0 <= i < Z.of_nat k -> bm_gz (repeat x k) i = x.
Proof. intros x k i H. unfold bm_gz. apply bmp_repeat_nth. lia. Qed.

(* ====================================================================================
   PART I: positive
   ==================================================================================== *)
Section PosProofs.
Variable pat : list Z.
Local Notation M := (zlen pat).

Definition bmp_p (i : Z) : Z := bm_gz pat i.
(* k lies strictly between i and the tail end of the pattern (the end compared first), tail included *)
Definition bmp_beyond (rtl : bool) (i k : Z) : Prop := if rtl then 0 <= k < i else i < k < M.
(* moving the pattern by s (in scan direction) is compatible with "the tail beyond i matched the text and
   the text differs from the pattern at i" *)
Definition bmp_viable (rtl : bool) (i s : Z) : Prop :=
  0 <= i - s * bm_bump rtl < M /\ bmp_p (i - s * bm_bump rtl) <> bmp_p i /\
  forall k, bmp_beyond rtl i k -> bmp_p (k - s * bm_bump rtl) = bmp_p k.

Definition bmp_pos_ok (rtl : bool) (pos : list Z) : Prop :=
  zlen pos = M /\
  forall i, 0 <= i < M ->
    1 <= bm_gz pos i * bm_bump rtl <= (i - bm_bf rtl M) * bm_bump rtl /\
    forall s, 1 <= s < bm_gz pos i * bm_bump rtl -> ~ bmp_viable rtl i s.

Ltac bmp_dir := unfold bm_last, bm_bf, bm_bump, bmp_beyond in *.

Lemma bmp_pos_stop : forall pos mtch val, zlen pos = M -> 0 <= mtch < M ->
  exists pos',
    (do v <- bm_at pos mtch ; if v =? 0 then bm_set pos mtch val else Ok pos) = Ok pos' /\ zlen pos' = M /\
    forall k, 0 <= k < M -> bm_gz pos' k = if (k =? mtch) && (bm_gz pos mtch =? 0) then val else bm_gz pos k.
Proof.
  intros pos mtch val Hl Hm. rewrite bmp_at_in by lia. cbn [bind].
  destruct (bm_gz pos mtch =? 0) eqn:E.
  - destruct (bmp_set_in pos mtch val ltac:(lia)) as [pos' Hs]. exists pos'. split; [exact Hs|].
    destruct (bmp_set_Ok _ _ _ _ Hs) as (_ & Hl' & Hg). split; [lia|].
    intros k Hk. rewrite Hg by lia. rewrite andb_true_r. reflexivity.
  - exists pos. split; [reflexivity|]. split; [exact Hl|]. intros k Hk. rewrite andb_false_r. reflexivity.
Qed.

Lemma bmp_pos_match_spec : forall rtl fuel mtch scn pos S,
  1 <= S -> mtch - scn = S * bm_bump rtl -> 0 <= mtch < M ->
  (scn = bm_bf rtl M \/ 0 <= scn < M) -> zlen pos = M ->
  (forall k, bmp_beyond rtl mtch k -> bmp_p (k - S * bm_bump rtl) = bmp_p k) ->
  (Z.to_nat ((scn - bm_bf rtl M) * bm_bump rtl) < fuel)%nat ->
  exists i0 pos',
    bm_pos_match pat (bm_bf rtl M) (bm_bump rtl) fuel mtch scn pos = Ok pos' /\
    0 <= i0 < M /\ zlen pos' = M /\
    (forall k, bmp_beyond rtl i0 k -> bmp_p (k - S * bm_bump rtl) = bmp_p k) /\
    (i0 - S * bm_bump rtl = bm_bf rtl M \/
     (0 <= i0 - S * bm_bump rtl < M /\ bmp_p (i0 - S * bm_bump rtl) <> bmp_p i0)) /\
    (forall k, 0 <= k < M ->
       bm_gz pos' k = if (k =? i0) && (bm_gz pos i0 =? 0) then S * bm_bump rtl else bm_gz pos k).
Proof.
  intros rtl fuel. induction fuel as [|f IH]; intros mtch scn pos S HS Hd Hm Hs Hl Hb Hf; [lia|].
  cbn [bm_pos_match].
  destruct (scn =? bm_bf rtl M) eqn:Ebf.
  - cbn [bind].
    destruct (bmp_pos_stop pos mtch (mtch - scn) Hl Hm) as (pos' & Hr & Hl' & Hg).
    exists mtch, pos'. split; [exact Hr|]. split; [exact Hm|]. split; [exact Hl'|]. split; [exact Hb|].
    split; [left; lia|]. intros k Hk. rewrite (Hg k Hk). rewrite Hd. reflexivity.
  - assert (Hs' : 0 <= scn < M) by (destruct Hs; lia).
    rewrite (bmp_at_in pat mtch) by lia. cbn [bind]. rewrite (bmp_at_in pat scn) by lia. cbn [bind].
    destruct (bm_gz pat mtch =? bm_gz pat scn) eqn:Eab; cbn [negb].
    + (* the match goes on *)
      apply (IH (mtch - bm_bump rtl) (scn - bm_bump rtl) pos S HS).
      * lia.
      * bmp_dir. destruct rtl; lia.
      * bmp_dir. destruct rtl; lia.
      * exact Hl.
      * intros k Hk. assert (Hc : k = mtch \/ bmp_beyond rtl mtch k) by (bmp_dir; destruct rtl; lia).
        destruct Hc as [->|Hc]; [|exact (Hb k Hc)].
        replace (mtch - S * bm_bump rtl) with scn by lia. unfold bmp_p. lia.
      * bmp_dir. destruct rtl; lia.
    + destruct (bmp_pos_stop pos mtch (mtch - scn) Hl Hm) as (pos' & Hr & Hl' & Hg).
      exists mtch, pos'. split; [exact Hr|]. split; [exact Hm|]. split; [exact Hl'|]. split; [exact Hb|].
      split.
      * right. replace (mtch - S * bm_bump rtl) with scn by lia. split; [exact Hs'|]. unfold bmp_p. lia.
      * intros k Hk. rewrite (Hg k Hk). rewrite Hd. reflexivity.
Qed.

(* the compare-with-the-tail loop stops at the ONLY index for which the shift S is viable *)
Lemma bmp_viable_unique : forall rtl S i0 i, 1 <= S -> 0 <= i0 < M ->
  (forall k, bmp_beyond rtl i0 k -> bmp_p (k - S * bm_bump rtl) = bmp_p k) ->
  (i0 - S * bm_bump rtl = bm_bf rtl M \/
   (0 <= i0 - S * bm_bump rtl < M /\ bmp_p (i0 - S * bm_bump rtl) <> bmp_p i0)) ->
  0 <= i < M -> bmp_viable rtl i S -> i = i0.
Proof.
  intros rtl S i0 i HS Hi0 Hb Hstop Hi (Hv1 & Hv2 & Hv3).
  destruct (Z.eq_dec i i0) as [|Hne]; [assumption|exfalso].
  assert (Hc : bmp_beyond rtl i i0 \/ bmp_beyond rtl i0 i) by (bmp_dir; destruct rtl; lia).
  destruct Hc as [Hc|Hc].
  - specialize (Hv3 i0 Hc). destruct Hstop as [Hst|[_ Hst]]; [|contradiction].
    bmp_dir. destruct rtl; lia.
  - specialize (Hb i Hc). contradiction.
Qed.

Definition bmp_pos_inv (rtl : bool) (Sv : Z) (pos : list Z) : Prop :=
  zlen pos = M /\ bm_gz pos (bm_last rtl M) = bm_bump rtl /\
  (forall i, 0 <= i < M ->
     bm_gz pos i = 0 \/
     (1 <= bm_gz pos i * bm_bump rtl <= (i - bm_bf rtl M) * bm_bump rtl /\ bm_gz pos i * bm_bump rtl <= Sv)) /\
  (forall i s, 0 <= i < M -> 1 <= s < Sv -> bmp_viable rtl i s ->
     bm_gz pos i <> 0 /\ bm_gz pos i * bm_bump rtl <= s).

Lemma bmp_pos_outer_spec : forall rtl fuel Sv examine pos,
  1 <= M -> examine = bm_last rtl M - Sv * bm_bump rtl -> 1 <= Sv <= M ->
  bmp_pos_inv rtl Sv pos -> (Z.to_nat (M - Sv) < fuel)%nat ->
  exists pos',
    bm_pos_outer pat (bm_last rtl M) (bm_bf rtl M) (bm_bump rtl) (bmp_p (bm_last rtl M)) fuel examine pos = Ok pos' /\
    bmp_pos_inv rtl M pos'.
Proof.
  intros rtl fuel. induction fuel as [|f IH]; intros Sv examine pos HM He HSv Hinv Hf; [lia|].
  cbn [bm_pos_outer].
  destruct (examine =? bm_bf rtl M) eqn:Ebf.
  - assert (Sv = M) by (bmp_dir; destruct rtl; lia). subst Sv. exists pos. split; [reflexivity | exact Hinv].
  - assert (Hex : 0 <= examine < M) by (bmp_dir; destruct rtl; lia).
    assert (HSv' : Sv < M) by (bmp_dir; destruct rtl; lia).
    rewrite (bmp_at_in pat examine) by lia. cbn [bind]. fold (bmp_p examine).
    destruct Hinv as (Hl & Hlast & Hb & Hc).
    destruct (bmp_p examine =? bmp_p (bm_last rtl M)) eqn:Ech.
    + destruct (bmp_pos_match_spec rtl (S (length pat)) (bm_last rtl M) examine pos Sv) as (i0 & pos' & Hr & Hi0 & Hl' & Hb0 & Hstop & Hg).
      * lia.
      * lia.
      * bmp_dir. destruct rtl; lia.
      * right. exact Hex.
      * exact Hl.
      * intros k Hk. bmp_dir. destruct rtl; lia.
      * unfold zlen in *. bmp_dir. destruct rtl; lia.
      * rewrite Hr. cbn [bind]. apply (IH (Sv + 1)); [exact HM | lia | lia | | lia].
        assert (Hbb : bm_bump rtl * bm_bump rtl = 1) by (bmp_dir; destruct rtl; lia).
        split; [exact Hl'|]. split.
        { rewrite Hg by (bmp_dir; destruct rtl; lia).
          destruct ((bm_last rtl M =? i0) && (bm_gz pos i0 =? 0)) eqn:E; [|exact Hlast].
          assert (bm_last rtl M = i0) by lia. subst i0. bmp_dir. destruct rtl; lia. }
        split.
        { intros i Hi. rewrite (Hg i Hi). destruct ((i =? i0) && (bm_gz pos i0 =? 0)) eqn:E.
          - right. assert (i = i0) by lia. subst i0.
            replace (Sv * bm_bump rtl * bm_bump rtl) with Sv by nia.
            bmp_dir. destruct rtl; lia.
          - destruct (Hb i Hi) as [Hz|[H1 H2]]; [left; exact Hz | right; split; [exact H1 | lia]]. }
        { intros i s Hi Hs Hv. rewrite (Hg i Hi).
          assert (Hcase : s < Sv \/ s = Sv) by lia. destruct Hcase as [Hlt| ->].
          - destruct (Hc i s Hi ltac:(lia) Hv) as [Hnz Hle].
            destruct ((i =? i0) && (bm_gz pos i0 =? 0)) eqn:E; [|split; assumption].
            assert (i = i0) by lia. subst i0. lia.
          - assert (i = i0) by (exact (bmp_viable_unique rtl Sv i0 i ltac:(lia) Hi0 Hb0 Hstop Hi Hv)). subst i0.
            rewrite Z.eqb_refl, andb_true_l. destruct (bm_gz pos i =? 0) eqn:Ez.
            + replace (Sv * bm_bump rtl * bm_bump rtl) with Sv by nia. split; [|lia].
              bmp_dir. destruct rtl; lia.
            + destruct (Hb i Hi) as [Hz|[H1 H2]]; [lia|]. split; lia. }
    + apply (IH (Sv + 1)); [exact HM | lia | lia | | lia].
      split; [exact Hl|]. split; [exact Hlast|]. split.
      * intros i Hi. destruct (Hb i Hi) as [Hz|[H1 H2]]; [left; exact Hz | right; split; [exact H1 | lia]].
      * intros i s Hi Hs Hv. assert (Hcase : s < Sv \/ s = Sv) by lia. destruct Hcase as [Hlt| ->].
        { exact (Hc i s Hi ltac:(lia) Hv). }
        destruct (Z.eq_dec i (bm_last rtl M)) as [->|Hne].
        { rewrite Hlast. bmp_dir. destruct rtl; lia. }
        exfalso. destruct Hv as (_ & _ & Hv3).
        assert (Hbl : bmp_beyond rtl i (bm_last rtl M)) by (bmp_dir; destruct rtl; lia).
        specialize (Hv3 _ Hbl). rewrite <- He in Hv3. lia.
Qed.

Lemma bmp_pos_fix_spec : forall rtl fuel j mtch pos,
  mtch = bm_last rtl M - j * bm_bump rtl -> 1 <= j <= M -> zlen pos = M -> (Z.to_nat (M - j) < fuel)%nat ->
  exists pos',
    bm_pos_fix (bm_bf rtl M) (bm_bump rtl) fuel mtch pos = Ok pos' /\ zlen pos' = M /\
    forall i, 0 <= i < M ->
      bm_gz pos' i = if (j <=? (bm_last rtl M - i) * bm_bump rtl) && (bm_gz pos i =? 0) then bm_bump rtl else bm_gz pos i.
Proof.
  intros rtl fuel. induction fuel as [|f IH]; intros j mtch pos Hm Hj Hl Hf; [lia|].
  cbn [bm_pos_fix].
  destruct (mtch =? bm_bf rtl M) eqn:Ebf.
  - exists pos. split; [reflexivity|]. split; [exact Hl|]. intros i Hi.
    replace (j <=? (bm_last rtl M - i) * bm_bump rtl) with false by (bmp_dir; destruct rtl; lia). reflexivity.
  - assert (Hmr : 0 <= mtch < M) by (bmp_dir; destruct rtl; lia).
    assert (Hstep : exists pos1, (do v <- bm_at pos mtch ; do pos' <- (if v =? 0 then bm_set pos mtch (bm_bump rtl) else Ok pos) ;
                                  bm_pos_fix (bm_bf rtl M) (bm_bump rtl) f (mtch - bm_bump rtl) pos')
                                 = bm_pos_fix (bm_bf rtl M) (bm_bump rtl) f (mtch - bm_bump rtl) pos1 /\ zlen pos1 = M /\
                   forall k, 0 <= k < M -> bm_gz pos1 k = if (k =? mtch) && (bm_gz pos mtch =? 0) then bm_bump rtl else bm_gz pos k).
    { destruct (bmp_pos_stop pos mtch (bm_bump rtl) Hl Hmr) as (pos1 & Hr & Hl1 & Hg1).
      exists pos1. split; [|split; assumption].
      rewrite bmp_at_in in Hr |- * by lia. cbn [bind] in Hr |- *.
      destruct (bm_gz pos mtch =? 0); rewrite Hr; reflexivity. }
    destruct Hstep as (pos1 & -> & Hl1 & Hg1).
    destruct (IH (j + 1) (mtch - bm_bump rtl) pos1) as (pos' & Hr & Hl' & Hg);
      [lia | bmp_dir; destruct rtl; lia | exact Hl1 | bmp_dir; destruct rtl; lia |].
    exists pos'. split; [exact Hr|]. split; [exact Hl'|]. intros i Hi. rewrite (Hg i Hi), (Hg1 i Hi).
    destruct (i =? mtch) eqn:Ei.
    + assert (i = mtch) by lia. subst i. rewrite andb_true_l.
      replace (j <=? (bm_last rtl M - mtch) * bm_bump rtl) with true by (bmp_dir; destruct rtl; lia).
      replace (j + 1 <=? (bm_last rtl M - mtch) * bm_bump rtl) with false by (bmp_dir; destruct rtl; lia).
      rewrite andb_true_l, andb_false_l. reflexivity.
    + rewrite andb_false_l.
      replace (j + 1 <=? (bm_last rtl M - i) * bm_bump rtl) with (j <=? (bm_last rtl M - i) * bm_bump rtl)
        by (bmp_dir; destruct rtl; lia).
      reflexivity.
Qed.

Theorem bmp_positive_table_ok : forall rtl, 1 <= M ->
  exists pos, bm_positive_table pat rtl = Ok pos /\ bmp_pos_ok rtl pos.
Proof.
  intros rtl HM. unfold bm_positive_table.
  assert (Hlast : 0 <= bm_last rtl M < M) by (bmp_dir; destruct rtl; lia).
  rewrite (bmp_at_in pat _ Hlast). cbn [bind]. fold (bmp_p (bm_last rtl M)).
  assert (Hl0 : zlen (repeat 0 (length pat)) = M) by (rewrite bmp_repeat_zlen; reflexivity).
  destruct (bmp_set_in (repeat 0 (length pat)) (bm_last rtl M) (bm_bump rtl) ltac:(lia)) as [pos1 Hs1].
  rewrite Hs1. cbn [bind]. destruct (bmp_set_Ok _ _ _ _ Hs1) as (_ & Hl1 & Hg1).
  destruct (bmp_pos_outer_spec rtl (S (length pat)) 1 (bm_last rtl M - bm_bump rtl) pos1) as (pos2 & Hr2 & Hinv).
  - exact HM.
  - lia.
  - lia.
  - split; [lia|]. split; [rewrite Hg1 by lia; rewrite Z.eqb_refl; reflexivity|]. split.
    + intros i Hi. rewrite Hg1 by lia. destruct (i =? bm_last rtl M) eqn:E.
      * right. assert (i = bm_last rtl M) by lia. subst i. bmp_dir. destruct rtl; lia.
      * left. apply bmp_repeat_gz. unfold zlen in Hi. lia.
    + intros i s Hi Hs. lia.
  - unfold zlen in *. lia.
  - rewrite Hr2. cbn [bind]. destruct Hinv as (Hl2 & Hlast2 & Hb & Hc).
    destruct (bmp_pos_fix_spec rtl (S (length pat)) 1 (bm_last rtl M - bm_bump rtl) pos2) as (pos & Hr & Hl & Hg);
      [lia | lia | exact Hl2 | unfold zlen in *; lia |].
    exists pos. split; [exact Hr|]. split; [exact Hl|]. intros i Hi. rewrite (Hg i Hi).
    destruct ((1 <=? (bm_last rtl M - i) * bm_bump rtl) && (bm_gz pos2 i =? 0)) eqn:E.
    + split; [bmp_dir; destruct rtl; lia|]. intros s Hs. bmp_dir. destruct rtl; lia.
    + destruct (Hb i Hi) as [Hz|[H1 H2]].
      * assert (i = bm_last rtl M) by (bmp_dir; destruct rtl; lia). subst i. rewrite Hlast2 in Hz.
        bmp_dir. destruct rtl; lia.
      * split; [exact H1|]. intros s Hs Hv.
        assert (HsM : s < M) by (bmp_dir; destruct rtl; lia).
        destruct (Hc i s Hi ltac:(lia) Hv) as [_ Hle]. lia.
Qed.

End PosProofs.
