(* C03: the Boyer-Moore prefix machine (Model/BM.v = syntax/prefix.go newBmPrefix / Scan / IsMatch) never
   skips an occurrence.

   1. table invariants proved of newBmPrefix's construction:
        [bmp_pos_ok]  positive[i] is a legal shift: 1 <= |positive[i]| <= distance of i to the far end of the
                      pattern, with the sign of the scan direction, and NO shift s smaller than it is viable
                      (viable = the pattern moved by s agrees with its own matched tail and differs at i);
        [bmp_neg_ok]  the bad-character advance looked up for a rune c is the distance from the tail of the
                      pattern to the occurrence of c nearest to the tail (the whole length when c does not
                      occur), for EVERY non-negative rune, through the ASCII array or the unicode rows;
      both directions, the case-insensitive constructor included (it works on the lower-cased pattern).
   2. Scan: a returned position is an occurrence inside the window, none lies before it in scan
      direction; -1 means there is none ([bmp_scan_sound]); no fault and no fuel exhaustion on texts of
      non-negative runes ([bmp_scan_total]).  IsMatch = "an occurrence at this position".
   3. the facts findFirstCharDefault needs ([fd_bm_scan_fact], the IsMatch hypothesis of fd_default_H1). *)
From Coq Require Import ZifyBool.
From Verif Require Import Base.Prelude Model.Scan Model.Finder Model.BM Proofs.ScanProofs Proofs.FinderProofs.

(* ====================================================================================
   slices
   ==================================================================================== *)
Definition bm_gz (l : list Z) (i : Z) : Z := nth (Z.to_nat i) l 0.

Lemma bmp_zlen_nonneg : forall {A} (l : list A), 0 <= zlen l.
Proof. intros. unfold zlen. lia. Qed.

Lemma bmp_at_Ok : forall l i x, bm_at l i = Ok x -> 0 <= i < zlen l /\ bm_gz l i = x.
Proof.
  intros l i x H. unfold bm_at, znth in H. destruct (i <? 0) eqn:E; [discriminate|].
  destruct (nth_error l (Z.to_nat i)) as [y|] eqn:En; [|discriminate]. inversion H; subst y.
  split.
  - assert (Hlt : (Z.to_nat i < length l)%nat) by (apply nth_error_Some; rewrite En; discriminate).
    unfold zlen. lia.
  - unfold bm_gz. exact (nth_error_nth l _ 0 En).
Qed.

Lemma bmp_at_in : forall l i, 0 <= i < zlen l -> bm_at l i = Ok (bm_gz l i).
Proof.
  intros l i H. unfold bm_at, znth. destruct (i <? 0) eqn:E; [lia|].
  assert (Hlt : (Z.to_nat i < length l)%nat) by (unfold zlen in H; lia).
  unfold bm_gz. rewrite (nth_error_nth' l 0 Hlt). reflexivity.
Qed.

Lemma bmp_at_not_fuel : forall l i, bm_at l i <> Fuel.
Proof. intros l i. unfold bm_at. destruct (znth l i); discriminate. Qed.

Lemma bmp_set_nat_length : forall l k v, length (bm_set_nat l k v) = length l.
Proof. induction l as [|x l IH]; intros [|k] v; cbn; auto. Qed.

Lemma bmp_set_nat_nth : forall l k v j, (k < length l)%nat ->
  nth j (bm_set_nat l k v) 0 = if Nat.eqb j k then v else nth j l 0.
Proof.
  induction l as [|x l IH]; intros k v j Hk; [cbn in Hk; lia|].
  destruct k as [|k]; destruct j as [|j]; cbn; try reflexivity.
  apply IH. cbn in Hk. lia.
Qed.

Lemma bmp_set_Ok : forall l i v l', bm_set l i v = Ok l' ->
  0 <= i < zlen l /\ zlen l' = zlen l /\
  forall k, 0 <= k -> bm_gz l' k = if k =? i then v else bm_gz l k.
Proof.
  intros l i v l' H. unfold bm_set in H. destruct ((0 <=? i) && (i <? zlen l)) eqn:E; [|discriminate].
  inversion H; subst l'. split; [lia|]. split.
  - unfold zlen. rewrite bmp_set_nat_length. reflexivity.
  - intros k Hk. unfold bm_gz. rewrite bmp_set_nat_nth by (unfold zlen in E; lia).
    destruct (Nat.eqb (Z.to_nat k) (Z.to_nat i)) eqn:E1; destruct (k =? i) eqn:E2; try reflexivity.
    + apply Nat.eqb_eq in E1. lia.
    + apply Nat.eqb_neq in E1. assert (k = i) by lia. subst. lia.
Qed.

Lemma bmp_set_in : forall l i v, 0 <= i < zlen l -> exists l', bm_set l i v = Ok l'.
Proof. intros l i v H. unfold bm_set. replace ((0 <=? i) && (i <? zlen l)) with true by lia. eauto. Qed.

Lemma bmp_repeat_zlen : forall (x : Z) k, zlen (repeat x k) = Z.of_nat k.
Proof. intros. unfold zlen. rewrite repeat_length. reflexivity. Qed.

Lemma bmp_repeat_nth : forall (x : Z) k j, (j < k)%nat -> nth j (repeat x k) 0 = x.
Proof. induction k as [|k IH]; intros j H; [lia|]. destruct j; cbn; [reflexivity|]. apply IH. lia. Qed.

Lemma bmp_repeat_gz : forall (x : Z) k i, 0 <= i < Z.of_nat k -> bm_gz (repeat x k) i = x.
Proof. intros x k i H. unfold bm_gz. apply bmp_repeat_nth. lia. Qed.

(* ====================================================================================
   PART I: positive
   ==================================================================================== *)
Section PosProofs.
Variable pat : list Z.
Local Notation M := (zlen pat).

Definition bmp_p (i : Z) : Z := bm_gz pat i.
(* k lies strictly between i and the tail end of the pattern (the end compared first), tail included *)
Definition bmp_beyond (rtl : bool) (i k : Z) : Prop := if rtl then 0 <= k < i else i < k < M.
(* moving the pattern by s (in scan direction) is compatible with "the tail beyond i matched the text and
   the text differs from the pattern at i" *)
Definition bmp_viable (rtl : bool) (i s : Z) : Prop :=
  0 <= i - s * bm_bump rtl < M /\ bmp_p (i - s * bm_bump rtl) <> bmp_p i /\
  forall k, bmp_beyond rtl i k -> bmp_p (k - s * bm_bump rtl) = bmp_p k.

Definition bmp_pos_ok (rtl : bool) (pos : list Z) : Prop :=
  zlen pos = M /\
  forall i, 0 <= i < M ->
    1 <= bm_gz pos i * bm_bump rtl <= (i - bm_bf rtl M) * bm_bump rtl /\
    forall s, 1 <= s < bm_gz pos i * bm_bump rtl -> ~ bmp_viable rtl i s.

Ltac bmp_dir := unfold bm_last, bm_bf, bm_bump, bmp_beyond in *.

Lemma bmp_pos_stop : forall pos mtch val, zlen pos = M -> 0 <= mtch < M ->
  exists pos',
    (do v <- bm_at pos mtch ; if v =? 0 then bm_set pos mtch val else Ok pos) = Ok pos' /\ zlen pos' = M /\
    forall k, 0 <= k < M -> bm_gz pos' k = if (k =? mtch) && (bm_gz pos mtch =? 0) then val else bm_gz pos k.
Proof.
  intros pos mtch val Hl Hm. rewrite bmp_at_in by lia. cbn [bind].
  destruct (bm_gz pos mtch =? 0) eqn:E.
  - destruct (bmp_set_in pos mtch val ltac:(lia)) as [pos' Hs]. exists pos'. split; [exact Hs|].
    destruct (bmp_set_Ok _ _ _ _ Hs) as (_ & Hl' & Hg). split; [lia|].
    intros k Hk. rewrite Hg by lia. rewrite andb_true_r. reflexivity.
  - exists pos. split; [reflexivity|]. split; [exact Hl|]. intros k Hk. rewrite andb_false_r. reflexivity.
Qed.

Lemma bmp_pos_match_spec : forall rtl fuel mtch scn pos S,
  1 <= S -> mtch - scn = S * bm_bump rtl -> 0 <= mtch < M ->
  (scn = bm_bf rtl M \/ 0 <= scn < M) -> zlen pos = M ->
  (forall k, bmp_beyond rtl mtch k -> bmp_p (k - S * bm_bump rtl) = bmp_p k) ->
  (Z.to_nat ((scn - bm_bf rtl M) * bm_bump rtl) < fuel)%nat ->
  exists i0 pos',
    bm_pos_match pat (bm_bf rtl M) (bm_bump rtl) fuel mtch scn pos = Ok pos' /\
    0 <= i0 < M /\ zlen pos' = M /\
    (forall k, bmp_beyond rtl i0 k -> bmp_p (k - S * bm_bump rtl) = bmp_p k) /\
    (i0 - S * bm_bump rtl = bm_bf rtl M \/
     (0 <= i0 - S * bm_bump rtl < M /\ bmp_p (i0 - S * bm_bump rtl) <> bmp_p i0)) /\
    (forall k, 0 <= k < M ->
       bm_gz pos' k = if (k =? i0) && (bm_gz pos i0 =? 0) then S * bm_bump rtl else bm_gz pos k).
Proof.
  intros rtl fuel. induction fuel as [|f IH]; intros mtch scn pos S HS Hd Hm Hs Hl Hb Hf; [lia|].
  cbn [bm_pos_match].
  destruct (scn =? bm_bf rtl M) eqn:Ebf.
  - cbn [bind].
    destruct (bmp_pos_stop pos mtch (mtch - scn) Hl Hm) as (pos' & Hr & Hl' & Hg).
    exists mtch, pos'. split; [exact Hr|]. split; [exact Hm|]. split; [exact Hl'|]. split; [exact Hb|].
    split; [left; lia|]. intros k Hk. rewrite (Hg k Hk). rewrite Hd. reflexivity.
  - assert (Hs' : 0 <= scn < M) by (destruct Hs; lia).
    rewrite (bmp_at_in pat mtch) by lia. cbn [bind]. rewrite (bmp_at_in pat scn) by lia. cbn [bind].
    destruct (bm_gz pat mtch =? bm_gz pat scn) eqn:Eab; cbn [negb].
    + (* the match goes on *)
      apply (IH (mtch - bm_bump rtl) (scn - bm_bump rtl) pos S HS).
      * lia.
      * bmp_dir. destruct rtl; lia.
      * bmp_dir. destruct rtl; lia.
      * exact Hl.
      * intros k Hk. assert (Hc : k = mtch \/ bmp_beyond rtl mtch k) by (bmp_dir; destruct rtl; lia).
        destruct Hc as [->|Hc]; [|exact (Hb k Hc)].
        replace (mtch - S * bm_bump rtl) with scn by lia. unfold bmp_p. lia.
      * bmp_dir. destruct rtl; lia.
    + destruct (bmp_pos_stop pos mtch (mtch - scn) Hl Hm) as (pos' & Hr & Hl' & Hg).
      exists mtch, pos'. split; [exact Hr|]. split; [exact Hm|]. split; [exact Hl'|]. split; [exact Hb|].
      split.
      * right. replace (mtch - S * bm_bump rtl) with scn by lia. split; [exact Hs'|]. unfold bmp_p. lia.
      * intros k Hk. rewrite (Hg k Hk). rewrite Hd. reflexivity.
Qed.

(* the compare-with-the-tail loop stops at the ONLY index for which the shift S is viable *)
Lemma bmp_viable_unique : forall rtl S i0 i, 1 <= S -> 0 <= i0 < M ->
  (forall k, bmp_beyond rtl i0 k -> bmp_p (k - S * bm_bump rtl) = bmp_p k) ->
  (i0 - S * bm_bump rtl = bm_bf rtl M \/
   (0 <= i0 - S * bm_bump rtl < M /\ bmp_p (i0 - S * bm_bump rtl) <> bmp_p i0)) ->
  0 <= i < M -> bmp_viable rtl i S -> i = i0.
Proof.
  intros rtl S i0 i HS Hi0 Hb Hstop Hi (Hv1 & Hv2 & Hv3).
  destruct (Z.eq_dec i i0) as [|Hne]; [assumption|exfalso].
  assert (Hc : bmp_beyond rtl i i0 \/ bmp_beyond rtl i0 i) by (bmp_dir; destruct rtl; lia).
  destruct Hc as [Hc|Hc].
  - specialize (Hv3 i0 Hc). destruct Hstop as [Hst|[_ Hst]]; [|contradiction].
    bmp_dir. destruct rtl; lia.
  - specialize (Hb i Hc). contradiction.
Qed.

Definition bmp_pos_inv (rtl : bool) (Sv : Z) (pos : list Z) : Prop :=
  zlen pos = M /\ bm_gz pos (bm_last rtl M) = bm_bump rtl /\
  (forall i, 0 <= i < M ->
     bm_gz pos i = 0 \/
     (1 <= bm_gz pos i * bm_bump rtl <= (i - bm_bf rtl M) * bm_bump rtl /\ bm_gz pos i * bm_bump rtl <= Sv)) /\
  (forall i s, 0 <= i < M -> 1 <= s < Sv -> bmp_viable rtl i s ->
     bm_gz pos i <> 0 /\ bm_gz pos i * bm_bump rtl <= s).

Lemma bmp_pos_outer_spec : forall rtl fuel Sv examine pos,
  1 <= M -> examine = bm_last rtl M - Sv * bm_bump rtl -> 1 <= Sv <= M ->
  bmp_pos_inv rtl Sv pos -> (Z.to_nat (M - Sv) < fuel)%nat ->
  exists pos',
    bm_pos_outer pat (bm_last rtl M) (bm_bf rtl M) (bm_bump rtl) (bmp_p (bm_last rtl M)) fuel examine pos = Ok pos' /\
    bmp_pos_inv rtl M pos'.
Proof.
  intros rtl fuel. induction fuel as [|f IH]; intros Sv examine pos HM He HSv Hinv Hf; [lia|].
  cbn [bm_pos_outer].
  destruct (examine =? bm_bf rtl M) eqn:Ebf.
  - assert (Sv = M) by (bmp_dir; destruct rtl; lia). subst Sv. exists pos. split; [reflexivity | exact Hinv].
  - assert (Hex : 0 <= examine < M) by (bmp_dir; destruct rtl; lia).
    assert (HSv' : Sv < M) by (bmp_dir; destruct rtl; lia).
    rewrite (bmp_at_in pat examine) by lia. cbn [bind]. fold (bmp_p examine).
    destruct Hinv as (Hl & Hlast & Hb & Hc).
    destruct (bmp_p examine =? bmp_p (bm_last rtl M)) eqn:Ech.
    + destruct (bmp_pos_match_spec rtl (S (length pat)) (bm_last rtl M) examine pos Sv) as (i0 & pos' & Hr & Hi0 & Hl' & Hb0 & Hstop & Hg).
      * lia.
      * lia.
      * bmp_dir. destruct rtl; lia.
      * right. exact Hex.
      * exact Hl.
      * intros k Hk. bmp_dir. destruct rtl; lia.
      * unfold zlen in *. bmp_dir. destruct rtl; lia.
      * rewrite Hr. cbn [bind]. apply (IH (Sv + 1)); [exact HM | lia | lia | | lia].
        assert (Hbb : bm_bump rtl * bm_bump rtl = 1) by (bmp_dir; destruct rtl; lia).
        split; [exact Hl'|]. split.
        { rewrite Hg by (bmp_dir; destruct rtl; lia).
          destruct ((bm_last rtl M =? i0) && (bm_gz pos i0 =? 0)) eqn:E; [|exact Hlast].
          assert (bm_last rtl M = i0) by lia. subst i0. bmp_dir. destruct rtl; lia. }
        split.
        { intros i Hi. rewrite (Hg i Hi). destruct ((i =? i0) && (bm_gz pos i0 =? 0)) eqn:E.
          - right. assert (i = i0) by lia. subst i0.
            replace (Sv * bm_bump rtl * bm_bump rtl) with Sv by nia.
            bmp_dir. destruct rtl; lia.
          - destruct (Hb i Hi) as [Hz|[H1 H2]]; [left; exact Hz | right; split; [exact H1 | lia]]. }
        { intros i s Hi Hs Hv. rewrite (Hg i Hi).
          assert (Hcase : s < Sv \/ s = Sv) by lia. destruct Hcase as [Hlt| ->].
          - destruct (Hc i s Hi ltac:(lia) Hv) as [Hnz Hle].
            destruct ((i =? i0) && (bm_gz pos i0 =? 0)) eqn:E; [|split; assumption].
            assert (i = i0) by lia. subst i0. lia.
          - assert (i = i0) by (exact (bmp_viable_unique rtl Sv i0 i ltac:(lia) Hi0 Hb0 Hstop Hi Hv)). subst i0.
            rewrite Z.eqb_refl, andb_true_l. destruct (bm_gz pos i =? 0) eqn:Ez.
            + replace (Sv * bm_bump rtl * bm_bump rtl) with Sv by nia. split; [|lia].
              bmp_dir. destruct rtl; lia.
            + destruct (Hb i Hi) as [Hz|[H1 H2]]; [lia|]. split; lia. }
    + apply (IH (Sv + 1)); [exact HM | lia | lia | | lia].
      split; [exact Hl|]. split; [exact Hlast|]. split.
      * intros i Hi. destruct (Hb i Hi) as [Hz|[H1 H2]]; [left; exact Hz | right; split; [exact H1 | lia]].
      * intros i s Hi Hs Hv. assert (Hcase : s < Sv \/ s = Sv) by lia. destruct Hcase as [Hlt| ->].
        { exact (Hc i s Hi ltac:(lia) Hv). }
        destruct (Z.eq_dec i (bm_last rtl M)) as [->|Hne].
        { rewrite Hlast. bmp_dir. destruct rtl; lia. }
        exfalso. destruct Hv as (_ & _ & Hv3).
        assert (Hbl : bmp_beyond rtl i (bm_last rtl M)) by (bmp_dir; destruct rtl; lia).
        specialize (Hv3 _ Hbl). rewrite <- He in Hv3. lia.
Qed.

Lemma bmp_pos_fix_spec : forall rtl fuel j mtch pos,
  mtch = bm_last rtl M - j * bm_bump rtl -> 1 <= j <= M -> zlen pos = M -> (Z.to_nat (M - j) < fuel)%nat ->
  exists pos',
    bm_pos_fix (bm_bf rtl M) (bm_bump rtl) fuel mtch pos = Ok pos' /\ zlen pos' = M /\
    forall i, 0 <= i < M ->
      bm_gz pos' i = if (j <=? (bm_last rtl M - i) * bm_bump rtl) && (bm_gz pos i =? 0) then bm_bump rtl else bm_gz pos i.
Proof.
  intros rtl fuel. induction fuel as [|f IH]; intros j mtch pos Hm Hj Hl Hf; [lia|].
  cbn [bm_pos_fix].
  destruct (mtch =? bm_bf rtl M) eqn:Ebf.
  - exists pos. split; [reflexivity|]. split; [exact Hl|]. intros i Hi.
    replace (j <=? (bm_last rtl M - i) * bm_bump rtl) with false by (bmp_dir; destruct rtl; lia). reflexivity.
  - assert (Hmr : 0 <= mtch < M) by (bmp_dir; destruct rtl; lia).
    assert (Hstep : exists pos1, (do v <- bm_at pos mtch ; do pos' <- (if v =? 0 then bm_set pos mtch (bm_bump rtl) else Ok pos) ;
                                  bm_pos_fix (bm_bf rtl M) (bm_bump rtl) f (mtch - bm_bump rtl) pos')
                                 = bm_pos_fix (bm_bf rtl M) (bm_bump rtl) f (mtch - bm_bump rtl) pos1 /\ zlen pos1 = M /\
                   forall k, 0 <= k < M -> bm_gz pos1 k = if (k =? mtch) && (bm_gz pos mtch =? 0) then bm_bump rtl else bm_gz pos k).
    { destruct (bmp_pos_stop pos mtch (bm_bump rtl) Hl Hmr) as (pos1 & Hr & Hl1 & Hg1).
      exists pos1. split; [|split; assumption].
      rewrite bmp_at_in in Hr |- * by lia. cbn [bind] in Hr |- *.
      destruct (bm_gz pos mtch =? 0); rewrite Hr; reflexivity. }
    destruct Hstep as (pos1 & -> & Hl1 & Hg1).
    destruct (IH (j + 1) (mtch - bm_bump rtl) pos1) as (pos' & Hr & Hl' & Hg);
      [lia | bmp_dir; destruct rtl; lia | exact Hl1 | bmp_dir; destruct rtl; lia |].
    exists pos'. split; [exact Hr|]. split; [exact Hl'|]. intros i Hi. rewrite (Hg i Hi), (Hg1 i Hi).
    destruct (i =? mtch) eqn:Ei.
    + assert (i = mtch) by lia. subst i. rewrite andb_true_l.
      replace (j <=? (bm_last rtl M - mtch) * bm_bump rtl) with true by (bmp_dir; destruct rtl; lia).
      replace (j + 1 <=? (bm_last rtl M - mtch) * bm_bump rtl) with false by (bmp_dir; destruct rtl; lia).
      rewrite andb_true_l, andb_false_l. reflexivity.
    + rewrite andb_false_l.
      replace (j + 1 <=? (bm_last rtl M - i) * bm_bump rtl) with (j <=? (bm_last rtl M - i) * bm_bump rtl)
        by (bmp_dir; destruct rtl; lia).
      reflexivity.
Qed.

Theorem bmp_positive_table_ok : forall rtl, 1 <= M ->
  exists pos, bm_positive_table pat rtl = Ok pos /\ bmp_pos_ok rtl pos.
Proof.
  intros rtl HM. unfold bm_positive_table.
  assert (Hlast : 0 <= bm_last rtl M < M) by (bmp_dir; destruct rtl; lia).
  rewrite (bmp_at_in pat _ Hlast). cbn [bind]. fold (bmp_p (bm_last rtl M)).
  assert (Hl0 : zlen (repeat 0 (length pat)) = M) by (rewrite bmp_repeat_zlen; reflexivity).
  destruct (bmp_set_in (repeat 0 (length pat)) (bm_last rtl M) (bm_bump rtl) ltac:(lia)) as [pos1 Hs1].
  rewrite Hs1. cbn [bind]. destruct (bmp_set_Ok _ _ _ _ Hs1) as (_ & Hl1 & Hg1).
  destruct (bmp_pos_outer_spec rtl (S (length pat)) 1 (bm_last rtl M - bm_bump rtl) pos1) as (pos2 & Hr2 & Hinv).
  - exact HM.
  - lia.
  - lia.
  - split; [lia|]. split; [rewrite Hg1 by lia; rewrite Z.eqb_refl; reflexivity|]. split.
    + intros i Hi. rewrite Hg1 by lia. destruct (i =? bm_last rtl M) eqn:E.
      * right. assert (i = bm_last rtl M) by lia. subst i. bmp_dir. destruct rtl; lia.
      * left. apply bmp_repeat_gz. unfold zlen in Hi. lia.
    + intros i s Hi Hs. lia.
  - unfold zlen in *. lia.
  - rewrite Hr2. cbn [bind]. destruct Hinv as (Hl2 & Hlast2 & Hb & Hc).
    destruct (bmp_pos_fix_spec rtl (S (length pat)) 1 (bm_last rtl M - bm_bump rtl) pos2) as (pos & Hr & Hl & Hg);
      [lia | lia | exact Hl2 | unfold zlen in *; lia |].
    exists pos. split; [exact Hr|]. split; [exact Hl|]. intros i Hi. rewrite (Hg i Hi).
    destruct ((1 <=? (bm_last rtl M - i) * bm_bump rtl) && (bm_gz pos2 i =? 0)) eqn:E.
    + split; [bmp_dir; destruct rtl; lia|]. intros s Hs. bmp_dir. destruct rtl; lia.
    + destruct (Hb i Hi) as [Hz|[H1 H2]].
      * assert (i = bm_last rtl M) by (bmp_dir; destruct rtl; lia). subst i. rewrite Hlast2 in Hz.
        bmp_dir. destruct rtl; lia.
      * split; [exact H1|]. intros s Hs Hv.
        assert (HsM : s < M) by (bmp_dir; destruct rtl; lia).
        destruct (Hc i s Hi ltac:(lia) Hv) as [_ Hle]. lia.
Qed.

End PosProofs.

(* ====================================================================================
   PART II: the bad-character tables
   ==================================================================================== *)
Definition bmp_row_get (o : option (list Z)) (j d : Z) : Z :=
  match o with Some (x :: row) => bm_gz (x :: row) j | _ => d end.

Lemma bmp_row_get_some : forall r j d, 0 < zlen r -> bmp_row_get (Some r) j d = bm_gz r j.
Proof. intros [|x r] j d H; [cbn in H; lia | reflexivity]. Qed.

(* what Scan reads for the reject character c (default = the full length) *)
Definition bmp_ng_view (full : Z) (st : bmneg) (c : Z) : Z :=
  if c <? 128 then bm_gz (ng_ascii st) c
  else if (c <=? 65535) && ng_has st then bmp_row_get (ng_uni st (Z.shiftr c 8)) (Z.land c 255) full
  else full.

Definition bmp_ng_wf (st : bmneg) : Prop :=
  128 <= zlen (ng_ascii st) /\
  (forall i r, ng_uni st i = Some r -> zlen r = 256 /\ ng_has st = true) /\
  (forall r, ng_uni st 0 = Some r -> ng_ascii st = r) /\
  (ng_uni st 0 = None -> zlen (ng_ascii st) = 128).

Lemma bmp_shiftr8 : forall c, 0 <= c -> Z.shiftr c 8 = c / 256.
Proof. intros c H. rewrite Z.shiftr_div_pow2 by lia. reflexivity. Qed.
Lemma bmp_land255 : forall c, 0 <= c -> Z.land c 255 = c mod 256.
Proof. intros c H. change 255 with (Z.ones 8). rewrite Z.land_ones by lia. reflexivity. Qed.

Lemma bmp_nth_skipn : forall (l : list Z) n j, nth j (skipn n l) 0 = nth (n + j) l 0.
Proof. induction l as [|x l IH]; intros [|n] j; cbn; try reflexivity; [destruct j; reflexivity | apply IH]. Qed.

Lemma bmp_copy_spec : forall dst src, zlen dst = 256 -> zlen src = 128 ->
  zlen (bm_copy dst src) = 256 /\
  forall k, 0 <= k < 256 -> bm_gz (bm_copy dst src) k = if k <? 128 then bm_gz src k else bm_gz dst k.
Proof.
  intros dst src Hd Hs. unfold bm_copy, zlen in *.
  assert (Hf : firstn (length dst) src = src) by (apply firstn_all2; lia). rewrite Hf.
  split.
  - rewrite app_length, skipn_length. lia.
  - intros k Hk. unfold bm_gz. destruct (k <? 128) eqn:E.
    + rewrite app_nth1 by lia. reflexivity.
    + rewrite app_nth2 by lia. rewrite bmp_nth_skipn. f_equal. lia.
Qed.

Lemma bmp_neg_step_big : forall full last st examine ch, 65535 < ch ->
  bm_neg_step full last st examine ch = Ok None.
Proof.
  intros. unfold bm_neg_step. replace (ch <? 128) with false by lia.
  replace (ch <=? 65535) with false by lia. reflexivity.
Qed.

Lemma bmp_upd_cell : forall l ch v full, 0 <= ch < zlen l ->
  exists a', (if bm_gz l ch =? full then bm_set l ch v else Ok l) = Ok a' /\ zlen a' = zlen l /\
    forall k, 0 <= k -> bm_gz a' k = if (k =? ch) && (bm_gz l ch =? full) then v else bm_gz l k.
Proof.
  intros l ch v full Hch. destruct (bm_gz l ch =? full) eqn:E.
  - destruct (bmp_set_in l ch v Hch) as [a' Hs]. exists a'. split; [exact Hs|].
    destruct (bmp_set_Ok _ _ _ _ Hs) as (_ & Hl & Hg). split; [exact Hl|].
    intros k Hk. rewrite Hg by lia. rewrite andb_true_r. reflexivity.
  - exists l. split; [reflexivity|]. split; [reflexivity|]. intros k Hk. rewrite andb_false_r. reflexivity.
Qed.

Lemma bmp_neg_step_ascii : forall full last st examine ch, bmp_ng_wf st -> 0 <= ch < 128 ->
  exists st', bm_neg_step full last st examine ch = Ok (Some st') /\ bmp_ng_wf st' /\
    forall c, 0 <= c ->
      bmp_ng_view full st' c = if (c =? ch) && (bmp_ng_view full st ch =? full) then last - examine
                               else bmp_ng_view full st c.
Proof.
  intros full last st examine ch (W1 & W2 & W3 & W4) Hch.
  unfold bm_neg_step. replace (ch <? 128) with true by lia.
  rewrite bmp_at_in by lia. cbn [bind].
  destruct (bmp_upd_cell (ng_ascii st) ch (last - examine) full ltac:(lia)) as (a' & -> & Hl & Hg). cbn [bind].
  eexists. split; [reflexivity|]. split.
  - unfold bmp_ng_wf; cbn [ng_ascii ng_has ng_uni].
    destruct (ng_uni st 0) as [r0|] eqn:E0.
    + unfold bm_upd. split; [lia|]. split; [|split].
      * intros i r. destruct (i =? 0) eqn:Ei.
        -- intros H; inversion H; subst r. destruct (W2 0 r0 E0) as [Hz Hh]. rewrite <- (W3 r0 eq_refl) in Hz.
           split; [lia | exact Hh].
        -- apply W2.
      * intros r. rewrite Z.eqb_refl. intros H; inversion H; reflexivity.
      * rewrite Z.eqb_refl. discriminate.
    + split; [lia|]. split; [exact W2|]. split; [intros r H; rewrite E0 in H; discriminate|].
      intros _. rewrite Hl. exact (W4 eq_refl).
  - intros c Hc. unfold bmp_ng_view; cbn [ng_ascii ng_has ng_uni]. replace (ch <? 128) with true by lia.
    destruct (c <? 128) eqn:Ec.
    + apply Hg. lia.
    + replace (c =? ch) with false by lia. rewrite andb_false_l.
      destruct ((c <=? 65535) && ng_has st) eqn:E2; [|reflexivity].
      destruct (ng_uni st 0) as [r0|] eqn:E0; [|reflexivity].
      unfold bm_upd. destruct (Z.shiftr c 8 =? 0) eqn:Es; [|reflexivity].
      assert (Hs0 : Z.shiftr c 8 = 0) by lia. rewrite Hs0, E0.
      destruct (W2 0 r0 E0) as [Hz _]. pose proof (W3 r0 eq_refl) as Heq.
      rewrite !bmp_row_get_some by lia. rewrite bmp_shiftr8 in Hs0 by lia. rewrite bmp_land255 by lia.
      rewrite Hg by (apply Z.mod_pos_bound; lia).
      assert (Hm : c mod 256 = c) by (apply Z.mod_small; split; [lia|]; apply Z.div_small_iff in Hs0; lia).
      rewrite Hm. replace (c =? ch) with false by lia. rewrite andb_false_l. rewrite Heq. reflexivity.
Qed.

Lemma bmp_neg_step_uni : forall full last st examine ch, bmp_ng_wf st -> 128 <= ch <= 65535 ->
  exists st', bm_neg_step full last st examine ch = Ok (Some st') /\ bmp_ng_wf st' /\
    forall c, 0 <= c ->
      bmp_ng_view full st' c = if (c =? ch) && (bmp_ng_view full st ch =? full) then last - examine
                               else bmp_ng_view full st c.
Proof.
  intros full last st examine ch (W1 & W2 & W3 & W4) Hch.
  unfold bm_neg_step. replace (ch <? 128) with false by lia. replace (ch <=? 65535) with true by lia.
  rewrite bmp_shiftr8, bmp_land255 by lia.
  set (i := ch / 256). set (j := ch mod 256).
  assert (Hi : 0 <= i <= 255) by (unfold i; pose proof (Z.div_pos ch 256); pose proof (Z.div_lt_upper_bound ch 256 256); lia).
  assert (Hj : 0 <= j < 256) by (unfold j; apply Z.mod_pos_bound; lia).
  assert (Hij : ch = 256 * i + j) by (unfold i, j; apply Z.div_mod; lia).
  (* the row (after allocation) and what negativeASCII is then *)
  assert (Hrow : exists row ascii1,
            match ng_uni st i with
            | Some r => (r, ng_ascii st)
            | None => if i =? 0 then (bm_copy (repeat full 256) (ng_ascii st), bm_copy (repeat full 256) (ng_ascii st))
                      else (repeat full 256, ng_ascii st)
            end = (row, ascii1) /\
            zlen row = 256 /\ 128 <= zlen ascii1 /\
            (forall c, 0 <= c < 128 -> bm_gz ascii1 c = bm_gz (ng_ascii st) c) /\
            (i = 0 -> ascii1 = row) /\ (i <> 0 -> ascii1 = ng_ascii st) /\
            (forall c, 128 <= c <= 65535 -> c / 256 = i -> bm_gz row (c mod 256) = bmp_ng_view full st c)).
  { assert (Hview : forall c, 128 <= c <= 65535 -> c / 256 = i ->
                      bmp_ng_view full st c = if ng_has st then bmp_row_get (ng_uni st i) (c mod 256) full else full).
    { intros c Hc Hci. unfold bmp_ng_view. replace (c <? 128) with false by lia.
      replace (c <=? 65535) with true by lia. rewrite andb_true_l.
      rewrite bmp_shiftr8, bmp_land255 by lia. rewrite Hci. reflexivity. }
    destruct (ng_uni st i) as [r|] eqn:Er.
    - destruct (W2 i r Er) as [Hz Hh]. exists r, (ng_ascii st). split; [reflexivity|]. split; [exact Hz|].
      split; [exact W1|]. split; [reflexivity|]. split.
      + intros Hi0. subst i. rewrite Hi0 in Er. exact (W3 r Er).
      + split; [reflexivity|]. intros c Hc Hci. rewrite (Hview c Hc Hci), Hh. rewrite bmp_row_get_some by lia. reflexivity.
    - destruct (i =? 0) eqn:Ei.
      + assert (Hi0 : i = 0) by lia. rewrite Hi0 in Er.
        destruct (bmp_copy_spec (repeat full 256) (ng_ascii st)) as [Hcl Hcg];
          [rewrite bmp_repeat_zlen; reflexivity | exact (W4 Er) |].
        eexists _, _. split; [reflexivity|]. split; [exact Hcl|]. split; [lia|]. split.
        * intros c Hc. rewrite Hcg by lia. replace (c <? 128) with true by lia. reflexivity.
        * split; [reflexivity|]. split; [lia|]. intros c Hc Hci. rewrite (Hview c Hc Hci).
          assert (Hc256 : 0 <= c < 256) by (rewrite Hi0 in Hci; apply Z.div_small_iff in Hci; lia).
          assert (Hm : c mod 256 = c) by (apply Z.mod_small; lia).
          rewrite Hm, Hcg by lia. replace (c <? 128) with false by lia. rewrite bmp_repeat_gz by lia.
          destruct (ng_has st); reflexivity.
      + eexists _, _. split; [reflexivity|]. split; [rewrite bmp_repeat_zlen; reflexivity|]. split; [exact W1|].
        split; [reflexivity|]. split; [lia|]. split; [reflexivity|]. intros c Hc Hci. rewrite (Hview c Hc Hci).
        rewrite bmp_repeat_gz by (pose proof (Z.mod_pos_bound c 256); lia). destruct (ng_has st); reflexivity. }
  destruct Hrow as (row & ascii1 & -> & Hz & Ha1 & Ha2 & Ha3 & Ha4 & Hrv).
  rewrite bmp_at_in by lia. cbn [bind].
  destruct (bmp_upd_cell row j (last - examine) full ltac:(lia)) as (row' & -> & Hl' & Hg'). cbn [bind].
  eexists. split; [reflexivity|]. split.
  - unfold bmp_ng_wf; cbn [ng_ascii ng_has ng_uni]. unfold bm_upd. split; [|split; [|split]].
    + destruct (i =? 0) eqn:Ei; lia.
    + intros k r. destruct (k =? i) eqn:Ek.
      * intros H; inversion H; subst r. split; [lia | reflexivity].
      * intros H. destruct (W2 k r H) as [Hzr _]. split; [exact Hzr | reflexivity].
    + intros r. destruct (0 =? i) eqn:E0.
      * intros H; inversion H; subst r. replace (i =? 0) with true by lia. reflexivity.
      * intros H. replace (i =? 0) with false by lia. rewrite Ha4 by lia. exact (W3 r H).
    + destruct (0 =? i) eqn:E0; [discriminate|]. intros H. replace (i =? 0) with false by lia.
      rewrite Ha4 by lia. exact (W4 H).
  - intros c Hc. pose proof (Hrv ch Hch eq_refl) as Hvch. fold j in Hvch. rewrite <- Hvch.
    unfold bmp_ng_view at 1; cbn [ng_ascii ng_has ng_uni].
    destruct (c <? 128) eqn:Ec.
    + replace (c =? ch) with false by lia. rewrite andb_false_l.
      unfold bmp_ng_view. rewrite Ec. destruct (i =? 0) eqn:Ei.
      * rewrite Hg' by lia. replace (c =? j) with false by lia. rewrite andb_false_l.
        rewrite <- Ha3 by lia. apply Ha2. lia.
      * apply Ha2. lia.
    + destruct (c <=? 65535) eqn:Ec2; cbn [andb].
      2:{ replace (c =? ch) with false by lia. rewrite andb_false_l. unfold bmp_ng_view. rewrite Ec, Ec2. reflexivity. }
      rewrite bmp_shiftr8, bmp_land255 by lia. unfold bm_upd.
      destruct (c / 256 =? i) eqn:Eci.
      * assert (Hci : c / 256 = i) by lia. rewrite bmp_row_get_some by lia.
        rewrite Hg' by (pose proof (Z.mod_pos_bound c 256); lia).
        assert (Hcc : c = 256 * i + c mod 256) by (rewrite <- Hci; apply Z.div_mod; lia).
        rewrite (Hrv c ltac:(lia) Hci).
        destruct (c mod 256 =? j) eqn:Ecj.
        -- replace (c =? ch) with true by lia. reflexivity.
        -- replace (c =? ch) with false by lia. reflexivity.
      * assert (Hne : c <> ch) by (intros ->; unfold i in Eci; lia).
        replace (c =? ch) with false by lia. rewrite andb_false_l.
        unfold bmp_ng_view. rewrite Ec, Ec2. rewrite andb_true_l. rewrite bmp_shiftr8, bmp_land255 by lia.
        destruct (ng_has st) eqn:Eh; [reflexivity|].
        destruct (ng_uni st (c / 256)) as [r|] eqn:Er; [|reflexivity].
        destruct (W2 _ _ Er) as [_ Hh]. congruence.
Qed.

Lemma bmp_neg_step_spec : forall full last st examine ch, bmp_ng_wf st -> 0 <= ch <= 65535 ->
  exists st', bm_neg_step full last st examine ch = Ok (Some st') /\ bmp_ng_wf st' /\
    forall c, 0 <= c ->
      bmp_ng_view full st' c = if (c =? ch) && (bmp_ng_view full st ch =? full) then last - examine
                               else bmp_ng_view full st c.
Proof.
  intros full last st examine ch W Hch. destruct (Z_lt_ge_dec ch 128).
  - apply bmp_neg_step_ascii; [exact W | lia].
  - apply bmp_neg_step_uni; [exact W | lia].
Qed.

Ltac bmp_dir2 := unfold bm_last, bm_bf, bm_bump in *.

Section NegProofs.
Variable pat : list Z.
Local Notation M := (zlen pat).

(* the advance a recorded for the rune c after the first k pattern positions (counted from the tail):
   its size A = |a| is the distance from the tail to the occurrence of c nearest to the tail, or the whole
   length *)
Definition bmp_neg_inv (rtl : bool) (k : Z) (a c : Z) : Prop :=
  (a * bm_bump rtl = M \/ 0 <= a * bm_bump rtl < k) /\
  (a * bm_bump rtl < M -> bmp_p pat (bm_last rtl M - a) = c) /\
  (forall j, 0 <= j -> j < a * bm_bump rtl -> j < k -> bmp_p pat (bm_last rtl M - j * bm_bump rtl) <> c).

Lemma bmp_neg_loop_spec : forall rtl fuel k examine st,
  let full := bm_last rtl M - bm_bf rtl M in
  examine = bm_last rtl M - k * bm_bump rtl -> 0 <= k <= M -> bmp_ng_wf st ->
  (forall c, 0 <= c -> bmp_neg_inv rtl k (bmp_ng_view full st c) c) ->
  (forall i, 0 <= i < M -> 0 <= bmp_p pat i) ->
  (Z.to_nat (M - k) < fuel)%nat ->
  exists r, bm_neg_loop pat full (bm_last rtl M) (bm_bf rtl M) (bm_bump rtl) fuel examine st = Ok r /\
    match r with
    | None => exists i, 0 <= i < M /\ 65535 < bmp_p pat i
    | Some st' => bmp_ng_wf st' /\ forall c, 0 <= c -> bmp_neg_inv rtl M (bmp_ng_view full st' c) c
    end.
Proof.
  intros rtl fuel. induction fuel as [|f IH]; intros k examine st full He Hk W Hinv Hnn Hf; [lia|].
  cbn [bm_neg_loop].
  destruct (examine =? bm_bf rtl M) eqn:Ebf.
  - assert (k = M) by (bmp_dir2; destruct rtl; lia). subst k. exists (Some st). split; [reflexivity|]. split; assumption.
  - assert (Hex : 0 <= examine < M) by (bmp_dir2; destruct rtl; lia).
    assert (HkM : k < M) by (bmp_dir2; destruct rtl; lia).
    rewrite (bmp_at_in pat examine) by lia. cbn [bind]. fold (bmp_p pat examine).
    pose proof (Hnn examine Hex) as Hch0. set (ch := bmp_p pat examine) in *.
    destruct (Z_le_gt_dec ch 65535) as [Hle|Hgt].
    2:{ rewrite bmp_neg_step_big by lia. cbn [bind]. exists None. split; [reflexivity|]. exists examine. split; [exact Hex | fold ch; lia]. }
    destruct (bmp_neg_step_spec full (bm_last rtl M) st examine ch W ltac:(lia)) as (st' & -> & W' & Hv').
    cbn [bind]. apply (IH (k + 1)); [lia | lia | exact W' | | exact Hnn | lia].
    intros c Hc. fold full. rewrite (Hv' c Hc). destruct (Hinv c Hc) as (I1 & I2 & I3).
    assert (Hfull : full * bm_bump rtl = M) by (unfold full; bmp_dir2; destruct rtl; lia).
    destruct ((c =? ch) && (bmp_ng_view full st ch =? full)) eqn:E.
    + assert (c = ch) by lia. subst c. assert (Hvf : bmp_ng_view full st ch = full) by lia.
      rewrite Hvf in I3. replace (bm_last rtl M - examine) with (k * bm_bump rtl) by lia.
      assert (Hkk : k * bm_bump rtl * bm_bump rtl = k) by (bmp_dir2; destruct rtl; lia).
      unfold bmp_neg_inv. rewrite Hkk. split; [right; lia|]. split.
      * intros _. replace (bm_last rtl M - k * bm_bump rtl) with examine by lia. reflexivity.
      * intros j Hj1 Hj2 Hj3. apply I3; lia.
    + unfold bmp_neg_inv. split; [destruct I1; [left; assumption | right; lia]|]. split; [exact I2|].
      intros j Hj1 Hj2 Hj3. assert (Hcase : j < k \/ j = k) by lia. destruct Hcase as [Hlt| ->]; [apply I3; lia|].
      replace (bm_last rtl M - k * bm_bump rtl) with examine by lia. fold ch.
      intros Heq. subst c. rewrite Z.eqb_refl, andb_true_l in E.
      assert (Hne : bmp_ng_view full st ch <> full) by lia.
      destruct I1 as [I1|I1]; [|lia].
      apply Hne. clear - I1 Hfull. bmp_dir2. destruct rtl; lia.
Qed.

End NegProofs.

(* ====================================================================================
   newBmPrefix: both tables
   ==================================================================================== *)
Definition bmp_neg_ok (t : bmtab) : Prop :=
  forall c, 0 <= c ->
    exists r, bm_neg_lookup t c = Ok r /\
      bmp_neg_inv (bm_pattern t) (bm_rtl t) (zlen (bm_pattern t))
                  (match r with Some v => v | None => bm_defadv t end) c.

Definition bmp_tab_ok (t : bmtab) : Prop :=
  1 <= zlen (bm_pattern t) /\ bmp_pos_ok (bm_pattern t) (bm_rtl t) (bm_positive t) /\ bmp_neg_ok t.

Lemma bmp_lookup_view : forall t st full,
  bm_negascii t = ng_ascii st -> bm_has_uni t = ng_has st -> bm_uni t = ng_uni st -> bmp_ng_wf st ->
  forall c, 0 <= c ->
    exists r, bm_neg_lookup t c = Ok r /\ (match r with Some v => v | None => full end) = bmp_ng_view full st c.
Proof.
  intros t st full Ha Hh Hu (W1 & W2 & W3 & W4) c Hc.
  unfold bm_neg_lookup, bmp_ng_view. rewrite Ha, Hh, Hu.
  destruct (c <? 128) eqn:Ec.
  - rewrite bmp_at_in by lia. cbn [bind]. eexists. split; reflexivity.
  - destruct ((c <=? 65535) && ng_has st) eqn:E2; [|eexists; split; reflexivity].
    destruct (ng_uni st (Z.shiftr c 8)) as [r|] eqn:Er; [|eexists; split; reflexivity].
    destruct (W2 _ _ Er) as [Hz _]. destruct r as [|x row]; [cbn in Hz; lia|].
    rewrite bmp_land255 by lia. rewrite bmp_at_in by (pose proof (Z.mod_pos_bound c 256); lia).
    cbn [bind]. eexists. split; reflexivity.
Qed.

Section NewProofs.
Variable lower : Z -> Z.

Lemma bmp_fold_map : forall (ci : bool) (pattern : list Z),
  (if ci then map lower pattern else pattern) = map (bm_fold lower ci) pattern.
Proof. intros [|] pattern; unfold bm_fold; [reflexivity | symmetry; apply map_id]. Qed.

Theorem bmp_new_ok : forall pattern ci rtl, pattern <> [] ->
  (forall x, In x pattern -> 0 <= bm_fold lower ci x) ->
  exists r, bm_new lower pattern ci rtl = Ok r /\
    match r with
    | None => exists x, In x pattern /\ 65535 < bm_fold lower ci x
    | Some t => bm_pattern t = map (bm_fold lower ci) pattern /\ bm_rtl t = rtl /\ bm_ci t = ci /\ bmp_tab_ok t
    end.
Proof.
  intros pattern ci rtl Hne Hnn. unfold bm_new. rewrite bmp_fold_map.
  set (pat := map (bm_fold lower ci) pattern).
  assert (HM : 1 <= zlen pat).
  { unfold pat, zlen. rewrite map_length. destruct pattern; [contradiction | cbn; lia]. }
  assert (Hin : forall i, 0 <= i < zlen pat -> exists x, In x pattern /\ bmp_p pat i = bm_fold lower ci x).
  { intros i Hi. assert (Hi' : In (bmp_p pat i) pat) by (unfold bmp_p, bm_gz; apply nth_In; unfold zlen in Hi; lia).
    unfold pat in Hi' at 2. apply in_map_iff in Hi'. destruct Hi' as (x & Hx1 & Hx2). exists x. split; [exact Hx2 | symmetry; exact Hx1]. }
  destruct (bmp_positive_table_ok pat rtl HM) as (pos & -> & Hpos). cbn [bind].
  set (full := bm_last rtl (zlen pat) - bm_bf rtl (zlen pat)).
  set (st0 := {| ng_ascii := repeat full 128; ng_has := false; ng_uni := fun _ => None; ng_low := 127; ng_high := 0 |}).
  destruct (bmp_neg_loop_spec pat rtl (S (length pat)) 0 (bm_last rtl (zlen pat)) st0) as (r & Hr & Hspec).
  - lia.
  - lia.
  - unfold st0, bmp_ng_wf; cbn [ng_ascii ng_has ng_uni]. rewrite bmp_repeat_zlen.
    split; [lia|]. split; [intros i r H; discriminate|]. split; [intros r H; discriminate | intros _; lia].
  - intros c Hc. fold full.
    assert (Hv : bmp_ng_view full st0 c = full).
    { unfold bmp_ng_view, st0; cbn [ng_ascii ng_has ng_uni]. destruct (c <? 128) eqn:E; [apply bmp_repeat_gz; lia|].
      rewrite andb_false_r. reflexivity. }
    rewrite Hv. assert (Hfull : full * bm_bump rtl = zlen pat) by (unfold full; bmp_dir2; destruct rtl; lia).
    unfold bmp_neg_inv. rewrite Hfull. split; [left; reflexivity|]. split; [lia|]. intros j H1 H2 H3. lia.
  - intros i Hi. destruct (Hin i Hi) as (x & Hx & ->). apply Hnn. exact Hx.
  - unfold zlen. lia.
  - fold full in Hr. fold st0 in Hr. rewrite Hr. cbn [bind]. destruct r as [st|].
    + eexists. split; [reflexivity|]. cbn [bm_pattern bm_rtl bm_ci bm_positive].
      split; [reflexivity|]. split; [reflexivity|]. split; [reflexivity|].
      destruct Hspec as [W Hinv]. split; [exact HM|]. split; [exact Hpos|].
      intros c Hc.
      destruct (bmp_lookup_view {| bm_pattern := pat; bm_positive := pos; bm_negascii := ng_ascii st; bm_has_uni := ng_has st;
                                   bm_uni := ng_uni st; bm_low := ng_low st; bm_high := ng_high st; bm_rtl := rtl; bm_ci := ci |}
                                st full eq_refl eq_refl eq_refl W c Hc) as (r & Hl & Hv).
      exists r. split; [exact Hl|]. cbn [bm_pattern bm_rtl].
      replace (bm_defadv _) with full by (unfold full, bm_defadv; cbn [bm_pattern bm_rtl]; bmp_dir2; destruct rtl; lia).
      rewrite Hv. apply Hinv. exact Hc.
    + exists None. split; [reflexivity|]. destruct Hspec as (i & Hi & Hgt). destruct (Hin i Hi) as (x & Hx & Heq).
      exists x. split; [exact Hx | lia].
Qed.

End NewProofs.

(* ====================================================================================
   Scan
   ==================================================================================== *)
Section ScanProofs.
Variable lower : Z -> Z.
Variable t : bmtab.
Variable text : list Z.
Local Notation pat := (bm_pattern t).
Local Notation M := (zlen (bm_pattern t)).
Local Notation N := (zlen text).

(* the text as Scan compares it *)
Definition bmp_tx (i : Z) : Z := bm_fold lower (bm_ci t) (bm_gz text i).

(* an occurrence of the pattern AT position k: it starts at k (left-to-right) / ends at k (right-to-left) *)
Definition bmp_occ_at (k : Z) : Prop :=
  forall j, 0 <= j < M ->
    0 <= (if bm_rtl t then k - M + j else k + j) < N /\
    bmp_tx (if bm_rtl t then k - M + j else k + j) = bmp_p pat j.

(* the same in Scan's coordinates: [a] is the text index under the pattern's tail (compared first) *)
Definition bmp_occ (rtl : bool) (a : Z) : Prop :=
  forall j, 0 <= j < M ->
    0 <= a + j - bm_last rtl M < N /\ bmp_tx (a + j - bm_last rtl M) = bmp_p pat j.

Definition bmp_res (rtl : bool) (a : Z) : Z := if rtl then a + M else a - (M - 1).

Lemma bmp_occ_res : forall a, bmp_occ (bm_rtl t) a <-> bmp_occ_at (bmp_res (bm_rtl t) a).
Proof.
  intros a. unfold bmp_occ, bmp_occ_at, bmp_res, bm_last. destruct (bm_rtl t).
  - split; intros H j Hj; specialize (H j Hj); replace (a + M - M + j) with (a + j - 0) in * by lia; exact H.
  - split; intros H j Hj; specialize (H j Hj); replace (a - (M - 1) + j) with (a + j - (M - 1)) in * by lia; exact H.
Qed.

Ltac bmp_dir3 := unfold bm_last, bm_bf, bm_bump, bmp_beyond in *.

(* the good-suffix-like shift never jumps over an occurrence *)
Lemma bmp_shift_good : forall rtl test i,
  bmp_pos_ok pat rtl (bm_positive t) -> 0 <= i < M ->
  (forall k, bmp_beyond pat rtl i k -> bmp_tx (test + k - bm_last rtl M) = bmp_p pat k) ->
  bmp_tx (test + i - bm_last rtl M) <> bmp_p pat i ->
  forall d, 0 <= d < bm_gz (bm_positive t) i * bm_bump rtl -> ~ bmp_occ rtl (test + d * bm_bump rtl).
Proof.
  intros rtl test i [_ Hpos] Hi Htail Hmis d Hd Hocc.
  destruct (Hpos i Hi) as [Hrange Hnv].
  destruct (Z.eq_dec d 0) as [->|Hd0].
  - destruct (Hocc i Hi) as [_ He]. apply Hmis. rewrite <- He. f_equal. lia.
  - apply (Hnv d ltac:(lia)). unfold bmp_viable.
    assert (Hj : 0 <= i - d * bm_bump rtl < M) by (bmp_dir3; destruct rtl; lia).
    split; [exact Hj|]. split.
    + destruct (Hocc _ Hj) as [_ He]. intros Heq. apply Hmis. rewrite <- Heq, <- He. f_equal. lia.
    + intros k Hk. assert (Hkj : 0 <= k - d * bm_bump rtl < M) by (bmp_dir3; destruct rtl; lia).
      destruct (Hocc _ Hkj) as [_ He]. rewrite <- He, <- (Htail k Hk). f_equal. lia.
Qed.

(* nor does the bad-character shift *)
Lemma bmp_shift_bad : forall rtl test i a c,
  bmp_neg_inv pat rtl M a c -> 0 <= i < M ->
  c = bmp_tx (test + i - bm_last rtl M) -> c <> bmp_p pat i ->
  forall d, 0 <= d < (i - bm_last rtl M) * bm_bump rtl + a * bm_bump rtl -> ~ bmp_occ rtl (test + d * bm_bump rtl).
Proof.
  intros rtl test i a c (I1 & I2 & I3) Hi Hc Hmis d Hd Hocc.
  destruct (Z.eq_dec d 0) as [->|Hd0].
  - destruct (Hocc i Hi) as [_ He]. apply Hmis. rewrite Hc, <- He. f_equal. lia.
  - assert (Hj : 0 <= i - d * bm_bump rtl < M) by (bmp_dir3; destruct rtl; lia).
    destruct (Hocc _ Hj) as [_ He].
    apply (I3 ((bm_last rtl M - i) * bm_bump rtl + d)); [bmp_dir3; destruct rtl; lia | bmp_dir3; destruct rtl; lia | bmp_dir3; destruct rtl; lia |].
    replace (bm_last rtl M - ((bm_last rtl M - i) * bm_bump rtl + d) * bm_bump rtl) with (i - d * bm_bump rtl)
      by (bmp_dir3; destruct rtl; lia).
    rewrite Hc, <- He. f_equal. lia.
Qed.

Lemma bmp_lookup_inv : forall c lk, bmp_neg_ok t -> bm_neg_lookup t c = Ok lk ->
  0 <= c /\ bmp_neg_inv pat (bm_rtl t) M (match lk with Some v => v | None => bm_defadv t end) c.
Proof.
  intros c lk Hneg Hl.
  assert (Hc : 0 <= c).
  { unfold bm_neg_lookup in Hl. destruct (c <? 128) eqn:E; [|lia].
    destruct (bm_at (bm_negascii t) c) as [v| | |] eqn:Ea; try discriminate. apply bmp_at_Ok in Ea. lia. }
  split; [exact Hc|]. destruct (Hneg c Hc) as (r & Hr & Hinv). rewrite Hl in Hr. inversion Hr; subst r. exact Hinv.
Qed.

Lemma bmp_adv_max : forall (rtl : bool) (adv t2 : Z),
  (if rtl then (if t2 <? adv then t2 else adv) else (if adv <? t2 then t2 else adv)) * bm_bump rtl
  = Z.max (adv * bm_bump rtl) (t2 * bm_bump rtl).
Proof. intros [|] adv t2; unfold bm_bump; [destruct (t2 <? adv) eqn:E | destruct (adv <? t2) eqn:E]; lia. Qed.

Lemma bmp_scan_match_spec : forall rtl, bm_rtl t = rtl -> bmp_tab_ok t ->
  forall fuel test test2 mtch s,
  0 <= mtch < M -> test2 = test + mtch - bm_last rtl M ->
  (forall k, k = mtch \/ bmp_beyond pat rtl mtch k ->
     0 <= test + k - bm_last rtl M < N /\ bmp_tx (test + k - bm_last rtl M) = bmp_p pat k) ->
  bm_scan_match lower t text (bm_neg_lookup t) fuel test test2 mtch = Ok s ->
  match s with
  | BmRet r => bmp_occ rtl test /\ r = bmp_res rtl test
  | BmAdv test' => 1 <= (test' - test) * bm_bump rtl /\
                   forall d, 0 <= d < (test' - test) * bm_bump rtl -> ~ bmp_occ rtl (test + d * bm_bump rtl)
  end.
Proof.
  intros rtl Hr (HM & Hpos & Hneg) fuel. rewrite Hr in Hpos.
  induction fuel as [|f IH]; intros test test2 mtch s Hm Ht2 Hmat Hs; [discriminate|].
  cbn [bm_scan_match] in Hs. unfold bm_endmatch in Hs. rewrite Hr in Hs.
  destruct (mtch =? (if rtl then M - 1 else 0)) eqn:Eend.
  - inversion Hs; subst s. split.
    + intros j Hj. apply Hmat. bmp_dir3. destruct rtl; lia.
    + unfold bmp_res. bmp_dir3. destruct rtl; lia.
  - set (mtch' := mtch - bm_bump rtl) in *. set (test2' := test2 - bm_bump rtl) in *.
    assert (Hm' : 0 <= mtch' < M) by (unfold mtch'; bmp_dir3; destruct rtl; lia).
    assert (Ht2' : test2' = test + mtch' - bm_last rtl M) by (unfold test2', mtch'; lia).
    destruct (bm_at text test2') as [c| | |] eqn:Ec; try discriminate. cbn [bind] in Hs.
    apply bmp_at_Ok in Ec. destruct Ec as [Hrange Hcv].
    rewrite (bmp_at_in pat mtch' Hm') in Hs. cbn [bind] in Hs.
    assert (Hchv : bm_fold lower (bm_ci t) c = bmp_tx test2') by (unfold bmp_tx; rewrite Hcv; reflexivity).
    rewrite Hchv in Hs. fold (bmp_p pat mtch') in Hs.
    destruct (bmp_tx test2' =? bmp_p pat mtch') eqn:Eeq; cbn [negb] in Hs.
    + (* still matching *)
      apply (IH test test2' mtch' s Hm' Ht2'); [|exact Hs].
      intros k Hk. assert (Hc : k = mtch' \/ k = mtch \/ bmp_beyond pat rtl mtch k) by (unfold mtch' in *; bmp_dir3; destruct rtl; lia).
      destruct Hc as [->|Hc]; [|apply Hmat; exact Hc].
      rewrite <- Ht2'. split; [exact Hrange | lia].
    + (* reject *)
      destruct Hpos as [Hpl Hpi]. pose proof (conj Hpl Hpi) as Hpos.
      rewrite (bmp_at_in (bm_positive t) mtch') in Hs by lia. cbn [bind] in Hs.
      destruct (bm_neg_lookup t (bmp_tx test2')) as [lk| | |] eqn:El; try discriminate. cbn [bind] in Hs.
      destruct (bmp_lookup_inv _ _ Hneg El) as [Hc0 Hinv]. rewrite Hr in Hinv.
      assert (Htail : forall k, bmp_beyond pat rtl mtch' k -> bmp_tx (test + k - bm_last rtl M) = bmp_p pat k).
      { intros k Hk. apply Hmat. unfold mtch' in *. bmp_dir3. destruct rtl; lia. }
      assert (Hmis : bmp_tx (test + mtch' - bm_last rtl M) <> bmp_p pat mtch') by (rewrite <- Ht2'; lia).
      pose proof (bmp_shift_good rtl test mtch' Hpos Hm' Htail Hmis) as Hgood.
      destruct (Hpi mtch' Hm') as [Hp1 _].
      destruct lk as [v|].
      * inversion Hs; subst s. clear Hs.
        replace (test + _ - test) with
          (if rtl then (if mtch' - bm_startmatch t + v <? bm_gz (bm_positive t) mtch' then mtch' - bm_startmatch t + v else bm_gz (bm_positive t) mtch')
           else (if bm_gz (bm_positive t) mtch' <? mtch' - bm_startmatch t + v then mtch' - bm_startmatch t + v else bm_gz (bm_positive t) mtch')) by lia.
        rewrite bmp_adv_max. split; [lia|]. intros d Hd.
        destruct (Z_lt_ge_dec d (bm_gz (bm_positive t) mtch' * bm_bump rtl)) as [Hlt|Hge]; [apply Hgood; lia|].
        apply (bmp_shift_bad rtl test mtch' v (bmp_tx test2') Hinv Hm'); [rewrite Ht2'; reflexivity | lia|].
        replace (bm_startmatch t) with (bm_last rtl M) in Hd by (unfold bm_startmatch, bm_last; rewrite Hr; reflexivity).
        lia.
      * inversion Hs; subst s. clear Hs. replace (test + bm_gz (bm_positive t) mtch' - test) with (bm_gz (bm_positive t) mtch') by lia.
        split; [lia|]. exact Hgood.
Qed.

(* ---- the outer loop: partial correctness ---- *)
Lemma bmp_scan_loop_spec : forall rtl, bm_rtl t = rtl -> bmp_tab_ok t ->
  forall beglimit endlimit fuel test r,
  (if rtl then test < endlimit else beglimit <= test) ->
  bm_scan_loop lower t text (bm_neg_lookup t) (bmp_p pat (bm_last rtl M)) beglimit endlimit fuel test = Ok r ->
  (r = -1 /\ forall d, 0 <= d -> beglimit <= test + d * bm_bump rtl < endlimit -> ~ bmp_occ rtl (test + d * bm_bump rtl)) \/
  (exists d, 0 <= d /\ beglimit <= test + d * bm_bump rtl < endlimit /\ bmp_occ rtl (test + d * bm_bump rtl) /\
             r = bmp_res rtl (test + d * bm_bump rtl) /\
             forall d', 0 <= d' < d -> ~ bmp_occ rtl (test + d' * bm_bump rtl)).
Proof.
  intros rtl Hr Hok beglimit endlimit fuel. pose proof Hok as (HM & Hpos & Hneg).
  induction fuel as [|f IH]; intros test r Hwin Hs; [discriminate|].
  cbn [bm_scan_loop] in Hs.
  destruct ((endlimit <=? test) || (test <? beglimit)) eqn:Eout.
  - inversion Hs; subst r. left. split; [reflexivity|]. intros d Hd Hin. exfalso. bmp_dir3. destruct rtl; lia.
  - destruct (bm_at text test) as [c| | |] eqn:Ec; try discriminate. cbn [bind] in Hs.
    apply bmp_at_Ok in Ec. destruct Ec as [Hrange Hcv].
    assert (Hchv : bm_fold lower (bm_ci t) c = bmp_tx test) by (unfold bmp_tx; rewrite Hcv; reflexivity).
    rewrite Hchv in Hs.
    (* one turn either answers, or moves on by D >= 1 without passing an occurrence *)
    assert (Hturn : forall test', 1 <= (test' - test) * bm_bump rtl ->
              (forall d, 0 <= d < (test' - test) * bm_bump rtl -> ~ bmp_occ rtl (test + d * bm_bump rtl)) ->
              bm_scan_loop lower t text (bm_neg_lookup t) (bmp_p pat (bm_last rtl M)) beglimit endlimit f test' = Ok r ->
              (r = -1 /\ forall d, 0 <= d -> beglimit <= test + d * bm_bump rtl < endlimit -> ~ bmp_occ rtl (test + d * bm_bump rtl)) \/
              (exists d, 0 <= d /\ beglimit <= test + d * bm_bump rtl < endlimit /\ bmp_occ rtl (test + d * bm_bump rtl) /\
                         r = bmp_res rtl (test + d * bm_bump rtl) /\
                         forall d', 0 <= d' < d -> ~ bmp_occ rtl (test + d' * bm_bump rtl))).
    { intros test' HD Hno Hs'. set (D := (test' - test) * bm_bump rtl) in *.
      assert (Ht' : test' = test + D * bm_bump rtl) by (unfold D; bmp_dir3; destruct rtl; lia).
      assert (Hwin' : if rtl then test' < endlimit else beglimit <= test') by (bmp_dir3; destruct rtl; lia).
      destruct (IH test' r Hwin' Hs') as [[-> Hall]|(d & Hd & Hin & Hocc & Hres & Hbefore)].
      - left. split; [reflexivity|]. intros d Hd Hin.
        destruct (Z_lt_ge_dec d D) as [Hlt|Hge]; [apply Hno; lia|].
        replace (test + d * bm_bump rtl) with (test' + (d - D) * bm_bump rtl) in * by lia. apply Hall; [lia | exact Hin].
      - right. exists (D + d).
        replace (test + (D + d) * bm_bump rtl) with (test' + d * bm_bump rtl) by lia.
        split; [lia|]. split; [exact Hin|]. split; [exact Hocc|]. split; [exact Hres|].
        intros d' Hd'. destruct (Z_lt_ge_dec d' D) as [Hlt|Hge]; [apply Hno; lia|].
        replace (test + d' * bm_bump rtl) with (test' + (d' - D) * bm_bump rtl) by lia. apply Hbefore. lia. }
    destruct (bmp_tx test =? bmp_p pat (bm_last rtl M)) eqn:Eeq; cbn [negb] in Hs.
    + (* the tail character matches: compare the rest *)
      destruct (bm_scan_match lower t text (bm_neg_lookup t) (S (length pat)) test test (bm_startmatch t)) as [s| | |] eqn:Em; try discriminate.
      cbn [bind] in Hs.
      assert (Hsm : bm_startmatch t = bm_last rtl M) by (unfold bm_startmatch, bm_last; rewrite Hr; reflexivity).
      rewrite Hsm in Em.
      pose proof (bmp_scan_match_spec rtl Hr Hok (S (length pat)) test test (bm_last rtl M) s) as Hspec.
      specialize (Hspec ltac:(bmp_dir3; destruct rtl; lia) ltac:(lia)).
      assert (Hmat : forall k, k = bm_last rtl M \/ bmp_beyond pat rtl (bm_last rtl M) k ->
                0 <= test + k - bm_last rtl M < N /\ bmp_tx (test + k - bm_last rtl M) = bmp_p pat k).
      { intros k [->|Hk]; [|exfalso; bmp_dir3; destruct rtl; lia].
        replace (test + bm_last rtl M - bm_last rtl M) with test by lia. split; [exact Hrange | lia]. }
      specialize (Hspec Hmat Em). destruct s as [r0|test'].
      * inversion Hs; subst r0. destruct Hspec as [Hocc Hres]. right. exists 0.
        replace (test + 0 * bm_bump rtl) with test by lia. split; [lia|]. split; [lia|]. split; [exact Hocc|].
        split; [exact Hres|]. intros d' Hd'. lia.
      * destruct Hspec as [HD Hno]. exact (Hturn test' HD Hno Hs).
    + (* reject at the tail: bad-character advance *)
      destruct (bm_neg_lookup t (bmp_tx test)) as [lk| | |] eqn:El; try discriminate. cbn [bind] in Hs.
      destruct (bmp_lookup_inv _ _ Hneg El) as [Hc0 Hinv]. rewrite Hr in Hinv.
      set (a := match lk with Some v => v | None => bm_defadv t end) in *.
      assert (Hlast : 0 <= bm_last rtl M < M) by (bmp_dir3; destruct rtl; lia).
      pose proof (bmp_shift_bad rtl test (bm_last rtl M) a (bmp_tx test) Hinv Hlast) as Hbad.
      replace (test + bm_last rtl M - bm_last rtl M) with test in Hbad by lia.
      specialize (Hbad eq_refl ltac:(lia)).
      replace ((bm_last rtl M - bm_last rtl M) * bm_bump rtl + a * bm_bump rtl) with (a * bm_bump rtl) in Hbad by lia.
      apply (Hturn (test + a)); [| replace (test + a - test) with a by lia; exact Hbad | exact Hs].
      replace (test + a - test) with a by lia.
      destruct Hinv as (I1 & I2 & I3).
      destruct (Z.eq_dec (a * bm_bump rtl) 0) as [Hz|Hnz]; [|lia].
      exfalso. assert (a = 0) by (bmp_dir3; destruct rtl; lia).
      specialize (I2 ltac:(lia)). rewrite H in I2. replace (bm_last rtl M - 0) with (bm_last rtl M) in I2 by lia. lia.
Qed.

Definition bmp_fits (beglimit endlimit k : Z) : Prop :=
  if bm_rtl t then beglimit <= k - M else k + M <= endlimit.

Lemma bmp_startmatch_at : forall rtl, bm_rtl t = rtl -> 1 <= M ->
  bm_at pat (bm_startmatch t) = Ok (bmp_p pat (bm_last rtl M)).
Proof.
  intros rtl Hr HM. assert (Hsm : bm_startmatch t = bm_last rtl M) by (unfold bm_startmatch, bm_last; rewrite Hr; reflexivity).
  rewrite Hsm. apply bmp_at_in. bmp_dir3. destruct rtl; lia.
Qed.

(* Scan answers the FIRST occurrence at-or-beyond index (in scan direction) inside the window, -1 if none *)
Theorem bmp_scan_sound : forall fuel index beglimit endlimit r, bmp_tab_ok t -> beglimit <= index <= endlimit ->
  bm_scan lower t text fuel index beglimit endlimit = Ok r ->
  (r = -1 /\ forall k, sc_ord (bm_rtl t) index k -> bmp_fits beglimit endlimit k -> ~ bmp_occ_at k) \/
  (sc_ord (bm_rtl t) index r /\ bmp_fits beglimit endlimit r /\ bmp_occ_at r /\
   forall k, sc_ord (bm_rtl t) index k -> sc_before (bm_rtl t) k r -> ~ bmp_occ_at k).
Proof.
  intros fuel index beglimit endlimit r Hok Hidx Hs. pose proof Hok as (HM & _ & _).
  remember (bm_rtl t) as rtl eqn:Hr. symmetry in Hr.
  unfold bm_scan, bm_scan_gen in Hs. rewrite (bmp_startmatch_at rtl Hr HM) in Hs. cbn [bind] in Hs.
  unfold bm_defadv in Hs. rewrite Hr in Hs.
  set (test0 := if rtl then index + - M else index + M - 1).
  replace (if rtl then index + (if rtl then - M else M) else index + (if rtl then - M else M) - 1) with test0 in Hs
    by (unfold test0; destruct rtl; lia).
  assert (Hwin : if rtl then test0 < endlimit else beglimit <= test0) by (unfold test0; destruct rtl; lia).
  assert (Hocc : forall a, bmp_occ rtl a <-> bmp_occ_at (bmp_res rtl a)) by (intros a; rewrite <- Hr; apply bmp_occ_res).
  destruct (bmp_scan_loop_spec rtl Hr Hok beglimit endlimit fuel test0 r Hwin Hs) as [[-> Hall]|(d & Hd & Hin & Ho & Hres & Hbefore)].
  - left. split; [reflexivity|]. intros k Hk Hfit Hoc.
    set (d := if rtl then index - k else k - index).
    apply (Hall d).
    + unfold d, sc_ord in *. destruct rtl; lia.
    + unfold d, test0, sc_ord, bmp_fits, bm_bump in *. rewrite Hr in Hfit. destruct rtl; lia.
    + apply Hocc. replace (bmp_res rtl (test0 + d * bm_bump rtl)) with k; [exact Hoc|].
      unfold bmp_res, d, test0, bm_bump. destruct rtl; lia.
  - right. assert (Hrk : r = if rtl then index - d else index + d).
    { rewrite Hres. unfold bmp_res, test0, bm_bump. destruct rtl; lia. }
    split; [unfold sc_ord; destruct rtl; lia|]. split.
    + unfold bmp_fits. rewrite Hr. unfold test0, bm_bump in Hin. destruct rtl; lia.
    + split; [rewrite Hres; apply Hocc; exact Ho|].
      intros k Hk Hkr Hoc. set (d' := if rtl then index - k else k - index).
      apply (Hbefore d').
      * unfold d', sc_ord, sc_before in *. destruct rtl; lia.
      * apply Hocc. replace (bmp_res rtl (test0 + d' * bm_bump rtl)) with k; [exact Hoc|].
        unfold bmp_res, d', test0, bm_bump. destruct rtl; lia.
Qed.

(* ---- no fault, no fuel exhaustion on non-negative runes ---- *)
Lemma bmp_lookup_total : forall c, bmp_neg_ok t -> 0 <= c -> exists lk, bm_neg_lookup t c = Ok lk.
Proof. intros c Hneg Hc. destruct (Hneg c Hc) as (r & Hr & _). eauto. Qed.

Lemma bmp_scan_match_total : forall rtl, bm_rtl t = rtl -> bmp_tab_ok t ->
  (forall i, 0 <= i < N -> 0 <= bmp_tx i) ->
  forall fuel test test2 mtch,
  0 <= mtch < M -> test2 = test + mtch - bm_last rtl M ->
  (forall k, 0 <= k < M -> 0 <= test + k - bm_last rtl M < N) ->
  (Z.to_nat ((mtch - (if rtl then M - 1 else 0)) * bm_bump rtl) < fuel)%nat ->
  exists s, bm_scan_match lower t text (bm_neg_lookup t) fuel test test2 mtch = Ok s.
Proof.
  intros rtl Hr (HM & Hpos & Hneg) Hnn fuel. rewrite Hr in Hpos.
  induction fuel as [|f IH]; intros test test2 mtch Hm Ht2 Hrg Hf; [lia|].
  cbn [bm_scan_match]. unfold bm_endmatch. rewrite Hr.
  destruct (mtch =? (if rtl then M - 1 else 0)) eqn:Eend; [eauto|].
  set (mtch' := mtch - bm_bump rtl). set (test2' := test2 - bm_bump rtl).
  assert (Hm' : 0 <= mtch' < M) by (unfold mtch'; bmp_dir3; destruct rtl; lia).
  assert (Ht2' : test2' = test + mtch' - bm_last rtl M) by (unfold test2', mtch'; lia).
  assert (Hr2 : 0 <= test2' < N) by (rewrite Ht2'; apply Hrg; exact Hm').
  rewrite (bmp_at_in text test2' Hr2). cbn [bind]. rewrite (bmp_at_in pat mtch' Hm'). cbn [bind].
  fold (bmp_tx test2').
  destruct (negb (bmp_tx test2' =? bm_gz pat mtch')) eqn:Emis.
  - destruct Hpos as [Hpl _]. rewrite (bmp_at_in (bm_positive t) mtch') by lia. cbn [bind].
    destruct (bmp_lookup_total (bmp_tx test2') Hneg (Hnn _ Hr2)) as [lk ->]. cbn [bind]. destruct lk; eauto.
  - apply IH; [exact Hm' | exact Ht2' | exact Hrg |]. unfold mtch'. bmp_dir3. destruct rtl; lia.
Qed.

Lemma bmp_scan_loop_total : forall rtl, bm_rtl t = rtl -> bmp_tab_ok t ->
  (forall i, 0 <= i < N -> 0 <= bmp_tx i) ->
  forall beglimit endlimit, 0 <= beglimit -> endlimit <= N ->
  forall fuel test,
  (if rtl then test < endlimit /\ test + M <= N else beglimit <= test /\ M - 1 <= test) ->
  (Z.to_nat (if rtl then test - beglimit + 1 else endlimit - test) < fuel)%nat ->
  exists r, bm_scan_loop lower t text (bm_neg_lookup t) (bmp_p pat (bm_last rtl M)) beglimit endlimit fuel test = Ok r.
Proof.
  intros rtl Hr Hok Hnn beglimit endlimit Hb He fuel. pose proof Hok as (HM & Hpos & Hneg).
  induction fuel as [|f IH]; intros test Hinv Hf; [lia|].
  cbn [bm_scan_loop].
  destruct ((endlimit <=? test) || (test <? beglimit)) eqn:Eout; [eauto|].
  assert (Hrange : 0 <= test < N) by lia.
  rewrite (bmp_at_in text test Hrange). cbn [bind]. fold (bmp_tx test).
  assert (Hnext : forall test', 1 <= (test' - test) * bm_bump rtl ->
            exists r, bm_scan_loop lower t text (bm_neg_lookup t) (bmp_p pat (bm_last rtl M)) beglimit endlimit f test' = Ok r).
  { intros test' HD. apply IH; bmp_dir3; destruct rtl; lia. }
  destruct (bmp_tx test =? bmp_p pat (bm_last rtl M)) eqn:Eeq; cbn [negb].
  - assert (Hsm : bm_startmatch t = bm_last rtl M) by (unfold bm_startmatch, bm_last; rewrite Hr; reflexivity).
    rewrite Hsm.
    assert (Hlast : 0 <= bm_last rtl M < M) by (bmp_dir3; destruct rtl; lia).
    assert (Hrg : forall k, 0 <= k < M -> 0 <= test + k - bm_last rtl M < N) by (intros k Hk; bmp_dir3; destruct rtl; lia).
    destruct (bmp_scan_match_total rtl Hr Hok Hnn (S (length pat)) test test (bm_last rtl M) Hlast ltac:(lia) Hrg) as [s Hs].
    { unfold zlen in *. bmp_dir3. destruct rtl; lia. }
    rewrite Hs. cbn [bind]. destruct s as [r0|test']; [eauto|].
    assert (Hmat : forall k, k = bm_last rtl M \/ bmp_beyond pat rtl (bm_last rtl M) k ->
              0 <= test + k - bm_last rtl M < N /\ bmp_tx (test + k - bm_last rtl M) = bmp_p pat k).
    { intros k [->|Hk]; [|exfalso; bmp_dir3; destruct rtl; lia].
      replace (test + bm_last rtl M - bm_last rtl M) with test by lia. split; [exact Hrange | lia]. }
    destruct (bmp_scan_match_spec rtl Hr Hok _ test test (bm_last rtl M) _ Hlast ltac:(lia) Hmat Hs) as [HD _].
    exact (Hnext test' HD).
  - destruct (bmp_lookup_total (bmp_tx test) Hneg (Hnn _ Hrange)) as [lk Hl]. rewrite Hl. cbn [bind].
    destruct (bmp_lookup_inv _ _ Hneg Hl) as [_ (I1 & I2 & I3)]. rewrite Hr in I1, I2, I3.
    set (a := match lk with Some v => v | None => bm_defadv t end) in *.
    apply Hnext. replace (test + a - test) with a by lia.
    destruct (Z.eq_dec (a * bm_bump rtl) 0) as [Hz|Hnz]; [|lia].
    exfalso. assert (a = 0) by (bmp_dir3; destruct rtl; lia).
    specialize (I2 ltac:(lia)). rewrite H in I2. replace (bm_last rtl M - 0) with (bm_last rtl M) in I2 by lia. lia.
Qed.

Theorem bmp_scan_total : forall index beglimit endlimit, bmp_tab_ok t ->
  (forall i, 0 <= i < N -> 0 <= bmp_tx i) ->
  0 <= beglimit -> endlimit <= N -> beglimit <= index <= endlimit ->
  exists r, bm_scan lower t text (S (length text)) index beglimit endlimit = Ok r.
Proof.
  intros index beglimit endlimit Hok Hnn Hb He Hidx. pose proof Hok as (HM & _ & _).
  remember (bm_rtl t) as rtl eqn:Hr. symmetry in Hr.
  unfold bm_scan, bm_scan_gen. rewrite (bmp_startmatch_at rtl Hr HM). cbn [bind].
  unfold bm_defadv. rewrite Hr.
  apply (bmp_scan_loop_total rtl Hr Hok Hnn beglimit endlimit Hb He); unfold zlen in *; destruct rtl; lia.
Qed.

(* ---- IsMatch ---- *)
Lemma bmp_gz_cons : forall x l j, 1 <= j -> bm_gz (x :: l) j = bm_gz l (j - 1).
Proof.
  intros x l j Hj. unfold bm_gz. replace (Z.to_nat j) with (S (Z.to_nat (j - 1))) by lia. reflexivity.
Qed.

Lemma bmp_match_loop_spec : forall pat' i, 0 <= i -> i + zlen pat' <= N ->
  exists b, bm_match_loop lower t text pat' i = Ok b /\
            (b = true <-> forall j, 0 <= j < zlen pat' -> bmp_tx (i + j) = bm_gz pat' j).
Proof.
  induction pat' as [|pc pat' IH]; intros i Hi Hn.
  - exists true. split; [reflexivity|]. split; [intros _ j Hj; cbn in Hj; lia | reflexivity].
  - assert (Hl : zlen (pc :: pat') = zlen pat' + 1) by (unfold zlen; cbn [length]; lia).
    pose proof (bmp_zlen_nonneg pat') as Hp0.
    cbn [bm_match_loop]. rewrite (bmp_at_in text i) by lia. cbn [bind]. fold (bmp_tx i).
    destruct (bmp_tx i =? pc) eqn:E.
    + destruct (IH (i + 1) ltac:(lia) ltac:(lia)) as (b & Hb & Hiff). exists b. split; [exact Hb|].
      rewrite Hiff. split.
      * intros H j Hj. destruct (Z.eq_dec j 0) as [->|Hj0].
        -- replace (i + 0) with i by lia. unfold bm_gz. cbn. lia.
        -- rewrite bmp_gz_cons by lia. replace (i + j) with (i + 1 + (j - 1)) by lia. apply H. lia.
      * intros H j Hj. specialize (H (j + 1) ltac:(lia)). rewrite bmp_gz_cons in H by lia.
        replace (j + 1 - 1) with j in H by lia. replace (i + 1 + j) with (i + (j + 1)) by lia. exact H.
    + exists false. split; [reflexivity|]. split; [discriminate|]. intros H. specialize (H 0 ltac:(lia)).
      replace (i + 0) with i in H by lia. unfold bm_gz in H. cbn in H. lia.
Qed.

Definition bmp_in_window (index beglimit endlimit : Z) : Prop :=
  if bm_rtl t then index <= endlimit /\ beglimit <= index - M else beglimit <= index /\ index + M <= endlimit.

Theorem bmp_is_match_spec : forall index beglimit endlimit, 0 <= beglimit -> endlimit <= N ->
  exists b, bm_is_match lower t text index beglimit endlimit = Ok b /\
            (b = true <-> bmp_in_window index beglimit endlimit /\ bmp_occ_at index).
Proof.
  intros index beglimit endlimit Hb He. unfold bm_is_match, bmp_in_window, bmp_occ_at, bm_match_pattern.
  pose proof (bmp_zlen_nonneg pat) as HM0.
  destruct (bm_rtl t) eqn:Hr; cbn [negb].
  - destruct ((endlimit <? index) || (index - beglimit <? M)) eqn:Ew.
    + exists false. split; [reflexivity|]. split; [discriminate|]. intros [Hw _]. lia.
    + replace (zlen text - (index - M) <? M) with false by lia.
      destruct (bmp_match_loop_spec pat (index - M) ltac:(lia) ltac:(lia)) as (b & Hbm & Hiff).
      exists b. split; [exact Hbm|]. rewrite Hiff. split.
      * intros H. split; [lia|]. intros j Hj. split; [lia|]. replace (index - M + j) with (index - M + j) by lia. apply H. exact Hj.
      * intros [_ H] j Hj. apply H. exact Hj.
  - destruct ((index <? beglimit) || (endlimit - index <? M)) eqn:Ew.
    + exists false. split; [reflexivity|]. split; [discriminate|]. intros [Hw _]. lia.
    + replace (zlen text - index <? M) with false by lia.
      destruct (bmp_match_loop_spec pat index ltac:(lia) ltac:(lia)) as (b & Hbm & Hiff).
      exists b. split; [exact Hbm|]. rewrite Hiff. split.
      * intros H. split; [lia|]. intros j Hj. split; [lia|]. apply H. exact Hj.
      * intros [_ H] j Hj. apply H. exact Hj.
Qed.

(* ---- what findFirstCharDefault needs of the machine (runner.go:1413, 1418) ---- *)
Section Facts.
Variable R : Type.
Variable exec : Z -> option R * Z.

(* the compile-time fact behind Code.BmPrefix: every successful attempt starts (left-to-right) / ends
   (right-to-left) with the literal *)
Definition bmp_prefix_fact : Prop :=
  forall x, 0 <= x <= N -> fst (exec x) <> None -> bmp_occ_at x.

Lemma bmp_occ_at_in_window : forall x, 1 <= M -> bmp_occ_at x -> bmp_in_window x 0 N /\ 0 <= x <= N.
Proof.
  intros x HM Ho. pose proof (Ho 0 ltac:(lia)) as [H0 _]. pose proof (Ho (M - 1) ltac:(lia)) as [H1 _].
  unfold bmp_in_window. destruct (bm_rtl t); lia.
Qed.

Theorem bmp_scan_fact : bmp_tab_ok t -> (forall i, 0 <= i < N -> 0 <= bmp_tx i) -> bmp_prefix_fact ->
  fd_bm_scan_fact R text exec (bm_rtl t) (bm_scan_fn lower t text).
Proof.
  intros Hok Hnn Hfact p Hp. pose proof Hok as (HM & _ & _).
  destruct (bmp_scan_total p 0 N Hok Hnn ltac:(lia) ltac:(lia) Hp) as [r Hr].
  unfold bm_scan_fn. rewrite Hr.
  assert (Hfail : forall x, 0 <= x <= N -> ~ bmp_occ_at x -> sc_fails R exec x).
  { intros x Hx Hno. unfold sc_fails. destruct (fst (exec x)) eqn:E; [|reflexivity].
    exfalso. apply Hno. apply Hfact; [exact Hx | rewrite E; discriminate]. }
  destruct (bmp_scan_sound _ p 0 N r Hok Hp Hr) as [[-> Hall]|(Hord & Hfit & Hocc & Hbefore)].
  - left. split; [reflexivity|]. intros x Hox Hix. apply Hfail; [exact Hix|]. intros Ho.
    apply (Hall x Hox); [|exact Ho]. destruct (bmp_occ_at_in_window x HM Ho) as [Hw _].
    unfold bmp_fits, bmp_in_window in *. destruct (bm_rtl t); lia.
  - right. destruct (bmp_occ_at_in_window r HM Hocc) as [_ Hrr]. split; [lia|]. split; [exact Hord|]. split; [exact Hrr|].
    intros x Hox Hbx. apply Hfail; [unfold sc_ord, sc_before in *; destruct (bm_rtl t); lia|].
    apply Hbefore; assumption.
Qed.

Theorem bmp_is_match_fact : 1 <= M -> bmp_prefix_fact ->
  forall x, sc_in_text N x -> fst (exec x) <> None -> bm_is_match_fn lower t text x = true.
Proof.
  intros HM Hfact x Hx Hs. unfold bm_is_match_fn.
  destruct (bmp_is_match_spec x 0 N ltac:(lia) ltac:(lia)) as (b & -> & Hiff).
  apply Hiff. pose proof (Hfact x Hx Hs) as Ho. split; [apply bmp_occ_at_in_window; assumption | exact Ho].
Qed.

End Facts.
End ScanProofs.

(* ====================================================================================
   a machine that newBmPrefix returned has sound tables - no side condition
   ==================================================================================== *)
Lemma bmp_neg_step_neg : forall full last st examine ch, ch < 0 -> bm_neg_step full last st examine ch = Crash 1.
Proof.
  intros full last st examine ch H. unfold bm_neg_step. replace (ch <? 128) with true by lia.
  unfold bm_at, znth. replace (ch <? 0) with true by lia. reflexivity.
Qed.

Lemma bmp_neg_loop_nonneg : forall pat rtl full fuel k examine st st',
  examine = bm_last rtl (zlen pat) - k * bm_bump rtl -> 0 <= k ->
  bm_neg_loop pat full (bm_last rtl (zlen pat)) (bm_bf rtl (zlen pat)) (bm_bump rtl) fuel examine st = Ok (Some st') ->
  forall j, k <= j < zlen pat -> 0 <= bmp_p pat (bm_last rtl (zlen pat) - j * bm_bump rtl).
Proof.
  intros pat rtl full fuel. induction fuel as [|f IH]; intros k examine st st' He Hk Hl j Hj; [discriminate|].
  cbn [bm_neg_loop] in Hl.
  destruct (examine =? bm_bf rtl (zlen pat)) eqn:Ebf.
  - exfalso. unfold bm_last, bm_bf, bm_bump in *. destruct rtl; lia.
  - destruct (bm_at pat examine) as [ch| | |] eqn:Ea; try discriminate. cbn [bind] in Hl.
    apply bmp_at_Ok in Ea. destruct Ea as [Hex Hch].
    destruct (Z_lt_ge_dec ch 0) as [Hneg|Hnn]; [rewrite bmp_neg_step_neg in Hl by lia; discriminate|].
    destruct (bm_neg_step full (bm_last rtl (zlen pat)) st examine ch) as [[st1|]| | |]; try discriminate.
    cbn [bind] in Hl. destruct (Z.eq_dec j k) as [->|Hne].
    + rewrite <- He. unfold bmp_p. lia.
    + apply (IH (k + 1) (examine - bm_bump rtl) st1 st'); [lia | lia | exact Hl | lia].
Qed.

Section NewSome.
Variable lower : Z -> Z.

Theorem bmp_new_Some_ok : forall pattern ci rtl t, bm_new lower pattern ci rtl = Ok (Some t) ->
  bm_pattern t = map (bm_fold lower ci) pattern /\ bm_rtl t = rtl /\ bm_ci t = ci /\ bmp_tab_ok t.
Proof.
  intros pattern ci rtl t Hn.
  assert (Hne : pattern <> []).
  { intros ->. unfold bm_new in Hn. destruct ci; cbn in Hn; destruct rtl; discriminate. }
  assert (Hnn : forall x, In x pattern -> 0 <= bm_fold lower ci x).
  { intros x Hx. pose proof Hn as Hn'. unfold bm_new in Hn'. rewrite bmp_fold_map in Hn'.
    set (pat := map (bm_fold lower ci) pattern) in *.
    destruct (bm_positive_table pat rtl) as [pos| | |]; try discriminate. cbn [bind] in Hn'.
    match type of Hn' with context [bm_neg_loop ?p ?fl ?l ?b ?bu ?fu ?ex ?s] =>
      destruct (bm_neg_loop p fl l b bu fu ex s) as [[st'|]| | |] eqn:El; try discriminate end.
    pose proof (bmp_neg_loop_nonneg pat rtl _ (S (length pat)) 0 (bm_last rtl (zlen pat)) _ st' ltac:(lia) ltac:(lia) El) as Hall.
    assert (Hin : In (bm_fold lower ci x) pat) by (unfold pat; apply in_map; exact Hx).
    apply In_nth with (d := 0) in Hin. destruct Hin as (i & Hi & Heq).
    set (jj := if rtl then Z.of_nat i else zlen pat - 1 - Z.of_nat i).
    specialize (Hall jj ltac:(unfold jj, zlen; destruct rtl; lia)).
    replace (bm_last rtl (zlen pat) - jj * bm_bump rtl) with (Z.of_nat i) in Hall
      by (unfold jj, bm_last, bm_bump; destruct rtl; lia).
    unfold bmp_p, bm_gz in Hall. rewrite Nat2Z.id in Hall. lia. }
  destruct (bmp_new_ok lower pattern ci rtl Hne Hnn) as (r & Hr & Hspec).
  rewrite Hn in Hr. inversion Hr; subst r. exact Hspec.
Qed.

End NewSome.

(* ====================================================================================
   findFirstCharDefault with the modelled machine in place of the oracles
   ==================================================================================== *)
Theorem bmp_finder_default_H1 :
  forall (R : Type) (text : list Z) (exec : Z -> option R * Z) (set_in : Z -> Z -> bool) (lower : Z -> Z)
         (anchors ts : Z) (t : bmtab) (o : option fdopts) (fc : option fdfc),
    let n := zlen text in
    let rtl := bm_rtl t in
    let succeeds := fun x => fst (exec x) <> None in
    (abit anchors ANCH_BEGINNING = true -> forall x, sc_in_text n x -> succeeds x -> x = 0) ->
    (abit anchors ANCH_START = true -> forall x, sc_in_text n x -> succeeds x -> x = ts) ->
    (abit anchors ANCH_ENDZ = true -> forall x, sc_in_text n x -> succeeds x ->
       x = n \/ (x = n - 1 /\ nth (Z.to_nat x) text 0 = 10)) ->
    (abit anchors ANCH_END = true -> forall x, sc_in_text n x -> succeeds x -> x = n) ->
    bmp_tab_ok t ->
    (forall i, 0 <= i < n -> 0 <= bmp_tx lower t text i) ->
    bmp_prefix_fact lower t text R exec ->
    sc_H1_true R n rtl (fd_total (fd_find_first_char_default text set_in lower rtl anchors ts
                          (Some (bm_is_match_fn lower t text)) (Some (bm_scan_fn lower t text)) o fc)) exec /\
    sc_H1_false R n rtl (fd_total (fd_find_first_char_default text set_in lower rtl anchors ts
                           (Some (bm_is_match_fn lower t text)) (Some (bm_scan_fn lower t text)) o fc)) exec.
Proof.
  intros R text exec set_in lower anchors ts t o fc n rtl succeeds Fbeg Fstart Fendz Fend Hok Hnn Hfact.
  apply fd_default_H1; try assumption.
  - intros im Him x Hx Hs. inversion Him; subst im. destruct Hok as (HM & _ & _).
    exact (bmp_is_match_fact lower t text R exec HM Hfact x Hx Hs).
  - intros scan Hsc. inversion Hsc; subst scan. exact (bmp_scan_fact lower t text R exec Hok Hnn Hfact).
  - intros H. discriminate.
Qed.

(* ====================================================================================
   the statements of Properties/C03.v: everything from "newBmPrefix returned this machine"
   ==================================================================================== *)
Section Statements.
Variable lower : Z -> Z.

(* the pattern occurs AT k in the text under the fold the machine uses (lower-casing both sides when
   caseInsensitive): it starts at k (left-to-right) / ends at k (right-to-left) *)
Definition bmp_occurs (pattern : list Z) (ci rtl : bool) (text : list Z) (k : Z) : Prop :=
  forall j, 0 <= j < zlen pattern ->
    let q := if rtl then k - zlen pattern + j else k + j in
    0 <= q < zlen text /\
    bm_fold lower ci (nth (Z.to_nat q) text 0) = bm_fold lower ci (nth (Z.to_nat j) pattern 0).

Lemma bmp_occ_at_occurs : forall pattern ci rtl t text k,
  bm_pattern t = map (bm_fold lower ci) pattern -> bm_rtl t = rtl -> bm_ci t = ci ->
  (bmp_occ_at lower t text k <-> bmp_occurs pattern ci rtl text k).
Proof.
  intros pattern ci rtl t text k Hp Hr Hc. unfold bmp_occ_at, bmp_occurs. rewrite Hp, Hr.
  assert (Hl : zlen (map (bm_fold lower ci) pattern) = zlen pattern) by (unfold zlen; rewrite map_length; reflexivity).
  rewrite Hl.
  assert (Hpj : forall j, 0 <= j < zlen pattern ->
            bmp_p (map (bm_fold lower ci) pattern) j = bm_fold lower ci (nth (Z.to_nat j) pattern 0)).
  { intros j Hj. unfold bmp_p, bm_gz.
    rewrite nth_indep with (d' := bm_fold lower ci 0) by (rewrite map_length; unfold zlen in Hj; lia).
    apply map_nth. }
  split; intros H j Hj; specialize (H j Hj); cbv zeta in *; unfold bmp_tx, bm_gz in *; rewrite Hc in *;
    rewrite (Hpj j Hj) in *; exact H.
Qed.

Theorem bmp_scan_sound_stmt :
  forall (pattern : list Z) (ci rtl : bool) (t : bmtab) (text : list Z) (fuel : nat) (index beglimit endlimit r : Z),
    bm_new lower pattern ci rtl = Ok (Some t) ->
    beglimit <= index <= endlimit ->
    bm_scan lower t text fuel index beglimit endlimit = Ok r ->
    let fits k := if rtl then beglimit <= k - zlen pattern else k + zlen pattern <= endlimit in
    (r = -1 /\ forall k, sc_ord rtl index k -> fits k -> ~ bmp_occurs pattern ci rtl text k) \/
    (sc_ord rtl index r /\ fits r /\ bmp_occurs pattern ci rtl text r /\
     forall k, sc_ord rtl index k -> sc_before rtl k r -> ~ bmp_occurs pattern ci rtl text k).
Proof.
  intros pattern ci rtl t text fuel index beglimit endlimit r Hnew Hidx Hs fits.
  destruct (bmp_new_Some_ok lower pattern ci rtl t Hnew) as (Hp & Hr & Hc & Hok).
  assert (Hl : zlen (bm_pattern t) = zlen pattern) by (rewrite Hp; unfold zlen; rewrite map_length; reflexivity).
  assert (Hfit : forall k, bmp_fits t beglimit endlimit k <-> fits k) by (intros k; unfold bmp_fits, fits; rewrite Hr, Hl; reflexivity).
  pose proof (fun k => bmp_occ_at_occurs pattern ci rtl t text k Hp Hr Hc) as Hoc.
  destruct (bmp_scan_sound lower t text fuel index beglimit endlimit r Hok Hidx Hs) as [[-> Hall]|(H1 & H2 & H3 & H4)];
    rewrite Hr in *.
  - left. split; [reflexivity|]. intros k Hk Hf Ho. apply (Hall k Hk); [apply Hfit; exact Hf | apply Hoc; exact Ho].
  - right. split; [exact H1|]. split; [apply Hfit; exact H2|]. split; [apply Hoc; exact H3|].
    intros k Hk Hb Ho. apply (H4 k Hk Hb). apply Hoc. exact Ho.
Qed.

Theorem bmp_scan_total_stmt :
  forall (pattern : list Z) (ci rtl : bool) (t : bmtab) (text : list Z) (index beglimit endlimit : Z),
    bm_new lower pattern ci rtl = Ok (Some t) ->
    (forall x, In x text -> 0 <= bm_fold lower ci x) ->
    0 <= beglimit -> endlimit <= zlen text -> beglimit <= index <= endlimit ->
    exists r, bm_scan lower t text (S (length text)) index beglimit endlimit = Ok r.
Proof.
  intros pattern ci rtl t text index beglimit endlimit Hnew Hnn Hb He Hidx.
  destruct (bmp_new_Some_ok lower pattern ci rtl t Hnew) as (Hp & Hr & Hc & Hok).
  apply bmp_scan_total; try assumption.
  intros i Hi. unfold bmp_tx. rewrite Hc. apply Hnn. unfold bm_gz. apply nth_In. unfold zlen in Hi. lia.
Qed.

Theorem bmp_is_match_stmt :
  forall (pattern : list Z) (ci rtl : bool) (t : bmtab) (text : list Z) (index beglimit endlimit : Z),
    bm_new lower pattern ci rtl = Ok (Some t) ->
    0 <= beglimit -> endlimit <= zlen text ->
    exists b, bm_is_match lower t text index beglimit endlimit = Ok b /\
      (b = true <->
       (if rtl then index <= endlimit /\ beglimit <= index - zlen pattern
        else beglimit <= index /\ index + zlen pattern <= endlimit) /\
       bmp_occurs pattern ci rtl text index).
Proof.
  intros pattern ci rtl t text index beglimit endlimit Hnew Hb He.
  destruct (bmp_new_Some_ok lower pattern ci rtl t Hnew) as (Hp & Hr & Hc & Hok).
  assert (Hl : zlen (bm_pattern t) = zlen pattern) by (rewrite Hp; unfold zlen; rewrite map_length; reflexivity).
  destruct (bmp_is_match_spec lower t text index beglimit endlimit Hb He) as (b & Hbm & Hiff).
  exists b. split; [exact Hbm|]. rewrite Hiff. unfold bmp_in_window. rewrite Hr, Hl.
  rewrite (bmp_occ_at_occurs pattern ci rtl t text index Hp Hr Hc). reflexivity.
Qed.

(* all of findFirstCharDefault with the modelled machine: the two Boyer-Moore hypotheses of
   fd_default_H1 are discharged; what remains is the compile-time fact "every successful attempt
   starts / ends with the literal" *)
Theorem bmp_finder_default_with_bm :
  forall (R : Type) (text : list Z) (exec : Z -> option R * Z) (set_in : Z -> Z -> bool)
         (pattern : list Z) (ci rtl : bool) (t : bmtab)
         (anchors ts : Z) (o : option fdopts) (fc : option fdfc),
    let n := zlen text in
    let succeeds := fun x => fst (exec x) <> None in
    (abit anchors ANCH_BEGINNING = true -> forall x, sc_in_text n x -> succeeds x -> x = 0) ->
    (abit anchors ANCH_START = true -> forall x, sc_in_text n x -> succeeds x -> x = ts) ->
    (abit anchors ANCH_ENDZ = true -> forall x, sc_in_text n x -> succeeds x ->
       x = n \/ (x = n - 1 /\ nth (Z.to_nat x) text 0 = 10)) ->
    (abit anchors ANCH_END = true -> forall x, sc_in_text n x -> succeeds x -> x = n) ->
    bm_new lower pattern ci rtl = Ok (Some t) ->
    (forall x, In x text -> 0 <= bm_fold lower ci x) ->
    (forall x, sc_in_text n x -> succeeds x -> bmp_occurs pattern ci rtl text x) ->
    sc_H1_true R n rtl (fd_total (fd_find_first_char_default text set_in lower rtl anchors ts
                          (Some (bm_is_match_fn lower t text)) (Some (bm_scan_fn lower t text)) o fc)) exec /\
    sc_H1_false R n rtl (fd_total (fd_find_first_char_default text set_in lower rtl anchors ts
                           (Some (bm_is_match_fn lower t text)) (Some (bm_scan_fn lower t text)) o fc)) exec.
Proof.
  intros R text exec set_in pattern ci rtl t anchors ts o fc n succeeds F1 F2 F3 F4 Hnew Hnn Hfact.
  destruct (bmp_new_Some_ok lower pattern ci rtl t Hnew) as (Hp & Hr & Hc & Hok).
  pose proof (bmp_finder_default_H1 R text exec set_in lower anchors ts t o fc) as HH. cbv zeta in HH.
  rewrite Hr in HH. apply HH; try assumption.
  - intros i Hi. unfold bmp_tx. rewrite Hc. apply Hnn. unfold bm_gz. apply nth_In. unfold zlen in Hi. lia.
  - intros x Hx Hs. apply (bmp_occ_at_occurs pattern ci rtl t text x Hp Hr Hc). apply Hfact; assumption.
Qed.

End Statements.
