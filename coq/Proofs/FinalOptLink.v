(* C05, proofs part 3: what a raw parser node (Model/Parser.rnode) MEANS: its tree for the reference semantics
   (Model/Tree.node, Model/Spec.v).  [tr] reads a node exactly as the harness export is decoded (Tree.build:
   tr_build); sets become set ids through an arbitrary numbering [sid], which the environment must interpret as
   class membership (env_ok, in FinalOptLeaf.v).  [fo_wf]: the shape facts every parsed tree satisfies and the
   proofs use (arities, loop counts, set nodes carry a set, literals are not case-insensitive). *)
From Verif Require Import Base.Prelude Base.Wire Model.Tree Model.Spec Model.ParseLit Model.CharClass Model.Parser
  Model.FinalOpt Proofs.SpecBoundsProofs Proofs.CharClassRanges Proofs.CharClassProofs Proofs.CharClassElab.
From Coq Require Import ZifyBool.

Section Link.
Variable sid : cls -> Z.

Definition tr_set (st : option cls) : Z := match st with Some c => sid c | None => 0 end.

Fixpoint tr (x : rnode) : node :=
  match x with
  | RN t o ch m n str st kids =>
    let ks := map tr kids in
    let k0 := nth 0 ks NNothing in
    let k1 := nth 1 ks NNothing in
    match lk_of t with
    | Some (k, l) => NCharLoop k l o (match k with CSet => tr_set st | _ => ch end) m n
    | None =>
      if t =? 9 then NChar COne o ch else if t =? 10 then NChar CNotone o ch else if t =? 11 then NChar CSet o (tr_set st)
      else if t =? 12 then NMulti o str else if t =? 13 then NRef o m
      else if t =? 22 then NNothing else if t =? 23 then NEmpty else if t =? 46 then NBump
      else if t =? 25 then NConcat o ks else if t =? 24 then NAlternate o ks
      else if t =? 26 then NLoop false o m n k0 else if t =? 27 then NLoop true o m n k0
      else if t =? 28 then NCapture o m n k0 else if t =? 29 then NGroup k0
      else if t =? 30 then NPosLook o k0 else if t =? 31 then NNegLook o k0 else if t =? 32 then NAtomic k0
      else if t =? 33 then NBackRefCond o m k0 (match ks with [_; b] => Some b | _ => None end)
      else if t =? 34 then NExprCond o k0 k1 (match ks with [_; _; c] => Some c | _ => None end)
      else match anchor_of_code t with Some a => NAnchor a | None => NNothing end
    end
  end.

Lemma tr_unfold x :
  tr x =
  let t := n_t x in let o := n_o x in
  let ks := map tr (n_kids x) in
  let k0 := nth 0 ks NNothing in
  let k1 := nth 1 ks NNothing in
  match lk_of t with
  | Some (k, l) => NCharLoop k l o (match k with CSet => tr_set (n_set x) | _ => n_ch x end) (n_m x) (n_n x)
  | None =>
    if t =? 9 then NChar COne o (n_ch x) else if t =? 10 then NChar CNotone o (n_ch x) else if t =? 11 then NChar CSet o (tr_set (n_set x))
    else if t =? 12 then NMulti o (n_str x) else if t =? 13 then NRef o (n_m x)
    else if t =? 22 then NNothing else if t =? 23 then NEmpty else if t =? 46 then NBump
    else if t =? 25 then NConcat o ks else if t =? 24 then NAlternate o ks
    else if t =? 26 then NLoop false o (n_m x) (n_n x) k0 else if t =? 27 then NLoop true o (n_m x) (n_n x) k0
    else if t =? 28 then NCapture o (n_m x) (n_n x) k0 else if t =? 29 then NGroup k0
    else if t =? 30 then NPosLook o k0 else if t =? 31 then NNegLook o k0 else if t =? 32 then NAtomic k0
    else if t =? 33 then NBackRefCond o (n_m x) k0 (match ks with [_; b] => Some b | _ => None end)
    else if t =? 34 then NExprCond o k0 k1 (match ks with [_; _; c] => Some c | _ => None end)
    else match anchor_of_code t with Some a => NAnchor a | None => NNothing end
  end.
Proof. destruct x. reflexivity. Qed.

(* per type *)
Lemma tr_concat x : n_t x = T_Concatenate -> tr x = NConcat (n_o x) (map tr (n_kids x)).
Proof. intros H. rewrite tr_unfold. cbv zeta. rewrite H. reflexivity. Qed.
Lemma tr_alt x : n_t x = T_Alternate -> tr x = NAlternate (n_o x) (map tr (n_kids x)).
Proof. intros H. rewrite tr_unfold. cbv zeta. rewrite H. reflexivity. Qed.
Lemma tr_loop x k : n_t x = T_Loop -> n_kids x = [k] -> tr x = NLoop false (n_o x) (n_m x) (n_n x) (tr k).
Proof. intros H Hk. rewrite tr_unfold. cbv zeta. rewrite H, Hk. reflexivity. Qed.
Lemma tr_lazyloop x k : n_t x = T_Lazyloop -> n_kids x = [k] -> tr x = NLoop true (n_o x) (n_m x) (n_n x) (tr k).
Proof. intros H Hk. rewrite tr_unfold. cbv zeta. rewrite H, Hk. reflexivity. Qed.
Lemma tr_capture x k : n_t x = T_Capture -> n_kids x = [k] -> tr x = NCapture (n_o x) (n_m x) (n_n x) (tr k).
Proof. intros H Hk. rewrite tr_unfold. cbv zeta. rewrite H, Hk. reflexivity. Qed.
Lemma tr_poslook x k : n_t x = T_PosLook -> n_kids x = [k] -> tr x = NPosLook (n_o x) (tr k).
Proof. intros H Hk. rewrite tr_unfold. cbv zeta. rewrite H, Hk. reflexivity. Qed.
Lemma tr_neglook x k : n_t x = T_NegLook -> n_kids x = [k] -> tr x = NNegLook (n_o x) (tr k).
Proof. intros H Hk. rewrite tr_unfold. cbv zeta. rewrite H, Hk. reflexivity. Qed.
Lemma tr_atomic x k : n_t x = T_Atomic -> n_kids x = [k] -> tr x = NAtomic (tr k).
Proof. intros H Hk. rewrite tr_unfold. cbv zeta. rewrite H, Hk. reflexivity. Qed.
Lemma tr_backref_cond x a b : n_t x = T_BackRefCond -> n_kids x = [a; b] ->
  tr x = NBackRefCond (n_o x) (n_m x) (tr a) (Some (tr b)).
Proof. intros H Hk. rewrite tr_unfold. cbv zeta. rewrite H, Hk. reflexivity. Qed.
Lemma tr_expr_cond x a b c : n_t x = T_ExprCond -> n_kids x = [a; b; c] ->
  tr x = NExprCond (n_o x) (tr a) (tr b) (Some (tr c)).
Proof. intros H Hk. rewrite tr_unfold. cbv zeta. rewrite H, Hk. reflexivity. Qed.

Lemma tr_charloop x k l : lk_of (n_t x) = Some (k, l) ->
  tr x = NCharLoop k l (n_o x) (match k with CSet => tr_set (n_set x) | _ => n_ch x end) (n_m x) (n_n x).
Proof. intros H. rewrite tr_unfold. cbv zeta. rewrite H. reflexivity. Qed.

(* ---- the shape facts *)
Lemma sorted_fromb_ok prev rs : sorted_fromb prev rs = true -> sorted_from prev rs.
Proof.
  revert prev. induction rs as [|[a b] t IH]; intros prev H; cbn in *; [exact I|].
  apply andb_prop in H. destruct H as [H H3]. apply andb_prop in H. destruct H as [H1 H2].
  split; [lia|]. split; [lia|]. apply IH. exact H3.
Qed.
Lemma cls_canonicalb_ok c : cls_canonicalb c = true -> canonical c.
Proof.
  induction c as [rs cs ng an asc | rs cs s ng an asc IH] using cls_induction; cbn [cls_canonicalb canonical]; intros H.
  - rewrite andb_true_r in H. split; [|exact I]. destruct rs as [|[a b] t]; cbn in *; [exact I|].
    apply andb_prop in H. destruct H as [H1 H2]. split; [lia|]. apply sorted_fromb_ok. exact H2.
  - apply andb_prop in H. destruct H as [H H'']. split; [|apply IH; exact H''].
    destruct rs as [|[a b] t]; cbn in *; [exact I|].
    apply andb_prop in H. destruct H as [H1 H2]. split; [lia|]. apply sorted_fromb_ok. exact H2.
Qed.
Lemma cls_no_bitmap_ok c : cls_no_bitmap c = true -> no_bitmaps c.
Proof.
  induction c as [rs cs ng an asc | rs cs s ng an asc IH] using cls_induction; cbn [cls_no_bitmap no_bitmaps]; intros H.
  - destruct asc; [discriminate|]. split; [reflexivity|exact I].
  - destruct asc; [discriminate|]. split; [reflexivity|apply IH; exact H].
Qed.

Lemma fo_wf_unfold x :
  fo_wf x =
  (fo_arity_ok (n_t x) (length (n_kids x)) &&
   (if is_set_family (n_t x) then match n_set x with Some c => cls_okb c | None => false end else true) &&
   (match lk_of (n_t x) with Some _ => (0 <=? n_m x) && (n_m x <=? n_n x) && (n_m x <? INF) | None => true end) &&
   (if (n_t x =? 26) || (n_t x =? 27) then (0 <=? n_m x) && (n_m x <=? n_n x) && (n_m x <? INF) else true) &&
   (if n_t x =? 12 then negb (fo_is_nil (n_str x)) && negb (useI (n_o x)) else true) &&
   (if (n_t x =? 13) || (n_t x =? 28) then true else negb (useI (n_o x))) &&
   forallb fo_wf (n_kids x)).
Proof. destruct x. reflexivity. Qed.

Lemma fo_wf_kids x : fo_wf x = true -> forallb fo_wf (n_kids x) = true.
Proof. rewrite fo_wf_unfold. intros H. repeat (apply andb_prop in H; destruct H as [H ?]). assumption. Qed.
Lemma fo_wf_kid x k : fo_wf x = true -> In k (n_kids x) -> fo_wf k = true.
Proof. intros H Hk. apply fo_wf_kids in H. rewrite forallb_forall in H. apply H. exact Hk. Qed.
Lemma fo_wf_arity x : fo_wf x = true -> fo_arity_ok (n_t x) (length (n_kids x)) = true.
Proof. rewrite fo_wf_unfold. intros H. repeat (apply andb_prop in H; destruct H as [H ?]). assumption. Qed.

Lemma rnode_ind' (P : rnode -> Prop) :
  (forall t o ch m n str st kids, Forall P kids -> P (RN t o ch m n str st kids)) -> forall x, P x.
Proof.
  intros H. fix IH 1. intros [t o ch m n str st kids]. apply H.
  induction kids as [|k kids IHk]; constructor; [apply IH | exact IHk].
Qed.

(* single-character loops of a well-formed tree have a non-negative minimum: states stay inside the text *)
Lemma fo_wf_lmo : forall x, fo_wf x = true -> loops_min_ok (tr x).
Proof.
  induction x as [t o ch m n str st kids IHk] using rnode_ind'. intros Hwf.
  set (x := RN t o ch m n str st kids) in *.
  assert (Hk : Forall (fun k => loops_min_ok (tr k)) (n_kids x)).
  { pose proof (fo_wf_kids x Hwf) as Hks. cbn [n_kids x] in *. rewrite forallb_forall in Hks.
    rewrite Forall_forall in *. intros k Hin. apply IHk; [exact Hin | apply Hks; exact Hin]. }
  assert (Hall : forall l, Forall (fun k => loops_min_ok (tr k)) l -> sb_all_list sb_min_ok (map tr l)).
  { induction 1 as [|k l Hk0 _ IHl]; cbn; [exact I | split; [exact Hk0 | exact IHl]]. }
  assert (Hnth : forall i, loops_min_ok (nth i (map tr (n_kids x)) NNothing)).
  { intros i. destruct (nth_in_or_default i (map tr (n_kids x)) NNothing) as [Hin | ->]; [|cbn; tauto].
    apply in_map_iff in Hin. destruct Hin as [k [<- Hin]]. rewrite Forall_forall in Hk. apply Hk. exact Hin. }
  pose proof (Hall _ Hk) as Hl. pose proof (Hnth 0%nat) as H0. pose proof (Hnth 1%nat) as H1.
  assert (Hm : match lk_of (n_t x) with Some _ => 0 <= n_m x | None => True end).
  { rewrite fo_wf_unfold in Hwf. destruct (lk_of (n_t x)); [|exact I]. lia. }
  rewrite tr_unfold. cbv zeta.
  destruct (lk_of (n_t x)) as [[k l]|]; [cbn; split; [exact Hm|exact I]|].
  repeat match goal with |- context [if ?c then _ else _] => destruct c end;
    try (cbn; tauto); try (unfold loops_min_ok; cbn [sb_all sb_min_ok]; split; [exact I|]; try exact Hl; try exact H0).
  - (* BackRefCond *)
    split; [exact H0|]. destruct (map tr (n_kids x)) as [|a [|b [|c r]]] eqn:E; try exact I.
    exact (Hnth 1%nat).
  - (* ExprCond *)
    split; [exact H0|]. split; [exact H1|]. destruct (map tr (n_kids x)) as [|a [|b [|c [|d r]]]] eqn:E; try exact I.
    exact (Hnth 2%nat).
  - destruct (anchor_of_code (n_t x)); cbn; tauto.
Qed.

End Link.
