(* C04, part 2: soundness of the length analyses (ComputeMinLength / computeMaxLength) against the
   reference semantics, by induction on [Reach] (Proofs/AnalysisReach.v). *)
From Coq Require Import ZifyBool.
From Verif Require Import Base.Prelude Model.Tree Model.Spec Model.Analysis
     Proofs.SpecProofs Proofs.MaskProofs Proofs.AnalysisReach.

Ltac Zify.zify_post_hook ::= Z.div_mod_to_equations.

(* ------------------------------------------------------------------------------------------ *)
(* captures never have a negative length                                                       *)

Definition caps_nonneg (c : caps_t) : Prop := forall g i len, In (i, len) (cap_get g c) -> 0 <= len.

Lemma an_cap_get_set g' g l c : cap_get g' (cap_set g l c) = if g' =? g then l else cap_get g' c.
Proof.
  induction c as [|[g0 l0] c IH]; cbn [cap_set cap_get].
  - destruct (g' =? g); reflexivity.
  - destruct (g =? g0) eqn:E0; cbn [cap_get].
    + destruct (g' =? g) eqn:E1.
      * reflexivity.
      * assert (g' =? g0 = false) as -> by lia. reflexivity.
    + destruct (g' =? g0) eqn:E2.
      * assert (g' =? g = false) as -> by lia. reflexivity.
      * exact IH.
Qed.

Lemma an_caps_nonneg_nil : caps_nonneg [].
Proof. intros g i len H. destruct H. Qed.

Lemma an_caps_nonneg_push g iv c : caps_nonneg c -> 0 <= snd iv -> caps_nonneg (cap_push g iv c).
Proof.
  intros Hc Hiv g' i len H. unfold cap_push in H. rewrite an_cap_get_set in H.
  destruct (g' =? g) eqn:E.
  - destruct H as [H|H].
    + subst iv. exact Hiv.
    + assert (g' = g) by lia. subst g'. eapply Hc. exact H.
  - eapply Hc. exact H.
Qed.

Lemma an_caps_nonneg_pop g c : caps_nonneg c -> caps_nonneg (cap_pop g c).
Proof.
  intros Hc g' i len H. unfold cap_pop in H. rewrite an_cap_get_set in H.
  destruct (g' =? g) eqn:E.
  - assert (g' = g) by lia. subst g'. apply (Hc g i len).
    destruct (cap_get g c); [destruct H|right; exact H].
  - eapply Hc. exact H.
Qed.

Lemma an_span_nonneg a b : 0 <= snd (span a b).
Proof. unfold span. cbn [snd]. lia. Qed.

Lemma an_balance_span_nonneg a b u : 0 <= snd u -> 0 <= snd (balance_span a b u).
Proof.
  intros Hu. unfold balance_span, span.
  destruct (fst u + snd u <=? Z.min a b) eqn:E1; cbn [snd]; [lia|].
  destruct (Z.min a b + Z.abs (b - a) <=? fst u) eqn:E2; cbn [snd]; lia.
Qed.

(* ------------------------------------------------------------------------------------------ *)
(* what the leaves of Spec.sem produce                                                         *)

Section Leaves.
Variable e : env.

Lemma an_run_len_bounds k c o : forall maxn p, 0 <= run_len e k c o maxn p <= Z.of_nat maxn.
Proof.
  induction maxn as [|m IH]; intros p; cbn [run_len]; [lia|].
  destruct ((0 <? avail e o p) && char_test e k c (next_char e o p)); [|lia].
  specialize (IH (p + dir o)). lia.
Qed.

Lemma an_count_down_aux_in : forall n a j, In j (count_down_aux n a) -> a - Z.of_nat n < j <= a.
Proof.
  induction n as [|n IH]; intros a j H; cbn [count_down_aux] in H; [destruct H|].
  destruct H as [H|H]; [lia|]. apply IH in H. lia.
Qed.

Lemma an_count_up_aux_in : forall n a j, In j (count_up_aux n a) -> a <= j < a + Z.of_nat n.
Proof.
  induction n as [|n IH]; intros a j H; cbn [count_up_aux] in H; [destruct H|].
  destruct H as [H|H]; [lia|]. apply IH in H. lia.
Qed.

Lemma an_count_down_in a b j : In j (count_down a b) -> b <= j <= a.
Proof.
  unfold count_down. destruct (a <? b) eqn:E; [intros []|]. intros H.
  apply an_count_down_aux_in in H. lia.
Qed.

Lemma an_count_up_in a b j : In j (count_up a b) -> a <= j <= b.
Proof.
  unfold count_up. destruct (b <? a) eqn:E; [intros []|]. intros H.
  apply an_count_up_aux_in in H. lia.
Qed.

Lemma an_charloop_in k l o c m n s y :
  In y (sem_charloop e k l o c m n s) ->
  exists j, y = with_pos s (pos s + dir o * j) /\ m <= j /\
            j <= Z.max 0 (avail e o (pos s)) /\ (n <> INF -> j <= Z.max 0 n).
Proof.
  unfold sem_charloop.
  set (cap := if n =? INF then avail e o (pos s) else Z.min n (avail e o (pos s))).
  set (r := run_len e k c o (Z.to_nat cap) (pos s)).
  assert (Hr : 0 <= r <= Z.of_nat (Z.to_nat cap)) by apply an_run_len_bounds.
  assert (Hcap1 : Z.of_nat (Z.to_nat cap) <= Z.max 0 (avail e o (pos s))).
  { subst cap. destruct (n =? INF); lia. }
  assert (Hcap2 : n <> INF -> Z.of_nat (Z.to_nat cap) <= Z.max 0 n).
  { intros Hn. subst cap. destruct (n =? INF) eqn:E; lia. }
  destruct (r <? m) eqn:Erm; [intros []|]. intros H.
  assert (Hj : exists j, y = with_pos s (pos s + dir o * j) /\ m <= j <= r).
  { destruct l.
    - apply in_map_iff in H. destruct H as [j [<- Hj]]. exists j. split; [reflexivity|].
      apply an_count_down_in in Hj. lia.
    - apply in_map_iff in H. destruct H as [j [<- Hj]]. exists j. split; [reflexivity|].
      apply an_count_up_in in Hj. lia.
    - destruct H as [<-|[]]. exists r. split; [reflexivity|]. lia. }
  destruct Hj as [j [-> Hj]]. exists j. split; [reflexivity|].
  split; [lia|]. split; [lia|]. intros Hn. specialize (Hcap2 Hn). lia.
Qed.

Lemma an_multi_in o str s y :
  In y (sem_multi e o str s) ->
  y = with_pos s (pos s + dir o * zlen str) /\ zlen str <= avail e o (pos s) /\
  str_match_at e (is_ci o) str (if is_rtl o then pos s - zlen str else pos s) = true.
Proof.
  unfold sem_multi. destruct (avail e o (pos s) <? zlen str) eqn:E; [intros []|].
  destruct (str_match_at e (is_ci o) str (if is_rtl o then pos s - zlen str else pos s)) eqn:E2; [|intros []].
  intros [<-|[]]. split; [reflexivity|]. split; [lia|reflexivity].
Qed.

Lemma an_ref_in o g s y :
  In y (sem_ref e o g s) ->
  y = s \/ exists i len rest, cap_get g (caps s) = (i, len) :: rest /\ len <= avail e o (pos s) /\
                              y = with_pos s (pos s + dir o * len).
Proof.
  unfold sem_ref. destruct (cap_get g (caps s)) as [|[i len] rest] eqn:Eg.
  - destruct (ecma e); [intros [<-|[]]; left; reflexivity|intros []].
  - destruct (avail e o (pos s) <? len) eqn:E; [intros []|].
    destruct (ref_match_at e (is_ci o) (Z.to_nat len) i (if is_rtl o then pos s - len else pos s)); [|intros []].
    intros [<-|[]]. right. exists i, len, rest. split; [reflexivity|]. split; [lia|reflexivity].
Qed.

End Leaves.

(* ------------------------------------------------------------------------------------------ *)
(* Reach keeps capture lengths non-negative (every tree, every direction)                      *)

Section CapsInv.
Variable e : env.

Lemma an_reach_caps_all :
  (forall t s y, Reach e t s y -> caps_nonneg (caps s) -> caps_nonneg (caps y)) /\
  (forall l s y, ReachSeq e l s y -> caps_nonneg (caps s) -> caps_nonneg (caps y)) /\
  (forall r limit s count y, ReachIter e r limit s count y -> caps_nonneg (caps s) -> caps_nonneg (caps y)).
Proof.
  apply Reach_mutind; intros; try assumption; auto.
  - (* charloop *) apply an_charloop_in in H. destruct H as [j [-> _]]. assumption.
  - (* multi *) apply an_multi_in in H. destruct H as [-> _]. assumption.
  - (* ref *) apply an_ref_in in H. destruct H as [->|[i [len [rest [_ [_ ->]]]]]]; assumption.
  - (* capture *) cbn [caps]. apply an_caps_nonneg_push; [auto|apply an_span_nonneg].
  - (* balance *)
    cbn [caps]. specialize (H1 H3).
    destruct (g =? -1).
    + apply an_caps_nonneg_pop. exact H1.
    + apply an_caps_nonneg_push; [apply an_caps_nonneg_pop; exact H1|].
      apply an_balance_span_nonneg. destruct top as [i len]. cbn [snd].
      apply (H1 u i len). rewrite H2. left; reflexivity.
Qed.

Lemma an_reach_caps t s y : Reach e t s y -> caps_nonneg (caps s) -> caps_nonneg (caps y).
Proof. apply an_reach_caps_all. Qed.

End CapsInv.

(* ------------------------------------------------------------------------------------------ *)
(* the saturating arithmetic of tree.go:1414-1470                                              *)

Fixpoint an_sum (l : list Z) : Z := match l with [] => 0 | x :: l' => x + an_sum l' end.

Lemma an_add_min_bounds x y : 0 <= x -> 0 <= y -> 0 <= add_min_length x y <= x + y.
Proof.
  intros Hx Hy. unfold add_min_length, MAX_MIN_LENGTH.
  destruct ((2147483646 <=? x) || (2147483646 <=? y) || (2147483646 - y <? x)) eqn:E; lia.
Qed.

Lemma an_fold_add_min ms : Forall (fun c => 0 <= c) ms ->
  forall a, 0 <= a -> 0 <= fold_left add_min_length ms a <= a + an_sum ms.
Proof.
  induction 1 as [|c ms Hc Hms IH]; intros a Ha; cbn [fold_left an_sum]; [lia|].
  pose proof (an_add_min_bounds a c Ha Hc) as Hb.
  specialize (IH (add_min_length a c) (proj1 Hb)). lia.
Qed.

Lemma an_mul_min_bounds m c : 0 <= m -> 0 <= c -> 0 <= multiply_min_length m c <= m * c.
Proof.
  intros Hm Hc. unfold multiply_min_length, MAX_MIN_LENGTH.
  destruct ((m =? 0) || (c =? 0)) eqn:E0; [nia|].
  assert (Hq : Z.quot 2147483646 c = 2147483646 / c) by (apply Z.quot_div_nonneg; lia).
  rewrite Hq.
  destruct ((2147483646 <=? m) || (2147483646 <=? c) || (2147483646 / c <? m)) eqn:E; [|nia].
  split; [lia|].
  assert (Hc1 : 1 <= c) by lia. assert (Hm1 : 1 <= m) by lia.
  destruct (2147483646 <=? m) eqn:E1; [nia|].
  destruct (2147483646 <=? c) eqn:E2; [nia|].
  assert (Hlt : 2147483646 / c < m) by lia.
  pose proof (Z.div_mod 2147483646 c ltac:(lia)) as Hdm.
  pose proof (Z.mod_pos_bound 2147483646 c ltac:(lia)) as Hmod.
  nia.
Qed.

Lemma an_add_max_ok x y : 0 <= add_max_length x y -> 0 <= x /\ 0 <= y /\ add_max_length x y = x + y.
Proof.
  unfold add_max_length, INF.
  destruct ((x <? 0) || (y <? 0) || (2147483647 <=? x) || (2147483647 <=? y) || (2147483647 - 1 - y <? x)) eqn:E; lia.
Qed.

Lemma an_mul_max_ok n c : 0 <= multiply_max_length n c -> 0 <= n /\ 0 <= c /\ multiply_max_length n c = n * c.
Proof.
  unfold multiply_max_length, INF.
  destruct ((n <? 0) || (c <? 0)) eqn:E0; [lia|].
  destruct ((n =? 0) || (c =? 0)) eqn:E1; [nia|].
  destruct ((2147483647 <=? n) || (2147483647 <=? c) || (Z.quot (2147483647 - 1) c <? n)) eqn:E2; lia.
Qed.

Lemma an_concat_max_neg ms : forall a, a < 0 -> fold_left concat_max_step ms a < 0.
Proof.
  induction ms as [|c ms IH]; intros a Ha; cbn [fold_left]; [exact Ha|].
  apply IH. unfold concat_max_step. destruct ((a <? 0) || (c <? 0)) eqn:E; lia.
Qed.

Lemma an_concat_max_ok ms : forall a, 0 <= a -> 0 <= fold_left concat_max_step ms a ->
  Forall (fun c => 0 <= c) ms /\ fold_left concat_max_step ms a = a + an_sum ms.
Proof.
  induction ms as [|c ms IH]; intros a Ha H; cbn [fold_left an_sum] in *.
  - split; [constructor|lia].
  - destruct (Z_lt_ge_dec (concat_max_step a c) 0) as [Hneg|Hpos].
    + pose proof (an_concat_max_neg ms _ Hneg). lia.
    + assert (Hs : 0 <= c /\ concat_max_step a c = a + c).
      { revert Hpos. unfold concat_max_step. destruct ((a <? 0) || (c <? 0)) eqn:E; [lia|].
        intros Hp. pose proof (an_add_max_ok a c ltac:(lia)). lia. }
      destruct Hs as [Hc Hs]. destruct (IH (concat_max_step a c) ltac:(lia) H) as [Hall Heq].
      split; [constructor; assumption|]. lia.
Qed.

Lemma an_alt_min_decr cs : forall a, fold_left alt_min_step cs a <= a.
Proof.
  induction cs as [|c cs IH]; intros a; cbn [fold_left]; [lia|].
  specialize (IH (alt_min_step a c)). unfold alt_min_step in *.
  destruct (0 <? a); [destruct (c <? a) eqn:E|]; lia.
Qed.

Lemma an_alt_min_fold cs : forall c0 c, In c (c0 :: cs) -> fold_left alt_min_step cs c0 <= Z.max 0 c.
Proof.
  induction cs as [|c1 cs IH]; intros c0 c Hin.
  - destruct Hin as [<-|[]]. cbn [fold_left]. lia.
  - cbn [fold_left]. destruct Hin as [<-|[<-|Hin]].
    + pose proof (an_alt_min_decr cs (alt_min_step c0 c1)). unfold alt_min_step in *.
      destruct (0 <? c0); [destruct (c1 <? c0) eqn:E|]; lia.
    + pose proof (an_alt_min_decr cs (alt_min_step c0 c1)). unfold alt_min_step in *.
      destruct (0 <? c0) eqn:E0; [destruct (c1 <? c0) eqn:E|]; lia.
    + apply IH. right; exact Hin.
Qed.

Lemma an_alt_min_nonneg cs : forall c0, 0 <= c0 -> Forall (fun c => 0 <= c) cs -> 0 <= fold_left alt_min_step cs c0.
Proof.
  induction cs as [|c cs IH]; intros c0 H0 Hall; cbn [fold_left]; [exact H0|].
  inversion Hall; subst. apply IH; [|assumption].
  unfold alt_min_step. destruct (0 <? c0); [destruct (c <? c0)|]; lia.
Qed.

Lemma an_alt_max_neg cs : forall a, a < 0 -> fold_left alt_max_step cs a < 0.
Proof.
  induction cs as [|c cs IH]; intros a Ha; cbn [fold_left]; [exact Ha|].
  apply IH. unfold alt_max_step. destruct ((a <? 0) || (c <? 0)) eqn:E; lia.
Qed.

Lemma an_alt_max_fold cs : forall a, 0 <= fold_left alt_max_step cs a ->
  0 <= a <= fold_left alt_max_step cs a /\ forall c, In c cs -> 0 <= c <= fold_left alt_max_step cs a.
Proof.
  induction cs as [|c1 cs IH]; intros a H; cbn [fold_left] in *.
  - split; [lia|]. intros c [].
  - destruct (Z_lt_ge_dec (alt_max_step a c1) 0) as [Hneg|Hpos].
    + pose proof (an_alt_max_neg cs _ Hneg). lia.
    + destruct (IH _ H) as [Ha Hcs].
      assert (Hs : 0 <= a /\ 0 <= c1 /\ alt_max_step a c1 = Z.max a c1).
      { revert Hpos. unfold alt_max_step. destruct ((a <? 0) || (c1 <? 0)) eqn:E; lia. }
      split; [lia|]. intros c [<-|Hin]; [lia|]. apply Hcs. exact Hin.
Qed.

(* ------------------------------------------------------------------------------------------ *)
(* min_len is never negative on a well-shaped tree                                             *)

Lemma an_forall_map_nonneg (d : bool) (f : node -> Z) l :
  Forall (fun x => shape_ok d x = true -> 0 <= f x) l -> forallb (shape_ok d) l = true ->
  Forall (fun c => 0 <= c) (map f l).
Proof.
  induction 1 as [|x l Hx Hl IH]; intros Hs; cbn [map]; [constructor|].
  cbn [forallb] in Hs. apply andb_true_iff in Hs. destruct Hs as [Hs1 Hs2].
  constructor; [apply Hx; exact Hs1|apply IH; exact Hs2].
Qed.

Lemma an_alt_forallb (d : bool) l : shape_ok d (NAlternate 0 l) = true -> forallb (shape_ok d) l = true.
Proof. cbn [shape_ok]. destruct l; [discriminate|auto]. Qed.

Lemma an_min_len_nonneg (d : bool) : forall t, shape_ok d t = true -> 0 <= min_len t.
Proof.
  induction t using node_ind'; cbn [min_len]; intros Hs; try lia; try (apply IHt; exact Hs).
  - (* NCharLoop *) cbn [shape_ok] in Hs. lia.
  - (* NMulti *) unfold zlen. lia.
  - (* NConcat *)
    cbn [shape_ok] in Hs. pose proof (an_forall_map_nonneg d min_len l H Hs) as Hall.
    apply (an_fold_add_min _ Hall 0). lia.
  - (* NAlternate *)
    pose proof (an_forall_map_nonneg d min_len l H (an_alt_forallb d l Hs)) as Hall.
    destruct (map min_len l) as [|c0 cs]; [lia|]. inversion Hall; subst.
    apply an_alt_min_nonneg; assumption.
  - (* NLoop *)
    cbn [shape_ok] in Hs. apply andb_true_iff in Hs. destruct Hs as [Hmn Hr].
    apply an_mul_min_bounds; [lia|]. apply IHt. exact Hr.
  - (* NBackRefCond *)
    cbn [shape_ok] in Hs. destruct no as [n|]; [|lia]. cbn [opt_all] in H.
    apply andb_true_iff in Hs. destruct Hs as [Hy Hn]. specialize (IHt Hy). specialize (H Hn).
    destruct (min_len t <? min_len n); lia.
  - (* NExprCond *)
    cbn [shape_ok] in Hs. destruct no as [n|]; [|lia]. cbn [opt_all] in H.
    apply andb_true_iff in Hs. destruct Hs as [Hy Hn]. specialize (IHt2 Hy). specialize (H Hn).
    destruct (min_len t2 <? min_len n); lia.
Qed.

(* ------------------------------------------------------------------------------------------ *)
(* the master lemma: every result of a well-shaped node lies min_len .. max_len characters     *)
(* further in the node's direction, and stays inside the text                                  *)

Section Shape.
Variable e : env.

Definition inb (s : st) : Prop := 0 <= pos s <= tlen e.
(* characters consumed in direction d (true = right-to-left) between states s and y *)
Definition disp (d : bool) (s y : st) : Z := if d then pos s - pos y else pos y - pos s.

Lemma an_disp_trans d s s1 y : disp d s y = disp d s s1 + disp d s1 y.
Proof. unfold disp. destruct d; lia. Qed.

Lemma an_disp_refl d s : disp d s s = 0.
Proof. unfold disp. destruct d; lia. Qed.

Definition PT (d : bool) (t : node) (s y : st) : Prop :=
  shape_ok d t = true -> inb s -> caps_nonneg (caps s) ->
  inb y /\ 0 <= disp d s y /\ min_len t <= disp d s y /\ (0 <= max_len t -> disp d s y <= max_len t).

Definition PS (d : bool) (l : list node) (s y : st) : Prop :=
  forallb (shape_ok d) l = true -> inb s -> caps_nonneg (caps s) ->
  inb y /\ 0 <= disp d s y /\ an_sum (map min_len l) <= disp d s y /\
  (Forall (fun c => 0 <= c) (map max_len l) -> disp d s y <= an_sum (map max_len l)).

Definition PI (d : bool) (r : node) (limit : Z) (s : st) (count : Z) (y : st) : Prop :=
  shape_ok d r = true -> 0 <= limit -> inb s -> caps_nonneg (caps s) ->
  inb y /\ 0 <= disp d s y /\ (count < 0 -> (- count) * min_len r <= disp d s y) /\
  (0 <= max_len r -> count <= limit -> disp d s y <= (limit - count) * max_len r).

Ltac an_dir Hs :=
  apply eqb_prop in Hs; unfold inb, disp, avail, dir in *; rewrite ?Hs in *.

Lemma an_shape_all (d : bool) :
  (forall t s y, Reach e t s y -> PT d t s y) /\
  (forall l s y, ReachSeq e l s y -> PS d l s y) /\
  (forall r limit s count y, ReachIter e r limit s count y -> PI d r limit s count y).
Proof.
  apply Reach_mutind.
  - (* R_char *)
    intros k o c s Hc Hs Hb Hcn. cbn [shape_ok min_len max_len] in *.
    apply andb_true_iff in Hc. destruct Hc as [Hav _].
    an_dir Hs. cbn [pos with_pos]. destruct d; lia.
  - (* R_charloop *)
    intros k l o c m n s y Hin Hs Hb Hcn. cbn [shape_ok min_len max_len] in *.
    apply an_charloop_in in Hin. destruct Hin as [j [-> [Hmj [Hja Hjn]]]].
    apply andb_true_iff in Hs. destruct Hs as [Hs Hmn]. apply andb_true_iff in Hs. destruct Hs as [Hs Hm0].
    an_dir Hs. cbn [pos with_pos].
    destruct (n =? INF) eqn:En.
    + destruct d; lia.
    + assert (Hn : n <> INF) by lia. specialize (Hjn Hn). destruct d; lia.
  - (* R_multi *)
    intros o str s y Hin Hs Hb Hcn. cbn [shape_ok min_len max_len] in *.
    apply an_multi_in in Hin. destruct Hin as [-> [Hav _]].
    assert (Hz : 0 <= zlen str) by (unfold zlen; lia).
    an_dir Hs. cbn [pos with_pos]. destruct d; lia.
  - (* R_ref *)
    intros o g s y Hin Hs Hb Hcn. cbn [shape_ok min_len max_len] in *.
    apply an_ref_in in Hin. destruct Hin as [->|[i [len [rest [Hg [Hav ->]]]]]].
    + rewrite an_disp_refl. split; [exact Hb|]. lia.
    + assert (Hl : 0 <= len) by (apply (Hcn g i len); rewrite Hg; left; reflexivity).
      an_dir Hs. cbn [pos with_pos]. destruct d; lia.
  - (* R_anchor *)
    intros a s _ Hs Hb Hcn. cbn [min_len max_len]. rewrite an_disp_refl. split; [exact Hb|]. lia.
  - (* R_empty *)
    intros s Hs Hb Hcn. cbn [min_len max_len]. rewrite an_disp_refl. split; [exact Hb|]. lia.
  - (* R_bump *)
    intros s Hs Hb Hcn. cbn [min_len max_len]. rewrite an_disp_refl. split; [exact Hb|]. lia.
  - (* R_concat *)
    intros o l s y _ IH Hs Hb Hcn. cbn [shape_ok min_len max_len] in *.
    destruct (IH Hs Hb Hcn) as [Hy [H0 [Hmin Hmax]]].
    split; [exact Hy|]. split; [exact H0|].
    assert (Hall : Forall (fun c => 0 <= c) (map min_len l)).
    { apply (an_forall_map_nonneg d); [|exact Hs]. apply Forall_forall. intros x _. apply an_min_len_nonneg. }
    pose proof (an_fold_add_min _ Hall 0 ltac:(lia)) as Hf.
    split; [lia|]. intros Hm.
    destruct (an_concat_max_ok _ 0 ltac:(lia) Hm) as [Hallm Heq]. specialize (Hmax Hallm). lia.
  - (* R_alt *)
    intros o l x s y Hin _ IH Hs Hb Hcn.
    pose proof (an_alt_forallb d l Hs) as Hfa.
    assert (Hx : shape_ok d x = true) by (rewrite forallb_forall in Hfa; apply Hfa; exact Hin).
    destruct (IH Hx Hb Hcn) as [Hy [H0 [Hmin Hmax]]].
    split; [exact Hy|]. split; [exact H0|]. cbn [min_len max_len].
    split.
    + assert (Hi : In (min_len x) (map min_len l)) by (apply in_map; exact Hin).
      destruct (map min_len l) as [|c0 cs]; [destruct Hi|].
      pose proof (an_alt_min_fold cs c0 _ Hi). lia.
    + assert (Hi : In (max_len x) (map max_len l)) by (apply in_map; exact Hin).
      destruct (map max_len l) as [|c0 cs]; [destruct Hi|]. intros Hm.
      destruct (an_alt_max_fold cs _ Hm) as [Ha Hcs].
      destruct Hi as [Hi|Hi].
      * destruct (c0 <? 0) eqn:Ec0; [lia|]. rewrite <- Hi in *. lia.
      * specialize (Hcs _ Hi). lia.
  - (* R_loop0 *)
    intros lazy o m n r s y Hm0 _ IH Hs Hb Hcn. subst m. cbn [shape_ok min_len max_len] in *.
    apply andb_true_iff in Hs. destruct Hs as [Hmn Hr].
    assert (Hlim : 0 <= loop_limit 0 n) by (unfold loop_limit, INF; destruct (n =? 2147483647); lia).
    destruct (IH Hr Hlim Hb Hcn) as [Hy [H0 [_ Hmax]]].
    split; [exact Hy|]. split; [exact H0|]. split.
    { unfold multiply_min_length. cbn. lia. }
    destruct (n =? INF) eqn:En; [lia|].
    destruct (0 <=? max_len r) eqn:Ec; [|lia]. intros Hm.
    destruct (an_mul_max_ok _ _ Hm) as [Hn0 [Hc0 Heq]].
    unfold loop_limit in Hmax. rewrite En in Hmax. specialize (Hmax ltac:(lia) ltac:(lia)). lia.
  - (* R_loop1 *)
    intros lazy o m n r s s1 y Hm0 Hr1 IH1 _ IH2 Hs Hb Hcn. cbn [shape_ok min_len max_len] in *.
    apply andb_true_iff in Hs. destruct Hs as [Hmn Hr].
    assert (Hlim : 0 <= loop_limit m n) by (unfold loop_limit, INF; destruct (n =? 2147483647); lia).
    destruct (IH1 Hr Hb Hcn) as [Hy1 [H01 [Hmin1 Hmax1]]].
    pose proof (an_reach_caps e _ _ _ Hr1 Hcn) as Hcn1.
    destruct (IH2 Hr Hlim Hy1 Hcn1) as [Hy [H0 [Hmin2 Hmax2]]].
    rewrite (an_disp_trans d s s1 y).
    pose proof (an_min_len_nonneg d r Hr) as Hc0.
    split; [exact Hy|]. split; [lia|]. split.
    { pose proof (an_mul_min_bounds m (min_len r) ltac:(lia) Hc0) as Hb2.
      destruct (Z.eq_dec m 1) as [->|Hm1]; [lia|].
      specialize (Hmin2 ltac:(lia)). nia. }
    destruct (n =? INF) eqn:En; [lia|].
    destruct (0 <=? max_len r) eqn:Ec; [|lia]. intros Hm.
    destruct (an_mul_max_ok _ _ Hm) as [Hn0 [Hcm Heq]].
    unfold loop_limit in Hmax2. rewrite En in Hmax2.
    specialize (Hmax1 ltac:(lia)). specialize (Hmax2 ltac:(lia) ltac:(lia)). nia.
  - (* R_capture *)
    intros o g r s s1 _ IH Hs Hb Hcn. cbn [shape_ok min_len max_len] in *.
    destruct (IH Hs Hb Hcn) as [Hy [H0 [Hmin Hmax]]].
    unfold inb, disp in *. cbn [pos]. auto.
  - (* R_balance *)
    intros o g u r s s1 top rest _ _ IH _ Hs Hb Hcn. cbn [shape_ok min_len max_len] in *.
    destruct (IH Hs Hb Hcn) as [Hy [H0 [Hmin Hmax]]].
    unfold inb, disp in *. cbn [pos]. auto.
  - (* R_group *)
    intros r s y _ IH Hs Hb Hcn. cbn [shape_ok min_len max_len] in *.
    destruct (IH Hs Hb Hcn) as [Hy [H0 [Hmin Hmax]]].
    split; [exact Hy|]. split; [exact H0|]. split; [exact Hmin|]. lia.
  - (* R_poslook *)
    intros o r s s1 _ _ Hs Hb Hcn. cbn [min_len max_len].
    unfold inb, disp in *. cbn [pos with_pos]. destruct d; lia.
  - (* R_neglook *)
    intros o r s Hs Hb Hcn. cbn [min_len max_len]. rewrite an_disp_refl. split; [exact Hb|]. lia.
  - (* R_atomic *)
    intros r s y _ IH Hs Hb Hcn. cbn [shape_ok min_len max_len] in *. apply IH; assumption.
  - (* R_brc_yes *)
    intros o g yes no s y _ _ IH Hs Hb Hcn. cbn [shape_ok min_len max_len] in *.
    apply andb_true_iff in Hs. destruct Hs as [Hyes Hno].
    destruct no as [n|]; [|discriminate Hno].
    destruct (IH Hyes Hb Hcn) as [Hy [H0 [Hmin Hmax]]].
    split; [exact Hy|]. split; [exact H0|]. split.
    + destruct (min_len yes <? min_len n) eqn:E; lia.
    + destruct (max_len yes <? 0) eqn:E1; [lia|]. destruct (max_len n <? 0) eqn:E2; lia.
  - (* R_brc_no *)
    intros o g yes n s y _ _ IH Hs Hb Hcn. cbn [shape_ok min_len max_len] in *.
    apply andb_true_iff in Hs. destruct Hs as [Hyes Hno].
    destruct (IH Hno Hb Hcn) as [Hy [H0 [Hmin Hmax]]].
    split; [exact Hy|]. split; [exact H0|]. split.
    + destruct (min_len yes <? min_len n) eqn:E; lia.
    + destruct (max_len yes <? 0) eqn:E1; [lia|]. destruct (max_len n <? 0) eqn:E2; lia.
  - (* R_brc_none *)
    intros o g yes s _ Hs Hb Hcn. cbn [shape_ok] in Hs.
    apply andb_true_iff in Hs. destruct Hs as [_ Hno]. discriminate Hno.
  - (* R_ec_yes *)
    intros o c yes no s s1 y Hrc _ _ IH Hs Hb Hcn. cbn [shape_ok min_len max_len] in *.
    apply andb_true_iff in Hs. destruct Hs as [Hyes Hno].
    destruct no as [n|]; [|discriminate Hno].
    pose proof (an_reach_caps e _ _ _ Hrc Hcn) as Hcn1.
    assert (Hb1 : inb (with_pos s1 (pos s))) by exact Hb.
    destruct (IH Hyes Hb1 Hcn1) as [Hy [H0 [Hmin Hmax]]].
    assert (Hd : disp d (with_pos s1 (pos s)) y = disp d s y) by reflexivity.
    rewrite Hd in *.
    split; [exact Hy|]. split; [exact H0|]. split.
    + destruct (min_len yes <? min_len n) eqn:E; lia.
    + destruct (max_len yes <? 0) eqn:E1; [lia|]. destruct (max_len n <? 0) eqn:E2; lia.
  - (* R_ec_no *)
    intros o c yes n s y _ IH Hs Hb Hcn. cbn [shape_ok min_len max_len] in *.
    apply andb_true_iff in Hs. destruct Hs as [Hyes Hno].
    destruct (IH Hno Hb Hcn) as [Hy [H0 [Hmin Hmax]]].
    split; [exact Hy|]. split; [exact H0|]. split.
    + destruct (min_len yes <? min_len n) eqn:E; lia.
    + destruct (max_len yes <? 0) eqn:E1; [lia|]. destruct (max_len n <? 0) eqn:E2; lia.
  - (* R_ec_none *)
    intros o c yes s Hs Hb Hcn. cbn [shape_ok] in Hs.
    apply andb_true_iff in Hs. destruct Hs as [_ Hno]. discriminate Hno.
  - (* RS_nil *)
    intros s _ Hb Hcn. cbn [map an_sum]. rewrite an_disp_refl. split; [exact Hb|]. lia.
  - (* RS_cons *)
    intros x l s s1 y Hr1 IH1 _ IH2 Hs Hb Hcn. cbn [forallb] in Hs.
    apply andb_true_iff in Hs. destruct Hs as [Hx Hl].
    destruct (IH1 Hx Hb Hcn) as [Hy1 [H01 [Hmin1 Hmax1]]].
    pose proof (an_reach_caps e _ _ _ Hr1 Hcn) as Hcn1.
    destruct (IH2 Hl Hy1 Hcn1) as [Hy [H0 [Hmin2 Hmax2]]].
    rewrite (an_disp_trans d s s1 y). cbn [map an_sum].
    split; [exact Hy|]. split; [lia|]. split; [lia|].
    intros Hall. inversion Hall; subst. specialize (Hmax1 ltac:(assumption)). specialize (Hmax2 ltac:(assumption)). lia.
  - (* RI_stop *)
    intros r limit s count Hc Hr Hlim Hb Hcn. rewrite an_disp_refl.
    split; [exact Hb|]. split; [lia|]. split; [lia|]. intros Hm Hcl. nia.
  - (* RI_more *)
    intros r limit s count s1 y Hc Hr1 IH1 _ IH2 Hr Hlim Hb Hcn.
    destruct (IH1 Hr Hb Hcn) as [Hy1 [H01 [Hmin1 Hmax1]]].
    pose proof (an_reach_caps e _ _ _ Hr1 Hcn) as Hcn1.
    destruct (IH2 Hr Hlim Hy1 Hcn1) as [Hy [H0 [Hmin2 Hmax2]]].
    rewrite (an_disp_trans d s s1 y).
    split; [exact Hy|]. split; [lia|]. split.
    + intros Hneg. destruct (Z.eq_dec count (-1)) as [->|Hne]; [lia|].
      specialize (Hmin2 ltac:(lia)). nia.
    + intros Hm Hcl. specialize (Hmax1 Hm). specialize (Hmax2 Hm ltac:(lia)). nia.
Qed.

End Shape.

(* ------------------------------------------------------------------------------------------ *)
(* length facts, stated on Spec.sem and Spec.attempt                                           *)

Section LengthSound.
Variable e : env.

Theorem an_len_sound (d : bool) fuel t s l y :
  shape_ok d t = true -> 0 <= pos s <= tlen e -> caps_nonneg (caps s) ->
  sem e fuel t s = Ok l -> In y l ->
  0 <= pos y <= tlen e /\ min_len t <= disp d s y /\ (0 <= max_len t -> disp d s y <= max_len t).
Proof.
  intros Hs Hb Hcn Hsem Hy.
  pose proof (sem_reach e _ _ _ _ _ Hsem Hy) as Hr.
  destruct (proj1 (an_shape_all e d) _ _ _ Hr Hs Hb Hcn) as [Hyb [_ [Hmin Hmax]]].
  split; [exact Hyb|]. split; assumption.
Qed.

Theorem an_attempt_len_sound (d : bool) fuel root p s' :
  shape_ok d root = true -> 0 <= p <= tlen e ->
  attempt e fuel root p = Ok (Some s') ->
  0 <= pos s' <= tlen e /\
  min_len root <= (if d then p - pos s' else pos s' - p) /\
  (0 <= max_len root -> (if d then p - pos s' else pos s' - p) <= max_len root).
Proof.
  intros Hs Hb Ha. pose proof (attempt_reach e _ _ _ _ Ha) as Hr.
  destruct (proj1 (an_shape_all e d) _ _ _ Hr Hs Hb an_caps_nonneg_nil) as [Hyb [_ [Hmin Hmax]]].
  split; [exact Hyb|]. split; assumption.
Qed.

End LengthSound.

(* ------------------------------------------------------------------------------------------ *)
(* leading and trailing anchors                                                                *)

Lemma an_anchor_eqb_eq a b : anchor_eqb a b = true -> a = b.
Proof. destruct a, b; cbn; intros H; try reflexivity; discriminate H. Qed.

Lemma an_pick_first_split {A} (sk : node -> bool) (f : node -> A) : forall l r,
  pick_first (map (fun x => (sk x, f x)) l) = Some r ->
  exists pre x post, l = pre ++ x :: post /\ forallb sk pre = true /\ sk x = false /\ r = f x.
Proof.
  induction l as [|x l IH]; intros r H; cbn [map pick_first] in H; [discriminate H|].
  destruct (sk x) eqn:Ex.
  - destruct (IH _ H) as [pre [x0 [post [-> [Hp [Hx Hr]]]]]].
    exists (x :: pre), x0, post. cbn [forallb app]. rewrite Ex, Hp. auto.
  - injection H as <-. exists [], x, l. auto.
Qed.

Section Anchors.
Variable e : env.

Lemma an_reachseq_cons_inv x l s y : ReachSeq e (x :: l) s y -> exists s1, Reach e x s s1 /\ ReachSeq e l s1 y.
Proof. inversion 1; subst. eexists. split; eassumption. Qed.

Lemma an_reachseq_nil_inv s y : ReachSeq e [] s y -> y = s.
Proof. inversion 1; subst. reflexivity. Qed.

Lemma an_reach_concat_inv o l s y : Reach e (NConcat o l) s y -> ReachSeq e l s y.
Proof. inversion 1; subst. assumption. Qed.

Lemma an_reach_alt_inv o l s y : Reach e (NAlternate o l) s y -> exists x, In x l /\ Reach e x s y.
Proof. inversion 1; subst. eexists. split; eassumption. Qed.

Lemma an_reach_capture_inv o g u r s y : Reach e (NCapture o g u r) s y -> exists s1, Reach e r s s1 /\ pos y = pos s1.
Proof. inversion 1; subst; eexists; (split; [eassumption|reflexivity]). Qed.

Lemma an_reach_atomic_inv r s y : Reach e (NAtomic r) s y -> Reach e r s y.
Proof. inversion 1; subst. assumption. Qed.

Lemma an_reach_anchor_inv a s y : Reach e (NAnchor a) s y -> y = s /\ anchor_ok e a (pos s) = true.
Proof. inversion 1; subst. split; [reflexivity|assumption]. Qed.

Lemma an_reachseq_app : forall a b s y, ReachSeq e (a ++ b) s y -> exists s1, ReachSeq e a s s1 /\ ReachSeq e b s1 y.
Proof.
  induction a as [|x a IH]; intros b s y H; cbn [app] in H.
  - exists s. split; [apply RS_nil|exact H].
  - apply an_reachseq_cons_inv in H. destruct H as [s1 [Hx Hrest]].
    destruct (IH _ _ _ Hrest) as [s2 [Ha Hb]].
    exists s2. split; [eapply RS_cons; eassumption|exact Hb].
Qed.

Lemma an_skip_zw x s y : skip_in_concat x = true -> Reach e x s y -> pos y = pos s.
Proof.
  intros Hk Hr. destruct x; cbn [skip_in_concat] in Hk; try discriminate Hk; inversion Hr; subst; reflexivity.
Qed.

Lemma an_skips_zw : forall l s y, forallb skip_in_concat l = true -> ReachSeq e l s y -> pos y = pos s.
Proof.
  induction l as [|x l IH]; intros s y Hk H.
  - apply an_reachseq_nil_inv in H. subst. reflexivity.
  - apply an_reachseq_cons_inv in H. destruct H as [s1 [Hx Hrest]].
    cbn [forallb] in Hk. apply andb_true_iff in Hk. destruct Hk as [Hkx Hl].
    rewrite (IH _ _ Hl Hrest). eapply an_skip_zw; eassumption.
Qed.

(* leading = true: the anchor holds where the node starts; leading = false: where it ends *)
Lemma an_lead_anchor_reach (leading : bool) : forall t a,
  lead_anchor leading t = Some a ->
  forall sa sy, Reach e t sa sy -> anchor_ok e a (pos (if leading then sa else sy)) = true.
Proof.
  induction t using node_ind'; intros an Hla sa sy Hr; cbn [lead_anchor] in Hla; try discriminate Hla.
  - (* NAnchor *)
    destruct (anchor_findable a); [|discriminate Hla]. injection Hla as ->.
    apply an_reach_anchor_inv in Hr. destruct Hr as [-> Hok]. destruct leading; exact Hok.
  - (* NConcat *)
    apply an_reach_concat_inv in Hr.
    destruct leading.
    + destruct (pick_first (map (fun x => (skip_in_concat x, lead_anchor true x)) l)) as [r|] eqn:Ep; [|discriminate Hla].
      subst r. destruct (an_pick_first_split _ _ _ _ Ep) as [pre [x [post [-> [Hpre [Hx Hax]]]]]].
      destruct (an_reachseq_app _ _ _ _ Hr) as [s1 [Hs1 Hrest]].
      apply an_reachseq_cons_inv in Hrest. destruct Hrest as [s2 [Hx2 Hpost]].
      rewrite <- (an_skips_zw _ _ _ Hpre Hs1).
      rewrite Forall_forall in H. exact (H x (in_elt x pre post) an (eq_sym Hax) s1 s2 Hx2).
    + rewrite <- map_rev in Hla.
      destruct (pick_first (map (fun x => (skip_in_concat x, lead_anchor false x)) (rev l))) as [r|] eqn:Ep; [|discriminate Hla].
      subst r. destruct (an_pick_first_split _ _ _ _ Ep) as [pre [x [post [Hl [Hpre [Hx Hax]]]]]].
      assert (Hl' : l = rev post ++ x :: rev pre).
      { rewrite <- (rev_involutive l), Hl, rev_app_distr. cbn [rev]. rewrite <- app_assoc. reflexivity. }
      subst l. destruct (an_reachseq_app _ _ _ _ Hr) as [s1 [Hs1 Hrest]].
      apply an_reachseq_cons_inv in Hrest. destruct Hrest as [s2 [Hx2 Hpost]].
      assert (Hpre' : forallb skip_in_concat (rev pre) = true).
      { rewrite forallb_forall in *. intros z Hz. apply Hpre. apply in_rev. exact Hz. }
      rewrite (an_skips_zw _ _ _ Hpre' Hpost).
      rewrite Forall_forall in H. exact (H x (in_elt x (rev post) (rev pre)) an (eq_sym Hax) s1 s2 Hx2).
  - (* NAlternate *)
    apply an_reach_alt_inv in Hr. destruct Hr as [x [Hin Hx]].
    assert (Hall : forall z, In z l -> lead_anchor leading z = Some an).
    { intros z Hz. apply (in_map (lead_anchor leading)) in Hz.
      destruct (map (lead_anchor leading) l) as [|a0 rest]; [destruct Hz|].
      destruct a0 as [a0|]; [|discriminate Hla].
      destruct (forallb (fun b => oanchor_eqb b (Some a0)) rest) eqn:Ef; [|discriminate Hla].
      injection Hla as ->. destruct Hz as [<-|Hz]; [reflexivity|].
      rewrite forallb_forall in Ef. specialize (Ef _ Hz).
      destruct (lead_anchor leading z) as [az|]; [|discriminate Ef].
      cbn [oanchor_eqb] in Ef. apply an_anchor_eqb_eq in Ef. subst az. reflexivity. }
    rewrite Forall_forall in H. exact (H x Hin an (Hall x Hin) sa sy Hx).
  - (* NCapture *)
    apply an_reach_capture_inv in Hr. destruct Hr as [s1 [Hr1 Hpos]].
    specialize (IHt _ Hla _ _ Hr1). destruct leading; [exact IHt|]. rewrite Hpos. exact IHt.
  - (* NAtomic *)
    apply an_reach_atomic_inv in Hr. exact (IHt _ Hla _ _ Hr).
Qed.

Theorem an_attempt_lead_anchor fuel root p s' a :
  lead_anchor true root = Some a -> attempt e fuel root p = Ok (Some s') -> anchor_ok e a p = true.
Proof.
  intros Hla Ha. pose proof (attempt_reach e _ _ _ _ Ha) as Hr.
  exact (an_lead_anchor_reach true _ _ Hla _ _ Hr).
Qed.

Theorem an_attempt_trail_anchor fuel root p s' a :
  lead_anchor false root = Some a -> attempt e fuel root p = Ok (Some s') -> anchor_ok e a (pos s') = true.
Proof.
  intros Hla Ha. pose proof (attempt_reach e _ _ _ _ Ha) as Hr.
  exact (an_lead_anchor_reach false _ _ Hla _ _ Hr).
Qed.

End Anchors.
