(* Proofs about Model/Spec.v:
   A. the continuation-passing search [semk] computes exactly [first_some k] of the
      priority-ordered result list of [sem]  (semk_sem, attemptk_attempt, findk_find);
   B. the scan [scan_from] / [find] returns the result of the FIRST candidate position in scan
      order at which [attempt] succeeds (spec_scan_from_*, spec_find_leftmost). *)
From Verif Require Import Base.Prelude Model.Tree Model.Spec.

(* ------------------------------------------------------------------------------------------ *)
(* generic facts about [bind], [first_some], [or_else], [bindl]                                *)

Lemma sp_bind_ok {A B} (r : res A) (f : A -> res B) (b : B) :
  bind r f = Ok b -> exists a, r = Ok a /\ f a = Ok b.
Proof. destruct r as [a| | |]; cbn [bind]; intros H; try discriminate. exists a. split; [reflexivity|exact H]. Qed.

Lemma sp_bindr_ok {A B} (r : res (list A)) (f : A -> res (list B)) (l : list B) :
  bindr r f = Ok l -> exists la, r = Ok la /\ bindl la f = Ok l.
Proof. unfold bindr. apply sp_bind_ok. Qed.

Lemma sp_appr_ok {A} (a b : res (list A)) (l : list A) :
  appr a b = Ok l -> exists x y, a = Ok x /\ b = Ok y /\ l = x ++ y.
Proof.
  unfold appr. intros H.
  apply sp_bind_ok in H. destruct H as [x [Ha H]].
  apply sp_bind_ok in H. destruct H as [y [Hb H]].
  injection H as H. exists x, y. repeat split; [exact Ha|exact Hb|symmetry; exact H].
Qed.

Lemma sp_first_only_ok {A} (r : res (list A)) (l : list A) :
  first_only r = Ok l -> exists l0, r = Ok l0 /\ l = match l0 with [] => [] | a :: _ => [a] end.
Proof.
  unfold first_only. intros H. apply sp_bind_ok in H. destruct H as [l0 [Hr H]].
  injection H as H. exists l0. split; [exact Hr|symmetry; exact H].
Qed.

Lemma sp_first_some_cons (k : kont) x l :
  first_some k (x :: l) = or_else (k x) (fun _ => first_some k l).
Proof. reflexivity. Qed.

Lemma sp_first_some_single (k : kont) x : first_some k [x] = k x.
Proof. cbn [first_some]. destruct (k x) as [[y|]| | |]; reflexivity. Qed.

Lemma sp_or_else_none (a : res (option st)) : or_else a (fun _ => Ok None) = a.
Proof. unfold or_else. destruct a as [[y|]| | |]; reflexivity. Qed.

Lemma sp_or_else_ext (a : res (option st)) (b1 b2 : unit -> res (option st)) :
  b1 tt = b2 tt -> or_else a b1 = or_else a b2.
Proof. intros H. unfold or_else. destruct a as [[y|]| | |]; cbn [bind]; try reflexivity. exact H. Qed.

Lemma sp_first_some_app (k : kont) a b :
  first_some k (a ++ b) = or_else (first_some k a) (fun _ => first_some k b).
Proof.
  induction a as [|x a IH]; cbn [app first_some].
  - reflexivity.
  - unfold or_else in *. destruct (k x) as [[y|]| | |]; cbn [bind]; try reflexivity. exact IH.
Qed.

Lemma sp_first_some_k_first l :
  first_some k_first l = Ok (match l with [] => None | a :: _ => Some a end).
Proof. destruct l as [|a l]; reflexivity. Qed.

Lemma sp_first_some_map (k : kont) (g : st -> st) l :
  first_some k (map g l) = first_some (fun x => k (g x)) l.
Proof.
  induction l as [|x l IH]; cbn [map first_some]; [reflexivity|].
  rewrite IH. reflexivity.
Qed.

Lemma sp_first_some_ext (k1 k2 : kont) l :
  (forall x, In x l -> k1 x = k2 x) -> first_some k1 l = first_some k2 l.
Proof.
  induction l as [|x l IH]; intros H; cbn [first_some]; [reflexivity|].
  rewrite (H x (or_introl eq_refl)). rewrite IH; [reflexivity|].
  intros y Hy. apply H. right. exact Hy.
Qed.

(* the key step: a list-valued bind against a continuation-valued one *)
Lemma sp_first_some_bindl (k : kont) (f : st -> res (list st)) (fk : kont) :
  forall l r, bindl l f = Ok r ->
    (forall a la, In a l -> f a = Ok la -> fk a = first_some k la) ->
    first_some fk l = first_some k r.
Proof.
  induction l as [|a l IH]; intros r Hb Hf; cbn [bindl] in Hb.
  - injection Hb as Hb. subst r. reflexivity.
  - apply sp_bind_ok in Hb. destruct Hb as [x [Hx Hb]].
    apply sp_bind_ok in Hb. destruct Hb as [y [Hy Hb]].
    injection Hb as Hb. subst r.
    rewrite sp_first_some_cons, sp_first_some_app.
    rewrite (Hf a x (or_introl eq_refl) Hx).
    rewrite (IH y Hy); [reflexivity|].
    intros a' la Hin. apply Hf. right. exact Hin.
Qed.

(* [X] is "the CPS version of r": then X composed with the CPS version of g is the CPS version
   of bindr r g.  Used for Concatenate, Loop, Capture. *)
Lemma sp_bindr_first_some (r : res (list st)) (g : st -> res (list st)) (gk : kont)
      (k : kont) (la : list st) (X : kont -> res (option st)) :
  bindr r g = Ok la ->
  (forall lb, r = Ok lb -> forall k', X k' = first_some k' lb) ->
  (forall a l', g a = Ok l' -> gk a = first_some k l') ->
  X gk = first_some k la.
Proof.
  intros Hb HX Hg. apply sp_bindr_ok in Hb. destruct Hb as [lb [Hr Hb]].
  rewrite (HX lb Hr). apply (sp_first_some_bindl k g gk lb la Hb).
  intros a l' _ Ha. exact (Hg a l' Ha).
Qed.

(* ------------------------------------------------------------------------------------------ *)
(* A. semk = first_some over sem                                                               *)

(* the generic loop, for any pair of bodies related in the same way *)
Lemma spec_iterk_iter (body : st -> res (list st)) (bodyk : st -> kont -> res (option st)) :
  (forall s l, body s = Ok l -> forall k, bodyk s k = first_some k l) ->
  forall fuel lazy limit s mark count l,
    iter fuel body lazy limit s mark count = Ok l ->
    forall k, iterk fuel bodyk lazy limit s mark count k = first_some k l.
Proof.
  intros Hbody. induction fuel as [|f IH]; intros lazy limit s mark count l H k.
  - discriminate H.
  - cbn [iter] in H. cbn [iterk].
    (* the recursive branch, once and for all *)
    assert (Hagain : forall la,
      bindr (body s) (fun s' => iter f body lazy limit s' (pos s) (count + 1)) = Ok la ->
      bodyk s (fun s' => iterk f bodyk lazy limit s' (pos s) (count + 1) k) = first_some k la).
    { intros la Hla.
      apply (sp_bindr_first_some (body s)
               (fun s' => iter f body lazy limit s' (pos s) (count + 1))
               (fun s' => iterk f bodyk lazy limit s' (pos s) (count + 1) k) k la
               (fun k' => bodyk s k') Hla).
      - intros lb Hlb k'. exact (Hbody s lb Hlb k').
      - intros a l' Ha. exact (IH lazy limit a (pos s) (count + 1) l' Ha k). }
    destruct lazy.
    + destruct (count <? 0) eqn:Ec.
      * exact (Hagain l H).
      * apply sp_appr_ok in H. destruct H as [x [y [Hx [Hy Hl]]]].
        injection Hx as Hx. subst x l. cbn [app].
        rewrite sp_first_some_cons. apply sp_or_else_ext.
        destruct ((count <? limit) && negb (pos s =? mark)) eqn:Eg.
        -- rewrite (Hagain y Hy). reflexivity.
        -- injection Hy as Hy. subst y. reflexivity.
    + destruct ((limit <=? count) || ((pos s =? mark) && (0 <=? count))) eqn:Eg.
      * injection H as H. subst l. symmetry. apply sp_first_some_single.
      * apply sp_appr_ok in H. destruct H as [x [y [Hx [Hy Hl]]]].
        injection Hy as Hy. subst y l.
        rewrite sp_first_some_app. rewrite (Hagain x Hx).
        apply sp_or_else_ext.
        destruct (0 <=? count); [|reflexivity].
        symmetry. apply sp_first_some_single.
Qed.

Theorem semk_sem : forall e fuel t s l, sem e fuel t s = Ok l ->
  forall k, semk e fuel t s k = first_some k l.
Proof.
  intros e. induction fuel as [|f IH]; intros t s l H k.
  - discriminate H.
  - destruct t as [kd o c|kd lk o c m n|o str|o g|a| | | |o cl|o cl|lazy o m n r|o g u r|r|o r|o r|r|o g yes no|o c yes no];
      cbn [sem] in H; cbn [semk].
    + (* NChar *)
      injection H as H. subst l.
      destruct ((0 <? avail e o (pos s)) && char_test e kd c (next_char e o (pos s))).
      * symmetry. apply sp_first_some_single.
      * reflexivity.
    + injection H as H. subst l. reflexivity.
    + injection H as H. subst l. reflexivity.
    + injection H as H. subst l. reflexivity.
    + (* NAnchor *)
      injection H as H. subst l. destruct (anchor_ok e a (pos s)).
      * symmetry. apply sp_first_some_single.
      * reflexivity.
    + injection H as H. subst l. reflexivity.
    + injection H as H. subst l. symmetry. apply sp_first_some_single.
    + injection H as H. subst l. symmetry. apply sp_first_some_single.
    + (* NConcat *)
      revert s l H k. induction cl as [|x l' IHl]; intros s r H k.
      * injection H as H. subst r. symmetry. apply sp_first_some_single.
      * apply (sp_bindr_first_some _ _ _ k r (fun k' => semk e f x s k') H).
        -- intros lb Hlb k'. exact (IH x s lb Hlb k').
        -- intros a l0 Ha. exact (IHl a l0 Ha k).
    + (* NAlternate *)
      revert l H. induction cl as [|x l' IHl]; intros r H.
      * injection H as H. subst r. reflexivity.
      * apply sp_appr_ok in H. destruct H as [a [b [Ha [Hb Hr]]]]. subst r.
        rewrite sp_first_some_app. rewrite (IH x s a Ha k).
        apply sp_or_else_ext. exact (IHl b Hb).
    + (* NLoop *)
      pose proof (spec_iterk_iter (sem e f r) (semk e f r) (fun s0 l0 H0 k0 => IH r s0 l0 H0 k0)) as HI.
      destruct (m =? 0).
      * exact (HI f lazy _ s (-1) 0 l H k).
      * apply (sp_bindr_first_some _ _ _ k l (fun k' => semk e f r s k') H).
        -- intros lb Hlb k'. exact (IH r s lb Hlb k').
        -- intros a l0 Ha. exact (HI f lazy _ a (pos s) (1 - m) l0 Ha k).
    + (* NCapture *)
      destruct (u =? -1).
      * apply (sp_bindr_first_some _ _ _ k l (fun k' => semk e f r s k') H).
        -- intros lb Hlb k'. exact (IH r s lb Hlb k').
        -- intros a l0 Ha. injection Ha as Ha. subst l0. symmetry. apply sp_first_some_single.
      * apply (sp_bindr_first_some _ _ _ k l (fun k' => semk e f r s k') H).
        -- intros lb Hlb k'. exact (IH r s lb Hlb k').
        -- intros a l0 Ha. destruct (cap_get u (caps a)) as [|top rest].
           ++ injection Ha as Ha. subst l0. reflexivity.
           ++ injection Ha as Ha. subst l0. symmetry. apply sp_first_some_single.
    + (* NGroup *) exact (IH r s l H k).
    + (* NPosLook *)
      apply sp_bind_ok in H. destruct H as [l1 [H1 H]]. injection H as H. subst l.
      apply sp_first_only_ok in H1. destruct H1 as [l0 [H0 Hl1]]. subst l1.
      rewrite (IH r s l0 H0 k_first), sp_first_some_k_first. cbn [bind].
      destruct l0 as [|a l0]; cbn [map].
      * reflexivity.
      * symmetry. apply sp_first_some_single.
    + (* NNegLook *)
      apply sp_bind_ok in H. destruct H as [l0 [H0 H]]. injection H as H. subst l.
      rewrite (IH r s l0 H0 k_first), sp_first_some_k_first. cbn [bind].
      destruct l0 as [|a l0].
      * symmetry. apply sp_first_some_single.
      * reflexivity.
    + (* NAtomic *)
      apply sp_first_only_ok in H. destruct H as [l0 [H0 Hl]]. subst l.
      rewrite (IH r s l0 H0 k_first), sp_first_some_k_first. cbn [bind].
      destruct l0 as [|a l0].
      * reflexivity.
      * symmetry. apply sp_first_some_single.
    + (* NBackRefCond *)
      destruct (is_matched g (caps s)).
      * exact (IH yes s l H k).
      * destruct no as [n|].
        -- exact (IH n s l H k).
        -- injection H as H. subst l. symmetry. apply sp_first_some_single.
    + (* NExprCond *)
      apply sp_bind_ok in H. destruct H as [l1 [H1 H]].
      apply sp_first_only_ok in H1. destruct H1 as [l0 [H0 Hl1]]. subst l1.
      rewrite (IH c s l0 H0 k_first), sp_first_some_k_first. cbn [bind].
      destruct l0 as [|a l0].
      * destruct no as [n|].
        -- exact (IH n s l H k).
        -- injection H as H. subst l. symmetry. apply sp_first_some_single.
      * exact (IH yes _ l H k).
Qed.

Theorem attemptk_attempt : forall e fuel root p r,
  attempt e fuel root p = Ok r -> attemptk e fuel root p = Ok r.
Proof.
  intros e fuel root p r H. unfold attempt in H. unfold attemptk.
  apply sp_bind_ok in H. destruct H as [l [Hl H]].
  rewrite (semk_sem e fuel root _ l Hl k_first), sp_first_some_k_first. exact H.
Qed.

Lemma scank_scan : forall e fuel n root rtl p r,
  scan_from e fuel n root rtl p = Ok r -> scank_from e fuel n root rtl p = Ok r.
Proof.
  intros e fuel. induction n as [|n IH]; intros root rtl p r H.
  - exact H.
  - cbn [scan_from] in H. cbn [scank_from].
    apply sp_bind_ok in H. destruct H as [a [Ha H]].
    rewrite (attemptk_attempt e fuel root p a Ha). cbn [bind].
    destruct a as [s|]; [exact H|].
    destruct (if rtl then p <=? 0 else tlen e <=? p); [exact H|].
    apply IH. exact H.
Qed.

Theorem findk_find : forall e fuel root rtl start prevlen r,
  find e fuel root rtl start prevlen = Ok r -> findk e fuel root rtl start prevlen = Ok r.
Proof.
  intros e fuel root rtl start prevlen r H. unfold find in H. unfold findk.
  destruct ((prevlen =? 0) && (start =? (if rtl then 0 else tlen e))); [exact H|].
  apply scank_scan. exact H.
Qed.

(* ------------------------------------------------------------------------------------------ *)
(* B. the scan is leftmost (in scan order)                                                     *)

(* the i-th position of a scan that starts at p *)
Definition scan_pos (rtl : bool) (p i : Z) : Z := if rtl then p - i else p + i.
(* position q is at (or beyond) the far end of the text in scan direction *)
Definition scan_far (e : env) (rtl : bool) (q : Z) : bool := if rtl then q <=? 0 else tlen e <=? q.
(* the first candidate position of [find] *)
Definition first_cand (rtl : bool) (start prevlen : Z) : Z :=
  if prevlen =? 0 then (if rtl then start - 1 else start + 1) else start.

Lemma spec_scan_pos_step rtl p i :
  scan_pos rtl (if rtl then p - 1 else p + 1) (i - 1) = scan_pos rtl p i.
Proof. unfold scan_pos. destruct rtl; lia. Qed.

Lemma spec_scan_from_some e fuel root rtl : forall n p s,
  scan_from e fuel n root rtl p = Ok (Some s) ->
  exists j, 0 <= j < Z.of_nat n /\
    attempt e fuel root (scan_pos rtl p j) = Ok (Some s) /\
    forall i, 0 <= i < j ->
      attempt e fuel root (scan_pos rtl p i) = Ok None /\ scan_far e rtl (scan_pos rtl p i) = false.
Proof.
  induction n as [|n IH]; intros p s H.
  - discriminate H.
  - cbn [scan_from] in H. apply sp_bind_ok in H. destruct H as [a [Ha H]].
    assert (Hp0 : scan_pos rtl p 0 = p) by (unfold scan_pos; destruct rtl; lia).
    destruct a as [s0|].
    + injection H as H. subst s0. exists 0. split; [lia|]. split.
      * rewrite Hp0. exact Ha.
      * intros i Hi. lia.
    + change (if rtl then p <=? 0 else tlen e <=? p) with (scan_far e rtl p) in H.
      destruct (scan_far e rtl p) eqn:Efar; [discriminate H|].
      apply IH in H. destruct H as [j [Hj [Hat Hbefore]]].
      exists (j + 1). split; [lia|]. split.
      * rewrite <- spec_scan_pos_step. replace (j + 1 - 1) with j by lia. exact Hat.
      * intros i Hi. destruct (Z.eq_dec i 0) as [Ei|Ei].
        -- subst i. rewrite Hp0. split; [exact Ha|exact Efar].
        -- rewrite <- spec_scan_pos_step. apply Hbefore. lia.
Qed.

Lemma spec_scan_from_none e fuel root rtl : forall n p,
  scan_from e fuel n root rtl p = Ok None ->
  forall i, 0 <= i < Z.of_nat n ->
    (i = 0 \/ if rtl then 0 <= p - i else p + i <= tlen e) ->
    attempt e fuel root (scan_pos rtl p i) = Ok None.
Proof.
  induction n as [|n IH]; intros p H i Hi Hr.
  - lia.
  - cbn [scan_from] in H. apply sp_bind_ok in H. destruct H as [a [Ha H]].
    assert (Hp0 : scan_pos rtl p 0 = p) by (unfold scan_pos; destruct rtl; lia).
    destruct a as [s0|]; [discriminate H|].
    destruct (Z.eq_dec i 0) as [Ei|Ei].
    + subst i. rewrite Hp0. exact Ha.
    + destruct Hr as [Hr|Hr]; [contradiction|].
      destruct (if rtl then p <=? 0 else tlen e <=? p) eqn:Efar.
      * exfalso. destruct rtl; lia.
      * rewrite <- spec_scan_pos_step. apply (IH _ H); [lia|].
        right. destruct rtl; lia.
Qed.

(* converse of spec_scan_from_some: the scan does find the first successful candidate *)
Lemma spec_scan_from_complete e fuel root rtl : forall n p s j,
  0 <= j < Z.of_nat n ->
  attempt e fuel root (scan_pos rtl p j) = Ok (Some s) ->
  (forall i, 0 <= i < j ->
     attempt e fuel root (scan_pos rtl p i) = Ok None /\ scan_far e rtl (scan_pos rtl p i) = false) ->
  scan_from e fuel n root rtl p = Ok (Some s).
Proof.
  induction n as [|n IH]; intros p s j Hj Hat Hbefore.
  - lia.
  - cbn [scan_from].
    assert (Hp0 : scan_pos rtl p 0 = p) by (unfold scan_pos; destruct rtl; lia).
    destruct (Z.eq_dec j 0) as [Ej|Ej].
    + subst j. rewrite Hp0 in Hat. rewrite Hat. reflexivity.
    + destruct (Hbefore 0 ltac:(lia)) as [H0 Hf0]. rewrite Hp0 in H0, Hf0.
      rewrite H0. cbn [bind].
      change (if rtl then p <=? 0 else tlen e <=? p) with (scan_far e rtl p). rewrite Hf0.
      apply (IH _ s (j - 1)); [lia| |].
      * rewrite spec_scan_pos_step. exact Hat.
      * intros i Hi. pose proof (spec_scan_pos_step rtl p (i + 1)) as E.
        replace (i + 1 - 1) with i in E by lia. rewrite E.
        apply Hbefore. lia.
Qed.

(* [find] has no candidate at all exactly when the previous match was empty and ended at the far end *)
Lemma spec_find_no_candidate e fuel root (rtl : bool) (start prevlen : Z) :
  prevlen = 0 -> start = (if rtl then 0 else tlen e) ->
  find e fuel root rtl start prevlen = Ok None.
Proof.
  intros Hp Hs. unfold find. subst prevlen. rewrite Hs.
  rewrite !Z.eqb_refl. reflexivity.
Qed.

(* a match: it is the result of [attempt] at a candidate p, and every candidate strictly before p
   in scan order failed *)
Theorem spec_find_leftmost_some e fuel root (rtl : bool) (start prevlen : Z) s :
  find e fuel root rtl start prevlen = Ok (Some s) ->
  let p0 := first_cand rtl start prevlen in
  ~ (prevlen = 0 /\ start = (if rtl then 0 else tlen e)) /\
  exists p,
    (if rtl then p <= p0 /\ (p = p0 \/ 0 <= p) else p0 <= p /\ (p = p0 \/ p <= tlen e)) /\
    attempt e fuel root p = Ok (Some s) /\
    forall q, (if rtl then p < q <= p0 else p0 <= q < p) -> attempt e fuel root q = Ok None.
Proof.
  intros H p0. unfold find in H.
  destruct ((prevlen =? 0) && (start =? (if rtl then 0 else tlen e))) eqn:Enc; [discriminate H|].
  split.
  { intros [Hp Hs]. rewrite Hp, Hs, !Z.eqb_refl in Enc. discriminate Enc. }
  fold (first_cand rtl start prevlen) in H. fold p0 in H.
  apply spec_scan_from_some in H. destruct H as [j [Hj [Hat Hbefore]]].
  exists (scan_pos rtl p0 j). split; [|split].
  - destruct (Z.eq_dec j 0) as [Ej|Ej].
    + subst j. unfold scan_pos. destruct rtl; lia.
    + destruct (Hbefore (j - 1) ltac:(lia)) as [_ Hfar].
      unfold scan_far, scan_pos in *. destruct rtl; lia.
  - exact Hat.
  - intros q Hq.
    assert (Hq' : exists i, 0 <= i < j /\ q = scan_pos rtl p0 i).
    { unfold scan_pos in *. destruct rtl.
      - exists (p0 - q). lia.
      - exists (q - p0). lia. }
    destruct Hq' as [i [Hi Hqi]]. subst q. apply (Hbefore i Hi).
Qed.

(* no match: every candidate from the first one to the far end failed *)
Theorem spec_find_leftmost_none e fuel root (rtl : bool) (start prevlen : Z) :
  0 <= start <= tlen e ->
  find e fuel root rtl start prevlen = Ok None ->
  let p0 := first_cand rtl start prevlen in
  forall q, (if rtl then 0 <= q <= p0 else p0 <= q <= tlen e) -> attempt e fuel root q = Ok None.
Proof.
  intros Hst H p0 q Hq. unfold find in H.
  destruct ((prevlen =? 0) && (start =? (if rtl then 0 else tlen e))) eqn:Enc.
  { exfalso. apply andb_prop in Enc. destruct Enc as [E1 E2].
    unfold p0, first_cand in Hq. rewrite E1 in Hq. destruct rtl; lia. }
  fold (first_cand rtl start prevlen) in H. fold p0 in H.
  assert (Hp0 : if rtl then p0 <= tlen e else 0 <= p0).
  { unfold p0, first_cand. destruct rtl, (prevlen =? 0); lia. }
  assert (Hlen : 0 <= tlen e) by (unfold tlen, zlen; lia).
  assert (Hq' : exists i, 0 <= i < Z.of_nat (S (Z.to_nat (tlen e))) /\ q = scan_pos rtl p0 i /\
                          (if rtl then 0 <= p0 - i else p0 + i <= tlen e)).
  { unfold scan_pos. destruct rtl.
    - exists (p0 - q). lia.
    - exists (q - p0). lia. }
  destruct Hq' as [i [Hi [Hqi Hr]]]. subst q.
  apply (spec_scan_from_none e fuel root rtl _ p0 H i Hi). right. exact Hr.
Qed.

(* and conversely: the first successful candidate IS what find returns *)
Theorem spec_find_complete e fuel root (rtl : bool) (start prevlen : Z) s (p : Z) :
  0 <= start <= tlen e ->
  ~ (prevlen = 0 /\ start = (if rtl then 0 else tlen e)) ->
  let p0 := first_cand rtl start prevlen in
  (if rtl then 0 <= p <= p0 else p0 <= p <= tlen e) ->
  attempt e fuel root p = Ok (Some s) ->
  (forall q, (if rtl then p < q <= p0 else p0 <= q < p) -> attempt e fuel root q = Ok None) ->
  find e fuel root rtl start prevlen = Ok (Some s).
Proof.
  intros Hst Hnc p0 Hp Hat Hbefore. unfold find.
  destruct ((prevlen =? 0) && (start =? (if rtl then 0 else tlen e))) eqn:Enc.
  { exfalso. apply Hnc. apply andb_prop in Enc. destruct Enc as [E1 E2]. split; lia. }
  fold (first_cand rtl start prevlen). fold p0.
  assert (Hlen : 0 <= tlen e) by (unfold tlen, zlen; lia).
  assert (Hp0 : if rtl then p0 <= tlen e else 0 <= p0).
  { unfold p0, first_cand. destruct rtl, (prevlen =? 0); lia. }
  apply (spec_scan_from_complete e fuel root rtl _ p0 s (if rtl then p0 - p else p - p0)).
  - destruct rtl; lia.
  - replace (scan_pos rtl p0 (if rtl then p0 - p else p - p0)) with p
      by (unfold scan_pos; destruct rtl; lia).
    exact Hat.
  - intros i Hi. split.
    + apply Hbefore. unfold scan_pos. destruct rtl; lia.
    + unfold scan_far, scan_pos. destruct rtl; lia.
Qed.

(* ------------------------------------------------------------------------------------------ *)
(* fuel monotonicity of the list-valued semantics: more fuel never changes an Ok answer        *)

Lemma sp_bindl_mono {A B} (g g' : A -> res (list B)) :
  (forall a l, g a = Ok l -> g' a = Ok l) ->
  forall la l, bindl la g = Ok l -> bindl la g' = Ok l.
Proof.
  intros Hg. induction la as [|a la IH]; intros l H; cbn [bindl] in *; [exact H|].
  apply sp_bind_ok in H. destruct H as [x [Hx H]].
  apply sp_bind_ok in H. destruct H as [y [Hy H]].
  rewrite (Hg a x Hx). cbn [bind]. rewrite (IH y Hy). cbn [bind]. exact H.
Qed.

Lemma sp_bindr_mono {A B} (r r' : res (list A)) (g g' : A -> res (list B)) l :
  (forall la, r = Ok la -> r' = Ok la) ->
  (forall a l0, g a = Ok l0 -> g' a = Ok l0) ->
  bindr r g = Ok l -> bindr r' g' = Ok l.
Proof.
  intros Hr Hg H. apply sp_bindr_ok in H. destruct H as [la [Hla H]].
  unfold bindr. rewrite (Hr la Hla). cbn [bind]. exact (sp_bindl_mono g g' Hg la l H).
Qed.

Lemma sp_appr_mono {A} (a a' b b' : res (list A)) l :
  (forall x, a = Ok x -> a' = Ok x) -> (forall y, b = Ok y -> b' = Ok y) ->
  appr a b = Ok l -> appr a' b' = Ok l.
Proof.
  intros Ha Hb H. apply sp_appr_ok in H. destruct H as [x [y [Hx [Hy Hl]]]].
  unfold appr. rewrite (Ha x Hx), (Hb y Hy). cbn [bind]. subst l. reflexivity.
Qed.

Lemma sp_first_only_mono {A} (r r' : res (list A)) l :
  (forall x, r = Ok x -> r' = Ok x) -> first_only r = Ok l -> first_only r' = Ok l.
Proof.
  intros Hr H. apply sp_first_only_ok in H. destruct H as [l0 [H0 Hl]].
  unfold first_only. rewrite (Hr l0 H0). cbn [bind]. subst l. reflexivity.
Qed.

Lemma spec_iter_mono (b b' : st -> res (list st)) :
  (forall s l, b s = Ok l -> b' s = Ok l) ->
  forall f f', (f <= f')%nat ->
  forall lazy limit s mark count l,
    iter f b lazy limit s mark count = Ok l -> iter f' b' lazy limit s mark count = Ok l.
Proof.
  intros Hb. induction f as [|f IH]; intros f' Hle lazy limit s mark count l H; [discriminate H|].
  destruct f' as [|f']; [lia|]. cbn [iter] in *.
  assert (Hagain : forall la,
    bindr (b s) (fun s' => iter f b lazy limit s' (pos s) (count + 1)) = Ok la ->
    bindr (b' s) (fun s' => iter f' b' lazy limit s' (pos s) (count + 1)) = Ok la).
  { intros la. apply sp_bindr_mono; [apply Hb|].
    intros a l0. apply IH. lia. }
  destruct lazy.
  - destruct (count <? 0); [exact (Hagain l H)|].
    revert H. apply sp_appr_mono; [intros x Hx; exact Hx|].
    destruct ((count <? limit) && negb (pos s =? mark)); [exact Hagain|intros y Hy; exact Hy].
  - destruct ((limit <=? count) || ((pos s =? mark) && (0 <=? count))); [exact H|].
    revert H. apply sp_appr_mono; [exact Hagain|intros y Hy; exact Hy].
Qed.

Theorem spec_sem_fuel_mono e : forall f f', (f <= f')%nat ->
  forall t s l, sem e f t s = Ok l -> sem e f' t s = Ok l.
Proof.
  induction f as [|f IH]; intros f' Hle t s l H; [discriminate H|].
  destruct f' as [|f']; [lia|].
  assert (IH' : forall t s l, sem e f t s = Ok l -> sem e f' t s = Ok l).
  { apply IH. lia. }
  clear IH.
  destruct t as [kd o c|kd lk o c m n|o str|o g|a| | | |o cl|o cl|lazy o m n r|o g u r|r|o r|o r|r
                |o g yes no|o c yes no];
    cbn [sem] in *; try exact H.
  - (* NConcat *)
    revert s l H. induction cl as [|x l' IHl]; intros s l H; [exact H|].
    revert H. apply sp_bindr_mono; [apply IH'|exact IHl].
  - (* NAlternate *)
    revert l H. induction cl as [|x l' IHl]; intros l H; [exact H|].
    revert H. apply sp_appr_mono; [apply IH'|exact IHl].
  - (* NLoop *)
    assert (HI : forall lazy limit s mark count l,
               iter f (sem e f r) lazy limit s mark count = Ok l ->
               iter f' (sem e f' r) lazy limit s mark count = Ok l).
    { apply (spec_iter_mono (sem e f r) (sem e f' r) (IH' r)). lia. }
    destruct (m =? 0); [exact (HI _ _ _ _ _ _ H)|].
    revert H. apply sp_bindr_mono; [apply IH'|]. intros a l0. apply HI.
  - (* NCapture *)
    destruct (u =? -1); revert H; (apply sp_bindr_mono; [apply IH'|]); intros a l0 Ha; exact Ha.
  - exact (IH' _ _ _ H).
  - apply sp_bind_ok in H. destruct H as [l1 [H1 H]].
    rewrite (sp_first_only_mono _ (sem e f' r s) l1 (IH' r s) H1). exact H.
  - apply sp_bind_ok in H. destruct H as [l1 [H1 H]].
    rewrite (IH' r s l1 H1). exact H.
  - revert H. apply sp_first_only_mono. apply IH'.
  - destruct (is_matched g (caps s)); [exact (IH' _ _ _ H)|].
    destruct no as [n|]; [exact (IH' _ _ _ H)|exact H].
  - apply sp_bind_ok in H. destruct H as [l1 [H1 H]].
    rewrite (sp_first_only_mono _ (sem e f' c s) l1 (IH' c s) H1). cbn [bind].
    destruct l1 as [|s' l1].
    + destruct no as [n|]; [exact (IH' _ _ _ H)|exact H].
    + exact (IH' _ _ _ H).
Qed.

(* hence: once the list-valued semantics terminates with some fuel, the continuation-passing
   search gives the same answer with any larger fuel *)
Corollary spec_semk_fuel_indep e f f' t s l k :
  (f <= f')%nat -> sem e f t s = Ok l -> semk e f' t s k = first_some k l.
Proof.
  intros Hle H. apply semk_sem. exact (spec_sem_fuel_mono e f f' Hle t s l H).
Qed.

Corollary spec_attempt_fuel_mono e f f' root p r :
  (f <= f')%nat -> attempt e f root p = Ok r -> attempt e f' root p = Ok r.
Proof.
  intros Hle H. unfold attempt in *. apply sp_bind_ok in H. destruct H as [l [Hl H]].
  rewrite (spec_sem_fuel_mono e f f' Hle root _ l Hl). exact H.
Qed.

Corollary spec_find_fuel_mono e f f' root rtl start prevlen r :
  (f <= f')%nat -> find e f root rtl start prevlen = Ok r -> find e f' root rtl start prevlen = Ok r.
Proof.
  intros Hle. unfold find.
  destruct ((prevlen =? 0) && (start =? (if rtl then 0 else tlen e))); [intros H; exact H|].
  generalize (S (Z.to_nat (tlen e))) as n.
  generalize (if prevlen =? 0 then if rtl then start - 1 else start + 1 else start) as p.
  intros p n. revert p. induction n as [|n IH]; intros p H; [exact H|].
  cbn [scan_from] in *. apply sp_bind_ok in H. destruct H as [a [Ha H]].
  rewrite (spec_attempt_fuel_mono e f f' root p a Hle Ha). cbn [bind].
  destruct a as [s|]; [exact H|].
  destruct (if rtl then p <=? 0 else tlen e <=? p); [exact H|]. apply IH. exact H.
Qed.
