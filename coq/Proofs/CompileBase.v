(* Framework for compile_correct: code presence, the relation between the reference semantics'
   capture tables and the interpreter's capture arrays, and the invariant [leadsg]
   ("the frames a node leaves on the backtracking stack denote the tail of its result list"). *)
From Verif Require Import Base.Prelude Model.Tree Model.Spec Model.VM Model.Writer Gen.RunnerGen Proofs.VMU Proofs.VMUOps.
From Coq Require Import Relations ZifyBool.

Section CB.
Variable e : env.
Variable p : program.
Hypothesis tc_nonneg : 0 <= trackcount p.

Notation usteps := (VMU.usteps e p).
Notation ustep := (VMU.ustep e p).
Notation mk := VMU.mk.

(* the words [ws] sit at absolute offset [a] of the program *)
Definition has_code (a : Z) (ws : list Z) : Prop :=
  forall i w, nth_error ws i = Some w -> code_at p (a + Z.of_nat i) = Some w.

Lemma has_code_app a w1 w2 : has_code a (w1 ++ w2) -> has_code a w1 /\ has_code (a + zlen w1) w2.
Proof.
  intros H; split; intros i w Hi.
  - apply H. rewrite nth_error_app1; [exact Hi|]. apply nth_error_Some. congruence.
  - unfold zlen. replace (a + Z.of_nat (length w1) + Z.of_nat i) with (a + Z.of_nat (length w1 + i)) by lia.
    apply H. rewrite nth_error_app2 by lia. replace (length w1 + i - length w1)%nat with i by lia. exact Hi.
Qed.

Lemma has_code_cons a x ws : has_code a (x :: ws) -> code_at p a = Some x /\ has_code (a + 1) ws.
Proof.
  intros H; split.
  - replace a with (a + Z.of_nat 0) by lia. apply H. reflexivity.
  - intros i w Hi. replace (a + 1 + Z.of_nat i) with (a + Z.of_nat (S i)) by lia. apply H. exact Hi.
Qed.

Lemma has_code_nil a : has_code a []. Proof. intros i w Hi. destruct i; discriminate. Qed.

(* capture tables *)
Fixpoint flat (l : list (Z * Z)) : list Z :=
  match l with [] => [] | (i, n) :: l' => i :: n :: flat l' end.

Definition caps_rel (c : caps_t) (M : list (list Z)) : Prop :=
  zlen M = capsize p /\
  forall g, 0 <= g < capsize p -> nth (Z.to_nat g) M [] = flat (rev (cap_get g c)).

(* the base track always has a frame on top whose code position exists *)
Definition track_ok (T : list Z) : Prop :=
  exists np T', T = np :: T' /\ exists w, code_at p (Z.abs np) = Some w.

(* [leadsg b T Ss Sf C M0 start res]: running from [start], the results [res] are delivered one
   after the other at code position [b] (forward mode, grouping stack [Ss], some frames T' on top of
   the base track T, captures related to the result); backtracking into those frames delivers the
   next result; when the list is exhausted the machine backtracks into the base track T with the
   grouping stack [Sf], the crawl stack [C] and the capture arrays [M0] it started with. *)
Fixpoint leadsg (b : Z) (T Ss Sf C : list Z) (M0 : list (list Z)) (start : vm) (res : list st) : Prop :=
  match res with
  | [] => exists np T' t, T = np :: T' /\ usteps start (bk np t T' Sf C M0)
  | q :: rest =>
      exists T' C' M', caps_rel (caps q) M' /\
        usteps start (mk b 0 (pos q) (T' ++ T) Ss (C' ++ C) M') /\
        forall np T'' t, T' ++ T = np :: T'' ->
                         leadsg b T Ss Sf C M0 (bk np t T'' Ss (C' ++ C) M') rest
  end.

Lemma leadsg_pre b T Ss Sf C M0 s s' res :
  usteps s s' -> leadsg b T Ss Sf C M0 s' res -> leadsg b T Ss Sf C M0 s res.
Proof.
  destruct res as [|q rest]; cbn [leadsg]; intros H1 H2.
  - destruct H2 as [np [T' [t [Ht Hs]]]]. exists np, T', t. split; [exact Ht|]. eapply usteps_trans; eassumption.
  - destruct H2 as [T' [C' [M' [Hc [Hs Hr]]]]]. exists T', C', M'. split; [exact Hc|]. split; [|exact Hr].
    eapply usteps_trans; eassumption.
Qed.

(* results r1 over a deeper base (T1 ++ T) with its own failure data, then r2 from every failure state *)
Lemma leadsg_app b T1 T Ss Sf1 Sf C1 C M1 M0 s r1 r2 :
  leadsg b (T1 ++ T) Ss Sf1 C1 M1 s r1 ->
  (forall np T' t, T1 ++ T = np :: T' -> leadsg b T Ss Sf C M0 (bk np t T' Sf1 C1 M1) r2) ->
  (exists Cx, C1 = Cx ++ C) ->
  leadsg b T Ss Sf C M0 s (r1 ++ r2).
Proof.
  intros H1 H2 [Cx HC]. revert s H1. induction r1 as [|q r1 IH]; cbn [leadsg app]; intros s H1.
  - destruct H1 as [np [T' [t [Ht Hs]]]]. eapply leadsg_pre; [exact Hs|]. apply H2. exact Ht.
  - destruct H1 as [T' [C' [M' [Hc [Hs Hr]]]]].
    exists (T' ++ T1), (C' ++ Cx), M'. split; [exact Hc|].
    rewrite <- !app_assoc. subst C1. split; [exact Hs|].
    intros np T'' t Ht. apply IH. apply Hr. exact Ht.
Qed.

(* the exit of the results can be moved along deterministic forward steps *)
Lemma leadsg_exit_map m b T Ss Sf C M0 s res :
  (forall t T' C' M', usteps (mk m 0 t T' Ss C' M') (mk b 0 t T' Ss C' M')) ->
  leadsg m T Ss Sf C M0 s res -> leadsg b T Ss Sf C M0 s res.
Proof.
  intros Hm. revert s. induction res as [|q rest IH]; cbn [leadsg]; intros s H; [exact H|].
  destruct H as [T' [C' [M' [Hc [Hs Hr]]]]]. exists T', C', M'. split; [exact Hc|]. split.
  - eapply usteps_trans; [exact Hs|apply Hm].
  - intros np T'' t Ht. apply IH. apply Hr. exact Ht.
Qed.

End CB.
