(* Framework for compile_correct: code presence, the relation between the reference semantics'
   capture tables and the interpreter's capture arrays, and the invariant [leadsg]
   ("the frames a node leaves on the backtracking stack denote the tail of its result list").
   All states are root-slot families (Proofs/VMUOps2.v: [mkr], [bkr], [rsteps]). *)
From Verif Require Import Base.Prelude Model.Tree Model.Spec Model.VM Model.Writer Gen.RunnerGen
  Proofs.SpecProofs Proofs.VMU Proofs.VMUOps Proofs.VMUOps2 Proofs.VMUOps6.
From Coq Require Import Relations ZifyBool.

Section CB.
Variable e : env.
Variable p : program.
Hypothesis tc_nonneg : 0 <= trackcount p.

Notation rsteps := (VMUOps2.rsteps e p).

(* the words [ws] sit at absolute offset [a] of the program *)
Definition has_code (a : Z) (ws : list Z) : Prop :=
  forall i w, nth_error ws i = Some w -> code_at p (a + Z.of_nat i) = Some w.

Lemma has_code_app a w1 w2 : has_code a (w1 ++ w2) -> has_code a w1 /\ has_code (a + zlen w1) w2.
Proof.
  intros H; split; intros i w Hi.
  - apply H. rewrite nth_error_app1; [exact Hi|]. apply nth_error_Some. congruence.
  - unfold zlen. replace (a + Z.of_nat (length w1) + Z.of_nat i) with (a + Z.of_nat (length w1 + i)) by lia.
    apply H. rewrite nth_error_app2 by lia. replace (length w1 + i - length w1)%nat with i by lia. exact Hi.
Qed.

Lemma has_code_cons a x ws : has_code a (x :: ws) -> code_at p a = Some x /\ has_code (a + 1) ws.
Proof.
  intros H; split.
  - replace a with (a + Z.of_nat 0) by lia. apply H. reflexivity.
  - intros i w Hi. replace (a + 1 + Z.of_nat i) with (a + Z.of_nat (S i)) by lia. apply H. exact Hi.
Qed.

Lemma has_code_nil a : has_code a []. Proof. intros i w Hi. destruct i; discriminate. Qed.

(* capture tables *)
Fixpoint flat (l : list (Z * Z)) : list Z :=
  match l with [] => [] | (i, n) :: l' => i :: n :: flat l' end.

Definition caps_rel (c : caps_t) (M : list (list Z)) : Prop :=
  zlen M = capsize p /\
  forall g, 0 <= g < capsize p -> nth (Z.to_nat g) M [] = flat (rev (cap_get g c)).

(* the base track always has a frame on top whose code position exists *)
Definition track_ok (T : list Z) : Prop :=
  exists np T', T = np :: T' /\ exists w, code_at p (Z.abs np) = Some w.

Lemma track_ok_cons a w T : code_at p (Z.abs a) = Some w -> track_ok (a :: T).
Proof. intros H. exists a, T. split; [reflexivity|]. exists w. exact H. Qed.
Lemma track_ok_app T' T : track_ok T' -> track_ok (T' ++ T).
Proof. intros (np & T1 & -> & Hw). exists np, (T1 ++ T). split; [reflexivity|exact Hw]. Qed.

(* [leadsg b T Ss Sf C M0 start res]: running from [start], the results [res] are delivered one
   after the other at code position [b] (forward mode, grouping stack [Ss], some frames T' on top of
   the base track T, captures related to the result and undoable back to M0); backtracking into those
   frames delivers the next result; when the list is exhausted the machine backtracks into the base
   track T with the grouping stack [Sf], the crawl stack [C] and the capture arrays [M0]. *)
Fixpoint leadsg (b : Z) (T Ss Sf C : list Z) (M0 : list (list Z)) (start : Z -> vm) (res : list st) : Prop :=
  match res with
  | [] => exists np T' t, T = np :: T' /\ rsteps start (bkr np t T' Sf C M0)
  | q :: rest =>
      exists T' C' M', caps_rel (caps q) M' /\ unwind C' M' = Some M0 /\ track_ok (T' ++ T) /\
        rsteps start (mkr b 0 (pos q) (T' ++ T) Ss (C' ++ C) M') /\
        forall np T'' t, T' ++ T = np :: T'' ->
                         leadsg b T Ss Sf C M0 (bkr np t T'' Ss (C' ++ C) M') rest
  end.

Lemma leadsg_pre b T Ss Sf C M0 s s' res :
  rsteps s s' -> leadsg b T Ss Sf C M0 s' res -> leadsg b T Ss Sf C M0 s res.
Proof.
  destruct res as [|q rest]; cbn [leadsg]; intros H1 H2.
  - destruct H2 as [np [T' [t [Ht Hs]]]]. exists np, T', t. split; [exact Ht|]. eapply rsteps_trans; eassumption.
  - destruct H2 as (T' & C' & M' & Hc & Hu & Hk & Hs & Hr). exists T', C', M'.
    repeat (split; [assumption|]). split; [|exact Hr]. eapply rsteps_trans; eassumption.
Qed.

(* the empty list does not depend on the exit *)
Lemma leadsg_nil_any b b' T Ss Ss' Sf C M0 s : leadsg b T Ss Sf C M0 s [] -> leadsg b' T Ss' Sf C M0 s [].
Proof. intros H. exact H. Qed.

(* results r1 over a deeper base (T1 ++ T) with its own failure data, then r2 from every failure state *)
Lemma leadsg_app b T1 T Ss Sf1 Sf Cx C M1 M0 s r1 r2 :
  leadsg b (T1 ++ T) Ss Sf1 (Cx ++ C) M1 s r1 ->
  unwind Cx M1 = Some M0 ->
  (forall np T' t, T1 ++ T = np :: T' -> leadsg b T Ss Sf C M0 (bkr np t T' Sf1 (Cx ++ C) M1) r2) ->
  leadsg b T Ss Sf C M0 s (r1 ++ r2).
Proof.
  intros H1 HU H2. revert s H1. induction r1 as [|q r1 IH]; cbn [leadsg app]; intros s H1.
  - destruct H1 as [np [T' [t [Ht Hs]]]]. eapply leadsg_pre; [exact Hs|]. apply H2. exact Ht.
  - destruct H1 as (T' & C' & M' & Hc & Hu & Hk & Hs & Hr).
    exists (T' ++ T1), (C' ++ Cx), M'. split; [exact Hc|].
    split; [eapply unwind_app; eassumption|].
    rewrite <- !app_assoc. split; [exact Hk|]. split; [exact Hs|].
    intros np T'' t Ht. apply IH. apply Hr. exact Ht.
Qed.

(* every result of r1 (delivered at m with grouping stack Ss1) is continued by a fragment that
   delivers f q at b with grouping stack Ss2 and fails back with Ss1 *)
Lemma leadsg_bindl m b T Ss1 Ss2 Sf C M0 (f : st -> res (list st)) : forall r1 s res,
  leadsg m T Ss1 Sf C M0 s r1 ->
  bindl r1 f = Ok res ->
  (forall q rq T' C' M', In q r1 -> f q = Ok rq -> caps_rel (caps q) M' -> unwind C' M' = Some M0 ->
     track_ok (T' ++ T) ->
     leadsg b (T' ++ T) Ss2 Ss1 (C' ++ C) M' (mkr m 0 (pos q) (T' ++ T) Ss1 (C' ++ C) M') rq) ->
  leadsg b T Ss2 Sf C M0 s res.
Proof.
  induction r1 as [|q r1 IH]; intros s res H1 Hb Hf.
  - cbn [bindl] in Hb. injection Hb as <-. exact H1.
  - cbn [bindl] in Hb. apply sp_bind_ok in Hb. destruct Hb as [x [Hx Hb]].
    apply sp_bind_ok in Hb. destruct Hb as [y [Hy Hb]]. injection Hb as <-.
    cbn [leadsg] in H1. destruct H1 as (T' & C' & M' & Hc & Hu & Hk & Hs & Hr).
    eapply leadsg_pre; [exact Hs|].
    eapply leadsg_app with (T1 := T') (Cx := C') (M1 := M') (Sf1 := Ss1).
    + apply Hf; try assumption. left. reflexivity.
    + exact Hu.
    + intros np T'' t Ht. apply IH; [apply Hr; exact Ht|exact Hy|].
      intros q' rq T2 C2 M2 Hin. apply Hf. right. exact Hin.
Qed.

(* the exit of the results can be moved along deterministic forward steps *)
Lemma leadsg_exit_map m b T Ss Sf C M0 s res :
  (forall t T' C' M', rsteps (mkr m 0 t T' Ss C' M') (mkr b 0 t T' Ss C' M')) ->
  leadsg m T Ss Sf C M0 s res -> leadsg b T Ss Sf C M0 s res.
Proof.
  intros Hm. revert s. induction res as [|q rest IH]; cbn [leadsg]; intros s H; [exact H|].
  destruct H as (T' & C' & M' & Hc & Hu & Hk & Hs & Hr). exists T', C', M'.
  repeat (split; [assumption|]). split.
  - eapply rsteps_trans; [exact Hs|apply Hm].
  - intros np T'' t Ht. apply IH. apply Hr. exact Ht.
Qed.

(* constructors *)
Lemma leadsg_fail b T Ss Sf C M0 s np T' t :
  T = np :: T' -> rsteps s (bkr np t T' Sf C M0) -> leadsg b T Ss Sf C M0 s [].
Proof. intros HT H. exists np, T', t. split; assumption. Qed.

(* one result that leaves no frame *)
Lemma leadsg_leaf b T S C M0 s q :
  track_ok T -> caps_rel (caps q) M0 -> rsteps s (mkr b 0 (pos q) T S C M0) -> leadsg b T S S C M0 s [q].
Proof.
  intros Hk Hc Hs. exists [], [], M0. cbn [app unwind].
  repeat (split; [first [assumption|reflexivity]|]).
  intros np T'' t Ht. exists np, T'', t. split; [exact Ht|apply rsteps_refl].
Qed.

End CB.
