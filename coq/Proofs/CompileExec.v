(* compile_correct for the interpreter with its REAL finite stacks: whenever VM.exec_at (any
   backtracking-stack limit L, any interpreter fuel) returns a state, that state is at the final Stop
   and carries exactly the position and captures of the reference semantics' Spec.attempt.
   (compile_correct_top_partial + "every successful real step is a ustep" + "ustep is a function"
   + "raising the limit does not change a successful run".) *)
From Verif Require Import Base.Prelude Model.Tree Model.Spec Model.VM Model.Writer Gen.RunnerGen
  Proofs.SpecBoundsProofs Proofs.VMLimitProofs Proofs.VMLimitSimProofs
  Proofs.VMU Proofs.VMUOps2 Proofs.VMUBridge Proofs.CompileBase Proofs.CompileDefs Proofs.CompileProofs.
From Coq Require Import Relations ZifyBool.

Theorem compile_correct_exec_partial :
  forall (e : env) (p : program), 0 <= trackcount p -> tlen e <= INF ->
  forall L fuel vfuel o body t0 r s',
  let root := NCapture o 0 (-1) body in
  let M0 := repeat [] (Z.to_nat (capsize p)) in
  let stop := 2 + csize cfg0 root in
  codes p = fst (compile cfg0 root) -> strings p = snd (compile cfg0 root) ->
  supported root = true -> groups_ok (capsize p) root -> 0 <= t0 <= tlen e ->
  Z.of_nat fuel <= INF ->
  attempt e fuel root t0 = Ok r ->
  exec_at e p L vfuel t0 = Ok s' ->
  pc s' = stop /\ mode s' = 0 /\
  match r with
  | Some q => tp s' = pos q /\ caps_rel p (caps q) (mcaps s') /\ matched0 s' = true
  | None => mcaps s' = M0 /\ matched0 s' = false
  end.
Proof.
  intros e p Htc Htl L fuel vfuel o body t0 r s' root M0 stop Hcodes Hstr Hs Hg Ht0 Hf Hatt Hex.
  assert (HL : lim_le L (-1)) by (left; lia).
  destruct (vml_exec_raise_limit e p L (-1) vfuel t0 s' HL Hex) as (s2 & Hex2 & Heq).
  destruct (exec_at_usteps e p Htc vfuel t0 s2 Hex2) as (sd & Hpath & Hdone).
  destruct (compile_correct_top_partial e p Htc Htl fuel o body t0 r Hcodes Hstr Hs Hg Ht0 Hf Hatt)
    as (_ & t & T & S & C & M & Hpath' & Hdone' & Hres).
  fold M0 in Hpath. fold root stop M0 in Hpath', Hdone', Hres.
  destruct (usteps_done_unique e p _ _ _ _ _ Hpath Hdone Hpath' Hdone') as [_ Hfin].
  unfold eqv in Heq. destruct Heq as (Epc & Emd & Etp & _ & _ & _ & _ & Emc).
  unfold norm, VMU.mk in Hfin. injection Hfin as Fpc Fmd Ftp _ _ _ Fmc.
  assert (Hm0 : matched0 s' = matched0 (VMU.mk stop 0 t T S C M)).
  { unfold matched0. cbn [mcaps VMU.mk]. rewrite Emc, Fmc. reflexivity. }
  split; [congruence|]. split; [congruence|].
  destruct r as [q|].
  - destruct Hres as (Ht & Hc & Hm). split; [congruence|]. split; [|congruence].
    rewrite Emc, Fmc. exact Hc.
  - destruct Hres as (HM & _ & _ & _ & Hm). split; [congruence|congruence].
Qed.

Print Assumptions compile_correct_exec_partial.
