(* Option bits: of a node's option word, the reference semantics (Model/Spec.v) and the writer
   (Model/Writer.v) read ONLY the RightToLeft (64) and IgnoreCase (1) bits.
   [mask_node] clears every other bit in every option word of a tree; then
     mask_sem     : sem e fuel (mask_node t) s = sem e fuel t s
     mask_semk    : semk e fuel (mask_node t) s k = semk e fuel t s k
     mask_find / mask_findk
     mask_csize   : csize c (mask_node t) = csize c t
     mask_emit    : emit c (mask_node t) a tbl = emit c t a tbl
     mask_compile : compile c (mask_node t) = compile c t            *)
From Verif Require Import Base.Prelude Model.Tree Model.Spec Model.VM Model.Writer.

Definition mask_opts (o : Z) : Z := Z.land o (OPT_RTL + OPT_CI).

Definition mask_opt_node (f : node -> node) (no : option node) : option node :=
  match no with Some x => Some (f x) | None => None end.

Fixpoint mask_node (t : node) : node :=
  match t with
  | NChar k o c => NChar k (mask_opts o) c
  | NCharLoop k l o c m n => NCharLoop k l (mask_opts o) c m n
  | NMulti o s => NMulti (mask_opts o) s
  | NRef o g => NRef (mask_opts o) g
  | NAnchor a => NAnchor a
  | NNothing => NNothing
  | NEmpty => NEmpty
  | NBump => NBump
  | NConcat o l => NConcat (mask_opts o) (map mask_node l)
  | NAlternate o l => NAlternate (mask_opts o) (map mask_node l)
  | NLoop lazy o m n r => NLoop lazy (mask_opts o) m n (mask_node r)
  | NCapture o g u r => NCapture (mask_opts o) g u (mask_node r)
  | NGroup r => NGroup (mask_node r)
  | NPosLook o r => NPosLook (mask_opts o) (mask_node r)
  | NNegLook o r => NNegLook (mask_opts o) (mask_node r)
  | NAtomic r => NAtomic (mask_node r)
  | NBackRefCond o g yes no =>
      NBackRefCond (mask_opts o) g (mask_node yes) (mask_opt_node mask_node no)
  | NExprCond o c yes no =>
      NExprCond (mask_opts o) (mask_node c) (mask_node yes) (mask_opt_node mask_node no)
  end.

(* ------------------------------------------------------------------------------------------ *)
(* structural induction for the rose tree [node]                                               *)

Definition opt_all (P : node -> Prop) (no : option node) : Prop :=
  match no with Some x => P x | None => True end.

Section NodeInd.
  Variable P : node -> Prop.
  Hypothesis H_Char : forall k o c, P (NChar k o c).
  Hypothesis H_CharLoop : forall k l o c m n, P (NCharLoop k l o c m n).
  Hypothesis H_Multi : forall o s, P (NMulti o s).
  Hypothesis H_Ref : forall o g, P (NRef o g).
  Hypothesis H_Anchor : forall a, P (NAnchor a).
  Hypothesis H_Nothing : P NNothing.
  Hypothesis H_Empty : P NEmpty.
  Hypothesis H_Bump : P NBump.
  Hypothesis H_Concat : forall o l, Forall P l -> P (NConcat o l).
  Hypothesis H_Alternate : forall o l, Forall P l -> P (NAlternate o l).
  Hypothesis H_Loop : forall lazy o m n r, P r -> P (NLoop lazy o m n r).
  Hypothesis H_Capture : forall o g u r, P r -> P (NCapture o g u r).
  Hypothesis H_Group : forall r, P r -> P (NGroup r).
  Hypothesis H_PosLook : forall o r, P r -> P (NPosLook o r).
  Hypothesis H_NegLook : forall o r, P r -> P (NNegLook o r).
  Hypothesis H_Atomic : forall r, P r -> P (NAtomic r).
  Hypothesis H_BackRefCond : forall o g yes no, P yes -> opt_all P no -> P (NBackRefCond o g yes no).
  Hypothesis H_ExprCond : forall o c yes no, P c -> P yes -> opt_all P no -> P (NExprCond o c yes no).

  Fixpoint node_ind' (t : node) : P t :=
    let all := fix all (l : list node) : Forall P l :=
                 match l with
                 | [] => Forall_nil P
                 | x :: l' => Forall_cons x (node_ind' x) (all l')
                 end in
    let opt := fun (no : option node) =>
                 match no return opt_all P no with
                 | Some x => node_ind' x
                 | None => I
                 end in
    match t with
    | NChar k o c => H_Char k o c
    | NCharLoop k l o c m n => H_CharLoop k l o c m n
    | NMulti o s => H_Multi o s
    | NRef o g => H_Ref o g
    | NAnchor a => H_Anchor a
    | NNothing => H_Nothing
    | NEmpty => H_Empty
    | NBump => H_Bump
    | NConcat o l => H_Concat o l (all l)
    | NAlternate o l => H_Alternate o l (all l)
    | NLoop lazy o m n r => H_Loop lazy o m n r (node_ind' r)
    | NCapture o g u r => H_Capture o g u r (node_ind' r)
    | NGroup r => H_Group r (node_ind' r)
    | NPosLook o r => H_PosLook o r (node_ind' r)
    | NNegLook o r => H_NegLook o r (node_ind' r)
    | NAtomic r => H_Atomic r (node_ind' r)
    | NBackRefCond o g yes no => H_BackRefCond o g yes no (node_ind' yes) (opt no)
    | NExprCond o c yes no => H_ExprCond o c yes no (node_ind' c) (node_ind' yes) (opt no)
    end.
End NodeInd.

(* ------------------------------------------------------------------------------------------ *)
(* bits                                                                                        *)

Lemma mask_is_rtl o : is_rtl (mask_opts o) = is_rtl o.
Proof.
  unfold is_rtl, has_bit, mask_opts. rewrite <- Z.land_assoc.
  change (Z.land (OPT_RTL + OPT_CI) OPT_RTL) with OPT_RTL. reflexivity.
Qed.

Lemma mask_is_ci o : is_ci (mask_opts o) = is_ci o.
Proof.
  unfold is_ci, has_bit, mask_opts. rewrite <- Z.land_assoc.
  change (Z.land (OPT_RTL + OPT_CI) OPT_CI) with OPT_CI. reflexivity.
Qed.

Lemma mask_opts_65 o : mask_opts o = Z.land o 65.
Proof. reflexivity. Qed.

Lemma mask_opts_idem o : mask_opts (mask_opts o) = mask_opts o.
Proof.
  unfold mask_opts. rewrite <- Z.land_assoc. rewrite Z.land_diag. reflexivity.
Qed.

(* ------------------------------------------------------------------------------------------ *)
(* (i) the reference semantics                                                                 *)

Lemma mask_dir o : dir (mask_opts o) = dir o.
Proof. unfold dir. rewrite mask_is_rtl. reflexivity. Qed.

Lemma mask_avail e o p : avail e (mask_opts o) p = avail e o p.
Proof. unfold avail. rewrite mask_is_rtl. reflexivity. Qed.

Lemma mask_next_char e o p : next_char e (mask_opts o) p = next_char e o p.
Proof. unfold next_char. rewrite mask_is_rtl. reflexivity. Qed.

Lemma mask_run_len e k c o : forall maxn p,
  run_len e k c (mask_opts o) maxn p = run_len e k c o maxn p.
Proof.
  induction maxn as [|m IH]; intros p; cbn [run_len]; [reflexivity|].
  rewrite mask_avail, mask_next_char, mask_dir, IH. reflexivity.
Qed.

Lemma mask_sem_charloop e k l o c m n s :
  sem_charloop e k l (mask_opts o) c m n s = sem_charloop e k l o c m n s.
Proof.
  unfold sem_charloop. rewrite mask_avail, mask_run_len, mask_dir. reflexivity.
Qed.

Lemma mask_sem_multi e o str s : sem_multi e (mask_opts o) str s = sem_multi e o str s.
Proof.
  unfold sem_multi. rewrite mask_avail, mask_is_rtl, mask_is_ci, mask_dir. reflexivity.
Qed.

Lemma mask_sem_ref e o g s : sem_ref e (mask_opts o) g s = sem_ref e o g s.
Proof.
  unfold sem_ref. destruct (cap_get g (caps s)) as [|[i len] rest]; [reflexivity|].
  rewrite mask_avail, mask_is_rtl, mask_is_ci, mask_dir. reflexivity.
Qed.

(* congruences (no functional extensionality) *)
Lemma mask_bindl_ext {A B} (g1 g2 : A -> res (list B)) :
  (forall a, g1 a = g2 a) -> forall l, bindl l g1 = bindl l g2.
Proof.
  intros H. induction l as [|a l IH]; cbn [bindl]; [reflexivity|]. rewrite H, IH. reflexivity.
Qed.

Lemma mask_bindr_ext {A B} (r1 r2 : res (list A)) (g1 g2 : A -> res (list B)) :
  r1 = r2 -> (forall a, g1 a = g2 a) -> bindr r1 g1 = bindr r2 g2.
Proof.
  intros Hr Hg. subst r2. unfold bindr. destruct r1 as [l| | |]; cbn [bind]; try reflexivity.
  apply mask_bindl_ext. exact Hg.
Qed.

Lemma mask_iter_ext (b1 b2 : st -> res (list st)) :
  (forall s, b1 s = b2 s) ->
  forall fuel lazy limit s mark count,
    iter fuel b1 lazy limit s mark count = iter fuel b2 lazy limit s mark count.
Proof.
  intros Hb. induction fuel as [|f IH]; intros lazy limit s mark count; [reflexivity|].
  cbn [iter].
  assert (Hagain :
    bindr (b1 s) (fun s' => iter f b1 lazy limit s' (pos s) (count + 1)) =
    bindr (b2 s) (fun s' => iter f b2 lazy limit s' (pos s) (count + 1))).
  { apply mask_bindr_ext; [apply Hb|]. intros a. apply IH. }
  rewrite Hagain. reflexivity.
Qed.

Theorem mask_sem : forall e fuel t s, sem e fuel (mask_node t) s = sem e fuel t s.
Proof.
  intros e. induction fuel as [|f IH]; intros t s; [reflexivity|].
  destruct t as [kd o c|kd lk o c m n|o str|o g|a| | | |o cl|o cl|lazy o m n r|o g u r|r|o r|o r|r
                |o g yes no|o c yes no];
    cbn [mask_node sem].
  - rewrite mask_avail, mask_next_char, mask_dir. reflexivity.
  - rewrite mask_sem_charloop. reflexivity.
  - rewrite mask_sem_multi. reflexivity.
  - rewrite mask_sem_ref. reflexivity.
  - reflexivity.
  - reflexivity.
  - reflexivity.
  - reflexivity.
  - (* NConcat *)
    revert s. induction cl as [|x l' IHl]; intros s; [reflexivity|].
    cbn [map]. apply mask_bindr_ext; [apply IH|]. intros a. apply IHl.
  - (* NAlternate *)
    induction cl as [|x l' IHl]; [reflexivity|].
    cbn [map]. exact (f_equal2 appr (IH x s) IHl).
  - (* NLoop *)
    rewrite (mask_iter_ext (sem e f (mask_node r)) (sem e f r) (IH r)).
    destruct (m =? 0); [reflexivity|].
    apply mask_bindr_ext; [apply IH|]. intros a.
    apply (mask_iter_ext (sem e f (mask_node r)) (sem e f r) (IH r)).
  - (* NCapture *) rewrite IH. reflexivity.
  - apply IH.
  - rewrite IH. reflexivity.
  - rewrite IH. reflexivity.
  - rewrite IH. reflexivity.
  - (* NBackRefCond *)
    rewrite IH. destruct no as [n|]; cbn [mask_opt_node]; [rewrite IH|]; reflexivity.
  - (* NExprCond *)
    rewrite (IH c). destruct (first_only (sem e f c s)) as [l| | |]; cbn [bind]; try reflexivity.
    destruct l as [|s' l].
    + destruct no as [n|]; cbn [mask_opt_node]; [apply IH|reflexivity].
    + apply IH.
Qed.

Corollary mask_attempt e fuel root p : attempt e fuel (mask_node root) p = attempt e fuel root p.
Proof. unfold attempt. rewrite mask_sem. reflexivity. Qed.

Lemma mask_scan_from e fuel root rtl : forall n p,
  scan_from e fuel n (mask_node root) rtl p = scan_from e fuel n root rtl p.
Proof.
  induction n as [|n IH]; intros p; [reflexivity|].
  cbn [scan_from]. rewrite mask_attempt.
  destruct (attempt e fuel root p) as [[s|]| | |]; cbn [bind]; try reflexivity.
  destruct (if rtl then p <=? 0 else tlen e <=? p); [reflexivity|]. apply IH.
Qed.

Corollary mask_find e fuel root rtl start prevlen :
  find e fuel (mask_node root) rtl start prevlen = find e fuel root rtl start prevlen.
Proof.
  unfold find. destruct ((prevlen =? 0) && (start =? (if rtl then 0 else tlen e))); [reflexivity|].
  apply mask_scan_from.
Qed.

(* the same for the continuation-passing search; stated up to pointwise-equal continuations so
   that no functional extensionality is needed *)
Lemma mask_or_else_ext (a1 a2 : res (option st)) (b1 b2 : unit -> res (option st)) :
  a1 = a2 -> b1 tt = b2 tt -> or_else a1 b1 = or_else a2 b2.
Proof.
  intros Ha Hb. subst a2. unfold or_else. destruct a1 as [[y|]| | |]; cbn [bind]; try reflexivity.
  exact Hb.
Qed.

Lemma mask_first_some_ext (k1 k2 : kont) : (forall x, k1 x = k2 x) ->
  forall l, first_some k1 l = first_some k2 l.
Proof.
  intros H. induction l as [|x l IH]; cbn [first_some]; [reflexivity|]. rewrite H, IH. reflexivity.
Qed.

Lemma mask_iterk_ext (b1 b2 : st -> kont -> res (option st)) :
  (forall s ka kb, (forall x, ka x = kb x) -> b1 s ka = b2 s kb) ->
  forall fuel lazy limit s mark count k1 k2, (forall x, k1 x = k2 x) ->
    iterk fuel b1 lazy limit s mark count k1 = iterk fuel b2 lazy limit s mark count k2.
Proof.
  intros Hb. induction fuel as [|f IH]; intros lazy limit s mark count k1 k2 Hk; [reflexivity|].
  cbn [iterk].
  assert (Hagain :
    b1 s (fun s' => iterk f b1 lazy limit s' (pos s) (count + 1) k1) =
    b2 s (fun s' => iterk f b2 lazy limit s' (pos s) (count + 1) k2)).
  { apply Hb. intros x. apply IH. exact Hk. }
  destruct lazy.
  - destruct (count <? 0); [exact Hagain|].
    apply mask_or_else_ext; [apply Hk|].
    destruct ((count <? limit) && negb (pos s =? mark)); [exact Hagain|reflexivity].
  - destruct ((limit <=? count) || ((pos s =? mark) && (0 <=? count))); [apply Hk|].
    apply mask_or_else_ext; [exact Hagain|].
    destruct (0 <=? count); [apply Hk|reflexivity].
Qed.

Theorem mask_semk_ext : forall e fuel t s k1 k2, (forall x, k1 x = k2 x) ->
  semk e fuel (mask_node t) s k1 = semk e fuel t s k2.
Proof.
  intros e. induction fuel as [|f IH]; intros t s k1 k2 Hk; [reflexivity|].
  destruct t as [kd o c|kd lk o c m n|o str|o g|a| | | |o cl|o cl|lazy o m n r|o g u r|r|o r|o r|r
                |o g yes no|o c yes no];
    cbn [mask_node semk].
  - rewrite mask_avail, mask_next_char, mask_dir, Hk. reflexivity.
  - rewrite mask_sem_charloop. apply mask_first_some_ext. exact Hk.
  - rewrite mask_sem_multi. apply mask_first_some_ext. exact Hk.
  - rewrite mask_sem_ref. apply mask_first_some_ext. exact Hk.
  - rewrite Hk. reflexivity.
  - reflexivity.
  - apply Hk.
  - apply Hk.
  - (* NConcat *)
    revert s k1 k2 Hk. induction cl as [|x l' IHl]; intros s k1 k2 Hk; [apply Hk|].
    cbn [map]. apply IH. intros s'. apply IHl. exact Hk.
  - (* NAlternate *)
    induction cl as [|x l' IHl]; [reflexivity|].
    cbn [map]. apply mask_or_else_ext; [apply IH; exact Hk|exact IHl].
  - (* NLoop *)
    pose proof (mask_iterk_ext (semk e f (mask_node r)) (semk e f r) (IH r)) as HI.
    destruct (m =? 0).
    + apply HI. exact Hk.
    + apply IH. intros s'. apply HI. exact Hk.
  - (* NCapture *)
    destruct (u =? -1).
    + apply IH. intros s'. apply Hk.
    + apply IH. intros s'. destruct (cap_get u (caps s')); [reflexivity|apply Hk].
  - apply IH. exact Hk.
  - rewrite (IH r s k_first k_first (fun _ => eq_refl)).
    destruct (semk e f r s k_first) as [[s'|]| | |]; cbn [bind]; try reflexivity. apply Hk.
  - rewrite (IH r s k_first k_first (fun _ => eq_refl)).
    destruct (semk e f r s k_first) as [[s'|]| | |]; cbn [bind]; try reflexivity. apply Hk.
  - rewrite (IH r s k_first k_first (fun _ => eq_refl)).
    destruct (semk e f r s k_first) as [[s'|]| | |]; cbn [bind]; try reflexivity. apply Hk.
  - (* NBackRefCond *)
    destruct (is_matched g (caps s)); [apply IH; exact Hk|].
    destruct no as [n|]; cbn [mask_opt_node]; [apply IH; exact Hk|apply Hk].
  - (* NExprCond *)
    rewrite (IH c s k_first k_first (fun _ => eq_refl)).
    destruct (semk e f c s k_first) as [[s'|]| | |]; cbn [bind]; try reflexivity.
    + apply IH. exact Hk.
    + destruct no as [n|]; cbn [mask_opt_node]; [apply IH; exact Hk|apply Hk].
Qed.

Corollary mask_semk e fuel t s k : semk e fuel (mask_node t) s k = semk e fuel t s k.
Proof. apply mask_semk_ext. reflexivity. Qed.

Corollary mask_attemptk e fuel root p : attemptk e fuel (mask_node root) p = attemptk e fuel root p.
Proof. unfold attemptk. apply mask_semk. Qed.

Lemma mask_scank_from e fuel root rtl : forall n p,
  scank_from e fuel n (mask_node root) rtl p = scank_from e fuel n root rtl p.
Proof.
  induction n as [|n IH]; intros p; [reflexivity|].
  cbn [scank_from]. rewrite mask_attemptk.
  destruct (attemptk e fuel root p) as [[s|]| | |]; cbn [bind]; try reflexivity.
  destruct (if rtl then p <=? 0 else tlen e <=? p); [reflexivity|]. apply IH.
Qed.

Corollary mask_findk e fuel root rtl start prevlen :
  findk e fuel (mask_node root) rtl start prevlen = findk e fuel root rtl start prevlen.
Proof.
  unfold findk. destruct ((prevlen =? 0) && (start =? (if rtl then 0 else tlen e))); [reflexivity|].
  apply mask_scank_from.
Qed.

(* ------------------------------------------------------------------------------------------ *)
(* (ii) the writer                                                                             *)

Lemma mask_bits_of o : bits_of (mask_opts o) = bits_of o.
Proof. unfold bits_of. rewrite mask_is_rtl, mask_is_ci. reflexivity. Qed.

(* named copies of the writer's local loops (convertible with them: see wr_*_eq below) *)
Section WriterLoops.
  Variable c : wcfg.

  Fixpoint csize_seq (l : list node) : Z :=
    match l with [] => 0 | x :: l' => csize c x + csize_seq l' end.

  Fixpoint csize_alt (l : list node) : Z :=
    match l with
    | [] => 0
    | [x] => csize c x
    | x :: l' => 2 + csize c x + 2 + csize_alt l'
    end.

  Fixpoint emit_seq (l : list node) (a : Z) (tbl : list (list Z)) : list Z * list (list Z) :=
    match l with
    | [] => ([], tbl)
    | x :: l' => let '(cx, t1) := emit c x a tbl in
                 let '(cr, t2) := emit_seq l' (a + zlen cx) t1 in (cx ++ cr, t2)
    end.

  Variable lend : Z.
  Fixpoint emit_alt (l : list node) (a : Z) (tbl : list (list Z)) : list Z * list (list Z) :=
    match l with
    | [] => ([], tbl)
    | [x] => emit c x a tbl
    | x :: l' =>
        let '(cx, t1) := emit c x (a + 2) tbl in
        let nxt := a + 2 + zlen cx + 2 in
        let '(cr, t2) := emit_alt l' nxt t1 in
        ([Lazybranch; nxt] ++ cx ++ [Goto; lend] ++ cr, t2)
    end.
End WriterLoops.

Lemma wr_csize_concat_eq c o l : csize c (NConcat o l) = csize_seq c l.
Proof. reflexivity. Qed.
Lemma wr_csize_alternate_eq c o l : csize c (NAlternate o l) = csize_alt c l.
Proof. reflexivity. Qed.
Lemma wr_emit_concat_eq c o l a tbl : emit c (NConcat o l) a tbl = emit_seq c l a tbl.
Proof. reflexivity. Qed.
Lemma wr_emit_alternate_eq c o l a tbl :
  emit c (NAlternate o l) a tbl = emit_alt c (a + csize c (NAlternate o l)) l a tbl.
Proof. reflexivity. Qed.

Lemma wr_csize_alt_cons2 c x y l : csize_alt c (x :: y :: l) = 2 + csize c x + 2 + csize_alt c (y :: l).
Proof. reflexivity. Qed.
Lemma wr_emit_alt_cons2 c lend x y l a tbl :
  emit_alt c lend (x :: y :: l) a tbl =
  let '(cx, t1) := emit c x (a + 2) tbl in
  let nxt := a + 2 + zlen cx + 2 in
  let '(cr, t2) := emit_alt c lend (y :: l) nxt t1 in
  ([Lazybranch; nxt] ++ cx ++ [Goto; lend] ++ cr, t2).
Proof. reflexivity. Qed.

Theorem mask_csize c : forall t, csize c (mask_node t) = csize c t.
Proof.
  induction t as [kd o ch|kd lk o ch m n|o str|o g|a| | | |o l HF|o l HF|lazy o m n r IHr|o g u r IHr
                 |r IHr|o r IHr|o r IHr|r IHr|o g yes no IHy IHn|o cnd yes no IHc IHy IHn]
    using node_ind'; cbn [mask_node]; try reflexivity.
  - (* NConcat *)
    rewrite !wr_csize_concat_eq.
    induction HF as [|x l Hx HF IH]; [reflexivity|].
    cbn [map csize_seq]. rewrite Hx, IH. reflexivity.
  - (* NAlternate *)
    rewrite !wr_csize_alternate_eq.
    induction HF as [|x l Hx HF IH]; [reflexivity|].
    destruct l as [|y l].
    + cbn [map csize_alt]. exact Hx.
    + cbn [map] in IH |- *. rewrite !wr_csize_alt_cons2. rewrite Hx, IH. reflexivity.
  - cbn [csize]. rewrite IHr. reflexivity.
  - cbn [csize]. rewrite IHr. reflexivity.
  - cbn [csize]. exact IHr.
  - cbn [csize]. rewrite IHr. reflexivity.
  - cbn [csize]. rewrite IHr. reflexivity.
  - cbn [csize]. rewrite IHr. reflexivity.
  - cbn [csize]. rewrite IHy. destruct no as [x|]; cbn [mask_opt_node opt_all] in *; [rewrite IHn|]; reflexivity.
  - cbn [csize]. rewrite IHc, IHy. destruct no as [x|]; cbn [mask_opt_node opt_all] in *; [rewrite IHn|]; reflexivity.
Qed.

Theorem mask_emit c : forall t a tbl, emit c (mask_node t) a tbl = emit c t a tbl.
Proof.
  induction t as [kd o ch|kd lk o ch m n|o str|o g|an| | | |o l HF|o l HF|lazy o m n r IHr|o g u r IHr
                 |r IHr|o r IHr|o r IHr|r IHr|o g yes no IHy IHn|o cnd yes no IHc IHy IHn]
    using node_ind'; intros a tbl; cbn [mask_node]; try reflexivity.
  - cbn [emit]. rewrite mask_bits_of. reflexivity.
  - cbn [emit]. rewrite mask_bits_of. reflexivity.
  - cbn [emit]. rewrite mask_bits_of. reflexivity.
  - cbn [emit]. rewrite mask_bits_of. reflexivity.
  - (* NConcat *)
    rewrite !wr_emit_concat_eq. revert a tbl.
    induction HF as [|x l Hx HF IH]; intros a tbl; [reflexivity|].
    cbn [map emit_seq]. rewrite Hx. destruct (emit c x a tbl) as [cx t1]. rewrite IH. reflexivity.
  - (* NAlternate *)
    rewrite !wr_emit_alternate_eq.
    change (NAlternate (mask_opts o) (map mask_node l)) with (mask_node (NAlternate o l)).
    rewrite mask_csize.
    generalize (a + csize c (NAlternate o l)) as lend. intros lend. revert a tbl.
    induction HF as [|x l Hx HF IH]; intros a tbl; [reflexivity|].
    destruct l as [|y l].
    + cbn [map emit_alt]. apply Hx.
    + cbn [map] in IH |- *. rewrite !wr_emit_alt_cons2. rewrite Hx.
      destruct (emit c x (a + 2) tbl) as [cx t1]. cbv zeta. rewrite IH. reflexivity.
  - cbn [emit]. rewrite IHr. reflexivity.
  - cbn [emit]. rewrite !IHr. reflexivity.
  - cbn [emit]. apply IHr.
  - cbn [emit]. rewrite IHr. reflexivity.
  - cbn [emit]. rewrite IHr. reflexivity.
  - cbn [emit]. rewrite IHr. reflexivity.
  - cbn [emit]. rewrite IHy. destruct (emit c yes (a + 6) tbl) as [cy t1].
    destruct no as [x|]; cbn [mask_opt_node opt_all] in *; [rewrite IHn|]; reflexivity.
  - cbn [emit]. rewrite IHc. destruct (emit c cnd (a + 4) tbl) as [cc t1].
    rewrite IHy. destruct (emit c yes (a + 4 + zlen cc + 2) t1) as [cy t2].
    destruct no as [x|]; cbn [mask_opt_node opt_all] in *; [rewrite IHn|]; reflexivity.
Qed.

Theorem mask_compile c t : compile c (mask_node t) = compile c t.
Proof. unfold compile. rewrite mask_emit. reflexivity. Qed.

Corollary mask_write_full capmap t : write_full capmap (mask_node t) = write_full capmap t.
Proof. unfold write_full. apply mask_compile. Qed.

Corollary mask_write_quick capmap capsize t :
  write_quick capmap capsize (mask_node t) = write_quick capmap capsize t.
Proof. unfold write_quick. rewrite mask_write_full, mask_compile. reflexivity. Qed.
