(* Proofs for C09, part 2: the replacement-string parser and NewReplacerData. *)
From Verif Require Import Base.Prelude Gen.ReplaceGen Model.Escape Model.Replace Proofs.ReplaceProofs.
From Coq Require Import ZifyBool.

(* neither a Go run-time fault nor the model's own fuel running out *)
Definition good {A} (r : res A) : Prop :=
  match r with Ok _ | Err _ => True | Crash _ | Fuel => False end.

Lemma good_bind {A B} (r : res A) (k : A -> res B) :
  good r -> (forall a, r = Ok a -> good (k a)) -> good (bind r k).
Proof. destruct r; cbn; intros H1 H2; try exact I; try contradiction. apply H2. reflexivity. Qed.

(* ------------------------------------------------------------------------------------------ *)
(** * The sub-scanners consume input and never fault                                            *)

Lemma scan_hex_loop_len (c : nat) (i : Z) (p : list Z) (v : Z) (p' : list Z) :
  scan_hex_loop c i p = Ok (v, p') -> (length p' <= length p)%nat.
Proof.
  revert i p. induction c as [|c IH]; intros i p H; cbn [scan_hex_loop] in H.
  - inversion H; subst. lia.
  - destruct p as [|ch p]; [discriminate|]. destruct (hex_digit ch <? 0); [discriminate|].
    apply IH in H. cbn [length]. lia.
Qed.
Lemma scan_hex_loop_good (c : nat) (i : Z) (p : list Z) : good (scan_hex_loop c i p).
Proof.
  revert i p. induction c as [|c IH]; intros i p; cbn [scan_hex_loop]; [exact I|].
  destruct p as [|ch p]; [exact I|]. destruct (hex_digit ch <? 0); [exact I|apply IH].
Qed.
Lemma scan_hex_len (c : nat) (p : list Z) (v : Z) (p' : list Z) :
  scan_hex c p = Ok (v, p') -> (length p' <= length p)%nat.
Proof. unfold scan_hex. destruct (Nat.leb c (length p)); [apply scan_hex_loop_len|discriminate]. Qed.
Lemma scan_hex_good (c : nat) (p : list Z) : good (scan_hex c p).
Proof. unfold scan_hex. destruct (Nat.leb c (length p)); [apply scan_hex_loop_good|exact I]. Qed.

Lemma scan_hex_brace_len (i : Z) (has : bool) (p : list Z) (v : Z) (p' : list Z) :
  scan_hex_brace i has p = Ok (v, p') -> (length p' <= length p)%nat.
Proof.
  revert i has. induction p as [|ch p IH]; intros i has H; cbn [scan_hex_brace] in H; [discriminate|].
  destruct (ch =? 125).
  - destruct has; [|discriminate]. inversion H; subst. cbn [length]. lia.
  - destruct (hex_digit ch <? 0); [discriminate|]. destruct (1114111 <? i * 16 + hex_digit ch); [discriminate|].
    apply IH in H. cbn [length]. lia.
Qed.
Lemma scan_hex_brace_good (i : Z) (has : bool) (p : list Z) : good (scan_hex_brace i has p).
Proof.
  revert i has. induction p as [|ch p IH]; intros i has; cbn [scan_hex_brace]; [exact I|].
  destruct (ch =? 125); [destruct has; exact I|].
  destruct (hex_digit ch <? 0); [exact I|]. destruct (1114111 <? i * 16 + hex_digit ch); [exact I|apply IH].
Qed.

Section ParserFacts.
Variable is_word_char : Z -> bool.
Variable is_ecma_start : Z -> bool.
Variable is_ecma_char : Z -> bool.
Variable env : penv.

Notation scan_dollar := (scan_dollar is_word_char is_ecma_start is_ecma_char env).
Notation scan_capname := (scan_capname is_word_char is_ecma_start is_ecma_char env).
Notation scan_ecma_capname_go := (scan_ecma_capname_go is_ecma_start is_ecma_char env).
Notation scan_replacement_go := (scan_replacement_go is_word_char is_ecma_start is_ecma_char env).
Notation new_replacer_data := (new_replacer_data is_word_char is_ecma_start is_ecma_char env).

Lemma scan_decimal_go_len (i : Z) (p : list Z) (v : Z) (p' : list Z) :
  scan_decimal_go i p = Ok (v, p') -> (length p' <= length p)%nat.
Proof.
  revert i. induction p as [|ch p IH]; intros i H; cbn [scan_decimal_go] in H.
  - inversion H; subst. lia.
  - destruct ((ch - 48 <? 0) || (9 <? ch - 48)).
    + inversion H; subst. lia.
    + destruct ((rg_maxValueDiv10 <? i) || (i =? rg_maxValueDiv10) && (rg_maxValueMod10 <? ch - 48)); [discriminate|].
      apply IH in H. cbn [length]. lia.
Qed.
Lemma scan_decimal_go_good (i : Z) (p : list Z) : good (scan_decimal_go i p).
Proof.
  revert i. induction p as [|ch p IH]; intros i; cbn [scan_decimal_go]; [exact I|].
  destruct ((ch - 48 <? 0) || (9 <? ch - 48)); [exact I|].
  destruct ((rg_maxValueDiv10 <? i) || (i =? rg_maxValueDiv10) && (rg_maxValueMod10 <? ch - 48)); [exact I|apply IH].
Qed.

Lemma ecma_digits_len (K : nat) (n : Z) (best : option (Z * list Z)) (p : list Z) (c : Z) (r : list Z) :
  (forall c' r', best = Some (c', r') -> (length r' <= K)%nat) -> (length p <= K)%nat ->
  ecma_digits env n best p = Ok (Some (c, r)) -> (length r <= K)%nat.
Proof.
  revert n best. induction p as [|ch p IH]; intros n best Hb Hp H; cbn [ecma_digits] in H.
  - inversion H; subst. eapply Hb; reflexivity.
  - destruct (negb (is_digit ch)).
    + inversion H; subst. eapply Hb; reflexivity.
    + destruct ((rg_maxValueDiv10 <? n) || (n =? rg_maxValueDiv10) && (rg_maxValueMod10 <? ch - 48)); [discriminate|].
      cbn [length] in Hp. eapply IH; [| |exact H]; [|lia].
      intros c' r'. destruct (is_capture_slot env (n * 10 + (ch - 48))).
      * intros E; inversion E; subst. lia.
      * apply Hb.
Qed.
Lemma ecma_digits_good (n : Z) (best : option (Z * list Z)) (p : list Z) : good (ecma_digits env n best p).
Proof.
  revert n best. induction p as [|ch p IH]; intros n best; cbn [ecma_digits]; [exact I|].
  destruct (negb (is_digit ch)); [exact I|].
  destruct ((rg_maxValueDiv10 <? n) || (n =? rg_maxValueDiv10) && (rg_maxValueMod10 <? ch - 48)); [exact I|apply IH].
Qed.

Lemma scan_word_len (p a b : list Z) : scan_word is_word_char p = (a, b) -> (length b <= length p)%nat.
Proof.
  revert a b. induction p as [|ch p IH]; intros a b H; cbn [scan_word] in H.
  - inversion H; subst. lia.
  - destruct (is_word_char ch).
    + destruct (scan_word is_word_char p) as [a' b'] eqn:E. inversion H; subst.
      specialize (IH _ _ eq_refl). cbn [length]. lia.
    + inversion H; subst. lia.
Qed.

Lemma scan_ecma_capname_go_len (fuel : nat) (index : Z) (acc p acc' p' : list Z) :
  scan_ecma_capname_go fuel index acc p = Ok (acc', p') -> (length p' <= length p)%nat.
Proof.
  revert index acc p. induction fuel as [|f IH]; intros index acc p H; cbn [Replace.scan_ecma_capname_go] in H; [discriminate|].
  destruct p as [|ch p1]; [inversion H; subst; lia|].
  destruct (ch =? 92).
  - destruct p1 as [|u p2]; [discriminate|]. destruct (negb (u =? 117)); [discriminate|].
    match type of H with bind ?X _ = _ => destruct X as [[c p3]| | |] eqn:EX end; try discriminate.
    cbn [bind] in H.
    assert (length p3 <= length p2)%nat as Hl.
    { destruct p2 as [|b p2'].
      - apply scan_hex_len in EX. exact EX.
      - destruct (b =? 123).
        + destruct (use_u env); [|discriminate]. apply scan_hex_brace_len in EX. cbn [length]. lia.
        + apply scan_hex_len in EX. exact EX. }
    destruct (negb (if index =? 0 then is_ecma_start c else is_ecma_char c)); [discriminate|].
    apply IH in H. cbn [length]. lia.
  - destruct (negb (if index =? 0 then is_ecma_start ch else is_ecma_char ch)).
    + inversion H; subst. lia.
    + apply IH in H. cbn [length]. lia.
Qed.

Lemma scan_ecma_capname_go_good (fuel : nat) (index : Z) (acc p : list Z) :
  (length p < fuel)%nat -> good (scan_ecma_capname_go fuel index acc p).
Proof.
  revert index acc p. induction fuel as [|f IH]; intros index acc p Hf; [lia|]. cbn [Replace.scan_ecma_capname_go].
  destruct p as [|ch p1]; [exact I|]. cbn [length] in Hf.
  destruct (ch =? 92).
  - destruct p1 as [|u p2]; [exact I|]. destruct (negb (u =? 117)); [exact I|]. cbn [length] in Hf.
    apply good_bind.
    + destruct p2 as [|b p2']; [apply scan_hex_good|]. destruct (b =? 123); [|apply scan_hex_good].
      destruct (use_u env); [apply scan_hex_brace_good|exact I].
    + intros [c p3] EX.
      assert (length p3 <= length p2)%nat as Hl.
      { destruct p2 as [|b p2'].
        - apply scan_hex_len in EX. exact EX.
        - destruct (b =? 123).
          + destruct (use_u env); [|discriminate]. apply scan_hex_brace_len in EX. cbn [length]. lia.
          + apply scan_hex_len in EX. exact EX. }
      destruct (negb (if index =? 0 then is_ecma_start c else is_ecma_char c)); [exact I|].
      apply IH. lia.
  - destruct (negb (if index =? 0 then is_ecma_start ch else is_ecma_char ch)); [exact I|].
    apply IH. lia.
Qed.

Lemma scan_capname_len (p name rest : list Z) : scan_capname p = Ok (name, rest) -> (length rest <= length p)%nat.
Proof.
  unfold Replace.scan_capname. destruct (use_e env).
  - destruct (scan_ecma_capname_go (S (length p)) 0 [] p) as [[a r]| | |] eqn:E; try discriminate.
    cbn [bind]. intros H; inversion H; subst. eapply scan_ecma_capname_go_len; exact E.
  - intros H. inversion H as [H1]. eapply scan_word_len; exact H1.
Qed.
Lemma scan_capname_good (p : list Z) : good (scan_capname p).
Proof.
  unfold Replace.scan_capname. destruct (use_e env); [|exact I].
  apply good_bind; [apply scan_ecma_capname_go_good; lia|]. intros [a r] _. exact I.
Qed.

(* node kinds produced by the replacement parser *)
Definition node_kind_ok (n : rnode) : Prop := n_t n = rg_NtOne \/ n_t n = rg_NtMulti \/ n_t n = rg_NtRef.

Lemma scan_dollar_len (p : list Z) (n : rnode) (rest : list Z) :
  scan_dollar p = Ok (n, rest) -> (length rest <= length p)%nat /\ node_kind_ok n.
Proof.
  unfold Replace.scan_dollar. destruct p as [|ch0 p0].
  { intros H; inversion H; subst. split; [lia|left; reflexivity]. }
  set (angled := (ch0 =? 123) && (1 <? zlen (ch0 :: p0))).
  assert (forall n r, Ok (mk_one 36, ch0 :: p0) = Ok (n, r) -> (length r <= length (ch0 :: p0))%nat /\ node_kind_ok n) as Hlit.
  { intros n' r' H. inversion H; subst. split; [lia|left; reflexivity]. }
  destruct (if angled then p0 else ch0 :: p0) as [|ch q1] eqn:Eq; [discriminate|].
  assert (length (ch :: q1) <= length (ch0 :: p0))%nat as Hq.
  { destruct angled; [subst p0; cbn [length]; lia|inversion Eq; subst; lia]. }
  destruct (is_digit ch).
  - destruct (negb angled && use_e env).
    + destruct (ecma_digits env (ch - 48) (if is_capture_slot env (ch - 48) then Some (ch - 48, q1) else None) q1)
        as [r| | |] eqn:E; try discriminate. cbn [bind].
      destruct r as [[capnum rest']|]; [|apply Hlit].
      destruct (0 <=? capnum); [|apply Hlit]. intros H; inversion H; subst. split; [|right; right; reflexivity].
      assert (length rest <= length q1)%nat as Hr.
      { eapply (ecma_digits_len (length q1)); [| |exact E]; [|lia].
        intros c' r'. destruct (is_capture_slot env (ch - 48)); [|discriminate]. intros E'; inversion E'; subst. lia. }
      cbn [length] in *. lia.
    + unfold scan_decimal. destruct (scan_decimal_go 0 (ch :: q1)) as [[capnum q2]| | |] eqn:E; try discriminate.
      cbn [bind]. apply scan_decimal_go_len in E.
      destruct (negb angled).
      * destruct (true && is_capture_slot env capnum); [|apply Hlit].
        intros H; inversion H; subst. split; [lia|right; right; reflexivity].
      * destruct q2 as [|c q3].
        -- cbn [andb]. apply Hlit.
        -- destruct ((c =? 125) && is_capture_slot env capnum); [|apply Hlit].
           intros H; inversion H; subst. cbn [length] in *. split; [lia|right; right; reflexivity].
  - destruct (angled && is_group_name_start is_word_char is_ecma_start env ch).
    + destruct (scan_capname (ch :: q1)) as [[name q2]| | |] eqn:E; try discriminate; [|apply Hlit].
      apply scan_capname_len in E. destruct q2 as [|c q3]; [apply Hlit|].
      destruct ((c =? 125) && is_capture_name env name); [|apply Hlit].
      intros H; inversion H; subst. cbn [length] in *. split; [lia|right; right; reflexivity].
    + destruct (negb angled); [|apply Hlit].
      destruct (ch =? 36).
      * intros H; inversion H; subst. cbn [length] in *. split; [lia|left; reflexivity].
      * destruct (negb (special_capnum ch =? 1)); [|apply Hlit].
        intros H; inversion H; subst. cbn [length] in *. split; [lia|right; right; reflexivity].
Qed.

Lemma scan_dollar_good (p : list Z) : good (scan_dollar p).
Proof.
  unfold Replace.scan_dollar. destruct p as [|ch0 p0]; [exact I|].
  destruct ((ch0 =? 123) && (1 <? zlen (ch0 :: p0))) eqn:Ea.
  - destruct p0 as [|ch q1]; [rewrite zlen_cons in Ea; change (zlen (@nil Z)) with 0 in Ea; lia|].
    destruct (is_digit ch).
    + cbn [negb andb]. apply good_bind; [apply scan_decimal_go_good|]. intros [capnum q2] _.
      destruct q2 as [|c q3]; [exact I|]. destruct ((c =? 125) && is_capture_slot env capnum); exact I.
    + cbn [andb negb]. destruct (is_group_name_start is_word_char is_ecma_start env ch); [|exact I].
      pose proof (scan_capname_good (ch :: q1)) as Hg.
      destruct (scan_capname (ch :: q1)) as [[name q2]| | |]; try exact I; try contradiction.
      destruct q2 as [|c q3]; [exact I|]. destruct ((c =? 125) && is_capture_name env name); exact I.
  - destruct (is_digit ch0).
    + cbn [negb andb]. destruct (use_e env).
      * apply good_bind; [apply ecma_digits_good|]. intros [[capnum rest]|] _; [|exact I].
        destruct (0 <=? capnum); exact I.
      * apply good_bind; [apply scan_decimal_go_good|]. intros [capnum q2] _.
        cbn [andb]. destruct (is_capture_slot env capnum); exact I.
    + cbn [andb negb]. destruct (ch0 =? 36); [exact I|]. destruct (negb (special_capnum ch0 =? 1)); exact I.
Qed.

Lemma span_dollar_spec (p run rest : list Z) :
  span_dollar p = (run, rest) ->
  p = run ++ rest /\ ~ In 36 run /\ (rest = [] \/ exists after, rest = 36 :: after).
Proof.
  revert run rest. induction p as [|ch p IH]; intros run rest H; cbn [span_dollar] in H.
  - inversion H; subst. repeat split; auto.
  - destruct (ch =? 36) eqn:E.
    + inversion H; subst. assert (ch = 36) as -> by lia. repeat split; auto. right. eexists; reflexivity.
    + destruct (span_dollar p) as [a b]. inversion H; subst. destruct (IH _ _ eq_refl) as (H1 & H2 & H3).
      repeat split; [cbn [app]; congruence| |exact H3].
      intros [Hc|Hc]; [lia|contradiction].
Qed.

Lemma add_to_concatenate_kinds (run : list Z) : Forall node_kind_ok (add_to_concatenate run).
Proof.
  destruct run as [|c [|c' run]]; cbn [add_to_concatenate].
  - constructor.
  - constructor; [left; reflexivity|constructor].
  - constructor; [right; left; reflexivity|constructor].
Qed.

Lemma scan_replacement_go_good (fuel : nat) (p : list Z) :
  (length p < fuel)%nat -> good (scan_replacement_go fuel p).
Proof.
  revert p. induction fuel as [|f IH]; intros p Hf; [lia|]. cbn [Replace.scan_replacement_go].
  destruct p as [|c p']; [exact I|].
  destruct (span_dollar (c :: p')) as [run rest] eqn:Es.
  destruct (span_dollar_spec _ _ _ Es) as (Hp & _ & Hr).
  destruct rest as [|d after]; [exact I|].
  assert (length after < length (c :: p'))%nat as Hlen.
  { rewrite Hp, app_length. cbn [length]. lia. }
  apply good_bind; [apply scan_dollar_good|]. intros [n rest'] E. apply scan_dollar_len in E as (E & _).
  apply good_bind; [apply IH; lia|]. intros more _. exact I.
Qed.

Lemma scan_replacement_go_kinds (fuel : nat) (p : list Z) (nodes : list rnode) :
  scan_replacement_go fuel p = Ok nodes -> Forall node_kind_ok nodes.
Proof.
  revert p nodes. induction fuel as [|f IH]; intros p nodes H; [discriminate|]. cbn [Replace.scan_replacement_go] in H.
  destruct p as [|c p']; [inversion H; constructor|].
  destruct (span_dollar (c :: p')) as [run rest] eqn:Es.
  destruct rest as [|d after].
  - inversion H; subst. apply add_to_concatenate_kinds.
  - destruct (scan_dollar after) as [[n rest']| | |] eqn:E; try discriminate. cbn [bind] in H.
    destruct (scan_replacement_go f rest') as [more| | |] eqn:E2; try discriminate. cbn [bind] in H.
    inversion H; subst. apply Forall_app. split; [apply add_to_concatenate_kinds|].
    constructor; [apply scan_dollar_len in E; tauto|]. eapply IH; exact E2.
Qed.

Lemma build_rules_good (children : list rnode) (sb : list Z) (strings : list (list Z)) (rules : list Z) :
  Forall node_kind_ok children -> good (build_rules env children sb strings rules).
Proof.
  revert sb strings rules. induction children as [|c rest IH]; intros sb strings rules HF; cbn [build_rules].
  - destruct (flush sb strings rules). exact I.
  - inversion HF as [|? ? Hc HF']; subst.
    destruct (n_t c =? rg_NtMulti) eqn:E1; [apply IH; assumption|].
    destruct (n_t c =? rg_NtOne) eqn:E2; [apply IH; assumption|].
    destruct (n_t c =? rg_NtRef) eqn:E3.
    + destruct (flush sb strings rules). apply IH; assumption.
    + destruct Hc as [Hc|[Hc|Hc]]; lia.
Qed.

(* replacer_data_no_panic: NewReplacerData never reaches one of its panics (and the model's fuel
   is sufficient): the result is data or a parse error. *)
Lemma new_replacer_data_good (rep : list Z) : good (new_replacer_data rep).
Proof.
  unfold Replace.new_replacer_data, scan_replacement. apply good_bind.
  - apply good_bind; [apply scan_replacement_go_good; lia|]. intros; exact I.
  - intros [t children] H.
    destruct (scan_replacement_go (S (length rep)) rep) as [ch| | |] eqn:E; try discriminate.
    cbn [bind] in H. inversion H; subst. rewrite Z.eqb_refl. cbn [negb].
    apply build_rules_good. eapply scan_replacement_go_kinds; exact E.
Qed.

End ParserFacts.

(* ------------------------------------------------------------------------------------------ *)
(** * NewReplacerData: rules = compiled items, and they fit the matches of the Regexp           *)

Definition items_of_node (nd : rnode) : list item :=
  if n_t nd =? rg_NtMulti then map ILit (n_str nd)
  else if n_t nd =? rg_NtOne then [ILit (n_ch nd)]
  else [IRef (n_m nd)].
Definition items_of_nodes (l : list rnode) : list item := flat_map items_of_node l.

Definition group_num_ok (env : penv) (m : Z) : Prop :=
  match pe_caps env with
  | None => m < pe_capsize env
  | Some l => zlist_assoc m l <> None
  end.
Definition ref_ok (env : penv) (m : Z) : Prop := (-4 <= m /\ m < 0) \/ (0 <= m /\ group_num_ok env m).
Definition node_wf (env : penv) (nd : rnode) : Prop :=
  n_t nd = rg_NtOne \/ n_t nd = rg_NtMulti \/ (n_t nd = rg_NtRef /\ ref_ok env (n_m nd)).

Lemma zlist_assoc_In {B} (k : Z) (l : list (Z * B)) (v : B) : zlist_assoc k l = Some v -> In (k, v) l.
Proof.
  induction l as [|[k' v'] l IH]; cbn [zlist_assoc]; [discriminate|].
  destruct (k =? k') eqn:E; [|intros H; right; apply IH; exact H].
  intros H; inversion H; subst. left. f_equal. lia.
Qed.

Lemma zlist_eqb_eq (a b : list Z) : zlist_eqb a b = true -> a = b.
Proof.
  revert b. induction a as [|x a IH]; intros [|y b]; cbn [zlist_eqb]; try discriminate; [reflexivity|].
  intros H. apply andb_prop in H as (H1 & H2). f_equal; [lia|apply IH; exact H2].
Qed.

Lemma name_assoc_In {B} (k : list Z) (l : list (list Z * B)) (v : B) : name_assoc k l = Some v -> In (k, v) l.
Proof.
  induction l as [|[k' v'] l IH]; cbn [name_assoc]; [discriminate|].
  destruct (zlist_eqb k k') eqn:E; [|intros H; right; apply IH; exact H].
  intros H; inversion H; subst. left. f_equal. symmetry. apply zlist_eqb_eq. exact E.
Qed.

Lemma compile_items_lits (env : penv) (s : list Z) (rest : list item) (sb : list Z) :
  compile_items env (map ILit s ++ rest) sb = compile_items env rest (sb ++ s).
Proof.
  revert sb. induction s as [|c s IH]; intros sb; cbn [map app compile_items].
  - rewrite app_nil_r. reflexivity.
  - rewrite IH. rewrite <- app_assoc. reflexivity.
Qed.

Lemma tok_of_rule_mono (strings more : list (list Z)) (r : Z) (t : rtok) :
  tok_of_rule strings r = Some t -> tok_of_rule (strings ++ more) r = Some t.
Proof.
  unfold tok_of_rule. destruct (0 <=? r) eqn:E; [|auto].
  destruct (znth strings r) eqn:N; [|discriminate]. intros H.
  assert (r < zlen strings) as Hlt.
  { unfold znth in N. destruct (r <? 0); [discriminate|].
    assert (nth_error strings (Z.to_nat r) <> None) as Hn by congruence.
    apply nth_error_Some in Hn. unfold zlen. lia. }
  rewrite znth_app_l by exact Hlt. rewrite N. exact H.
Qed.

Lemma toks_of_rules_mono (strings more : list (list Z)) (rules : list Z) (toks : list rtok) :
  toks_of_rules strings rules = Some toks -> toks_of_rules (strings ++ more) rules = Some toks.
Proof.
  revert toks. induction rules as [|r rules IH]; intros toks H; [exact H|].
  cbn [toks_of_rules] in *. destruct (tok_of_rule strings r) eqn:Er; [|discriminate].
  destruct (toks_of_rules strings rules) eqn:E; [|discriminate].
  rewrite (tok_of_rule_mono _ more _ _ Er). rewrite (IH _ eq_refl). exact H.
Qed.

Lemma rule_ok_mono (a b n r : Z) : a <= b -> rule_ok a n r -> rule_ok b n r.
Proof. intros H (H1 & H2). split; [intros; specialize (H1 ltac:(assumption)); lia|exact H2]. Qed.

Lemma flush_spec (sb : list Z) (strings : list (list Z)) (rules : list Z) (toks0 : list rtok) (n : Z) :
  toks_of_rules strings rules = Some toks0 -> Forall (rule_ok (zlen strings) n) rules ->
  let '(s, r) := flush sb strings rules in
  toks_of_rules s r = Some (toks0 ++ (if nonempty sb then [TLit sb] else [])) /\
  Forall (rule_ok (zlen s) n) r /\ zlen strings <= zlen s.
Proof.
  intros Ht Hr. unfold flush. destruct (nonempty sb).
  - repeat split.
    + apply toks_of_rules_app; [apply toks_of_rules_mono; exact Ht|].
      cbn [toks_of_rules]. unfold tok_of_rule. pose proof (zlen_nonneg strings).
      destruct (0 <=? zlen strings) eqn:E; [|lia]. rewrite znth_app_r0. reflexivity.
    + apply Forall_app. split.
      * eapply Forall_impl; [|exact Hr]. intros r. apply rule_ok_mono. rewrite zlen_app. change (zlen [sb]) with 1. lia.
      * constructor; [|constructor]. split; [intros _; rewrite zlen_app; change (zlen [sb]) with 1; lia|].
        pose proof (zlen_nonneg strings). lia.
    + rewrite zlen_app. change (zlen [sb]) with 1. lia.
  - rewrite app_nil_r. repeat split; try assumption. lia.
Qed.

Section BuildRules.
Variable env : penv.
Variable n : Z.
Hypothesis Henv : env_ok env n.

Lemma slot_of_ok (m : Z) :
  ref_ok env m -> -4 <= slot_of env m /\ slot_of env m < n /\ (m < 0 -> slot_of env m = m).
Proof.
  destruct Henv as (Hn & Hcaps & _). unfold slot_of, caps_nonempty, caps_lookup, ref_ok, group_num_ok.
  intros [(H1 & H2)|(H1 & H2)].
  - destruct (0 <=? m) eqn:E; [lia|]. rewrite andb_false_r. repeat split; lia.
  - destruct (pe_caps env) as [l|].
    + destruct Hcaps as (HF & H0). destruct l as [|kv l]; [discriminate|].
      destruct (0 <=? m) eqn:E; [|lia]. cbn [andb].
      destruct (zlist_assoc m (kv :: l)) as [v|] eqn:Ea; [|contradiction].
      apply zlist_assoc_In in Ea. rewrite Forall_forall in HF. specialize (HF _ Ea). cbn [snd] in HF.
      repeat split; lia.
    + cbn [andb]. repeat split; lia.
Qed.

Lemma tok_of_rule_ref (strings : list (list Z)) (slot : Z) :
  -4 <= slot -> tok_of_rule strings (-5 - slot) = Some (ref_tok slot).
Proof.
  intros H. unfold tok_of_rule, ref_tok.
  destruct (0 <=? -5 - slot) eqn:E0; [lia|].
  destruct (slot =? -1) eqn:E1.
  { assert (slot = -1) as -> by lia. reflexivity. }
  destruct (slot =? -2) eqn:E2.
  { assert (slot = -2) as -> by lia. reflexivity. }
  destruct (slot =? -3) eqn:E3.
  { assert (slot = -3) as -> by lia. reflexivity. }
  destruct (slot =? -4) eqn:E4.
  { assert (slot = -4) as -> by lia. reflexivity. }
  destruct (-5 - slot =? -1) eqn:F1; [lia|]. destruct (-5 - slot =? -2) eqn:F2; [lia|].
  destruct (-5 - slot =? -3) eqn:F3; [lia|]. destruct (-5 - slot =? -4) eqn:F4; [lia|].
  f_equal. f_equal. lia.
Qed.

Lemma build_rules_spec (children : list rnode) :
  forall (sb : list Z) (strings : list (list Z)) (rules : list Z) (toks0 : list rtok),
    Forall (node_wf env) children ->
    toks_of_rules strings rules = Some toks0 -> Forall (rule_ok (zlen strings) n) rules ->
    exists d, build_rules env children sb strings rules = Ok d /\
              toks_of d = Some (toks0 ++ compile_items env (items_of_nodes children) sb) /\
              data_ok d n.
Proof.
  induction children as [|c rest IH]; intros sb strings rules toks0 HF Ht Hr; cbn [build_rules].
  - pose proof (flush_spec sb strings rules toks0 n Ht Hr) as Hfl.
    destruct (flush sb strings rules) as [s r]. destruct Hfl as (H1 & H2 & _).
    exists (mkRD s r). split; [reflexivity|]. split; [exact H1|exact H2].
  - inversion HF as [|? ? Hc HF']; subst. unfold items_of_nodes. cbn [flat_map]. fold (items_of_nodes rest).
    unfold items_of_node.
    destruct (n_t c =? rg_NtMulti) eqn:E1.
    { rewrite compile_items_lits. apply IH; assumption. }
    destruct (n_t c =? rg_NtOne) eqn:E2.
    { cbn [app compile_items]. apply IH; assumption. }
    destruct Hc as [Hc|[Hc|(Hc & Hok)]]; [lia|lia|].
    destruct (n_t c =? rg_NtRef) eqn:E3; [|lia].
    pose proof (flush_spec sb strings rules toks0 n Ht Hr) as Hfl.
    destruct (flush sb strings rules) as [s r]. destruct Hfl as (H1 & H2 & H3).
    fold (slot_of env (n_m c)). destruct (slot_of_ok _ Hok) as (Hs1 & Hs2 & Hs3).
    unfold s_replaceSpecials. change (- (4) - 1 - slot_of env (n_m c)) with (-4 - 1 - slot_of env (n_m c)).
    replace (-4 - 1 - slot_of env (n_m c)) with (-5 - slot_of env (n_m c)) by lia.
    destruct (IH [] s (r ++ [-5 - slot_of env (n_m c)])
                 ((toks0 ++ (if nonempty sb then [TLit sb] else [])) ++ [ref_tok (slot_of env (n_m c))]) HF')
      as (d & Hd1 & Hd2 & Hd3).
    + apply toks_of_rules_app; [exact H1|]. cbn [toks_of_rules]. rewrite tok_of_rule_ref by lia. reflexivity.
    + apply Forall_app. split; [exact H2|]. constructor; [|constructor]. split; lia.
    + exists d. split; [exact Hd1|]. split; [|exact Hd3]. rewrite Hd2. cbn [app compile_items].
      rewrite <- !app_assoc. reflexivity.
Qed.

End BuildRules.

(* ------------------------------------------------------------------------------------------ *)
(** * Digit runs                                                                                *)

Fixpoint span_digits (p : list Z) : list Z * list Z :=
  match p with
  | [] => ([], [])
  | c :: p' => if is_digit c then let '(a, b) := span_digits p' in (c :: a, b) else ([], p)
  end.

Lemma span_digits_spec (p : list Z) :
  let '(a, b) := span_digits p in p = a ++ b /\ digits a /\ no_digit_head b.
Proof.
  induction p as [|c p IH]; cbn [span_digits].
  - split; [reflexivity|]. split; [constructor|exact I].
  - destruct (is_digit c) eqn:E.
    + destruct (span_digits p) as [a b]. destruct IH as (H1 & H2 & H3).
      split; [cbn [app]; congruence|]. split; [constructor; assumption|exact H3].
    + split; [reflexivity|]. split; [constructor|exact E].
Qed.

Lemma digit_split_unique (ds rest : list Z) :
  digits ds -> no_digit_head rest -> span_digits (ds ++ rest) = (ds, rest).
Proof.
  intros Hd Hr. induction Hd as [|c ds Hc Hd IH]; cbn [app span_digits].
  - destruct rest as [|c rest]; [reflexivity|]. cbn [no_digit_head] in Hr. cbn [span_digits]. rewrite Hr. reflexivity.
  - rewrite Hc, IH. reflexivity.
Qed.

Lemma dval_go_app (acc : Z) (a b : list Z) : dval_go acc (a ++ b) = dval_go (dval_go acc a) b.
Proof. revert acc. induction a as [|c a IH]; intros acc; cbn [app dval_go]; [reflexivity|apply IH]. Qed.

Lemma dval_go_nonneg (acc : Z) (ds : list Z) : 0 <= acc -> digits ds -> 0 <= dval_go acc ds.
Proof.
  revert acc. induction ds as [|c ds IH]; intros acc Ha Hd; cbn [dval_go]; [exact Ha|].
  inversion Hd; subst. apply IH; [|assumption]. unfold is_digit in *. lia.
Qed.

Lemma scan_decimal_go_spec (i : Z) (p : list Z) (v : Z) (r : list Z) :
  scan_decimal_go i p = Ok (v, r) -> r = snd (span_digits p) /\ v = dval_go i (fst (span_digits p)).
Proof.
  revert i. induction p as [|ch p IH]; intros i H; cbn [scan_decimal_go span_digits] in *.
  - inversion H; subst. split; reflexivity.
  - unfold is_digit. destruct ((ch - 48 <? 0) || (9 <? ch - 48)) eqn:E.
    + inversion H; subst. destruct ((48 <=? ch) && (ch <=? 57)) eqn:E2; [lia|]. split; reflexivity.
    + destruct ((48 <=? ch) && (ch <=? 57)) eqn:E2; [|lia].
      destruct ((rg_maxValueDiv10 <? i) || (i =? rg_maxValueDiv10) && (rg_maxValueMod10 <? ch - 48)); [discriminate|].
      apply IH in H. destruct (span_digits p) as [a b]. cbn [fst snd dval_go] in *. exact H.
Qed.

Lemma app_head {A} (ds rest : list A) (c : A) (q : list A) :
  ds <> [] -> ds ++ rest = c :: q -> exists ds', ds = c :: ds' /\ ds' ++ rest = q.
Proof. destruct ds as [|d ds]; [contradiction|]. cbn [app]. intros _ H. inversion H; subst. eauto. Qed.

Lemma special_capnum_cases (c : Z) :
  special_capnum c <> 1 -> is_digit c = false /\ c <> 36 /\ c <> 123.
Proof.
  unfold special_capnum, is_digit, s_replaceLeftPortion, s_replaceRightPortion, s_replaceLastGroup, s_replaceWholeString.
  destruct (c =? 38) eqn:E1; [lia|]. destruct (c =? 96) eqn:E2; [lia|]. destruct (c =? 39) eqn:E3; [lia|].
  destruct (c =? 43) eqn:E4; [lia|]. destruct (c =? 95) eqn:E5; [lia|]. intros H; contradiction.
Qed.

(* digit prefixes of a digit run followed by a non-digit *)
Lemma digits_prefix (more1 rest' more tail : list Z) :
  digits more1 -> digits more -> no_digit_head tail -> more ++ tail = more1 ++ rest' ->
  exists x, more = more1 ++ x.
Proof.
  revert more. induction more1 as [|c more1 IH]; intros more H1 H2 H3 He; [exists more; reflexivity|].
  inversion H1; subst. destruct more as [|d more].
  - cbn [app] in He. subst tail. cbn [no_digit_head] in H3. congruence.
  - cbn [app] in He. inversion He; subst. inversion H2; subst.
    destruct (IH more) as (x & ->); try assumption. exists x. reflexivity.
Qed.

Lemma digits_app (a b : list Z) : digits (a ++ b) <-> digits a /\ digits b.
Proof. unfold digits. apply Forall_app. Qed.

(* ------------------------------------------------------------------------------------------ *)
(** * The ECMAScript longest-valid-prefix loop                                                   *)

Section Ecma.
Variable env : penv.

(* pre = digits consumed so far (non-empty), tail = text after them *)
Definition best_inv (pre tail : list Z) (best : option (Z * list Z)) : Prop :=
  match best with
  | None => forall ds more, pre = ds ++ more -> ds <> [] -> is_capture_slot env (dval ds) = false
  | Some (c, r) =>
      exists ds more, pre = ds ++ more /\ ds <> [] /\ c = dval ds /\ is_capture_slot env c = true /\
                      r = more ++ tail /\
                      forall ds' more', pre = ds' ++ more' -> (length ds < length ds')%nat ->
                                        is_capture_slot env (dval ds') = false
  end.

Lemma snoc_split {A} (pre ds more : list A) (c : A) :
  pre ++ [c] = ds ++ more -> (more = [] /\ ds = pre ++ [c]) \/ exists more0, more = more0 ++ [c] /\ pre = ds ++ more0.
Proof.
  intros H. assert (more = [] \/ exists more0 x, more = more0 ++ [x]) as [->|(more0 & x & ->)].
  { destruct more as [|y more]; [left; reflexivity|right].
    destruct (@exists_last _ (y :: more)) as (l' & a & E); [discriminate|]. eauto. }
  - left. rewrite app_nil_r in H. auto.
  - right. exists more0. rewrite app_assoc in H. apply app_inj_tail in H as (H1 & H2). subst. auto.
Qed.

Lemma ecma_digits_inv (p : list Z) :
  forall (pre : list Z) (n : Z) (best : option (Z * list Z)) (res : option (Z * list Z)),
    pre <> [] -> digits pre -> n = dval pre -> best_inv pre p best ->
    ecma_digits env n best p = Ok res ->
    let '(run, tail) := span_digits p in best_inv (pre ++ run) tail res.
Proof.
  induction p as [|ch p IH]; intros pre n best res Hne Hd Hn Hb H; cbn [ecma_digits span_digits] in *.
  - inversion H; subst. rewrite app_nil_r. exact Hb.
  - destruct (is_digit ch) eqn:Ed; cbn [negb] in H.
    2:{ inversion H; subst. rewrite app_nil_r. exact Hb. }
    destruct ((rg_maxValueDiv10 <? n) || (n =? rg_maxValueDiv10) && (rg_maxValueMod10 <? ch - 48)); [discriminate|].
    specialize (IH (pre ++ [ch]) (n * 10 + (ch - 48))
                   (if is_capture_slot env (n * 10 + (ch - 48)) then Some (n * 10 + (ch - 48), p) else best) res).
    destruct (span_digits p) as [run tail]. rewrite <- app_assoc in IH. cbn [app] in IH.
    apply IH; clear IH; try assumption.
    + destruct pre; discriminate.
    + apply digits_app. split; [exact Hd|]. constructor; [exact Ed|constructor].
    + subst n. unfold dval. rewrite dval_go_app. reflexivity.
    + assert (n * 10 + (ch - 48) = dval (pre ++ [ch])) as Hv by (subst n; unfold dval; rewrite dval_go_app; reflexivity).
      destruct (is_capture_slot env (n * 10 + (ch - 48))) eqn:Es.
      * exists (pre ++ [ch]), []. rewrite app_nil_r. repeat split; try assumption.
        -- destruct pre; discriminate.
        -- intros ds' more' He Hl. apply (f_equal (@length Z)) in He. rewrite !app_length in *. lia.
      * destruct best as [[c r]|].
        -- destruct Hb as (ds & more & Hp & Hds & Hc & Hsl & Hr & Hlong).
           exists ds, (more ++ [ch]). repeat split; try assumption.
           ++ subst pre. rewrite app_assoc. reflexivity.
           ++ subst r. rewrite <- app_assoc. reflexivity.
           ++ intros ds' more' He Hl. apply snoc_split in He as [(-> & ->)|(more0 & -> & Hp')].
              ** rewrite <- Hv. exact Es.
              ** eapply Hlong; eauto.
        -- intros ds more He Hds. apply snoc_split in He as [(-> & ->)|(more0 & -> & Hp')].
           ++ rewrite <- Hv. exact Es.
           ++ eapply Hb; eauto.
Qed.

End Ecma.

(* ------------------------------------------------------------------------------------------ *)
(** * Name scanners                                                                             *)

Section Names.
Variable is_word_char : Z -> bool.
Variable is_ecma_start : Z -> bool.
Variable is_ecma_char : Z -> bool.
Variable env : penv.

Lemma scan_word_spec (p a b : list Z) :
  scan_word is_word_char p = (a, b) ->
  p = a ++ b /\ Forall (fun c => is_word_char c = true) a /\
  (b = [] \/ exists c b', b = c :: b' /\ is_word_char c = false).
Proof.
  revert a b. induction p as [|ch p IH]; intros a b H; cbn [scan_word] in H.
  - inversion H; subst. split; [reflexivity|]. split; [constructor|left; reflexivity].
  - destruct (is_word_char ch) eqn:E.
    + destruct (scan_word is_word_char p) as [a' b']. inversion H; subst.
      destruct (IH _ _ eq_refl) as (H1 & H2 & H3).
      split; [cbn [app]; congruence|]. split; [constructor; assumption|exact H3].
    + inversion H; subst. split; [reflexivity|]. split; [constructor|right; eauto].
Qed.

Lemma scan_word_unique (name rest : list Z) (c : Z) :
  Forall (fun x => is_word_char x = true) name -> is_word_char c = false ->
  scan_word is_word_char (name ++ c :: rest) = (name, c :: rest).
Proof.
  intros HF Hc. induction HF as [|x name Hx HF IH]; cbn [app scan_word].
  - rewrite Hc. reflexivity.
  - rewrite Hx, IH. reflexivity.
Qed.

Fixpoint span_ecma (first : bool) (p : list Z) : list Z * list Z :=
  match p with
  | [] => ([], [])
  | ch :: p' => if negb (ch =? 92) && (if first then is_ecma_start ch else is_ecma_char ch)
                then let '(a, b) := span_ecma false p' in (ch :: a, b)
                else ([], p)
  end.

Lemma no_u_escape_app (a b : list Z) : no_u_escape (a ++ b) -> no_u_escape b.
Proof. intros H pre post E. apply (H (a ++ pre) post). rewrite E, app_assoc. reflexivity. Qed.

(* without a "\u" in the text the name scanner stops with an error at the first backslash *)
Lemma scan_ecma_capname_go_nou (fuel : nat) (index : Z) (acc p : list Z) :
  (length p < fuel)%nat -> 0 <= index -> no_u_escape p ->
  scan_ecma_capname_go is_ecma_start is_ecma_char env fuel index acc p =
  match snd (span_ecma (index =? 0) p) with
  | c :: _ => if c =? 92 then Err E_InvalidECMAName
              else Ok (acc ++ fst (span_ecma (index =? 0) p), snd (span_ecma (index =? 0) p))
  | [] => Ok (acc ++ fst (span_ecma (index =? 0) p), snd (span_ecma (index =? 0) p))
  end.
Proof.
  revert index acc p. induction fuel as [|f IH]; intros index acc p Hf Hi Hn; [lia|].
  cbn [scan_ecma_capname_go]. destruct p as [|ch p1]; cbn [span_ecma fst snd].
  - rewrite app_nil_r. reflexivity.
  - destruct (ch =? 92) eqn:E92; cbn [negb andb fst snd].
    + rewrite E92. destruct p1 as [|u p2]; [reflexivity|].
      destruct (u =? 117) eqn:Eu; [|reflexivity].
      exfalso. apply (Hn [] p2). cbn [app]. f_equal; [lia|f_equal; lia].
    + assert (no_u_escape p1) as Hn1 by (apply (no_u_escape_app [ch]); exact Hn).
      destruct (if index =? 0 then is_ecma_start ch else is_ecma_char ch) eqn:Ev; cbn [negb].
      * rewrite IH; [|cbn [length] in Hf; lia|lia|exact Hn1].
        replace (index + 1 =? 0) with false by lia.
        destruct (span_ecma false p1) as [a b]. cbn [fst snd]. rewrite <- app_assoc. reflexivity.
      * cbn [fst snd]. rewrite E92, app_nil_r. reflexivity.
Qed.

Lemma span_ecma_false_spec (p a b : list Z) :
  span_ecma false p = (a, b) ->
  p = a ++ b /\ Forall (fun c => is_ecma_char c = true) a /\ ~ In 92 a /\
  (b = [] \/ exists c b', b = c :: b' /\ (c = 92 \/ is_ecma_char c = false)).
Proof.
  revert a b. induction p as [|ch p IH]; intros a b H; cbn [span_ecma] in H.
  - inversion H; subst. split; [reflexivity|]. split; [constructor|]. split; [intros []|left; reflexivity].
  - destruct (ch =? 92) eqn:E92; cbn [negb andb] in H.
    + inversion H; subst. split; [reflexivity|]. split; [constructor|]. split; [intros []|].
      right. exists ch, p. split; [reflexivity|left; lia].
    + destruct (is_ecma_char ch) eqn:E.
      * destruct (span_ecma false p) as [a' b']. inversion H; subst.
        destruct (IH _ _ eq_refl) as (H1 & H2 & H3 & H4).
        split; [cbn [app]; congruence|]. split; [constructor; assumption|]. split; [|exact H4].
        intros [Hc|Hc]; [lia|contradiction].
      * inversion H; subst. split; [reflexivity|]. split; [constructor|]. split; [intros []|].
        right. exists ch, p. split; [reflexivity|right; exact E].
Qed.

Lemma span_ecma_false_unique (cs rest : list Z) (c : Z) :
  Forall (fun x => is_ecma_char x = true) cs -> ~ In 92 cs -> is_ecma_char c = false ->
  span_ecma false (cs ++ c :: rest) = (cs, c :: rest).
Proof.
  intros HF Hn Hc. induction HF as [|x cs Hx HF IH]; cbn [app span_ecma].
  - rewrite Hc, andb_false_r. reflexivity.
  - replace (x =? 92) with false by (symmetry; apply Z.eqb_neq; intros ->; apply Hn; left; reflexivity).
    cbn [negb andb]. rewrite Hx, IH; [reflexivity|]. intros Hi. apply Hn. right. exact Hi.
Qed.

End Names.

(* ------------------------------------------------------------------------------------------ *)
(** * scanDollar recognises exactly the forms of the grammar                                    *)

Section DollarSound.
Variable is_word_char : Z -> bool.
Variable is_ecma_start : Z -> bool.
Variable is_ecma_char : Z -> bool.
Variable env : penv.

Notation dollar_form := (dollar_form is_word_char is_ecma_start is_ecma_char env).
Notation scan_dollar := (Replace.scan_dollar is_word_char is_ecma_start is_ecma_char env).

Lemma digits_hd (ds rest : list Z) (c : Z) (q : list Z) :
  ds <> [] -> digits ds -> ds ++ rest = c :: q -> is_digit c = true.
Proof.
  intros Hne Hd He. destruct (app_head _ _ _ _ Hne He) as (ds' & -> & _). inversion Hd; subst. assumption.
Qed.

(* inversion by the class of the first character *)
Lemma form_inv_digit (c : Z) (q : list Z) (it : item) (r : list Z) :
  is_digit c = true -> dollar_form (c :: q) it r ->
  exists ds, ds <> [] /\ digits ds /\ c :: q = ds ++ r /\ it = IRef (dval ds) /\
             is_capture_slot env (dval ds) = true /\
             ((use_e env = false /\ no_digit_head r) \/
              (use_e env = true /\
               forall more rest', more <> [] -> digits more -> r = more ++ rest' ->
                                  is_capture_slot env (dval (ds ++ more)) = false)).
Proof.
  intros Hd H. inversion H; subst.
  - discriminate.
  - match goal with H : special_capnum _ <> 1 |- _ => destruct (special_capnum_cases _ H) as (Hx & _) end. congruence.
  - exists ds. repeat split; auto.
  - exists ds. repeat split; auto.
  - discriminate.
  - discriminate.
  - discriminate.
Qed.

Lemma form_inv_brace (q : list Z) (it : item) (r : list Z) :
  dollar_form (123 :: q) it r ->
  (exists ds, ds <> [] /\ digits ds /\ q = ds ++ 125 :: r /\ it = IRef (dval ds) /\ is_capture_slot env (dval ds) = true) \/
  (exists name, use_e env = false /\ name <> [] /\ Forall (fun c => is_word_char c = true) name /\
                is_digit (hd 0 name) = false /\ is_word_char 125 = false /\ is_capture_name env name = true /\
                q = name ++ 125 :: r /\ it = IRef (capture_slot_from_name env name)) \/
  (exists c cs, use_e env = true /\ is_digit c = false /\ is_ecma_start c = true /\
                Forall (fun x => is_ecma_char x = true) cs /\ ~ In 92 (c :: cs) /\ is_ecma_char 125 = false /\
                is_capture_name env (map write_rune (c :: cs)) = true /\
                q = (c :: cs) ++ 125 :: r /\ it = IRef (capture_slot_from_name env (map write_rune (c :: cs)))).
Proof.
  intros H. inversion H; subst.
  - match goal with H : special_capnum _ <> 1 |- _ => destruct (special_capnum_cases _ H) as (_ & _ & Hx) end. congruence.
  - exfalso. assert (is_digit 123 = true) as Hx by (eapply digits_hd; eauto). discriminate.
  - exfalso. assert (is_digit 123 = true) as Hx by (eapply digits_hd; eauto). discriminate.
  - left. exists ds. repeat split; auto.
  - right; left. exists name. repeat split; auto.
  - right; right. exists c, cs. repeat split; auto.
Qed.

Lemma form_inv_other (c : Z) (q : list Z) (it : item) (r : list Z) :
  is_digit c = false -> c <> 123 -> dollar_form (c :: q) it r ->
  r = q /\ ((c = 36 /\ it = ILit 36) \/ (special_capnum c <> 1 /\ it = IRef (special_capnum c))).
Proof.
  intros Hd Hb H. inversion H; subst.
  - split; [reflexivity|left; split; reflexivity].
  - split; [reflexivity|right; split; [assumption|reflexivity]].
  - exfalso. assert (is_digit c = true) as Hx by (eapply digits_hd; eauto). congruence.
  - exfalso. assert (is_digit c = true) as Hx by (eapply digits_hd; eauto). congruence.
  - congruence.
  - congruence.
  - congruence.
Qed.

Lemma no_form_nil (it : item) (r : list Z) : ~ dollar_form [] it r.
Proof.
  intros H. remember (@nil Z) as p eqn:Ep. destruct H; try discriminate;
    (destruct ds; [contradiction|discriminate]).
Qed.

Lemma span_digits_of_app (ds r : list Z) (c : Z) (q : list Z) :
  digits ds -> no_digit_head r -> c :: q = ds ++ r -> span_digits (c :: q) = (ds, r).
Proof. intros Hd Hr ->. apply digit_split_unique; assumption. Qed.

Lemma scan_dollar_sound (p : list Z) (nd : rnode) (rest : list Z) :
  (use_e env = true -> no_u_escape p) ->
  scan_dollar p = Ok (nd, rest) ->
  (exists it, dollar_form p it rest /\ items_of_node nd = [it]) \/
  ((forall it r, ~ dollar_form p it r) /\ nd = mk_one 36 /\ rest = p).
Proof.
  intros Hbs. unfold Replace.scan_dollar. destruct p as [|ch0 p0].
  { intros H; inversion H; subst. right. split; [apply no_form_nil|auto]. }
  destruct ((ch0 =? 123) && (1 <? zlen (ch0 :: p0))) eqn:Ea.
  - (* angled *)
    assert (ch0 = 123) as -> by lia.
    destruct p0 as [|ch q1]; [rewrite zlen_cons in Ea; change (zlen (@nil Z)) with 0 in Ea; lia|].
    destruct (is_digit ch) eqn:Ed.
    + (* ${digits *)
      cbn [negb andb]. unfold scan_decimal.
      destruct (scan_decimal_go 0 (ch :: q1)) as [[capnum q2]| | |] eqn:E; try discriminate. cbn [bind].
      apply scan_decimal_go_spec in E. pose proof (span_digits_spec (ch :: q1)) as Hsp.
      destruct (span_digits (ch :: q1)) as [a b] eqn:Esp. cbn [fst snd] in E. destruct E as (-> & ->).
      destruct Hsp as (Hp & Hda & Hnb). fold (dval a).
      assert (a <> []) as Hane.
      { intros ->. cbn [span_digits] in Esp. rewrite Ed in Esp. destruct (span_digits q1); discriminate. }
      assert (forall it r, dollar_form (123 :: ch :: q1) it r ->
                           exists r', b = 125 :: r' /\ is_capture_slot env (dval a) = true) as Hinv.
      { intros it r Hf. apply form_inv_brace in Hf as [(ds & H1 & H2 & H3 & H4 & H5)|[(name & H1 & H2 & H3 & H4 & H5 & H6 & H7 & H8)|(c & cs & H1 & H2 & H3 & H4 & H5 & H6 & H7 & H8 & H9)]].
        - assert (span_digits (ch :: q1) = (ds, 125 :: r)) as Hu by (apply span_digits_of_app; [assumption|reflexivity|assumption]).
          rewrite Esp in Hu. inversion Hu; subst. eauto.
        - exfalso. destruct name as [|x name]; [contradiction|]. cbn [app hd] in *. inversion H7; subst. congruence.
        - exfalso. cbn [app] in H8. inversion H8; subst. congruence. }
      destruct b as [|c q3].
      * intros H; inversion H; subst. right. split; [|auto].
        intros it r Hf. destruct (Hinv _ _ Hf) as (r' & Hx & _). discriminate.
      * destruct ((c =? 125) && is_capture_slot env (dval a)) eqn:Ec.
        -- intros H; inversion H; subst. left. exists (IRef (dval a)). split; [|reflexivity].
           assert (c = 125) as -> by lia. rewrite Hp. apply DF_bnum; try assumption; try lia.
        -- intros H; inversion H; subst. right. split; [|auto].
           intros it r Hf. destruct (Hinv _ _ Hf) as (r' & Hx & Hs). inversion Hx; subst. lia.
    + (* ${name *)
      cbn [andb negb]. destruct (is_group_name_start is_word_char is_ecma_start env ch) eqn:Eg.
      * unfold Replace.scan_capname. unfold is_group_name_start in Eg. destruct (use_e env) eqn:Ee.
        -- (* ECMAScript *)
           assert (no_u_escape (ch :: q1)) as Hn by (apply (no_u_escape_app [123]); exact (Hbs eq_refl)).
           assert (forall nd' rest', Ok (mk_one 36, 123 :: ch :: q1) = Ok (nd', rest') ->
                     (forall it r, ~ dollar_form (123 :: ch :: q1) it r) ->
                     (exists it, dollar_form (123 :: ch :: q1) it rest' /\ items_of_node nd' = [it]) \/
                     ((forall it r, ~ dollar_form (123 :: ch :: q1) it r) /\ nd' = mk_one 36 /\ rest' = 123 :: ch :: q1)) as Hlit.
           { intros nd' rest' H Hno. inversion H; subst. right. auto. }
           rewrite scan_ecma_capname_go_nou by (try lia; try exact Hn). cbn [Z.eqb].
           cbn [span_ecma]. destruct (ch =? 92) eqn:E92; cbn [negb andb fst snd].
           { (* ${\ : the name scanner fails at once *)
             rewrite E92. cbn [bind]. intros H. apply Hlit; [exact H|].
             intros it r Hf. apply form_inv_brace in Hf as [(ds & H1 & H2 & H3 & H4 & H5)|[(name & H1 & H2 & H3 & H4 & H5 & H6 & H7 & H8)|(c & cs' & H1 & H2 & H3 & H4 & H5 & H6 & H7 & H8 & H9)]].
             - assert (is_digit ch = true) as Hx by (eapply digits_hd; eauto). congruence.
             - congruence.
             - cbn [app] in H8. injection H8 as H8a H8b. apply H5. left. lia. }
           assert (is_ecma_start ch = true) as Hst.
           { destruct (is_ecma_start ch); [reflexivity|]. cbn [orb] in Eg. lia. }
           rewrite Hst.
           destruct (span_ecma is_ecma_start is_ecma_char false q1) as [cs b] eqn:Esp. cbn [fst snd app].
           destruct (span_ecma_false_spec _ _ _ _ _ Esp) as (Hq & Hcs & Hn92 & Hb).
           assert (forall it r, dollar_form (123 :: ch :: q1) it r ->
                                b = 125 :: r /\ is_capture_name env (map write_rune (ch :: cs)) = true) as Hinv.
           { intros it r Hf. apply form_inv_brace in Hf as [(ds & H1 & H2 & H3 & H4 & H5)|[(name & H1 & H2 & H3 & H4 & H5 & H6 & H7 & H8)|(c & cs' & H1 & H2 & H3 & H4 & H5 & H6 & H7 & H8 & H9)]].
             - exfalso. assert (is_digit ch = true) as Hx by (eapply digits_hd; eauto). congruence.
             - congruence.
             - cbn [app] in H8. injection H8 as H8a H8b. rewrite H8b in Esp.
               rewrite (span_ecma_false_unique _ _ _ _ _ H4) in Esp; [|intros Hi; apply H5; right; exact Hi|exact H6].
               inversion Esp; subst. auto. }
           destruct b as [|c q3].
           ++ cbn [bind]. intros H. apply Hlit; [exact H|].
              intros it r Hf. destruct (Hinv _ _ Hf) as (Hx & _). discriminate.
           ++ destruct (c =? 92) eqn:Ec92.
              { (* the name runs into a backslash that starts no \u escape: literal *)
                cbn [bind]. intros H. apply Hlit; [exact H|].
                intros it r Hf. destruct (Hinv _ _ Hf) as (Hx & _). inversion Hx; subst. discriminate. }
              cbn [bind].
              destruct ((c =? 125) && is_capture_name env (map write_rune (ch :: cs))) eqn:Ec.
              ** intros H; inversion H; subst. left. eexists. split; [|reflexivity].
                 assert (c = 125) as -> by lia.
                 change (123 :: ch :: cs ++ 125 :: rest) with (123 :: (ch :: cs) ++ 125 :: rest).
                 apply DF_bname_ecma; try assumption; try lia.
                 --- intros [Hc|Hc]; [lia|apply Hn92; exact Hc].
                 --- destruct Hb as [Hb|(c' & b' & Hb & [Hc'|Hc'])]; [discriminate| |]; inversion Hb; subst; [discriminate|exact Hc'].
              ** intros H. apply Hlit; [exact H|].
                 intros it r Hf. destruct (Hinv _ _ Hf) as (Hx & Hs). inversion Hx; subst. lia.
        -- (* .NET names *)
           cbn [bind]. destruct (scan_word is_word_char (ch :: q1)) as [name b] eqn:Esw.
           destruct (scan_word_spec _ _ _ _ Esw) as (Hq & Hw & Hb).
           assert (exists name', name = ch :: name') as (name' & ->).
           { cbn [scan_word] in Esw. rewrite Eg in Esw. destruct (scan_word is_word_char q1). inversion Esw; subst. eauto. }
           assert (forall it r, dollar_form (123 :: ch :: q1) it r ->
                                b = 125 :: r /\ is_capture_name env (ch :: name') = true) as Hinv.
           { intros it r Hf. apply form_inv_brace in Hf as [(ds & H1 & H2 & H3 & H4 & H5)|[(nm & H1 & H2 & H3 & H4 & H5 & H6 & H7 & H8)|(c & cs' & H1 & H2 & H3 & H4 & H5 & H6 & H7 & H8 & H9)]].
             - exfalso. assert (is_digit ch = true) as Hx by (eapply digits_hd; eauto). congruence.
             - rewrite H7 in Esw. rewrite (scan_word_unique _ _ _ _ H3 H5) in Esw. inversion Esw; subst. auto.
             - congruence. }
           destruct b as [|c q3].
           ++ intros H; inversion H; subst. right. split; [|auto].
              intros it r Hf. destruct (Hinv _ _ Hf) as (Hx & _). discriminate.
           ++ destruct ((c =? 125) && is_capture_name env (ch :: name')) eqn:Ec.
              ** intros H; inversion H; subst. left. eexists. split; [|reflexivity].
                 assert (c = 125) as -> by lia. rewrite Hq. apply DF_bname; try assumption; try lia; try discriminate.
                 destruct Hb as [Hb|(c' & b' & Hb & Hc')]; [discriminate|]. inversion Hb; subst. exact Hc'.
              ** intros H; inversion H; subst. right. split; [|auto].
                 intros it r Hf. destruct (Hinv _ _ Hf) as (Hx & Hs). inversion Hx; subst. lia.
      * intros H; inversion H; subst. right. split; [|auto].
        intros it r Hf. unfold is_group_name_start in Eg.
        apply form_inv_brace in Hf as [(ds & H1 & H2 & H3 & H4 & H5)|[(nm & H1 & H2 & H3 & H4 & H5 & H6 & H7 & H8)|(c & cs' & H1 & H2 & H3 & H4 & H5 & H6 & H7 & H8 & H9)]].
        -- assert (is_digit ch = true) as Hx by (eapply digits_hd; eauto). congruence.
        -- rewrite H1 in Eg. destruct nm as [|x nm]; [contradiction|]. cbn [app] in H7. inversion H7; subst.
           inversion H3; subst. congruence.
        -- rewrite H1 in Eg. cbn [app] in H8. inversion H8; subst. rewrite H3 in Eg. discriminate.
  - (* not angled *)
    assert (forall it r, dollar_form (123 :: p0) it r -> ch0 = 123 -> False) as Hnb.
    { intros it r Hf ->. apply form_inv_brace in Hf as [(ds & H1 & H2 & H3 & _)|[(nm & _ & H1 & _ & _ & _ & _ & H3 & _)|(c & cs' & _ & _ & _ & _ & _ & _ & _ & H3 & _)]];
        subst p0; rewrite zlen_cons in Ea.
      - destruct ds; [contradiction|]. cbn [app] in Ea. rewrite zlen_cons in Ea. pose proof (zlen_nonneg (ds ++ 125 :: r)). lia.
      - destruct nm; [contradiction|]. cbn [app] in Ea. rewrite zlen_cons in Ea. pose proof (zlen_nonneg (nm ++ 125 :: r)). lia.
      - cbn [app] in Ea. rewrite zlen_cons in Ea. pose proof (zlen_nonneg (cs' ++ 125 :: r)). lia. }
    destruct (is_digit ch0) eqn:Ed.
    + cbn [negb andb]. destruct (use_e env) eqn:Ee.
      * (* ECMAScript $digits *)
        destruct (ecma_digits env (ch0 - 48) (if is_capture_slot env (ch0 - 48) then Some (ch0 - 48, p0) else None) p0)
          as [res| | |] eqn:E; try discriminate. cbn [bind].
        assert (ch0 - 48 = dval [ch0]) as Hv by reflexivity.
        eapply (ecma_digits_inv env p0 [ch0]) in E; [|discriminate|constructor; [exact Ed|constructor]|exact Hv|].
        2:{ destruct (is_capture_slot env (ch0 - 48)) eqn:Es.
            - exists [ch0], []. repeat split; auto; try discriminate.
              intros ds' more' He Hl. apply (f_equal (@length Z)) in He. rewrite app_length in He. cbn [length] in *. lia.
            - intros ds more He Hne. destruct ds as [|d ds]; [contradiction|]. cbn [app] in He. inversion He; subst.
              destruct ds; [|discriminate]. rewrite <- Hv. exact Es. }
        pose proof (span_digits_spec p0) as Hsp. destruct (span_digits p0) as [run tail] eqn:Esp.
        destruct Hsp as (Hp0 & Hdrun & Hntail).
        assert (digits (ch0 :: run)) as Hdall by (constructor; assumption).
        assert (forall it r, dollar_form (ch0 :: p0) it r ->
                 exists ds, ds <> [] /\ digits ds /\ ch0 :: p0 = ds ++ r /\ it = IRef (dval ds) /\ is_capture_slot env (dval ds) = true /\
                            exists more, ch0 :: run = ds ++ more /\ r = more ++ tail) as Hinv.
        { intros it r Hf. apply form_inv_digit in Hf as (ds & H1 & H2 & H3 & H4 & H5 & H6); [|exact Ed].
          exists ds. repeat split; try assumption.
          assert (ds ++ r = (ch0 :: run) ++ tail) as He by (rewrite <- H3, Hp0; reflexivity).
          symmetry in He. destruct (digits_prefix ds r (ch0 :: run) tail H2 Hdall Hntail He) as (x & Hx).
          exists x. split; [exact Hx|]. rewrite Hx in He. rewrite <- app_assoc in He. apply app_inv_head in He. auto. }
        destruct res as [[capnum rest']|].
        -- cbn [app] in E. destruct E as (ds & more & Hpre & Hne & Hc & Hs & Hr & Hlong).
           assert (0 <= capnum) as Hc0.
           { subst capnum. apply dval_go_nonneg; [lia|]. rewrite Hpre in Hdall. apply digits_app in Hdall. tauto. }
           destruct (0 <=? capnum) eqn:E0; [|lia].
           intros H; inversion H; subst nd rest. left. exists (IRef capnum). split; [|reflexivity].
           assert (ch0 :: p0 = ds ++ rest') as Hp.
           { rewrite Hp0, Hr, app_assoc, <- Hpre. reflexivity. }
           rewrite Hp, Hc. rewrite Hpre in Hdall. apply digits_app in Hdall as (Hdds & Hdmore).
           apply DF_num_ecma; try assumption; try (rewrite <- Hc; assumption).
           intros more1 rest1 Hm1 Hdm1 Hr1. rewrite Hr in Hr1.
           destruct (digits_prefix more1 rest1 more tail Hdm1 Hdmore Hntail Hr1) as (x & Hx).
           apply (Hlong (ds ++ more1) x); [rewrite Hpre, Hx, app_assoc; reflexivity|].
           rewrite app_length. destruct more1; [contradiction|cbn [length]; lia].
        -- intros H; inversion H; subst. right. split; [|auto].
           intros it r Hf. destruct (Hinv _ _ Hf) as (ds & H1 & H2 & H3 & H4 & H5 & more & H6 & H7).
           cbn [app] in E. rewrite (E ds more H6 H1) in H5. discriminate.
      * (* .NET $digits *)
        unfold scan_decimal.
        destruct (scan_decimal_go 0 (ch0 :: p0)) as [[capnum q2]| | |] eqn:E; try discriminate. cbn [bind].
        apply scan_decimal_go_spec in E. pose proof (span_digits_spec (ch0 :: p0)) as Hsp.
        destruct (span_digits (ch0 :: p0)) as [a b] eqn:Esp. cbn [fst snd] in E. destruct E as (-> & ->).
        destruct Hsp as (Hp & Hda & Hnb'). fold (dval a).
        assert (a <> []) as Hane.
        { intros ->. cbn [span_digits] in Esp. rewrite Ed in Esp. destruct (span_digits p0); discriminate. }
        cbn [andb]. destruct (is_capture_slot env (dval a)) eqn:Es.
        -- intros H; inversion H; subst. left. exists (IRef (dval a)). split; [|reflexivity].
           rewrite Hp. apply DF_num; assumption.
        -- intros H; inversion H; subst. right. split; [|auto].
           intros it r Hf. apply form_inv_digit in Hf as (ds & H1 & H2 & H3 & H4 & H5 & [(H6 & H7)|(H6 & _)]); [| |exact Ed]; [|congruence].
           assert (span_digits (ch0 :: p0) = (ds, r)) as Hu by (apply span_digits_of_app; assumption).
           rewrite Esp in Hu. inversion Hu; subst. congruence.
    + (* a single character after the $ *)
      cbn [andb negb].
      assert (ch0 = 123 -> forall it r, ~ dollar_form (ch0 :: p0) it r) as H123.
      { intros -> it r Hf. eapply Hnb; eauto. }
      destruct (ch0 =? 36) eqn:E36.
      * intros H; inversion H; subst. left. exists (ILit 36). assert (ch0 = 36) as -> by lia.
        split; [apply DF_dollar|reflexivity].
      * destruct (negb (special_capnum ch0 =? 1)) eqn:Esp.
        -- intros H; inversion H; subst. left. exists (IRef (special_capnum ch0)). split; [|reflexivity].
           apply DF_special. lia.
        -- intros H; inversion H; subst. right. split; [|auto].
           intros it r Hf. destruct (Z.eq_dec ch0 123) as [E123|E123]; [eapply H123; eauto|].
           apply form_inv_other in Hf as (_ & [(Hx & _)|(Hx & _)]); try assumption; lia.
Qed.

End DollarSound.

(* ------------------------------------------------------------------------------------------ *)
(** * Parsed references always name existing groups                                              *)

Section NodeWf.
Variable is_word_char : Z -> bool.
Variable is_ecma_start : Z -> bool.
Variable is_ecma_char : Z -> bool.
Variable env : penv.
Variable n : Z.
Hypothesis Henv : env_ok env n.

Notation scan_dollar := (Replace.scan_dollar is_word_char is_ecma_start is_ecma_char env).
Notation scan_replacement_go := (Replace.scan_replacement_go is_word_char is_ecma_start is_ecma_char env).

Lemma slot_group_num_ok (c : Z) : is_capture_slot env c = true -> group_num_ok env c.
Proof.
  unfold is_capture_slot, group_num_ok. destruct (pe_caps env) as [l|].
  - destruct (zlist_assoc c l); [intros _; discriminate|discriminate].
  - intros H. lia.
Qed.

Lemma group_zero_ok : group_num_ok env 0.
Proof.
  destruct Henv as (Hn & Hcaps & _). unfold group_num_ok. destruct (pe_caps env) as [l|].
  - destruct Hcaps as (_ & ->). discriminate.
  - lia.
Qed.

Lemma name_ref_ok (name : list Z) :
  is_capture_name env name = true -> ref_ok env (capture_slot_from_name env name).
Proof.
  destruct Henv as (Hn & Hcaps & Hnames). unfold is_capture_name, capture_slot_from_name.
  destruct (pe_capnames env) as [l|]; [|discriminate].
  destruct (name_assoc name l) as [v|] eqn:Ea; [|discriminate]. intros _.
  apply name_assoc_In in Ea. rewrite Forall_forall in Hnames. specialize (Hnames _ Ea). cbn [snd] in Hnames.
  destruct Hnames as (H0 & H1). right. split; [exact H0|]. unfold group_num_ok.
  destruct (pe_caps env); [exact H1|]. lia.
Qed.

Lemma special_ref_ok (ch : Z) : special_capnum ch <> 1 -> ref_ok env (special_capnum ch).
Proof.
  unfold special_capnum, s_replaceLeftPortion, s_replaceRightPortion, s_replaceLastGroup, s_replaceWholeString.
  destruct (ch =? 38). { intros _. right. split; [lia|apply group_zero_ok]. }
  destruct (ch =? 96). { intros _. left. lia. }
  destruct (ch =? 39). { intros _. left. lia. }
  destruct (ch =? 43). { intros _. left. lia. }
  destruct (ch =? 95). { intros _. left. lia. }
  intros H; contradiction.
Qed.

Lemma ecma_digits_slot (nn : Z) (best : option (Z * list Z)) (p : list Z) (c : Z) (r : list Z) :
  (forall c' r', best = Some (c', r') -> is_capture_slot env c' = true) ->
  ecma_digits env nn best p = Ok (Some (c, r)) -> is_capture_slot env c = true.
Proof.
  revert nn best. induction p as [|ch p IH]; intros nn best Hb H; cbn [ecma_digits] in H.
  - inversion H; subst. eapply Hb; reflexivity.
  - destruct (negb (is_digit ch)).
    + inversion H; subst. eapply Hb; reflexivity.
    + destruct ((rg_maxValueDiv10 <? nn) || (nn =? rg_maxValueDiv10) && (rg_maxValueMod10 <? ch - 48)); [discriminate|].
      eapply IH; [|exact H]. intros c' r'.
      destruct (is_capture_slot env (nn * 10 + (ch - 48))) eqn:Es.
      * intros E; inversion E; subst. exact Es.
      * apply Hb.
Qed.

Lemma ref_node_wf (m : Z) : ref_ok env m -> node_wf env (mk_ref m).
Proof. intros H. right; right. split; [reflexivity|exact H]. Qed.

Lemma scan_dollar_node_wf (p : list Z) (nd : rnode) (rest : list Z) :
  scan_dollar p = Ok (nd, rest) -> node_wf env nd.
Proof.
  unfold Replace.scan_dollar. destruct p as [|ch0 p0].
  { intros H; inversion H; subst. left; reflexivity. }
  assert (forall nd r, Ok (mk_one 36, ch0 :: p0) = Ok (nd, r) -> node_wf env nd) as Hlit.
  { intros nd' r' H. inversion H; subst. left; reflexivity. }
  set (angled := (ch0 =? 123) && (1 <? zlen (ch0 :: p0))).
  destruct (if angled then p0 else ch0 :: p0) as [|ch q1] eqn:Eq; [discriminate|].
  destruct (is_digit ch) eqn:Ed.
  - destruct (negb angled && use_e env).
    + destruct (ecma_digits env (ch - 48) (if is_capture_slot env (ch - 48) then Some (ch - 48, q1) else None) q1)
        as [r| | |] eqn:E; try discriminate. cbn [bind].
      destruct r as [[capnum rest']|]; [|apply Hlit].
      destruct (0 <=? capnum) eqn:E0; [|apply Hlit]. intros H; inversion H; subst.
      apply ref_node_wf. right. split; [lia|]. apply slot_group_num_ok.
      eapply ecma_digits_slot; [|exact E]. intros c' r'.
      destruct (is_capture_slot env (ch - 48)) eqn:Es; [|discriminate]. intros E'; inversion E'; subst. exact Es.
    + unfold scan_decimal. destruct (scan_decimal_go 0 (ch :: q1)) as [[capnum q2]| | |] eqn:E; try discriminate.
      cbn [bind]. apply scan_decimal_go_spec in E as (_ & Hv).
      assert (0 <= capnum) as Hc0.
      { subst capnum. apply dval_go_nonneg; [lia|]. pose proof (span_digits_spec (ch :: q1)) as Hs.
        destruct (span_digits (ch :: q1)). cbn [fst]. tauto. }
      assert (forall q, (if is_capture_slot env capnum then Ok (mk_ref capnum, q) else Ok (mk_one 36, ch0 :: p0)) = Ok (nd, rest) ->
                        node_wf env nd) as Hk.
      { intros q. destruct (is_capture_slot env capnum) eqn:Es; [|apply Hlit].
        intros H; inversion H; subst. apply ref_node_wf. right. split; [exact Hc0|apply slot_group_num_ok; exact Es]. }
      destruct (negb angled).
      * cbn [andb]. apply Hk.
      * destruct q2 as [|c q3]; [cbn [andb]; apply Hlit|].
        destruct (c =? 125); cbn [andb]; [apply Hk|apply Hlit].
  - destruct (angled && is_group_name_start is_word_char is_ecma_start env ch).
    + destruct (scan_capname is_word_char is_ecma_start is_ecma_char env (ch :: q1)) as [[name q2]| | |] eqn:E; try discriminate;
        [|apply Hlit].
      destruct q2 as [|c q3]; [apply Hlit|].
      destruct (c =? 125); cbn [andb]; [|apply Hlit].
      destruct (is_capture_name env name) eqn:En; [|apply Hlit].
      intros H; inversion H; subst. apply ref_node_wf. apply name_ref_ok. exact En.
    + destruct (negb angled); [|apply Hlit].
      destruct (ch =? 36).
      * intros H; inversion H; subst. left; reflexivity.
      * destruct (negb (special_capnum ch =? 1)) eqn:Es; [|apply Hlit].
        intros H; inversion H; subst. apply ref_node_wf. apply special_ref_ok. lia.
Qed.

Lemma add_to_concatenate_wf (run : list Z) : Forall (node_wf env) (add_to_concatenate run).
Proof.
  destruct run as [|c [|c' run]]; cbn [add_to_concatenate].
  - constructor.
  - constructor; [left; reflexivity|constructor].
  - constructor; [right; left; reflexivity|constructor].
Qed.

Lemma scan_replacement_go_wf (fuel : nat) (p : list Z) (nodes : list rnode) :
  scan_replacement_go fuel p = Ok nodes -> Forall (node_wf env) nodes.
Proof.
  revert p nodes. induction fuel as [|f IH]; intros p nodes H; [discriminate|]. cbn [Replace.scan_replacement_go] in H.
  destruct p as [|c p']; [inversion H; constructor|].
  destruct (span_dollar (c :: p')) as [run rest] eqn:Es.
  destruct rest as [|d after].
  - inversion H; subst. apply add_to_concatenate_wf.
  - destruct (scan_dollar after) as [[nd rest']| | |] eqn:E; try discriminate. cbn [bind] in H.
    destruct (scan_replacement_go f rest') as [more| | |] eqn:E2; try discriminate. cbn [bind] in H.
    inversion H; subst. apply Forall_app. split; [apply add_to_concatenate_wf|].
    constructor; [eapply scan_dollar_node_wf; exact E|]. eapply IH; exact E2.
Qed.

End NodeWf.

(* ------------------------------------------------------------------------------------------ *)
(** * scanReplacement = the grammar                                                              *)

Section RepSound.
Variable is_word_char : Z -> bool.
Variable is_ecma_start : Z -> bool.
Variable is_ecma_char : Z -> bool.
Variable env : penv.

Notation rep_spec := (rep_spec is_word_char is_ecma_start is_ecma_char env).
Notation scan_replacement_go := (Replace.scan_replacement_go is_word_char is_ecma_start is_ecma_char env).

Lemma items_of_add_to_concatenate (run : list Z) :
  items_of_nodes (add_to_concatenate run) = map ILit run.
Proof.
  destruct run as [|c [|c' run]]; [reflexivity|reflexivity|].
  unfold items_of_nodes. cbn [add_to_concatenate flat_map]. rewrite app_nil_r. reflexivity.
Qed.

Lemma items_of_nodes_app (a b : list rnode) : items_of_nodes (a ++ b) = items_of_nodes a ++ items_of_nodes b.
Proof. unfold items_of_nodes. apply flat_map_app. Qed.

Lemma rep_spec_run (run s : list Z) (its : list item) :
  ~ In 36 run -> rep_spec s its -> rep_spec (run ++ s) (map ILit run ++ its).
Proof.
  induction run as [|c run IH]; intros Hn Hs; [exact Hs|]. cbn [app map].
  apply RS_char; [intros ->; apply Hn; left; reflexivity|].
  apply IH; [intros Hc; apply Hn; right; exact Hc|exact Hs].
Qed.

Lemma dollar_form_suffix (p : list Z) (it : item) (rest : list Z) :
  dollar_form is_word_char is_ecma_start is_ecma_char env p it rest -> exists pre, p = pre ++ rest.
Proof.
  intros H. destruct H.
  - exists [36]. reflexivity.
  - exists [c]. reflexivity.
  - exists ds. reflexivity.
  - exists ds. reflexivity.
  - exists (123 :: ds ++ [125]). cbn [app]. rewrite <- app_assoc. reflexivity.
  - exists (123 :: name ++ [125]). cbn [app]. rewrite <- app_assoc. reflexivity.
  - exists (123 :: (c :: cs) ++ [125]). cbn [app]. rewrite <- app_assoc. reflexivity.
Qed.

Lemma scan_replacement_go_sound (fuel : nat) (p : list Z) (nodes : list rnode) :
  (use_e env = true -> no_u_escape p) ->
  scan_replacement_go fuel p = Ok nodes -> rep_spec p (items_of_nodes nodes).
Proof.
  revert p nodes. induction fuel as [|f IH]; intros p nodes Hbs H; [discriminate|]. cbn [Replace.scan_replacement_go] in H.
  destruct p as [|c p']; [inversion H; subst; apply RS_nil|].
  destruct (span_dollar (c :: p')) as [run rest] eqn:Es.
  destruct (span_dollar_spec _ _ _ Es) as (Hp & Hrun & Hr).
  destruct rest as [|d after].
  - inversion H; subst. rewrite items_of_add_to_concatenate. rewrite Hp.
    rewrite <- (app_nil_r (map ILit run)). apply rep_spec_run; [exact Hrun|apply RS_nil].
  - destruct Hr as [Hr|(after' & Hr)]; [discriminate|]. inversion Hr; subst d after'.
    destruct (scan_dollar is_word_char is_ecma_start is_ecma_char env after) as [[nd rest']| | |] eqn:E; try discriminate.
    cbn [bind] in H.
    destruct (scan_replacement_go f rest') as [more| | |] eqn:E2; try discriminate. cbn [bind] in H.
    inversion H; subst nodes. rewrite items_of_nodes_app, items_of_add_to_concatenate. rewrite Hp.
    assert (use_e env = true -> no_u_escape after) as Hbs1.
    { intros He. apply (no_u_escape_app (run ++ [36])). rewrite <- app_assoc. cbn [app]. rewrite <- Hp. exact (Hbs He). }
    apply rep_spec_run; [exact Hrun|].
    unfold items_of_nodes. cbn [flat_map]. fold (items_of_nodes more).
    apply scan_dollar_sound in E; [|exact Hbs1].
    destruct E as [(it & Hf & Hit)|(Hno & -> & ->)].
    + rewrite Hit. cbn [app]. eapply RS_form; [exact Hf|]. apply IH; [|exact E2].
      intros He. destruct (dollar_form_suffix _ _ _ Hf) as (pre & Hpre).
      apply (no_u_escape_app pre). rewrite <- Hpre. exact (Hbs1 He).
    + cbn [items_of_node mk_one n_t n_ch Z.eqb app]. change (rg_NtOne =? rg_NtMulti) with false.
      change (rg_NtOne =? rg_NtOne) with true. cbn [app].
      apply RS_literal; [exact Hno|]. apply IH; [exact Hbs1|exact E2].
Qed.

End RepSound.

(* ------------------------------------------------------------------------------------------ *)
(** * NewReplacerData: the summary                                                              *)

Section Summary.
Variable is_word_char : Z -> bool.
Variable is_ecma_start : Z -> bool.
Variable is_ecma_char : Z -> bool.
Variable env : penv.
Variable n : Z.
Hypothesis Henv : env_ok env n.

Notation new_replacer_data := (Replace.new_replacer_data is_word_char is_ecma_start is_ecma_char env).
Notation rep_spec := (rep_spec is_word_char is_ecma_start is_ecma_char env).

(* Every accepted replacement yields rules that only name existing strings and slots; read back as
   tokens they are the compiled items of a parse according to the grammar. *)
Lemma new_replacer_data_spec (rep : list Z) (d : rdata) :
  new_replacer_data rep = Ok d ->
  data_ok d n /\
  exists toks, toks_of d = Some toks /\
    ((use_e env = true -> no_u_escape rep) ->
     exists items, rep_spec rep items /\ toks = compile_items env items []).
Proof.
  unfold Replace.new_replacer_data, scan_replacement.
  destruct (scan_replacement_go is_word_char is_ecma_start is_ecma_char env (S (length rep)) rep) as [children| | |] eqn:E;
    try discriminate.
  cbn [bind]. rewrite Z.eqb_refl. cbn [negb]. intros H.
  destruct (build_rules_spec env n Henv children [] [] [] []) as (d' & Hd1 & Hd2 & Hd3).
  - eapply scan_replacement_go_wf; [exact Henv|exact E].
  - reflexivity.
  - constructor.
  - rewrite Hd1 in H. inversion H; subst d'. split; [exact Hd3|].
    eexists. split; [exact Hd2|]. intros Hbs. exists (items_of_nodes children). split; [|reflexivity].
    eapply scan_replacement_go_sound; [exact Hbs|exact E].
Qed.

End Summary.

(* concrete replacements (non-vacuity and the $& identity) *)
Lemma parse_amp (is_word_char is_ecma_start is_ecma_char : Z -> bool) (env : penv) (n : Z) :
  env_ok env n ->
  Replace.new_replacer_data is_word_char is_ecma_start is_ecma_char env [36; 38] = Ok amp_data.
Proof.
  intros (Hn & Hcaps & _). unfold Replace.new_replacer_data, scan_replacement.
  cbn [length scan_replacement_go span_dollar Z.eqb Pos.eqb add_to_concatenate].
  cbn. unfold caps_nonempty, caps_lookup.
  destruct (pe_caps env) as [l|].
  - destruct Hcaps as (_ & H0). destruct l as [|kv l]; [discriminate|]. rewrite H0. reflexivity.
  - reflexivity.
Qed.

(* ------------------------------------------------------------------------------------------ *)
(** * The replacement cache is transparent                                                      *)

Section Cache.
Variable is_word_char : Z -> bool.
Variable is_ecma_start : Z -> bool.
Variable is_ecma_char : Z -> bool.
Variable env : penv.

Notation new_replacer_data := (Replace.new_replacer_data is_word_char is_ecma_start is_ecma_char env).
Notation get_replacer_data := (Replace.get_replacer_data is_word_char is_ecma_start is_ecma_char env).

(* every cached entry is the parse of its key *)
Definition cache_coherent (c : cache) : Prop :=
  Forall (fun kd => new_replacer_data (fst kd) = Ok (snd kd)) c.

Lemma cache_remove_coherent (key : list Z) (c : cache) : cache_coherent c -> cache_coherent (cache_remove key c).
Proof.
  unfold cache_coherent. induction c as [|[k d] c IH]; intros H; [constructor|].
  inversion H; subst. cbn [cache_remove]. destruct (zlist_eqb key k); [assumption|].
  constructor; [assumption|apply IH; assumption].
Qed.

Lemma removelast_coherent (c : cache) : cache_coherent c -> cache_coherent (removelast c).
Proof.
  unfold cache_coherent. induction c as [|kd c IH]; intros H; [constructor|].
  inversion H; subst. cbn [removelast]. destruct c; [constructor|].
  constructor; [assumption|apply IH; assumption].
Qed.

Lemma cache_lookup_coherent (key : list Z) (c : cache) (d : rdata) :
  cache_coherent c -> name_assoc key c = Some d -> new_replacer_data key = Ok d.
Proof.
  intros Hc Ha. apply name_assoc_In in Ha. unfold cache_coherent in Hc. rewrite Forall_forall in Hc.
  apply (Hc _ Ha).
Qed.

Lemma get_replacer_data_transparent (should_cache : bool) (max_size : Z) (rep : list Z) (c : cache) :
  cache_coherent c ->
  fst (get_replacer_data should_cache max_size rep c) = new_replacer_data rep /\
  cache_coherent (snd (get_replacer_data should_cache max_size rep c)).
Proof.
  intros Hc. unfold Replace.get_replacer_data.
  destruct should_cache.
  - unfold cache_get. destruct (name_assoc rep c) as [d|] eqn:Ea.
    + pose proof (cache_lookup_coherent _ _ _ Hc Ea) as Hd. cbn [fst snd]. split; [symmetry; exact Hd|].
      constructor; [exact Hd|apply cache_remove_coherent; exact Hc].
    + destruct (new_replacer_data rep) as [d| | |] eqn:En; cbn [fst snd]; try (split; [reflexivity|exact Hc]).
      split; [reflexivity|]. unfold cache_add. rewrite Ea.
      assert (cache_coherent ((rep, d) :: c)) as Hc' by (constructor; [exact En|exact Hc]).
      destruct ((0 <? max_size) && (max_size <? zlen ((rep, d) :: c))); [apply removelast_coherent|]; exact Hc'.
  - destruct (new_replacer_data rep) as [d| | |]; cbn [fst snd]; split; try reflexivity; exact Hc.
Qed.

End Cache.

(* ------------------------------------------------------------------------------------------ *)
(** * End to end: Replace(input, replacement, startAt, count)                                   *)

Definition start_ok (tw : list (Z * Z)) (startAt : Z) : Prop :=
  startAt <= byte_len tw /\ (0 <= startAt -> is_boundary tw startAt).

Section EndToEnd.
Variable is_word_char : Z -> bool.
Variable is_ecma_start : Z -> bool.
Variable is_ecma_char : Z -> bool.
Variable env : penv.
Variable n : Z.
Hypothesis Henv : env_ok env n.

Notation new_replacer_data := (Replace.new_replacer_data is_word_char is_ecma_start is_ecma_char env).
Notation replace_string := (Replace.replace_string is_word_char is_ecma_start is_ecma_char env).

Lemma replace_string_fold (rtl : bool) (rep : list Z) (d : rdata) (tw : list (Z * Z)) (startAt count : Z) (ms : list mtch) :
  -1 <= count -> start_ok tw startAt ->
  wf_matches rtl (runes_of tw) ms -> Forall (fun m => group_count m = n) ms ->
  new_replacer_data rep = Ok d ->
  exists toks, toks_of d = Some toks /\
               replace_string rtl rep tw startAt count ms = Ok (replace_spec rtl ms toks count (runes_of tw)).
Proof.
  intros Hc (Hs1 & Hs2) Hwf Hn Hd.
  destruct (new_replacer_data_spec _ _ _ env n Henv rep d Hd) as (Hok & toks & Ht & _).
  exists toks. split; [exact Ht|]. unfold Replace.replace_string. rewrite Hd. cbn [bind].
  eapply replace_data_fold; eauto. apply check_start_ok; assumption.
Qed.

Lemma replace_string_error (rtl : bool) (rep : list Z) (c : Z) (tw : list (Z * Z)) (startAt count : Z) (ms : list mtch) :
  new_replacer_data rep = Err c -> replace_string rtl rep tw startAt count ms = Err c.
Proof. intros H. unfold Replace.replace_string. rewrite H. reflexivity. Qed.

Lemma replace_string_amp (rtl : bool) (tw : list (Z * Z)) (startAt count : Z) (ms : list mtch) :
  -1 <= count -> start_ok tw startAt ->
  wf_matches rtl (runes_of tw) ms -> Forall group0_ok ms ->
  replace_string rtl [36; 38] tw startAt count ms = Ok (runes_of tw).
Proof.
  intros Hc (Hs1 & Hs2) Hwf Hg. unfold Replace.replace_string.
  rewrite (parse_amp _ _ _ env n Henv). cbn [bind].
  apply replace_amp_identity; try assumption. apply check_start_ok; assumption.
Qed.

End EndToEnd.

(* ------------------------------------------------------------------------------------------ *)
(** * The grammar is unambiguous                                                                *)

Section Unambiguous.
Variable is_word_char : Z -> bool.
Variable is_ecma_start : Z -> bool.
Variable is_ecma_char : Z -> bool.
Variable env : penv.

Notation dollar_form := (dollar_form is_word_char is_ecma_start is_ecma_char env).
Notation rep_spec := (rep_spec is_word_char is_ecma_start is_ecma_char env).

Lemma app_eq_app_cases {A} (a b c d : list A) :
  a ++ b = c ++ d -> (exists x, c = a ++ x /\ b = x ++ d) \/ (exists x, a = c ++ x /\ d = x ++ b).
Proof.
  revert c. induction a as [|y a IH]; intros c H.
  - left. exists c. split; [reflexivity|exact H].
  - destruct c as [|z c].
    + right. exists (y :: a). split; [reflexivity|symmetry; exact H].
    + cbn [app] in H. inversion H; subst. destruct (IH c H2) as [(x & -> & ->)|(x & -> & ->)].
      * left. exists x. split; reflexivity.
      * right. exists x. split; reflexivity.
Qed.

Lemma dollar_form_functional (p : list Z) (it it' : item) (r r' : list Z) :
  dollar_form p it r -> dollar_form p it' r' -> it = it' /\ r = r'.
Proof.
  intros H1 H2. destruct p as [|c q]; [exfalso; eapply no_form_nil; exact H1|].
  destruct (is_digit c) eqn:Ed.
  - apply form_inv_digit in H1 as (ds & A1 & A2 & A3 & A4 & A5 & A6); [|exact Ed].
    apply form_inv_digit in H2 as (ds' & B1 & B2 & B3 & B4 & B5 & B6); [|exact Ed].
    assert (ds = ds' /\ r = r') as (<- & <-).
    { destruct A6 as [(Ae & A6)|(Ae & A6)]; destruct B6 as [(Be & B6)|(Be & B6)]; try congruence.
      - pose proof (span_digits_of_app _ _ _ _ A2 A6 A3) as E1.
        pose proof (span_digits_of_app _ _ _ _ B2 B6 B3) as E2. rewrite E1 in E2. inversion E2; auto.
      - rewrite A3 in B3. destruct (app_eq_app_cases _ _ _ _ B3) as [(x & Hx & Hr)|(x & Hx & Hr)].
        + destruct x as [|y x]; [rewrite app_nil_r in Hx; subst; auto|].
          exfalso. rewrite Hx in B2. apply digits_app in B2 as (_ & Bx). rewrite Hx in B5.
          rewrite (A6 (y :: x) r') in B5; [discriminate|discriminate|exact Bx|exact Hr].
        + destruct x as [|y x]; [rewrite app_nil_r in Hx; subst; auto|].
          exfalso. rewrite Hx in A2. apply digits_app in A2 as (_ & Ax).
          rewrite Hx in A5. rewrite (B6 (y :: x) r) in A5; [discriminate|discriminate|exact Ax|exact Hr]. }
    split; [congruence|reflexivity].
  - destruct (Z.eq_dec c 123) as [->|Hc].
    + apply form_inv_brace in H1. apply form_inv_brace in H2.
      destruct H1 as [(ds & A1 & A2 & A3 & A4 & A5)|[(nm & A1 & A2 & A3 & A4 & A5 & A6 & A7 & A8)|(a & cs & A1 & A2 & A3 & A4 & A5 & A6 & A7 & A8 & A9)]];
      destruct H2 as [(ds' & B1 & B2 & B3 & B4 & B5)|[(nm' & B1 & B2 & B3 & B4 & B5 & B6 & B7 & B8)|(a' & cs' & B1 & B2 & B3 & B4 & B5 & B6 & B7 & B8 & B9)]];
      try congruence.
      * destruct q as [|y q]; [destruct ds; [contradiction|discriminate]|].
        pose proof (span_digits_of_app ds (125 :: r) y q A2 eq_refl A3) as E1.
        pose proof (span_digits_of_app ds' (125 :: r') y q B2 eq_refl B3) as E2.
        rewrite E1 in E2. inversion E2; subst. auto.
      * exfalso. destruct ds as [|d ds]; [contradiction|]. destruct nm' as [|x nm']; [contradiction|].
        rewrite A3 in B7. cbn [app hd] in *. inversion B7; subst. inversion A2; subst. congruence.
      * exfalso. destruct ds as [|d ds]; [contradiction|]. rewrite A3 in B8. cbn [app] in B8. inversion B8; subst.
        inversion A2; subst. congruence.
      * exfalso. destruct ds' as [|d ds']; [contradiction|]. destruct nm as [|x nm]; [contradiction|].
        rewrite B3 in A7. cbn [app hd] in *. inversion A7; subst. inversion B2; subst. congruence.
      * pose proof (scan_word_unique is_word_char nm r 125 A3 A5) as E1.
        pose proof (scan_word_unique is_word_char nm' r' 125 B3 B5) as E2.
        rewrite <- A7 in E1. rewrite <- B7 in E2. rewrite E1 in E2. inversion E2; subst. auto.
      * exfalso. destruct ds' as [|d ds']; [contradiction|]. rewrite B3 in A8. cbn [app] in A8. inversion A8; subst.
        inversion B2; subst. congruence.
      * rewrite A8 in B8. cbn [app] in B8. inversion B8 as [[Ha Hq]]. subst a'.
        assert (~ In 92 cs) as A5' by (intros Hi; apply A5; right; exact Hi).
        assert (~ In 92 cs') as B5' by (intros Hi; apply B5; right; exact Hi).
        pose proof (span_ecma_false_unique is_ecma_start is_ecma_char cs r 125 A4 A5' A6) as E1.
        pose proof (span_ecma_false_unique is_ecma_start is_ecma_char cs' r' 125 B4 B5' B6) as E2.
        rewrite Hq in E1. rewrite E1 in E2. inversion E2; subst. auto.
    + apply form_inv_other in H1 as (-> & A); try assumption. apply form_inv_other in H2 as (-> & B); try assumption.
      split; [|reflexivity].
      destruct A as [(-> & ->)|(A1 & ->)]; destruct B as [(B0 & ->)|(B1 & ->)]; try reflexivity.
      * exfalso. apply B1. reflexivity.
      * exfalso. subst c. apply A1. reflexivity.
Qed.

Lemma rep_spec_functional (s : list Z) (i1 i2 : list item) :
  rep_spec s i1 -> rep_spec s i2 -> i1 = i2.
Proof.
  intros H1. revert i2. induction H1 as [|c s its Hc H1 IH|s it rest its Hf H1 IH|s its Hno H1 IH]; intros i2 H2.
  - inversion H2; subst. reflexivity.
  - inversion H2; subst; try congruence. f_equal. apply IH. assumption.
  - inversion H2; subst; try congruence.
    + match goal with Hf' : dollar_form s ?it' ?rest' |- _ =>
        destruct (dollar_form_functional _ _ _ _ _ Hf Hf') as (<- & <-) end.
      f_equal. apply IH. assumption.
    + exfalso. match goal with Hn : forall it rest, ~ dollar_form s it rest |- _ => eapply Hn; exact Hf end.
  - inversion H2; subst; try congruence.
    + exfalso. eapply Hno. eassumption.
    + f_equal. apply IH. assumption.
Qed.

End Unambiguous.

(* ------------------------------------------------------------------------------------------ *)
(** * Which errors the parser can report                                                        *)

Section Errors.
Variable is_word_char : Z -> bool.
Variable is_ecma_start : Z -> bool.
Variable is_ecma_char : Z -> bool.
Variable env : penv.

(* ErrCaptureGroupOutOfRange is the only error: since /repo 273146b the errors of the ECMAScript name
   scanner (ErrInvalidECMAGroupName, ErrTooFewHex, ErrInvalidHex, ErrMissingBrace) are swallowed by
   scanDollar, which copies the '$' literally instead *)
Definition err_ok (c : Z) : Prop := c = E_CapOutOfRange.

Lemma scan_decimal_go_err (i : Z) (p : list Z) (c : Z) : scan_decimal_go i p = Err c -> c = E_CapOutOfRange.
Proof.
  revert i. induction p as [|ch p IH]; intros i H; cbn [scan_decimal_go] in H; [discriminate|].
  destruct ((ch - 48 <? 0) || (9 <? ch - 48)); [discriminate|].
  destruct ((rg_maxValueDiv10 <? i) || (i =? rg_maxValueDiv10) && (rg_maxValueMod10 <? ch - 48)).
  - inversion H; reflexivity.
  - eapply IH; exact H.
Qed.

Lemma ecma_digits_err (n : Z) (best : option (Z * list Z)) (p : list Z) (c : Z) :
  ecma_digits env n best p = Err c -> c = E_CapOutOfRange.
Proof.
  revert n best. induction p as [|ch p IH]; intros n best H; cbn [ecma_digits] in H; [discriminate|].
  destruct (negb (is_digit ch)); [discriminate|].
  destruct ((rg_maxValueDiv10 <? n) || (n =? rg_maxValueDiv10) && (rg_maxValueMod10 <? ch - 48)).
  - inversion H; reflexivity.
  - eapply IH; exact H.
Qed.

Lemma scan_dollar_err (p : list Z) (c : Z) :
  scan_dollar is_word_char is_ecma_start is_ecma_char env p = Err c -> err_ok c.
Proof.
  unfold scan_dollar. destruct p as [|ch0 p0]; [discriminate|].
  set (angled := (ch0 =? 123) && (1 <? zlen (ch0 :: p0))).
  destruct (if angled then p0 else ch0 :: p0) as [|ch q1]; [discriminate|].
  destruct (is_digit ch).
  - destruct (negb angled && use_e env).
    + destruct (ecma_digits env (ch - 48) (if is_capture_slot env (ch - 48) then Some (ch - 48, q1) else None) q1)
        as [r|e| |] eqn:E; cbn [bind]; try discriminate.
      * destruct r as [[capnum rest']|]; [destruct (0 <=? capnum)|]; discriminate.
      * intros H; inversion H; subst e. eapply ecma_digits_err; exact E.
    + unfold scan_decimal. destruct (scan_decimal_go 0 (ch :: q1)) as [[capnum q2]|e| |] eqn:E; cbn [bind]; try discriminate.
      * destruct (negb angled); [destruct (true && is_capture_slot env capnum); discriminate|].
        destruct q2 as [|x q3]; [discriminate|]. destruct ((x =? 125) && is_capture_slot env capnum); discriminate.
      * intros H; inversion H; subst e. eapply scan_decimal_go_err; exact E.
  - destruct (angled && is_group_name_start is_word_char is_ecma_start env ch).
    + destruct (scan_capname is_word_char is_ecma_start is_ecma_char env (ch :: q1)) as [[name q2]|e| |]; try discriminate.
      destruct q2 as [|x q3]; [discriminate|]. destruct ((x =? 125) && is_capture_name env name); discriminate.
    + destruct (negb angled); [|discriminate]. destruct (ch =? 36); [discriminate|].
      destruct (negb (special_capnum ch =? 1)); discriminate.
Qed.

Lemma scan_replacement_go_err (fuel : nat) (p : list Z) (c : Z) :
  scan_replacement_go is_word_char is_ecma_start is_ecma_char env fuel p = Err c -> err_ok c.
Proof.
  revert p. induction fuel as [|f IH]; intros p H; [discriminate|]. cbn [scan_replacement_go] in H.
  destruct p as [|x p']; [discriminate|].
  destruct (span_dollar (x :: p')) as [run rest]. destruct rest as [|d after]; [discriminate|].
  destruct (scan_dollar is_word_char is_ecma_start is_ecma_char env after) as [[nd rest']|e| |] eqn:E; cbn [bind] in H; try discriminate.
  - destruct (scan_replacement_go is_word_char is_ecma_start is_ecma_char env f rest') as [more|e| |] eqn:E2; cbn [bind] in H; try discriminate.
    inversion H; subst e. eapply IH; exact E2.
  - inversion H; subst e. eapply scan_dollar_err; exact E.
Qed.

Lemma build_rules_no_err (children : list rnode) (sb : list Z) (strings : list (list Z)) (rules : list Z) (c : Z) :
  build_rules env children sb strings rules <> Err c.
Proof.
  revert sb strings rules. induction children as [|nd rest IH]; intros sb strings rules; cbn [build_rules].
  - destruct (flush sb strings rules). discriminate.
  - destruct (n_t nd =? rg_NtMulti); [apply IH|]. destruct (n_t nd =? rg_NtOne); [apply IH|].
    destruct (n_t nd =? rg_NtRef); [|discriminate]. destruct (flush sb strings rules). apply IH.
Qed.

Lemma new_replacer_data_err (rep : list Z) (c : Z) :
  Replace.new_replacer_data is_word_char is_ecma_start is_ecma_char env rep = Err c -> err_ok c.
Proof.
  unfold Replace.new_replacer_data, scan_replacement.
  destruct (scan_replacement_go is_word_char is_ecma_start is_ecma_char env (S (length rep)) rep) as [children|e| |] eqn:E;
    cbn [bind]; try discriminate.
  - rewrite Z.eqb_refl. cbn [negb]. intros H. exfalso. eapply build_rules_no_err; exact H.
  - intros H; inversion H; subst e. eapply scan_replacement_go_err; exact E.
Qed.

End Errors.

(* ------------------------------------------------------------------------------------------ *)
(** * The statements of Properties/C09.v                                                        *)

Section Statements.
Variable is_word_char : Z -> bool.
Variable is_ecma_start : Z -> bool.
Variable is_ecma_char : Z -> bool.

Notation new_replacer_data := (Replace.new_replacer_data is_word_char is_ecma_start is_ecma_char).
Notation replace_string := (Replace.replace_string is_word_char is_ecma_start is_ecma_char).
Notation rep_spec := (rep_spec is_word_char is_ecma_start is_ecma_char).

Lemma thm_replace_fold (rtl : bool) :
  forall env n rep d tw startAt count ms,
    env_ok env n -> -1 <= count -> start_ok tw startAt ->
    wf_matches rtl (runes_of tw) ms -> Forall (fun m => group_count m = n) ms ->
    new_replacer_data env rep = Ok d ->
    exists toks, toks_of d = Some toks /\
      replace_string env rtl rep tw startAt count ms = Ok (replace_spec rtl ms toks count (runes_of tw)).
Proof. intros. eapply replace_string_fold; eassumption. Qed.

Lemma thm_replace_parse_error :
  forall env rtl rep c tw startAt count ms,
    new_replacer_data env rep = Err c -> replace_string env rtl rep tw startAt count ms = Err c.
Proof. intros. apply replace_string_error. assumption. Qed.

Lemma thm_replace_amp_identity :
  forall env n rtl tw startAt count ms,
    env_ok env n -> -1 <= count -> start_ok tw startAt ->
    wf_matches rtl (runes_of tw) ms -> Forall group0_ok ms ->
    replace_string env rtl [36; 38] tw startAt count ms = Ok (runes_of tw).
Proof. intros. eapply replace_string_amp; eassumption. Qed.

Lemma thm_parser_spec_partial :
  forall env n rep d,
    env_ok env n -> new_replacer_data env rep = Ok d ->
    (use_e env = true -> no_u_escape rep) ->
    exists items, rep_spec env rep items /\ toks_of d = Some (compile_items env items []).
Proof.
  intros env n rep d Henv Hd Hbs.
  destruct (new_replacer_data_spec _ _ _ env n Henv rep d Hd) as (_ & toks & Ht & Hg).
  destruct (Hg Hbs) as (items & Hr & ->). exists items. split; assumption.
Qed.

Lemma thm_replacer_data_ok :
  forall env n rep d,
    env_ok env n -> new_replacer_data env rep = Ok d ->
    data_ok d n /\ exists toks, toks_of d = Some toks.
Proof.
  intros env n rep d Henv Hd.
  destruct (new_replacer_data_spec _ _ _ env n Henv rep d Hd) as (Hok & toks & Ht & _).
  split; [exact Hok|]. exists toks. exact Ht.
Qed.

Lemma thm_no_panic :
  forall env rep, match new_replacer_data env rep with
                  | Ok _ | Err _ => True
                  | Crash _ | Fuel => False
                  end.
Proof. intros env rep. exact (new_replacer_data_good is_word_char is_ecma_start is_ecma_char env rep). Qed.

Lemma thm_error_codes :
  forall env rep c,
    new_replacer_data env rep = Err c ->
    c = E_CapOutOfRange.
Proof. intros env rep c H. exact (new_replacer_data_err _ _ _ env rep c H). Qed.

End Statements.

Lemma thm_replace_func_fold :
  forall rtl f tw startAt count ms,
    -1 <= count -> start_ok tw startAt -> wf_matches rtl (runes_of tw) ms ->
    replace rtl (ByEval f) tw startAt count ms = Ok (replace_spec_f rtl ms f count (runes_of tw)).
Proof.
  intros rtl f tw startAt count ms Hc (H1 & H2) Hwf. apply replace_func_fold; try assumption.
  apply check_start_ok; assumption.
Qed.

Lemma thm_replace_func_eq_replace :
  forall rtl d toks n f tw startAt count ms,
    -1 <= count -> start_ok tw startAt ->
    wf_matches rtl (runes_of tw) ms -> Forall (fun m => group_count m = n) ms ->
    data_ok d n -> toks_of d = Some toks ->
    (forall m, In m ms -> f m = expand toks m (runes_of tw)) ->
    replace rtl (ByEval f) tw startAt count ms = replace rtl (ByData d) tw startAt count ms.
Proof.
  intros rtl d toks n f tw startAt count ms Hc (H1 & H2). intros.
  eapply replace_func_eq_replace; eauto. apply check_start_ok; assumption.
Qed.

Lemma thm_expand_refs :
  forall d toks text m,
    wf_match (zlen text) m -> data_ok d (group_count m) -> toks_of d = Some toks ->
    (forall buf, replacement_impl d text m buf = Ok (buf ++ expand toks m text)) /\
    (forall al, exists pieces, replacement_impl_rtl d text m al = Ok (al ++ pieces) /\
                               concat (rev pieces) = expand toks m text).
Proof.
  intros d toks text m Hwf Hd Ht. split.
  - intros buf. apply replacement_impl_ok; assumption.
  - intros al. exists (rev (map (tok_text m text) toks)). split.
    + apply replacement_impl_rtl_ok; assumption.
    + rewrite rev_involutive. reflexivity.
Qed.

Lemma thm_expand_meaning :
  forall m text,
    (forall s, expand [TLit s] m text = s) /\
    (forall k caps i l, znth (m_groups m) k = Some caps -> last_opt caps = Some (i, l) ->
                        expand [TGroup k] m text = zslice text i (i + l)) /\
    (forall k caps, znth (m_groups m) k = Some caps -> caps = [] -> expand [TGroup k] m text = []) /\
    (m_groups m <> [] -> expand [TLast] m text = expand [TGroup (group_count m - 1)] m text) /\
    expand [TLeft] m text = firstn (Z.to_nat (m_index m)) text /\
    expand [TRight] m text = skipn (Z.to_nat (m_index m + m_length m)) text /\
    expand [TWhole] m text = text /\
    (forall a b, expand (a ++ b) m text = expand a m text ++ expand b m text).
Proof.
  intros m text. unfold expand. cbn [map concat tok_text].
  repeat split; intros; try (rewrite app_nil_r; reflexivity).
  - rewrite H. unfold cap_text. rewrite H0. apply app_nil_r.
  - rewrite H. subst caps. reflexivity.
  - unfold group_count. rewrite znth_last by assumption. reflexivity.
  - rewrite map_app, concat_app. reflexivity.
Qed.

Lemma thm_split_count :
  forall rtl tw ms,
    (forall count, count < -1 -> split rtl tw count ms = Err E_CountTooSmall) /\
    split rtl tw 0 ms = Ok [] /\
    split rtl tw 1 ms = Ok [runes_of tw] /\
    (zlen ms <= maxint -> split_processed (-1) ms = ms).
Proof.
  intros rtl tw ms. repeat split.
  - intros count H. apply split_count_too_small. exact H.
  - apply split_processed_all.
Qed.

(* the pre-fix loops on the defect witnesses *)
Definition w_a1b2 : list (Z * Z) := [(97, 1); (49, 1); (98, 1); (50, 1)].          (* "a1b2" *)
Definition w_rtl_ms : list mtch := [mkM 3 1 [[(3, 1)]]; mkM 1 1 [[(1, 1)]]].       (* \d, RightToLeft *)
Definition w_angle : rdata := mkRD [[60]; [62]] [0; -5; 1].                         (* "<$&>" *)

Lemma thm_unfixed_replace_rtl :
  replace_rtl_unfixed w_angle w_a1b2 (-1) w_rtl_ms = Ok [97; 62; 49; 60; 98; 62; 50; 60] /\
  replace_spec true w_rtl_ms [TLit [60]; TGroup 0; TLit [62]] (-1) (runes_of w_a1b2)
    = [97; 60; 49; 62; 98; 60; 50; 62] /\
  replace true (ByData w_angle) w_a1b2 (-1) (-1) w_rtl_ms = Ok [97; 60; 49; 62; 98; 60; 50; 62].
Proof. vm_compute. repeat split; reflexivity. Qed.

Lemma thm_unfixed_split_rtl :
  split_unfixed w_a1b2 (-1) w_rtl_ms = Crash C_slice /\
  split true w_a1b2 (-1) w_rtl_ms = Ok [[97]; [98]; []].
Proof. vm_compute. split; reflexivity. Qed.

Lemma thm_unfixed_count0 :
  replace_count0_unfixed = Ok [] /\
  replace false (ByData w_angle) w_a1b2 (-1) 0 [] = Ok (runes_of w_a1b2) /\ runes_of w_a1b2 <> [].
Proof. vm_compute. repeat split; try reflexivity. discriminate. Qed.
