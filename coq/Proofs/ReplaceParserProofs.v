(* Proofs for C09, part 2: the replacement-string parser and NewReplacerData. *)
From Verif Require Import Base.Prelude Gen.ReplaceGen Model.Escape Model.Replace Proofs.ReplaceProofs.
From Coq Require Import ZifyBool.

(* neither a Go run-time fault nor the model's own fuel running out *)
Definition good {A} (r : res A) : Prop :=
  match r with Ok _ | Err _ => True | Crash _ | Fuel => False end.

Lemma good_bind {A B} (r : res A) (k : A -> res B) :
  good r -> (forall a, r = Ok a -> good (k a)) -> good (bind r k).
Proof. destruct r; cbn; intros H1 H2; try exact I; try contradiction. apply H2. reflexivity. Qed.

(* ------------------------------------------------------------------------------------------ *)
(** * The sub-scanners consume input and never fault                                            *)

Lemma scan_hex_loop_len (c : nat) (i : Z) (p : list Z) (v : Z) (p' : list Z) :
  scan_hex_loop c i p = Ok (v, p') -> (length p' <= length p)%nat.
Proof.
  revert i p. induction c as [|c IH]; intros i p H; cbn [scan_hex_loop] in H.
  - inversion H; subst. lia.
  - destruct p as [|ch p]; [discriminate|]. destruct (hex_digit ch <? 0); [discriminate|].
    apply IH in H. cbn [length]. lia.
Qed.
Lemma scan_hex_loop_good (c : nat) (i : Z) (p : list Z) : good (scan_hex_loop c i p).
Proof.
  revert i p. induction c as [|c IH]; intros i p; cbn [scan_hex_loop]; [exact I|].
  destruct p as [|ch p]; [exact I|]. destruct (hex_digit ch <? 0); [exact I|apply IH].
Qed.
Lemma scan_hex_len (c : nat) (p : list Z) (v : Z) (p' : list Z) :
  scan_hex c p = Ok (v, p') -> (length p' <= length p)%nat.
Proof. unfold scan_hex. destruct (Nat.leb c (length p)); [apply scan_hex_loop_len|discriminate]. Qed.
Lemma scan_hex_good (c : nat) (p : list Z) : good (scan_hex c p).
Proof. unfold scan_hex. destruct (Nat.leb c (length p)); [apply scan_hex_loop_good|exact I]. Qed.

Lemma scan_hex_brace_len (i : Z) (has : bool) (p : list Z) (v : Z) (p' : list Z) :
  scan_hex_brace i has p = Ok (v, p') -> (length p' <= length p)%nat.
Proof.
  revert i has. induction p as [|ch p IH]; intros i has H; cbn [scan_hex_brace] in H; [discriminate|].
  destruct (ch =? 125).
  - destruct has; [|discriminate]. inversion H; subst. cbn [length]. lia.
  - destruct (hex_digit ch <? 0); [discriminate|]. destruct (1114111 <? i * 16 + hex_digit ch); [discriminate|].
    apply IH in H. cbn [length]. lia.
Qed.
Lemma scan_hex_brace_good (i : Z) (has : bool) (p : list Z) : good (scan_hex_brace i has p).
Proof.
  revert i has. induction p as [|ch p IH]; intros i has; cbn [scan_hex_brace]; [exact I|].
  destruct (ch =? 125); [destruct has; exact I|].
  destruct (hex_digit ch <? 0); [exact I|]. destruct (1114111 <? i * 16 + hex_digit ch); [exact I|apply IH].
Qed.

Section ParserFacts.
Variable is_word_char : Z -> bool.
Variable is_ecma_start : Z -> bool.
Variable is_ecma_char : Z -> bool.
Variable env : penv.

Notation scan_dollar := (scan_dollar is_word_char is_ecma_start is_ecma_char env).
Notation scan_capname := (scan_capname is_word_char is_ecma_start is_ecma_char env).
Notation scan_ecma_capname_go := (scan_ecma_capname_go is_ecma_start is_ecma_char env).
Notation scan_replacement_go := (scan_replacement_go is_word_char is_ecma_start is_ecma_char env).
Notation new_replacer_data := (new_replacer_data is_word_char is_ecma_start is_ecma_char env).

Lemma scan_decimal_go_len (i : Z) (p : list Z) (v : Z) (p' : list Z) :
  scan_decimal_go i p = Ok (v, p') -> (length p' <= length p)%nat.
Proof.
  revert i. induction p as [|ch p IH]; intros i H; cbn [scan_decimal_go] in H.
  - inversion H; subst. lia.
  - destruct ((ch - 48 <? 0) || (9 <? ch - 48)).
    + inversion H; subst. lia.
    + destruct ((rg_maxValueDiv10 <? i) || (i =? rg_maxValueDiv10) && (rg_maxValueMod10 <? ch - 48)); [discriminate|].
      apply IH in H. cbn [length]. lia.
Qed.
Lemma scan_decimal_go_good (i : Z) (p : list Z) : good (scan_decimal_go i p).
Proof.
  revert i. induction p as [|ch p IH]; intros i; cbn [scan_decimal_go]; [exact I|].
  destruct ((ch - 48 <? 0) || (9 <? ch - 48)); [exact I|].
  destruct ((rg_maxValueDiv10 <? i) || (i =? rg_maxValueDiv10) && (rg_maxValueMod10 <? ch - 48)); [exact I|apply IH].
Qed.

Lemma ecma_digits_len (K : nat) (n : Z) (best : option (Z * list Z)) (p : list Z) (c : Z) (r : list Z) :
  (forall c' r', best = Some (c', r') -> (length r' <= K)%nat) -> (length p <= K)%nat ->
  ecma_digits env n best p = Ok (Some (c, r)) -> (length r <= K)%nat.
Proof.
  revert n best. induction p as [|ch p IH]; intros n best Hb Hp H; cbn [ecma_digits] in H.
  - inversion H; subst. eapply Hb; reflexivity.
  - destruct (negb (is_digit ch)).
    + inversion H; subst. eapply Hb; reflexivity.
    + destruct ((rg_maxValueDiv10 <? n) || (n =? rg_maxValueDiv10) && (rg_maxValueMod10 <? ch - 48)); [discriminate|].
      cbn [length] in Hp. eapply IH; [| |exact H]; [|lia].
      intros c' r'. destruct (is_capture_slot env (n * 10 + (ch - 48))).
      * intros E; inversion E; subst. lia.
      * apply Hb.
Qed.
Lemma ecma_digits_good (n : Z) (best : option (Z * list Z)) (p : list Z) : good (ecma_digits env n best p).
Proof.
  revert n best. induction p as [|ch p IH]; intros n best; cbn [ecma_digits]; [exact I|].
  destruct (negb (is_digit ch)); [exact I|].
  destruct ((rg_maxValueDiv10 <? n) || (n =? rg_maxValueDiv10) && (rg_maxValueMod10 <? ch - 48)); [exact I|apply IH].
Qed.

Lemma scan_word_len (p a b : list Z) : scan_word is_word_char p = (a, b) -> (length b <= length p)%nat.
Proof.
  revert a b. induction p as [|ch p IH]; intros a b H; cbn [scan_word] in H.
  - inversion H; subst. lia.
  - destruct (is_word_char ch).
    + destruct (scan_word is_word_char p) as [a' b'] eqn:E. inversion H; subst.
      specialize (IH _ _ eq_refl). cbn [length]. lia.
    + inversion H; subst. lia.
Qed.

Lemma scan_ecma_capname_go_len (fuel : nat) (index : Z) (acc p acc' p' : list Z) :
  scan_ecma_capname_go fuel index acc p = Ok (acc', p') -> (length p' <= length p)%nat.
Proof.
  revert index acc p. induction fuel as [|f IH]; intros index acc p H; cbn [Replace.scan_ecma_capname_go] in H; [discriminate|].
  destruct p as [|ch p1]; [inversion H; subst; lia|].
  destruct (ch =? 92).
  - destruct p1 as [|u p2]; [discriminate|]. destruct (negb (u =? 117)); [discriminate|].
    match type of H with bind ?X _ = _ => destruct X as [[c p3]| | |] eqn:EX end; try discriminate.
    cbn [bind] in H.
    assert (length p3 <= length p2)%nat as Hl.
    { destruct p2 as [|b p2'].
      - apply scan_hex_len in EX. exact EX.
      - destruct (b =? 123).
        + destruct (use_u env); [|discriminate]. apply scan_hex_brace_len in EX. cbn [length]. lia.
        + apply scan_hex_len in EX. exact EX. }
    destruct (negb (if index =? 0 then is_ecma_start c else is_ecma_char c)); [discriminate|].
    apply IH in H. cbn [length]. lia.
  - destruct (negb (if index =? 0 then is_ecma_start ch else is_ecma_char ch)).
    + inversion H; subst. lia.
    + apply IH in H. cbn [length]. lia.
Qed.

Lemma scan_ecma_capname_go_good (fuel : nat) (index : Z) (acc p : list Z) :
  (length p < fuel)%nat -> good (scan_ecma_capname_go fuel index acc p).
Proof.
  revert index acc p. induction fuel as [|f IH]; intros index acc p Hf; [lia|]. cbn [Replace.scan_ecma_capname_go].
  destruct p as [|ch p1]; [exact I|]. cbn [length] in Hf.
  destruct (ch =? 92).
  - destruct p1 as [|u p2]; [exact I|]. destruct (negb (u =? 117)); [exact I|]. cbn [length] in Hf.
    apply good_bind.
    + destruct p2 as [|b p2']; [apply scan_hex_good|]. destruct (b =? 123); [|apply scan_hex_good].
      destruct (use_u env); [apply scan_hex_brace_good|exact I].
    + intros [c p3] EX.
      assert (length p3 <= length p2)%nat as Hl.
      { destruct p2 as [|b p2'].
        - apply scan_hex_len in EX. exact EX.
        - destruct (b =? 123).
          + destruct (use_u env); [|discriminate]. apply scan_hex_brace_len in EX. cbn [length]. lia.
          + apply scan_hex_len in EX. exact EX. }
      destruct (negb (if index =? 0 then is_ecma_start c else is_ecma_char c)); [exact I|].
      apply IH. lia.
  - destruct (negb (if index =? 0 then is_ecma_start ch else is_ecma_char ch)); [exact I|].
    apply IH. lia.
Qed.

Lemma scan_capname_len (p name rest : list Z) : scan_capname p = Ok (name, rest) -> (length rest <= length p)%nat.
Proof.
  unfold Replace.scan_capname. destruct (use_e env).
  - destruct (scan_ecma_capname_go (S (length p)) 0 [] p) as [[a r]| | |] eqn:E; try discriminate.
    cbn [bind]. intros H; inversion H; subst. eapply scan_ecma_capname_go_len; exact E.
  - intros H. inversion H as [H1]. eapply scan_word_len; exact H1.
Qed.
Lemma scan_capname_good (p : list Z) : good (scan_capname p).
Proof.
  unfold Replace.scan_capname. destruct (use_e env); [|exact I].
  apply good_bind; [apply scan_ecma_capname_go_good; lia|]. intros [a r] _. exact I.
Qed.

(* node kinds produced by the replacement parser *)
Definition node_kind_ok (n : rnode) : Prop := n_t n = rg_NtOne \/ n_t n = rg_NtMulti \/ n_t n = rg_NtRef.

Lemma scan_dollar_len (p : list Z) (n : rnode) (rest : list Z) :
  scan_dollar p = Ok (n, rest) -> (length rest <= length p)%nat /\ node_kind_ok n.
Proof.
  unfold Replace.scan_dollar. destruct p as [|ch0 p0].
  { intros H; inversion H; subst. split; [lia|left; reflexivity]. }
  set (angled := (ch0 =? 123) && (1 <? zlen (ch0 :: p0))).
  assert (forall n r, Ok (mk_one 36, ch0 :: p0) = Ok (n, r) -> (length r <= length (ch0 :: p0))%nat /\ node_kind_ok n) as Hlit.
  { intros n' r' H. inversion H; subst. split; [lia|left; reflexivity]. }
  destruct (if angled then p0 else ch0 :: p0) as [|ch q1] eqn:Eq; [discriminate|].
  assert (length (ch :: q1) <= length (ch0 :: p0))%nat as Hq.
  { destruct angled; [subst p0; cbn [length]; lia|inversion Eq; subst; lia]. }
  destruct (is_digit ch).
  - destruct (negb angled && use_e env).
    + destruct (ecma_digits env (ch - 48) (if is_capture_slot env (ch - 48) then Some (ch - 48, q1) else None) q1)
        as [r| | |] eqn:E; try discriminate. cbn [bind].
      destruct r as [[capnum rest']|]; [|apply Hlit].
      destruct (0 <=? capnum); [|apply Hlit]. intros H; inversion H; subst. split; [|right; right; reflexivity].
      assert (length rest <= length q1)%nat as Hr.
      { eapply (ecma_digits_len (length q1)); [| |exact E]; [|lia].
        intros c' r'. destruct (is_capture_slot env (ch - 48)); [|discriminate]. intros E'; inversion E'; subst. lia. }
      cbn [length] in *. lia.
    + unfold scan_decimal. destruct (scan_decimal_go 0 (ch :: q1)) as [[capnum q2]| | |] eqn:E; try discriminate.
      cbn [bind]. apply scan_decimal_go_len in E.
      destruct (negb angled).
      * destruct (true && is_capture_slot env capnum); [|apply Hlit].
        intros H; inversion H; subst. split; [lia|right; right; reflexivity].
      * destruct q2 as [|c q3].
        -- cbn [andb]. apply Hlit.
        -- destruct ((c =? 125) && is_capture_slot env capnum); [|apply Hlit].
           intros H; inversion H; subst. cbn [length] in *. split; [lia|right; right; reflexivity].
  - destruct (angled && is_group_name_start is_word_char is_ecma_start env ch).
    + destruct (scan_capname (ch :: q1)) as [[name q2]| | |] eqn:E; try discriminate. cbn [bind].
      apply scan_capname_len in E. destruct q2 as [|c q3]; [apply Hlit|].
      destruct ((c =? 125) && is_capture_name env name); [|apply Hlit].
      intros H; inversion H; subst. cbn [length] in *. split; [lia|right; right; reflexivity].
    + destruct (negb angled); [|apply Hlit].
      destruct (ch =? 36).
      * intros H; inversion H; subst. cbn [length] in *. split; [lia|left; reflexivity].
      * destruct (negb (special_capnum ch =? 1)); [|apply Hlit].
        intros H; inversion H; subst. cbn [length] in *. split; [lia|right; right; reflexivity].
Qed.

Lemma scan_dollar_good (p : list Z) : good (scan_dollar p).
Proof.
  unfold Replace.scan_dollar. destruct p as [|ch0 p0]; [exact I|].
  destruct ((ch0 =? 123) && (1 <? zlen (ch0 :: p0))) eqn:Ea.
  - destruct p0 as [|ch q1]; [rewrite zlen_cons in Ea; change (zlen (@nil Z)) with 0 in Ea; lia|].
    destruct (is_digit ch).
    + cbn [negb andb]. apply good_bind; [apply scan_decimal_go_good|]. intros [capnum q2] _.
      destruct q2 as [|c q3]; [exact I|]. destruct ((c =? 125) && is_capture_slot env capnum); exact I.
    + cbn [andb negb]. destruct (is_group_name_start is_word_char is_ecma_start env ch); [|exact I].
      apply good_bind; [apply scan_capname_good|]. intros [name q2] _.
      destruct q2 as [|c q3]; [exact I|]. destruct ((c =? 125) && is_capture_name env name); exact I.
  - destruct (is_digit ch0).
    + cbn [negb andb]. destruct (use_e env).
      * apply good_bind; [apply ecma_digits_good|]. intros [[capnum rest]|] _; [|exact I].
        destruct (0 <=? capnum); exact I.
      * apply good_bind; [apply scan_decimal_go_good|]. intros [capnum q2] _.
        cbn [andb]. destruct (is_capture_slot env capnum); exact I.
    + cbn [andb negb]. destruct (ch0 =? 36); [exact I|]. destruct (negb (special_capnum ch0 =? 1)); exact I.
Qed.

Lemma span_dollar_spec (p run rest : list Z) :
  span_dollar p = (run, rest) ->
  p = run ++ rest /\ ~ In 36 run /\ (rest = [] \/ exists after, rest = 36 :: after).
Proof.
  revert run rest. induction p as [|ch p IH]; intros run rest H; cbn [span_dollar] in H.
  - inversion H; subst. repeat split; auto.
  - destruct (ch =? 36) eqn:E.
    + inversion H; subst. assert (ch = 36) as -> by lia. repeat split; auto. right. eexists; reflexivity.
    + destruct (span_dollar p) as [a b]. inversion H; subst. destruct (IH _ _ eq_refl) as (H1 & H2 & H3).
      repeat split; [cbn [app]; congruence| |exact H3].
      intros [Hc|Hc]; [lia|contradiction].
Qed.

Lemma add_to_concatenate_kinds (run : list Z) : Forall node_kind_ok (add_to_concatenate run).
Proof.
  destruct run as [|c [|c' run]]; cbn [add_to_concatenate].
  - constructor.
  - constructor; [left; reflexivity|constructor].
  - constructor; [right; left; reflexivity|constructor].
Qed.

Lemma scan_replacement_go_good (fuel : nat) (p : list Z) :
  (length p < fuel)%nat -> good (scan_replacement_go fuel p).
Proof.
  revert p. induction fuel as [|f IH]; intros p Hf; [lia|]. cbn [Replace.scan_replacement_go].
  destruct p as [|c p']; [exact I|].
  destruct (span_dollar (c :: p')) as [run rest] eqn:Es.
  destruct (span_dollar_spec _ _ _ Es) as (Hp & _ & Hr).
  destruct rest as [|d after]; [exact I|].
  assert (length after < length (c :: p'))%nat as Hlen.
  { rewrite Hp, app_length. cbn [length]. lia. }
  apply good_bind; [apply scan_dollar_good|]. intros [n rest'] E. apply scan_dollar_len in E as (E & _).
  apply good_bind; [apply IH; lia|]. intros more _. exact I.
Qed.

Lemma scan_replacement_go_kinds (fuel : nat) (p : list Z) (nodes : list rnode) :
  scan_replacement_go fuel p = Ok nodes -> Forall node_kind_ok nodes.
Proof.
  revert p nodes. induction fuel as [|f IH]; intros p nodes H; [discriminate|]. cbn [Replace.scan_replacement_go] in H.
  destruct p as [|c p']; [inversion H; constructor|].
  destruct (span_dollar (c :: p')) as [run rest] eqn:Es.
  destruct rest as [|d after].
  - inversion H; subst. apply add_to_concatenate_kinds.
  - destruct (scan_dollar after) as [[n rest']| | |] eqn:E; try discriminate. cbn [bind] in H.
    destruct (scan_replacement_go f rest') as [more| | |] eqn:E2; try discriminate. cbn [bind] in H.
    inversion H; subst. apply Forall_app. split; [apply add_to_concatenate_kinds|].
    constructor; [apply scan_dollar_len in E; tauto|]. eapply IH; exact E2.
Qed.

Lemma build_rules_good (children : list rnode) (sb : list Z) (strings : list (list Z)) (rules : list Z) :
  Forall node_kind_ok children -> good (build_rules env children sb strings rules).
Proof.
  revert sb strings rules. induction children as [|c rest IH]; intros sb strings rules HF; cbn [build_rules].
  - destruct (flush sb strings rules). exact I.
  - inversion HF as [|? ? Hc HF']; subst.
    destruct (n_t c =? rg_NtMulti) eqn:E1; [apply IH; assumption|].
    destruct (n_t c =? rg_NtOne) eqn:E2; [apply IH; assumption|].
    destruct (n_t c =? rg_NtRef) eqn:E3.
    + destruct (flush sb strings rules). apply IH; assumption.
    + destruct Hc as [Hc|[Hc|Hc]]; lia.
Qed.

(* replacer_data_no_panic: NewReplacerData never reaches one of its panics (and the model's fuel
   is sufficient): the result is data or a parse error. *)
Lemma new_replacer_data_good (rep : list Z) : good (new_replacer_data rep).
Proof.
  unfold Replace.new_replacer_data, scan_replacement. apply good_bind.
  - apply good_bind; [apply scan_replacement_go_good; lia|]. intros; exact I.
  - intros [t children] H.
    destruct (scan_replacement_go (S (length rep)) rep) as [ch| | |] eqn:E; try discriminate.
    cbn [bind] in H. inversion H; subst. rewrite Z.eqb_refl. cbn [negb].
    apply build_rules_good. eapply scan_replacement_go_kinds; exact E.
Qed.

End ParserFacts.

(* ------------------------------------------------------------------------------------------ *)
(** * NewReplacerData: rules = compiled items, and they fit the matches of the Regexp           *)

Definition items_of_node (nd : rnode) : list item :=
  if n_t nd =? rg_NtMulti then map ILit (n_str nd)
  else if n_t nd =? rg_NtOne then [ILit (n_ch nd)]
  else [IRef (n_m nd)].
Definition items_of_nodes (l : list rnode) : list item := flat_map items_of_node l.

Definition group_num_ok (env : penv) (m : Z) : Prop :=
  match pe_caps env with
  | None => m < pe_capsize env
  | Some l => zlist_assoc m l <> None
  end.
Definition ref_ok (env : penv) (m : Z) : Prop := (-4 <= m /\ m < 0) \/ (0 <= m /\ group_num_ok env m).
Definition node_wf (env : penv) (nd : rnode) : Prop :=
  n_t nd = rg_NtOne \/ n_t nd = rg_NtMulti \/ (n_t nd = rg_NtRef /\ ref_ok env (n_m nd)).

Lemma zlist_assoc_In {B} (k : Z) (l : list (Z * B)) (v : B) : zlist_assoc k l = Some v -> In (k, v) l.
Proof.
  induction l as [|[k' v'] l IH]; cbn [zlist_assoc]; [discriminate|].
  destruct (k =? k') eqn:E; [|intros H; right; apply IH; exact H].
  intros H; inversion H; subst. left. f_equal. lia.
Qed.

Lemma zlist_eqb_eq (a b : list Z) : zlist_eqb a b = true -> a = b.
Proof.
  revert b. induction a as [|x a IH]; intros [|y b]; cbn [zlist_eqb]; try discriminate; [reflexivity|].
  intros H. apply andb_prop in H as (H1 & H2). f_equal; [lia|apply IH; exact H2].
Qed.

Lemma name_assoc_In {B} (k : list Z) (l : list (list Z * B)) (v : B) : name_assoc k l = Some v -> In (k, v) l.
Proof.
  induction l as [|[k' v'] l IH]; cbn [name_assoc]; [discriminate|].
  destruct (zlist_eqb k k') eqn:E; [|intros H; right; apply IH; exact H].
  intros H; inversion H; subst. left. f_equal. symmetry. apply zlist_eqb_eq. exact E.
Qed.

Lemma compile_items_lits (env : penv) (s : list Z) (rest : list item) (sb : list Z) :
  compile_items env (map ILit s ++ rest) sb = compile_items env rest (sb ++ s).
Proof.
  revert sb. induction s as [|c s IH]; intros sb; cbn [map app compile_items].
  - rewrite app_nil_r. reflexivity.
  - rewrite IH. rewrite <- app_assoc. reflexivity.
Qed.

Lemma tok_of_rule_mono (strings more : list (list Z)) (r : Z) (t : rtok) :
  tok_of_rule strings r = Some t -> tok_of_rule (strings ++ more) r = Some t.
Proof.
  unfold tok_of_rule. destruct (0 <=? r) eqn:E; [|auto].
  destruct (znth strings r) eqn:N; [|discriminate]. intros H.
  assert (r < zlen strings) as Hlt.
  { unfold znth in N. destruct (r <? 0); [discriminate|].
    assert (nth_error strings (Z.to_nat r) <> None) as Hn by congruence.
    apply nth_error_Some in Hn. unfold zlen. lia. }
  rewrite znth_app_l by exact Hlt. rewrite N. exact H.
Qed.

Lemma toks_of_rules_mono (strings more : list (list Z)) (rules : list Z) (toks : list rtok) :
  toks_of_rules strings rules = Some toks -> toks_of_rules (strings ++ more) rules = Some toks.
Proof.
  revert toks. induction rules as [|r rules IH]; intros toks H; [exact H|].
  cbn [toks_of_rules] in *. destruct (tok_of_rule strings r) eqn:Er; [|discriminate].
  destruct (toks_of_rules strings rules) eqn:E; [|discriminate].
  rewrite (tok_of_rule_mono _ more _ _ Er). rewrite (IH _ eq_refl). exact H.
Qed.

Lemma rule_ok_mono (a b n r : Z) : a <= b -> rule_ok a n r -> rule_ok b n r.
Proof. intros H (H1 & H2). split; [intros; specialize (H1 ltac:(assumption)); lia|exact H2]. Qed.

Lemma flush_spec (sb : list Z) (strings : list (list Z)) (rules : list Z) (toks0 : list rtok) (n : Z) :
  toks_of_rules strings rules = Some toks0 -> Forall (rule_ok (zlen strings) n) rules ->
  let '(s, r) := flush sb strings rules in
  toks_of_rules s r = Some (toks0 ++ (if nonempty sb then [TLit sb] else [])) /\
  Forall (rule_ok (zlen s) n) r /\ zlen strings <= zlen s.
Proof.
  intros Ht Hr. unfold flush. destruct (nonempty sb).
  - repeat split.
    + apply toks_of_rules_app; [apply toks_of_rules_mono; exact Ht|].
      cbn [toks_of_rules]. unfold tok_of_rule. pose proof (zlen_nonneg strings).
      destruct (0 <=? zlen strings) eqn:E; [|lia]. rewrite znth_app_r0. reflexivity.
    + apply Forall_app. split.
      * eapply Forall_impl; [|exact Hr]. intros r. apply rule_ok_mono. rewrite zlen_app. change (zlen [sb]) with 1. lia.
      * constructor; [|constructor]. split; [intros _; rewrite zlen_app; change (zlen [sb]) with 1; lia|].
        pose proof (zlen_nonneg strings). lia.
    + rewrite zlen_app. change (zlen [sb]) with 1. lia.
  - rewrite app_nil_r. repeat split; try assumption. lia.
Qed.

Section BuildRules.
Variable env : penv.
Variable n : Z.
Hypothesis Henv : env_ok env n.

Lemma slot_of_ok (m : Z) :
  ref_ok env m -> -4 <= slot_of env m /\ slot_of env m < n /\ (m < 0 -> slot_of env m = m).
Proof.
  destruct Henv as (Hn & Hcaps & _). unfold slot_of, caps_nonempty, caps_lookup, ref_ok, group_num_ok.
  intros [(H1 & H2)|(H1 & H2)].
  - destruct (0 <=? m) eqn:E; [lia|]. rewrite andb_false_r. repeat split; lia.
  - destruct (pe_caps env) as [l|].
    + destruct Hcaps as (HF & H0). destruct l as [|kv l]; [discriminate|].
      destruct (0 <=? m) eqn:E; [|lia]. cbn [andb].
      destruct (zlist_assoc m (kv :: l)) as [v|] eqn:Ea; [|contradiction].
      apply zlist_assoc_In in Ea. rewrite Forall_forall in HF. specialize (HF _ Ea). cbn [snd] in HF.
      repeat split; lia.
    + cbn [andb]. repeat split; lia.
Qed.

Lemma tok_of_rule_ref (strings : list (list Z)) (slot : Z) :
  -4 <= slot -> tok_of_rule strings (-5 - slot) = Some (ref_tok slot).
Proof.
  intros H. unfold tok_of_rule, ref_tok.
  destruct (0 <=? -5 - slot) eqn:E0; [lia|].
  destruct (slot =? -1) eqn:E1.
  { assert (slot = -1) as -> by lia. reflexivity. }
  destruct (slot =? -2) eqn:E2.
  { assert (slot = -2) as -> by lia. reflexivity. }
  destruct (slot =? -3) eqn:E3.
  { assert (slot = -3) as -> by lia. reflexivity. }
  destruct (slot =? -4) eqn:E4.
  { assert (slot = -4) as -> by lia. reflexivity. }
  destruct (-5 - slot =? -1) eqn:F1; [lia|]. destruct (-5 - slot =? -2) eqn:F2; [lia|].
  destruct (-5 - slot =? -3) eqn:F3; [lia|]. destruct (-5 - slot =? -4) eqn:F4; [lia|].
  f_equal. f_equal. lia.
Qed.

Lemma build_rules_spec (children : list rnode) :
  forall (sb : list Z) (strings : list (list Z)) (rules : list Z) (toks0 : list rtok),
    Forall (node_wf env) children ->
    toks_of_rules strings rules = Some toks0 -> Forall (rule_ok (zlen strings) n) rules ->
    exists d, build_rules env children sb strings rules = Ok d /\
              toks_of d = Some (toks0 ++ compile_items env (items_of_nodes children) sb) /\
              data_ok d n.
Proof.
  induction children as [|c rest IH]; intros sb strings rules toks0 HF Ht Hr; cbn [build_rules].
  - pose proof (flush_spec sb strings rules toks0 n Ht Hr) as Hfl.
    destruct (flush sb strings rules) as [s r]. destruct Hfl as (H1 & H2 & _).
    exists (mkRD s r). split; [reflexivity|]. split; [exact H1|exact H2].
  - inversion HF as [|? ? Hc HF']; subst. unfold items_of_nodes. cbn [flat_map]. fold (items_of_nodes rest).
    unfold items_of_node.
    destruct (n_t c =? rg_NtMulti) eqn:E1.
    { rewrite compile_items_lits. apply IH; assumption. }
    destruct (n_t c =? rg_NtOne) eqn:E2.
    { cbn [app compile_items]. apply IH; assumption. }
    destruct Hc as [Hc|[Hc|(Hc & Hok)]]; [lia|lia|].
    destruct (n_t c =? rg_NtRef) eqn:E3; [|lia].
    pose proof (flush_spec sb strings rules toks0 n Ht Hr) as Hfl.
    destruct (flush sb strings rules) as [s r]. destruct Hfl as (H1 & H2 & H3).
    fold (slot_of env (n_m c)). destruct (slot_of_ok _ Hok) as (Hs1 & Hs2 & Hs3).
    unfold s_replaceSpecials. change (- (4) - 1 - slot_of env (n_m c)) with (-4 - 1 - slot_of env (n_m c)).
    replace (-4 - 1 - slot_of env (n_m c)) with (-5 - slot_of env (n_m c)) by lia.
    destruct (IH [] s (r ++ [-5 - slot_of env (n_m c)])
                 ((toks0 ++ (if nonempty sb then [TLit sb] else [])) ++ [ref_tok (slot_of env (n_m c))]) HF')
      as (d & Hd1 & Hd2 & Hd3).
    + apply toks_of_rules_app; [exact H1|]. cbn [toks_of_rules]. rewrite tok_of_rule_ref by lia. reflexivity.
    + apply Forall_app. split; [exact H2|]. constructor; [|constructor]. split; lia.
    + exists d. split; [exact Hd1|]. split; [|exact Hd3]. rewrite Hd2. cbn [app compile_items].
      rewrite <- !app_assoc. reflexivity.
Qed.

End BuildRules.
