(* C02 — a candidate answered by a prefilter closure is the byte offset of a rune at or after the
   start (so the validation in findStringPrefixCandidate never rejects it, and the unvalidated use
   in MatchString / matchStringAt decodes it to a rune index). *)
From Verif Require Import Base.Prelude Base.Utf8 Gen.CodeGen Model.Offsets Model.Entry Proofs.Utf8Proofs
  Proofs.EntryBase Proofs.EntryFilter Proofs.EntryProofs.
From Coq Require Import ZifyBool.
Ltac Zify.zify_post_hook ::= Z.div_mod_to_equations.

Definition enb_at_boundary (b : list Z) (k0 : nat) (c : Z) : Prop :=
  exists k', (k0 <= k' <= length (decode b))%nat /\ c = Z.of_nat (boundary b k').

Definition enf_boundary_spec (f : en_filter) : Prop :=
  forall (b : list Z) (k0 : nat) (c : Z), (k0 <= length (decode b))%nat ->
    en_run_filter f b (Z.of_nat (boundary b k0)) = Ok (c, true) -> enb_at_boundary b k0 c.

(* the constructor never builds a single-prefix filter for the empty prefix (stringprefixfilter.go:178) *)
Definition enf_ok_strict (f : en_filter) : Prop :=
  enf_ok f /\ match f with FPrefix P _ _ => P <> [] | _ => True end.

Lemma enfb_at k0 b k' : (k0 <= length (decode b))%nat -> (k' < length (decode b))%nat ->
  (boundary b k0 <= boundary b k')%nat -> enb_at_boundary b k0 (Z.of_nat (boundary b k')).
Proof.
  intros H0 Hk H. exists k'. split; [|reflexivity]. split; [|lia]. apply (enb_boundary_inj_le b); lia.
Qed.

(* an occurrence of a literal of good runes starts a rune *)
Lemma enfb_occ_boundary b sa o lit :
  enb_no_fffd lit -> lit <> [] -> enb_occ (skipn sa b) lit o ->
  exists kj, (kj < length (decode b))%nat /\ (sa + o)%nat = boundary b kj.
Proof.
  intros Hnf Hne Ho. destruct (enb_no_fffd_good lit Hnf) as [Hlit Hg].
  assert (Hps : runes_of lit <> []) by (intros E; rewrite E in Hlit; cbn in Hlit; congruence).
  destruct (enf_encode_string_lead _ Hg Hps) as (x & rest & Hx & Hc). rewrite <- Hlit in Hx.
  unfold enb_occ in Ho. rewrite enb_skipn_skipn in Ho.
  pose proof (enb_has_prefix_length _ _ Ho) as Hl. rewrite skipn_length in Hl.
  assert (L : (sa + o < length b)%nat) by (rewrite Hx in Hl; cbn [length] in Hl; lia).
  assert (Hb : nth (sa + o) b 0 = x).
  { rewrite (enf_skipn_cons b 0 _ L), Hx in Ho. cbn [en_has_prefix] in Ho. apply andb_true_iff in Ho. lia. }
  destruct (enf_noncont_boundary b (sa + o) L ltac:(rewrite Hb; exact Hc)) as [kj [Hkj Hbj]]. eauto.
Qed.

Lemma enfb_ci_occ_boundary b sa o P :
  enf_ascii P -> P <> [] -> enf_ci_occ (skipn sa b) P o ->
  exists kj, (kj < length (decode b))%nat /\ (sa + o)%nat = boundary b kj.
Proof.
  intros HA Hne Ho. destruct P as [|p P']; [congruence|].
  destruct (enf_ci_occ_first_byte _ p P' o Ho) as [Hl Hf]. rewrite skipn_length in Hl. cbn [length] in Hl.
  rewrite enf_nth_skipn in Hf.
  unfold enf_ascii in HA. apply Forall_cons_iff in HA. destruct HA as [Hp _].
  assert (Hy : 0 <= nth (sa + o) b 0 < 128) by (unfold en_fold_ascii in Hf; repeat break_if; lia).
  destruct (enf_ascii_byte_rune b (sa + o) ltac:(lia) Hy) as (kj & Hkj & Hbj & _). eauto.
Qed.

Lemma enfb_str_occ_boundary ci b k0 P j :
  enf_str_ok ci P -> P <> [] -> (k0 <= length (decode b))%nat ->
  enf_str_occ ci (skipn (boundary b k0) b) P j ->
  enb_at_boundary b k0 (Z.of_nat (boundary b k0) + Z.of_nat j).
Proof.
  intros Hok Hne Hk0 Ho. unfold enf_str_ok, enf_str_occ in *.
  assert (H : exists kj, (kj < length (decode b))%nat /\ (boundary b k0 + j)%nat = boundary b kj).
  { destruct ci; [apply enfb_ci_occ_boundary with (P := P)|apply enfb_occ_boundary with (lit := P)]; assumption. }
  destruct H as (kj & Hkj & Hb). replace (Z.of_nat (boundary b k0) + Z.of_nat j) with (Z.of_nat (boundary b kj)) by lia.
  apply enfb_at; [exact Hk0|exact Hkj|lia].
Qed.

Lemma enfb_prefix P ci m : enf_ok_strict (FPrefix P ci m) -> enf_boundary_spec (FPrefix P ci m).
Proof.
  intros [Hok Hne] b k0 c Hk0. cbn [enf_ok] in Hok. cbn [en_run_filter].
  destruct (en_has_min_bytes b (Z.of_nat (boundary b k0)) m); cbn [negb]; [|discriminate].
  rewrite enb_from_nat.
  destruct (enf_index_maybe_ci_first ci (skipn (boundary b k0) b) P) as [j [Hj Hf]]. rewrite Hj. cbn [bind].
  destruct (j <? 0) eqn:Ej; [discriminate|]. intros H. injection H as <-.
  destruct Hf as [[-> _]|[k [-> [Ho _]]]]; [lia|].
  apply (enfb_str_occ_boundary ci b k0 P k Hok Hne Hk0 Ho).
Qed.

Lemma enfb_str_occ_nil ci s : enf_str_occ ci s [] 0.
Proof. unfold enf_str_occ, enf_ci_occ, enb_occ. cbn [skipn]. destruct ci; destruct s; reflexivity. Qed.

Lemma enfb_prefixes Ps ci m : enf_ok (FPrefixes Ps ci m) -> enf_boundary_spec (FPrefixes Ps ci m).
Proof.
  intros Hok b k0 c Hk0. cbn [enf_ok] in Hok. rewrite Forall_forall in Hok. cbn [en_run_filter].
  destruct (en_has_min_bytes b (Z.of_nat (boundary b k0)) m); cbn [negb]; [|discriminate].
  rewrite enb_from_nat.
  destruct (enf_best_offset_spec ci (skipn (boundary b k0) b) Ps (fun _ => False) (-1)) as [j [Hj Hf]].
  { left. split; [reflexivity|]. intros k []. }
  rewrite Hj. cbn [bind]. destruct (j <? 0) eqn:Ej; [discriminate|]. intros H. injection H as <-.
  destruct Hf as [[-> _]|[k [-> [[[]|[P [Hin Ho]]] Hfirst]]]]; [lia|].
  destruct P as [|p P'] eqn:EP.
  - (* the empty prefix occurs at offset 0, so the first occurrence is 0 *)
    assert (k = 0%nat).
    { destruct k as [|k']; [reflexivity|]. exfalso. apply (Hfirst 0%nat); [lia|].
      right. exists []. split; [exact Hin|apply enfb_str_occ_nil]. }
    subst k. exists k0. rewrite Z.add_0_r. split; [lia|reflexivity].
  - rewrite <- EP in *. apply (enfb_str_occ_boundary ci b k0 P k (Hok P Hin) ltac:(rewrite EP; discriminate) Hk0 Ho).
Qed.

Lemma enfb_ascii_set_loop Ps b k0 c :
  Forall (fun P => enf_ascii P /\ P <> []) Ps -> (k0 <= length (decode b))%nat ->
  forall fuel sa, (boundary b k0 <= sa)%nat ->
    en_ascii_set_loop fuel Ps b (Z.of_nat sa) = Ok (c, true) -> enb_at_boundary b k0 c.
Proof.
  intros Hok Hk0. induction fuel as [|f IH]; intros sa Hsa; [discriminate|].
  cbn [en_ascii_set_loop]. unfold zlen.
  destruct (Z.of_nat sa <? Z.of_nat (length b)); [|discriminate].
  rewrite enb_from_nat.
  pose proof (enf_index_any_ascii (skipn sa b) (en_first_chars Ps) (enf_first_chars_ascii Ps Hok)) as F.
  destruct (en_index_any (skipn sa b) (en_first_chars Ps) <? 0) eqn:E2; [discriminate|].
  destruct F as [[F1 _]|[o [F1 [[F2 F2'] _]]]]; [lia|].
  rewrite F1. replace (Z.of_nat sa + Z.of_nat o) with (Z.of_nat (sa + o)) by lia. rewrite enb_at_nat.
  rewrite skipn_length in F2. rewrite enf_nth_skipn in F2'.
  destruct (en_bucket_hit b (Z.of_nat (sa + o)) (en_bucket Ps (nth (sa + o) b 0))).
  - intros H. injection H as <-.
    assert (Hy : 0 <= nth (sa + o) b 0 < 128).
    { pose proof (enf_first_chars_ascii Ps Hok) as HA. unfold enf_ascii in HA. rewrite Forall_forall in HA.
      apply enf_zmem_In in F2'. exact (HA _ F2'). }
    destruct (enf_ascii_byte_rune b (sa + o) ltac:(lia) Hy) as (kj & Hkj & Hbj & _).
    rewrite Hbj. apply enfb_at; [exact Hk0|exact Hkj|lia].
  - replace (Z.of_nat (sa + o) + 1) with (Z.of_nat (S (sa + o))) by lia. apply IH. lia.
Qed.

Lemma enfb_ascii_set Ps m : enf_ok (FAsciiSet Ps m) -> enf_boundary_spec (FAsciiSet Ps m).
Proof.
  intros Hok b k0 c Hk0. cbn [enf_ok] in Hok. cbn [en_run_filter].
  destruct (en_has_min_bytes b (Z.of_nat (boundary b k0)) m); cbn [negb]; [|discriminate].
  apply (enfb_ascii_set_loop Ps b k0 c Hok Hk0). lia.
Qed.

(* the three fixed-distance loops: a candidate is what stringFixedDistanceCandidateStart computed from a boundary *)
Lemma enfb_candidate b k0 d kj c :
  (k0 <= kj <= length (decode b))%nat ->
  en_candidate_start b (Z.of_nat (boundary b k0)) (Z.of_nat (boundary b kj)) d = Some c -> enb_at_boundary b k0 c.
Proof.
  intros Hkj H. rewrite enf_candidate_start_spec in H by exact Hkj.
  destruct (k0 + d <=? kj)%nat eqn:E; [|discriminate H]. apply Nat.leb_le in E. injection H as <-.
  exists (kj - d)%nat. split; [lia|reflexivity].
Qed.

Lemma enfb_set_loop sc m b k0 c :
  enf_sc_ok sc -> (k0 <= length (decode b))%nat ->
  forall fuel sa, (boundary b k0 <= sa)%nat ->
    en_set_loop fuel sc m b (Z.of_nat (boundary b k0)) (Z.of_nat sa) = Ok (c, true) -> enb_at_boundary b k0 c.
Proof.
  intros Hok Hk0. induction fuel as [|f IH]; intros sa Hsa; [discriminate|].
  cbn [en_set_loop]. unfold zlen.
  destruct (Z.of_nat sa <? Z.of_nat (length b)); [|discriminate].
  rewrite enb_from_nat. pose proof (enf_scanner_index_first sc (skipn sa b) Hok) as F.
  destruct (en_scanner_index sc (skipn sa b) <? 0) eqn:E2; [discriminate|].
  destruct F as [[F1 _]|[o [F1 [[F2 F2'] _]]]]; [lia|].
  rewrite F1. replace (Z.of_nat sa + Z.of_nat o) with (Z.of_nat (sa + o)) by lia.
  rewrite skipn_length in F2. rewrite enf_nth_skipn in F2'.
  destruct (enf_ascii_byte_rune b (sa + o) ltac:(lia)) as (kj & Hkj & Hbj & _).
  { pose proof (enf_sc_pred_ascii sc _ Hok F2'). lia. }
  assert (Hk0j : (k0 <= kj)%nat) by (apply (enb_boundary_inj_le b); lia).
  rewrite Hbj.
  destruct (en_candidate_start b (Z.of_nat (boundary b k0)) (Z.of_nat (boundary b kj)) (Z.to_nat (sc_distance sc))) as [c0|] eqn:Ec.
  - destruct (en_has_min_bytes b c0 m); [|discriminate]. intros H. injection H as <-.
    apply (enfb_candidate b k0 _ kj c0 ltac:(lia) Ec).
  - replace (Z.of_nat (boundary b kj) + 1) with (Z.of_nat (S (sa + o))) by lia. apply IH. lia.
Qed.

Lemma enfb_set sc m : enf_ok (FSet sc m) -> enf_boundary_spec (FSet sc m).
Proof.
  intros Hok b k0 c Hk0. cbn [enf_ok] in Hok. cbn [en_run_filter].
  destruct (en_has_min_bytes b (Z.of_nat (boundary b k0)) m); cbn [negb]; [|discriminate].
  apply (enfb_set_loop sc m b k0 c Hok Hk0). lia.
Qed.

Lemma enfb_string_loop lit dz m b k0 c :
  enb_no_fffd lit -> lit <> [] -> (k0 <= length (decode b))%nat ->
  forall fuel sa, (boundary b k0 <= sa)%nat ->
    en_string_loop fuel lit dz m b (Z.of_nat (boundary b k0)) (Z.of_nat sa) = Ok (c, true) -> enb_at_boundary b k0 c.
Proof.
  intros Hnf Hne Hk0. induction fuel as [|f IH]; intros sa Hsa; [discriminate|].
  cbn [en_string_loop].
  destruct (Z.of_nat sa <=? zlen b - zlen lit); [|discriminate].
  rewrite enb_from_nat. pose proof (enf_index_first (skipn sa b) lit) as F.
  destruct (en_index (skipn sa b) lit <? 0) eqn:E2; [discriminate|].
  destruct F as [[F1 _]|[o [F1 [F2 _]]]]; [lia|].
  rewrite F1. replace (Z.of_nat sa + Z.of_nat o) with (Z.of_nat (sa + o)) by lia.
  destruct (enfb_occ_boundary b sa o lit Hnf Hne F2) as (kj & Hkj & Hbj).
  assert (Hk0j : (k0 <= kj)%nat) by (apply (enb_boundary_inj_le b); lia).
  rewrite Hbj.
  destruct (en_candidate_start b (Z.of_nat (boundary b k0)) (Z.of_nat (boundary b kj)) (Z.to_nat dz)) as [c0|] eqn:Ec.
  - destruct (en_has_min_bytes b c0 m); [|discriminate]. intros H. injection H as <-.
    apply (enfb_candidate b k0 _ kj c0 ltac:(lia) Ec).
  - replace (Z.of_nat (boundary b kj) + 1) with (Z.of_nat (S (sa + o))) by lia. apply IH. lia.
Qed.

Lemma enfb_string lit dz m : enf_ok (FString lit dz m) -> enf_boundary_spec (FString lit dz m).
Proof.
  intros (Hd & Hnf & Hne) b k0 c Hk0. cbn [en_run_filter].
  destruct (en_has_min_bytes b (Z.of_nat (boundary b k0)) m); cbn [negb]; [|discriminate].
  apply (enfb_string_loop lit dz m b k0 c Hnf Hne Hk0). lia.
Qed.

Lemma enfb_good_no_fffd ch : valid_rune ch = true -> ch <> rune_error -> enb_no_fffd (encode ch).
Proof.
  intros Hv Hne. unfold enb_no_fffd, en_contains_rune, en_index_rune.
  replace ((0 <=? rune_error) && (rune_error <? 128)) with false by reflexivity.
  rewrite Z.eqb_refl. unfold go_range.
  destruct (enb_range_find_spec (fun c => c =? rune_error) (decode (encode ch)) 0) as [[H1 _]|(k & c1 & w & H1 & H2 & _)].
  - rewrite H1. reflexivity.
  - exfalso. pose proof (decode_encode_app ch []) as D. rewrite app_nil_r, decode_nil in D. rewrite D in H1.
    destruct k as [|k]; [|destruct k; discriminate H1]. cbn [nth_error] in H1. injection H1 as <- _.
    unfold sanitize in H2. rewrite Hv in H2. lia.
Qed.

Lemma enfb_char_loop ch dz m b k0 c :
  ch <> rune_error -> (k0 <= length (decode b))%nat ->
  forall fuel sa, (boundary b k0 <= sa)%nat ->
    en_char_loop fuel ch dz m b (Z.of_nat (boundary b k0)) (Z.of_nat sa) = Ok (c, true) -> enb_at_boundary b k0 c.
Proof.
  intros Hne Hk0. induction fuel as [|f IH]; intros sa Hsa; [discriminate|].
  cbn [en_char_loop]. rewrite enb_from_nat.
  destruct (valid_rune ch) eqn:Hv.
  2:{ assert (E : en_index_rune (skipn sa b) ch = -1).
      { unfold en_index_rune.
        assert (Hrange : (0 <=? ch) && (ch <? 128) = false).
        { pose proof Hv as Hv'. unfold valid_rune, is_surrogate, max_rune in Hv'. lia. }
        rewrite Hrange. replace (ch =? rune_error) with false by lia. rewrite Hv. reflexivity. }
      rewrite E. cbn. discriminate. }
  pose proof (enf_index_rune_first (skipn sa b) ch Hv Hne) as F.
  destruct (en_index_rune (skipn sa b) ch <? 0) eqn:E2; [discriminate|].
  destruct F as [[F1 _]|[o [F1 [F2 _]]]]; [lia|].
  rewrite F1. replace (Z.of_nat sa + Z.of_nat o) with (Z.of_nat (sa + o)) by lia.
  destruct (enfb_occ_boundary b sa o (encode ch) (enfb_good_no_fffd ch Hv Hne) (enb_encode_nonempty ch) F2) as (kj & Hkj & Hbj).
  assert (Hk0j : (k0 <= kj)%nat) by (apply (enb_boundary_inj_le b); lia).
  rewrite Hbj.
  destruct (en_candidate_start b (Z.of_nat (boundary b k0)) (Z.of_nat (boundary b kj)) (Z.to_nat dz)) as [c0|] eqn:Ec.
  - destruct (en_has_min_bytes b c0 m); [|discriminate]. intros H. injection H as <-.
    apply (enfb_candidate b k0 _ kj c0 ltac:(lia) Ec).
  - rewrite enb_from_nat. pose proof (enf_decode_nth b kj Hkj) as Hn.
    destruct (decode_rune (skipn (boundary b kj) b)) as [c' w'] eqn:Ed.
    destruct (enb_boundary_step b kj c' w' Hn) as (HS & Hw & _). cbn [snd].
    replace (Z.of_nat w' =? 0) with false by lia.
    replace (Z.of_nat (boundary b kj) + Z.of_nat w') with (Z.of_nat (boundary b (S kj))) by lia.
    apply IH. lia.
Qed.

Lemma enfb_char ch dz m : enf_ok (FChar ch dz m) -> enf_boundary_spec (FChar ch dz m).
Proof.
  intros (Hd & Hne) b k0 c Hk0. cbn [en_run_filter].
  destruct (en_has_min_bytes b (Z.of_nat (boundary b k0)) m); cbn [negb]; [|discriminate].
  apply (enfb_char_loop ch dz m b k0 c Hne Hk0). lia.
Qed.

Lemma enfb_lit_loop l m : enf_boundary_spec (FLitLoop l m).
Proof.
  intros b k0 c Hk0. cbn [en_run_filter].
  destruct (en_has_min_bytes b (Z.of_nat (boundary b k0)) m); cbn [negb]; [|discriminate].
  destruct (en_has_literal_after_loop b (Z.of_nat (boundary b k0)) l) as [h| | |]; cbn [bind]; try discriminate.
  destruct h; [|discriminate]. intros H. injection H as <-. exists k0. split; [lia|reflexivity].
Qed.

Theorem enf_candidate_on_boundary f : enf_ok_strict f -> enf_boundary_spec f.
Proof.
  intros Hs. pose proof (proj1 Hs) as Hok. destruct f.
  - apply enfb_prefix. exact Hs.
  - apply enfb_prefixes. exact Hok.
  - apply enfb_ascii_set. exact Hok.
  - apply enfb_set. exact Hok.
  - apply enfb_char. exact Hok.
  - apply enfb_string. exact Hok.
  - apply enfb_lit_loop.
Qed.

(* the constructor's filters are strict *)
Lemma enfb_select_strict o f : enp_select o = Some f -> match f with FPrefix P _ _ => P <> [] | _ => True end.
Proof.
  unfold enp_select. cbv zeta.
  repeat match goal with |- (if ?c then _ else _) = _ -> _ => destruct c end; try discriminate.
  - unfold en_index_prefix_filter. destruct (fo_prefix o) eqn:E; [discriminate|]. cbn [andb].
    intros H. injection H as <-. discriminate.
  - unfold en_index_prefix_filter. destruct (fo_prefix o) eqn:E; [discriminate|].
    destruct (true && negb (en_is_ascii (z :: l))); [discriminate|]. intros H. injection H as <-. discriminate.
  - unfold en_index_prefixes_filter. destruct (fo_prefixes o); [discriminate|].
    destruct (false && _); [discriminate|].
    destruct (en_compile_ascii_set _ _ _) as [g|] eqn:E.
    + unfold en_compile_ascii_set in E. repeat match type of E with (if ?c then _ else _) = _ => destruct c end; try discriminate E.
      injection E as <-. intros H. injection H as <-. exact I.
    + intros H. injection H as <-. exact I.
  - unfold en_index_prefixes_filter. destruct (fo_prefixes o); [discriminate|].
    destruct (true && _); [discriminate|]. cbn [en_compile_ascii_set]. intros H. injection H as <-. exact I.
  - destruct (fo_sets o) as [|set rest]; [discriminate|].
    assert (Hs : en_set_filter set (fo_min o) = Some f -> match f with FPrefix P _ _ => P <> [] | _ => True end).
    { unfold en_set_filter. destruct (en_new_scanner set); [|discriminate]. intros H. injection H as <-. exact I. }
    destruct (fs_range set); [exact Hs|]. destruct (_ || _); [discriminate|exact Hs].
  - unfold en_char_filter. destruct (_ <? _); [discriminate|]. intros H. injection H as <-. exact I.
  - unfold en_string_filter. destruct (fo_lit_s o); [discriminate|]. destruct (_ || _); [discriminate|].
    intros H. injection H as <-. exact I.
  - unfold en_lit_loop_filter. destruct (fo_lal o) as [l|]; [|discriminate].
    destruct (negb _); [discriminate|]. destruct (_ && _); [discriminate|]. intros H. injection H as <-. exact I.
Qed.

(* For every program data: when newStringPrefixFilter builds a filter, every candidate that filter
   answers from the byte offset of rune k0 is the byte offset of a rune k' >= k0. *)
Theorem enf_constructor_candidates_on_boundaries c f :
  en_new_filter c = Ok (Some f) ->
  forall (b : list Z) (k0 : nat) (cand : Z), (k0 <= length (decode b))%nat ->
    en_run_filter f b (Z.of_nat (boundary b k0)) = Ok (cand, true) ->
    exists k', (k0 <= k' <= length (decode b))%nat /\ cand = Z.of_nat (boundary b k').
Proof.
  intros Hc. destruct (enp_new_filter_inv c f Hc) as (o & Ho & Hr & Hs & Hg & Hsel).
  destruct (enp_select_ok o f (enp_guard_of o Hg) Hsel) as [Hok _].
  exact (enf_candidate_on_boundary f (conj Hok (enfb_select_strict o f Hsel))).
Qed.
