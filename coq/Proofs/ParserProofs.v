(* Proofs about Model/Parser.v, part 5: the parser model is total.
   For every pattern (any list of non-negative runes, any length), every option word, either value of
   MaintainCaptureOrder and EVERY oracle (word characters, ToLower, SimpleFold, case participation, category
   membership, category names) the model answers Ok: an error code, a tree with its capture table, or
   "outside the fragment" - never Crash (a Go run-time fault: index out of range on the pattern or on a
   Children / Str slice, pop of an empty option or group stack, nil CharSet, a capture-table slot out of range)
   and never Fuel.  The fuel is explicit in the model: length + 1 turns for the capture pre-scan, for the
   main loop and for each bracket expression (Model/Parser.v count_captures, scan_regex, prescan_step,
   scan_round). *)
From Verif Require Import Base.Prelude Gen.ParseLitGen Model.Escape Model.ParseLit Model.GroupMap Model.CharClass
  Model.Parser Proofs.ParseLitProofs Proofs.ParserScan Proofs.ParserTree Proofs.ParserMain Proofs.ParserPre.

Section Total.
Variable is_word_char : Z -> bool.
Variable to_lower : Z -> Z.
Variable simple_fold : Z -> Z.
Variable participates : Z -> bool.
Variable cat_in : Z -> Z -> bool.
Variable cat_name : list Z -> Z.

Local Notation parse := (parse is_word_char to_lower simple_fold participates cat_in cat_name).

Theorem parser_total o mco p :
  forallb (fun c => 0 <=? c) p = true ->
  exists r, parse o mco p = Ok r.
Proof.
  intros Hp. unfold Parser.parse. rewrite pl_bounds_ok_true, Hp. cbn [negb].
  pose proof (count_captures_ok is_word_char to_lower simple_fold participates cat_in cat_name (mco || useE o || useRE2 o) o p) as C.
  destruct (count_captures is_word_char to_lower simple_fold cat_in cat_name (mco || useE o || useRE2 o) o p) as [tb|e q| | |];
    cbn [pbind psafe] in *; try contradiction; eauto.
  pose proof (scan_regex_ok is_word_char to_lower simple_fold participates cat_in cat_name (captab_main tb) (mco || useE o || useRE2 o) o p) as S.
  destruct (scan_regex is_word_char to_lower simple_fold participates cat_in cat_name (captab_main tb) (mco || useE o || useRE2 o) o p) as [t|e q| | |];
    cbn [pbind psafe] in *; try contradiction; eauto.
Qed.

(* the two loops with the fuel as a parameter: any fuel above the length of the pattern is enough, and
   each turn strictly shortens what is left (the scan position only moves right) *)
Theorem parser_prescan_fuel mco fuel st p :
  cinv mco (cs_c st) -> (length p < fuel)%nat ->
  match prescan_loop is_word_char to_lower simple_fold cat_in cat_name fuel mco st p with
  | POk st' => cinv mco (cs_c st')
  | PE _ _ | PO => True
  | PC _ | PF => False
  end.
Proof. intros H1 H2. eapply prescan_loop_ok; eauto. Qed.

Theorem parser_main_fuel tb mco fuel st p wasq :
  minv st -> ms_unit st = None -> (length p < fuel)%nat ->
  match scan_loop_full is_word_char to_lower simple_fold participates cat_in cat_name fuel tb mco st p wasq with
  | POk st' => minv st'
  | PE _ _ | PO => True
  | PC _ | PF => False
  end.
Proof. intros H1 H2 H3. eapply scan_loop_full_ok; eauto. Qed.

Theorem parser_round_moves_right tb mco st p wasq :
  minv st -> ms_unit st = None -> p <> [] ->
  match scan_round is_word_char to_lower simple_fold participates cat_in cat_name tb mco st p wasq with
  | POk (st', Some (q, _)) => minv st' /\ ms_unit st' = None /\ (length q < length p)%nat
  | POk (st', None) => minv st'
  | PE _ _ | PO => True
  | PC _ | PF => False
  end.
Proof.
  intros Iv Hu Hp. pose proof (scan_round_ok is_word_char to_lower simple_fold participates cat_in cat_name tb mco st p wasq Iv Hu Hp) as R.
  destruct (scan_round is_word_char to_lower simple_fold participates cat_in cat_name tb mco st p wasq) as [[st' [[q wq]|]]|e q| | |];
    cbn [round_res] in R; auto.
  destruct R as [R1 [R2 R3]]. split; [exact R1 | split; [exact R2|]]. destruct p; [congruence | cbn [length] in *; lia].
Qed.

Theorem parser_prescan_step_moves_right mco st ch p1 :
  cinv mco (cs_c st) ->
  match prescan_step is_word_char to_lower simple_fold cat_in cat_name mco st ch p1 with
  | POk (st', q) => cinv mco (cs_c st') /\ (length q < length (ch :: p1))%nat
  | PE _ _ | PO => True
  | PC _ | PF => False
  end.
Proof.
  intros Hc. pose proof (prescan_step_ok is_word_char to_lower simple_fold participates cat_in cat_name mco st ch p1 Hc) as S.
  destruct (prescan_step is_word_char to_lower simple_fold cat_in cat_name mco st ch p1) as [[st' q]|e q| | |]; cbn [step_res] in S; auto.
  destruct S as [S1 S2]. split; [exact S1 | cbn [length]; lia].
Qed.

End Total.
