(* Proofs about Model/Parser.v, part 5: the parser model is total.
   For every pattern (any list of non-negative runes, any length), every option word, either value of
   MaintainCaptureOrder and EVERY oracle (word characters, ToLower, SimpleFold, case participation, category
   membership, category names) the model answers Ok: an error code, a tree with its capture table, or
   "outside the fragment" - never Crash (a Go run-time fault: index out of range on the pattern or on a
   Children / Str slice, pop of an empty option or group stack, nil CharSet, a capture-table slot out of range)
   and never Fuel.  The fuel is explicit in the model: length + 1 turns for the capture pre-scan, for the
   main loop and for each bracket expression (Model/Parser.v count_captures, scan_regex, prescan_step,
   scan_round). *)
From Verif Require Import Base.Prelude Gen.ParseLitGen Model.Escape Model.ParseLit Model.GroupMap Model.CharClass
  Model.Parser Proofs.ParseLitProofs Proofs.ParserScan Proofs.ParserTree Proofs.ParserMain Proofs.ParserPre.

(* ---------------------------------------------------------------- direction bits *)
Lemma land_lor_disjoint o b k : Z.land b k = 0 -> Z.land (Z.lor o b) k = Z.land o k.
Proof. intros H. rewrite Z.land_lor_distr_l, H. apply Z.lor_0_r. Qed.

Lemma land_ldiff_disjoint o b k : Z.land b k = 0 -> Z.land (Z.ldiff o b) k = Z.land o k.
Proof.
  intros H. apply Z.bits_inj'. intros n Hn. rewrite !Z.land_spec, Z.ldiff_spec.
  assert (T : Z.testbit b n && Z.testbit k n = false) by (rewrite <- Z.land_spec, H; apply Z.bits_0).
  destruct (Z.testbit o n), (Z.testbit b n), (Z.testbit k n); cbn in *; congruence.
Qed.

(* the option letters scanOptions accepts never touch RightToLeft, ECMAScript or RE2 *)
Lemma inline_bit_disjoint ch k :
  (k = opt_r \/ k = opt_e \/ k = opt_re2) ->
  (option_from_code ch =? 0) || is_only_top_option (option_from_code ch) = false ->
  Z.land (option_from_code ch) k = 0.
Proof.
  intros Hk. unfold option_from_code, is_only_top_option, opt_i, opt_r, opt_m, opt_n, opt_s, opt_x, opt_e, opt_u, opt_re2 in *.
  repeat match goal with |- context [if ?b then _ else _] => destruct b end; cbn; intros H; try discriminate;
    destruct Hk as [-> | [-> | ->]]; reflexivity.
Qed.

Lemma scan_options_keeps o cs k :
  Forall (fun c => match c with OBit b => Z.land b k = 0 | _ => True end) cs ->
  forall off, Z.land (scan_options off cs o) k = Z.land o k.
Proof.
  intros H. revert o. induction H as [|c cs Hc Hcs IH]; intros o off; cbn [scan_options]; [reflexivity|].
  destruct c as [| |b]; try apply IH.
  rewrite IH. destruct off; [apply land_ldiff_disjoint | apply land_lor_disjoint]; exact Hc.
Qed.

Lemma ochars_of_disjoint k : (k = opt_r \/ k = opt_e \/ k = opt_re2) -> forall p,
  Forall (fun c => match c with OBit b => Z.land b k = 0 | _ => True end) (fst (ochars_of p)).
Proof.
  intros Hk. induction p as [|ch p IH]; cbn [ochars_of fst]; [constructor|].
  destruct (ch =? 45); [destruct (ochars_of p); cbn [fst] in *; constructor; [exact I | exact IH]|].
  destruct (ch =? 43); [destruct (ochars_of p); cbn [fst] in *; constructor; [exact I | exact IH]|].
  destruct ((option_from_code ch =? 0) || is_only_top_option (option_from_code ch)) eqn:E; [constructor|].
  destruct (ochars_of p); cbn [fst] in *. constructor; [apply inline_bit_disjoint; assumption | exact IH].
Qed.

Theorem inline_options_keep_top_bits o p o' q :
  scan_options_text o p = (o', q) ->
  useRTL o' = useRTL o /\ useE o' = useE o /\ useRE2 o' = useRE2 o.
Proof.
  unfold scan_options_text. pose proof (fun k Hk => ochars_of_disjoint k Hk p) as D.
  destruct (ochars_of p) as [cs r]. cbn [fst] in D. intros H. inversion H; subst.
  unfold useRTL, useE, useRE2, pl_bit, ParseLitGen.PL_RightToLeft, ParseLitGen.PL_ECMAScript, ParseLitGen.PL_RE2.
  rewrite (scan_options_keeps o cs 64 (D opt_r ltac:(auto)) false).
  rewrite (scan_options_keeps o cs 256 (D opt_e ltac:(auto)) false).
  rewrite (scan_options_keeps o cs 512 (D opt_re2 ltac:(auto)) false). auto.
Qed.

Lemma useRTL_set o : useRTL (set_rtl o) = true.
Proof.
  unfold useRTL, pl_bit, set_rtl. rewrite Z.land_lor_distr_l.
  destruct (Z.lor (Z.land o ParseLitGen.PL_RightToLeft) (Z.land ParseLitGen.PL_RightToLeft ParseLitGen.PL_RightToLeft) =? 0) eqn:E; [|reflexivity].
  apply Z.eqb_eq in E. apply Z.lor_eq_0_iff in E. destruct E as [_ E]. vm_compute in E. discriminate.
Qed.

Lemma useRTL_clear o : useRTL (clear_rtl o) = false.
Proof.
  unfold useRTL, pl_bit, clear_rtl.
  assert (H : Z.land (Z.ldiff o ParseLitGen.PL_RightToLeft) ParseLitGen.PL_RightToLeft = 0).
  { apply Z.bits_inj'. intros n Hn. rewrite Z.land_spec, Z.ldiff_spec, Z.bits_0.
    destruct (Z.testbit o n), (Z.testbit ParseLitGen.PL_RightToLeft n); reflexivity. }
  rewrite H. reflexivity.
Qed.

Section Total.
Variable is_word_char : Z -> bool.
Variable to_lower : Z -> Z.
Variable simple_fold : Z -> Z.
Variable participates : Z -> bool.
Variable cat_in : Z -> Z -> bool.
Variable cat_name : list Z -> Z.

Local Notation parse := (parse is_word_char to_lower simple_fold participates cat_in cat_name).

Theorem parser_total o mco p :
  forallb (fun c => 0 <=? c) p = true ->
  exists r, parse o mco p = Ok r.
Proof.
  intros Hp. unfold Parser.parse. rewrite pl_bounds_ok_true, Hp. cbn [negb].
  pose proof (count_captures_ok is_word_char to_lower simple_fold participates cat_in cat_name (mco || useE o || useRE2 o) o p) as C.
  destruct (count_captures is_word_char to_lower simple_fold cat_in cat_name (mco || useE o || useRE2 o) o p) as [tb|e q| | |];
    cbn [pbind psafe] in *; try contradiction; eauto.
  pose proof (scan_regex_ok is_word_char to_lower simple_fold participates cat_in cat_name (captab_main tb) (mco || useE o || useRE2 o) o p) as S.
  destruct (scan_regex is_word_char to_lower simple_fold participates cat_in cat_name (captab_main tb) (mco || useE o || useRE2 o) o p) as [t|e q| | |];
    cbn [pbind psafe] in *; try contradiction; eauto.
Qed.

(* the two loops with the fuel as a parameter: any fuel above the length of the pattern is enough, and
   each turn strictly shortens what is left (the scan position only moves right) *)
Theorem parser_prescan_fuel mco fuel st p :
  cinv mco (cs_c st) -> (length p < fuel)%nat ->
  match prescan_loop is_word_char to_lower simple_fold cat_in cat_name fuel mco st p with
  | POk st' => cinv mco (cs_c st')
  | PE _ _ | PO => True
  | PC _ | PF => False
  end.
Proof. intros H1 H2. eapply prescan_loop_ok; eauto. Qed.

Theorem parser_main_fuel tb mco fuel st p wasq :
  minv st -> ms_unit st = None -> (length p < fuel)%nat ->
  match scan_loop_full is_word_char to_lower simple_fold participates cat_in cat_name fuel tb mco st p wasq with
  | POk st' => minv st'
  | PE _ _ | PO => True
  | PC _ | PF => False
  end.
Proof. intros H1 H2 H3. eapply scan_loop_full_ok; eauto. Qed.

Theorem parser_round_moves_right tb mco st p wasq :
  minv st -> ms_unit st = None -> p <> [] ->
  match scan_round is_word_char to_lower simple_fold participates cat_in cat_name tb mco st p wasq with
  | POk (st', Some (q, _)) => minv st' /\ ms_unit st' = None /\ (length q < length p)%nat
  | POk (st', None) => minv st'
  | PE _ _ | PO => True
  | PC _ | PF => False
  end.
Proof.
  intros Iv Hu Hp. pose proof (scan_round_ok is_word_char to_lower simple_fold participates cat_in cat_name tb mco st p wasq Iv Hu Hp) as R.
  destruct (scan_round is_word_char to_lower simple_fold participates cat_in cat_name tb mco st p wasq) as [[st' [[q wq]|]]|e q| | |];
    cbn [round_res] in R; auto.
  destruct R as [R1 [R2 R3]]. split; [exact R1 | split; [exact R2|]]. destruct p; [congruence | cbn [length] in *; lia].
Qed.

Theorem parser_prescan_step_moves_right mco st ch p1 :
  cinv mco (cs_c st) ->
  match prescan_step is_word_char to_lower simple_fold cat_in cat_name mco st ch p1 with
  | POk (st', q) => cinv mco (cs_c st') /\ (length q < length (ch :: p1))%nat
  | PE _ _ | PO => True
  | PC _ | PF => False
  end.
Proof.
  intros Hc. pose proof (prescan_step_ok is_word_char to_lower simple_fold participates cat_in cat_name mco st ch p1 Hc) as S.
  destruct (prescan_step is_word_char to_lower simple_fold cat_in cat_name mco st ch p1) as [[st' q]|e q| | |]; cbn [step_res] in S; auto.
  destruct S as [S1 S2]. split; [exact S1 | cbn [length]; lia].
Qed.

(* scanGroupOpen on "(?<=" / "(?<!" : a lookaround node with the RightToLeft bit, and the parser's current options
   (under which the group's alternation, concatenation and every node of the body are created) carry it too;
   "(?=" / "(?!" clear it *)
Theorem lookbehind_opens_right_to_left tb mco gt v c p : c = 61 \/ c = 33 ->
  group_open is_word_char tb mco gt v (63 :: 60 :: c :: p) =
    POk (Some (mk_node (if c =? 61 then T_PosLook else T_NegLook) (set_rtl (gv_o v))),
         mkGV (set_rtl (gv_o v)) false (gv_autocap v), p)
  /\ useRTL (set_rtl (gv_o v)) = true.
Proof. intros [-> | ->]; (split; [reflexivity | apply useRTL_set]). Qed.

Theorem lookahead_opens_left_to_right tb mco gt v c p : c = 61 \/ c = 33 ->
  group_open is_word_char tb mco gt v (63 :: c :: p) =
    POk (Some (mk_node (if c =? 61 then T_PosLook else T_NegLook) (clear_rtl (gv_o v))),
         mkGV (clear_rtl (gv_o v)) false (gv_autocap v), p)
  /\ useRTL (clear_rtl (gv_o v)) = false.
Proof. intros [-> | ->]; (split; [reflexivity | apply useRTL_clear]). Qed.

End Total.
