(* Every program the writer emits is accepted by the static frame-shape verifier of Proofs/CompileCfSafe.v.

   Part 1 (this section): a typing judgment on code lists, [wtc G a code S] -- the code placed at address a decodes
   into instructions starting at the addresses S, each consistent with the shape function G -- and its link to the
   verifier: a program with  wtc G 0 (codes p) S,  G defined only on S,  the entry/exit conventions and the depth
   bound satisfies  tyck p (sh_of G) = true.
   Part 2: the shape function of emitted code, by recursion on the tree ([shf]), and  wtc  for [emit] by induction. *)
From Verif Require Import Base.Prelude Model.Tree Model.Spec Model.VM Model.Writer Gen.RunnerGen Gen.CodeGen
  Proofs.MaskProofs Proofs.VMLimitProofs Proofs.VMCapacityProofs Proofs.VMU Proofs.CompileDefs
  Proofs.CompileTotal Proofs.CompileLimit Proofs.CompileCfSafe.
From Coq Require Import Relations ZifyBool.

Section WT.
Variable G : Z -> option shape.

(* CompileCfSafe.instr_ok with the shape function G *)
Definition iokb (a w arg : Z) : bool :=
  match G a with
  | None => true
  | Some tp =>
      let op := Z.land w 63 in
      let nx := G (a + opcode_size w) in
      let tg := G arg in
      if in_list op plain_ops then is_shape nx tp
      else if op =? Stop then true
      else if op =? Nothing then true
      else if op =? Goto then is_shape tg tp
      else if op =? Lazybranch then is_shape nx tp && is_shape tg tp
      else if (op =? Setmark) || (op =? Nullmark) then is_shape nx (KM :: tp)
      else if (op =? Getmark) || (op =? Capturemark) then match tp with KM :: t' => is_shape nx t' | _ => false end
      else if (op =? Branchmark) || (op =? Lazybranchmark) then
        match tp with KM :: t' => is_shape nx t' && is_shape tg tp | _ => false end
      else if (op =? Setcount) || (op =? Nullcount) then is_shape nx (KC :: tp)
      else if (op =? Branchcount) || (op =? Lazybranchcount) then
        match tp with KC :: t' => is_shape nx t' && is_shape tg tp | _ => false end
      else if op =? Setjump then is_shape nx (KJ :: tp)
      else if op =? Forejump then match tp with KJ :: t' => is_shape nx t' | _ => false end
      else if op =? Backjump then match tp with KJ :: _ => true | _ => false end
      else false
  end.

Inductive wtc : Z -> list Z -> list Z -> Prop :=
| wtc_nil a : wtc a [] []
| wtc_ins a op args rest S :
    opcode_size op = 1 + zlen args -> iokb a op (hd (-1) args) = true ->
    wtc (a + opcode_size op) rest S -> wtc a (op :: args ++ rest) (a :: S).

Lemma wtc_len a code S : wtc a code S -> forall b, In b S -> a <= b < a + zlen code.
Proof.
  induction 1 as [a|a op args rest S Hsz Hok Hr IH]; intros b Hin; [contradiction|].
  pose proof (zlen_nonneg args). pose proof (zlen_nonneg rest).
  rewrite zlen_cons, zlen_app. destruct Hin as [<-|Hin]; [lia|]. specialize (IH b Hin). lia.
Qed.

Lemma wtc_app a c1 S1 : wtc a c1 S1 -> forall c2 S2, wtc (a + zlen c1) c2 S2 -> wtc a (c1 ++ c2) (S1 ++ S2).
Proof.
  induction 1 as [a|a op args rest S Hsz Hok Hr IH]; intros c2 S2 H2; cbn [app].
  - rewrite zlen_nil, Z.add_0_r in H2. exact H2.
  - rewrite <- app_assoc. apply wtc_ins; [exact Hsz|exact Hok|]. apply IH.
    rewrite zlen_cons, zlen_app in H2. replace (a + opcode_size op + zlen rest) with (a + (1 + (zlen args + zlen rest))) by lia.
    exact H2.
Qed.

(* the operand is only read by jump opcodes, which have operands *)
Lemma iokb_arg_irrel a w x y : opcode_size w = 1 -> iokb a w x = iokb a w y.
Proof.
  intros Hsz. unfold iokb. destruct (G a) as [tp|]; [|reflexivity]. cbv zeta.
  unfold opcode_size in Hsz. set (op := Z.land w 63) in *.
  assert (N : forall k, zassoc k opcode_size_tbl 0 <> 1 -> (op =? k) = false).
  { intros k Hk. destruct (op =? k) eqn:E; [|reflexivity]. apply Z.eqb_eq in E. rewrite E in Hsz. contradiction. }
  rewrite (N Goto), (N Lazybranch), (N Branchmark), (N Lazybranchmark), (N Branchcount), (N Lazybranchcount)
    by (vm_compute; congruence).
  cbn [orb]. reflexivity.
Qed.

End WT.

(* ---------- instruction-level facts ---------- *)
Section IOK.
Variable G : Z -> option shape.

Lemma is_shape_refl t : is_shape (Some t) t = true.
Proof. cbn [is_shape]. induction t as [|k t IH]; cbn [shape_eqb]; [reflexivity|]. rewrite IH. destruct k; reflexivity. Qed.

Ltac iok_start Ha :=
  unfold iokb; rewrite Ha; cbv zeta.

Lemma iok_plain a w arg tp : in_list (Z.land w 63) plain_ops = true ->
  G a = Some tp -> G (a + opcode_size w) = Some tp -> iokb G a w arg = true.
Proof. intros Hp Ha Hn. iok_start Ha. rewrite Hp, Hn. apply is_shape_refl. Qed.

Lemma iok_const a w arg tp op : Z.land w 63 = op -> G a = Some tp ->
  (let nx := G (a + opcode_size w) in let tg := G arg in
   if in_list op plain_ops then is_shape nx tp
   else if op =? Stop then true
   else if op =? Nothing then true
   else if op =? Goto then is_shape tg tp
   else if op =? Lazybranch then is_shape nx tp && is_shape tg tp
   else if (op =? Setmark) || (op =? Nullmark) then is_shape nx (KM :: tp)
   else if (op =? Getmark) || (op =? Capturemark) then match tp with KM :: t' => is_shape nx t' | _ => false end
   else if (op =? Branchmark) || (op =? Lazybranchmark) then
     match tp with KM :: t' => is_shape nx t' && is_shape tg tp | _ => false end
   else if (op =? Setcount) || (op =? Nullcount) then is_shape nx (KC :: tp)
   else if (op =? Branchcount) || (op =? Lazybranchcount) then
     match tp with KC :: t' => is_shape nx t' && is_shape tg tp | _ => false end
   else if op =? Setjump then is_shape nx (KJ :: tp)
   else if op =? Forejump then match tp with KJ :: t' => is_shape nx t' | _ => false end
   else if op =? Backjump then match tp with KJ :: _ => true | _ => false end
   else false) = true ->
  iokb G a w arg = true.
Proof. intros Hop Ha H. iok_start Ha. rewrite Hop. exact H. Qed.

End IOK.

(* ---------- the shape function of emitted code ---------- *)
Lemma csize_nonneg c t : 0 <= csize c t.
Proof. rewrite <- (emit_length c t 0 []). apply zlen_nonneg. Qed.

Definition at_pc (pc a : Z) (t : shape) : option shape := if pc =? a then Some t else None.

Fixpoint shf (c : wcfg) (t : node) (a : Z) (tau : shape) (pc : Z) : option shape :=
  match t with
  | NChar _ _ _ | NMulti _ _ | NRef _ _ | NAnchor _ | NNothing | NBump => at_pc pc a tau
  | NEmpty => None
  | NCharLoop _ _ _ _ m n =>
      if (pc =? a) && ((0 <? m) || (m <? n)) then Some tau
      else if (pc =? a + 3) && (0 <? m) && (m <? n) then Some tau else None
  | NConcat _ l =>
      (fix go (l : list node) (a : Z) : option shape :=
         match l with
         | [] => None
         | x :: l' => if pc <? a + csize c x then shf c x a tau pc else go l' (a + csize c x)
         end) l a
  | NAlternate _ l =>
      (fix go (l : list node) (a : Z) : option shape :=
         match l with
         | [] => None
         | [x] => shf c x a tau pc
         | x :: l' =>
             if pc =? a then Some tau
             else if pc <? a + 2 + csize c x then shf c x (a + 2) tau pc
             else if pc =? a + 2 + csize c x then Some tau
             else go l' (a + 2 + csize c x + 2)
         end) l a
  | NLoop _ _ m n r =>
      let cnt := counted m n in
      let k := if cnt then KC else KM in
      let pre := if cnt then 2 else 1 in
      let lbody := a + pre + (if m =? 0 then 2 else 0) in
      let ltest := lbody + csize c r in
      if pc =? a then Some tau
      else if (m =? 0) && (pc =? a + pre) then Some (k :: tau)
      else if (lbody <=? pc) && (pc <? ltest) then shf c r lbody (k :: tau) pc
      else if pc =? ltest then Some (k :: tau) else None
  | NCapture _ g u r =>
      if emit_capture c g u then
        if pc =? a then Some tau
        else if pc <? a + 1 + csize c r then shf c r (a + 1) (KM :: tau) pc
        else if pc =? a + 1 + csize c r then Some (KM :: tau) else None
      else shf c r a tau pc
  | NGroup r => shf c r a tau pc
  | NPosLook _ r =>
      if pc =? a then Some tau
      else if pc =? a + 1 then Some (KJ :: tau)
      else if pc <? a + 2 + csize c r then shf c r (a + 2) (KM :: KJ :: tau) pc
      else if pc =? a + 2 + csize c r then Some (KM :: KJ :: tau)
      else if pc =? a + 2 + csize c r + 1 then Some (KJ :: tau) else None
  | NNegLook _ r =>
      if pc =? a then Some tau
      else if pc =? a + 1 then Some (KJ :: tau)
      else if pc <? a + 3 + csize c r then (if a + 3 <=? pc then shf c r (a + 3) (KJ :: tau) pc else None)
      else if pc =? a + 3 + csize c r then Some (KJ :: tau)
      else if pc =? a + 3 + csize c r + 1 then Some (KJ :: tau) else None
  | NAtomic r =>
      if pc =? a then Some tau
      else if pc <? a + 1 + csize c r then shf c r (a + 1) (KJ :: tau) pc
      else if pc =? a + 1 + csize c r then Some (KJ :: tau) else None
  | NBackRefCond _ _ yes no =>
      let ly := a + 6 + csize c yes in
      if pc =? a then Some tau
      else if (pc =? a + 1) || (pc =? a + 3) || (pc =? a + 5) then Some (KJ :: tau)
      else if pc <? ly then (if a + 6 <=? pc then shf c yes (a + 6) tau pc else None)
      else if pc =? ly then Some tau
      else if pc =? ly + 2 then Some (KJ :: tau)
      else match no with Some x => shf c x (ly + 3) tau pc | None => None end
  | NExprCond _ cnd yes no =>
      let lc := a + 4 + csize c cnd in
      let ay := lc + 2 in
      let ly := ay + csize c yes in
      if pc =? a then Some tau
      else if pc =? a + 1 then Some (KJ :: tau)
      else if pc =? a + 2 then Some (KM :: KJ :: tau)
      else if pc <? lc then (if a + 4 <=? pc then shf c cnd (a + 4) (KM :: KJ :: tau) pc else None)
      else if pc =? lc then Some (KM :: KJ :: tau)
      else if pc =? lc + 1 then Some (KJ :: tau)
      else if pc <? ly then shf c yes ay tau pc
      else if pc =? ly then Some tau
      else if pc =? ly + 2 then Some (KM :: KJ :: tau)
      else if pc =? ly + 3 then Some (KJ :: tau)
      else match no with Some x => shf c x (ly + 4) tau pc | None => None end
  end.

Definition shf_seq (c : wcfg) (tau : shape) (pc : Z) : list node -> Z -> option shape :=
  fix go (l : list node) (a : Z) : option shape :=
    match l with
    | [] => None
    | x :: l' => if pc <? a + csize c x then shf c x a tau pc else go l' (a + csize c x)
    end.
Definition shf_alt (c : wcfg) (tau : shape) (pc : Z) : list node -> Z -> option shape :=
  fix go (l : list node) (a : Z) : option shape :=
    match l with
    | [] => None
    | [x] => shf c x a tau pc
    | x :: l' =>
        if pc =? a then Some tau
        else if pc <? a + 2 + csize c x then shf c x (a + 2) tau pc
        else if pc =? a + 2 + csize c x then Some tau
        else go l' (a + 2 + csize c x + 2)
    end.
Lemma shf_concat_eq c o l a tau pc : shf c (NConcat o l) a tau pc = shf_seq c tau pc l a.
Proof. reflexivity. Qed.
Lemma shf_alternate_eq c o l a tau pc : shf c (NAlternate o l) a tau pc = shf_alt c tau pc l a.
Proof. reflexivity. Qed.

Definition agree (G f : Z -> option shape) (lo hi : Z) : Prop := forall pc, lo <= pc < hi -> G pc = f pc.

Ltac ifs_in H := repeat match type of H with context [if ?b then _ else _] => destruct b eqn:? end.

Lemma csize_seq_nonneg c l : 0 <= csize_seq c l.
Proof. induction l as [|x l IH]; cbn [csize_seq]; [lia|]. pose proof (csize_nonneg c x). lia. Qed.
Lemma csize_alt_nonneg c l : 0 <= csize_alt c l.
Proof.
  induction l as [|x l IH]; [cbn; lia|]. destruct l as [|y l]; [cbn [csize_alt]; apply csize_nonneg|].
  rewrite wr_csize_alt_cons2. pose proof (csize_nonneg c x). lia.
Qed.

Lemma shf_range c : forall t a tau pc s, shf c t a tau pc = Some s -> a <= pc < a + csize c t.
Proof.
  induction t as [kd o ch|kd lk o ch m n|o str|o g|an| | | |o l HF|o l HF|lazy o m n r IHr|o g u r IHr
                 |r IHr|o r IHr|o r IHr|r IHr|o g yes no IHy IHn|o cnd yes no IHc IHy IHn]
    using node_ind'; intros a tau pc s H; cbn [shf csize] in H |- *; unfold at_pc in H;
    try (destruct (pc =? a) eqn:E; [lia|discriminate H]); try discriminate H.
  - destruct (0 <? m) eqn:E1, (m <? n) eqn:E2; cbn [orb] in H; rewrite ?andb_true_r, ?andb_false_r in H; cbn [andb] in H;
      ifs_in H; try discriminate H; lia.
  - change (shf_seq c tau pc l a = Some s) in H. change (a <= pc < a + csize_seq c l). revert a H.
    induction HF as [|x l Hx HF IH]; intros a H; cbn [shf_seq csize_seq] in *; [discriminate H|].
    pose proof (csize_nonneg c x). pose proof (csize_seq_nonneg c l).
    destruct (pc <? a + csize c x) eqn:E; [apply Hx in H; lia|apply IH in H; lia].
  - change (shf_alt c tau pc l a = Some s) in H. change (a <= pc < a + csize_alt c l). revert a H.
    induction HF as [|x l Hx HF IH]; intros a H; [discriminate H|].
    destruct l as [|y l]; [cbn [shf_alt csize_alt] in *; apply Hx in H; exact H|].
    rewrite wr_csize_alt_cons2. pose proof (csize_nonneg c x). pose proof (csize_alt_nonneg c (y :: l)).
    change (shf_alt c tau pc (x :: y :: l) a) with
      (if pc =? a then Some tau else if pc <? a + 2 + csize c x then shf c x (a + 2) tau pc
       else if pc =? a + 2 + csize c x then Some tau else shf_alt c tau pc (y :: l) (a + 2 + csize c x + 2)) in H.
    ifs_in H; try (apply Hx in H); try (apply IH in H); lia.
  - cbv zeta in H. pose proof (csize_nonneg c r).
    destruct (counted m n), (m =? 0) eqn:Em; ifs_in H; try discriminate H; try (apply IHr in H); lia.
  - pose proof (csize_nonneg c r). destruct (emit_capture c g u); [|apply IHr in H; exact H].
    ifs_in H; try discriminate H; try (apply IHr in H); lia.
  - apply IHr in H. exact H.
  - pose proof (csize_nonneg c r). ifs_in H; try discriminate H; try (apply IHr in H); lia.
  - pose proof (csize_nonneg c r). ifs_in H; try discriminate H; try (apply IHr in H); lia.
  - pose proof (csize_nonneg c r). ifs_in H; try discriminate H; try (apply IHr in H); lia.
  - cbv zeta in H. pose proof (csize_nonneg c yes).
    destruct no as [x|]; cbn [opt_all] in IHn; [pose proof (csize_nonneg c x)|];
      ifs_in H; try discriminate H; try (apply IHy in H); try (apply IHn in H); lia.
  - cbv zeta in H. pose proof (csize_nonneg c yes). pose proof (csize_nonneg c cnd).
    destruct no as [x|]; cbn [opt_all] in IHn; [pose proof (csize_nonneg c x)|];
      ifs_in H; try discriminate H; try (apply IHc in H); try (apply IHy in H); try (apply IHn in H); lia.
Qed.

Lemma shf_entry c : forall t a tau, 0 < csize c t -> shf c t a tau a = Some tau.
Proof.
  induction t as [kd o ch|kd lk o ch m n|o str|o g|an| | | |o l HF|o l HF|lazy o m n r IHr|o g u r IHr
                 |r IHr|o r IHr|o r IHr|r IHr|o g yes no IHy IHn|o cnd yes no IHc IHy IHn]
    using node_ind'; intros a tau H; cbn [shf csize] in H |- *; unfold at_pc; rewrite ?Z.eqb_refl; try reflexivity; try lia.
  - destruct (0 <? m) eqn:E1, (m <? n) eqn:E2; cbn [orb andb]; try reflexivity; lia.
  - change (shf_seq c tau a l a = Some tau). change (0 < csize_seq c l) in H. revert a H.
    induction HF as [|x l Hx HF IH]; intros a H; cbn [shf_seq csize_seq] in *; [lia|].
    pose proof (csize_nonneg c x). destruct (a <? a + csize c x) eqn:E; [apply Hx; lia|].
    replace (a + csize c x) with a by lia. apply IH. lia.
  - change (shf_alt c tau a l a = Some tau). change (0 < csize_alt c l) in H. revert a H.
    induction HF as [|x l Hx HF IH]; intros a H; [cbn in H; lia|].
    destruct l as [|y l]; [cbn [shf_alt csize_alt] in *; apply Hx; exact H|].
    change (shf_alt c tau a (x :: y :: l) a) with
      (if a =? a then Some tau else if a <? a + 2 + csize c x then shf c x (a + 2) tau a
       else if a =? a + 2 + csize c x then Some tau else shf_alt c tau a (y :: l) (a + 2 + csize c x + 2)).
    rewrite Z.eqb_refl. reflexivity.
  - destruct (emit_capture c g u); [reflexivity|apply IHr; exact H].
  - apply IHr. exact H.
Qed.

Lemma entryG c t a tau G : agree G (shf c t a tau) a (a + csize c t) -> G (a + csize c t) = Some tau -> G a = Some tau.
Proof.
  intros Ha He. pose proof (csize_nonneg c t). destruct (Z.eq_dec (csize c t) 0) as [E|E].
  - rewrite E, Z.add_0_r in He. exact He.
  - rewrite (Ha a ltac:(lia)). apply shf_entry. lia.
Qed.

Lemma agree_sub G f g lo hi lo' hi' : agree G f lo hi -> lo <= lo' -> hi' <= hi ->
  (forall pc, lo' <= pc < hi' -> f pc = g pc) -> agree G g lo' hi'.
Proof. intros H H1 H2 Hfg pc Hpc. rewrite <- Hfg by exact Hpc. apply H. lia. Qed.

(* one instruction *)
Lemma wtc_one G a w args : opcode_size w = 1 + zlen args -> iokb G a w (hd (-1) args) = true -> wtc G a (w :: args) [a].
Proof.
  intros Hsz Hok. replace (w :: args) with (w :: args ++ []) by (rewrite app_nil_r; reflexivity).
  apply wtc_ins; [exact Hsz|exact Hok|apply wtc_nil].
Qed.

Ltac szside := unfold opcode_size; rewrite ?cp_land_bits by (cbv; split; congruence); vm_compute; reflexivity.

Definition typed_frag (c : wcfg) (t : node) : Prop :=
  forall a tbl tau G, agree G (shf c t a tau) a (a + csize c t) -> G (a + csize c t) = Some tau ->
    exists S, wtc G a (fst (emit c t a tbl)) S /\ forall pc s, shf c t a tau pc = Some s -> In pc S.

Lemma tf_plain1 c t w k : (forall a tbl, exists args, fst (emit c t a tbl) = w :: args /\ zlen args = k) -> csize c t = 1 + k ->
  opcode_size w = 1 + k -> in_list (Z.land w 63) plain_ops = true ->
  (forall a tau pc, shf c t a tau pc = at_pc pc a tau) -> typed_frag c t.
Proof.
  intros He Hcs Hsz Hp Hsh a tbl tau G Ha Hx. destruct (He a tbl) as (args & -> & Hk). exists [a]. split.
  - apply wtc_one; [lia|]. apply (iok_plain G a w _ tau Hp).
    + pose proof (zlen_nonneg args). rewrite (Ha a ltac:(lia)), Hsh. unfold at_pc. rewrite Z.eqb_refl. reflexivity.
    + rewrite Hsz, <- Hcs. exact Hx.
  - intros pc s H. rewrite Hsh in H. unfold at_pc in H. destruct (pc =? a) eqn:E; [left; lia|discriminate H].
Qed.

(* resolving the range tests of [shf] at a concrete position *)
Ltac shev :=
  repeat match goal with
         | |- context [if ?b then _ else _] =>
             first [replace b with true by lia | replace b with false by lia]
         end.
Ltac shev_in H :=
  repeat match type of H with
         | context [if ?b then _ else _] =>
             first [replace b with true in H by lia | replace b with false in H by lia]
         end.
(* G at position x, from agreement with the shape function of the enclosing node *)
Ltac gat Ha x := rewrite (Ha x ltac:(lia)); cbn [shf]; cbv zeta; unfold at_pc; shev; try reflexivity.

Lemma typed_seq c l : Forall (typed_frag c) l -> forall a tbl tau G,
  agree G (fun pc => shf_seq c tau pc l a) a (a + csize_seq c l) -> G (a + csize_seq c l) = Some tau ->
  exists S, wtc G a (fst (emit_seq c l a tbl)) S /\ forall pc s, shf_seq c tau pc l a = Some s -> In pc S.
Proof.
  induction 1 as [|x l Hx HF IH]; intros a tbl tau G Ha Hend.
  - exists []. split; [apply wtc_nil|]. intros pc s H. discriminate H.
  - cbn [emit_seq csize_seq] in *. pose proof (csize_nonneg c x) as Hx0. pose proof (csize_seq_nonneg c l) as Hl0.
    pose proof (emit_length c x a tbl) as Lx.
    assert (Har : agree G (fun pc => shf_seq c tau pc l (a + csize c x)) (a + csize c x) (a + csize c x + csize_seq c l)).
    { intros pc Hpc. rewrite (Ha pc ltac:(lia)). cbn [shf_seq]. shev. reflexivity. }
    assert (Hend' : G (a + csize c x + csize_seq c l) = Some tau) by (rewrite <- Z.add_assoc; exact Hend).
    assert (Hmid : G (a + csize c x) = Some tau).
    { apply (entryG c (NConcat 0 l) (a + csize c x) tau G); [exact Har|exact Hend']. }
    assert (Hax : agree G (shf c x a tau) a (a + csize c x)).
    { intros pc Hpc. rewrite (Ha pc ltac:(lia)). cbn [shf_seq]. shev. reflexivity. }
    destruct (Hx a tbl tau G Hax Hmid) as (Sx & Wx & Dx).
    destruct (emit c x a tbl) as [cx t1]. cbn [fst] in *. rewrite Lx.
    destruct (IH (a + csize c x) t1 tau G Har Hend') as (Sr & Wr & Dr).
    destruct (emit_seq c l (a + csize c x) t1) as [cr t2]. cbn [fst] in *.
    exists (Sx ++ Sr). split.
    + apply (wtc_app G a cx Sx Wx). rewrite Lx. exact Wr.
    + intros pc s H. apply in_or_app. cbn [shf_seq] in H. destruct (pc <? a + csize c x) eqn:E; [left; eapply Dx|right; eapply Dr]; exact H.
Qed.

Lemma typed_alt c lend l : Forall (typed_frag c) l -> forall a tbl tau G, lend = a + csize_alt c l ->
  agree G (fun pc => shf_alt c tau pc l a) a lend -> G lend = Some tau ->
  exists S, wtc G a (fst (emit_alt c lend l a tbl)) S /\ forall pc s, shf_alt c tau pc l a = Some s -> In pc S.
Proof.
  induction 1 as [|x l Hx HF IH]; intros a tbl tau G Hl Ha Hend.
  - exists []. split; [apply wtc_nil|]. intros pc s H. discriminate H.
  - destruct l as [|y l].
    + cbn [emit_alt csize_alt shf_alt] in *. subst lend. apply Hx; assumption.
    + rewrite wr_csize_alt_cons2 in Hl. rewrite wr_emit_alt_cons2.
      pose proof (csize_nonneg c x) as Hx0. pose proof (csize_alt_nonneg c (y :: l)) as Hl0.
      pose proof (emit_length c x (a + 2) tbl) as Lx.
      set (nxt := a + 2 + csize c x + 2) in *.
      assert (Hsh : forall pc, shf_alt c tau pc (x :: y :: l) a =
                (if pc =? a then Some tau else if pc <? a + 2 + csize c x then shf c x (a + 2) tau pc
                 else if pc =? a + 2 + csize c x then Some tau else shf_alt c tau pc (y :: l) nxt)) by reflexivity.
      assert (Har : agree G (fun pc => shf_alt c tau pc (y :: l) nxt) nxt lend).
      { intros pc Hpc. rewrite (Ha pc ltac:(unfold nxt in *; lia)), Hsh. unfold nxt in *. shev. reflexivity. }
      assert (Hnxt : G nxt = Some tau).
      { apply (entryG c (NAlternate 0 (y :: l)) nxt tau G).
        - rewrite wr_csize_alternate_eq. replace (nxt + csize_alt c (y :: l)) with lend by (unfold nxt; lia). exact Har.
        - rewrite wr_csize_alternate_eq. replace (nxt + csize_alt c (y :: l)) with lend by (unfold nxt; lia). exact Hend. }
      assert (Ha0 : G a = Some tau) by (rewrite (Ha a ltac:(unfold nxt in *; lia)), Hsh; rewrite Z.eqb_refl; reflexivity).
      assert (Hg : G (a + 2 + csize c x) = Some tau).
      { rewrite (Ha (a + 2 + csize c x) ltac:(unfold nxt in *; lia)), Hsh. shev. reflexivity. }
      assert (Hax : agree G (shf c x (a + 2) tau) (a + 2) (a + 2 + csize c x)).
      { intros pc Hpc. rewrite (Ha pc ltac:(unfold nxt in *; lia)), Hsh. shev. reflexivity. }
      destruct (Hx (a + 2) tbl tau G Hax Hg) as (Sx & Wx & Dx).
      destruct (emit c x (a + 2) tbl) as [cx t1]. cbn [fst] in *. cbv zeta. rewrite Lx. fold nxt.
      destruct (IH nxt t1 tau G ltac:(unfold nxt; lia) Har Hend) as (Sr & Wr & Dr).
      destruct (emit_alt c lend (y :: l) nxt t1) as [cr t2]. cbn [fst] in *.
      exists ([a] ++ Sx ++ [a + 2 + csize c x] ++ Sr). split.
      * apply (wtc_app G a [Lazybranch; nxt] [a]).
        -- apply wtc_one; [reflexivity|]. apply (iok_const G a Lazybranch _ tau Lazybranch eq_refl Ha0). cbn.
           change (opcode_size Lazybranch) with 2. rewrite (entryG c x (a + 2) tau G Hax Hg), Hnxt. rewrite !is_shape_refl. reflexivity.
        -- change (zlen [Lazybranch; nxt]) with 2. apply (wtc_app G (a + 2) cx Sx Wx). rewrite Lx.
           apply (wtc_app G (a + 2 + csize c x) [Goto; lend] [a + 2 + csize c x]).
           ++ apply wtc_one; [reflexivity|]. apply (iok_const G _ Goto _ tau Goto eq_refl Hg). cbn. rewrite Hend. apply is_shape_refl.
           ++ change (zlen [Goto; lend]) with 2. fold nxt. exact Wr.
      * intros pc s H. rewrite Hsh in H. cbn [app].
        destruct (pc =? a) eqn:E1; [left; lia|]. right. apply in_or_app.
        destruct (pc <? a + 2 + csize c x) eqn:E2; [left; eapply Dx; exact H|]. right.
        destruct (pc =? a + 2 + csize c x) eqn:E3; [left; lia|]. right. eapply Dr. exact H.
Qed.

Theorem emit_typed c : forall t, typed_frag c t.
Proof.
  induction t as [kd o ch|kd lk o ch m n|o str|o g|an| | | |o l HF|o l HF|lazy o m n r IHr|o g u r IHr
                 |r IHr|o r IHr|o r IHr|r IHr|o g yes no IHy IHn|o cnd yes no IHc IHy IHn]
    using node_ind'.
  - (* NChar *)
    apply (tf_plain1 c _ (char_op kd + bits_of o) 1); try reflexivity.
    + intros a tbl. exists [ch]. split; reflexivity.
    + destruct kd; szside.
    + rewrite cp_land_bits by (destruct kd; cbv; split; congruence). destruct kd; reflexivity.
  - (* NCharLoop *)
    intros a tbl tau G Ha Hx. cbn [emit fst csize] in *.
    assert (Hr : opcode_size (rep_op kd + bits_of o) = 3 /\ in_list (Z.land (rep_op kd + bits_of o) 63) plain_ops = true).
    { split; [destruct kd; szside|]. rewrite cp_land_bits by (destruct kd; cbv; split; congruence). destruct kd; reflexivity. }
    assert (Hl : opcode_size (loop_op kd lk + bits_of o) = 3 /\ in_list (Z.land (loop_op kd lk + bits_of o) 63) plain_ops = true).
    { split; [destruct kd, lk; szside|]. rewrite cp_land_bits by (destruct kd, lk; cbv; split; congruence). destruct kd, lk; reflexivity. }
    destruct Hr as [Hr1 Hr2], Hl as [Hl1 Hl2].
    destruct (0 <? m) eqn:E1, (m <? n) eqn:E2; cbn [app].
    + exists [a; a + 3]. split.
      * apply (wtc_ins G a _ [ch; m] [loop_op kd lk + bits_of o; ch; if n =? INF then INF else n - m] [a + 3]); [exact Hr1| |].
        -- apply (iok_plain G a _ _ tau Hr2); [gat Ha a|rewrite Hr1; gat Ha (a + 3)].
        -- rewrite Hr1. apply wtc_one; [exact Hl1|]. apply (iok_plain G _ _ _ tau Hl2); [gat Ha (a + 3)|].
           rewrite Hl1. replace (a + 3 + 3) with (a + (3 + 3)) by lia. exact Hx.
      * intros pc s H. cbn [shf] in H. rewrite E1, E2 in H. cbn [orb andb] in H. rewrite ?andb_true_r in H.
        destruct (pc =? a) eqn:Ea; [left; lia|]. destruct (pc =? a + 3) eqn:Eb; [right; left; lia|discriminate H].
    + exists [a]. split.
      * apply wtc_one; [exact Hr1|]. apply (iok_plain G a _ _ tau Hr2); [gat Ha a|rewrite Hr1; exact Hx].
      * intros pc s H. cbn [shf] in H. rewrite E1, E2 in H. cbn [orb andb] in H. rewrite ?andb_true_r, ?andb_false_r in H.
        destruct (pc =? a) eqn:Ea; [left; lia|discriminate H].
    + exists [a]. split.
      * apply wtc_one; [exact Hl1|]. apply (iok_plain G a _ _ tau Hl2); [gat Ha a|rewrite Hl1; exact Hx].
      * intros pc s H. cbn [shf] in H. rewrite E1, E2 in H. cbn [orb andb] in H. rewrite ?andb_true_r, ?andb_false_r in H.
        destruct (pc =? a) eqn:Ea; [left; lia|discriminate H].
    + exists []. split; [apply wtc_nil|]. intros pc s H. cbn [shf] in H. rewrite E1, E2 in H.
      cbn [orb andb] in H. rewrite ?andb_false_r in H. discriminate H.
  - (* NMulti *)
    apply (tf_plain1 c _ (Multi + bits_of o) 1); try reflexivity.
    + intros a tbl. cbn [emit]. destruct (string_code str tbl) as [i tbl']. exists [i]. split; reflexivity.
    + szside.
    + rewrite cp_land_bits by (cbv; split; congruence). reflexivity.
  - (* NRef *)
    apply (tf_plain1 c _ (Ref + bits_of o) 1); try reflexivity.
    + intros a tbl. exists [map_capnum c g]. split; reflexivity.
    + szside.
    + rewrite cp_land_bits by (cbv; split; congruence). reflexivity.
  - (* NAnchor *)
    apply (tf_plain1 c _ (anchor_code an) 0); try reflexivity.
    + intros a tbl. exists []. split; reflexivity.
    + destruct an; reflexivity.
    + destruct an; reflexivity.
  - (* NNothing *)
    intros a tbl tau G Ha Hx. cbn [emit fst csize] in *. exists [a]. split.
    + apply wtc_one; [reflexivity|]. apply (iok_const G a Nothing _ tau Nothing eq_refl); [gat Ha a|reflexivity].
    + intros pc s H. cbn [shf] in H. unfold at_pc in H. destruct (pc =? a) eqn:E; [left; lia|discriminate H].
  - (* NEmpty *)
    intros a tbl tau G Ha Hx. exists []. split; [apply wtc_nil|]. intros pc s H. discriminate H.
  - (* NBump *)
    apply (tf_plain1 c _ UpdateBumpalong 0); try reflexivity.
    intros a tbl. exists []. split; reflexivity.
  - (* NConcat *)
    intros a tbl tau G Ha Hx. rewrite wr_emit_concat_eq. rewrite wr_csize_concat_eq in *.
    destruct (typed_seq c l HF a tbl tau G) as (S & W & D); [|exact Hx|].
    { intros pc Hpc. rewrite (Ha pc Hpc). apply shf_concat_eq. }
    exists S. split; [exact W|]. intros pc s H. rewrite shf_concat_eq in H. eapply D. exact H.
  - (* NAlternate *)
    intros a tbl tau G Ha Hx. rewrite wr_emit_alternate_eq. rewrite wr_csize_alternate_eq in *.
    destruct (typed_alt c (a + csize_alt c l) l HF a tbl tau G eq_refl) as (S & W & D); [|exact Hx|].
    { intros pc Hpc. rewrite (Ha pc Hpc). apply shf_alternate_eq. }
    exists S. split; [exact W|]. intros pc s H. rewrite shf_alternate_eq in H. eapply D. exact H.
  - (* NLoop *)
    intros a tbl tau G Ha Hx. cbn [emit csize] in *. cbv zeta in *.
    destruct (counted m n) eqn:Ecn, (m =? 0) eqn:Em0, lazy;
      repeat match goal with
             | |- context [zlen [?x; ?y]] => change (zlen [x; y]) with 2
             | |- context [zlen [?x]] => change (zlen [x]) with 1
             end; cbn [app].
    + (* counted=True m=0:True lazy=True *)
      pose proof (emit_length c r (a + 2 + 2) tbl) as Lr. pose proof (csize_nonneg c r) as Hr0.
      set (lb := a + 2 + 2) in *. set (lt := lb + csize c r) in *.
      assert (Hlt : G lt = Some (KC :: tau)).
      { rewrite (Ha lt ltac:(unfold lt, lb; lia)). cbn [shf]. cbv zeta. rewrite Ecn, Em0. fold lb. fold lt. cbn [andb]. unfold lt, lb. shev. reflexivity. }
      assert (Har : agree G (shf c r lb (KC :: tau)) lb lt).
      { intros pc Hpc. rewrite (Ha pc ltac:(unfold lt, lb in *; lia)). cbn [shf]. cbv zeta. rewrite Ecn, Em0. fold lb. fold lt. cbn [andb].
        unfold lt, lb in *. shev. reflexivity. }
      assert (Hlb : G lb = Some (KC :: tau)) by exact (entryG c r lb _ G Har Hlt).
      destruct (IHr lb tbl (KC :: tau) G Har Hlt) as (Sr & Wr & Dr).
      destruct (emit c r lb tbl) as [cr t1]. cbn [fst] in *. rewrite ?Lr. fold lt.
      assert (Ha0 : G a = Some tau).
      { rewrite (Ha a ltac:(unfold lt, lb in *; lia)). cbn [shf]. cbv zeta. rewrite Z.eqb_refl. reflexivity. }
      assert (Hg : G (a + 2) = Some (KC :: tau)).
      { rewrite (Ha (a + 2) ltac:(unfold lt, lb in *; lia)). cbn [shf]. cbv zeta. rewrite Ecn, Em0. cbn [andb]. shev. reflexivity. }
      exists ([a; a + 2] ++ Sr ++ [lt]). split.
      * apply (wtc_app G a ([Nullcount; 0] ++ [Goto; lt]) [a; a + 2]).
        -- apply (wtc_ins G a Nullcount [0] [Goto; lt] [a + 2]); [reflexivity| |].
           ++ apply (iok_const G a Nullcount _ tau Nullcount eq_refl Ha0). cbn. change (opcode_size Nullcount) with 2.
              rewrite Hg. apply is_shape_refl.
           ++ change (opcode_size Nullcount) with 2. apply wtc_one; [reflexivity|].
              apply (iok_const G (a + 2) Goto _ (KC :: tau) Goto eq_refl Hg). cbn. rewrite Hlt. apply is_shape_refl.
        -- change (zlen ([Nullcount; 0] ++ [Goto; lt])) with (2 + 2). replace (a + (2 + 2)) with lb by (unfold lb; lia).
           apply (wtc_app G lb cr Sr Wr). rewrite Lr. fold lt.
           apply wtc_one; [reflexivity|].
           apply (iok_const G lt (Branchcount + 1) _ (KC :: tau) Lazybranchcount eq_refl Hlt). cbn. change (opcode_size (Branchcount + 1)) with 3.
           replace (lt + 3) with (a + (2 + 2 + csize c r + 3)) by (unfold lt, lb; lia).
           rewrite Hx, Hlb. rewrite !is_shape_refl. reflexivity.
      * intros pc s H. cbn [shf] in H. cbv zeta in H. rewrite Ecn, Em0 in H. fold lb in H. fold lt in H. cbn [app].
        destruct (pc =? a) eqn:E1; [left; lia|]. right.
        destruct (pc =? a + 2) eqn:E2; [left; lia|]. right. cbn [andb] in H. apply in_or_app.
        destruct ((lb <=? pc) && (pc <? lt)) eqn:E3; [left; eapply Dr; exact H|].
        destruct (pc =? lt) eqn:E4; [right; left; lia|discriminate H].
    + (* counted=True m=0:True lazy=False *)
      pose proof (emit_length c r (a + 2 + 2) tbl) as Lr. pose proof (csize_nonneg c r) as Hr0.
      set (lb := a + 2 + 2) in *. set (lt := lb + csize c r) in *.
      assert (Hlt : G lt = Some (KC :: tau)).
      { rewrite (Ha lt ltac:(unfold lt, lb; lia)). cbn [shf]. cbv zeta. rewrite Ecn, Em0. fold lb. fold lt. cbn [andb]. unfold lt, lb. shev. reflexivity. }
      assert (Har : agree G (shf c r lb (KC :: tau)) lb lt).
      { intros pc Hpc. rewrite (Ha pc ltac:(unfold lt, lb in *; lia)). cbn [shf]. cbv zeta. rewrite Ecn, Em0. fold lb. fold lt. cbn [andb].
        unfold lt, lb in *. shev. reflexivity. }
      assert (Hlb : G lb = Some (KC :: tau)) by exact (entryG c r lb _ G Har Hlt).
      destruct (IHr lb tbl (KC :: tau) G Har Hlt) as (Sr & Wr & Dr).
      destruct (emit c r lb tbl) as [cr t1]. cbn [fst] in *. rewrite ?Lr. fold lt.
      assert (Ha0 : G a = Some tau).
      { rewrite (Ha a ltac:(unfold lt, lb in *; lia)). cbn [shf]. cbv zeta. rewrite Z.eqb_refl. reflexivity. }
      assert (Hg : G (a + 2) = Some (KC :: tau)).
      { rewrite (Ha (a + 2) ltac:(unfold lt, lb in *; lia)). cbn [shf]. cbv zeta. rewrite Ecn, Em0. cbn [andb]. shev. reflexivity. }
      exists ([a; a + 2] ++ Sr ++ [lt]). split.
      * apply (wtc_app G a ([Nullcount; 0] ++ [Goto; lt]) [a; a + 2]).
        -- apply (wtc_ins G a Nullcount [0] [Goto; lt] [a + 2]); [reflexivity| |].
           ++ apply (iok_const G a Nullcount _ tau Nullcount eq_refl Ha0). cbn. change (opcode_size Nullcount) with 2.
              rewrite Hg. apply is_shape_refl.
           ++ change (opcode_size Nullcount) with 2. apply wtc_one; [reflexivity|].
              apply (iok_const G (a + 2) Goto _ (KC :: tau) Goto eq_refl Hg). cbn. rewrite Hlt. apply is_shape_refl.
        -- change (zlen ([Nullcount; 0] ++ [Goto; lt])) with (2 + 2). replace (a + (2 + 2)) with lb by (unfold lb; lia).
           apply (wtc_app G lb cr Sr Wr). rewrite Lr. fold lt.
           apply wtc_one; [reflexivity|].
           apply (iok_const G lt (Branchcount + 0) _ (KC :: tau) Branchcount eq_refl Hlt). cbn. change (opcode_size (Branchcount + 0)) with 3.
           replace (lt + 3) with (a + (2 + 2 + csize c r + 3)) by (unfold lt, lb; lia).
           rewrite Hx, Hlb. rewrite !is_shape_refl. reflexivity.
      * intros pc s H. cbn [shf] in H. cbv zeta in H. rewrite Ecn, Em0 in H. fold lb in H. fold lt in H. cbn [app].
        destruct (pc =? a) eqn:E1; [left; lia|]. right.
        destruct (pc =? a + 2) eqn:E2; [left; lia|]. right. cbn [andb] in H. apply in_or_app.
        destruct ((lb <=? pc) && (pc <? lt)) eqn:E3; [left; eapply Dr; exact H|].
        destruct (pc =? lt) eqn:E4; [right; left; lia|discriminate H].
    + (* counted=True m=0:False lazy=True *)
      pose proof (emit_length c r (a + 2 + 0) tbl) as Lr. pose proof (csize_nonneg c r) as Hr0.
      set (lb := a + 2 + 0) in *. set (lt := lb + csize c r) in *.
      assert (Hlt : G lt = Some (KC :: tau)).
      { rewrite (Ha lt ltac:(unfold lt, lb; lia)). cbn [shf]. cbv zeta. rewrite Ecn, Em0. fold lb. fold lt. cbn [andb]. unfold lt, lb. shev. reflexivity. }
      assert (Har : agree G (shf c r lb (KC :: tau)) lb lt).
      { intros pc Hpc. rewrite (Ha pc ltac:(unfold lt, lb in *; lia)). cbn [shf]. cbv zeta. rewrite Ecn, Em0. fold lb. fold lt. cbn [andb].
        unfold lt, lb in *. shev. reflexivity. }
      assert (Hlb : G lb = Some (KC :: tau)) by exact (entryG c r lb _ G Har Hlt).
      destruct (IHr lb tbl (KC :: tau) G Har Hlt) as (Sr & Wr & Dr).
      destruct (emit c r lb tbl) as [cr t1]. cbn [fst] in *. rewrite ?Lr. fold lt.
      assert (Ha0 : G a = Some tau).
      { rewrite (Ha a ltac:(unfold lt, lb in *; lia)). cbn [shf]. cbv zeta. rewrite Z.eqb_refl. reflexivity. }
      exists ([a] ++ Sr ++ [lt]). split.
      * apply (wtc_app G a [Setcount; 1 - m] [a]).
        -- apply wtc_one; [reflexivity|].
           apply (iok_const G a Setcount _ tau Setcount eq_refl Ha0). cbn. change (opcode_size Setcount) with 2.
           replace (a + 2) with lb by (unfold lb; lia). rewrite Hlb. apply is_shape_refl.
        -- change (zlen [Setcount; 1 - m]) with 2. replace (a + 2) with lb by (unfold lb; lia).
           apply (wtc_app G lb cr Sr Wr). rewrite Lr. fold lt.
           apply wtc_one; [reflexivity|].
           apply (iok_const G lt (Branchcount + 1) _ (KC :: tau) Lazybranchcount eq_refl Hlt). cbn. change (opcode_size (Branchcount + 1)) with 3.
           replace (lt + 3) with (a + (2 + 0 + csize c r + 3)) by (unfold lt, lb; lia).
           rewrite Hx, Hlb. rewrite !is_shape_refl. reflexivity.
      * intros pc s H. cbn [shf] in H. cbv zeta in H. rewrite Ecn, Em0 in H. fold lb in H. fold lt in H. cbn [app].
        destruct (pc =? a) eqn:E1; [left; lia|]. right. cbn [andb] in H. apply in_or_app.
        destruct ((lb <=? pc) && (pc <? lt)) eqn:E3; [left; eapply Dr; exact H|].
        destruct (pc =? lt) eqn:E4; [right; left; lia|discriminate H].
    + (* counted=True m=0:False lazy=False *)
      pose proof (emit_length c r (a + 2 + 0) tbl) as Lr. pose proof (csize_nonneg c r) as Hr0.
      set (lb := a + 2 + 0) in *. set (lt := lb + csize c r) in *.
      assert (Hlt : G lt = Some (KC :: tau)).
      { rewrite (Ha lt ltac:(unfold lt, lb; lia)). cbn [shf]. cbv zeta. rewrite Ecn, Em0. fold lb. fold lt. cbn [andb]. unfold lt, lb. shev. reflexivity. }
      assert (Har : agree G (shf c r lb (KC :: tau)) lb lt).
      { intros pc Hpc. rewrite (Ha pc ltac:(unfold lt, lb in *; lia)). cbn [shf]. cbv zeta. rewrite Ecn, Em0. fold lb. fold lt. cbn [andb].
        unfold lt, lb in *. shev. reflexivity. }
      assert (Hlb : G lb = Some (KC :: tau)) by exact (entryG c r lb _ G Har Hlt).
      destruct (IHr lb tbl (KC :: tau) G Har Hlt) as (Sr & Wr & Dr).
      destruct (emit c r lb tbl) as [cr t1]. cbn [fst] in *. rewrite ?Lr. fold lt.
      assert (Ha0 : G a = Some tau).
      { rewrite (Ha a ltac:(unfold lt, lb in *; lia)). cbn [shf]. cbv zeta. rewrite Z.eqb_refl. reflexivity. }
      exists ([a] ++ Sr ++ [lt]). split.
      * apply (wtc_app G a [Setcount; 1 - m] [a]).
        -- apply wtc_one; [reflexivity|].
           apply (iok_const G a Setcount _ tau Setcount eq_refl Ha0). cbn. change (opcode_size Setcount) with 2.
           replace (a + 2) with lb by (unfold lb; lia). rewrite Hlb. apply is_shape_refl.
        -- change (zlen [Setcount; 1 - m]) with 2. replace (a + 2) with lb by (unfold lb; lia).
           apply (wtc_app G lb cr Sr Wr). rewrite Lr. fold lt.
           apply wtc_one; [reflexivity|].
           apply (iok_const G lt (Branchcount + 0) _ (KC :: tau) Branchcount eq_refl Hlt). cbn. change (opcode_size (Branchcount + 0)) with 3.
           replace (lt + 3) with (a + (2 + 0 + csize c r + 3)) by (unfold lt, lb; lia).
           rewrite Hx, Hlb. rewrite !is_shape_refl. reflexivity.
      * intros pc s H. cbn [shf] in H. cbv zeta in H. rewrite Ecn, Em0 in H. fold lb in H. fold lt in H. cbn [app].
        destruct (pc =? a) eqn:E1; [left; lia|]. right. cbn [andb] in H. apply in_or_app.
        destruct ((lb <=? pc) && (pc <? lt)) eqn:E3; [left; eapply Dr; exact H|].
        destruct (pc =? lt) eqn:E4; [right; left; lia|discriminate H].
    + (* counted=False m=0:True lazy=True *)
      pose proof (emit_length c r (a + 1 + 2) tbl) as Lr. pose proof (csize_nonneg c r) as Hr0.
      set (lb := a + 1 + 2) in *. set (lt := lb + csize c r) in *.
      assert (Hlt : G lt = Some (KM :: tau)).
      { rewrite (Ha lt ltac:(unfold lt, lb; lia)). cbn [shf]. cbv zeta. rewrite Ecn, Em0. fold lb. fold lt. cbn [andb]. unfold lt, lb. shev. reflexivity. }
      assert (Har : agree G (shf c r lb (KM :: tau)) lb lt).
      { intros pc Hpc. rewrite (Ha pc ltac:(unfold lt, lb in *; lia)). cbn [shf]. cbv zeta. rewrite Ecn, Em0. fold lb. fold lt. cbn [andb].
        unfold lt, lb in *. shev. reflexivity. }
      assert (Hlb : G lb = Some (KM :: tau)) by exact (entryG c r lb _ G Har Hlt).
      destruct (IHr lb tbl (KM :: tau) G Har Hlt) as (Sr & Wr & Dr).
      destruct (emit c r lb tbl) as [cr t1]. cbn [fst] in *. rewrite ?Lr. fold lt.
      assert (Ha0 : G a = Some tau).
      { rewrite (Ha a ltac:(unfold lt, lb in *; lia)). cbn [shf]. cbv zeta. rewrite Z.eqb_refl. reflexivity. }
      assert (Hg : G (a + 1) = Some (KM :: tau)).
      { rewrite (Ha (a + 1) ltac:(unfold lt, lb in *; lia)). cbn [shf]. cbv zeta. rewrite Ecn, Em0. cbn [andb]. shev. reflexivity. }
      exists ([a; a + 1] ++ Sr ++ [lt]). split.
      * apply (wtc_app G a ([Nullmark] ++ [Goto; lt]) [a; a + 1]).
        -- apply (wtc_ins G a Nullmark [] [Goto; lt] [a + 1]); [reflexivity| |].
           ++ apply (iok_const G a Nullmark _ tau Nullmark eq_refl Ha0). cbn. change (opcode_size Nullmark) with 1.
              rewrite Hg. apply is_shape_refl.
           ++ change (opcode_size Nullmark) with 1. apply wtc_one; [reflexivity|].
              apply (iok_const G (a + 1) Goto _ (KM :: tau) Goto eq_refl Hg). cbn. rewrite Hlt. apply is_shape_refl.
        -- change (zlen ([Nullmark] ++ [Goto; lt])) with (1 + 2). replace (a + (1 + 2)) with lb by (unfold lb; lia).
           apply (wtc_app G lb cr Sr Wr). rewrite Lr. fold lt.
           apply wtc_one; [reflexivity|].
           apply (iok_const G lt (Branchmark + 1) _ (KM :: tau) Lazybranchmark eq_refl Hlt). cbn. change (opcode_size (Branchmark + 1)) with 2.
           replace (lt + 2) with (a + (1 + 2 + csize c r + 2)) by (unfold lt, lb; lia).
           rewrite Hx, Hlb. rewrite !is_shape_refl. reflexivity.
      * intros pc s H. cbn [shf] in H. cbv zeta in H. rewrite Ecn, Em0 in H. fold lb in H. fold lt in H. cbn [app].
        destruct (pc =? a) eqn:E1; [left; lia|]. right.
        destruct (pc =? a + 1) eqn:E2; [left; lia|]. right. cbn [andb] in H. apply in_or_app.
        destruct ((lb <=? pc) && (pc <? lt)) eqn:E3; [left; eapply Dr; exact H|].
        destruct (pc =? lt) eqn:E4; [right; left; lia|discriminate H].
    + (* counted=False m=0:True lazy=False *)
      pose proof (emit_length c r (a + 1 + 2) tbl) as Lr. pose proof (csize_nonneg c r) as Hr0.
      set (lb := a + 1 + 2) in *. set (lt := lb + csize c r) in *.
      assert (Hlt : G lt = Some (KM :: tau)).
      { rewrite (Ha lt ltac:(unfold lt, lb; lia)). cbn [shf]. cbv zeta. rewrite Ecn, Em0. fold lb. fold lt. cbn [andb]. unfold lt, lb. shev. reflexivity. }
      assert (Har : agree G (shf c r lb (KM :: tau)) lb lt).
      { intros pc Hpc. rewrite (Ha pc ltac:(unfold lt, lb in *; lia)). cbn [shf]. cbv zeta. rewrite Ecn, Em0. fold lb. fold lt. cbn [andb].
        unfold lt, lb in *. shev. reflexivity. }
      assert (Hlb : G lb = Some (KM :: tau)) by exact (entryG c r lb _ G Har Hlt).
      destruct (IHr lb tbl (KM :: tau) G Har Hlt) as (Sr & Wr & Dr).
      destruct (emit c r lb tbl) as [cr t1]. cbn [fst] in *. rewrite ?Lr. fold lt.
      assert (Ha0 : G a = Some tau).
      { rewrite (Ha a ltac:(unfold lt, lb in *; lia)). cbn [shf]. cbv zeta. rewrite Z.eqb_refl. reflexivity. }
      assert (Hg : G (a + 1) = Some (KM :: tau)).
      { rewrite (Ha (a + 1) ltac:(unfold lt, lb in *; lia)). cbn [shf]. cbv zeta. rewrite Ecn, Em0. cbn [andb]. shev. reflexivity. }
      exists ([a; a + 1] ++ Sr ++ [lt]). split.
      * apply (wtc_app G a ([Nullmark] ++ [Goto; lt]) [a; a + 1]).
        -- apply (wtc_ins G a Nullmark [] [Goto; lt] [a + 1]); [reflexivity| |].
           ++ apply (iok_const G a Nullmark _ tau Nullmark eq_refl Ha0). cbn. change (opcode_size Nullmark) with 1.
              rewrite Hg. apply is_shape_refl.
           ++ change (opcode_size Nullmark) with 1. apply wtc_one; [reflexivity|].
              apply (iok_const G (a + 1) Goto _ (KM :: tau) Goto eq_refl Hg). cbn. rewrite Hlt. apply is_shape_refl.
        -- change (zlen ([Nullmark] ++ [Goto; lt])) with (1 + 2). replace (a + (1 + 2)) with lb by (unfold lb; lia).
           apply (wtc_app G lb cr Sr Wr). rewrite Lr. fold lt.
           apply wtc_one; [reflexivity|].
           apply (iok_const G lt (Branchmark + 0) _ (KM :: tau) Branchmark eq_refl Hlt). cbn. change (opcode_size (Branchmark + 0)) with 2.
           replace (lt + 2) with (a + (1 + 2 + csize c r + 2)) by (unfold lt, lb; lia).
           rewrite Hx, Hlb. rewrite !is_shape_refl. reflexivity.
      * intros pc s H. cbn [shf] in H. cbv zeta in H. rewrite Ecn, Em0 in H. fold lb in H. fold lt in H. cbn [app].
        destruct (pc =? a) eqn:E1; [left; lia|]. right.
        destruct (pc =? a + 1) eqn:E2; [left; lia|]. right. cbn [andb] in H. apply in_or_app.
        destruct ((lb <=? pc) && (pc <? lt)) eqn:E3; [left; eapply Dr; exact H|].
        destruct (pc =? lt) eqn:E4; [right; left; lia|discriminate H].
    + (* counted=False m=0:False lazy=True *)
      pose proof (emit_length c r (a + 1 + 0) tbl) as Lr. pose proof (csize_nonneg c r) as Hr0.
      set (lb := a + 1 + 0) in *. set (lt := lb + csize c r) in *.
      assert (Hlt : G lt = Some (KM :: tau)).
      { rewrite (Ha lt ltac:(unfold lt, lb; lia)). cbn [shf]. cbv zeta. rewrite Ecn, Em0. fold lb. fold lt. cbn [andb]. unfold lt, lb. shev. reflexivity. }
      assert (Har : agree G (shf c r lb (KM :: tau)) lb lt).
      { intros pc Hpc. rewrite (Ha pc ltac:(unfold lt, lb in *; lia)). cbn [shf]. cbv zeta. rewrite Ecn, Em0. fold lb. fold lt. cbn [andb].
        unfold lt, lb in *. shev. reflexivity. }
      assert (Hlb : G lb = Some (KM :: tau)) by exact (entryG c r lb _ G Har Hlt).
      destruct (IHr lb tbl (KM :: tau) G Har Hlt) as (Sr & Wr & Dr).
      destruct (emit c r lb tbl) as [cr t1]. cbn [fst] in *. rewrite ?Lr. fold lt.
      assert (Ha0 : G a = Some tau).
      { rewrite (Ha a ltac:(unfold lt, lb in *; lia)). cbn [shf]. cbv zeta. rewrite Z.eqb_refl. reflexivity. }
      exists ([a] ++ Sr ++ [lt]). split.
      * apply (wtc_app G a [Setmark] [a]).
        -- apply wtc_one; [reflexivity|].
           apply (iok_const G a Setmark _ tau Setmark eq_refl Ha0). cbn. change (opcode_size Setmark) with 1.
           replace (a + 1) with lb by (unfold lb; lia). rewrite Hlb. apply is_shape_refl.
        -- change (zlen [Setmark]) with 1. replace (a + 1) with lb by (unfold lb; lia).
           apply (wtc_app G lb cr Sr Wr). rewrite Lr. fold lt.
           apply wtc_one; [reflexivity|].
           apply (iok_const G lt (Branchmark + 1) _ (KM :: tau) Lazybranchmark eq_refl Hlt). cbn. change (opcode_size (Branchmark + 1)) with 2.
           replace (lt + 2) with (a + (1 + 0 + csize c r + 2)) by (unfold lt, lb; lia).
           rewrite Hx, Hlb. rewrite !is_shape_refl. reflexivity.
      * intros pc s H. cbn [shf] in H. cbv zeta in H. rewrite Ecn, Em0 in H. fold lb in H. fold lt in H. cbn [app].
        destruct (pc =? a) eqn:E1; [left; lia|]. right. cbn [andb] in H. apply in_or_app.
        destruct ((lb <=? pc) && (pc <? lt)) eqn:E3; [left; eapply Dr; exact H|].
        destruct (pc =? lt) eqn:E4; [right; left; lia|discriminate H].
    + (* counted=False m=0:False lazy=False *)
      pose proof (emit_length c r (a + 1 + 0) tbl) as Lr. pose proof (csize_nonneg c r) as Hr0.
      set (lb := a + 1 + 0) in *. set (lt := lb + csize c r) in *.
      assert (Hlt : G lt = Some (KM :: tau)).
      { rewrite (Ha lt ltac:(unfold lt, lb; lia)). cbn [shf]. cbv zeta. rewrite Ecn, Em0. fold lb. fold lt. cbn [andb]. unfold lt, lb. shev. reflexivity. }
      assert (Har : agree G (shf c r lb (KM :: tau)) lb lt).
      { intros pc Hpc. rewrite (Ha pc ltac:(unfold lt, lb in *; lia)). cbn [shf]. cbv zeta. rewrite Ecn, Em0. fold lb. fold lt. cbn [andb].
        unfold lt, lb in *. shev. reflexivity. }
      assert (Hlb : G lb = Some (KM :: tau)) by exact (entryG c r lb _ G Har Hlt).
      destruct (IHr lb tbl (KM :: tau) G Har Hlt) as (Sr & Wr & Dr).
      destruct (emit c r lb tbl) as [cr t1]. cbn [fst] in *. rewrite ?Lr. fold lt.
      assert (Ha0 : G a = Some tau).
      { rewrite (Ha a ltac:(unfold lt, lb in *; lia)). cbn [shf]. cbv zeta. rewrite Z.eqb_refl. reflexivity. }
      exists ([a] ++ Sr ++ [lt]). split.
      * apply (wtc_app G a [Setmark] [a]).
        -- apply wtc_one; [reflexivity|].
           apply (iok_const G a Setmark _ tau Setmark eq_refl Ha0). cbn. change (opcode_size Setmark) with 1.
           replace (a + 1) with lb by (unfold lb; lia). rewrite Hlb. apply is_shape_refl.
        -- change (zlen [Setmark]) with 1. replace (a + 1) with lb by (unfold lb; lia).
           apply (wtc_app G lb cr Sr Wr). rewrite Lr. fold lt.
           apply wtc_one; [reflexivity|].
           apply (iok_const G lt (Branchmark + 0) _ (KM :: tau) Branchmark eq_refl Hlt). cbn. change (opcode_size (Branchmark + 0)) with 2.
           replace (lt + 2) with (a + (1 + 0 + csize c r + 2)) by (unfold lt, lb; lia).
           rewrite Hx, Hlb. rewrite !is_shape_refl. reflexivity.
      * intros pc s H. cbn [shf] in H. cbv zeta in H. rewrite Ecn, Em0 in H. fold lb in H. fold lt in H. cbn [app].
        destruct (pc =? a) eqn:E1; [left; lia|]. right. cbn [andb] in H. apply in_or_app.
        destruct ((lb <=? pc) && (pc <? lt)) eqn:E3; [left; eapply Dr; exact H|].
        destruct (pc =? lt) eqn:E4; [right; left; lia|discriminate H].
  - (* NCapture *)
    intros a tbl tau G Ha Hx. cbn [emit csize] in *. destruct (emit_capture c g u) eqn:Ec.
    + pose proof (emit_length c r (a + 1) tbl) as Lr. pose proof (csize_nonneg c r) as Hr0.
      set (m := a + 1 + csize c r) in *.
      assert (Hm : G m = Some (KM :: tau)) by (unfold m; gat Ha (a + 1 + csize c r)).
      destruct (IHr (a + 1) tbl (KM :: tau) G) as (Sr & Wr & Dr).
      { intros pc Hpc. rewrite (Ha pc ltac:(lia)). cbn [shf]. rewrite Ec. shev. reflexivity. }
      { exact Hm. }
      destruct (emit c r (a + 1) tbl) as [cr t1]. cbn [fst] in *.
      exists ([a] ++ Sr ++ [m]). split.
      * apply (wtc_app G a [Setmark] [a]).
        -- apply wtc_one; [reflexivity|]. apply (iok_const G a Setmark _ tau Setmark eq_refl); [gat Ha a; rewrite Ec; shev; reflexivity|].
           cbn. change (opcode_size Setmark) with 1.
           rewrite (entryG c r (a + 1) (KM :: tau) G); [apply is_shape_refl| |exact Hm].
           intros pc Hpc. rewrite (Ha pc ltac:(lia)). cbn [shf]. rewrite Ec. shev. reflexivity.
        -- change (zlen [Setmark]) with 1. apply (wtc_app G (a + 1) cr Sr Wr). rewrite Lr. fold m.
           apply wtc_one; [reflexivity|]. apply (iok_const G m Capturemark _ (KM :: tau) Capturemark eq_refl); [exact Hm|].
           cbn. change (opcode_size Capturemark) with 3. replace (m + 3) with (a + (1 + csize c r + 3)) by (unfold m; lia).
           rewrite Hx. apply is_shape_refl.
      * intros pc s H. cbn [shf] in H. rewrite Ec in H. cbn [app].
        destruct (pc =? a) eqn:E1; [left; lia|]. right. apply in_or_app.
        destruct (pc <? a + 1 + csize c r) eqn:E2; [left; eapply Dr; exact H|].
        destruct (pc =? a + 1 + csize c r) eqn:E3; [right; left; unfold m; lia|discriminate H].
    + destruct (IHr a tbl tau G) as (S & W & D); [|exact Hx|].
      { intros pc Hpc. rewrite (Ha pc Hpc). cbn [shf]. rewrite Ec. reflexivity. }
      exists S. split; [exact W|]. intros pc s H. cbn [shf] in H. rewrite Ec in H. eapply D. exact H.
  - (* NGroup *)
    intros a tbl tau G Ha Hx. cbn [emit csize] in *. apply IHr; assumption.
  - (* NPosLook *)
    intros a tbl tau G Ha Hx. cbn [emit csize] in *.
    pose proof (emit_length c r (a + 2) tbl) as Lr. pose proof (csize_nonneg c r) as Hr0.
    set (m := a + 2 + csize c r) in *.
    assert (Hm : G m = Some (KM :: KJ :: tau)) by (unfold m; gat Ha (a + 2 + csize c r)).
    assert (Hm1 : G (m + 1) = Some (KJ :: tau)) by (unfold m; gat Ha (a + 2 + csize c r + 1)).
    assert (Ha1 : G (a + 1) = Some (KJ :: tau)) by (gat Ha (a + 1)).
    assert (Har : agree G (shf c r (a + 2) (KM :: KJ :: tau)) (a + 2) (a + 2 + csize c r)).
    { intros pc Hpc. rewrite (Ha pc ltac:(lia)). cbn [shf]. shev. reflexivity. }
    destruct (IHr (a + 2) tbl (KM :: KJ :: tau) G Har Hm) as (Sr & Wr & Dr).
    destruct (emit c r (a + 2) tbl) as [cr t1]. cbn [fst] in *.
    exists ([a; a + 1] ++ Sr ++ [m; m + 1]). split.
    + apply (wtc_app G a [Setjump; Setmark] [a; a + 1]).
      * apply (wtc_ins G a Setjump [] [Setmark] [a + 1]); [reflexivity| |].
        -- apply (iok_const G a Setjump _ tau Setjump eq_refl); [gat Ha a|]. cbn. change (opcode_size Setjump) with 1.
           rewrite Ha1. apply is_shape_refl.
        -- change (opcode_size Setjump) with 1. apply wtc_one; [reflexivity|].
           apply (iok_const G (a + 1) Setmark _ (KJ :: tau) Setmark eq_refl); [exact Ha1|]. cbn. change (opcode_size Setmark) with 1.
           replace (a + 1 + 1) with (a + 2) by lia. rewrite (entryG c r (a + 2) _ G Har Hm). apply is_shape_refl.
      * change (zlen [Setjump; Setmark]) with 2. apply (wtc_app G (a + 2) cr Sr Wr). rewrite Lr. fold m.
        apply (wtc_ins G m Getmark [] [Forejump] [m + 1]); [reflexivity| |].
        -- apply (iok_const G m Getmark _ (KM :: KJ :: tau) Getmark eq_refl); [exact Hm|]. cbn. change (opcode_size Getmark) with 1.
           rewrite Hm1. apply is_shape_refl.
        -- change (opcode_size Getmark) with 1. apply wtc_one; [reflexivity|].
           apply (iok_const G (m + 1) Forejump _ (KJ :: tau) Forejump eq_refl); [exact Hm1|]. cbn. change (opcode_size Forejump) with 1.
           replace (m + 1 + 1) with (a + (2 + csize c r + 2)) by (unfold m; lia). rewrite Hx. apply is_shape_refl.
    + intros pc s H. cbn [shf] in H. cbn [app].
      destruct (pc =? a) eqn:E1; [left; lia|]. right. destruct (pc =? a + 1) eqn:E2; [left; lia|]. right. apply in_or_app.
      destruct (pc <? a + 2 + csize c r) eqn:E3; [left; eapply Dr; exact H|]. right.
      destruct (pc =? a + 2 + csize c r) eqn:E4; [left; unfold m; lia|].
      destruct (pc =? a + 2 + csize c r + 1) eqn:E5; [right; left; unfold m; lia|discriminate H].
  - (* NNegLook *)
    intros a tbl tau G Ha Hx. cbn [emit csize] in *.
    pose proof (emit_length c r (a + 3) tbl) as Lr. pose proof (csize_nonneg c r) as Hr0.
    set (m := a + 3 + csize c r) in *.
    assert (Hm : G m = Some (KJ :: tau)) by (unfold m; gat Ha (a + 3 + csize c r)).
    assert (Hm1 : G (m + 1) = Some (KJ :: tau)) by (unfold m; gat Ha (a + 3 + csize c r + 1)).
    assert (Ha1 : G (a + 1) = Some (KJ :: tau)) by (gat Ha (a + 1)).
    assert (Har : agree G (shf c r (a + 3) (KJ :: tau)) (a + 3) (a + 3 + csize c r)).
    { intros pc Hpc. rewrite (Ha pc ltac:(lia)). cbn [shf]. shev. reflexivity. }
    destruct (IHr (a + 3) tbl (KJ :: tau) G Har Hm) as (Sr & Wr & Dr).
    destruct (emit c r (a + 3) tbl) as [cr t1]. cbn [fst] in *. rewrite Lr. fold m.
    exists ([a; a + 1] ++ Sr ++ [m; m + 1]). split.
    + apply (wtc_app G a [Setjump; Lazybranch; m + 1] [a; a + 1]).
      * apply (wtc_ins G a Setjump [] [Lazybranch; m + 1] [a + 1]); [reflexivity| |].
        -- apply (iok_const G a Setjump _ tau Setjump eq_refl); [gat Ha a|]. cbn. change (opcode_size Setjump) with 1.
           rewrite Ha1. apply is_shape_refl.
        -- change (opcode_size Setjump) with 1. apply wtc_one; [reflexivity|].
           apply (iok_const G (a + 1) Lazybranch _ (KJ :: tau) Lazybranch eq_refl); [exact Ha1|]. cbn. change (opcode_size Lazybranch) with 2.
           replace (a + 1 + 2) with (a + 3) by lia. rewrite (entryG c r (a + 3) _ G Har Hm), Hm1. rewrite !is_shape_refl. reflexivity.
      * change (zlen [Setjump; Lazybranch; m + 1]) with 3. apply (wtc_app G (a + 3) cr Sr Wr). rewrite Lr. fold m.
        apply (wtc_ins G m Backjump [] [Forejump] [m + 1]); [reflexivity| |].
        -- apply (iok_const G m Backjump _ (KJ :: tau) Backjump eq_refl); [exact Hm|]. reflexivity.
        -- change (opcode_size Backjump) with 1. apply wtc_one; [reflexivity|].
           apply (iok_const G (m + 1) Forejump _ (KJ :: tau) Forejump eq_refl); [exact Hm1|]. cbn. change (opcode_size Forejump) with 1.
           replace (m + 1 + 1) with (a + (3 + csize c r + 2)) by (unfold m; lia). rewrite Hx. apply is_shape_refl.
    + intros pc s H. cbn [shf] in H. cbn [app].
      destruct (pc =? a) eqn:E1; [left; lia|]. right. destruct (pc =? a + 1) eqn:E2; [left; lia|]. right. apply in_or_app.
      destruct (pc <? a + 3 + csize c r) eqn:E3.
      { destruct (a + 3 <=? pc); [left; eapply Dr; exact H|discriminate H]. }
      right. destruct (pc =? a + 3 + csize c r) eqn:E4; [left; unfold m; lia|].
      destruct (pc =? a + 3 + csize c r + 1) eqn:E5; [right; left; unfold m; lia|discriminate H].
  - (* NAtomic *)
    intros a tbl tau G Ha Hx. cbn [emit csize] in *.
    pose proof (emit_length c r (a + 1) tbl) as Lr. pose proof (csize_nonneg c r) as Hr0.
    set (m := a + 1 + csize c r) in *.
    assert (Hm : G m = Some (KJ :: tau)) by (unfold m; gat Ha (a + 1 + csize c r)).
    assert (Har : agree G (shf c r (a + 1) (KJ :: tau)) (a + 1) (a + 1 + csize c r)).
    { intros pc Hpc. rewrite (Ha pc ltac:(lia)). cbn [shf]. shev. reflexivity. }
    destruct (IHr (a + 1) tbl (KJ :: tau) G Har Hm) as (Sr & Wr & Dr).
    destruct (emit c r (a + 1) tbl) as [cr t1]. cbn [fst] in *.
    exists ([a] ++ Sr ++ [m]). split.
    + apply (wtc_app G a [Setjump] [a]).
      * apply wtc_one; [reflexivity|]. apply (iok_const G a Setjump _ tau Setjump eq_refl); [gat Ha a|].
        cbn. change (opcode_size Setjump) with 1. rewrite (entryG c r (a + 1) _ G Har Hm). apply is_shape_refl.
      * change (zlen [Setjump]) with 1. apply (wtc_app G (a + 1) cr Sr Wr). rewrite Lr. fold m.
        apply wtc_one; [reflexivity|]. apply (iok_const G m Forejump _ (KJ :: tau) Forejump eq_refl); [exact Hm|].
        cbn. change (opcode_size Forejump) with 1. replace (m + 1) with (a + (1 + csize c r + 1)) by (unfold m; lia).
        rewrite Hx. apply is_shape_refl.
    + intros pc s H. cbn [shf] in H. cbn [app].
      destruct (pc =? a) eqn:E1; [left; lia|]. right. apply in_or_app.
      destruct (pc <? a + 1 + csize c r) eqn:E2; [left; eapply Dr; exact H|].
      destruct (pc =? a + 1 + csize c r) eqn:E3; [right; left; unfold m; lia|discriminate H].
  - (* NBackRefCond *)
    intros a tbl tau G Ha Hx. cbn [emit csize] in *.
    pose proof (emit_length c yes (a + 6) tbl) as Ly. pose proof (csize_nonneg c yes) as Hy0.
    set (ly := a + 6 + csize c yes) in *.
    set (sn := match no with Some x => csize c x | None => 0 end) in *.
    assert (Hn0 : 0 <= sn) by (unfold sn; destruct no; [apply csize_nonneg|lia]).
    assert (Hend : G (ly + 3 + sn) = Some tau) by (replace (ly + 3 + sn) with (a + (6 + csize c yes + 2 + 1 + sn)) by (unfold ly; lia); exact Hx).
    assert (Ha0 : G a = Some tau) by (gat Ha a).
    assert (Ha1 : G (a + 1) = Some (KJ :: tau)) by (gat Ha (a + 1)).
    assert (Ha3 : G (a + 3) = Some (KJ :: tau)) by (gat Ha (a + 3)).
    assert (Ha5 : G (a + 5) = Some (KJ :: tau)) by (gat Ha (a + 5)).
    assert (Hly : G ly = Some tau) by (unfold ly; gat Ha (a + 6 + csize c yes)).
    assert (Hln : G (ly + 2) = Some (KJ :: tau)) by (unfold ly; gat Ha (a + 6 + csize c yes + 2)).
    assert (Hay : agree G (shf c yes (a + 6) tau) (a + 6) ly).
    { intros pc Hpc. rewrite (Ha pc ltac:(unfold ly in *; lia)). cbn [shf]. cbv zeta. unfold ly in *. shev. reflexivity. }
    destruct (IHy (a + 6) tbl tau G Hay Hly) as (Sy & Wy & Dy).
    destruct (emit c yes (a + 6) tbl) as [cy t1]. cbn [fst] in *. rewrite Ly. fold ly.
    assert (Hno : exists Sn, wtc G (ly + 3) (fst (match no with Some x => emit c x (ly + 2 + 1) t1 | None => ([], t1) end)) Sn /\
                 (forall pc s, match no with Some x => shf c x (ly + 3) tau pc | None => None end = Some s -> In pc Sn) /\
                 zlen (fst (match no with Some x => emit c x (ly + 2 + 1) t1 | None => ([], t1) end)) = sn /\
                 G (ly + 3) = Some tau).
    { destruct no as [x|]; cbn [opt_all] in IHn.
      - replace (ly + 2 + 1) with (ly + 3) by lia.
        assert (Han : agree G (shf c x (ly + 3) tau) (ly + 3) (ly + 3 + csize c x)).
        { intros pc Hpc. rewrite (Ha pc ltac:(unfold ly, sn in *; lia)). cbn [shf]. cbv zeta. unfold ly in *. shev. reflexivity. }
        destruct (IHn (ly + 3) t1 tau G Han Hend) as (Sn & Wn & Dn). exists Sn. split; [exact Wn|]. split; [exact Dn|].
        split; [apply emit_length|]. exact (entryG c x (ly + 3) tau G Han Hend).
      - exists []. split; [apply wtc_nil|]. split; [intros pc s H; discriminate H|]. split; [reflexivity|].
        unfold sn in Hend. rewrite Z.add_0_r in Hend. exact Hend. }
    destruct Hno as (Sn & Wn & Dn & Lnn & Hn3).
    destruct (match no with Some x => emit c x (ly + 2 + 1) t1 | None => ([], t1) end) as [cn t2]. cbn [fst] in *. rewrite Lnn.
    exists ([a; a + 1; a + 3; a + 5] ++ Sy ++ [ly] ++ [ly + 2] ++ Sn). split.
    + apply (wtc_app G a [Setjump; Lazybranch; ly + 2; Testref; map_capnum c g; Forejump] [a; a + 1; a + 3; a + 5]).
      * apply (wtc_ins G a Setjump [] [Lazybranch; ly + 2; Testref; map_capnum c g; Forejump] [a + 1; a + 3; a + 5]); [reflexivity| |].
        { apply (iok_const G a Setjump _ tau Setjump eq_refl Ha0). cbn. change (opcode_size Setjump) with 1. rewrite Ha1. apply is_shape_refl. }
        change (opcode_size Setjump) with 1.
        apply (wtc_ins G (a + 1) Lazybranch [ly + 2] [Testref; map_capnum c g; Forejump] [a + 3; a + 5]); [reflexivity| |].
        { apply (iok_const G (a + 1) Lazybranch _ (KJ :: tau) Lazybranch eq_refl Ha1). cbn. change (opcode_size Lazybranch) with 2.
          replace (a + 1 + 2) with (a + 3) by lia. rewrite Ha3, Hln. rewrite !is_shape_refl. reflexivity. }
        change (opcode_size Lazybranch) with 2. replace (a + 1 + 2) with (a + 3) by lia.
        apply (wtc_ins G (a + 3) Testref [map_capnum c g] [Forejump] [a + 5]); [reflexivity| |].
        { apply (iok_plain G (a + 3) Testref _ (KJ :: tau) eq_refl Ha3). change (opcode_size Testref) with 2.
          replace (a + 3 + 2) with (a + 5) by lia. exact Ha5. }
        change (opcode_size Testref) with 2. replace (a + 3 + 2) with (a + 5) by lia.
        apply wtc_one; [reflexivity|].
        apply (iok_const G (a + 5) Forejump _ (KJ :: tau) Forejump eq_refl Ha5). cbn. change (opcode_size Forejump) with 1.
        replace (a + 5 + 1) with (a + 6) by lia. rewrite (entryG c yes (a + 6) tau G Hay Hly). apply is_shape_refl.
      * change (zlen [Setjump; Lazybranch; ly + 2; Testref; map_capnum c g; Forejump]) with 6.
        apply (wtc_app G (a + 6) cy Sy Wy). rewrite Ly. fold ly.
        apply (wtc_app G ly [Goto; ly + 2 + 1 + sn] [ly]).
        { apply wtc_one; [reflexivity|]. apply (iok_const G ly Goto _ tau Goto eq_refl Hly). cbn.
          replace (ly + 2 + 1 + sn) with (ly + 3 + sn) by lia. rewrite Hend. apply is_shape_refl. }
        change (zlen [Goto; ly + 2 + 1 + sn]) with 2.
        apply (wtc_app G (ly + 2) [Forejump] [ly + 2]).
        { apply wtc_one; [reflexivity|]. apply (iok_const G (ly + 2) Forejump _ (KJ :: tau) Forejump eq_refl Hln). cbn.
          change (opcode_size Forejump) with 1. replace (ly + 2 + 1) with (ly + 3) by lia. rewrite Hn3. apply is_shape_refl. }
        change (zlen [Forejump]) with 1. replace (ly + 2 + 1) with (ly + 3) by lia. exact Wn.
    + intros pc s H. cbn [shf] in H. cbv zeta in H. fold ly in H. cbn [app].
      destruct (pc =? a) eqn:E1; [left; lia|]. right.
      destruct ((pc =? a + 1) || (pc =? a + 3) || (pc =? a + 5)) eqn:E2.
      { destruct (pc =? a + 1) eqn:F1; [left; lia|]. right. destruct (pc =? a + 3) eqn:F2; [left; lia|]. right. left. lia. }
      right. right. right. apply in_or_app.
      destruct (pc <? ly) eqn:E3. { destruct (a + 6 <=? pc); [left; eapply Dy; exact H|discriminate H]. }
      right. destruct (pc =? ly) eqn:E4; [left; lia|]. right.
      destruct (pc =? ly + 2) eqn:E5; [left; lia|]. right. eapply Dn. exact H.
  - (* NExprCond *)
    intros a tbl tau G Ha Hx. cbn [emit csize] in *.
    pose proof (emit_length c cnd (a + 4) tbl) as Lc. pose proof (csize_nonneg c cnd) as Hc0. pose proof (csize_nonneg c yes) as Hy0.
    set (lc := a + 4 + csize c cnd) in *. set (ay := lc + 2) in *. set (ly := ay + csize c yes) in *.
    set (sn := match no with Some x => csize c x | None => 0 end) in *.
    assert (Hn0 : 0 <= sn) by (unfold sn; destruct no; [apply csize_nonneg|lia]).
    assert (Hend : G (ly + 4 + sn) = Some tau).
    { replace (ly + 4 + sn) with (a + (4 + csize c cnd + 2 + csize c yes + 2 + 2 + sn)) by (unfold ly, ay, lc; lia). exact Hx. }
    assert (Ha0 : G a = Some tau) by (gat Ha a).
    assert (Ha1 : G (a + 1) = Some (KJ :: tau)) by (gat Ha (a + 1)).
    assert (Ha2 : G (a + 2) = Some (KM :: KJ :: tau)) by (gat Ha (a + 2)).
    assert (Hlc : G lc = Some (KM :: KJ :: tau)) by (unfold lc; gat Ha (a + 4 + csize c cnd)).
    assert (Hlc1 : G (lc + 1) = Some (KJ :: tau)) by (unfold lc; gat Ha (a + 4 + csize c cnd + 1)).
    assert (Hly : G ly = Some tau) by (unfold ly, ay, lc; gat Ha (a + 4 + csize c cnd + 2 + csize c yes)).
    assert (Hln : G (ly + 2) = Some (KM :: KJ :: tau)) by (unfold ly, ay, lc; gat Ha (a + 4 + csize c cnd + 2 + csize c yes + 2)).
    assert (Hln1 : G (ly + 3) = Some (KJ :: tau)) by (unfold ly, ay, lc; gat Ha (a + 4 + csize c cnd + 2 + csize c yes + 3)).
    assert (Hac : agree G (shf c cnd (a + 4) (KM :: KJ :: tau)) (a + 4) lc).
    { intros pc Hpc. rewrite (Ha pc ltac:(unfold ly, ay, lc in *; lia)). cbn [shf]. cbv zeta. unfold ly, ay, lc in *. shev. reflexivity. }
    assert (Hay : agree G (shf c yes ay tau) ay ly).
    { intros pc Hpc. rewrite (Ha pc ltac:(unfold ly, ay, lc in *; lia)). cbn [shf]. cbv zeta. unfold ly, ay, lc in *. shev. reflexivity. }
    destruct (IHc (a + 4) tbl (KM :: KJ :: tau) G Hac Hlc) as (Sc & Wc & Dc).
    destruct (emit c cnd (a + 4) tbl) as [cc t1]. cbn [fst] in *. rewrite Lc. fold lc. fold ay.
    pose proof (emit_length c yes ay t1) as Ly.
    destruct (IHy ay t1 tau G Hay Hly) as (Sy & Wy & Dy).
    destruct (emit c yes ay t1) as [cy t2]. cbn [fst] in *. rewrite Ly. fold ly.
    assert (Hno : exists Sn, wtc G (ly + 4) (fst (match no with Some x => emit c x (ly + 2 + 2) t2 | None => ([], t2) end)) Sn /\
                 (forall pc s, match no with Some x => shf c x (ly + 4) tau pc | None => None end = Some s -> In pc Sn) /\
                 zlen (fst (match no with Some x => emit c x (ly + 2 + 2) t2 | None => ([], t2) end)) = sn /\
                 G (ly + 4) = Some tau).
    { destruct no as [x|]; cbn [opt_all] in IHn.
      - replace (ly + 2 + 2) with (ly + 4) by lia.
        assert (Han : agree G (shf c x (ly + 4) tau) (ly + 4) (ly + 4 + csize c x)).
        { intros pc Hpc. rewrite (Ha pc ltac:(unfold ly, ay, lc, sn in *; lia)). cbn [shf]. cbv zeta. unfold ly, ay, lc in *. shev. reflexivity. }
        destruct (IHn (ly + 4) t2 tau G Han Hend) as (Sn & Wn & Dn). exists Sn. split; [exact Wn|]. split; [exact Dn|].
        split; [apply emit_length|]. exact (entryG c x (ly + 4) tau G Han Hend).
      - exists []. split; [apply wtc_nil|]. split; [intros pc s H; discriminate H|]. split; [reflexivity|].
        unfold sn in Hend. rewrite Z.add_0_r in Hend. exact Hend. }
    destruct Hno as (Sn & Wn & Dn & Lnn & Hn4).
    destruct (match no with Some x => emit c x (ly + 2 + 2) t2 | None => ([], t2) end) as [cn t3]. cbn [fst] in *. rewrite Lnn.
    exists ([a; a + 1; a + 2] ++ Sc ++ [lc; lc + 1] ++ Sy ++ [ly] ++ [ly + 2; ly + 3] ++ Sn). split.
    + apply (wtc_app G a [Setjump; Setmark; Lazybranch; ly + 2] [a; a + 1; a + 2]).
      * apply (wtc_ins G a Setjump [] [Setmark; Lazybranch; ly + 2] [a + 1; a + 2]); [reflexivity| |].
        { apply (iok_const G a Setjump _ tau Setjump eq_refl Ha0). cbn. change (opcode_size Setjump) with 1. rewrite Ha1. apply is_shape_refl. }
        change (opcode_size Setjump) with 1.
        apply (wtc_ins G (a + 1) Setmark [] [Lazybranch; ly + 2] [a + 2]); [reflexivity| |].
        { apply (iok_const G (a + 1) Setmark _ (KJ :: tau) Setmark eq_refl Ha1). cbn. change (opcode_size Setmark) with 1.
          replace (a + 1 + 1) with (a + 2) by lia. rewrite Ha2. apply is_shape_refl. }
        change (opcode_size Setmark) with 1. replace (a + 1 + 1) with (a + 2) by lia.
        apply wtc_one; [reflexivity|].
        apply (iok_const G (a + 2) Lazybranch _ (KM :: KJ :: tau) Lazybranch eq_refl Ha2). cbn. change (opcode_size Lazybranch) with 2.
        replace (a + 2 + 2) with (a + 4) by lia. rewrite (entryG c cnd (a + 4) _ G Hac Hlc), Hln. rewrite !is_shape_refl. reflexivity.
      * change (zlen [Setjump; Setmark; Lazybranch; ly + 2]) with 4.
        apply (wtc_app G (a + 4) cc Sc Wc). rewrite Lc. fold lc.
        apply (wtc_app G lc [Getmark; Forejump] [lc; lc + 1]).
        { apply (wtc_ins G lc Getmark [] [Forejump] [lc + 1]); [reflexivity| |].
          - apply (iok_const G lc Getmark _ (KM :: KJ :: tau) Getmark eq_refl Hlc). cbn. change (opcode_size Getmark) with 1.
            rewrite Hlc1. apply is_shape_refl.
          - change (opcode_size Getmark) with 1. apply wtc_one; [reflexivity|].
            apply (iok_const G (lc + 1) Forejump _ (KJ :: tau) Forejump eq_refl Hlc1). cbn. change (opcode_size Forejump) with 1.
            replace (lc + 1 + 1) with ay by (unfold ay; lia). rewrite (entryG c yes ay tau G Hay Hly). apply is_shape_refl. }
        change (zlen [Getmark; Forejump]) with 2. fold ay.
        apply (wtc_app G ay cy Sy Wy). rewrite Ly. fold ly.
        apply (wtc_app G ly [Goto; ly + 2 + 2 + sn] [ly]).
        { apply wtc_one; [reflexivity|]. apply (iok_const G ly Goto _ tau Goto eq_refl Hly). cbn.
          replace (ly + 2 + 2 + sn) with (ly + 4 + sn) by lia. rewrite Hend. apply is_shape_refl. }
        change (zlen [Goto; ly + 2 + 2 + sn]) with 2.
        apply (wtc_app G (ly + 2) [Getmark; Forejump] [ly + 2; ly + 3]).
        { apply (wtc_ins G (ly + 2) Getmark [] [Forejump] [ly + 3]); [reflexivity| |].
          - apply (iok_const G (ly + 2) Getmark _ (KM :: KJ :: tau) Getmark eq_refl Hln). cbn. change (opcode_size Getmark) with 1.
            replace (ly + 2 + 1) with (ly + 3) by lia. rewrite Hln1. apply is_shape_refl.
          - change (opcode_size Getmark) with 1. replace (ly + 2 + 1) with (ly + 3) by lia. apply wtc_one; [reflexivity|].
            apply (iok_const G (ly + 3) Forejump _ (KJ :: tau) Forejump eq_refl Hln1). cbn. change (opcode_size Forejump) with 1.
            replace (ly + 3 + 1) with (ly + 4) by lia. rewrite Hn4. apply is_shape_refl. }
        change (zlen [Getmark; Forejump]) with 2. replace (ly + 2 + 2) with (ly + 4) by lia. exact Wn.
    + intros pc s H. cbn [shf] in H. cbv zeta in H. fold lc in H. fold ay in H. fold ly in H. cbn [app].
      destruct (pc =? a) eqn:E1; [left; lia|]. right.
      destruct (pc =? a + 1) eqn:E2; [left; lia|]. right.
      destruct (pc =? a + 2) eqn:E3; [left; lia|]. right. apply in_or_app.
      destruct (pc <? lc) eqn:E4. { destruct (a + 4 <=? pc); [left; eapply Dc; exact H|discriminate H]. }
      right. destruct (pc =? lc) eqn:E5; [left; lia|]. right.
      destruct (pc =? lc + 1) eqn:E6; [left; lia|]. right. apply in_or_app.
      destruct (pc <? ly) eqn:E7; [left; eapply Dy; exact H|]. right.
      destruct (pc =? ly) eqn:E8; [left; lia|]. right.
      destruct (pc =? ly + 2) eqn:E9; [left; lia|]. right.
      destruct (pc =? ly + 3) eqn:E10; [left; lia|]. right. eapply Dn. exact H.
Qed.

Print Assumptions emit_typed.

(* ---------- from the judgment to the verifier ---------- *)
Section Link.
Variable p : program.
Variable G : Z -> option shape.

(* the shape table: G tabulated on the instruction boundaries *)
Definition sh_of : list (Z * shape) :=
  flat_map (fun co => match G (fst co) with Some t => [(fst co, t)] | None => [] end) (cp_dec (codes p)).

Lemma cp_dec_aux_tail f : forall pos code c op,
  In (c, op) (match cp_dec_aux f pos code with [] => [] | _ :: tl => tl end) -> pos < c.
Proof.
  destruct f as [|f]; intros pos code c op H; cbn [cp_dec_aux] in H; [contradiction|].
  destruct code as [|w code']; [contradiction|]. cbv zeta in H.
  destruct (opcode_size w <=? 0) eqn:E; [contradiction|]. apply cp_dec_aux_pos in H. lia.
Qed.

Lemma sh_get_flat_none pc (l : list (Z * Z)) : (forall c op, In (c, op) l -> pc < c) ->
  sh_get pc (flat_map (fun co => match G (fst co) with Some t => [(fst co, t)] | None => [] end) l) = None.
Proof.
  induction l as [|[c op] l IH]; intros H; cbn [flat_map]; [reflexivity|]. cbn [fst].
  pose proof (H c op (or_introl eq_refl)) as Hc.
  destruct (G c) as [t|]; cbn [app sh_get]; [replace (pc =? c) with false by lia|]; apply IH; intros c' op' Hin; apply (H c' op'); right; exact Hin.
Qed.

Lemma sh_get_dec f : forall pos code pc w, In (pc, w) (cp_dec_aux f pos code) ->
  sh_get pc (flat_map (fun co => match G (fst co) with Some t => [(fst co, t)] | None => [] end) (cp_dec_aux f pos code)) = G pc.
Proof.
  induction f as [|f IH]; intros pos code pc w H; cbn [cp_dec_aux] in H |- *; [contradiction|].
  destruct code as [|w0 code']; [contradiction|]. cbv zeta in H |- *.
  destruct (opcode_size w0 <=? 0) eqn:E; [contradiction|]. cbn [flat_map fst].
  destruct H as [H|H].
  - injection H as <- <-. destruct (G pos) as [t|] eqn:Eg; cbn [app sh_get].
    + rewrite Z.eqb_refl. reflexivity.
    + apply sh_get_flat_none. intros c op Hin. apply cp_dec_aux_pos in Hin. lia.
  - pose proof (cp_dec_aux_pos _ _ _ _ _ H) as Hp.
    destruct (G pos) as [t|]; cbn [app sh_get]; [replace (pc =? pos) with false by lia|]; eapply IH; exact H.
Qed.

Hypothesis Hdom : forall pc s, G pc = Some s -> exists w, instr_at p pc = Some w.

Lemma sh_at_of pc : sh_at p sh_of pc = G pc.
Proof.
  unfold sh_at. destruct (instr_at p pc) as [w|] eqn:E.
  - apply instr_at_bnd in E. destruct E as [E _]. unfold sh_of. unfold cp_boundary, cp_dec in *. eapply sh_get_dec. exact E.
  - destruct (G pc) as [s|] eqn:Eg; [|reflexivity]. destruct (Hdom pc s Eg) as [w Hw]. rewrite Hw in E. discriminate.
Qed.

Lemma instr_ok_of pc w : instr_ok p sh_of pc w = iokb G pc w (arg1 p pc).
Proof. unfold instr_ok, iokb. rewrite !sh_at_of. reflexivity. Qed.


Lemma arg1_at pre op x tl a : codes p = pre ++ op :: x :: tl -> zlen pre = a -> arg1 p a = x.
Proof.
  intros Hc Ha. unfold arg1, code_at, znth. rewrite Hc. pose proof (zlen_nonneg pre).
  replace (a + 1 <? 0) with false by lia. unfold zlen in *.
  rewrite nth_error_app2 by lia. replace (Z.to_nat (a + 1) - length pre)%nat with 1%nat by lia. reflexivity.
Qed.

Lemma wtc_dec : forall a code Sl, wtc G a code Sl -> forall pre fuel, codes p = pre ++ code -> zlen pre = a ->
  (length code <= fuel)%nat ->
  (forall c w, In (c, w) (cp_dec_aux fuel a code) -> iokb G c w (arg1 p c) = true) /\
  map fst (cp_dec_aux fuel a code) = Sl.
Proof.
  induction 1 as [a|a op args rest Sl Hsz Hok Hr IH]; intros pre fuel Hc Ha Hf.
  - destruct fuel; cbn [cp_dec_aux]; (split; [intros c w H; contradiction|reflexivity]).
  - destruct fuel as [|f]; [cbn [length] in Hf; lia|].
    cbn [cp_dec_aux]. cbv zeta. pose proof (zlen_nonneg args) as Hz.
    replace (opcode_size op <=? 0) with false by lia.
    assert (Hsk : skipn (Z.to_nat (opcode_size op)) (op :: args ++ rest) = rest).
    { rewrite Hsz. unfold zlen. replace (Z.to_nat (1 + Z.of_nat (length args))) with (S (length args)) by lia.
      cbn [skipn]. rewrite skipn_app, skipn_all, Nat.sub_diag. reflexivity. }
    rewrite Hsk. cbn [length] in Hf. rewrite app_length in Hf.
    destruct (IH (pre ++ op :: args) f) as [I1 I2].
    { rewrite Hc, <- app_assoc. reflexivity. }
    { rewrite zlen_app, zlen_cons. lia. }
    { lia. }
    split.
    + intros c w [H|H]; [|apply I1; exact H]. injection H as <- <-.
      destruct args as [|x args'].
      * rewrite (iokb_arg_irrel G a op _ (-1)); [exact Hok|]. rewrite Hsz. reflexivity.
      * rewrite (arg1_at pre op x (args' ++ rest) a Hc Ha). exact Hok.
    + cbn [map fst]. rewrite I2. reflexivity.
Qed.

Lemma wtc_program S : wtc G 0 (codes p) S ->
  (forall pc w, In (pc, w) (cp_dec (codes p)) -> iokb G pc w (arg1 p pc) = true) /\
  (forall pc, In pc S -> exists w, instr_at p pc = Some w).
Proof.
  intros W. destruct (wtc_dec 0 (codes p) S W [] (length (codes p)) eq_refl eq_refl (le_n _)) as [I1 I2].
  fold (cp_dec (codes p)) in I1, I2. split.
  - exact I1.
  - intros pc Hin. rewrite <- I2 in Hin. apply in_map_iff in Hin. destruct Hin as ([c w] & E & Hin). cbn [fst] in E. subst c.
    unfold instr_at. destruct (List.find (fun co => fst co =? pc) (cp_dec (codes p))) as [[c' w']|] eqn:Ef.
    + exists w'. reflexivity.
    + exfalso. pose proof (find_none _ _ Ef _ Hin) as Hn. cbn [fst] in Hn. lia.
Qed.

End Link.

(* ---------- the depth of the grouping stack is bounded by the number of counted instructions ---------- *)
Definition dep_opt (f : node -> Z) (no : option node) : Z := match no with Some x => f x | None => 0 end.

Fixpoint dep (c : wcfg) (t : node) : Z :=
  match t with
  | NConcat _ l | NAlternate _ l =>
      (fix go (l : list node) : Z := match l with [] => 0 | x :: l' => Z.max (dep c x) (go l') end) l
  | NLoop _ _ _ _ r => 2 + dep c r
  | NCapture _ g u r => if emit_capture c g u then 1 + dep c r else dep c r
  | NGroup r => dep c r
  | NPosLook _ r => 3 + dep c r
  | NNegLook _ r => 2 + dep c r
  | NAtomic r => 2 + dep c r
  | NBackRefCond _ _ yes no => Z.max 2 (Z.max (dep c yes) (dep_opt (dep c) no))
  | NExprCond _ cnd yes no => Z.max (3 + dep c cnd) (Z.max (dep c yes) (dep_opt (dep c) no))
  | _ => 0
  end.
Definition dep_list (c : wcfg) : list node -> Z :=
  fix go (l : list node) : Z := match l with [] => 0 | x :: l' => Z.max (dep c x) (go l') end.

Lemma dep_nonneg c : forall t, 0 <= dep c t.
Proof.
  induction t as [kd o ch|kd lk o ch m n|o str|o g|an| | | |o l HF|o l HF|lazy o m n r IHr|o g u r IHr
                 |r IHr|o r IHr|o r IHr|r IHr|o g yes no IHy IHn|o cnd yes no IHc IHy IHn]
    using node_ind'; cbn [dep]; try lia.
  - change (0 <= dep_list c l). induction HF as [|x l Hx HF IH]; cbn [dep_list]; lia.
  - change (0 <= dep_list c l). induction HF as [|x l Hx HF IH]; cbn [dep_list]; lia.
  - destruct (emit_capture c g u); lia.
Qed.

Lemma shf_depth c : forall t a tau pc s, shf c t a tau pc = Some s -> swords s <= swords tau + dep c t.
Proof.
  induction t as [kd o ch|kd lk o ch m n|o str|o g|an| | | |o l HF|o l HF|lazy o m n r IHr|o g u r IHr
                 |r IHr|o r IHr|o r IHr|r IHr|o g yes no IHy IHn|o cnd yes no IHc IHy IHn]
    using node_ind'; intros a tau pc s H; cbn [shf dep] in H |- *; unfold at_pc in H;
    try (destruct (pc =? a); [injection H as <-; lia|discriminate H]); try discriminate H.
  - ifs_in H; try discriminate H; injection H as <-; lia.
  - change (shf_seq c tau pc l a = Some s) in H. change (swords s <= swords tau + dep_list c l). revert a H.
    induction HF as [|x l Hx HF IH]; intros a H; cbn [shf_seq dep_list] in *; [discriminate H|].
    destruct (pc <? a + csize c x); [apply Hx in H; lia|apply IH in H; lia].
  - change (shf_alt c tau pc l a = Some s) in H. change (swords s <= swords tau + dep_list c l). revert a H.
    induction HF as [|x l Hx HF IH]; intros a H; [discriminate H|].
    destruct l as [|y l]; [cbn [shf_alt dep_list] in *; apply Hx in H; lia|].
    change (shf_alt c tau pc (x :: y :: l) a) with
      (if pc =? a then Some tau else if pc <? a + 2 + csize c x then shf c x (a + 2) tau pc
       else if pc =? a + 2 + csize c x then Some tau else shf_alt c tau pc (y :: l) (a + 2 + csize c x + 2)) in H.
    pose proof (dep_nonneg c x). assert (0 <= dep_list c (y :: l)).
    { clear. induction (y :: l) as [|z l' IHl]; cbn [dep_list]; [lia|]. pose proof (dep_nonneg c z). lia. }
    change (dep_list c (x :: y :: l)) with (Z.max (dep c x) (dep_list c (y :: l))).
    ifs_in H; try (injection H as <-); try (apply Hx in H); try (apply IH in H); lia.
  - cbv zeta in H. pose proof (dep_nonneg c r).
    destruct (counted m n); ifs_in H; try discriminate H; try (injection H as <-; cbn [swords kwords]; lia);
      apply IHr in H; cbn [swords kwords] in H; lia.
  - pose proof (dep_nonneg c r). destruct (emit_capture c g u); [|apply IHr in H; lia].
    ifs_in H; try discriminate H; try (injection H as <-; cbn [swords kwords]; lia); apply IHr in H; cbn [swords kwords] in H; lia.
  - apply IHr in H. lia.
  - pose proof (dep_nonneg c r).
    ifs_in H; try discriminate H; try (injection H as <-; cbn [swords kwords]; lia); apply IHr in H; cbn [swords kwords] in H; lia.
  - pose proof (dep_nonneg c r).
    ifs_in H; try discriminate H; try (injection H as <-; cbn [swords kwords]; lia); apply IHr in H; cbn [swords kwords] in H; lia.
  - pose proof (dep_nonneg c r).
    ifs_in H; try discriminate H; try (injection H as <-; cbn [swords kwords]; lia); apply IHr in H; cbn [swords kwords] in H; lia.
  - cbv zeta in H. pose proof (dep_nonneg c yes).
    destruct no as [x|]; cbn [opt_all dep_opt] in *; [pose proof (dep_nonneg c x)|];
      ifs_in H; try discriminate H; try (injection H as <-; cbn [swords kwords]; lia);
      try (apply IHy in H; lia); try (apply IHn in H; lia).
  - cbv zeta in H. pose proof (dep_nonneg c yes). pose proof (dep_nonneg c cnd).
    destruct no as [x|]; cbn [opt_all dep_opt] in *; [pose proof (dep_nonneg c x)|];
      ifs_in H; try discriminate H; try (injection H as <-; cbn [swords kwords]; lia);
      try (apply IHc in H; cbn [swords kwords] in H; lia); try (apply IHy in H; lia); try (apply IHn in H; lia).
Qed.

Definition cp_dgood (d : Z) (code : list Z) : Prop := exists tc w, cp_frag code tc w /\ d <= 2 * tc /\ 0 <= tc.
Ltac dfinish := unfold cp_dgood; do 2 eexists; split; [cp_build|split; lia].

Lemma cp_emit_dgood c : forall t a tbl, cp_dgood (dep c t) (fst (emit c t a tbl)).
Proof.
  induction t as [kd o ch|kd lk o ch m n|o str|o g|an| | | |o l HF|o l HF|lazy o m n r IHr|o g u r IHr
                 |r IHr|o r IHr|o r IHr|r IHr|o g yes no IHy IHn|o cnd yes no IHc IHy IHn]
    using node_ind'; intros a tbl.
  - cbn [emit fst dep]. destruct kd; cbn [char_op]; dfinish.
  - cbn [emit fst dep]. destruct kd, lk, (0 <? m), (m <? n); cbn [rep_op loop_op app]; dfinish.
  - cbn [emit dep]. destruct (string_code str tbl) as [i tbl']. cbn [fst]. dfinish.
  - cbn [emit fst dep]. dfinish.
  - cbn [emit fst dep]. destruct an; cbn [anchor_code]; dfinish.
  - cbn [emit fst dep]. dfinish.
  - cbn [emit fst dep]. dfinish.
  - cbn [emit fst dep]. dfinish.
  - (* NConcat *)
    rewrite wr_emit_concat_eq. change (dep c (NConcat o l)) with (dep_list c l). revert a tbl.
    induction HF as [|x l Hx HF IH]; intros a tbl; cbn [emit_seq dep_list].
    + cbn [fst]. dfinish.
    + destruct (Hx a tbl) as (t1 & w1 & F1 & L1 & N1). destruct (emit c x a tbl) as [cx tb1]. cbn [fst] in F1.
      destruct (IH (a + zlen cx) tb1) as (t2 & w2 & F2 & L2 & N2).
      destruct (emit_seq c l (a + zlen cx) tb1) as [cr tb2]. cbn [fst] in F2 |- *. dfinish.
  - (* NAlternate *)
    rewrite wr_emit_alternate_eq. change (dep c (NAlternate o l)) with (dep_list c l).
    generalize (a + csize c (NAlternate o l)) as lend. intros lend. revert a tbl.
    induction HF as [|x l Hx HF IH]; intros a tbl.
    + cbn [emit_alt fst dep_list]. dfinish.
    + destruct l as [|y l].
      * cbn [emit_alt dep_list]. destruct (Hx a tbl) as (t1 & w1 & F1 & L1 & N1). exists t1, w1. split; [exact F1|]. split; lia.
      * rewrite wr_emit_alt_cons2. change (dep_list c (x :: y :: l)) with (Z.max (dep c x) (dep_list c (y :: l))).
        destruct (Hx (a + 2) tbl) as (t1 & w1 & F1 & L1 & N1). destruct (emit c x (a + 2) tbl) as [cx tb1].
        cbn [fst] in F1. cbv zeta.
        destruct (IH (a + 2 + zlen cx + 2) tb1) as (t2 & w2 & F2 & L2 & N2).
        destruct (emit_alt c lend (y :: l) (a + 2 + zlen cx + 2) tb1) as [cr tb2]. cbn [fst] in F2 |- *.
        dfinish.
  - (* NLoop *)
    cbn [emit dep]. cbv zeta.
    match goal with |- context [emit c r ?x tbl] => destruct (IHr x tbl) as (t1 & w1 & F1 & L1 & N1);
                                                     destruct (emit c r x tbl) as [cr tb1] end.
    cbn [fst] in F1 |- *.
    destruct lazy, (counted m n), (m =? 0); cbn [app]; dfinish.
  - (* NCapture *)
    cbn [emit dep]. destruct (emit_capture c g u).
    + destruct (IHr (a + 1) tbl) as (t1 & w1 & F1 & L1 & N1). destruct (emit c r (a + 1) tbl) as [cr tb1].
      cbn [fst] in F1 |- *. dfinish.
    + apply IHr.
  - cbn [emit dep]. apply IHr.
  - cbn [emit dep]. destruct (IHr (a + 2) tbl) as (t1 & w1 & F1 & L1 & N1). destruct (emit c r (a + 2) tbl) as [cr tb1].
    cbn [fst] in F1 |- *. dfinish.
  - cbn [emit dep]. destruct (IHr (a + 3) tbl) as (t1 & w1 & F1 & L1 & N1). destruct (emit c r (a + 3) tbl) as [cr tb1].
    cbn [fst] in F1 |- *. dfinish.
  - cbn [emit dep]. destruct (IHr (a + 1) tbl) as (t1 & w1 & F1 & L1 & N1). destruct (emit c r (a + 1) tbl) as [cr tb1].
    cbn [fst] in F1 |- *. dfinish.
  - (* NBackRefCond *)
    cbn [emit dep]. destruct (IHy (a + 6) tbl) as (t1 & w1 & F1 & L1 & N1). destruct (emit c yes (a + 6) tbl) as [cy tb1].
    cbn [fst] in F1. cbv zeta.
    destruct no as [x|]; cbn [opt_all dep_opt] in *.
    + match goal with |- context [emit c x ?q tb1] => destruct (IHn q tb1) as (t2 & w2 & F2 & L2 & N2);
                                                       destruct (emit c x q tb1) as [cn tb2] end.
      cbn [fst] in F2 |- *. dfinish.
    + cbn [fst]. dfinish.
  - (* NExprCond *)
    cbn [emit dep]. destruct (IHc (a + 4) tbl) as (t0 & w0 & F0 & L0 & N0). destruct (emit c cnd (a + 4) tbl) as [cc tb0].
    cbn [fst] in F0. cbv zeta.
    match goal with |- context [emit c yes ?q tb0] => destruct (IHy q tb0) as (t1 & w1 & F1 & L1 & N1);
                                                      destruct (emit c yes q tb0) as [cy tb1] end.
    cbn [fst] in F1.
    destruct no as [x|]; cbn [opt_all dep_opt] in *.
    + match goal with |- context [emit c x ?q tb1] => destruct (IHn q tb1) as (t2 & w2 & F2 & L2 & N2);
                                                       destruct (emit c x q tb1) as [cn tb2] end.
      cbn [fst] in F2 |- *. dfinish.
    + cbn [fst]. dfinish.
Qed.

(* ---------- every program the writer emits is accepted by the verifier ---------- *)
Theorem compiled_tyck c root p :
  codes p = fst (compile c root) -> track_count (codes p) <= trackcount p ->
  exists sh, tyck p sh = true.
Proof.
  intros Hcodes Htk. unfold compile in Hcodes.
  pose proof (emit_length c root 2 []) as Lr. pose proof (csize_nonneg c root) as Hr0.
  destruct (cp_emit_dgood c root 2 []) as (t1 & w1 & F1 & D1 & N1).
  remember (2 + csize c root) as L eqn:EL.
  set (G := fun pc => if pc =? 0 then Some [] else if pc =? L then Some []
                      else if (2 <=? pc) && (pc <? L) then shf c root 2 [] pc else None).
  assert (Har : agree G (shf c root 2 []) 2 (2 + csize c root)).
  { intros pc Hpc. unfold G. shev. reflexivity. }
  assert (HL : G L = Some []) by (unfold G; shev; reflexivity).
  assert (H0 : G 0 = Some []) by reflexivity.
  assert (Hcases : forall pc s, G pc = Some s -> (s = [] /\ (pc = 0 \/ pc = L)) \/ shf c root 2 [] pc = Some s).
  { intros pc s H. unfold G in H. destruct (pc =? 0) eqn:E0; [left; injection H as <-; split; [reflexivity|lia]|].
    destruct (pc =? L) eqn:E1; [left; injection H as <-; split; [reflexivity|lia]|].
    destruct ((2 <=? pc) && (pc <? L)); [right; exact H|discriminate H]. }
  clearbody G.
  assert (HL' : G (2 + csize c root) = Some []) by (rewrite <- EL; exact HL).
  destruct (emit_typed c root 2 [] [] G Har HL') as (Sr & Wr & Dr).
  destruct (emit c root 2 []) as [cr tbl] eqn:Er. cbn [fst] in *. rewrite Lr in Hcodes. rewrite <- EL in Hcodes.
  assert (W : wtc G 0 (codes p) ([0] ++ Sr ++ [L])).
  { rewrite Hcodes. apply (wtc_app G 0 [Lazybranch; L] [0]).
    - apply wtc_one; [reflexivity|]. apply (iok_const G 0 Lazybranch _ [] Lazybranch eq_refl H0). cbn.
      change (opcode_size Lazybranch) with 2. change (0 + 2) with 2.
      rewrite (entryG c root 2 [] G Har HL'), HL. reflexivity.
    - change (zlen [Lazybranch; L]) with 2. change (0 + 2) with 2. apply (wtc_app G 2 cr Sr Wr). rewrite Lr, <- EL.
      apply wtc_one; [reflexivity|]. apply (iok_const G L Stop _ [] Stop eq_refl HL). reflexivity. }
  destruct (wtc_program p G _ W) as [I1 I2].
  assert (Hdom : forall pc s, G pc = Some s -> exists w, instr_at p pc = Some w).
  { intros pc s H. apply I2. cbn [app]. destruct (Hcases pc s H) as [[_ [E|E]]|E].
    - left. lia.
    - right. apply in_or_app. right. left. lia.
    - right. apply in_or_app. left. eapply Dr. exact E. }
  exists (sh_of p G). unfold tyck.
  (* the opcodes at 0 and at L *)
  assert (Hc0 : code_at p 0 = Some Lazybranch) by (unfold code_at; rewrite Hcodes; reflexivity).
  assert (Ha1 : arg1 p 0 = L) by (apply (arg1_at p [] Lazybranch L (cr ++ [Stop]) 0); [exact Hcodes|reflexivity]).
  assert (HcL : code_at p L = Some Stop).
  { unfold code_at, znth. rewrite Hcodes. replace (L <? 0) with false by lia.
    change ([Lazybranch; L] ++ cr ++ [Stop]) with (Lazybranch :: L :: cr ++ [Stop]).
    replace (Z.to_nat L) with (S (S (length cr))) by (unfold zlen in Lr; lia).
    cbn [nth_error]. rewrite nth_error_app2 by lia. rewrite Nat.sub_diag. reflexivity. }
  assert (Hi0 : instr_at p 0 = Some Lazybranch).
  { destruct (I2 0 ltac:(cbn [app]; left; reflexivity)) as [w Hw]. pose proof (instr_at_bnd p 0 w Hw) as [_ Hcw]. congruence. }
  assert (HiL : instr_at p L = Some Stop).
  { destruct (I2 L ltac:(cbn [app]; right; apply in_or_app; right; left; reflexivity)) as [w Hw].
    pose proof (instr_at_bnd p L w Hw) as [_ Hcw]. congruence. }
  apply andb_true_intro. split; [apply andb_true_intro; split; [apply andb_true_intro; split|]|].
  - apply forallb_forall. intros [pc w] Hin. cbn [fst snd]. rewrite (instr_ok_of p G Hdom). apply I1. exact Hin.
  - rewrite Hi0, Ha1, HiL. reflexivity.
  - rewrite (sh_at_of p G Hdom), H0. reflexivity.
  - apply forallb_forall. intros [pc s] Hin. cbn [snd].
    unfold sh_of in Hin. apply in_flat_map in Hin. destruct Hin as ([c0 w0] & _ & Hin). cbn [fst] in Hin.
    destruct (G c0) as [s0|] eqn:Eg; [|contradiction]. destruct Hin as [Hin|[]]. injection Hin as <- <-.
    (* TrackCount of the whole program *)
    assert (Ftot : cp_frag (codes p) (1 + (t1 + 0)) (4 + (w1 + 0))).
    { rewrite Hcodes. change ([Lazybranch; L] ++ cr ++ [Stop]) with (Lazybranch :: L :: cr ++ [Stop]).
      apply (cp_frag_i1 Lazybranch L (cr ++ [Stop]) 1 4); [reflexivity|reflexivity|reflexivity|].
      apply (cp_frag_app cr t1 w1 F1). apply (cp_frag_i0 Stop [] 0 0 0 0); [reflexivity|reflexivity|reflexivity|apply cp_frag_nil]. }
    apply cp_frag_totals in Ftot. destruct Ftot as [_ Htc].
    assert (Hs : swords s0 <= dep c root).
    { destruct (Hcases c0 s0 Eg) as [[-> _]|E]; [cbn [swords]; apply dep_nonneg|].
      apply shf_depth in E. cbn [swords] in E. lia. }
    unfold sinit, G_stacksize_mul, G_stacksize_min. lia.
Qed.

Print Assumptions compiled_tyck.
