(* compile_correct with balancing captures, part 1: the constructor set [supported2] (= CompileDefs.supported
   without the restriction u = -1 on captures), the slot side condition [groups_ok2], and the per-node proof
   obligation [ok_node2] (= CompileDefs.ok_node over [caps_rel2] / [leadsg2]).
   Writer configuration: cfg0 (identity slot map, full code); other configurations are reduced to it by
   tree transformations (Proofs/CompileCapmap.v, Proofs/CompileQuick.v). *)
From Verif Require Import Base.Prelude Model.Tree Model.Spec Model.VM Model.Writer Gen.RunnerGen
  Proofs.SpecProofs Proofs.SpecBoundsProofs Proofs.MaskProofs
  Proofs.VMU Proofs.VMUOps Proofs.VMUOps2 Proofs.VMUOps6 Proofs.VMUOps3 Proofs.CompileBase Proofs.CompileDefs
  Proofs.CompileBalDen Proofs.CompileBalBase.
From Coq Require Import Relations ZifyBool.

(* ---------- the constructor set covered: every constructor, balancing captures included ---------- *)
Fixpoint supported2 (t : node) : bool :=
  match t with
  | NChar _ _ _ | NAnchor _ | NNothing | NEmpty | NBump => true
  | NCharLoop _ _ _ _ m n => (0 <=? m) && (m <=? n) && (n <=? INF)
  | NMulti _ _ | NRef _ _ => true
  | NConcat _ l => (fix go (l : list node) : bool := match l with [] => true | x :: l' => supported2 x && go l' end) l
  | NAlternate _ l =>
      match l with [] => false | _ => true end &&
      (fix go (l : list node) : bool := match l with [] => true | x :: l' => supported2 x && go l' end) l
  | NCapture _ g u r => supported2 r
  | NGroup r | NAtomic r | NPosLook _ r | NNegLook _ r => supported2 r
  | NLoop _ _ m n r => (0 <=? m) && (n <=? INF) && supported2 r
  | NBackRefCond _ _ yes no => supported2 yes && match no with Some x => supported2 x | None => true end
  | NExprCond _ c yes no => supported2 c && supported2 yes && match no with Some x => supported2 x | None => true end
  end.

Definition supported2_list (l : list node) : bool :=
  (fix go (l : list node) : bool := match l with [] => true | x :: l' => supported2 x && go l' end) l.

(* every group number used is a slot of the program.  Balancing capture (?<g-u>...): the popped group u is a
   slot; the pushed group g is a slot or absent (g = -1, the form (?<-u>...)). *)
Definition grp_ok_node2 (cs : Z) (t : node) : Prop :=
  match t with
  | NCapture _ g u _ => if u =? -1 then 0 <= g < cs else 0 <= u < cs /\ (g = -1 \/ 0 <= g < cs)
  | NRef _ g => 0 <= g < cs
  | NBackRefCond _ g _ _ => 0 <= g < cs
  | _ => True
  end.
Definition groups_ok2 (cs : Z) (t : node) : Prop := sb_all (grp_ok_node2 cs) t.

(* ---------- properties of [supported2] / [groups_ok2] ---------- *)
Lemma c2_supported_list_forall l : supported2_list l = true -> Forall (fun t => supported2 t = true) l.
Proof.
  induction l as [|x l IH]; cbn [supported2_list]; intros H; [constructor|].
  apply andb_prop in H. destruct H as [Hx Hl]. constructor; [exact Hx|apply IH; exact Hl].
Qed.

Lemma c2_groups_list cs l : sb_all_list (grp_ok_node2 cs) l -> Forall (groups_ok2 cs) l.
Proof.
  induction l as [|x l IH]; intros H; [constructor|]. destruct H as [Hx Hl]. constructor; [exact Hx|apply IH; exact Hl].
Qed.

Lemma c2_supported_min_ok : forall t, supported2 t = true -> loops_min_ok t.
Proof.
  unfold loops_min_ok.
  induction t using node_ind'; intros Hs; cbn [supported2] in Hs; try discriminate Hs;
    cbn [sb_all sb_min_ok]; try (split; exact I); try (split; [lia|exact I]).
  - split; [exact I|]. change (supported2_list l = true) in Hs. apply c2_supported_list_forall in Hs.
    induction H as [|x l Hx Hl IH]; [exact I|]. inversion Hs; subst. split; [apply Hx; assumption|apply IH; assumption].
  - split; [exact I|]. apply andb_prop in Hs. destruct Hs as [_ Hs].
    change (supported2_list l = true) in Hs. apply c2_supported_list_forall in Hs.
    induction H as [|x l Hx Hl IH]; [exact I|]. inversion Hs; subst. split; [apply Hx; assumption|apply IH; assumption].
  - apply andb_prop in Hs. destruct Hs as [_ Hs]. split; [exact I|apply IHt; exact Hs].
  - split; [exact I|apply IHt; exact Hs].
  - split; [exact I|apply IHt; exact Hs].
  - split; [exact I|apply IHt; exact Hs].
  - split; [exact I|apply IHt; exact Hs].
  - split; [exact I|apply IHt; exact Hs].
  - apply andb_prop in Hs. destruct Hs as [Hy Hn]. split; [exact I|]. split; [apply IHt; exact Hy|].
    destruct no as [x|]; [apply H; exact Hn|exact I].
  - apply andb_prop in Hs. destruct Hs as [Hs Hn]. apply andb_prop in Hs. destruct Hs as [Hc Hy].
    split; [exact I|]. split; [apply IHt1; exact Hc|]. split; [apply IHt2; exact Hy|].
    destruct no as [x|]; [apply H; exact Hn|exact I].
Qed.

Section CC.
Variable e : env.
Variable p : program.
Hypothesis tc_nonneg : 0 <= trackcount p.

Notation rsteps := (VMUOps2.rsteps e p).
Notation leadsg2 := (CompileBalBase.leadsg2 e p).
Notation has_code := (CompileBase.has_code p).
Notation track_ok := (CompileBase.track_ok p).
Notation caps_rel2 := (CompileBalDen.caps_rel2 p).
Notation code_ex := (CompileDefs.code_ex p).
Notation tbl_ok := (CompileDefs.tbl_ok p).

(* what has to be shown for one node at one fuel level *)
Definition ok_node2 (f : nat) (t : node) : Prop :=
  forall s res, sem e f t s = Ok res -> st_ok e s ->
  forall a tbl T S C M, has_code a (fst (emit cfg0 t a tbl)) -> code_ex (a + csize cfg0 t) ->
    track_ok T -> caps_rel2 (caps s) M -> tbl_ok (snd (emit cfg0 t a tbl)) ->
    leadsg2 (a + csize cfg0 t) T S S C M (mkr a 0 (pos s) T S C M) res.

Definition ok_at2 (f : nat) : Prop :=
  forall t, supported2 t = true -> groups_ok2 (capsize p) t -> ok_node2 f t.

(* ---------- results stay inside the text ---------- *)
Lemma c2_res_ok f t s res : supported2 t = true -> sem e f t s = Ok res -> st_ok e s -> Forall (st_ok e) res.
Proof. intros Hs H Hst. eapply sb_sem_in_bounds; [apply c2_supported_min_ok; exact Hs|exact H|exact Hst]. Qed.

Lemma c2_res_ok_in f t s res q : supported2 t = true -> sem e f t s = Ok res -> st_ok e s -> In q res -> st_ok e q.
Proof. intros Hs H Hst Hin. pose proof (c2_res_ok f t s res Hs H Hst) as F. rewrite Forall_forall in F. apply F. exact Hin. Qed.

End CC.
