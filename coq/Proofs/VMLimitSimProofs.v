(* C13 — the limit is invisible except through ErrBacktrackingStackLimit: a lock-step simulation
   between the interpreter run with limit L and the interpreter run with a larger (or no) limit L'.

   States are related by [simrel L]: every field equal except the allocated track length [tcap],
   and  tcap1 = tcap2  \/  (tcap1 = L  /\  L <= tcap2)   (the smaller limit has capped the growth).
   Results are related by [res_rel]: the limited side may additionally stop with
   Err E_StackLimit or with Crash C_track (a push beyond the allocated length); otherwise both
   sides produce related outcomes (same result, same error, same crash, same fuel exhaustion). *)
From Verif Require Import Base.Prelude Model.Tree Model.Spec Model.VM Gen.RunnerGen Proofs.VMLimitProofs.
From Coq Require Import ZifyBool.

Definition eqv (s1 s2 : vm) : Prop :=
  pc s1 = pc s2 /\ mode s1 = mode s2 /\ tp s1 = tp s2 /\ track s1 = track s2 /\
  stack s1 = stack s2 /\ scap s1 = scap s2 /\ crawl s1 = crawl s2 /\ mcaps s1 = mcaps s2.

(* L' is at least as permissive as L (a negative limit means "no limit") *)
Definition lim_le (L L' : Z) : Prop := L' < 0 \/ (0 <= L /\ L <= L').

Definition simrel (L : Z) (s1 s2 : vm) : Prop :=
  eqv s1 s2 /\ (tcap s1 = tcap s2 \/ (0 <= L /\ tcap s1 = L /\ L <= tcap s2)).

Definition res_rel {A} (R : A -> A -> Prop) (r1 r2 : res A) : Prop :=
  r1 = Err E_StackLimit \/ r1 = Crash C_track \/
  match r1, r2 with
  | Ok a, Ok b => R a b
  | Err c, Err c' => c = c'
  | Crash w, Crash w' => w = w'
  | Fuel, Fuel => True
  | _, _ => False
  end.

Definition out_rel (L : Z) (o1 o2 : outcome) : Prop :=
  match o1, o2 with
  | Next a, Next b => simrel L a b
  | Done a, Done b => simrel L a b
  | Fail c, Fail c' => c = c'
  | Crashed w, Crashed w' => w = w'
  | _, _ => False
  end.

Lemma eqv_refl s : eqv s s.
Proof. unfold eqv. repeat split. Qed.

Lemma res_rel_ok {A} (R : A -> A -> Prop) a b : R a b -> res_rel R (Ok a) (Ok b).
Proof. intros H. right. right. exact H. Qed.
Lemma res_rel_crash {A} (R : A -> A -> Prop) w : res_rel R (Crash w) (Crash w).
Proof. right. right. reflexivity. Qed.
Lemma res_rel_err {A} (R : A -> A -> Prop) c : res_rel R (Err c) (Err c).
Proof. right. right. reflexivity. Qed.
Lemma res_rel_fuel {A} (R : A -> A -> Prop) : res_rel R Fuel Fuel.
Proof. right. right. exact I. Qed.
Lemma res_rel_limit {A} (R : A -> A -> Prop) r : res_rel R (Err E_StackLimit) r.
Proof. left. reflexivity. Qed.
Lemma res_rel_ctrack {A} (R : A -> A -> Prop) r : res_rel R (Crash C_track) r.
Proof. right. left. reflexivity. Qed.

Lemma res_rel_bind {A B} (R : A -> A -> Prop) (Q : B -> B -> Prop) r1 r2 k1 k2 :
  res_rel R r1 r2 -> (forall a b, R a b -> res_rel Q (k1 a) (k2 b)) ->
  res_rel Q (bind r1 k1) (bind r2 k2).
Proof.
  intros [->| [->|H]] K.
  - left. reflexivity.
  - right. left. reflexivity.
  - destruct r1, r2; cbn [bind]; try contradiction.
    + apply K. exact H.
    + subst. apply res_rel_err.
    + subst. apply res_rel_crash.
    + apply res_rel_fuel.
Qed.

(* the successful side determines the other *)
Lemma res_rel_ok_inv {A} (R : A -> A -> Prop) a r2 :
  res_rel R (Ok a) r2 -> exists b, r2 = Ok b /\ R a b.
Proof.
  intros [H|[H|H]]; try discriminate. destruct r2; try contradiction. eexists. split; [reflexivity|exact H].
Qed.

(* the same relation without the "push beyond the allocated stack" alternative: what the
   capacity-free parts of the interpreter (ensureStorage, goTo, advance, backtrack) satisfy, and what
   the whole step satisfies once the capacity invariant is known (Proofs/VMCapacityProofs.v) *)
Definition res_rel0 {A} (R : A -> A -> Prop) (r1 r2 : res A) : Prop :=
  r1 = Err E_StackLimit \/
  match r1, r2 with
  | Ok a, Ok b => R a b
  | Err c, Err c' => c = c'
  | Crash w, Crash w' => w = w'
  | Fuel, Fuel => True
  | _, _ => False
  end.

Lemma res_rel0_weaken {A} (R : A -> A -> Prop) r1 r2 : res_rel0 R r1 r2 -> res_rel R r1 r2.
Proof. intros [H|H]; [left; exact H|right; right; exact H]. Qed.
Lemma res_rel0_ok {A} (R : A -> A -> Prop) a b : R a b -> res_rel0 R (Ok a) (Ok b).
Proof. intros H. right. exact H. Qed.
Lemma res_rel0_crash {A} (R : A -> A -> Prop) w : res_rel0 R (Crash w) (Crash w).
Proof. right. reflexivity. Qed.
Lemma res_rel0_err {A} (R : A -> A -> Prop) c : res_rel0 R (Err c) (Err c).
Proof. right. reflexivity. Qed.
Lemma res_rel0_fuel {A} (R : A -> A -> Prop) : res_rel0 R Fuel Fuel.
Proof. right. exact I. Qed.
Lemma res_rel0_limit {A} (R : A -> A -> Prop) r : res_rel0 R (Err E_StackLimit) r.
Proof. left. reflexivity. Qed.

Lemma res_rel0_bind {A B} (R : A -> A -> Prop) (Q : B -> B -> Prop) r1 r2 k1 k2 :
  res_rel0 R r1 r2 -> (forall a b, R a b -> res_rel0 Q (k1 a) (k2 b)) ->
  res_rel0 Q (bind r1 k1) (bind r2 k2).
Proof.
  intros [->|H] K.
  - left. reflexivity.
  - destruct r1, r2; cbn [bind]; try contradiction.
    + apply K. exact H.
    + subst. apply res_rel0_err.
    + subst. apply res_rel0_crash.
    + apply res_rel0_fuel.
Qed.

Lemma res_rel0_ok_inv {A} (R : A -> A -> Prop) a r2 :
  res_rel0 R (Ok a) r2 -> exists b, r2 = Ok b /\ R a b.
Proof.
  intros [H|H]; try discriminate. destruct r2; try contradiction. eexists. split; [reflexivity|exact H].
Qed.

(* uncapture_to only touches crawl / mcaps: a state-free version *)
Fixpoint unc_pure (fuel : nat) (cr : list Z) (m : list (list Z)) (target : Z) : res (list Z * list (list Z)) :=
  match fuel with
  | O => Fuel
  | S f => if zlen cr =? target then Ok (cr, m)
           else match cr with
                | [] => Crash C_crawl
                | c :: cr' => match remove_match c m with
                              | None => Crash C_cap
                              | Some m' => unc_pure f cr' m' target
                              end
                end
  end.

Lemma uncapture_to_pure f : forall s t,
  uncapture_to f s t =
  bind (unc_pure f (crawl s) (mcaps s) t) (fun cm => Ok (set_caps s (fst cm) (snd cm))).
Proof.
  induction f as [|f IH]; intros s t; cbn [uncapture_to unc_pure]; [reflexivity|].
  destruct (zlen (crawl s) =? t).
  - cbn [bind fst snd]. destruct s; reflexivity.
  - unfold uncapture. destruct (crawl s) as [|c cr] eqn:Ec; [reflexivity|].
    destruct (remove_match c (mcaps s)) as [m'|]; [|reflexivity].
    cbn [bind]. rewrite IH. vm_cbn. reflexivity.
Qed.

Section Sim.
Variable e : env.
Variable p : program.
Variable L L' : Z.
Hypothesis HL : lim_le L L'.

Lemma sim_init t : simrel L (init_vm p L t) (init_vm p L' t).
Proof.
  unfold simrel, eqv, init_vm, lim_le in *. vm_cbn.
  repeat split.
  set (ts0 := Z.max (trackcount p * G_tracksize_mul) G_tracksize_min).
  destruct ((0 <=? L) && (L <? ts0)) eqn:E1; destruct ((0 <=? L') && (L' <? ts0)) eqn:E2; lia.
Qed.

Lemma sim_ensure s1 s2 :
  simrel L s1 s2 -> res_rel0 (simrel L) (ensure_storage p L s1) (ensure_storage p L' s2).
Proof.
  destruct s1 as [pc1 md1 tp1 tr1 tc1 st1 sc1 cr1 mc1].
  destruct s2 as [pc2 md2 tp2 tr2 tc2 st2 sc2 cr2 mc2].
  unfold simrel, eqv. vm_cbn. intros [(-> & -> & -> & -> & -> & -> & -> & ->) HR].
  unfold ensure_storage. set (need := trackcount p * G_ensure_factor). vm_cbn.
  unfold lim_le in HL.
  pose proof (vml_zlen_nonneg tr2) as Hz.
  destruct (sc2 - zlen st2 <? need) eqn:Es; vm_cbn.
  all: destruct (tc1 - zlen tr2 <? need) eqn:E1; destruct (tc2 - zlen tr2 <? need) eqn:E2.
  all: repeat match goal with
              | |- context [if ?b then _ else _] =>
                  lazymatch b with
                  | context [if _ then _ else _] => fail
                  | _ => destruct b eqn:?
                  end
              end.
  all: first [ apply res_rel0_limit
             | apply res_rel0_ok; unfold simrel, eqv; vm_cbn; repeat split; lia
             | exfalso; lia ].
Qed.

Lemma sim_goto s1 s2 a :
  simrel L s1 s2 -> res_rel0 (out_rel L) (cont (goto p L s1 a)) (cont (goto p L' s2 a)).
Proof.
  intros HR. unfold cont, goto.
  assert (Hpc : pc s1 = pc s2) by (destruct HR as [HE _]; unfold eqv in HE; tauto).
  rewrite <- Hpc.
  apply res_rel0_bind with (R := simrel L); [|intros x y Hxy; apply res_rel0_ok; exact Hxy].
  apply res_rel0_bind with (R := simrel L).
  - destruct (a <=? pc s1); [apply sim_ensure; exact HR|apply res_rel0_ok; exact HR].
  - intros x y [HE HT]. destruct (code_at p a); [|apply res_rel0_crash].
    apply res_rel0_ok. unfold simrel, eqv in *. vm_cbn. tauto.
Qed.

Lemma sim_adv s1 s2 i :
  simrel L s1 s2 -> res_rel0 (out_rel L) (cont (advance p s1 i)) (cont (advance p s2 i)).
Proof.
  intros HR. unfold cont, advance.
  assert (Hpc : pc s1 = pc s2) by (destruct HR as [HE _]; unfold eqv in HE; tauto).
  rewrite <- Hpc.
  apply res_rel0_bind with (R := simrel L); [|intros x y Hxy; apply res_rel0_ok; exact Hxy].
  destruct (code_at p (pc s1 + i + 1)); [|apply res_rel0_crash].
  apply res_rel0_ok. unfold simrel, eqv in *. vm_cbn. tauto.
Qed.

Lemma sim_brk s1 s2 :
  simrel L s1 s2 -> res_rel0 (out_rel L) (brk p L s1) (brk p L' s2).
Proof.
  intros HR. unfold brk.
  apply res_rel0_bind with (R := simrel L); [|intros x y Hxy; apply res_rel0_ok; exact Hxy].
  unfold backtrack.
  destruct HR as [HE HT]. unfold eqv in HE. destruct HE as (Hpc & Hmd & Htp & Htr & Hst & Hsc & Hcr & Hmc).
  rewrite <- Htr, <- Hpc.
  destruct (track s1) as [|np t] eqn:Et; [apply res_rel0_crash|].
  destruct (if np <? 0 then (- np, Back2Bit) else (np, BackBit)) as [newpos m].
  destruct (code_at p newpos); [|apply res_rel0_crash].
  apply res_rel0_bind with (R := simrel L).
  - assert (HR1 : simrel L (set_track s1 t) (set_track s2 t)).
    { unfold simrel, eqv. vm_cbn. tauto. }
    destruct (newpos <? pc s1); [apply sim_ensure; exact HR1|apply res_rel0_ok; exact HR1].
  - intros x y [HE' HT']. apply res_rel0_ok. unfold simrel, eqv in *. vm_cbn. tauto.
Qed.

Ltac vm_cbv :=
  cbv beta iota zeta delta
      [pc mode tp track tcap stack scap crawl mcaps
       set_pc set_tp set_track set_stack set_caps set_tcap set_scap bind].

(* destruct the innermost scrutinee of a match / bind of the goal *)
Ltac sim_case :=
  match goal with
  | |- context [match ?x with _ => _ end] =>
      lazymatch x with
      | context [match _ with _ => _ end] => fail
      | context [bind _ _] => fail
      | _ => destruct x eqn:?
      end
  | |- context [bind ?x _] =>
      lazymatch x with
      | context [match _ with _ => _ end] => fail
      | context [bind _ _] => fail
      | _ => destruct x eqn:?
      end
  end.

Ltac sim_states HT :=
  unfold simrel, eqv; vm_cbv; repeat split; exact HT.

Ltac sim_leaf HT :=
  repeat match goal with H : context [Z.land _ _] |- _ => clear H end;
  first
    [ apply res_rel_crash
    | apply res_rel_ctrack
    | apply res_rel_fuel
    | apply res_rel_err
    | apply res_rel0_weaken, sim_adv; sim_states HT
    | apply res_rel0_weaken, sim_goto; sim_states HT
    | apply res_rel0_weaken, sim_brk; sim_states HT
    | apply res_rel_ok; cbn [out_rel]; sim_states HT
    | exfalso; lia ].

Lemma step_sim s1 s2 :
  simrel L s1 s2 -> res_rel (out_rel L) (step e p L s1) (step e p L' s2).
Proof.
  destruct s1 as [pc1 md1 tp1 tr1 tc1 st1 sc1 cr1 mc1].
  destruct s2 as [pc2 md2 tp2 tr2 tc2 st2 sc2 cr2 mc2].
  unfold simrel, eqv. vm_cbn. intros [(-> & -> & -> & -> & -> & -> & -> & ->) HT].
  unfold step. unfold tpush, spush, opnd, trackto, uncapture, do_capture, do_transfer, fwdchars.
  repeat (vm_cbv; rewrite ?uncapture_to_pure; vm_cbv; sim_case).
  all: vm_cbv.
  all: sim_leaf HT.
Qed.

Definition pair_rel (r1 r2 : vm * bool) : Prop := simrel L (fst r1) (fst r2) /\ snd r1 = snd r2.

Lemma run_steps_sim k : forall s1 s2,
  simrel L s1 s2 -> res_rel pair_rel (run_steps e p L k s1) (run_steps e p L' k s2).
Proof.
  induction k as [|k IH]; intros s1 s2 HR; cbn [run_steps].
  - apply res_rel_ok. split; [exact HR|reflexivity].
  - destruct (step_sim s1 s2 HR) as [E|[E|E]].
    + rewrite E. apply res_rel_limit.
    + rewrite E. apply res_rel_ctrack.
    + destruct (step e p L s1) as [o1|c1|w1|], (step e p L' s2) as [o2|c2|w2|]; try contradiction.
      * destruct o1 as [a|a|c|w], o2 as [b|b|c'|w']; cbn [out_rel] in E; try contradiction.
        -- apply IH. exact E.
        -- apply res_rel_ok. split; [exact E|reflexivity].
        -- subst. apply res_rel_err.
        -- subst. apply res_rel_crash.
      * subst. apply res_rel_err.
      * subst. apply res_rel_crash.
      * apply res_rel_fuel.
Qed.

Lemma run_sim fuel : forall s1 s2,
  simrel L s1 s2 -> res_rel (simrel L) (run e p L fuel s1) (run e p L' fuel s2).
Proof.
  induction fuel as [|f IH]; intros s1 s2 HR; cbn [run]; [apply res_rel_fuel|].
  apply res_rel_bind with (R := pair_rel); [apply run_steps_sim; exact HR|].
  intros [a b1] [b b2] [H1 H2]. cbn [fst snd] in *. subst b2.
  destruct b1; [apply res_rel_ok; exact H1|apply IH; exact H1].
Qed.

Definition opt_rel (R : vm -> vm -> Prop) (o1 o2 : option vm) : Prop :=
  match o1, o2 with
  | None, None => True
  | Some a, Some b => R a b
  | _, _ => False
  end.

Lemma cont_rel_inv r1 r2 :
  res_rel (out_rel L) (cont r1) (cont r2) -> res_rel (simrel L) r1 r2.
Proof.
  unfold cont. intros H. destruct r1 as [a|c|w|]; cbn [bind] in H.
  - destruct H as [H|[H|H]]; try discriminate.
    destruct r2; cbn [bind] in H; try contradiction. right. right. exact H.
  - destruct H as [H|[H|H]]; try discriminate.
    + injection H as ->. apply res_rel_limit.
    + destruct r2; cbn [bind] in H; try contradiction. subst. apply res_rel_err.
  - destruct H as [H|[H|H]]; try discriminate.
    + injection H as ->. apply res_rel_ctrack.
    + destruct r2; cbn [bind] in H; try contradiction. subst. apply res_rel_crash.
  - destruct H as [H|[H|H]]; try discriminate.
    destruct r2; cbn [bind] in H; try contradiction. apply res_rel_fuel.
Qed.

Lemma goto_sim s1 s2 a : simrel L s1 s2 -> res_rel (simrel L) (goto p L s1 a) (goto p L' s2 a).
Proof. intros HR. apply cont_rel_inv. apply res_rel0_weaken, sim_goto. exact HR. Qed.

Lemma exec_at_sim fuel t :
  res_rel (simrel L) (exec_at e p L fuel t) (exec_at e p L' fuel t).
Proof.
  unfold exec_at. apply res_rel_bind with (R := simrel L); [|intros a b H; apply run_sim; exact H].
  apply goto_sim. apply sim_init.
Qed.

Lemma scan_sim fuel n : forall rtl s1 s2 t,
  simrel L s1 s2 ->
  res_rel (opt_rel (simrel L)) (vm_scan_from e p L fuel n rtl s1 t) (vm_scan_from e p L' fuel n rtl s2 t).
Proof.
  induction n as [|n IH]; intros rtl s1 s2 t HR; cbn [vm_scan_from].
  - apply res_rel_ok. exact I.
  - apply res_rel_bind with (R := simrel L).
    { apply goto_sim. destruct HR as [HE HT]. unfold eqv in HE.
      unfold simrel, eqv. vm_cbn. repeat split; try tauto. }
    intros a b Hab.
    apply res_rel_bind with (R := simrel L); [apply run_sim; exact Hab|].
    intros a2 b2 H2.
    assert (Hm : matched0 a2 = matched0 b2).
    { unfold matched0. destruct H2 as [HE _]. unfold eqv in HE.
      replace (mcaps b2) with (mcaps a2) by tauto. reflexivity. }
    rewrite <- Hm. destruct (matched0 a2); [apply res_rel_ok; exact H2|].
    destruct (if rtl then t <=? 0 else tlen e <=? t); [apply res_rel_ok; exact I|].
    apply IH. exact H2.
Qed.

Lemma find_sim fuel rtl start prevlen :
  res_rel (opt_rel (simrel L)) (vm_find e p L fuel rtl start prevlen) (vm_find e p L' fuel rtl start prevlen).
Proof.
  unfold vm_find.
  destruct ((prevlen =? 0) && (start =? (if rtl then 0 else tlen e))); [apply res_rel_ok; exact I|].
  apply scan_sim. apply sim_init.
Qed.

End Sim.

(* what a caller can observe of a returned match: found or not, and every field of the final
   interpreter state (text position, capture arrays, ...) except the allocated track length *)
Definition same_result (r r' : option vm) : Prop := opt_rel eqv r r'.

Lemma opt_rel_weaken L r r' : opt_rel (simrel L) r r' -> same_result r r'.
Proof. unfold same_result, opt_rel. destruct r, r'; try tauto. intros [H _]. exact H. Qed.

(* T2: with any limit the search either agrees with the unlimited search (same result, same error,
   same crash, same fuel exhaustion), or stops with ErrBacktrackingStackLimit, or a push ran beyond
   the allocated stack (Crash C_track).  No side condition. *)
Theorem vml_limit_trichotomy e p L fuel rtl start prevlen :
  let r1 := vm_find e p L fuel rtl start prevlen in
  let r2 := vm_find e p (-1) fuel rtl start prevlen in
  r1 = Err E_StackLimit \/ r1 = Crash C_track \/
  match r1, r2 with
  | Ok a, Ok b => same_result a b
  | Err c, Err c' => c = c'
  | Crash w, Crash w' => w = w'
  | Fuel, Fuel => True
  | _, _ => False
  end.
Proof.
  cbv zeta.
  assert (HL : lim_le L (-1)) by (left; lia).
  destruct (find_sim e p L (-1) HL fuel rtl start prevlen) as [H|[H|H]]; [left; exact H|right; left; exact H|].
  right. right.
  destruct (vm_find e p L fuel rtl start prevlen), (vm_find e p (-1) fuel rtl start prevlen); try exact H.
  eapply opt_rel_weaken. exact H.
Qed.

Theorem vml_limit_transparent e p L fuel rtl start prevlen r :
  vm_find e p L fuel rtl start prevlen = Ok r ->
  exists r', vm_find e p (-1) fuel rtl start prevlen = Ok r' /\ same_result r r'.
Proof.
  intros H. assert (HL : lim_le L (-1)) by (left; lia).
  pose proof (find_sim e p L (-1) HL fuel rtl start prevlen) as S. rewrite H in S.
  apply res_rel_ok_inv in S. destruct S as (b & E & R). exists b. split; [exact E|].
  eapply opt_rel_weaken. exact R.
Qed.

(* T4: a successful search stays successful, with the same result, under every larger limit and
   without a limit *)
Theorem vml_raise_limit_monotone e p L L' fuel rtl start prevlen r :
  0 <= L -> (L <= L' \/ L' < 0) ->
  vm_find e p L fuel rtl start prevlen = Ok r ->
  exists r', vm_find e p L' fuel rtl start prevlen = Ok r' /\ same_result r r'.
Proof.
  intros H0 HL' H. assert (HL : lim_le L L') by (unfold lim_le; lia).
  pose proof (find_sim e p L L' HL fuel rtl start prevlen) as S. rewrite H in S.
  apply res_rel_ok_inv in S. destruct S as (b & E & R). exists b. split; [exact E|].
  eapply opt_rel_weaken. exact R.
Qed.

(* the same for a single execute() call *)
Theorem vml_exec_raise_limit e p L L' fuel t s :
  lim_le L L' -> exec_at e p L fuel t = Ok s ->
  exists s', exec_at e p L' fuel t = Ok s' /\ eqv s s'.
Proof.
  intros HL H. pose proof (exec_at_sim e p L L' HL fuel t) as S. rewrite H in S.
  apply res_rel_ok_inv in S. destruct S as (b & E & R). exists b. split; [exact E|exact (proj1 R)].
Qed.
