(* Proofs about Model/Parser.v, part 6: a SECOND shape invariant, strong enough for the hypotheses of the
   compile / termination theorems, and its preservation by every mandatory reducer.

   [wfb x]   every node of x has the arity its kind needs in Tree.build (leaves have no child, the one-child
             kinds exactly one, a back-reference conditional 1..2, an expression conditional 2..3), every single-character loop and every Loop / Lazyloop has
             0 <= M <= N <= MaxInt32, every Alternate has a child, and the body of every Loop / Lazyloop is
             one-directional ([dirb false] or [dirb true]);
   [dirb d x] every consuming node of x outside lookarounds and outside the condition of an expression
             conditional carries the RightToLeft bit d  (= SpecTermProofs.tm_dir_ok on the converted tree);
   [pre x]   the same as wfb for a node that has not been reduced yet (an Alternate may still be empty).

   For every reducer f of tree.go:  pre x -> f x = Ok y -> wfb y  and  dirb d x -> dirb d y.
   The existing invariant [good] (Proofs/ParserTree.v) is used alongside for the facts it already gives. *)
From Coq Require Import ZifyBool.
From Verif Require Import Base.Prelude Gen.ParseLitGen Model.Escape Model.ParseLit Model.GroupMap Model.CharClass
  Model.Parser Proofs.ParseLitProofs Proofs.ParserScan Proofs.ParserTree Proofs.ParserMain Proofs.ParserPre
  Proofs.ParserProofs.

(* ---------------------------------------------------------------- kinds *)
Definition is_charloop (t : Z) : bool := is_oneloop_family t || is_notoneloop_family t || is_setloop_family t.
Definition is_char1 (t : Z) : bool := (t =? T_One) || (t =? T_Notone) || (t =? T_Set).
Definition is_anchor_t (t : Z) : bool := ((14 <=? t) && (t <=? 21)) || (t =? 41) || (t =? 42).
Definition is_leaf0 (t : Z) : bool :=
  is_char1 t || (t =? T_Multi) || (t =? T_Ref) || (t =? T_Nothing) || (t =? T_Empty) || is_anchor_t t.
Definition is_unary1 (t : Z) : bool :=
  (t =? T_Capture) || (t =? T_Group) || (t =? T_PosLook) || (t =? T_NegLook) || (t =? T_Atomic).
Definition is_look (t : Z) : bool := (t =? T_PosLook) || (t =? T_NegLook).
Definition is_loop_t (t : Z) : bool := (t =? T_Loop) || (t =? T_Lazyloop).
Definition consuming (t : Z) : bool := is_charloop t || is_char1 t || (t =? T_Multi) || (t =? T_Ref).

Inductive kcl : Type := KCharLoop | KLeaf | KConcat | KAlt | KLoop | KUnary | KBref | KEcond | KBad.

Definition kcls (t : Z) : kcl :=
  if is_charloop t then KCharLoop
  else if is_leaf0 t then KLeaf
  else if t =? T_Concatenate then KConcat
  else if t =? T_Alternate then KAlt
  else if is_loop_t t then KLoop
  else if is_unary1 t then KUnary
  else if t =? T_BackRefCond then KBref
  else if t =? T_ExprCond then KEcond
  else KBad.

Definition bounds_ok (m n : Z) : bool := (0 <=? m) && (m <=? n) && (n <=? pp_inf).
Definition nokids (l : list rnode) : bool := match l with [] => true | _ => false end.

(* ---------------------------------------------------------------- direction *)
Fixpoint dirb (d : bool) (x : rnode) : bool :=
  let 'RN t o _ _ _ _ _ kids := x in
  if is_look t then true
  else (if consuming t then Bool.eqb (useRTL o) d else true) &&
       match kids with
       | [] => true
       | k0 :: r => (if t =? T_ExprCond then true else dirb d k0) &&
                    (fix go (l : list rnode) : bool := match l with [] => true | k :: l' => dirb d k && go l' end) r
       end.

Definition dkids (t : Z) (kids : list rnode) : list rnode := if t =? T_ExprCond then tl kids else kids.

Lemma dirb_go_forallb d l :
  (fix go (l : list rnode) : bool := match l with [] => true | k :: l' => dirb d k && go l' end) l = forallb (dirb d) l.
Proof. induction l as [|k l IH]; [reflexivity|]. cbn [forallb]. rewrite <- IH. reflexivity. Qed.

Lemma dirb_eq d t o ch m n str st kids :
  dirb d (RN t o ch m n str st kids) =
    if is_look t then true
    else (if consuming t then Bool.eqb (useRTL o) d else true) && forallb (dirb d) (dkids t kids).
Proof.
  cbn [dirb]. destruct (is_look t); [reflexivity|]. f_equal. unfold dkids.
  destruct kids as [|k0 r]; [destruct (t =? T_ExprCond); reflexivity|].
  rewrite dirb_go_forallb. destruct (t =? T_ExprCond); reflexivity.
Qed.

(* ---------------------------------------------------------------- well-formedness *)
Definition dirl (d : bool) (l : list rnode) : Prop := forallb (dirb d) l = true.
Lemma dirl_cons d k l : dirl d (k :: l) <-> dirb d k = true /\ dirl d l.
Proof. unfold dirl. cbn [forallb]. apply andb_true_iff. Qed.
Lemma dirl_app d a b : dirl d (a ++ b) <-> dirl d a /\ dirl d b.
Proof. unfold dirl. rewrite forallb_app. apply andb_true_iff. Qed.
Lemma dirl_nil d : dirl d [].
Proof. reflexivity. Qed.
Lemma dirl_In d l x : dirl d l -> In x l -> dirb d x = true.
Proof. unfold dirl. rewrite forallb_forall. auto. Qed.
Lemma dirl_rev d l : dirl d l -> dirl d (rev l).
Proof.
  unfold dirl. rewrite !forallb_forall. intros H x Hx. apply H. apply in_rev. exact Hx.
Qed.

Ltac knum := unfold kcls, consuming, is_leaf0, is_charloop, is_char1, is_anchor_t, is_unary1, is_look, is_loop_t in *; tnum.

(* decide a goal about the kind of a type that hypotheses pin down to finitely many values *)
Ltac kfin := knum; repeat match goal with |- context [if ?b then _ else _] => destruct b eqn:? end; try reflexivity; try congruence; try lia.

Lemma kcls_charloop t : is_charloop t = true -> kcls t = KCharLoop.
Proof. intros H. unfold kcls. rewrite H. reflexivity. Qed.

Lemma charloop_consuming t : is_charloop t = true -> consuming t = true /\ is_look t = false /\ (t =? T_ExprCond) = false.
Proof. intros H. knum. lia. Qed.

Lemma char1_facts t : is_char1 t = true ->
  kcls t = KLeaf /\ consuming t = true /\ is_look t = false /\ (t =? T_ExprCond) = false /\ (t =? T_Ref) = false.
Proof. intros H. assert (t = 9 \/ t = 10 \/ t = 11) by (knum; lia). destruct H0 as [-> | [-> | ->]]; repeat split; reflexivity. Qed.

Lemma useRTL_clear_I o : useRTL (clear_I o) = useRTL o.
Proof.
  unfold useRTL, pl_bit, clear_I. rewrite land_ldiff_disjoint; [reflexivity | reflexivity].
Qed.

Lemma dirb_retype d t o ch m n str st kids t' o' ch' m' n' str' st' :
  is_look t' = is_look t -> consuming t' = consuming t -> (t' =? T_ExprCond) = (t =? T_ExprCond) ->
  useRTL o' = useRTL o ->
  dirb d (RN t' o' ch' m' n' str' st' kids) = dirb d (RN t o ch m n str st kids).
Proof. intros H1 H2 H3 H4. rewrite !dirb_eq. unfold dkids. rewrite H1, H2, H3, H4. reflexivity. Qed.

Lemma dirb_leaf d t o ch m n str st :
  dirb d (RN t o ch m n str st []) = if is_look t then true else if consuming t then Bool.eqb (useRTL o) d else true.
Proof.
  rewrite dirb_eq. unfold dkids. destruct (is_look t); [reflexivity|].
  destruct (t =? T_ExprCond); cbn [tl forallb]; rewrite andb_true_r; reflexivity.
Qed.

Lemma dirb_nonconsuming_leaf d t o ch m n str st : consuming t = false -> dirb d (RN t o ch m n str st []) = true.
Proof. intros H. rewrite dirb_leaf, H. destruct (is_look t); reflexivity. Qed.

(* what a wf node of a leaf / single-character-loop kind looks like *)
Lemma dirb_list_node d t o ch m n str st kids :
  t = T_Alternate \/ t = T_Concatenate -> dirb d (RN t o ch m n str st kids) = forallb (dirb d) kids.
Proof. intros [-> | ->]; rewrite dirb_eq; reflexivity. Qed.

Lemma dirb_unary d t o ch m n str st k :
  kcls t = KUnary -> is_look t = false -> dirb d (RN t o ch m n str st [k]) = dirb d k.
Proof.
  intros K L. rewrite dirb_eq, L.
  assert (C : consuming t = false /\ (t =? T_ExprCond) = false).
  { revert K L. knum. repeat match goal with |- context [if ?b then _ else _] => destruct b eqn:? end; intros; try discriminate; lia. }
  destruct C as [C1 C2]. unfold dkids. rewrite C1, C2. cbn. rewrite andb_true_r. reflexivity.
Qed.

Ltac ifs := repeat match goal with
  | |- context [if ?b then _ else _] => destruct b eqn:?
  | H : context [if ?b then _ else _] |- _ => destruct b eqn:?
  end.
Ltac blia := unfold can_combine, add_max_length, bounds_ok, pp_inf in *; ifs; try discriminate; lia.

Lemma bounds_combine cm cn nm nn : bounds_ok cm cn = true -> bounds_ok nm nn = true -> can_combine cm cn nm nn = true ->
  bounds_ok (cm + nm) (if cn =? pp_inf then cn else if nn =? pp_inf then pp_inf else cn + nn) = true.
Proof. intros. blia. Qed.

Lemma bounds_combine1 cm cn : bounds_ok cm cn = true -> can_combine cm cn 1 1 = true ->
  bounds_ok (cm + 1) (if cn =? pp_inf then cn else cn + 1) = true.
Proof. intros. blia. Qed.

Lemma bounds_combine_k cm cn k : bounds_ok cm cn = true -> 0 <= k -> can_combine cm cn k k = true ->
  bounds_ok (cm + k) (if cn =? pp_inf then cn else cn + k) = true.
Proof. intros. blia. Qed.

Lemma bounds_combine1' nm nn : bounds_ok nm nn = true -> can_combine 1 1 nm nn = true ->
  bounds_ok (nm + 1) (if nn =? pp_inf then pp_inf else nn + 1) = true.
Proof. intros. blia. Qed.

Lemma count_prefix_range ch s : 0 <= count_prefix ch s <= zlen s.
Proof.
  unfold zlen. induction s as [|c s IH]; cbn [count_prefix length]; [lia|].
  destruct (c =? ch); lia.
Qed.

Definition loopish (t : Z) : Prop := kcls t = KLoop \/ kcls t = KCharLoop.

Definition mulsat (c k : Z) : Z := if 0 <? c then (if (pp_inf - 1) / c <? k then pp_inf else c * k) else c.

Lemma mulsat_bounds cm cn mn mx : bounds_ok cm cn = true -> bounds_ok mn mx = true ->
  bounds_ok (mulsat cm mn) (mulsat cn mx) = true.
Proof.
  unfold bounds_ok, mulsat. intros H1 H2.
  assert (A : 0 <= cm <= cn /\ cn <= pp_inf /\ 0 <= mn <= mx /\ mx <= pp_inf) by lia. clear H1 H2.
  destruct A as [A1 [A2 [A3 A4]]]. unfold pp_inf in *.
  assert (Q : forall c, 0 < c -> c * ((2147483647 - 1) / c) <= 2147483647 - 1 /\ 2147483647 - 1 < c * ((2147483647 - 1) / c + 1)).
  { intros c Hc. split; [apply Z.mul_div_le; lia|]. pose proof (Z.mul_succ_div_gt (2147483647 - 1) c Hc). lia. }
  destruct (0 <? cm) eqn:E1; destruct (0 <? cn) eqn:E2; try lia.
  - destruct (Q cm ltac:(lia)) as [Q1 Q2]. destruct (Q cn ltac:(lia)) as [Q3 Q4].
    set (q1 := (2147483647 - 1) / cm) in *. set (q2 := (2147483647 - 1) / cn) in *.
    assert (q2 <= q1) by (subst q1 q2; apply Z.div_le_compat_l; lia).
    assert (0 <= q2) by (subst q2; apply Z.div_pos; lia).
    destruct (q1 <? mn) eqn:E3; destruct (q2 <? mx) eqn:E4; try lia.
    + assert (cm * mn <= cm * q1) by (apply Z.mul_le_mono_nonneg_l; lia). lia.
    + assert (cm * mn <= cm * q1) by (apply Z.mul_le_mono_nonneg_l; lia).
      assert (cn * mx <= cn * q2) by (apply Z.mul_le_mono_nonneg_l; lia).
      assert (cm * mn <= cn * mx) by (apply Z.mul_le_mono_nonneg; lia).
      assert (0 <= cm * mn) by (apply Z.mul_nonneg_nonneg; lia). lia.
  - destruct (Q cn ltac:(lia)) as [Q3 Q4]. set (q2 := (2147483647 - 1) / cn) in *.
    destruct (q2 <? mx) eqn:E4; [lia|].
    assert (cn * mx <= cn * q2) by (apply Z.mul_le_mono_nonneg_l; lia).
    assert (0 <= cn * mx) by (apply Z.mul_nonneg_nonneg; lia). lia.
Qed.

Lemma loop_kid_dir d t o ch m n str st k : kcls t = KLoop -> dirb d (RN t o ch m n str st [k]) = dirb d k.
Proof.
  intros K. assert (T : t = T_Loop \/ t = T_Lazyloop).
  { revert K. knum. repeat match goal with |- context [if ?b then _ else _] => destruct b eqn:? end; intros; try discriminate; lia. }
  destruct T as [-> | ->]; rewrite dirb_eq; cbn; rewrite andb_true_r; reflexivity.
Qed.

Lemma dirb_bref d o ch m n str st kids : dirb d (RN T_BackRefCond o ch m n str st kids) = forallb (dirb d) kids.
Proof. rewrite dirb_eq. reflexivity. Qed.

Lemma dirb_econd d o ch m n str st kids : dirb d (RN T_ExprCond o ch m n str st kids) = forallb (dirb d) (tl kids).
Proof. rewrite dirb_eq. reflexivity. Qed.

Lemma eqb_refl_b b : Bool.eqb b b = true.
Proof. destruct b; reflexivity. Qed.


(* ================================================================ *)
Section Caps.
(* membership in the capture table, as a predicate: [fun k => zmem k caps] for the real table, [fun _ => true] when
   only the shape is wanted *)
Variable caps : Z -> bool.

(* the group numbers of a Capture (M, and N for a balancing group), a Ref and a BackRefCond (M) are keys of the
   capture table: what the writer's mapCapnum assumes (Extract/Drv10.v nums_okb) *)
Definition gq (t m n : Z) : bool :=
  if t =? T_Capture then (if n =? -1 then caps m else caps n && ((m =? -1) || caps m))
  else caps m.

Definition knd (strict : bool) (x : rnode) : bool :=
  let 'RN t _ _ m n _ _ kids := x in
  match kcls t with
  | KCharLoop => nokids kids && bounds_ok m n
  | KLeaf => nokids kids && (negb (t =? T_Ref) || gq t m n)
  | KConcat => true
  | KAlt => negb strict || negb (nokids kids)
  | KLoop => match kids with [k] => bounds_ok m n && (dirb false k || dirb true k) | _ => false end
  | KUnary => match kids with [_] => negb (t =? T_Capture) || gq t m n | _ => false end
  | KBref => match kids with [_] | [_; _] => gq t m n | _ => false end
  | KEcond => match kids with [_; _] | [_; _; _] => true | _ => false end
  | KBad => false
  end.

Fixpoint wfb (x : rnode) : bool :=
  let 'RN t o ch m n str st kids := x in
  knd true (RN t o ch m n str st kids) &&
  (fix all (l : list rnode) : bool := match l with [] => true | k :: r => wfb k && all r end) kids.

Lemma wfb_all_forallb l :
  (fix all (l : list rnode) : bool := match l with [] => true | k :: r => wfb k && all r end) l = forallb wfb l.
Proof. induction l as [|k l IH]; [reflexivity|]. cbn [forallb]. rewrite <- IH. reflexivity. Qed.

Lemma wfb_eq t o ch m n str st kids :
  wfb (RN t o ch m n str st kids) = knd true (RN t o ch m n str st kids) && forallb wfb kids.
Proof. cbn [wfb]. rewrite wfb_all_forallb. reflexivity. Qed.

Definition wf (x : rnode) : Prop := wfb x = true.
Definition wfl (l : list rnode) : Prop := forallb wfb l = true.
(* a node whose children are finished but which has not been reduced itself *)
Definition pre (x : rnode) : Prop := knd false x = true /\ wfl (n_kids x).

Lemma wf_iff t o ch m n str st kids :
  wf (RN t o ch m n str st kids) <-> knd true (RN t o ch m n str st kids) = true /\ wfl kids.
Proof. unfold wf, wfl. rewrite wfb_eq. apply andb_true_iff. Qed.

Lemma knd_strict_weak x : knd true x = true -> knd false x = true.
Proof. destruct x as [t o ch m n str st kids]. unfold knd. destruct (kcls t); auto. Qed.

Lemma knd_weak_strict x : kcls (n_t x) <> KAlt -> knd false x = true -> knd true x = true.
Proof. destruct x as [t o ch m n str st kids]. cbn [n_t]. unfold knd. destruct (kcls t); auto; congruence. Qed.

Lemma wf_pre x : wf x -> pre x.
Proof. destruct x as [t o ch m n str st kids]. intros H. apply wf_iff in H. destruct H as [H1 H2]. split; [apply knd_strict_weak; exact H1 | exact H2]. Qed.

Lemma pre_wf x : kcls (n_t x) <> KAlt -> pre x -> wf x.
Proof.
  destruct x as [t o ch m n str st kids]. intros Hk [H1 H2]. apply wf_iff. split; [apply knd_weak_strict; assumption | exact H2].
Qed.

Lemma wf_kids x : wf x -> wfl (n_kids x).
Proof. intros H. apply wf_pre in H. exact (proj2 H). Qed.

Lemma wfl_cons k l : wfl (k :: l) <-> wf k /\ wfl l.
Proof. unfold wfl, wf. cbn [forallb]. apply andb_true_iff. Qed.
Lemma wfl_app a b : wfl (a ++ b) <-> wfl a /\ wfl b.
Proof. unfold wfl. rewrite forallb_app. apply andb_true_iff. Qed.
Lemma wfl_nil : wfl [].
Proof. reflexivity. Qed.
Lemma wfl_In l x : wfl l -> In x l -> wf x.
Proof. unfold wfl, wf. rewrite forallb_forall. auto. Qed.
Lemma wfl_rev l : wfl l -> wfl (rev l).
Proof.
  unfold wfl. rewrite !forallb_forall. intros H x Hx. apply H. apply in_rev. exact Hx.
Qed.

(* ---------------------------------------------------------------- numbers *)
(* ---------------------------------------------------------------- retyping *)
(* dirb looks at the kind through three tests and at the options through the RightToLeft bit *)
Lemma wf_leaf t o ch m n str st : kcls t = KLeaf -> (t =? T_Ref) = false -> wf (RN t o ch m n str st []).
Proof. intros H R. apply wf_iff. split; [unfold knd; rewrite H, R; reflexivity | apply wfl_nil]. Qed.

Lemma wf_charloop t o ch m n str st : is_charloop t = true -> bounds_ok m n = true -> wf (RN t o ch m n str st []).
Proof. intros H B. apply wf_iff. split; [unfold knd; rewrite (kcls_charloop t H), B; reflexivity | apply wfl_nil]. Qed.

Lemma wf_mk_node t o : kcls t = KLeaf -> (t =? T_Ref) = false -> wf (mk_node t o).
Proof. apply wf_leaf. Qed.

Lemma wf_nokids t o ch m n str st kids :
  wf (RN t o ch m n str st kids) -> (kcls t = KLeaf \/ kcls t = KCharLoop) -> kids = [].
Proof.
  intros H K. apply wf_iff in H. destruct H as [H _]. unfold knd in H.
  destruct K as [K|K]; rewrite K in H; destruct kids; [reflexivity | discriminate | reflexivity | discriminate].
Qed.

Lemma wf_charloop_bounds t o ch m n str st kids :
  wf (RN t o ch m n str st kids) -> kcls t = KCharLoop -> bounds_ok m n = true.
Proof.
  intros H K. apply wf_iff in H. destruct H as [H _]. unfold knd in H. rewrite K in H.
  apply andb_prop in H. tauto.
Qed.

Lemma wf_loop_inv t o ch m n str st kids :
  pre (RN t o ch m n str st kids) -> kcls t = KLoop ->
  exists k, kids = [k] /\ wf k /\ bounds_ok m n = true /\ (dirb false k || dirb true k) = true.
Proof.
  intros [H W] K. unfold knd in H. rewrite K in H. cbn [n_kids] in W.
  destruct kids as [|k [|k2 r]]; try discriminate. exists k. apply andb_prop in H. destruct H as [H1 H2].
  apply wfl_cons in W. tauto.
Qed.

(* ---------------------------------------------------------------- makeRep, makeLoopAtomic *)
Lemma make_rep_wf x t m n :
  wf x -> is_char1 (n_t x) = true -> (t = T_Oneloop \/ t = T_Onelazy) -> bounds_ok m n = true ->
  wf (make_rep x t m n) /\ forall d, dirb d (make_rep x t m n) = dirb d x.
Proof.
  destruct x as [t0 o ch m0 n0 str st kids]. cbn [n_t]. intros W C Ht B.
  assert (kids = []) by (eapply wf_nokids; [exact W | left; apply char1_facts; exact C]). subst kids.
  unfold make_rep. cbn [n_t set_t set_mn].
  assert (L : is_charloop (t0 + (t - T_One)) = true) by (destruct Ht; subst t; knum; lia).
  split; [apply wf_charloop; assumption|].
  intros d. destruct (char1_facts t0 C) as [_ [C1 [C2 [C3 _]]]]. destruct (charloop_consuming _ L) as [L1 [L2 L3]].
  apply dirb_retype; congruence.
Qed.

Lemma make_loop_atomic_wf x : wf x -> wf (make_loop_atomic x) /\ forall d, dirb d x = true -> dirb d (make_loop_atomic x) = true.
Proof.
  destruct x as [t o ch m n str st kids]. intros W. unfold make_loop_atomic.
  destruct ((t =? T_Oneloop) || (t =? T_Notoneloop) || (t =? T_Setloop)) eqn:E1.
  { assert (L : is_charloop t = true) by (knum; lia).
    assert (L' : is_charloop (t + (T_Oneloopatomic - T_Oneloop)) = true) by (knum; lia).
    assert (kids = []) by (eapply wf_nokids; [exact W | right; apply kcls_charloop; exact L]). subst kids.
    pose proof (wf_charloop_bounds _ _ _ _ _ _ _ _ W (kcls_charloop _ L)) as B.
    split; [apply wf_charloop; assumption|].
    intros d Hd. destruct (charloop_consuming _ L) as [A1 [A2 A3]]. destruct (charloop_consuming _ L') as [B1 [B2 B3]].
    rewrite <- Hd. apply dirb_retype; congruence. }
  destruct ((t =? T_Onelazy) || (t =? T_Notonelazy) || (t =? T_Setlazy)) eqn:E2; [|split; [exact W | auto]].
  assert (L : is_charloop t = true) by (knum; lia).
  assert (kids = []) by (eapply wf_nokids; [exact W | right; apply kcls_charloop; exact L]). subst kids.
  pose proof (wf_charloop_bounds _ _ _ _ _ _ _ _ W (kcls_charloop _ L)) as B.
  destruct (m =? 0).
  { split; [apply wf_leaf; reflexivity | intros d _; apply dirb_nonconsuming_leaf; reflexivity]. }
  destruct (charloop_consuming _ L) as [A1 [A2 A3]].
  destruct ((t + (T_Oneloopatomic - T_Onelazy) =? T_Oneloopatomic) && (2 <=? m) && (m <=? pp_multi_limit)) eqn:E3.
  { split; [apply wf_leaf; reflexivity|]. intros d Hd. rewrite <- Hd. apply dirb_retype; rewrite ?A1, ?A2, ?A3; reflexivity. }
  assert (L' : is_charloop (t + (T_Oneloopatomic - T_Onelazy)) = true) by (knum; lia).
  destruct (charloop_consuming _ L') as [B1 [B2 B3]].
  split; [apply wf_charloop; [exact L' | unfold bounds_ok in *; lia]|].
  intros d Hd. rewrite <- Hd. apply dirb_retype; congruence.
Qed.

(* ---------------------------------------------------------------- reduceSet *)
Lemma reduce_set_node_wf x y : wf x -> is_set_family (n_t x) = true -> reduce_set_node x = Ok y ->
  wf y /\ forall d, dirb d x = true -> dirb d y = true.
Proof.
  destruct x as [t o ch m n str st kids]. cbn [n_t]. intros W Hs E.
  assert (T : t = 11 \/ t = 5 \/ t = 8 \/ t = 45) by (knum; lia).
  assert (KL : kcls t = KLeaf \/ kcls t = KCharLoop) by (destruct T as [-> | [-> | [-> | ->]]]; auto).
  assert (kids = []) by (eapply wf_nokids; eassumption). subst kids.
  assert (CO : consuming t = true /\ is_look t = false /\ (t =? T_ExprCond) = false)
    by (destruct T as [-> | [-> | [-> | ->]]]; repeat split; reflexivity).
  destruct CO as [C1 [C2 C3]].
  (* the result keeps m, n and moves inside the column of the same loop kind *)
  assert (RT : forall dt c', (dt = T_One - T_Set \/ dt = T_Notone - T_Set) ->
            wf (RN (t + dt) o c' m n str None []) /\
            forall d, dirb d (RN t o ch m n str st []) = true -> dirb d (RN (t + dt) o c' m n str None []) = true).
  { intros dt c' Hdt. split.
    - destruct T as [-> | [-> | [-> | ->]]]; destruct Hdt as [-> | ->];
        first [apply wf_leaf; reflexivity
              | apply wf_charloop; [reflexivity | eapply (wf_charloop_bounds _ _ _ _ _ _ _ _ W); reflexivity]].
    - intros d Hd. rewrite <- Hd. apply dirb_retype; try reflexivity;
        destruct T as [-> | [-> | [-> | ->]]]; destruct Hdt as [-> | ->]; reflexivity. }
  unfold reduce_set_node in E. destruct st as [s|].
  2:{ inversion E; subst. split; [apply wf_leaf; reflexivity | intros d _; apply dirb_nonconsuming_leaf; reflexivity]. }
  destruct (is_singleton s).
  { destruct (singleton_char s) as [c| | |]; cbn [bind] in E; try discriminate. inversion E; subst. apply RT. left. reflexivity. }
  destruct (is_singleton_inverse s).
  { destruct (singleton_char s) as [c| | |]; cbn [bind] in E; try discriminate. inversion E; subst. apply RT. right. reflexivity. }
  inversion E; subst. split; [exact W | auto].
Qed.

(* ---------------------------------------------------------------- replaceNodeIfUnnecessary *)
Lemma replace_if_unnecessary_wf x :
  wfl (n_kids x) -> (n_t x = T_Alternate \/ n_t x = T_Concatenate) ->
  wf (replace_if_unnecessary x) /\ forall d, dirl d (n_kids x) -> dirb d (replace_if_unnecessary x) = true.
Proof.
  destruct x as [t o ch m n str st kids]. cbn [n_kids n_t]. intros K Ht. unfold replace_if_unnecessary. cbn [n_kids n_t n_o].
  destruct kids as [|k [|k2 r]].
  - split; [apply wf_mk_node; destruct (t =? T_Alternate); reflexivity|].
    intros d _. apply dirb_nonconsuming_leaf. destruct (t =? T_Alternate); reflexivity.
  - apply wfl_cons in K. split; [tauto|]. intros d Hd. apply dirl_cons in Hd. tauto.
  - split.
    + apply wf_iff. split; [|exact K]. destruct Ht as [-> | ->]; reflexivity.
    + intros d Hd. rewrite dirb_list_node by exact Ht. exact Hd.
Qed.

(* ---------------------------------------------------------------- reduceGroup, reduceLookaround, reduceAtomic *)
Lemma unary_kid t o ch m n str st kids :
  pre (RN t o ch m n str st kids) -> kcls t = KUnary -> exists k, kids = [k] /\ wf k.
Proof.
  intros [H W] K. unfold knd in H. rewrite K in H. cbn [n_kids] in W.
  destruct kids as [|k [|k2 r]]; try discriminate. exists k. apply wfl_cons in W. tauto.
Qed.

Lemma reduce_group_wf : forall x y, wf x -> reduce_group x = Ok y ->
  wf y /\ forall d, dirb d x = true -> dirb d y = true.
Proof.
  induction x as [t o ch m n str st kids IH] using rnode_ind'. intros y W E.
  cbn [reduce_group] in E. destruct (t =? T_Group) eqn:Et; [|inversion E; subst; auto].
  assert (t = T_Group) by lia. subst t.
  destruct (unary_kid _ _ _ _ _ _ _ _ (wf_pre _ W) eq_refl) as [k [-> Wk]].
  inversion IH as [|? ? IHk _]; subst.
  destruct (IHk y Wk E) as [R1 R2]. split; [exact R1|].
  intros d Hd. apply R2. rewrite dirb_eq in Hd. cbn in Hd. rewrite andb_true_r in Hd. exact Hd.
Qed.

Lemma reduce_lookaround_wf x y : pre x -> is_look (n_t x) = true -> reduce_lookaround x = Ok y ->
  wf y /\ forall d, dirb d y = true.
Proof.
  destruct x as [t o ch m n str st kids]. cbn [n_t]. intros P L E.
  assert (T : t = T_PosLook \/ t = T_NegLook) by (knum; lia).
  assert (K : kcls t = KUnary) by (destruct T as [-> | ->]; reflexivity).
  destruct (unary_kid _ _ _ _ _ _ _ _ P K) as [k [-> Wk]].
  unfold reduce_lookaround in E. destruct (n_t k =? T_Empty).
  - inversion E; subst. split; [apply wf_leaf; destruct (t =? T_PosLook); reflexivity|].
    intros d. apply dirb_nonconsuming_leaf. destruct (t =? T_PosLook); reflexivity.
  - inversion E; subst. split; [apply pre_wf; [cbn [n_t]; congruence | exact P]|].
    intros d. rewrite dirb_eq, L. reflexivity.
Qed.

Lemma reduce_atomic_wf : forall x y, pre x -> n_t x = T_Atomic -> reduce_atomic x = Ok y ->
  wf y /\ forall d, dirb d x = true -> dirb d y = true.
Proof.
  induction x as [t o ch m n str st kids IH] using rnode_ind'. cbn [n_t]. intros y P Ht E. subst t.
  destruct (unary_kid _ _ _ _ _ _ _ _ P eq_refl) as [k [-> Wk]].
  inversion IH as [|? ? IHk _]; subst.
  assert (D : forall d, dirb d (RN T_Atomic o ch m n str st [k]) = dirb d k) by (intros; apply dirb_unary; reflexivity).
  cbn [reduce_atomic] in E.
  destruct (n_t k =? T_Atomic) eqn:E1.
  { destruct (IHk y (wf_pre _ Wk) ltac:(lia) E) as [R1 R2]. split; [exact R1|]. intros d Hd. apply R2. rewrite <- D. exact Hd. }
  destruct ((n_t k =? T_Empty) || (n_t k =? T_Nothing)).
  { inversion E; subst. split; [exact Wk | intros d Hd; rewrite <- D; exact Hd]. }
  destruct (is_atomicloop_family (n_t k)).
  { inversion E; subst. split; [exact Wk | intros d Hd; rewrite <- D; exact Hd]. }
  match type of E with (if ?b then _ else _) = _ => destruct b end.
  - inversion E; subst. destruct (make_loop_atomic_wf k Wk) as [M1 M2]. split; [exact M1|].
    intros d Hd. apply M2. rewrite <- D. exact Hd.
  - inversion E; subst. split; [apply pre_wf; [cbn [n_t]; discriminate | exact P] | auto].
Qed.

(* ---------------------------------------------------------------- reduceAlternation *)
Lemma flat_alt_wf : forall x, wf x -> wfl (flat_alt x) /\ forall d, dirb d x = true -> dirl d (flat_alt x).
Proof.
  induction x as [t o ch m n str st kids IH] using rnode_ind'. intros W. cbn [flat_alt].
  destruct (t =? T_Alternate) eqn:Et.
  2:{ split; [apply wfl_cons; split; [exact W | apply wfl_nil] | intros d Hd; apply dirl_cons; split; [exact Hd | apply dirl_nil]]. }
  assert (t = T_Alternate) by lia. subst t.
  pose proof (wf_kids _ W) as K. cbn [n_kids] in K.
  assert (G : wfl ((fix go (ks : list rnode) : list rnode := match ks with [] => [] | k :: ks' => flat_alt k ++ go ks' end) kids) /\
              forall d, dirl d kids ->
                dirl d ((fix go (ks : list rnode) : list rnode := match ks with [] => [] | k :: ks' => flat_alt k ++ go ks' end) kids)).
  { clear W. induction kids as [|k r IHr]; [split; [apply wfl_nil | intros; apply dirl_nil]|].
    inversion IH as [|? ? IHk IHr']; subst. apply wfl_cons in K. destruct K as [Wk Wr].
    destruct (IHk Wk) as [A1 A2]. destruct (IHr IHr' Wr) as [B1 B2].
    split; [apply wfl_app; auto|]. intros d Hd. apply dirl_cons in Hd. destruct Hd as [D1 D2]. apply dirl_app. auto. }
  destruct G as [G1 G2]. split; [exact G1|]. intros d Hd. apply G2. rewrite dirb_list_node in Hd by auto. exact Hd.
Qed.

Lemma flatten_alts_wf l : wfl l -> wfl (flatten_alts l) /\ forall d, dirl d l -> dirl d (flatten_alts l).
Proof.
  unfold flatten_alts. induction l as [|x l IH]; intros W; cbn [flat_map]; [split; [apply wfl_nil | intros; apply dirl_nil]|].
  apply wfl_cons in W. destruct W as [Wx Wl]. destruct (flat_alt_wf x Wx) as [A1 A2]. destruct (IH Wl) as [B1 B2].
  split; [apply wfl_app; auto|]. intros d Hd. apply dirl_cons in Hd. destruct Hd. apply dirl_app. auto.
Qed.

Lemma drop_redundant_wf l : forall seen, wfl l -> wfl (drop_redundant seen l) /\ forall d, dirl d l -> dirl d (drop_redundant seen l).
Proof.
  induction l as [|x l IH]; intros seen W; cbn [drop_redundant]; [split; [apply wfl_nil | intros; apply dirl_nil]|].
  apply wfl_cons in W. destruct W as [Wx Wl].
  destruct ((n_t x =? T_Nothing) || ((n_t x =? T_Empty) && seen)).
  - destruct (IH seen Wl) as [A1 A2]. split; [exact A1|]. intros d Hd. apply dirl_cons in Hd. apply A2. tauto.
  - destruct (IH (seen || (n_t x =? T_Empty)) Wl) as [A1 A2]. split; [apply wfl_cons; auto|].
    intros d Hd. apply dirl_cons in Hd. apply dirl_cons. split; [tauto | apply A2; tauto].
Qed.

Lemma remove_redundant_wf x : wfl (n_kids x) -> n_t x = T_Alternate ->
  wf (remove_redundant x) /\ forall d, dirl d (n_kids x) -> dirb d (remove_redundant x) = true.
Proof.
  intros K Ht. unfold remove_redundant.
  destruct (drop_redundant_wf (n_kids x) false K) as [A1 A2].
  destruct (replace_if_unnecessary_wf (set_kids x (drop_redundant false (n_kids x)))) as [B1 B2].
  - destruct x; cbn [set_kids n_kids] in *. exact A1.
  - destruct x; cbn [set_kids n_t] in *. left. exact Ht.
  - split; [exact B1|]. intros d Hd. apply B2. destruct x; cbn [set_kids n_kids] in *. apply A2. exact Hd.
Qed.

Section TreeOk.
Variable is_word_char : Z -> bool.
Variable to_lower : Z -> Z.
Variable simple_fold : Z -> Z.
Variable participates : Z -> bool.
Variable cat_in : Z -> Z -> bool.
Variable cat_name : list Z -> Z.

Local Notation sl_step := (sl_step cat_in).
Local Notation sl_run := (sl_run cat_in).
Local Notation SLS := (sl_step_ok is_word_char to_lower simple_fold participates cat_in cat_name).

Lemma sl_step_wf s x s' : sl_inv s -> wfl (sl_out s) -> wf x -> sl_step s x = Ok s' ->
  wfl (sl_out s') /\ forall d, dirl d (sl_out s) -> dirb d x = true -> dirl d (sl_out s').
Proof.
  intros [_ Hw] Wo Wx E. unfold Parser.sl_step in E.
  assert (KEEP : forall w c oa, wfl (sl_out (mkSL (x :: sl_out s) w c oa)) /\
            forall d, dirl d (sl_out s) -> dirb d x = true -> dirl d (sl_out (mkSL (x :: sl_out s) w c oa))).
  { intros. cbn [sl_out]. split; [apply wfl_cons; auto | intros d H1 H2; apply dirl_cons; auto]. }
  destruct ((n_t x =? T_Set) || (n_t x =? T_One)) eqn:E0.
  2:{ destruct (n_t x =? T_Nothing); inversion E; subst; [split; auto | apply KEEP]. }
  match type of E with bind ?a _ = _ => destruct a as [fresh| | |] eqn:EF end; cbn [bind] in E; try discriminate.
  destruct fresh as [cannot|]; [inversion E; subst; apply KEEP|].
  assert (W : sl_was s = true).
  { destruct (sl_was s); [reflexivity|]. cbn [negb orb] in EF.
    destruct (n_t x =? T_Set); [destruct (n_set x); discriminate | discriminate]. }
  destruct (Hw W) as [prev [out' [Eo Hp]]]. rewrite Eo in *.
  match type of E with bind ?a _ = _ => destruct a as [pc| | |] end; cbn [bind] in E; try discriminate.
  match type of E with bind ?a _ = _ => destruct a as [pc'| | |] end; cbn [bind] in E; try discriminate.
  destruct prev as [pt po pch pm pn pstr pst pk]. inversion E; subst. cbn [sl_out n_t] in *.
  apply wfl_cons in Wo. destruct Wo as [Wp Wo'].
  assert (C : is_char1 pt = true) by (knum; lia).
  destruct (char1_facts pt C) as [K1 [K2 [K3 [K4 K5]]]].
  assert (pk = []) by (eapply wf_nokids; [exact Wp | left; exact K1]). subst pk.
  split; [apply wfl_cons; split; [apply wf_leaf; reflexivity | exact Wo']|].
  intros d Hd _. apply dirl_cons in Hd. destruct Hd as [D1 D2]. apply dirl_cons. split; [|exact D2].
  rewrite <- D1. apply dirb_retype; rewrite ?K2, ?K3, ?K4; try reflexivity. apply useRTL_clear_I.
Qed.

Lemma sl_run_wf l : forall s s', sl_inv s -> Forall good l -> wfl (sl_out s) -> wfl l -> sl_run s l = Ok s' ->
  wfl (sl_out s') /\ forall d, dirl d (sl_out s) -> dirl d l -> dirl d (sl_out s').
Proof.
  induction l as [|x l IH]; intros s s' Is Gl Wo Wl E; cbn [Parser.sl_run] in E.
  - inversion E; subst. auto.
  - inversion Gl; subst. apply wfl_cons in Wl. destruct Wl as [Wx Wl].
    destruct (SLS s x Is) as [s1 [E1 I1]]; [assumption|]. rewrite E1 in E. cbn [bind] in E.
    destruct (sl_step_wf s x s1 Is Wo Wx E1) as [A1 A2].
    destruct (IH s1 s' I1) as [B1 B2]; try assumption.
    split; [exact B1|]. intros d D1 D2. apply dirl_cons in D2. destruct D2. apply B2; [apply A2|]; assumption.
Qed.

Lemma reduce_alternation_wf x y : Forall good (n_kids x) -> wfl (n_kids x) -> n_t x = T_Alternate ->
  reduce_alternation cat_in x = Ok y ->
  wf y /\ forall d, dirl d (n_kids x) -> dirb d y = true.
Proof.
  intros G K Ht E. unfold reduce_alternation in E.
  destruct (n_kids x) as [|k [|k2 r]] eqn:Ek.
  - inversion E; subst. split; [apply wf_mk_node; reflexivity | intros d _; apply dirb_nonconsuming_leaf; reflexivity].
  - inversion E; subst. apply wfl_cons in K. split; [tauto|]. intros d Hd. apply dirl_cons in Hd. tauto.
  - destruct (flatten_alts_wf (k :: k2 :: r) K) as [F1 F2].
    destruct (sl_run (mkSL [] false false 0) (flatten_alts (k :: k2 :: r))) as [s'| | |] eqn:Es; cbn [bind] in E; try discriminate.
    destruct (sl_run_wf _ (mkSL [] false false 0) s' ltac:(split; cbn; [constructor | discriminate]) (flatten_alts_good _ G) wfl_nil F1 Es) as [S1 S2].
    set (x1 := set_kids x (rev (sl_out s'))) in *.
    assert (K1 : wfl (n_kids x1)) by (subst x1; destruct x; cbn; apply wfl_rev; exact S1).
    assert (T1 : n_t x1 = T_Alternate) by (subst x1; destruct x; cbn in *; exact Ht).
    assert (D1 : forall d, dirl d (k :: k2 :: r) -> dirl d (n_kids x1)).
    { intros d Hd. subst x1. destruct x; cbn. apply dirl_rev. apply S2; [apply dirl_nil | apply F2; exact Hd]. }
    destruct (replace_if_unnecessary_wf x1 K1 (or_introl T1)) as [R1 R2].
    destruct (n_t (replace_if_unnecessary x1) =? T_Alternate) eqn:E2.
    + inversion E; subst.
      destruct (remove_redundant_wf (replace_if_unnecessary x1) (wf_kids _ R1) ltac:(lia)) as [Q1 Q2].
      split; [exact Q1|]. intros d Hd. apply Q2.
      specialize (R2 d (D1 d Hd)).
      destruct (replace_if_unnecessary x1) as [t' o' ch' m' n' str' st' kids']. cbn [n_t n_kids] in *.
      rewrite dirb_list_node in R2 by (left; lia). exact R2.
    + inversion E; subst. split; [exact R1|]. intros d Hd. apply R2. apply D1. exact Hd.
Qed.

End TreeOk.

(* ---------------------------------------------------------------- reduceConcatenation *)
Definition cl_res_ok (cur nx : rnode) (r : cl_res) : Prop :=
  match r with
  | CL_merged c => wf c /\ forall d, dirb d cur = true -> dirb d nx = true -> dirb d c = true
  | CL_keep c nx' => wf c /\ wf nx' /\ forall d, dirb d cur = true -> dirb d nx = true -> dirb d c = true /\ dirb d nx' = true
  end.

Lemma cl_combine_wf cur nx r : wf cur -> wf nx -> cl_combine cur nx = Ok r -> cl_res_ok cur nx r.
Proof.
  intros Wc Wn E. destruct cur as [ct co cch cm cn cstr cset ckids]. destruct nx as [nt no nch nm nn nstr nset nkids].
  unfold cl_combine in E.
  assert (KEEP : cl_res_ok (RN ct co cch cm cn cstr cset ckids) (RN nt no nch nm nn nstr nset nkids)
                   (CL_keep (RN ct co cch cm cn cstr cset ckids) (RN nt no nch nm nn nstr nset nkids)))
    by (cbn; auto).
  destruct (negb (co =? no)) eqn:Eo; [inversion E; subst; exact KEEP|].
  assert (no = co) by lia. subst no.
  (* a loop of cur's kind with new counts *)
  assert (LOOP : forall m' n', is_charloop ct = true -> bounds_ok m' n' = true ->
            wf (RN ct co cch m' n' cstr cset ckids) /\
            forall d, dirb d (RN ct co cch cm cn cstr cset ckids) = true -> dirb d (RN ct co cch m' n' cstr cset ckids) = true).
  { intros m' n' L B.
    assert (ckids = []) by (eapply wf_nokids; [exact Wc | right; apply kcls_charloop; exact L]). subst ckids.
    split; [apply wf_charloop; assumption|]. intros d Hd. rewrite <- Hd. apply dirb_retype; reflexivity. }
  match type of E with (if ?b then _ else _) = _ => destruct b eqn:EA end.
  { assert (L : is_charloop ct = true) by (knum; lia). assert (nt = ct) by (knum; lia). subst nt.
    pose proof (wf_charloop_bounds _ _ _ _ _ _ _ _ Wc (kcls_charloop _ L)) as Bc.
    pose proof (wf_charloop_bounds _ _ _ _ _ _ _ _ Wn (kcls_charloop _ L)) as Bn.
    destruct ((0 <? nm) && is_atomicloop_family ct); [inversion E; subst; exact KEEP|].
    destruct (negb (can_combine cm cn nm nn)) eqn:EC; [inversion E; subst; exact KEEP|].
    inversion E; subst. destruct (LOOP (cm + nm) (if cn =? pp_inf then cn else if nn =? pp_inf then pp_inf else cn + nn) L) as [A1 A2].
    - apply bounds_combine; try assumption. destruct (can_combine cm cn nm nn); [reflexivity | discriminate].
    - split; [exact A1 | intros d H1 _; apply A2; exact H1]. }
  match type of E with (if ?b then _ else _) = _ => destruct b eqn:EB end.
  { assert (L : is_charloop ct = true) by (knum; lia).
    pose proof (wf_charloop_bounds _ _ _ _ _ _ _ _ Wc (kcls_charloop _ L)) as Bc.
    destruct (can_combine cm cn 1 1) eqn:EC; [|inversion E; subst; exact KEEP].
    inversion E; subst. destruct (LOOP (cm + 1) (if cn =? pp_inf then cn else cn + 1) L) as [A1 A2].
    - apply bounds_combine1; assumption.
    - split; [exact A1 | intros d H1 _; apply A2; exact H1]. }
  match type of E with (if ?b then _ else _) = _ => destruct b eqn:EC end.
  { assert (L : is_charloop ct = true) by (knum; lia). assert (nt = T_Multi) by (knum; lia). subst nt.
    pose proof (wf_charloop_bounds _ _ _ _ _ _ _ _ Wc (kcls_charloop _ L)) as Bc.
    assert (nkids = []) by (eapply wf_nokids; [exact Wn | left; reflexivity]). subst nkids.
    destruct nstr as [|c0 nstr']; [discriminate|].
    destruct ((cch =? c0) && negb (useRTL co)); [|inversion E; subst; exact KEEP].
    pose proof (count_prefix_range cch (c0 :: nstr')) as CP.
    destruct (can_combine cm cn (count_prefix cch (c0 :: nstr')) (count_prefix cch (c0 :: nstr'))) eqn:ECC; [|inversion E; subst; exact KEEP].
    destruct (LOOP (cm + count_prefix cch (c0 :: nstr')) (if cn =? pp_inf then cn else cn + count_prefix cch (c0 :: nstr')) L) as [A1 A2].
    { apply bounds_combine_k; [assumption | lia | assumption]. }
    destruct (zlen (c0 :: nstr') =? count_prefix cch (c0 :: nstr')).
    - inversion E; subst. split; [exact A1 | intros d H1 _; apply A2; exact H1].
    - destruct (zlen (c0 :: nstr') - count_prefix cch (c0 :: nstr') =? 1); inversion E; subst.
      + split; [exact A1|]. split; [apply wf_leaf; reflexivity|]. intros d H1 H2. split; [apply A2; exact H1|].
        rewrite <- H2. apply dirb_retype; reflexivity.
      + split; [exact A1|]. split; [apply wf_leaf; reflexivity|]. intros d H1 H2. split; [apply A2; exact H1|].
        rewrite <- H2. apply dirb_retype; reflexivity. }
  match type of E with (if ?b then _ else _) = _ => destruct b eqn:ED end.
  { assert (C : is_char1 ct = true) by (knum; lia). assert (L : is_charloop nt = true) by (knum; lia).
    destruct (char1_facts ct C) as [K1 [K2 [K3 [K4 K5]]]]. destruct (charloop_consuming nt L) as [L1 [L2 L3]].
    assert (ckids = []) by (eapply wf_nokids; [exact Wc | left; exact K1]). subst ckids.
    pose proof (wf_charloop_bounds _ _ _ _ _ _ _ _ Wn (kcls_charloop _ L)) as Bn.
    destruct (can_combine 1 1 nm nn) eqn:ECC; [|inversion E; subst; exact KEEP].
    inversion E; subst. split; [apply wf_charloop; [exact L | apply bounds_combine1'; assumption]|].
    intros d H1 _. rewrite <- H1. apply dirb_retype; congruence. }
  match type of E with (if ?b then _ else _) = _ => destruct b eqn:EE end.
  { inversion E; subst.
    destruct (make_rep_wf (RN ct co cch cm cn cstr cset ckids) T_Oneloop 2 2 Wc) as [A1 A2]; [cbn [n_t]; knum; lia | auto | reflexivity |].
    split; [exact A1 | intros d H1 _; rewrite A2; exact H1]. }
  inversion E; subst. exact KEEP.
Qed.

Lemma flat_concat_wf rtl : forall x, wf x -> wfl (flat_concat rtl x) /\ forall d, dirb d x = true -> dirl d (flat_concat rtl x).
Proof.
  induction x as [t o ch m n str st kids IH] using rnode_ind'. intros W. cbn [flat_concat].
  destruct ((t =? T_Concatenate) && Bool.eqb (useRTL o) rtl) eqn:Et.
  2:{ split; [apply wfl_cons; split; [exact W | apply wfl_nil] | intros d Hd; apply dirl_cons; split; [exact Hd | apply dirl_nil]]. }
  assert (t = T_Concatenate) by lia. subst t.
  pose proof (wf_kids _ W) as K. cbn [n_kids] in K.
  assert (G : wfl ((fix go (ks : list rnode) : list rnode := match ks with [] => [] | k :: ks' => flat_concat rtl k ++ go ks' end) kids) /\
              forall d, dirl d kids ->
                dirl d ((fix go (ks : list rnode) : list rnode := match ks with [] => [] | k :: ks' => flat_concat rtl k ++ go ks' end) kids)).
  { clear W. induction kids as [|k r IHr]; [split; [apply wfl_nil | intros; apply dirl_nil]|].
    inversion IH as [|? ? IHk IHr']; subst. apply wfl_cons in K. destruct K as [Wk Wr].
    destruct (IHk Wk) as [A1 A2]. destruct (IHr IHr' Wr) as [B1 B2].
    split; [apply wfl_app; auto|]. intros d Hd. apply dirl_cons in Hd. destruct Hd as [D1 D2]. apply dirl_app. auto. }
  destruct G as [G1 G2]. split; [exact G1|]. intros d Hd. apply G2. rewrite dirb_list_node in Hd by auto. exact Hd.
Qed.

(* the previous node takes a merge: it is a One or a Multi *)
Definition st_inv2 (s : st_state) : Prop :=
  wfl (st_out s) /\
  (st_was s = true -> exists prev out', st_out s = prev :: out' /\ (n_t prev = T_One \/ n_t prev = T_Multi)).

Lemma st_step_wf s x s' : st_inv2 s -> wf x -> st_step s x = Ok s' ->
  st_inv2 s' /\ forall d, dirl d (st_out s) -> dirb d x = true -> dirl d (st_out s').
Proof.
  intros [Wo Hw] Wx E. unfold st_step in E.
  destruct ((n_t x =? T_Multi) || (n_t x =? T_One)) eqn:E0.
  2:{ destruct (n_t x =? T_Empty); inversion E; subst; [split; [split; assumption | auto]|].
      split; [split; cbn; [apply wfl_cons; auto | discriminate] | intros d H1 H2; cbn; apply dirl_cons; auto]. }
  destruct (negb (st_was s) || negb (st_opt s =? li_mask (n_o x))) eqn:E2.
  { inversion E; subst. split; [split; cbn; [apply wfl_cons; auto|] | intros d H1 H2; cbn; apply dirl_cons; auto].
    intros _. exists x, (st_out s). split; [reflexivity | lia]. }
  assert (W : st_was s = true) by (destruct (st_was s); [reflexivity | discriminate]).
  destruct (Hw W) as [prev [out' [Eo Hp]]]. rewrite Eo in *.
  destruct prev as [pt po pch pm pn pstr pset pk]. inversion E; subst. cbn [n_t st_out st_was] in *.
  apply wfl_cons in Wo. destruct Wo as [Wp Wo'].
  assert (K : kcls pt = KLeaf /\ consuming pt = true /\ is_look pt = false /\ (pt =? T_ExprCond) = false)
    by (destruct Hp as [-> | ->]; repeat split; reflexivity).
  destruct K as [K1 [K2 [K3 K4]]].
  assert (pk = []) by (eapply wf_nokids; [exact Wp | left; exact K1]). subst pk.
  split.
  - split; [apply wfl_cons; split; [apply wf_leaf; reflexivity | exact Wo']|].
    intros _. eexists _, _. split; [reflexivity | right; reflexivity].
  - intros d Hd _. apply dirl_cons in Hd. destruct Hd as [D1 D2]. apply dirl_cons. split; [|exact D2].
    rewrite <- D1. apply dirb_retype; rewrite ?K2, ?K3, ?K4; reflexivity.
Qed.

Lemma st_run_wf l : forall s s', st_inv2 s -> wfl l -> st_run s l = Ok s' ->
  st_inv2 s' /\ forall d, dirl d (st_out s) -> dirl d l -> dirl d (st_out s').
Proof.
  induction l as [|x l IH]; intros s s' Is Wl E; cbn [st_run] in E.
  - inversion E; subst. auto.
  - apply wfl_cons in Wl. destruct Wl as [Wx Wl].
    destruct (st_step s x) as [s1| | |] eqn:E1; cbn [bind] in E; try discriminate.
    destruct (st_step_wf s x s1 Is Wx E1) as [A1 A2].
    destruct (IH s1 s' A1 Wl E) as [B1 B2].
    split; [exact B1|]. intros d D1 D2. apply dirl_cons in D2. destruct D2. apply B2; [apply A2|]; assumption.
Qed.

Lemma flat_map_concat_wf rtl l : wfl l ->
  wfl (flat_map (flat_concat rtl) l) /\ forall d, dirl d l -> dirl d (flat_map (flat_concat rtl) l).
Proof.
  induction l as [|x l IH]; intros W; cbn [flat_map]; [split; [apply wfl_nil | intros; apply dirl_nil]|].
  apply wfl_cons in W. destruct W as [Wx Wl]. destruct (flat_concat_wf rtl x Wx) as [A1 A2]. destruct (IH Wl) as [B1 B2].
  split; [apply wfl_app; auto|]. intros d Hd. apply dirl_cons in Hd. destruct Hd. apply dirl_app. auto.
Qed.

Section TreeOk2.
Variable is_word_char : Z -> bool.
Variable to_lower : Z -> Z.
Variable simple_fold : Z -> Z.
Variable participates : Z -> bool.
Variable cat_in : Z -> Z -> bool.
Variable cat_name : list Z -> Z.

Lemma cl_loop_wf l : forall cur l', Forall good l -> good cur -> wf cur -> wfl l -> cl_loop cur l = Ok l' ->
  wfl l' /\ forall d, dirb d cur = true -> dirl d l -> dirl d l'.
Proof.
  induction l as [|nx l IH]; intros cur l' Gl Gc Wc Wl E; cbn [cl_loop] in E.
  - inversion E; subst. split; [apply wfl_cons; split; [exact Wc | apply wfl_nil]|].
    intros d H _. apply dirl_cons. split; [exact H | apply dirl_nil].
  - inversion Gl; subst. apply wfl_cons in Wl. destruct Wl as [Wn Wl].
    destruct (cl_combine cur nx) as [r| | |] eqn:Er; cbn [bind] in E; try discriminate.
    pose proof (cl_combine_wf cur nx r Wc Wn Er) as R.
    match goal with G1 : good nx |- _ => destruct (cl_combine_ok is_word_char to_lower simple_fold participates cat_in cat_name cur nx Gc G1) as [r' [Er' Gr]] end.
    rewrite Er in Er'. inversion Er'; subst r'.
    destruct r as [c|c nx']; cbn [cl_res_ok] in R.
    + destruct R as [R1 R2]. destruct (IH c l') as [A1 A2]; try assumption.
      split; [exact A1|]. intros d Dc Dl. apply dirl_cons in Dl. destruct Dl. apply A2; auto.
    + destruct R as [R1 [R2 R3]]. destruct Gr as [Gr1 Gr2].
      destruct (cl_loop nx' l) as [t| | |] eqn:Et; cbn [bind] in E; try discriminate. inversion E; subst.
      destruct (IH nx' t) as [A1 A2]; try assumption.
      split; [apply wfl_cons; auto|]. intros d Dc Dl. apply dirl_cons in Dl. destruct Dl as [Dn Dl].
      destruct (R3 d Dc Dn). apply dirl_cons. split; [assumption | apply A2; assumption].
Qed.

Lemma reduce_concatenation_wf x y : Forall good (n_kids x) -> wfl (n_kids x) -> n_t x = T_Concatenate ->
  reduce_concatenation x = Ok y ->
  wf y /\ forall d, dirl d (n_kids x) -> dirb d y = true.
Proof.
  intros G K Ht E. unfold reduce_concatenation in E.
  destruct (n_kids x) as [|k0 [|k1 r]] eqn:Ek.
  - inversion E; subst. split; [apply wf_mk_node; reflexivity | intros d _; apply dirb_nonconsuming_leaf; reflexivity].
  - inversion E; subst. apply wfl_cons in K. split; [tauto|]. intros d Hd. apply dirl_cons in Hd. tauto.
  - destruct (find (fun k => n_t k =? T_Nothing) (k0 :: k1 :: r)) as [kn|] eqn:Ef.
    { inversion E; subst. apply find_some in Ef. destruct Ef as [Hin _].
      split; [eapply wfl_In; eassumption | intros d Hd; eapply dirl_In; eassumption]. }
    inversion G as [|? ? G0 Gr]; subst. apply wfl_cons in K. destruct K as [W0 Wr].
    destruct (cl_loop k0 (k1 :: r)) as [l1| | |] eqn:E1; cbn [bind] in E; try discriminate.
    destruct (cl_loop_wf (k1 :: r) k0 l1 Gr G0 W0 Wr E1) as [C1 C2].
    destruct (flat_map_concat_wf (useRTL (n_o x)) l1 C1) as [F1 F2].
    destruct (st_run (mkST [] false 0) (flat_map (flat_concat (useRTL (n_o x))) l1)) as [s'| | |] eqn:E2; cbn [bind] in E; try discriminate.
    destruct (st_run_wf _ (mkST [] false 0) s' ltac:(split; cbn; [apply wfl_nil | discriminate]) F1 E2) as [[S1 _] S2].
    inversion E; subst.
    destruct (replace_if_unnecessary_wf (set_kids x (rev (st_out s')))) as [R1 R2].
    + destruct x; cbn. apply wfl_rev. exact S1.
    + destruct x; cbn in *. right. exact Ht.
    + split; [exact R1|]. intros d Hd. apply R2. destruct x; cbn. apply dirl_rev. apply dirl_cons in Hd. destruct Hd as [D0 Dr].
      apply S2; [apply dirl_nil | apply F2; apply C2; assumption].
Qed.

End TreeOk2.

(* ---------------------------------------------------------------- reduceRep *)
Lemma pre_set_bounds t o ch m n str st kids m' n' :
  pre (RN t o ch m n str st kids) -> loopish t -> bounds_ok m' n' = true -> wf (RN t o ch m' n' str st kids).
Proof.
  intros [H W] L B. cbn [n_kids] in W. apply wf_iff. split; [|exact W]. unfold knd in *.
  destruct L as [L|L]; rewrite L in *.
  - destruct kids as [|k [|k2 r]]; try discriminate. apply andb_prop in H. destruct H as [_ H]. rewrite B, H. reflexivity.
  - apply andb_prop in H. destruct H as [H _]. rewrite H, B. reflexivity.
Qed.

Lemma wf_loopish_bounds x : wf x -> loopish (n_t x) -> bounds_ok (n_m x) (n_n x) = true.
Proof.
  destruct x as [t o ch m n str st kids]. cbn [n_t n_m n_n]. intros W L. apply wf_iff in W. destruct W as [H _].
  unfold knd in H. destruct L as [L|L]; rewrite L in H.
  - destruct kids as [|k [|k2 r]]; try discriminate. apply andb_prop in H. tauto.
  - apply andb_prop in H. tauto.
Qed.

Lemma rep_descend_wf t mn mx : is_loop_t t = true -> bounds_ok mn mx = true -> forall u um un,
  pre u -> loopish (n_t u) -> bounds_ok um un = true ->
  wf (rep_descend t mn mx u um un) /\ loopish (n_t (rep_descend t mn mx u um un)) /\
  bounds_ok (n_m (rep_descend t mn mx u um un)) (n_n (rep_descend t mn mx u um un)) = true /\
  (forall d, dirb d u = true -> dirb d (rep_descend t mn mx u um un) = true).
Proof.
  intros Ht Bq. induction u as [ut uo uch um0 un0 ustr uset ukids IH] using rnode_ind'. intros um un P L B.
  cbn [n_t] in L. cbn [rep_descend].
  assert (H0 : wf (RN ut uo uch um un ustr uset ukids) /\ loopish (n_t (RN ut uo uch um un ustr uset ukids)) /\
               bounds_ok (n_m (RN ut uo uch um un ustr uset ukids)) (n_n (RN ut uo uch um un ustr uset ukids)) = true /\
               (forall d, dirb d (RN ut uo uch um0 un0 ustr uset ukids) = true -> dirb d (RN ut uo uch um un ustr uset ukids) = true)).
  { split; [eapply pre_set_bounds; eassumption|]. split; [exact L|]. split; [exact B|].
    intros d Hd. rewrite <- Hd. apply dirb_retype; reflexivity. }
  destruct ukids as [|child r]; [exact H0|].
  match goal with |- context [if negb ?b then _ else _] => destruct b eqn:EV end; cbn [negb]; [|exact H0].
  match goal with |- context [if ?b then _ else _] => destruct b end; [exact H0|].
  (* u has a child: it is a Loop / Lazyloop with exactly this child *)
  assert (KL : kcls ut = KLoop).
  { destruct L as [L|L]; [exact L|]. destruct P as [H _]. unfold knd in H. rewrite L in H. discriminate. }
  destruct (wf_loop_inv _ _ _ _ _ _ _ _ P KL) as [k [Ek [Wk _]]]. inversion Ek; subst k r.
  inversion IH as [|? ? IHc _]; subst.
  assert (Lc : loopish (n_t child)).
  { assert (T : t = T_Loop \/ t = T_Lazyloop) by (knum; lia).
    assert (C : n_t child = t \/ is_charloop (n_t child) = true).
    { destruct (n_t child =? t) eqn:E1; [left; lia|]. right.
      destruct (t =? T_Loop) eqn:E2.
      - destruct ((n_t child =? T_Oneloop) || (n_t child =? T_Notoneloop) || (n_t child =? T_Setloop)) eqn:E3; [knum; lia|].
        destruct (is_atomicloop_family (n_t child)) eqn:E4; [knum; lia | discriminate].
      - knum. lia. }
    destruct C as [C|C]; [left; rewrite C; destruct T as [-> | ->]; reflexivity | right; apply kcls_charloop; exact C]. }
  pose proof (wf_loopish_bounds child Wk Lc) as Bc.
  destruct (IHc (mulsat (n_m child) mn) (mulsat (n_n child) mx) (wf_pre _ Wk) Lc (mulsat_bounds _ _ _ _ Bc Bq)) as [R1 [R2 [R3 R4]]].
  unfold mulsat in *.
  split; [exact R1|]. split; [exact R2|]. split; [exact R3|].
  intros d Hd. apply R4. rewrite loop_kid_dir in Hd by exact KL. exact Hd.
Qed.

Lemma reduce_rep_wf x : pre x -> is_loop_t (n_t x) = true ->
  wf (reduce_rep x) /\ forall d, dirb d x = true -> dirb d (reduce_rep x) = true.
Proof.
  intros P Ht. destruct x as [t o ch m n str st kids]. cbn [n_t] in Ht.
  assert (KL : kcls t = KLoop) by (assert (t = T_Loop \/ t = T_Lazyloop) by (knum; lia); destruct H as [-> | ->]; reflexivity).
  destruct (wf_loop_inv _ _ _ _ _ _ _ _ P KL) as [k [-> [Wk [B Dk]]]].
  unfold reduce_rep.
  destruct (rep_descend_wf t m n Ht B (RN t o ch m n str st [k]) m n P (or_introl KL) B) as [U1 [U2 [U3 U4]]].
  set (u := rep_descend t m n (RN t o ch m n str st [k]) m n) in *.
  assert (GEN : wf (if m =? pp_inf then mk_node T_Nothing o
    else match n_kids u with
         | [c] => if (n_t c =? T_One) || (n_t c =? T_Notone) || (n_t c =? T_Set)
                  then make_rep c (if n_t u =? T_Lazyloop then T_Onelazy else T_Oneloop) (n_m u) (n_n u)
                  else u
         | _ => u
         end) /\
    forall d, dirb d (RN t o ch m n str st [k]) = true ->
      dirb d (if m =? pp_inf then mk_node T_Nothing o
    else match n_kids u with
         | [c] => if (n_t c =? T_One) || (n_t c =? T_Notone) || (n_t c =? T_Set)
                  then make_rep c (if n_t u =? T_Lazyloop then T_Onelazy else T_Oneloop) (n_m u) (n_n u)
                  else u
         | _ => u
         end) = true).
  { destruct (m =? pp_inf); [split; [apply wf_mk_node; reflexivity | intros d _; apply dirb_nonconsuming_leaf; reflexivity]|].
    clearbody u. destruct u as [ut uo uch um un ustr ust ukids]. cbn [n_kids n_t n_m n_n] in *.
    destruct ukids as [|c [|c2 r]]; try (split; [exact U1 | exact U4]).
    destruct ((n_t c =? T_One) || (n_t c =? T_Notone) || (n_t c =? T_Set)) eqn:E; [|split; [exact U1 | exact U4]].
    assert (Wc : wf c) by (apply wf_kids in U1; cbn in U1; apply wfl_cons in U1; tauto).
    assert (KU : kcls ut = KLoop).
    { destruct U2 as [L|L]; [exact L|]. apply wf_iff in U1. destruct U1 as [H _]. unfold knd in H. rewrite L in H. discriminate. }
    destruct (make_rep_wf c (if ut =? T_Lazyloop then T_Onelazy else T_Oneloop) um un Wc E) as [M1 M2].
    - destruct (ut =? T_Lazyloop); auto.
    - exact U3.
    - split; [exact M1|]. intros d Hd. rewrite M2. specialize (U4 d Hd). rewrite loop_kid_dir in U4 by exact KU. exact U4. }
  destruct (n_t k =? T_Empty); [|exact GEN].
  split; [exact Wk|]. intros d Hd. rewrite loop_kid_dir in Hd by exact KL. exact Hd.
Qed.

(* ---------------------------------------------------------------- reduce, addChild, makeQuantifier *)
Lemma pre_reopt t o ch m n str st kids o' :
  pre (RN t o ch m n str st kids) -> pre (RN t o' ch m n str st kids).
Proof. intros [H W]. split; [exact H | exact W]. Qed.

Lemma econd_kids t o ch m n str st kids :
  pre (RN t o ch m n str st kids) -> t = T_ExprCond ->
  exists c r, kids = c :: r /\ wf c /\ wfl r /\ (1 <= length r <= 2)%nat.
Proof.
  intros [H W] ->. unfold knd in H. cbn in H. cbn [n_kids] in W.
  destruct kids as [|c [|c2 [|c3 [|c4 r]]]]; try discriminate; exists c; eexists; (split; [reflexivity|]);
    apply wfl_cons in W; destruct W as [W1 W2]; (split; [exact W1|]); (split; [exact W2|]); cbn; lia.
Qed.

Section TreeOk3.
Variable is_word_char : Z -> bool.
Variable to_lower : Z -> Z.
Variable simple_fold : Z -> Z.
Variable participates : Z -> bool.
Variable cat_in : Z -> Z -> bool.
Variable cat_name : list Z -> Z.

Local Notation reduce := (reduce cat_in).
Local Notation add_child := (add_child cat_in).
Local Notation make_quantifier := (make_quantifier cat_in).
Local Notation RALT := (reduce_alternation_wf is_word_char to_lower simple_fold participates cat_in cat_name).
Local Notation RCAT := (reduce_concatenation_wf is_word_char to_lower simple_fold participates cat_in cat_name).
Local Notation ROK := (reduce_ok is_word_char to_lower simple_fold participates cat_in cat_name).

Lemma reduce_wf_h : forall h x y, (height x <= h)%nat -> good x -> pre x -> reduce x = Ok y ->
  wf y /\ forall d, dirb d x = true -> dirb d y = true.
Proof.
  induction h as [|h IH]; intros x y Hh G P E; [destruct x; cbn in Hh; lia|].
  destruct x as [t o ch m n str st kids]. cbn [Parser.reduce] in E.
  set (o1 := if t =? T_Ref then o else clear_I o) in *.
  assert (G1 : good (RN t o1 ch m n str st kids)) by (eapply good_retype; [exact G| | |]; auto).
  pose proof (good_kids _ G1) as K1. cbn [n_kids] in K1.
  assert (P1 : pre (RN t o1 ch m n str st kids)) by (eapply pre_reopt; exact P).
  pose proof (proj2 P1) as W1. cbn [n_kids] in W1.
  assert (D1 : forall d, dirb d (RN t o ch m n str st kids) = dirb d (RN t o1 ch m n str st kids)).
  { intros d. apply dirb_retype; try reflexivity. subst o1. destruct (t =? T_Ref); [reflexivity | symmetry; apply useRTL_clear_I]. }
  assert (FIN : forall z, (wf z /\ forall d, dirb d (RN t o1 ch m n str st kids) = true -> dirb d z = true) ->
                 wf z /\ forall d, dirb d (RN t o ch m n str st kids) = true -> dirb d z = true).
  { intros z [Z1 Z2]. split; [exact Z1|]. intros d Hd. apply Z2. rewrite <- D1. exact Hd. }
  destruct (t =? T_Alternate) eqn:E1.
  { apply FIN. destruct (RALT (RN t o1 ch m n str st kids) y K1 W1 ltac:(cbn; lia) E) as [A1 A2]. split; [exact A1|].
    intros d Hd. apply A2. cbn [n_kids]. rewrite dirb_list_node in Hd by (left; lia). exact Hd. }
  destruct (t =? T_Atomic) eqn:E2.
  { apply FIN. apply reduce_atomic_wf; [exact P1 | cbn; lia | exact E]. }
  destruct (t =? T_Concatenate) eqn:E3.
  { apply FIN. destruct (RCAT (RN t o1 ch m n str st kids) y K1 W1 ltac:(cbn; lia) E) as [A1 A2]. split; [exact A1|].
    intros d Hd. apply A2. cbn [n_kids]. rewrite dirb_list_node in Hd by (right; lia). exact Hd. }
  destruct (t =? T_Group) eqn:E4.
  { apply FIN. apply reduce_group_wf; [|exact E]. apply pre_wf; [|exact P1]. cbn [n_t]. assert (t = T_Group) by lia. subst t. discriminate. }
  destruct ((t =? T_Loop) || (t =? T_Lazyloop)) eqn:E5.
  { apply FIN. assert (Ey : y = reduce_rep (RN t o1 ch m n str st kids)) by congruence. subst y. apply reduce_rep_wf; [exact P1 | exact E5]. }
  destruct ((t =? T_PosLook) || (t =? T_NegLook)) eqn:E6.
  { apply FIN. destruct (reduce_lookaround_wf _ y P1 E6 E) as [A1 A2]. split; [exact A1 | intros d _; apply A2]. }
  destruct (is_set_family t) eqn:E7.
  { apply FIN. apply reduce_set_node_wf; [|exact E7 | exact E].
    apply pre_wf; [|exact P1]. cbn [n_t]. assert (T : t = 11 \/ t = 5 \/ t = 8 \/ t = 45) by (knum; lia).
    destruct T as [-> | [-> | [-> | ->]]]; discriminate. }
  destruct (t =? T_ExprCond) eqn:E8.
  { apply FIN. assert (t = T_ExprCond) by lia. subst t.
    destruct (econd_kids _ _ _ _ _ _ _ _ P1 eq_refl) as [cond [r [Ek [Wc [Wr Lr]]]]]. subst kids.
    set (kids2 := match cond :: r with [_; _] => (cond :: r) ++ [mk_node T_Empty o1] | _ => cond :: r end) in *.
    assert (K2 : exists r2, kids2 = cond :: r2 /\ wfl r2 /\ (2 <= length (cond :: r2) <= 3)%nat /\
                  forall d, dirl d r -> dirl d r2).
    { subst kids2. destruct r as [|b [|c r']].
      - cbn in Lr. lia.
      - exists [b; mk_node T_Empty o1]. cbn [app]. split; [reflexivity|]. split.
        + apply wfl_cons. split; [apply wfl_cons in Wr; tauto|]. apply wfl_cons. split; [apply wf_mk_node; reflexivity | apply wfl_nil].
        + split; [cbn; lia|]. intros d Hd. apply dirl_cons in Hd. apply dirl_cons. split; [tauto|].
          apply dirl_cons. split; [apply dirb_nonconsuming_leaf; reflexivity | apply dirl_nil].
      - exists (b :: c :: r'). split; [reflexivity|]. split; [exact Wr|]. split; [cbn in *; lia | auto]. }
    destruct K2 as [r2 [Ek2 [Wr2 [L2 Dr2]]]]. rewrite Ek2 in E. clearbody kids2. clear Ek2.
    assert (ARITY : forall c0, knd true (RN T_ExprCond o1 ch m n str st (c0 :: r2)) = true).
    { intros c0. unfold knd. cbn. destruct r2 as [|b [|c [|c4 r']]]; try reflexivity; cbn in L2; lia. }
    assert (DIR : forall c0 d, dirb d (RN T_ExprCond o1 ch m n str st (cond :: r)) = true ->
                   dirb d (RN T_ExprCond o1 ch m n str st (c0 :: r2)) = true).
    { intros c0 d Hd. rewrite dirb_econd in Hd |- *. cbn [tl] in Hd |- *. apply Dr2. exact Hd. }
    destruct cond as [ct co cch cm cn cstr cst ckids].
    destruct ((ct =? T_PosLook) && negb (useRTL co)) eqn:EC.
    - assert (ct = T_PosLook) by lia. subst ct.
      destruct (unary_kid _ _ _ _ _ _ _ _ (wf_pre _ Wc) eq_refl) as [c [-> Wcc]].
      assert (Gc : good c).
      { inversion K1 as [|? ? Hc _]; subst. apply good_kids in Hc. cbn in Hc. inversion Hc; assumption. }
      destruct (reduce c) as [c'| | |] eqn:Ec; cbn [bind] in E; try discriminate. inversion E; subst.
      destruct (IH c c') as [C1 _]; [cbn [height] in Hh |- *; lia | exact Gc | apply wf_pre; exact Wcc | exact Ec |].
      split; [|intros d Hd; cbn [tl]; apply DIR; exact Hd].
      apply wf_iff. split; [apply ARITY | apply wfl_cons; split; [exact C1 | exact Wr2]].
    - inversion E; subst. split; [|intros d Hd; apply DIR; exact Hd].
      apply wf_iff. split; [apply ARITY | apply wfl_cons; split; [exact Wc | exact Wr2]]. }
  destruct (t =? T_BackRefCond) eqn:E9.
  { apply FIN. assert (t = T_BackRefCond) by lia. subst t.
    destruct kids as [|k [|k2 r]].
    - inversion E; subst. destruct P1 as [H _]. discriminate.
    - inversion E; subst. apply wfl_cons in W1. destruct W1 as [Wk _]. split.
      + apply wf_iff. split; [destruct P1 as [H _]; cbn in H |- *; exact H|]. apply wfl_cons. split; [exact Wk|]. apply wfl_cons. split; [apply wf_mk_node; reflexivity | apply wfl_nil].
      + intros d Hd. rewrite dirb_bref in Hd |- *. cbn [forallb] in Hd |- *. unfold mk_node.
        rewrite dirb_nonconsuming_leaf by reflexivity. exact Hd.
    - inversion E; subst. split; [apply pre_wf; [discriminate | exact P1] | auto]. }
  apply FIN. inversion E; subst. split; [|auto]. apply pre_wf; [|exact P1]. cbn [n_t].
  intros KA. revert KA E1. knum. repeat match goal with |- context [if ?b then _ else _] => destruct b eqn:? end; intros; try discriminate; lia.
Qed.

Lemma reduce_wf x y : good x -> pre x -> reduce x = Ok y -> wf y /\ forall d, dirb d x = true -> dirb d y = true.
Proof. apply (reduce_wf_h (height x)). lia. Qed.

Lemma add_child_wf parent child p' : good child -> pre child -> add_child parent child = Ok p' ->
  exists r, p' = set_kids parent (n_kids parent ++ [r]) /\ wf r /\ forall d, dirb d child = true -> dirb d r = true.
Proof.
  intros G P E. unfold Parser.add_child in E. destruct (reduce child) as [r| | |] eqn:Er; cbn [bind] in E; try discriminate.
  inversion E; subst. exists r. split; [reflexivity|]. eapply reduce_wf; eassumption.
Qed.

Lemma make_quantifier_wf x lazy mn mx y d0 :
  good x -> pre x -> dirb d0 x = true -> bounds_ok mn mx = true -> make_quantifier x lazy mn mx = Ok y ->
  pre y /\ forall d, dirb d x = true -> dirb d y = true.
Proof.
  intros G P D0 B E. destruct x as [t o ch m n str st kids]. unfold Parser.make_quantifier in E.
  destruct ((mn =? 0) && (mx =? 0)).
  { inversion E; subst. split; [apply wf_pre; apply wf_mk_node; reflexivity | intros d _; apply dirb_nonconsuming_leaf; reflexivity]. }
  destruct ((mn =? 1) && (mx =? 1)); [inversion E; subst; auto|].
  destruct ((mn =? mx) && (mx <=? pp_multi_limit) && (t =? T_One)) eqn:E3.
  { assert (t = T_One) by lia. subst t. inversion E; subst.
    assert (kids = []) by (destruct P as [H _]; cbn in H; destruct kids; [reflexivity | discriminate]). subst kids.
    split; [apply wf_pre; apply wf_leaf; reflexivity|]. intros d Hd. rewrite <- Hd. apply dirb_retype; reflexivity. }
  destruct ((t =? T_One) || (t =? T_Notone) || (t =? T_Set)) eqn:E4.
  { inversion E; subst.
    assert (W : wf (RN t o ch m n str st kids)).
    { apply pre_wf; [|exact P]. cbn [n_t]. rewrite (proj1 (char1_facts t E4)). discriminate. }
    destruct (make_rep_wf (RN t o ch m n str st kids) (if lazy then T_Onelazy else T_Oneloop) mn mx W E4) as [M1 M2].
    - destruct lazy; auto.
    - exact B.
    - split; [apply wf_pre; exact M1 | intros d Hd; rewrite M2; exact Hd]. }
  destruct (add_child_wf _ _ _ G P E) as [r [-> [Wr Dr]]]. cbn [mk_node_mn set_kids n_kids app].
  split.
  - split; [|cbn [n_kids]; apply wfl_cons; split; [exact Wr | apply wfl_nil]].
    unfold knd. destruct lazy; cbn; rewrite B; cbn; specialize (Dr d0 D0); destruct d0; rewrite Dr; [apply orb_true_r | reflexivity | apply orb_true_r | reflexivity].
  - intros d Hd. destruct lazy; rewrite loop_kid_dir by reflexivity; apply Dr; exact Hd.
Qed.

End TreeOk3.

Lemma reverse_left_pre x : wfl (n_kids x) -> n_t x = T_Concatenate ->
  pre (reverse_left x) /\ forall d, dirl d (n_kids x) -> dirb d (reverse_left x) = true.
Proof.
  intros K Ht. unfold reverse_left. destruct (useRTL (n_o x) && (n_t x =? T_Concatenate)).
  - destruct x as [t o ch m n str st kids]. cbn [n_kids n_t set_kids] in *. subst t. split.
    + split; [reflexivity | cbn [n_kids]; apply wfl_rev; exact K].
    + intros d Hd. rewrite dirb_list_node by auto. apply dirl_rev. exact Hd.
  - destruct x as [t o ch m n str st kids]. cbn [n_kids n_t] in *. subst t. split.
    + split; [reflexivity | exact K].
    + intros d Hd. rewrite dirb_list_node by auto. exact Hd.
Qed.

(* ---------------------------------------------------------------- node constructors *)
Section Ctors.
Variable simple_fold : Z -> Z.
Variable cat_in : Z -> Z -> bool.

(* a fresh single-character node under the options o: well formed and running in o's direction *)
Definition unit_ok (o : Z) (x : rnode) : Prop := wf x /\ dirb (useRTL o) x = true.

Lemma unit_ok_leaf o t o' ch m n str st :
  kcls t = KLeaf -> (t =? T_Ref) = false -> is_look t = false -> useRTL o' = useRTL o -> unit_ok o (RN t o' ch m n str st []).
Proof.
  intros K NR L R. split; [apply wf_leaf; assumption|]. rewrite dirb_leaf, L, R. destruct (consuming t); [apply eqb_refl_b | reflexivity].
Qed.

Lemma case_conv_unit t o ch st y : is_char1 t = true ->
  case_conv simple_fold cat_in (RN t o ch 0 0 [] st []) = POk y -> unit_ok o y.
Proof.
  intros C E. destruct (char1_facts t C) as [K1 [K2 [K3 [K4 K5]]]]. unfold case_conv in E.
  destruct (negb (useI o)); [inversion E; subst; apply unit_ok_leaf; auto|].
  destruct (0 <? ch).
  - destruct (negb (simple_fold ch =? ch)); [|inversion E; subst; apply unit_ok_leaf; auto].
    destruct (case_close simple_fold cat_in (add_char cat_in empty_cls ch)); cbn [pbind] in E; try discriminate.
    inversion E; subst.
    assert (T : t = 9 \/ t = 10 \/ t = 11) by (knum; lia).
    destruct T as [-> | [-> | ->]]; cbn; apply unit_ok_leaf; try reflexivity; apply useRTL_clear_I.
  - destruct st as [s|]; [|inversion E; subst; apply unit_ok_leaf; auto].
    destruct (case_close simple_fold cat_in s); cbn [pbind] in E; try discriminate.
    inversion E; subst. apply unit_ok_leaf; auto. apply useRTL_clear_I.
Qed.

Lemma mk_node_ch_unit t o ch y : is_char1 t = true -> mk_node_ch simple_fold cat_in t o ch = POk y -> unit_ok o y.
Proof. intros C E. eapply case_conv_unit; eassumption. Qed.

Lemma mk_node_set_unit o s y : mk_node_set simple_fold cat_in T_Set o s = POk y -> unit_ok o y.
Proof. intros E. eapply (case_conv_unit T_Set); [reflexivity | exact E]. Qed.

End Ctors.

End Caps.
