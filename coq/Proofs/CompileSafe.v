(* The unconditional corollaries: control-flow safety, totality and the stack-limit dichotomy for EVERY program the
   writer emits (Proofs/CompileTyEmit.v: compiled_tyck) -- no per-program check, no path hypothesis.

   compiled_path_ok            every state of every unbounded attempt is at an instruction boundary with the grouping
                               stack two words below its initial size (any tree, any writer configuration, any input)
   compiled_limit_dichotomy    C13's first sentence for compiled programs: under any limit the scan is
                               ErrBacktrackingStackLimit or agrees with the unlimited scan in EVERY outcome
   compile_exec_total          supported2 trees (cfg0): one execute() call never faults, returns given fuel for the
                               attempt's n steps, and under a limit returns the same state or the limit error
   compile_find_dichotomy      the same for the whole scan *)
From Verif Require Import Base.Prelude Model.Tree Model.Spec Model.VM Model.Writer Gen.RunnerGen
  Proofs.SpecBoundsProofs Proofs.VMLimitProofs Proofs.VMLimitSimProofs Proofs.VMCapacityProofs
  Proofs.VMU Proofs.VMUBridge Proofs.CompileDefs Proofs.CompileBalDefs
  Proofs.CompileTotal Proofs.CompileLimit Proofs.CompileLimitTop Proofs.CompileCfSafe Proofs.CompileTyped Proofs.CompileTyEmit.
From Coq Require Import Relations ZifyBool.

Theorem compiled_path_ok c root p : codes p = fst (compile c root) -> track_count (codes p) <= trackcount p ->
  forall e t, path_ok e p (a0 p t).
Proof.
  intros Hc Htk e t. destruct (compiled_tyck c root p Hc Htk) as [sh Hty]. exact (cf_path_ok e p sh Hty t).
Qed.
Print Assumptions compiled_path_ok.

Theorem compiled_limit_dichotomy c root strs cs e L fuel rtl start prevlen :
  let code := fst (compile c root) in
  let p := {| codes := code; strings := strs; trackcount := track_count code; capsize := cs |} in
  let r1 := vm_find e p L fuel rtl start prevlen in
  let r2 := vm_find e p (-1) fuel rtl start prevlen in
  r1 = Err E_StackLimit \/
  match r1, r2 with
  | Ok a, Ok b => same_result a b
  | Err c, Err c' => c = c'
  | Crash w, Crash w' => w = w'
  | Fuel, Fuel => True
  | _, _ => False
  end.
Proof.
  cbv zeta.
  set (p := {| codes := fst (compile c root); strings := strs; trackcount := track_count (fst (compile c root)); capsize := cs |}).
  destruct (compiled_tyck c root p eq_refl ltac:(cbn [codes trackcount p]; lia)) as [sh Hty].
  pose proof (cp_compiled_weight c root strs cs) as Hw. cbv zeta in Hw. fold p in Hw.
  destruct (ty_find_sim e p sh Hw Hty L fuel rtl start prevlen) as [H|H]; [left; exact H|].
  right.
  destruct (vm_find e p L fuel rtl start prevlen), (vm_find e p (-1) fuel rtl start prevlen); try exact H.
  eapply opt_rel_weaken. exact H.
Qed.
Print Assumptions compiled_limit_dichotomy.

Theorem compile_exec_total :
  forall (e : env) (p : program), 0 <= trackcount p -> track_count (codes p) <= trackcount p -> tlen e <= INF ->
  forall fuel o body t0 r,
  let root := NCapture o 0 (-1) body in
  codes p = fst (compile cfg0 root) -> strings p = snd (compile cfg0 root) ->
  supported2 root = true -> groups_ok2 (capsize p) root -> 0 <= t0 <= tlen e -> Z.of_nat fuel <= INF ->
  attempt e fuel root t0 = Ok r ->
  exists n : nat, forall L vfuel,
    let x := exec_at e p L vfuel t0 in
    ((x = Err E_StackLimit /\ 0 <= L) \/
     ((n < 1000 * vfuel)%nat /\ exists s', x = Ok s') \/
     ((1000 * vfuel <= n)%nat /\ x = Fuel)) /\
    (L < 0 -> (n < 1000 * vfuel)%nat -> exists s', x = Ok s').
Proof.
  intros e p Htc Htk Htl fuel o body t0 r root Hcodes Hstr Hs Hg Ht0 Hf Hatt.
  exact (compile_exec_total_partial e p Htc Htk Htl fuel o body t0 r Hcodes Hstr Hs Hg Ht0 Hf Hatt
           (compiled_path_ok cfg0 root p Hcodes Htk e t0)).
Qed.
Print Assumptions compile_exec_total.

Theorem compile_find_dichotomy :
  forall (e : env) (p : program), 0 <= trackcount p -> track_count (codes p) <= trackcount p -> tlen e <= INF ->
  forall fuel o body,
  let root := NCapture o 0 (-1) body in
  codes p = fst (compile cfg0 root) -> strings p = snd (compile cfg0 root) ->
  supported2 root = true -> groups_ok2 (capsize p) root -> Z.of_nat fuel <= INF ->
  (forall t, 0 <= t <= tlen e -> exists r, attempt e fuel root t = Ok r) ->
  forall L vfuel rtl start prevlen, 0 <= start <= tlen e ->
    let r1 := vm_find e p L vfuel rtl start prevlen in
    let r2 := vm_find e p (-1) vfuel rtl start prevlen in
    (r1 = Err E_StackLimit /\ 0 <= L) \/
    match r1, r2 with
    | Ok a, Ok b => same_result a b
    | Fuel, Fuel => True
    | _, _ => False
    end.
Proof.
  intros e p Htc Htk Htl fuel o body root Hcodes Hstr Hs Hg Hf Hatt.
  exact (compile_find_dichotomy_partial e p Htc Htk Htl fuel o body Hcodes Hstr Hs Hg Hf Hatt
           (fun t _ => compiled_path_ok cfg0 root p Hcodes Htk e t)).
Qed.
Print Assumptions compile_find_dichotomy.
