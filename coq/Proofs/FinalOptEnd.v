(* C05, proofs part 7: the bump-along marker, removal of ending backtracking (eliminateEndingBacktracking,
   Model/FinalOpt.fo_ee) and the gated reduce in its lite form preserve the meaning: fo_ee keeps the FIRST result
   (rw_hrefines), the reduce and the marker keep every result (rw_refines). *)
From Verif Require Import Base.Prelude Model.Tree Model.Spec Model.Rewrite Model.ParseLit Model.CharClass Model.Parser
  Model.FinalOpt
  Proofs.SpecProofs Proofs.SpecBoundsProofs Proofs.SpecTermProofs Proofs.RewriteProofs
  Proofs.FinalOptDen Proofs.FinalOptK Proofs.FinalOptLink Proofs.FinalOptLeaf Proofs.FinalOptWalk Proofs.FinalOptAtomic.
From Coq Require Import ZifyBool.

Section DenRel.
Variable e : env.
Notation den := (den e).

(* the fuel-free relations of Model/Rewrite.v, on the denotation *)
Lemma refines_den t t' : rw_refines e t t' <-> forall s, den t s = den t' s.
Proof.
  split.
  - intros H s. symmetry. apply fd_evals_den. apply H. apply fd_den_evals.
  - intros H s l Hl. apply fd_evals_den in Hl. apply fd_evals_den. rewrite <- H. exact Hl.
Qed.
Lemma hrefines_den t t' : rw_hrefines e t t' <-> forall s, hd_list (den t s) = hd_list (den t' s).
Proof.
  split.
  - intros H s. destruct (H s _ (fd_den_evals e t s)) as (l' & Hl' & Hh). apply fd_evals_den in Hl'. subst l'. exact Hh.
  - intros H s l Hl. apply fd_evals_den in Hl. subst l. exists (den t' s). split; [apply fd_den_evals | apply H].
Qed.
Lemma refines_sym t t' : rw_refines e t t' -> rw_refines e t' t.
Proof. rewrite !refines_den. intros H s. symmetry. apply H. Qed.
Lemma hrefines_sym t t' : rw_hrefines e t t' -> rw_hrefines e t' t.
Proof. rewrite !hrefines_den. intros H s. symmetry. apply H. Qed.
Lemma heqs_hrefines t t' : rw_heqs e t t' -> rw_hrefines e t t'.
Proof. apply rw_heqs_hrefines. Qed.

(* a node with at most one result: the first result is all there is *)
Definition single (t : node) : Prop := forall s, den t s = hd_list (den t s).
Lemma hrefines_single t t' : single t -> single t' -> rw_hrefines e t t' -> rw_refines e t t'.
Proof. rewrite hrefines_den, refines_den. intros H1 H2 H s. rewrite H1, H2. apply H. Qed.

Lemma single_atomic r : single (NAtomic r).
Proof. intros s. rewrite fd_den_atomic. symmetry. apply hd_list_idem. Qed.
Lemma single_poslook o r : single (NPosLook o r).
Proof. intros s. rewrite fd_den_poslook. destruct (hd_list (den r s)) as [|a [|b l]] eqn:E; try reflexivity.
  exfalso. destruct (den r s); cbn in E; discriminate. Qed.
Lemma single_neglook o r : single (NNegLook o r).
Proof. intros s. rewrite fd_den_neglook. destruct (hd_list (den r s)); reflexivity. Qed.

(* ---- every result kept: congruences not in RewriteProofs *)
Lemma fd_iterD_ext (B B' : st -> list st) lazy limit : (forall a, B a = B' a) ->
  forall n s mark count, iter_fuel limit count = n -> iterD B lazy limit s mark count = iterD B' lazy limit s mark count.
Proof.
  intros HB. induction n as [n IH] using lt_wf_ind. intros s mark count Hn.
  rewrite !fd_iterD_eq.
  assert (Hag : (count < 0 \/ count < limit) -> iter_again B lazy limit s count = iter_again B' lazy limit s count).
  { intros Hc. unfold iter_again. rewrite HB. apply flat_map_ext. intros a.
    apply (IH (iter_fuel limit (count + 1))); [subst n; unfold iter_fuel; lia | reflexivity]. }
  destruct lazy.
  - destruct (count <? 0) eqn:Ec; [apply Hag; lia|].
    destruct ((count <? limit) && negb (pos s =? mark)) eqn:E2; [rewrite Hag by lia; reflexivity | reflexivity].
  - destruct ((limit <=? count) || (pos s =? mark) && (0 <=? count)) eqn:E1; [reflexivity|].
    rewrite Hag by lia. reflexivity.
Qed.

Lemma loop_refines lazy o m n r r' : rw_refines e r r' -> rw_refines e (NLoop lazy o m n r) (NLoop lazy o m n r').
Proof.
  rewrite !refines_den. intros H s. rewrite !fd_den_loop.
  destruct (m =? 0).
  - apply (fd_iterD_ext _ _ lazy _ H _ _ _ _ eq_refl).
  - rewrite H. apply flat_map_ext. intros a. apply (fd_iterD_ext _ _ lazy _ H _ _ _ _ eq_refl).
Qed.
Lemma atomic_refines r r' : rw_refines e r r' -> rw_refines e (NAtomic r) (NAtomic r').
Proof. intros H. apply atomic_observes_head. apply rw_refines_hrefines. exact H. Qed.
Lemma poslook_refines o r r' : rw_refines e r r' -> rw_refines e (NPosLook o r) (NPosLook o r').
Proof. intros H. apply poslook_observes_head. apply rw_refines_hrefines. exact H. Qed.
Lemma neglook_refines o r r' : rw_refines e r r' -> rw_refines e (NNegLook o r) (NNegLook o r').
Proof. intros H. apply neglook_observes_head. apply rw_refines_hrefines. exact H. Qed.
Lemma backref_cond_refines o g y y' n n' : rw_refines e y y' ->
  match n, n' with Some a, Some b => rw_refines e a b | None, None => True | _, _ => False end ->
  rw_refines e (NBackRefCond o g y n) (NBackRefCond o g y' n').
Proof.
  rewrite !refines_den. intros Hy Hn s. rewrite !fd_den_backref_cond. destruct (is_matched g (caps s)); [apply Hy|].
  destruct n, n'; try contradiction; cbn [den_opt]; [|reflexivity]. rewrite refines_den in Hn. apply Hn.
Qed.
Lemma expr_cond_refines o c c' y y' n n' : rw_refines e c c' -> rw_refines e y y' ->
  match n, n' with Some a, Some b => rw_refines e a b | None, None => True | _, _ => False end ->
  rw_refines e (NExprCond o c y n) (NExprCond o c' y' n').
Proof.
  rewrite !refines_den. intros Hc Hy Hn s. rewrite !fd_den_expr_cond, Hc. destruct (den c' s); [|apply Hy].
  destruct n, n'; try contradiction; cbn [den_opt]; [|reflexivity]. rewrite refines_den in Hn. apply Hn.
Qed.
Lemma concat_at_refines o pre x x' post : rw_refines e x x' ->
  rw_refines e (NConcat o (pre ++ x :: post)) (NConcat o (pre ++ x' :: post)).
Proof.
  rewrite !refines_den. intros H s. rewrite !fd_den_concat, !fd_den_seq_app. cbn [den_seq].
  apply flat_map_ext. intros a. rewrite H. reflexivity.
Qed.
Lemma alt_at_refines o pre x x' post : rw_refines e x x' ->
  rw_refines e (NAlternate o (pre ++ x :: post)) (NAlternate o (pre ++ x' :: post)).
Proof.
  rewrite !refines_den. intros H s. rewrite !fd_den_alt, !flat_map_app. cbn [flat_map]. rewrite H. reflexivity.
Qed.
Lemma capture_refines o o' g u r r' : rw_refines e r r' -> rw_refines e (NCapture o g u r) (NCapture o' g u r').
Proof. rewrite !refines_den. intros H s. rewrite !fd_den_capture, H. reflexivity. Qed.

End DenRel.

Ltac fam_unfold := unfold fam, is_one_family, is_notone_family, is_set_family, is_oneloop_family, is_notoneloop_family,
  is_setloop_family, T_One, T_Oneloop, T_Onelazy, T_Oneloopatomic, T_Notone, T_Notoneloop, T_Notonelazy, T_Notoneloopatomic,
  T_Set, T_Setloop, T_Setlazy, T_Setloopatomic in *.

Section End.
Variable cat_in : Z -> Z -> bool.
Variables isw isew : Z -> bool.
Variable sid : cls -> Z.
Variable e : env.
Variable sets : list cls.
Hypothesis Henv : env_ok cat_in isw isew sid e sets.

Notation den := (den e).
Notation tr := (tr sid).
Notation sets_in := (sets_in sets).
Notation node_ok := (node_ok sets).

(* ---- makeLoopAtomic (tree.go:717-747) on the raw node is Model/Rewrite.make_loop_atomic on the tree *)
Lemma tr_mla x : fo_is_charloop (n_t x) || fo_is_charlazy (n_t x) = true ->
  tr (Parser.make_loop_atomic x) = Rewrite.make_loop_atomic (tr x).
Proof.
  intros Ht. destruct x as [t o ch m n str st kids]. cbn [n_t] in Ht.
  unfold fo_is_charloop, fo_is_charlazy, T_Oneloop, T_Notoneloop, T_Setloop, T_Onelazy, T_Notonelazy, T_Setlazy in Ht.
  assert (Hc : t = 3 \/ t = 4 \/ t = 5 \/ t = 6 \/ t = 7 \/ t = 8) by lia.
  destruct Hc as [-> | [-> | [-> | [-> | [-> | -> ]]]]]; try reflexivity.
  - (* Onelazy *)
    change (tr (RN 6 o ch m n str st kids)) with (NCharLoop COne LLazy o ch m n).
    cbn [Rewrite.make_loop_atomic Parser.make_loop_atomic].
    change ((6 =? T_Oneloop) || (6 =? T_Notoneloop) || (6 =? T_Setloop)) with false.
    change ((6 =? T_Onelazy) || (6 =? T_Notonelazy) || (6 =? T_Setlazy)) with true. cbv iota.
    destruct (m =? 0) eqn:Em; [reflexivity|].
    change (6 + (T_Oneloopatomic - T_Onelazy) =? T_Oneloopatomic) with true. cbn [andb].
    unfold MULTI_VS_REPEATER_LIMIT, pp_multi_limit. destruct ((2 <=? m) && (m <=? 64)) eqn:E2; reflexivity.
  - change (tr (RN 7 o ch m n str st kids)) with (NCharLoop CNotone LLazy o ch m n).
    cbn [Rewrite.make_loop_atomic Parser.make_loop_atomic].
    change ((7 =? T_Oneloop) || (7 =? T_Notoneloop) || (7 =? T_Setloop)) with false.
    change ((7 =? T_Onelazy) || (7 =? T_Notonelazy) || (7 =? T_Setlazy)) with true. cbv iota.
    destruct (m =? 0) eqn:Em; [reflexivity|].
    change (7 + (T_Oneloopatomic - T_Onelazy) =? T_Oneloopatomic) with false. cbn [andb]. reflexivity.
  - change (tr (RN 8 o ch m n str st kids)) with (NCharLoop CSet LLazy o (tr_set sid st) m n).
    cbn [Rewrite.make_loop_atomic Parser.make_loop_atomic].
    change ((8 =? T_Oneloop) || (8 =? T_Notoneloop) || (8 =? T_Setloop)) with false.
    change ((8 =? T_Onelazy) || (8 =? T_Notonelazy) || (8 =? T_Setlazy)) with true. cbv iota.
    destruct (m =? 0) eqn:Em; [reflexivity|].
    change (8 + (T_Oneloopatomic - T_Onelazy) =? T_Oneloopatomic) with false. cbn [andb]. reflexivity.
Qed.

Lemma wf_flags x : fo_wf x = true ->
  fo_arity_ok (n_t x) (length (n_kids x)) = true /\
  (is_set_family (n_t x) = true -> exists c, n_set x = Some c /\ cls_okb c = true) /\
  (forall kl, lk_of (n_t x) = Some kl -> 0 <= n_m x <= n_n x /\ n_m x < INF) /\
  (n_t x = 26 \/ n_t x = 27 -> 0 <= n_m x <= n_n x /\ n_m x < INF) /\
  (n_t x = 12 -> n_str x <> []) /\
  (n_t x <> 13 -> n_t x <> 28 -> useI (n_o x) = false) /\
  forallb fo_wf (n_kids x) = true.
Proof.
  rewrite fo_wf_unfold. intros H.
  repeat (apply andb_prop in H; let H' := fresh "W" in destruct H as [H H']).
  split; [exact H|]. split.
  { intros Es. rewrite Es in W4. destruct (n_set x) as [c|]; [exists c; split; [reflexivity|exact W4] | discriminate]. }
  split. { intros kl Hkl. rewrite Hkl in W3. lia. }
  split. { intros Ht. replace ((n_t x =? 26) || (n_t x =? 27)) with true in W2 by lia. lia. }
  split. { intros Ht. rewrite Ht in W1. cbn in W1. apply andb_prop in W1. destruct W1 as [W1 _].
           destruct (n_str x); [discriminate|discriminate]. }
  split. { intros H13 H28. replace ((n_t x =? 13) || (n_t x =? 28)) with false in W0 by lia. destruct (useI (n_o x)); [discriminate|reflexivity]. }
  exact W.
Qed.

Lemma repeat_nonempty (c : Z) m : 1 <= m -> repeat_rune c m <> [].
Proof. intros Hm. unfold repeat_rune. destruct (Z.to_nat m) eqn:E; [lia|]. discriminate. Qed.

Lemma mla_lazy_eq t o ch m n str st kids : t = 6 \/ t = 7 \/ t = 8 ->
  Parser.make_loop_atomic (RN t o ch m n str st kids) =
  if m =? 0 then RN 23 o 0 m m [] st kids
  else if (t =? 6) && (2 <=? m) && (m <=? 64) then RN 12 o 0 0 0 (repeat_rune ch m) st kids
  else RN (t + 37) o ch m m str st kids.
Proof. intros [-> | [-> | ->]]; reflexivity. Qed.

Lemma node_ok_mla x : node_ok x -> fo_is_charloop (n_t x) || fo_is_charlazy (n_t x) = true ->
  node_ok (Parser.make_loop_atomic x).
Proof.
  intros Hok Ht. destruct (fo_is_charloop (n_t x)) eqn:Eg.
  { apply (node_ok_mla_greedy sets 15 eq_refl eq_refl eq_refl eq_refl); assumption. }
  cbn [orb] in Ht. destruct Hok as [Hwf Hs].
  destruct (wf_flags x Hwf) as (Har & Hset & Hlk & _ & _ & Hci & _).
  destruct x as [t o ch m n str st kids]. cbn [n_t n_kids n_set n_m n_n n_str n_o] in *.
  unfold fo_is_charlazy, T_Onelazy, T_Notonelazy, T_Setlazy in Ht.
  assert (Hc : t = 6 \/ t = 7 \/ t = 8) by lia.
  assert (Hk : kids = []).
  { destruct Hc as [-> | [-> | ->]]; cbn in Har; destruct kids; try reflexivity; discriminate. }
  subst kids.
  assert (Hb : 0 <= m <= n /\ m < INF) by (destruct Hc as [-> | [-> | ->]]; eapply Hlk; reflexivity).
  assert (Hci' : useI o = false) by (apply Hci; lia).
  rewrite (mla_lazy_eq t o ch m n str st [] Hc).
  destruct (m =? 0) eqn:Em.
  { split; [|cbn [FinalOptLeaf.sets_in] in *; tauto].
    rewrite fo_wf_unfold. cbn [n_t n_kids n_set n_m n_n n_str n_o length forallb]. cbn. rewrite Hci'. reflexivity. }
  destruct ((t =? 6) && (2 <=? m) && (m <=? 64)) eqn:E2.
  { split; [|cbn [FinalOptLeaf.sets_in] in *; tauto].
    rewrite fo_wf_unfold. cbn [n_t n_kids n_set n_m n_n n_str n_o length forallb]. cbn. rewrite Hci'.
    pose proof (repeat_nonempty ch m ltac:(lia)) as Hne. destruct (repeat_rune ch m); [contradiction|reflexivity]. }
  split; [|cbn [FinalOptLeaf.sets_in] in *; tauto].
  rewrite fo_wf_unfold. cbn [n_t n_kids n_set n_m n_n n_str n_o length forallb].
  destruct Hc as [-> | [-> | ->]]; cbn; rewrite ?Hci'; cbn [negb andb]; try lia.
  destruct (Hset eq_refl) as (cs & -> & Hokc). rewrite Hokc. cbn [andb]. lia.
Qed.

Lemma mla_hrefines x : node_ok x -> fo_is_charloop (n_t x) || fo_is_charlazy (n_t x) = true ->
  rw_hrefines e (tr x) (tr (Parser.make_loop_atomic x)).
Proof.
  intros [Hwf Hs] Ht. rewrite (tr_mla x Ht).
  destruct (wf_flags x Hwf) as (_ & _ & Hlk & _ & _ & Hci & _).
  unfold fo_is_charloop, fo_is_charlazy, T_Oneloop, T_Notoneloop, T_Setloop, T_Onelazy, T_Notonelazy, T_Setlazy in Ht.
  assert (exists k l, lk_of (n_t x) = Some (k, l)) as (k & l & Hkl).
  { assert (Hc : n_t x = 3 \/ n_t x = 4 \/ n_t x = 5 \/ n_t x = 6 \/ n_t x = 7 \/ n_t x = 8) by lia.
    destruct Hc as [E | [E | [E | [E | [E | E]]]]]; rewrite E; cbn; eexists; eexists; reflexivity. }
  rewrite (tr_charloop sid x k l Hkl). apply rw_heqs_hrefines. apply make_loop_atomic_heqs.
  unfold loop_atomic_ok. destruct l; try exact I.
  destruct (Hlk _ Hkl) as [Hb Hi]. split; [exact Hb|]. split; [exact Hi|].
  intros _ Hcio. exfalso. rewrite is_ci_useI in Hcio. rewrite Hci in Hcio; [discriminate | lia | lia].
Qed.

(* ---- the bump-along marker (338-368): every result kept *)
Lemma tr_bump o : tr (RN T_Bump o 0 0 0 [] None []) = NBump.
Proof. reflexivity. Qed.

Lemma bump_insert_refines o x rest : rw_refines e (NConcat o (x :: rest)) (NConcat o (x :: NBump :: rest)).
Proof.
  apply refines_den. intros s. rewrite !fd_den_concat. cbn [den_seq].
  apply flat_map_ext. intros a. rewrite fd_den_bump. cbn [flat_map]. rewrite app_nil_r. reflexivity.
Qed.

Lemma node_ok_bump o : useI o = false -> node_ok (RN T_Bump o 0 0 0 [] None []).
Proof. intros Ho. split; [|cbn; tauto]. rewrite fo_wf_unfold. cbn. rewrite Ho. reflexivity. Qed.

Theorem bump_sound : forall f g node aba committing node' mk,
  fo_bump f g node aba committing = Ok (node', mk) -> node_ok node ->
  node_ok node' /\ rw_refines e (tr node) (tr node') /\
  match mk with Some b => b = RN T_Bump (n_o node) 0 0 0 [] None [] /\ node' = node /\ n_t node <> 13 /\ n_t node <> 28 | None => True end.
Proof.
  induction f as [|f IH]; intros g node aba committing node' mk H Hok; [discriminate|].
  cbn [fo_bump] in H.
  destruct (n_t node =? T_Atomic) eqn:Ea.
  { destruct (n_kids node) as [|k ks] eqn:Ek; [discriminate|].
    destruct (fo_bump f g k aba (committing || negb aba)) as [[k' mk']| | |] eqn:Eb; cbn [bind] in H; try discriminate.
    injection H as <- <-. cbn [fst].
    destruct (kids_one node ltac:(unfold T_Atomic in *; lia) (proj1 Hok)) as [k0 Hk0]. rewrite Ek in Hk0. injection Hk0 as Ek0 Eks. subst ks k0.
    assert (Hk : node_ok k) by (apply (node_ok_kid sets node); [exact Hok | rewrite Ek; left; reflexivity]).
    destruct (IH _ _ _ _ _ _ Eb Hk) as (Hk' & Hr & _).
    split; [apply node_ok_set_kids; [exact Hok | rewrite Ek; reflexivity | constructor; [exact Hk'|constructor]]|].
    split; [|exact I].
    destruct (set_kids_fields node [k']) as (Ht' & _ & _ & _ & _ & _ & _ & Hk2).
    rewrite (tr_atomic sid node k) by (first [exact Ek | unfold T_Atomic in *; lia]).
    rewrite (tr_atomic sid (set_kids node [k']) k') by (first [exact Hk2 | rewrite Ht'; unfold T_Atomic in *; lia]).
    apply atomic_refines. exact Hr. }
  destruct (n_t node =? T_Concatenate) eqn:Ec.
  { destruct (n_kids node) as [|k ks] eqn:Ek; [discriminate|].
    destruct (fo_bump f g k false committing) as [[k' mk']| | |] eqn:Eb; cbn [bind] in H; try discriminate.
    injection H as <- <-. cbn [fst snd].
    assert (Hk : node_ok k) by (apply (node_ok_kid sets node); [exact Hok | rewrite Ek; left; reflexivity]).
    assert (Hks : Forall node_ok ks).
    { rewrite Forall_forall. intros r Hr. apply (node_ok_kid sets node); [exact Hok | rewrite Ek; right; exact Hr]. }
    destruct (IH _ _ _ _ _ _ Eb Hk) as (Hk' & Hr & Hmk).
    rewrite (tr_concat sid node) by (unfold T_Concatenate in *; lia). rewrite Ek. cbn [map].
    destruct mk' as [b|].
    - destruct Hmk as (-> & -> & Hn13 & Hn28).
      assert (Hob : node_ok (RN T_Bump (n_o k) 0 0 0 [] None [])).
      { apply node_ok_bump. destruct (wf_flags k (proj1 Hk)) as (_ & _ & _ & _ & _ & Hci & _). apply Hci; assumption. }
      destruct (set_kids_fields node (k :: RN T_Bump (n_o k) 0 0 0 [] None [] :: ks)) as (Ht' & Ho' & _ & _ & _ & _ & _ & Hk2).
      split.
      { destruct Hok as [Hwf Hs]. destruct node as [t o ch m n str st kids]. cbn [set_kids n_kids n_t] in *. subst kids. split.
        - rewrite fo_wf_unfold in Hwf |- *. cbn [n_t n_kids n_set n_m n_n n_str n_o] in *.
          replace t with 25 in * by (unfold T_Concatenate in *; lia).
          cbn [forallb length] in Hwf |- *. rewrite (proj1 Hob). cbn in Hwf |- *. exact Hwf.
        - cbn [FinalOptLeaf.sets_in] in Hs |- *. tauto. }
      split; [|exact I].
      rewrite (tr_concat sid (set_kids node _)) by (rewrite Ht'; unfold T_Concatenate in *; lia).
      rewrite Ho', Hk2. cbn [map]. rewrite tr_bump. apply bump_insert_refines.
    - split; [apply node_ok_set_kids; [exact Hok | rewrite Ek; reflexivity | constructor; assumption]|].
      split; [|exact I].
      destruct (set_kids_fields node (k' :: ks)) as (Ht' & Ho' & _ & _ & _ & _ & _ & Hk2).
      rewrite (tr_concat sid (set_kids node _)) by (rewrite Ht'; unfold T_Concatenate in *; lia).
      rewrite Ho', Hk2. cbn [map]. apply (concat_at_refines e (n_o node) [] (tr k) (tr k') (map tr ks)). exact Hr. }
  destruct ((n_n node =? pp_inf) && (fo_is_charloop (n_t node) || is_atomicloop_family (n_t node) || fo_is_charlazy (n_t node) && negb aba && negb committing)) eqn:Et.
  - injection H as <- <-. split; [exact Hok|]. split; [apply rw_refines_refl|].
    destruct (fo_gate g 4); [exact I|]. split; [reflexivity|]. split; [reflexivity|].
    unfold fo_is_charloop, fo_is_charlazy, is_atomicloop_family, T_Oneloop, T_Notoneloop, T_Setloop, T_Onelazy, T_Notonelazy, T_Setlazy,
      T_Oneloopatomic, T_Notoneloopatomic, T_Setloopatomic in Et. lia.
  - injection H as <- <-. split; [exact Hok|]. split; [apply rw_refines_refl|exact I].
Qed.

End End.
