(* C05, proofs part 7: the bump-along marker, removal of ending backtracking (eliminateEndingBacktracking,
   Model/FinalOpt.fo_ee) and the gated reduce in its lite form preserve the meaning: fo_ee keeps the FIRST result
   (rw_hrefines), the reduce and the marker keep every result (rw_refines). *)
From Verif Require Import Base.Prelude Gen.ParseLitGen Model.Tree Model.Spec Model.Rewrite Model.ParseLit Model.CharClass Model.Parser
  Model.FinalOpt
  Proofs.SpecProofs Proofs.SpecBoundsProofs Proofs.SpecTermProofs Proofs.RewriteProofs
  Proofs.FinalOptDen Proofs.FinalOptK Proofs.FinalOptPrune Proofs.FinalOptLink Proofs.FinalOptLeaf Proofs.FinalOptWalk Proofs.FinalOptAtomic Proofs.FinalOptAlt.
From Coq Require Import ZifyBool.

Section DenRel.
Variable e : env.
Notation den := (den e).

(* the fuel-free relations of Model/Rewrite.v, on the denotation *)
Lemma refines_den t t' : rw_refines e t t' <-> forall s, den t s = den t' s.
Proof.
  split.
  - intros H s. symmetry. apply fd_evals_den. apply H. apply fd_den_evals.
  - intros H s l Hl. apply fd_evals_den in Hl. apply fd_evals_den. rewrite <- H. exact Hl.
Qed.
Lemma hrefines_den t t' : rw_hrefines e t t' <-> forall s, hd_list (den t s) = hd_list (den t' s).
Proof.
  split.
  - intros H s. destruct (H s _ (fd_den_evals e t s)) as (l' & Hl' & Hh). apply fd_evals_den in Hl'. subst l'. exact Hh.
  - intros H s l Hl. apply fd_evals_den in Hl. subst l. exists (den t' s). split; [apply fd_den_evals | apply H].
Qed.
Lemma refines_sym t t' : rw_refines e t t' -> rw_refines e t' t.
Proof. rewrite !refines_den. intros H s. symmetry. apply H. Qed.
Lemma hrefines_sym t t' : rw_hrefines e t t' -> rw_hrefines e t' t.
Proof. rewrite !hrefines_den. intros H s. symmetry. apply H. Qed.
Lemma heqs_hrefines t t' : rw_heqs e t t' -> rw_hrefines e t t'.
Proof. apply rw_heqs_hrefines. Qed.

(* a node with at most one result: the first result is all there is *)
Definition single (t : node) : Prop := forall s, den t s = hd_list (den t s).
Lemma hrefines_single t t' : single t -> single t' -> rw_hrefines e t t' -> rw_refines e t t'.
Proof. rewrite hrefines_den, refines_den. intros H1 H2 H s. rewrite H1, H2. apply H. Qed.

Lemma single_atomic r : single (NAtomic r).
Proof. intros s. rewrite fd_den_atomic. symmetry. apply hd_list_idem. Qed.
Lemma single_poslook o r : single (NPosLook o r).
Proof. intros s. rewrite fd_den_poslook. destruct (hd_list (den r s)) as [|a [|b l]] eqn:E; try reflexivity.
  exfalso. destruct (den r s); cbn in E; discriminate. Qed.
Lemma single_neglook o r : single (NNegLook o r).
Proof. intros s. rewrite fd_den_neglook. destruct (hd_list (den r s)); reflexivity. Qed.

(* ---- every result kept: congruences not in RewriteProofs *)
Lemma fd_iterD_ext (B B' : st -> list st) lazy limit : (forall a, B a = B' a) ->
  forall n s mark count, iter_fuel limit count = n -> iterD B lazy limit s mark count = iterD B' lazy limit s mark count.
Proof.
  intros HB. induction n as [n IH] using lt_wf_ind. intros s mark count Hn.
  rewrite !fd_iterD_eq.
  assert (Hag : (count < 0 \/ count < limit) -> iter_again B lazy limit s count = iter_again B' lazy limit s count).
  { intros Hc. unfold iter_again. rewrite HB. apply flat_map_ext. intros a.
    apply (IH (iter_fuel limit (count + 1))); [subst n; unfold iter_fuel; lia | reflexivity]. }
  destruct lazy.
  - destruct (count <? 0) eqn:Ec; [apply Hag; lia|].
    destruct ((count <? limit) && negb (pos s =? mark)) eqn:E2; [rewrite Hag by lia; reflexivity | reflexivity].
  - destruct ((limit <=? count) || (pos s =? mark) && (0 <=? count)) eqn:E1; [reflexivity|].
    rewrite Hag by lia. reflexivity.
Qed.

Lemma loop_refines lazy o m n r r' : rw_refines e r r' -> rw_refines e (NLoop lazy o m n r) (NLoop lazy o m n r').
Proof.
  rewrite !refines_den. intros H s. rewrite !fd_den_loop.
  destruct (m =? 0).
  - apply (fd_iterD_ext _ _ lazy _ H _ _ _ _ eq_refl).
  - rewrite H. apply flat_map_ext. intros a. apply (fd_iterD_ext _ _ lazy _ H _ _ _ _ eq_refl).
Qed.
Lemma atomic_refines r r' : rw_refines e r r' -> rw_refines e (NAtomic r) (NAtomic r').
Proof. intros H. apply atomic_observes_head. apply rw_refines_hrefines. exact H. Qed.
Lemma poslook_refines o r r' : rw_refines e r r' -> rw_refines e (NPosLook o r) (NPosLook o r').
Proof. intros H. apply poslook_observes_head. apply rw_refines_hrefines. exact H. Qed.
Lemma neglook_refines o r r' : rw_refines e r r' -> rw_refines e (NNegLook o r) (NNegLook o r').
Proof. intros H. apply neglook_observes_head. apply rw_refines_hrefines. exact H. Qed.
Lemma backref_cond_refines o g y y' n n' : rw_refines e y y' ->
  match n, n' with Some a, Some b => rw_refines e a b | None, None => True | _, _ => False end ->
  rw_refines e (NBackRefCond o g y n) (NBackRefCond o g y' n').
Proof.
  rewrite !refines_den. intros Hy Hn s. rewrite !fd_den_backref_cond. destruct (is_matched g (caps s)); [apply Hy|].
  destruct n, n'; try contradiction; cbn [den_opt]; [|reflexivity]. rewrite refines_den in Hn. apply Hn.
Qed.
Lemma expr_cond_refines o c c' y y' n n' : rw_refines e c c' -> rw_refines e y y' ->
  match n, n' with Some a, Some b => rw_refines e a b | None, None => True | _, _ => False end ->
  rw_refines e (NExprCond o c y n) (NExprCond o c' y' n').
Proof.
  rewrite !refines_den. intros Hc Hy Hn s. rewrite !fd_den_expr_cond, Hc. destruct (den c' s); [|apply Hy].
  destruct n, n'; try contradiction; cbn [den_opt]; [|reflexivity]. rewrite refines_den in Hn. apply Hn.
Qed.
Lemma concat_at_refines o pre x x' post : rw_refines e x x' ->
  rw_refines e (NConcat o (pre ++ x :: post)) (NConcat o (pre ++ x' :: post)).
Proof.
  rewrite !refines_den. intros H s. rewrite !fd_den_concat, !fd_den_seq_app. cbn [den_seq].
  apply flat_map_ext. intros a. rewrite H. reflexivity.
Qed.
Lemma alt_at_refines o pre x x' post : rw_refines e x x' ->
  rw_refines e (NAlternate o (pre ++ x :: post)) (NAlternate o (pre ++ x' :: post)).
Proof.
  rewrite !refines_den. intros H s. rewrite !fd_den_alt, !flat_map_app. cbn [flat_map]. rewrite H. reflexivity.
Qed.
Lemma capture_refines o o' g u r r' : rw_refines e r r' -> rw_refines e (NCapture o g u r) (NCapture o' g u r').
Proof. rewrite !refines_den. intros H s. rewrite !fd_den_capture, H. reflexivity. Qed.

End DenRel.

Ltac fam_unfold := unfold fam, is_one_family, is_notone_family, is_set_family, is_oneloop_family, is_notoneloop_family,
  is_setloop_family, T_One, T_Oneloop, T_Onelazy, T_Oneloopatomic, T_Notone, T_Notoneloop, T_Notonelazy, T_Notoneloopatomic,
  T_Set, T_Setloop, T_Setlazy, T_Setloopatomic in *.

Section End.
Variable cat_in : Z -> Z -> bool.
Variables isw isew : Z -> bool.
Variable sid : cls -> Z.
Variable e : env.
Variable sets : list cls.
Hypothesis Henv : env_ok cat_in isw isew sid e sets.

Notation den := (den e).
Notation tr := (tr sid).
Notation sets_in := (sets_in sets).
Notation node_ok := (node_ok sets).

(* ---- makeLoopAtomic (tree.go:717-747) on the raw node is Model/Rewrite.make_loop_atomic on the tree *)
Lemma tr_mla x : fo_is_charloop (n_t x) || fo_is_charlazy (n_t x) = true ->
  tr (Parser.make_loop_atomic x) = Rewrite.make_loop_atomic (tr x).
Proof.
  intros Ht. destruct x as [t o ch m n str st kids]. cbn [n_t] in Ht.
  unfold fo_is_charloop, fo_is_charlazy, T_Oneloop, T_Notoneloop, T_Setloop, T_Onelazy, T_Notonelazy, T_Setlazy in Ht.
  assert (Hc : t = 3 \/ t = 4 \/ t = 5 \/ t = 6 \/ t = 7 \/ t = 8) by lia.
  destruct Hc as [-> | [-> | [-> | [-> | [-> | -> ]]]]]; try reflexivity.
  - (* Onelazy *)
    change (tr (RN 6 o ch m n str st kids)) with (NCharLoop COne LLazy o ch m n).
    cbn [Rewrite.make_loop_atomic Parser.make_loop_atomic].
    change ((6 =? T_Oneloop) || (6 =? T_Notoneloop) || (6 =? T_Setloop)) with false.
    change ((6 =? T_Onelazy) || (6 =? T_Notonelazy) || (6 =? T_Setlazy)) with true. cbv iota.
    destruct (m =? 0) eqn:Em; [reflexivity|].
    change (6 + (T_Oneloopatomic - T_Onelazy) =? T_Oneloopatomic) with true. cbn [andb].
    unfold MULTI_VS_REPEATER_LIMIT, pp_multi_limit. destruct ((2 <=? m) && (m <=? 64)) eqn:E2; reflexivity.
  - change (tr (RN 7 o ch m n str st kids)) with (NCharLoop CNotone LLazy o ch m n).
    cbn [Rewrite.make_loop_atomic Parser.make_loop_atomic].
    change ((7 =? T_Oneloop) || (7 =? T_Notoneloop) || (7 =? T_Setloop)) with false.
    change ((7 =? T_Onelazy) || (7 =? T_Notonelazy) || (7 =? T_Setlazy)) with true. cbv iota.
    destruct (m =? 0) eqn:Em; [reflexivity|].
    change (7 + (T_Oneloopatomic - T_Onelazy) =? T_Oneloopatomic) with false. cbn [andb]. reflexivity.
  - change (tr (RN 8 o ch m n str st kids)) with (NCharLoop CSet LLazy o (tr_set sid st) m n).
    cbn [Rewrite.make_loop_atomic Parser.make_loop_atomic].
    change ((8 =? T_Oneloop) || (8 =? T_Notoneloop) || (8 =? T_Setloop)) with false.
    change ((8 =? T_Onelazy) || (8 =? T_Notonelazy) || (8 =? T_Setlazy)) with true. cbv iota.
    destruct (m =? 0) eqn:Em; [reflexivity|].
    change (8 + (T_Oneloopatomic - T_Onelazy) =? T_Oneloopatomic) with false. cbn [andb]. reflexivity.
Qed.

Lemma wf_flags x : fo_wf x = true ->
  fo_arity_ok (n_t x) (length (n_kids x)) = true /\
  (is_set_family (n_t x) = true -> exists c, n_set x = Some c /\ cls_okb c = true) /\
  (forall kl, lk_of (n_t x) = Some kl -> 0 <= n_m x <= n_n x /\ n_m x < INF) /\
  (n_t x = 26 \/ n_t x = 27 -> 0 <= n_m x <= n_n x /\ n_m x < INF) /\
  (n_t x = 12 -> n_str x <> []) /\
  (n_t x <> 13 -> n_t x <> 28 -> useI (n_o x) = false) /\
  forallb fo_wf (n_kids x) = true.
Proof.
  rewrite fo_wf_unfold. intros H.
  repeat (apply andb_prop in H; let H' := fresh "W" in destruct H as [H H']).
  split; [exact H|]. split.
  { intros Es. rewrite Es in W4. destruct (n_set x) as [c|]; [exists c; split; [reflexivity|exact W4] | discriminate]. }
  split. { intros kl Hkl. rewrite Hkl in W3. lia. }
  split. { intros Ht. replace ((n_t x =? 26) || (n_t x =? 27)) with true in W2 by lia. lia. }
  split. { intros Ht. rewrite Ht in W1. cbn in W1. apply andb_prop in W1. destruct W1 as [W1 _].
           destruct (n_str x); [discriminate|discriminate]. }
  split. { intros H13 H28. replace ((n_t x =? 13) || (n_t x =? 28)) with false in W0 by lia. destruct (useI (n_o x)); [discriminate|reflexivity]. }
  exact W.
Qed.

Lemma repeat_nonempty (c : Z) m : 1 <= m -> repeat_rune c m <> [].
Proof. intros Hm. unfold repeat_rune. destruct (Z.to_nat m) eqn:E; [lia|]. discriminate. Qed.

Lemma mla_lazy_eq t o ch m n str st kids : t = 6 \/ t = 7 \/ t = 8 ->
  Parser.make_loop_atomic (RN t o ch m n str st kids) =
  if m =? 0 then RN 23 o 0 m m [] st kids
  else if (t =? 6) && (2 <=? m) && (m <=? 64) then RN 12 o 0 0 0 (repeat_rune ch m) st kids
  else RN (t + 37) o ch m m str st kids.
Proof. intros [-> | [-> | ->]]; reflexivity. Qed.

Lemma node_ok_mla x : node_ok x -> fo_is_charloop (n_t x) || fo_is_charlazy (n_t x) = true ->
  node_ok (Parser.make_loop_atomic x).
Proof.
  intros Hok Ht. destruct (fo_is_charloop (n_t x)) eqn:Eg.
  { apply (node_ok_mla_greedy sets 15 eq_refl eq_refl eq_refl); assumption. }
  cbn [orb] in Ht. destruct Hok as [Hwf Hs].
  destruct (wf_flags x Hwf) as (Har & Hset & Hlk & _ & _ & Hci & _).
  destruct x as [t o ch m n str st kids]. cbn [n_t n_kids n_set n_m n_n n_str n_o] in *.
  unfold fo_is_charlazy, T_Onelazy, T_Notonelazy, T_Setlazy in Ht.
  assert (Hc : t = 6 \/ t = 7 \/ t = 8) by lia.
  assert (Hk : kids = []).
  { destruct Hc as [-> | [-> | ->]]; cbn in Har; destruct kids; try reflexivity; discriminate. }
  subst kids.
  assert (Hb : 0 <= m <= n /\ m < INF) by (destruct Hc as [-> | [-> | ->]]; eapply Hlk; reflexivity).
  assert (Hci' : useI o = false) by (apply Hci; lia).
  rewrite (mla_lazy_eq t o ch m n str st [] Hc).
  destruct (m =? 0) eqn:Em.
  { split; [|cbn [FinalOptLeaf.sets_in] in *; tauto].
    rewrite fo_wf_unfold. cbn [n_t n_kids n_set n_m n_n n_str n_o length forallb]. cbn. rewrite Hci'. reflexivity. }
  destruct ((t =? 6) && (2 <=? m) && (m <=? 64)) eqn:E2.
  { split; [|cbn [FinalOptLeaf.sets_in] in *; tauto].
    rewrite fo_wf_unfold. cbn [n_t n_kids n_set n_m n_n n_str n_o length forallb]. cbn. rewrite Hci'.
    pose proof (repeat_nonempty ch m ltac:(lia)) as Hne. destruct (repeat_rune ch m); [contradiction|reflexivity]. }
  split; [|cbn [FinalOptLeaf.sets_in] in *; tauto].
  rewrite fo_wf_unfold. cbn [n_t n_kids n_set n_m n_n n_str n_o length forallb].
  destruct Hc as [-> | [-> | ->]]; cbn; rewrite ?Hci'; cbn [negb andb]; try lia.
  destruct (Hset eq_refl) as (cs & -> & Hokc). rewrite Hokc. cbn [andb]. lia.
Qed.

Lemma mla_hrefines x : node_ok x -> fo_is_charloop (n_t x) || fo_is_charlazy (n_t x) = true ->
  rw_hrefines e (tr x) (tr (Parser.make_loop_atomic x)).
Proof.
  intros [Hwf Hs] Ht. rewrite (tr_mla x Ht).
  destruct (wf_flags x Hwf) as (_ & _ & Hlk & _ & _ & Hci & _).
  unfold fo_is_charloop, fo_is_charlazy, T_Oneloop, T_Notoneloop, T_Setloop, T_Onelazy, T_Notonelazy, T_Setlazy in Ht.
  assert (exists k l, lk_of (n_t x) = Some (k, l)) as (k & l & Hkl).
  { assert (Hc : n_t x = 3 \/ n_t x = 4 \/ n_t x = 5 \/ n_t x = 6 \/ n_t x = 7 \/ n_t x = 8) by lia.
    destruct Hc as [E | [E | [E | [E | [E | E]]]]]; rewrite E; cbn; eexists; eexists; reflexivity. }
  rewrite (tr_charloop sid x k l Hkl). apply rw_heqs_hrefines. apply make_loop_atomic_heqs.
  unfold loop_atomic_ok. destruct l; try exact I.
  destruct (Hlk _ Hkl) as [Hb Hi]. split; [exact Hb|]. split; [exact Hi|].
  intros _ Hcio. exfalso. rewrite is_ci_useI in Hcio. rewrite Hci in Hcio; [discriminate | lia | lia].
Qed.

(* ---- the bump-along marker (338-368): every result kept *)
Lemma tr_bump o : tr (RN T_Bump o 0 0 0 [] None []) = NBump.
Proof. reflexivity. Qed.

Lemma bump_insert_refines o x rest : rw_refines e (NConcat o (x :: rest)) (NConcat o (x :: NBump :: rest)).
Proof.
  apply refines_den. intros s. rewrite !fd_den_concat. cbn [den_seq].
  apply flat_map_ext. intros a. rewrite fd_den_bump. cbn [flat_map]. rewrite app_nil_r. reflexivity.
Qed.

Lemma node_ok_bump o : useI o = false -> node_ok (RN T_Bump o 0 0 0 [] None []).
Proof. intros Ho. split; [|cbn; tauto]. rewrite fo_wf_unfold. cbn. rewrite Ho. reflexivity. Qed.

Theorem bump_sound : forall f g node aba committing node' mk,
  fo_bump f g node aba committing = Ok (node', mk) -> node_ok node ->
  node_ok node' /\ rw_refines e (tr node) (tr node') /\
  match mk with Some b => b = RN T_Bump (n_o node) 0 0 0 [] None [] /\ node' = node /\ n_t node <> 13 /\ n_t node <> 28 | None => True end.
Proof.
  induction f as [|f IH]; intros g node aba committing node' mk H Hok; [discriminate|].
  cbn [fo_bump] in H.
  destruct (n_t node =? T_Atomic) eqn:Ea.
  { destruct (n_kids node) as [|k ks] eqn:Ek; [discriminate|].
    destruct (fo_bump f g k aba (committing || negb aba)) as [[k' mk']| | |] eqn:Eb; cbn [bind] in H; try discriminate.
    injection H as <- <-. cbn [fst].
    destruct (kids_one node ltac:(unfold T_Atomic in *; lia) (proj1 Hok)) as [k0 Hk0]. rewrite Ek in Hk0. injection Hk0 as Ek0 Eks. subst ks k0.
    assert (Hk : node_ok k) by (apply (node_ok_kid sets node); [exact Hok | rewrite Ek; left; reflexivity]).
    destruct (IH _ _ _ _ _ _ Eb Hk) as (Hk' & Hr & _).
    split; [apply node_ok_set_kids; [exact Hok | rewrite Ek; reflexivity | constructor; [exact Hk'|constructor]]|].
    split; [|exact I].
    destruct (set_kids_fields node [k']) as (Ht' & _ & _ & _ & _ & _ & _ & Hk2).
    rewrite (tr_atomic sid node k) by (first [exact Ek | unfold T_Atomic in *; lia]).
    rewrite (tr_atomic sid (set_kids node [k']) k') by (first [exact Hk2 | rewrite Ht'; unfold T_Atomic in *; lia]).
    apply atomic_refines. exact Hr. }
  destruct (n_t node =? T_Concatenate) eqn:Ec.
  { destruct (n_kids node) as [|k ks] eqn:Ek; [discriminate|].
    destruct (fo_bump f g k false committing) as [[k' mk']| | |] eqn:Eb; cbn [bind] in H; try discriminate.
    injection H as <- <-. cbn [fst snd].
    assert (Hk : node_ok k) by (apply (node_ok_kid sets node); [exact Hok | rewrite Ek; left; reflexivity]).
    assert (Hks : Forall node_ok ks).
    { rewrite Forall_forall. intros r Hr. apply (node_ok_kid sets node); [exact Hok | rewrite Ek; right; exact Hr]. }
    destruct (IH _ _ _ _ _ _ Eb Hk) as (Hk' & Hr & Hmk).
    rewrite (tr_concat sid node) by (unfold T_Concatenate in *; lia). rewrite Ek. cbn [map].
    destruct mk' as [b|].
    - destruct Hmk as (-> & -> & Hn13 & Hn28).
      assert (Hob : node_ok (RN T_Bump (n_o k) 0 0 0 [] None [])).
      { apply node_ok_bump. destruct (wf_flags k (proj1 Hk)) as (_ & _ & _ & _ & _ & Hci & _). apply Hci; assumption. }
      destruct (set_kids_fields node (k :: RN T_Bump (n_o k) 0 0 0 [] None [] :: ks)) as (Ht' & Ho' & _ & _ & _ & _ & _ & Hk2).
      split.
      { destruct Hok as [Hwf Hs]. destruct node as [t o ch m n str st kids]. cbn [set_kids n_kids n_t] in *. subst kids. split.
        - rewrite fo_wf_unfold in Hwf |- *. cbn [n_t n_kids n_set n_m n_n n_str n_o] in *.
          replace t with 25 in * by (unfold T_Concatenate in *; lia).
          cbn [forallb length] in Hwf |- *. rewrite (proj1 Hob). cbn in Hwf |- *.
          destruct (length ks); cbn in Hwf |- *; [discriminate Hwf | exact Hwf].
        - cbn [FinalOptLeaf.sets_in] in Hs |- *. tauto. }
      split; [|exact I].
      rewrite (tr_concat sid (set_kids node _)) by (rewrite Ht'; unfold T_Concatenate in *; lia).
      rewrite Ho', Hk2. cbn [map]. rewrite tr_bump. apply bump_insert_refines.
    - split; [apply node_ok_set_kids; [exact Hok | rewrite Ek; reflexivity | constructor; assumption]|].
      split; [|exact I].
      destruct (set_kids_fields node (k' :: ks)) as (Ht' & Ho' & _ & _ & _ & _ & _ & Hk2).
      rewrite (tr_concat sid (set_kids node _)) by (rewrite Ht'; unfold T_Concatenate in *; lia).
      rewrite Ho', Hk2. cbn [map]. apply (concat_at_refines e (n_o node) [] (tr k) (tr k') (map tr ks)). exact Hr. }
  destruct ((n_n node =? pp_inf) && (fo_is_charloop (n_t node) || is_atomicloop_family (n_t node) || fo_is_charlazy (n_t node) && negb aba && negb committing)) eqn:Et.
  - injection H as <- <-. split; [exact Hok|]. split; [apply rw_refines_refl|].
    destruct (fo_gate g 4); [exact I|]. split; [reflexivity|]. split; [reflexivity|].
    unfold fo_is_charloop, fo_is_charlazy, is_atomicloop_family, T_Oneloop, T_Notoneloop, T_Setloop, T_Onelazy, T_Notonelazy, T_Setlazy,
      T_Oneloopatomic, T_Notoneloopatomic, T_Setloopatomic in Et. lia.
  - injection H as <- <-. split; [exact Hok|]. split; [apply rw_refines_refl|exact I].
Qed.

(* ---- helpers for the gated reduce *)
Lemma clear_I_noop o : useI o = false -> clear_I o = o.
Proof.
  unfold useI, pl_bit, clear_I, PL_IgnoreCase. intros H.
  assert (Z.land o 1 = 0) as Hl by lia.
  apply Z.bits_inj'. intros i Hi. rewrite Z.ldiff_spec.
  destruct (Z.eq_dec i 0) as [->|Hne].
  - assert (Z.testbit o 0 = false) as Hb.
    { pose proof (Z.land_spec o 1 0) as Hs. rewrite Hl in Hs. cbn in Hs. rewrite andb_true_r in Hs. symmetry. exact Hs. }
    rewrite Hb. reflexivity.
  - replace (Z.testbit 1 i) with false; [rewrite andb_true_r; reflexivity|].
    symmetry. destruct i; try lia; reflexivity.
Qed.

(* the node reduce() works on: IgnoreCase cleared in the options (tree.go:488-490) *)
Definition clr (x : rnode) : rnode := set_o x (if n_t x =? T_Ref then n_o x else clear_I (n_o x)).

Lemma clr_same x : fo_wf x = true -> n_t x <> 28 -> clr x = x.
Proof.
  intros Hwf H28. unfold clr. destruct (n_t x =? T_Ref) eqn:E; [destruct x; reflexivity|].
  destruct (wf_flags x Hwf) as (_ & _ & _ & _ & _ & Hci & _).
  rewrite clear_I_noop by (apply Hci; unfold T_Ref in *; lia). destruct x; reflexivity.
Qed.

Lemma single_charloop_atomic k o c m n : single e (NCharLoop k LAtomic o c m n).
Proof. intros s. rewrite fd_den_charloop. unfold sem_charloop. destruct (_ <? m); reflexivity. Qed.
Lemma single_empty : single e NEmpty.
Proof. intros s. rewrite fd_den_empty. reflexivity. Qed.
Lemma single_nothing : single e NNothing.
Proof. intros s. rewrite fd_den_nothing. reflexivity. Qed.
Lemma single_multi o str : single e (NMulti o str).
Proof. intros s. rewrite fd_den_multi. unfold sem_multi. repeat match goal with |- context [if ?c then _ else _] => destruct c end; reflexivity. Qed.

Lemma single_mla t : single e (Rewrite.make_loop_atomic t) \/ Rewrite.make_loop_atomic t = t.
Proof.
  destruct t; try (right; reflexivity). cbn [Rewrite.make_loop_atomic].
  destruct l.
  - left. apply single_charloop_atomic.
  - left. destruct (m =? 0); [apply single_empty|]. destruct k; try apply single_charloop_atomic.
    destruct ((2 <=? m) && (m <=? MULTI_VS_REPEATER_LIMIT)); [apply single_multi | apply single_charloop_atomic].
  - right. reflexivity.
Qed.

(* Atomic in front of a node with at most one result is that node *)
Lemma atomic_single_refines t : single e t -> rw_refines e (NAtomic t) t.
Proof. intros H. apply refines_den. intros s. rewrite fd_den_atomic. symmetry. apply H. Qed.
Lemma atomic_atomic_refines t : rw_refines e (NAtomic (NAtomic t)) (NAtomic t).
Proof. apply atomic_single_refines. apply single_atomic. Qed.

Lemma atomic_mla_refines x : node_ok x -> fo_is_charloop (n_t x) || fo_is_charlazy (n_t x) = true ->
  rw_refines e (NAtomic (tr x)) (tr (Parser.make_loop_atomic x)).
Proof.
  intros Hok Ht. pose proof (mla_hrefines x Hok Ht) as Hh. rewrite (tr_mla x Ht) in *.
  apply refines_den. intros s. rewrite fd_den_atomic. rewrite hrefines_den in Hh. rewrite (Hh s).
  destruct (single_mla (tr x)) as [Hs|Heq]; [symmetry; apply Hs|].
  (* make_loop_atomic left the tree alone: it is an atomic loop already; not for a greedy / lazy loop *)
  exfalso. unfold fo_is_charloop, fo_is_charlazy, T_Oneloop, T_Notoneloop, T_Setloop, T_Onelazy, T_Notonelazy, T_Setlazy in Ht.
  assert (Hc : n_t x = 3 \/ n_t x = 4 \/ n_t x = 5 \/ n_t x = 6 \/ n_t x = 7 \/ n_t x = 8) by lia.
  assert (exists k l, l <> LAtomic /\ lk_of (n_t x) = Some (k, l)) as (k & l & Hl & Hkl).
  { destruct Hc as [E | [E | [E | [E | [E | E]]]]]; rewrite E; cbn; eexists; eexists; split; try reflexivity; discriminate. }
  rewrite (tr_charloop sid x k l Hkl) in Heq. cbn [Rewrite.make_loop_atomic] in Heq.
  destruct l; try contradiction; try discriminate.
  destruct (n_m x =? 0); [discriminate|]. destruct k; try discriminate.
  destruct ((2 <=? n_m x) && (n_m x <=? MULTI_VS_REPEATER_LIMIT)); discriminate.
Qed.

Lemma tr_empty x : n_t x = T_Empty -> tr x = NEmpty.
Proof. intros H. rewrite tr_unfold. cbv zeta. rewrite H. reflexivity. Qed.
Lemma tr_nothing x : n_t x = T_Nothing -> tr x = NNothing.
Proof. intros H. rewrite tr_unfold. cbv zeta. rewrite H. reflexivity. Qed.

Lemma tr_atomicloop_single x : is_atomicloop_family (n_t x) = true -> single e (tr x).
Proof.
  unfold is_atomicloop_family, T_Oneloopatomic, T_Notoneloopatomic, T_Setloopatomic. intros H.
  assert (Hc : n_t x = 43 \/ n_t x = 44 \/ n_t x = 45) by lia.
  assert (exists k, lk_of (n_t x) = Some (k, LAtomic)) as (k & Hk).
  { destruct Hc as [E | [E | E]]; rewrite E; cbn; eexists; reflexivity. }
  rewrite (tr_charloop sid x k LAtomic Hk). apply single_charloop_atomic.
Qed.

Lemma innermost_spec : forall x, n_t x = T_Atomic -> node_ok x ->
  let a := fo_innermost_atomic x in
  n_t a = T_Atomic /\ node_ok a /\ rw_refines e (tr x) (tr a) /\
  exists child, n_kids a = [child] /\ n_t child <> T_Atomic.
Proof.
  induction x as [t o ch m n str st kids IHk] using rnode_ind'. intros Ht Hok. cbn [n_t] in Ht. subst t.
  destruct (kids_one (RN T_Atomic o ch m n str st kids) ltac:(cbn; unfold T_Atomic; lia) (proj1 Hok)) as [k Hk]. cbn [n_kids] in Hk. subst kids.
  cbn [fo_innermost_atomic]. destruct (n_t k =? T_Atomic) eqn:Ek.
  - inversion IHk as [|? ? IH0 _]; subst.
    assert (Hokk : node_ok k) by (apply (node_ok_kid sets (RN T_Atomic o ch m n str st [k])); [exact Hok | left; reflexivity]).
    destruct (IH0 ltac:(lia) Hokk) as (Ha & Hoka & Hr & Hc). split; [exact Ha|]. split; [exact Hoka|]. split; [|exact Hc].
    rewrite (tr_atomic sid (RN T_Atomic o ch m n str st [k]) k) by reflexivity.
    eapply rw_refines_trans; [apply atomic_refines; exact Hr|].
    rewrite (tr_atomic sid (fo_innermost_atomic k)) with (k := match n_kids (fo_innermost_atomic k) with c :: _ => c | [] => k end).
    + apply atomic_atomic_refines.
    + exact Ha.
    + destruct Hc as (c & -> & _). reflexivity.
  - split; [reflexivity|]. split; [exact Hok|]. split; [apply rw_refines_refl|]. exists k. split; [reflexivity|lia].
Qed.

(* ---- eliminateEndingBacktracking keeps the first result; the gated reduce (lite) keeps every result *)
Section EE.
Variable g strict : Z.
Hypothesis Hg16 : fo_gate g 16 = true.
Hypothesis HS0 : Z.testbit strict 0 = true.
Hypothesis HS1 : Z.testbit strict 1 = true.
Hypothesis HS2 : Z.testbit strict 2 = true.
Hypothesis HS3 : Z.testbit strict 3 = true.

Definition ee_spec (node node' : rnode) : Prop :=
  node_ok node' /\ rw_hrefines e (tr node) (tr node') /\
  ((n_t node = T_Atomic \/ n_t node = T_PosLook \/ n_t node = T_NegLook) -> n_t node' = n_t node /\ n_o node' = n_o node /\ length (n_kids node') = length (n_kids node)).
Definition red_spec (x x' : rnode) : Prop := node_ok x' /\ rw_refines e (tr x) (tr x').

Lemma node_ok_clr x : node_ok x -> node_ok (clr x) /\ rw_refines e (tr x) (tr (clr x)).
Proof.
  intros Hok. destruct (Z.eq_dec (n_t x) 28) as [E|E].
  - (* a capture: the options are not looked at *)
    destruct (kids_one x ltac:(lia) (proj1 Hok)) as [k Hk]. unfold clr.
    replace (n_t x =? T_Ref) with false by (unfold T_Ref; lia).
    destruct x as [t o ch m n str st kids]. cbn [n_t n_kids n_o set_o] in *. subst t kids. split.
    + destruct Hok as [Hwf Hs]. split; [|exact Hs]. rewrite fo_wf_unfold in Hwf |- *. exact Hwf.
    + rewrite (tr_capture sid (RN 28 o ch m n str st [k]) k), (tr_capture sid (RN 28 (clear_I o) ch m n str st [k]) k) by reflexivity.
      cbn [n_o n_m n_n]. apply capture_refines. apply rw_refines_refl.
  - rewrite (clr_same x (proj1 Hok) E). split; [exact Hok | apply rw_refines_refl].
Qed.

Lemma pos_only_NQ n : pos_only (NQ cat_in e n).
Proof. intros a b Hp [H1 H2]. unfold NQ. rewrite <- Hp. split; assumption. Qed.

Lemma set_mn_fields x m n : n_t (set_mn x m n) = n_t x /\ n_o (set_mn x m n) = n_o x /\ n_m (set_mn x m n) = m /\
  n_n (set_mn x m n) = n /\ n_kids (set_mn x m n) = n_kids x /\ n_set (set_mn x m n) = n_set x /\ n_str (set_mn x m n) = n_str x.
Proof. destruct x; repeat split; reflexivity. Qed.

Lemma Forall2_hrefines_alt o l l' : Forall2 (fun k k' => rw_hrefines e (tr k) (tr k')) l l' ->
  rw_hrefines e (NAlternate o (map tr l)) (NAlternate o (map tr l')).
Proof.
  intros H. apply alt_all_tail. induction H; cbn [map]; constructor; assumption.
Qed.

Lemma fo_ee_S f par node :
  fo_ee cat_in isw isew (S f) g strict true par node =
  if fo_gate g 2 then Ok node
  else
    let t := n_t node in
    let first_kid (pa : bool) (nd : rnode) : res rnode :=
      match n_kids nd with
      | [] => Crash 53
      | k :: ks => do k' <- fo_ee cat_in isw isew f g strict true pa k ; Ok (set_kids nd (k' :: ks))
      end in
    let as_loop (nd : rnode) : res rnode :=
      if n_n nd =? 1 then first_kid false nd
      else
        do r <- fo_loop_last false strict nd (fun first lastc =>
                  do b <- fo_cbma cat_in isw isew f strict lastc first [] false false false ;
                  if b then (do l' <- fo_ee cat_in isw isew f g strict true false lastc ; Ok (Some l')) else Ok None) ;
        match r with Some nd' => Ok nd' | None => Ok nd end in
    if fo_is_charloop t || fo_is_charlazy t then Ok (Parser.make_loop_atomic node)
    else if (t =? T_Atomic) || (t =? T_PosLook) || (t =? T_NegLook) then first_kid (t =? T_Atomic) node
    else if (t =? T_Capture) || (t =? T_Concatenate) then
      if (t =? T_Capture) && negb (n_n node =? -1) then Ok node
      else
        match rev (n_kids node) with
        | [] => Crash 54
        | ec :: rpre =>
            let et := n_t ec in
            if ((et =? T_Alternate) || (et =? T_BackRefCond) || (et =? T_ExprCond) || (et =? T_Loop) || (et =? T_Lazyloop))
               && negb par then
              do c1 <- fo_reduce cat_in isw isew f g strict true 0 T_Atomic ec ;
              do a1 <- fo_reduce cat_in isw isew f g strict true 0 t (RN T_Atomic (n_o ec) 0 0 0 [] None [c1]) ;
              do a2 <- (if n_t a1 =? T_Atomic then
                          match n_kids a1 with
                          | [c] => do c' <- fo_ee cat_in isw isew f g strict true true c ; Ok (set_kids a1 [c'])
                          | _ => Ok a1
                          end
                        else Ok a1) ;
              Ok (set_kids node (rev (a2 :: rpre)))
            else
              do ec' <- fo_ee cat_in isw isew f g strict true false ec ;
              Ok (set_kids node (rev (ec' :: rpre)))
        end
    else if (t =? T_Alternate) || (t =? T_BackRefCond) || (t =? T_ExprCond) then
      match n_kids node with
      | [] => Crash 55
      | k0 :: ks =>
          do ks' <- fo_map_res (fo_ee cat_in isw isew f g strict true false) ks ;
          do k0' <- (if t =? T_ExprCond then Ok k0 else fo_ee cat_in isw isew f g strict true false k0) ;
          Ok (set_kids node (k0' :: ks'))
      end
    else if t =? T_Lazyloop then as_loop (set_mn node (n_m node) (n_m node))
    else if t =? T_Loop then as_loop node
    else Ok node.
Proof. reflexivity. Qed.

Lemma fo_reduce_S f mode ptype t o ch m n str st kids :
  fo_reduce cat_in isw isew (S f) g strict true mode ptype (RN t o ch m n str st kids) =
  let o1 := if t =? T_Ref then o else clear_I o in
  let x1 := RN t o1 ch m n str st kids in
  if t =? T_Alternate then Ok x1
  else if t =? T_Atomic then
    let atomic := fo_innermost_atomic x1 in
    match n_kids atomic with
    | [] => Crash 22
    | child :: crest =>
        let ct := n_t child in
        let dflt (c : rnode) : res rnode :=
          do c' <- fo_ee cat_in isw isew f g strict true true c ; Ok (set_kids atomic (c' :: crest)) in
        if (ct =? T_Empty) || (ct =? T_Nothing) then Ok child
        else if is_atomicloop_family ct then Ok child
        else if fo_is_charloop ct || fo_is_charlazy ct then Ok (Parser.make_loop_atomic child)
        else if (ct =? T_Alternate) && negb (useRTL o1) then
          if fo_gate g 8 then dflt child
          else
            match n_kids child with
            | [] => Crash 46
            | b0 :: _ =>
                if n_t b0 =? T_Empty then Ok (mk_node T_Empty (n_o child))
                else
                  do keyed <- fo_map_res (fo_key strict) (fo_trim (n_kids child)) ;
                  let (brs, reordered) := fo_reorder (S (length keyed)) keyed in
                  let child1 := set_kids child brs in
                  do child2 <- (if reordered then fo_reduce cat_in isw isew f g strict true 0 T_Atomic child1 else Ok child1) ;
                  dflt child2
            end
        else dflt child
    end
  else if (t =? T_PosLook) || (t =? T_NegLook) then
    do x2 <- fo_ee cat_in isw isew f g strict true false x1 ;
    match n_kids x2 with
    | [] => Crash 21
    | k :: _ => if n_t k =? T_Empty
                then Ok (RN (if t =? T_PosLook then T_Empty else T_Nothing) o1 ch m n str st [])
                else Ok x2
    end
  else if t =? T_ExprCond then
    if mode =? 0 then
      match kids with
      | [] => Crash 28
      | c :: r => do c' <- fo_ee cat_in isw isew f g strict true false c ; Ok (set_kids x1 (c' :: r))
      end
    else
      match kids with
      | [] => Crash 28
      | c :: r =>
          if mode =? 2 then
            do c1 <- fo_ee cat_in isw isew f g strict true false c ;
            if n_t c1 =? T_Empty then Ok (RN t o1 ch m n str st (mk_node T_Empty o1 :: r))
            else
              do c2 <- fo_reduce cat_in isw isew f g strict true 0 T_ExprCond c1 ;
              do c3 <- fo_ee cat_in isw isew f g strict true false c2 ;
              Ok (RN t o1 ch m n str st (c3 :: r))
          else
            do c' <- fo_ee cat_in isw isew f g strict true false c ; Ok (RN t o1 ch m n str st (c' :: r))
      end
  else Ok x1.
Proof.
  cbn [fo_reduce]. cbv zeta. rewrite Hg16. cbn [andb].
  destruct (t =? T_Alternate); [reflexivity|].
  destruct (t =? T_Atomic).
  { destruct (n_kids (fo_innermost_atomic (RN t (if t =? T_Ref then o else clear_I o) ch m n str st kids))) as [|child crest]; [reflexivity|].
    destruct ((n_t child =? T_Empty) || (n_t child =? T_Nothing)); [reflexivity|].
    destruct (is_atomicloop_family (n_t child)); [reflexivity|].
    destruct (fo_is_charloop (n_t child) || fo_is_charlazy (n_t child)); [reflexivity|].
    reflexivity. }
  destruct ((t =? T_PosLook) || (t =? T_NegLook)); [reflexivity|].
  destruct (t =? T_ExprCond); [|reflexivity].
  destruct (mode =? 0); [|reflexivity].
  destruct kids; reflexivity.
Qed.

Theorem ee_red_sound : forall f,
  (forall par node node', fo_ee cat_in isw isew f g strict true par node = Ok node' -> node_ok node -> ee_spec node node') /\
  (forall mode ptype x x', fo_reduce cat_in isw isew f g strict true mode ptype x = Ok x' -> node_ok x -> red_spec x x').
Proof.
  induction f as [|f [IHE IHR]]; [split; intros; discriminate|].
  assert (HE : forall par node node', fo_ee cat_in isw isew (S f) g strict true par node = Ok node' -> node_ok node -> ee_spec node node').
  { intros par node node' H Hok. rewrite fo_ee_S in H.
    destruct (fo_gate g 2) eqn:Eg2; [injection H as <-; split; [exact Hok|]; split; [apply rw_hrefines_refl | intros _; repeat split; reflexivity]|].
    cbv zeta in H.
    destruct (fo_is_charloop (n_t node) || fo_is_charlazy (n_t node)) eqn:Ecl.
    { injection H as <-. split; [apply node_ok_mla; assumption|]. split; [apply mla_hrefines; assumption|].
      intros Ht. exfalso. unfold fo_is_charloop, fo_is_charlazy, T_Oneloop, T_Notoneloop, T_Setloop, T_Onelazy, T_Notonelazy, T_Setlazy,
        T_Atomic, T_PosLook, T_NegLook in *. lia. }
    destruct ((n_t node =? T_Atomic) || (n_t node =? T_PosLook) || (n_t node =? T_NegLook)) eqn:Eapn.
    { destruct (kids_one node ltac:(unfold T_Atomic, T_PosLook, T_NegLook in *; lia) (proj1 Hok)) as [k Ek]. rewrite Ek in H.
      destruct (fo_ee cat_in isw isew f g strict true (n_t node =? T_Atomic) k) as [k'| | |] eqn:Eee; cbn [bind] in H; try discriminate.
      injection H as <-.
      assert (Hk : node_ok k) by (apply (node_ok_kid sets node); [exact Hok | rewrite Ek; left; reflexivity]).
      destruct (IHE _ _ _ Eee Hk) as (Hk' & Hh & _).
      destruct (set_kids_fields node [k']) as (Ht' & Ho' & _ & _ & _ & _ & _ & Hk2).
      split; [apply node_ok_set_kids; [exact Hok | rewrite Ek; reflexivity | constructor; [exact Hk'|constructor]]|].
      split; [|intros _; rewrite Ht', Ho', Hk2, Ek; repeat split; reflexivity].
      destruct (n_t node =? T_Atomic) eqn:Ea.
      - rewrite (tr_atomic sid node k) by (first [exact Ek | unfold T_Atomic in *; lia]).
        rewrite (tr_atomic sid (set_kids node [k']) k') by (first [exact Hk2 | rewrite Ht'; unfold T_Atomic in *; lia]).
        apply atomic_tail. exact Hh.
      - destruct (n_t node =? T_PosLook) eqn:Ep.
        + rewrite (tr_poslook sid node k) by (first [exact Ek | unfold T_PosLook in *; lia]).
          rewrite (tr_poslook sid (set_kids node [k']) k') by (first [exact Hk2 | rewrite Ht'; unfold T_PosLook in *; lia]).
          rewrite Ho'. apply poslook_tail. exact Hh.
        + rewrite (tr_neglook sid node k) by (first [exact Ek | unfold T_NegLook, T_Atomic, T_PosLook in *; lia]).
          rewrite (tr_neglook sid (set_kids node [k']) k') by (first [exact Hk2 | rewrite Ht'; unfold T_NegLook, T_Atomic, T_PosLook in *; lia]).
          rewrite Ho'. apply neglook_tail. exact Hh. }
    assert (Hnt : ~ (n_t node = T_Atomic \/ n_t node = T_PosLook \/ n_t node = T_NegLook)) by (unfold T_Atomic, T_PosLook, T_NegLook in *; lia).
    assert (Hspec : forall nd', node_ok nd' -> rw_hrefines e (tr node) (tr nd') -> ee_spec node nd').
    { intros nd' H1 H2. split; [exact H1|]. split; [exact H2|]. intros Hc. contradiction. }
    destruct ((n_t node =? T_Capture) || (n_t node =? T_Concatenate)) eqn:Ecc.
    { destruct ((n_t node =? T_Capture) && negb (n_n node =? -1)) eqn:Ebal.
      { injection H as <-. apply Hspec; [exact Hok | apply rw_hrefines_refl]. }
      destruct (rev (n_kids node)) as [|ec rpre] eqn:Erev; [discriminate|]. apply rev_cons_inv in Erev.
      assert (Hec : node_ok ec) by (apply (node_ok_kid sets node); [exact Hok | rewrite Erev; apply in_or_app; right; left; reflexivity]).
      assert (Hpre : Forall node_ok (rev rpre)).
      { rewrite Forall_forall. intros k Hk. apply (node_ok_kid sets node); [exact Hok | rewrite Erev; apply in_or_app; left; exact Hk]. }
      (* whatever replaces the last child with the same first result *)
      assert (Hlast : forall ec', node_ok ec' -> rw_hrefines e (tr ec) (tr ec') -> ee_spec node (set_kids node (rev (ec' :: rpre)))).
      { intros ec' Hec' Hh. cbn [rev].
        destruct (set_kids_fields node (rev rpre ++ [ec'])) as (Ht' & Ho' & _ & Hm' & Hn' & _ & _ & Hk2).
        apply Hspec.
        - apply node_ok_set_kids; [exact Hok | rewrite Erev, !app_length; reflexivity|].
          apply Forall_app. split; [exact Hpre | constructor; [exact Hec'|constructor]].
        - destruct (n_t node =? T_Concatenate) eqn:Econ.
          + rewrite (tr_concat sid node) by (unfold T_Concatenate in *; lia).
            rewrite (tr_concat sid (set_kids node _)) by (rewrite Ht'; unfold T_Concatenate in *; lia).
            rewrite Ho', Hk2, Erev, !map_app. cbn [map]. apply concat_last_tail. exact Hh.
          + assert (Ecap : n_t node = T_Capture) by lia.
            destruct (kids_one node ltac:(unfold T_Capture in Ecap; lia) (proj1 Hok)) as [k0 Hk0]. rewrite Hk0 in Erev.
            assert (Hr : rpre = []).
            { destruct rpre as [|r0 rpre]; [reflexivity|]. exfalso. apply (f_equal (@length _)) in Erev.
              cbn [rev] in Erev. rewrite !app_length in Erev. cbn in Erev. lia. }
            subst rpre. cbn [rev app] in *. injection Erev as ->.
            rewrite (tr_capture sid node ec Ecap Hk0).
            rewrite (tr_capture sid (set_kids node [ec']) ec') by (first [exact Hk2 | rewrite Ht'; exact Ecap]).
            rewrite Ho', Hm', Hn'. replace (n_n node) with (-1) by lia. apply capture_tail. exact Hh. }
      destruct (((n_t ec =? T_Alternate) || (n_t ec =? T_BackRefCond) || (n_t ec =? T_ExprCond) || (n_t ec =? T_Loop) || (n_t ec =? T_Lazyloop)) && negb par) eqn:Ewrap.
      - (* wrap the last child in an Atomic node *)
        destruct (fo_reduce cat_in isw isew f g strict true 0 T_Atomic ec) as [c1| | |] eqn:Ec1; cbn [bind] in H; try discriminate.
        destruct (IHR _ _ _ _ Ec1 Hec) as [Hc1 Hr1].
        set (atom := RN T_Atomic (n_o ec) 0 0 0 [] None [c1]) in *.
        assert (Hatom : node_ok atom).
        { destruct Hc1 as [Hw1 Hs1]. split; [|cbn; tauto]. rewrite fo_wf_unfold. cbn. rewrite Hw1.
          destruct (wf_flags ec (proj1 Hec)) as (_ & _ & _ & _ & _ & Hci & _).
          rewrite Hci by (unfold T_Alternate, T_BackRefCond, T_ExprCond, T_Loop, T_Lazyloop in *; lia). reflexivity. }
        destruct (fo_reduce cat_in isw isew f g strict true 0 (n_t node) atom) as [a1| | |] eqn:Ea1; cbn [bind] in H; try discriminate.
        destruct (IHR _ _ _ _ Ea1 Hatom) as [Ha1 Hr2].
        assert (Hchain : rw_hrefines e (tr ec) (tr a1)).
        { eapply rw_hrefines_trans; [apply rw_refines_hrefines; exact Hr1|].
          eapply rw_hrefines_trans; [apply hrefines_sym; apply (proj1 (atomic_heq e (tr c1)))|].
          change (NAtomic (tr c1)) with (tr atom). apply rw_refines_hrefines. exact Hr2. }
        destruct (n_t a1 =? T_Atomic) eqn:Eat.
        + destruct (kids_one a1 ltac:(unfold T_Atomic in *; lia) (proj1 Ha1)) as [c Ekc]. rewrite Ekc in H.
          destruct (fo_ee cat_in isw isew f g strict true true c) as [c'| | |] eqn:Ecc'; cbn [bind] in H; try discriminate.
          injection H as <-.
          assert (Hc : node_ok c) by (apply (node_ok_kid sets a1); [exact Ha1 | rewrite Ekc; left; reflexivity]).
          destruct (IHE _ _ _ Ecc' Hc) as (Hc' & Hh & _).
          destruct (set_kids_fields a1 [c']) as (Ht2 & _ & _ & _ & _ & _ & _ & Hk3).
          apply Hlast.
          * apply node_ok_set_kids; [exact Ha1 | rewrite Ekc; reflexivity | constructor; [exact Hc'|constructor]].
          * eapply rw_hrefines_trans; [exact Hchain|].
            rewrite (tr_atomic sid a1 c) by (first [exact Ekc | unfold T_Atomic in *; lia]).
            rewrite (tr_atomic sid (set_kids a1 [c']) c') by (first [exact Hk3 | rewrite Ht2; unfold T_Atomic in *; lia]).
            apply atomic_tail. exact Hh.
        + injection H as <-. apply Hlast; [exact Ha1 | exact Hchain].
      - destruct (fo_ee cat_in isw isew f g strict true false ec) as [ec'| | |] eqn:Eec; cbn [bind] in H; try discriminate.
        injection H as <-. destruct (IHE _ _ _ Eec Hec) as (Hec' & Hh & _). apply Hlast; assumption. }
    destruct ((n_t node =? T_Alternate) || (n_t node =? T_BackRefCond) || (n_t node =? T_ExprCond)) eqn:Ealt.
    { destruct (n_kids node) as [|k0 ks] eqn:Ek; [discriminate|].
      destruct (fo_map_res (fo_ee cat_in isw isew f g strict true false) ks) as [ks'| | |] eqn:Eks; cbn [bind] in H; try discriminate.
      apply fo_map_res_Forall2 in Eks.
      assert (Hk0 : node_ok k0) by (apply (node_ok_kid sets node); [exact Hok | rewrite Ek; left; reflexivity]).
      assert (Hks : Forall node_ok ks).
      { rewrite Forall_forall. intros r Hr. apply (node_ok_kid sets node); [exact Hok | rewrite Ek; right; exact Hr]. }
      assert (Hall : Forall2 (fun k k' => node_ok k' /\ rw_hrefines e (tr k) (tr k')) ks ks').
      { clear -Eks Hks IHE. induction Eks as [|k k' l l' Hk _ IH]; [constructor|].
        inversion Hks as [|? ? Hka Hkb]; subst. destruct (IHE _ _ _ Hk Hka) as (HA & HB & _). constructor; [split; assumption | apply IH; assumption]. }
      assert (Hks'ok : Forall node_ok ks') by (clear -Hall; induction Hall as [|? ? ? ? [H _] _ IH]; constructor; assumption).
      assert (Hks'h : Forall2 (fun k k' => rw_hrefines e (tr k) (tr k')) ks ks') by (clear -Hall; induction Hall as [|? ? ? ? [_ H] _ IH]; constructor; assumption).
      assert (Hlen : length ks' = length ks) by (symmetry; eapply fo_Forall2_length; exact Eks).
      assert (Hk0' : exists k0', (if n_t node =? T_ExprCond then Ok k0 else fo_ee cat_in isw isew f g strict true false k0) = Ok k0' /\
                                 node_ok k0' /\ rw_hrefines e (tr k0) (tr k0')).
      { destruct (n_t node =? T_ExprCond).
        - exists k0. split; [reflexivity|]. split; [exact Hk0 | apply rw_hrefines_refl].
        - destruct (fo_ee cat_in isw isew f g strict true false k0) as [k0'| | |] eqn:E0; cbn [bind] in H; try discriminate.
          exists k0'. split; [reflexivity|]. destruct (IHE _ _ _ E0 Hk0) as (H1 & H2 & _). split; assumption. }
      destruct Hk0' as (k0' & E0 & Hk0'ok & Hk0'h). rewrite E0 in H. cbn [bind] in H. injection H as <-.
      destruct (set_kids_fields node (k0' :: ks')) as (Ht' & Ho' & _ & Hm' & _ & _ & _ & Hk2).
      apply Hspec.
      - apply node_ok_set_kids; [exact Hok | rewrite Ek; cbn [length]; lia | constructor; assumption].
      - destruct (n_t node =? T_Alternate) eqn:Ea.
        + rewrite (tr_alt sid node) by (unfold T_Alternate in *; lia).
          rewrite (tr_alt sid (set_kids node _)) by (rewrite Ht'; unfold T_Alternate in *; lia).
          rewrite Ho', Hk2, Ek. apply (Forall2_hrefines_alt (n_o node) (k0 :: ks) (k0' :: ks')). constructor; assumption.
        + destruct (n_t node =? T_BackRefCond) eqn:Eb.
          * destruct (kids_two node ltac:(unfold T_BackRefCond in *; lia) (proj1 Hok)) as (y & nn & Ek2). rewrite Ek in Ek2. injection Ek2 as -> ->.
            inversion Hks'h as [|? nn' ? l1 Hnn Hr]; subst. inversion Hr; subst.
            rewrite (tr_backref_cond sid node y nn) by (first [exact Ek | unfold T_BackRefCond in *; lia]).
            rewrite (tr_backref_cond sid (set_kids node [k0'; nn']) k0' nn') by (first [exact Hk2 | rewrite Ht'; unfold T_BackRefCond in *; lia]).
            rewrite Ho', Hm'. apply backref_cond_tail; [exact Hk0'h | exact Hnn].
          * destruct (kids_three node ltac:(unfold T_ExprCond, T_Alternate, T_BackRefCond in *; lia) (proj1 Hok)) as (c0 & y & nn & Ek3). rewrite Ek in Ek3. injection Ek3 as -> ->.
            inversion Hks'h as [|? y' ? l1 Hy Hr]; subst. inversion Hr as [|? nn' ? l2 Hnn Hr2]; subst. inversion Hr2; subst.
            replace (n_t node =? T_ExprCond) with true in E0 by (unfold T_ExprCond, T_Alternate, T_BackRefCond in *; lia). injection E0 as <-.
            rewrite (tr_expr_cond sid node c0 y nn) by (first [exact Ek | unfold T_ExprCond, T_Alternate, T_BackRefCond in *; lia]).
            rewrite (tr_expr_cond sid (set_kids node [c0; y'; nn']) c0 y' nn') by (first [exact Hk2 | rewrite Ht'; unfold T_ExprCond, T_Alternate, T_BackRefCond in *; lia]).
            rewrite Ho'. apply expr_cond_tail; [apply rw_hrefines_refl | exact Hy | exact Hnn]. }
    (* loops *)
    assert (Hloop : forall nd, node_ok nd -> (n_t nd = T_Loop \/ n_t nd = T_Lazyloop) ->
              forall nd', (if n_n nd =? 1
                           then match n_kids nd with [] => Crash 53 | k :: ks => do k' <- fo_ee cat_in isw isew f g strict true false k ; Ok (set_kids nd (k' :: ks)) end
                           else do r <- fo_loop_last false strict nd (fun first lastc =>
                                      do b <- fo_cbma cat_in isw isew f strict lastc first [] false false false ;
                                      if b then (do l' <- fo_ee cat_in isw isew f g strict true false lastc ; Ok (Some l')) else Ok None) ;
                                match r with Some nd' => Ok nd' | None => Ok nd end) = Ok nd' ->
              node_ok nd' /\ rw_hrefines e (tr nd) (tr nd')).
    { intros nd Hnd Htl nd' Hr.
      destruct (n_n nd =? 1) eqn:En1.
      - destruct (kids_one nd ltac:(unfold T_Loop, T_Lazyloop in *; lia) (proj1 Hnd)) as [k Ek]. rewrite Ek in Hr.
        destruct (fo_ee cat_in isw isew f g strict true false k) as [k'| | |] eqn:Eee; cbn [bind] in Hr; try discriminate.
        injection Hr as <-.
        assert (Hk : node_ok k) by (apply (node_ok_kid sets nd); [exact Hnd | rewrite Ek; left; reflexivity]).
        destruct (IHE _ _ _ Eee Hk) as (Hk' & Hh & _).
        destruct (set_kids_fields nd [k']) as (Ht' & Ho' & _ & Hm' & Hn' & _ & _ & Hk2).
        split; [apply node_ok_set_kids; [exact Hnd | rewrite Ek; reflexivity | constructor; [exact Hk'|constructor]]|].
        destruct (wf_flags nd (proj1 Hnd)) as (_ & _ & _ & Hb & _).
        assert (Hm01 : n_m nd = 0 \/ n_m nd = 1) by (specialize (Hb ltac:(unfold T_Loop, T_Lazyloop in *; lia)); lia).
        destruct Htl as [Etl|Etl].
        + rewrite (tr_loop sid nd k Etl Ek), (tr_loop sid (set_kids nd [k']) k') by (first [exact Hk2 | rewrite Ht'; exact Etl]).
          rewrite Ho', Hm', Hn'. replace (n_n nd) with 1 by lia. apply loop_one_tail; assumption.
        + rewrite (tr_lazyloop sid nd k Etl Ek), (tr_lazyloop sid (set_kids nd [k']) k') by (first [exact Hk2 | rewrite Ht'; exact Etl]).
          rewrite Ho', Hm', Hn'. replace (n_n nd) with 1 by lia. apply loop_one_tail; assumption.
      - (* FindLastExpressionInLoopForAutoAtomic: the last child of the body, disjoint from the body's first child *)
        unfold fo_loop_last in Hr.
        destruct (kids_one nd ltac:(unfold T_Loop, T_Lazyloop in *; lia) (proj1 Hnd)) as [b Eb]. rewrite Eb in Hr.
        set (k0 := fun first lastc : rnode =>
                     do b <- fo_cbma cat_in isw isew f strict lastc first [] false false false ;
                     if b then (do l' <- fo_ee cat_in isw isew f g strict true false lastc ; Ok (Some l')) else Ok None) in Hr.
        destruct (fo_body_last strict b k0) as [r| | |] eqn:Er; cbn [bind] in Hr; try discriminate.
        destruct r as [b'|]; [|injection Hr as <-; split; [exact Hnd | apply rw_hrefines_refl]].
        injection Hr as <-.
        assert (Hb : node_ok b) by (apply (node_ok_kid sets nd); [exact Hnd | rewrite Eb; left; reflexivity]).
        destruct (body_last_sound sid e sets strict HS0 HS1 HS2 k0 b b' Er Hb) as (first & lastc & l' & Hk & Hf & Hl & Hokb & _ & _ & Hd' & Hpr).
        unfold k0 in Hk.
        destruct (fo_cbma cat_in isw isew f strict lastc first [] false false false) as [bb| | |] eqn:Ecb; cbn [bind] in Hk; try discriminate.
        destruct bb; [|discriminate].
        destruct (fo_ee cat_in isw isew f g strict true false lastc) as [l2| | |] eqn:Eee; cbn [bind] in Hk; try discriminate.
        injection Hk as <-.
        pose proof (cbma_true_greedy cat_in isw isew sid e sets strict HS0 HS1 HS2 _ _ _ _ _ _ Ecb Hf (Forall_nil _)) as Hgr.
        pose proof (cbma_true_ltr cat_in isw isew strict _ _ _ _ _ _ _ Ecb) as Hltr.
        assert (El2 : l2 = make_loop_atomic lastc).
        { clear -Eee Eg2 Hgr. destruct f as [|f']; [discriminate|]. rewrite fo_ee_S, Eg2 in Eee. cbv zeta in Eee.
          rewrite Hgr in Eee. cbn [orb] in Eee. injection Eee as <-. reflexivity. }
        subst l2.
        assert (Hl2 : node_ok (make_loop_atomic lastc)) by (apply (node_ok_mla_greedy sets strict HS0 HS1 HS2); assumption).
        destruct (set_kids_fields nd [b']) as (Ht' & Ho' & _ & Hm' & Hn' & _ & _ & Hk2).
        split; [apply node_ok_set_kids; [exact Hnd | rewrite Eb; reflexivity | constructor; [apply Hokb; exact Hl2|constructor]]|].
        pose proof (wf_loop_bounds strict HS0 HS1 HS2 nd (proj1 Hnd) ltac:(unfold T_Loop, T_Lazyloop in *; lia)) as Hbd.
        assert (HH : forall lazy, rw_hrefines e (NLoop lazy (n_o nd) (n_m nd) (n_n nd) (tr b)) (NLoop lazy (n_o nd) (n_m nd) (n_n nd) (tr b'))).
        { intros lazy. apply hrefines_den. intros s.
          assert (Hlim : 0 <= loop_limit (n_m nd) (n_n nd)) by (apply loop_limit_nonneg; lia).
          apply (proj2 (loop_hpr e (NQ cat_in e lastc) lazy (n_o nd) (n_m nd) (n_n nd) (tr b) (tr b')
                   Hlim
                   (Hpr _ (pos_only_NQ lastc) (mla_hpr cat_in isw isew sid e sets Henv strict HS0 HS1 HS2 lastc Hgr Hl Hltr))
                   (fun q Hq => Hd' q (cbma_noiter_dead cat_in isw isew sid e sets Henv strict HS0 HS1 HS2 _ _ _ _ _ _ Ecb Hl Hf q Hq)) s)). }
        destruct Htl as [Etl|Etl].
        + rewrite (tr_loop sid nd b Etl Eb), (tr_loop sid (set_kids nd [b']) b') by (first [exact Hk2 | rewrite Ht'; exact Etl]).
          rewrite Ho', Hm', Hn'. apply HH.
        + rewrite (tr_lazyloop sid nd b Etl Eb), (tr_lazyloop sid (set_kids nd [b']) b') by (first [exact Hk2 | rewrite Ht'; exact Etl]).
          rewrite Ho', Hm', Hn'. apply HH. }
    destruct (n_t node =? T_Lazyloop) eqn:Elz.
    { assert (Etl : n_t node = T_Lazyloop) by lia.
      destruct (kids_one node ltac:(unfold T_Lazyloop in *; lia) (proj1 Hok)) as [k Ek].
      destruct (wf_flags node (proj1 Hok)) as (_ & _ & _ & Hb & _).
      specialize (Hb ltac:(unfold T_Lazyloop in *; lia)).
      pose (nd := set_mn node (n_m node) (n_m node)).
      destruct (set_mn_fields node (n_m node) (n_m node)) as (Ht1 & Ho1 & Hm1 & Hn1 & Hk1 & Hst1 & Hstr1).
      assert (Hnd : node_ok nd).
      { destruct Hok as [Hwf Hs]. unfold nd. destruct node as [t o ch m n str st kids]. cbn [set_mn n_m] in *. split; [|exact Hs].
        rewrite fo_wf_unfold in Hwf |- *. cbn [n_t n_kids n_set n_m n_n n_str n_o] in *.
        replace t with 27 in * by (unfold T_Lazyloop in *; lia). cbn in Hwf |- *.
        repeat (apply andb_prop in Hwf; destruct Hwf as [Hwf ?]).
        repeat (apply andb_true_intro; split); try assumption; lia. }
      destruct (Hloop nd Hnd ltac:(right; unfold nd; rewrite Ht1; exact Etl) node' H) as [Hnd' Hh].
      apply Hspec; [exact Hnd'|]. eapply rw_hrefines_trans; [|exact Hh].
      rewrite (tr_lazyloop sid node k Etl Ek). rewrite (tr_lazyloop sid nd k) by (unfold nd; first [rewrite Hk1; exact Ek | rewrite Ht1; exact Etl]).
      unfold nd. rewrite Ho1, Hm1, Hn1. apply lazyloop_min_tail; lia. }
    destruct (n_t node =? T_Loop) eqn:Elp.
    { destruct (Hloop node Hok ltac:(left; lia) node' H) as [Hnd' Hh]. apply Hspec; assumption. }
    injection H as <-. apply Hspec; [exact Hok | apply rw_hrefines_refl]. }
  split; [exact HE|].
  (* the gated reduce *)
  intros mode ptype x x' H Hok.
  destruct (node_ok_clr x Hok) as [Hok1 Hr1].
  destruct x as [t o ch m n str st kids] eqn:Ex. rewrite <- Ex in Hok, Hok1, Hr1 |- *.
  rewrite fo_reduce_S in H. cbv zeta in H.
  assert (Ex1 : clr x = RN t (if t =? T_Ref then o else clear_I o) ch m n str st kids) by (rewrite Ex; reflexivity).
  rewrite <- Ex1 in H.
  assert (Etx : n_t (clr x) = t) by (rewrite Ex; reflexivity).
  assert (Etx0 : n_t x = t) by (rewrite Ex; reflexivity).
  set (x1 := clr x) in *.
  assert (Hlift : forall y, red_spec x1 y -> red_spec x y).
  { intros y [H1 H2]. split; [exact H1 | eapply rw_refines_trans; [exact Hr1 | exact H2]]. }
  apply Hlift. clear Hlift.
  destruct (t =? T_Alternate) eqn:Ea.
  { injection H as <-. split; [exact Hok1 | apply rw_refines_refl]. }
  destruct (t =? T_Atomic) eqn:Eat.
  { cbv zeta in H.
    destruct (innermost_spec x1 ltac:(lia) Hok1) as (Hta & Hoka & Hra & child & Ekc & Hnc). cbv zeta in Hta, Hoka, Hra, Ekc.
    rewrite Ekc in H.
    assert (Hchild : node_ok child) by (apply (node_ok_kid sets (fo_innermost_atomic x1)); [exact Hoka | rewrite Ekc; left; reflexivity]).
    assert (Hlift : forall y, node_ok y -> rw_refines e (NAtomic (tr child)) (tr y) -> red_spec x1 y).
    { intros y H1 H2. split; [exact H1|]. eapply rw_refines_trans; [exact Hra|].
      rewrite (tr_atomic sid (fo_innermost_atomic x1) child Hta Ekc). exact H2. }
    assert (Hdflt : forall c, node_ok c -> rw_hrefines e (tr child) (tr c) ->
              forall y, (do c' <- fo_ee cat_in isw isew f g strict true true c ; Ok (set_kids (fo_innermost_atomic x1) [c'])) = Ok y -> red_spec x1 y).
    { intros c Hc Hhc y Hy.
      destruct (fo_ee cat_in isw isew f g strict true true c) as [c'| | |] eqn:Ec; cbn [bind] in Hy; try discriminate.
      injection Hy as <-. destruct (IHE _ _ _ Ec Hc) as (Hc' & Hh & _).
      destruct (set_kids_fields (fo_innermost_atomic x1) [c']) as (Ht2 & _ & _ & _ & _ & _ & _ & Hk3).
      apply Hlift.
      - apply node_ok_set_kids; [exact Hoka | rewrite Ekc; reflexivity | constructor; [exact Hc'|constructor]].
      - rewrite (tr_atomic sid (set_kids (fo_innermost_atomic x1) [c']) c') by (first [exact Hk3 | rewrite Ht2; exact Hta]).
        apply atomic_observes_head. eapply rw_hrefines_trans; [exact Hhc | exact Hh]. }
    destruct ((n_t child =? T_Empty) || (n_t child =? T_Nothing)) eqn:Een.
    { injection H as <-. apply Hlift; [exact Hchild|]. apply atomic_single_refines.
      destruct (n_t child =? T_Empty) eqn:Ee; [rewrite (tr_empty child) by lia; apply single_empty | rewrite (tr_nothing child) by lia; apply single_nothing]. }
    destruct (is_atomicloop_family (n_t child)) eqn:Eal.
    { injection H as <-. apply Hlift; [exact Hchild|]. apply atomic_single_refines. apply tr_atomicloop_single. exact Eal. }
    destruct (fo_is_charloop (n_t child) || fo_is_charlazy (n_t child)) eqn:Ecl.
    { injection H as <-. apply Hlift; [apply node_ok_mla; assumption | apply atomic_mla_refines; assumption]. }
    destruct ((n_t child =? T_Alternate) && negb (useRTL (if t =? T_Ref then o else clear_I o))) eqn:Ealt8;
      [|apply (Hdflt child Hchild (rw_hrefines_refl e _) _ H)].
    destruct (fo_gate g 8); [apply (Hdflt child Hchild (rw_hrefines_refl e _) _ H)|].
    (* reduceAtomic's alternation branch (612-707) *)
    assert (Etc : n_t child = T_Alternate) by lia.
    destruct (n_kids child) as [|b0 bs] eqn:Ekids; [discriminate|].
    destruct (n_t b0 =? T_Empty) eqn:Eb0.
    { injection H as <-. apply Hlift.
      - split; [|cbn; tauto]. rewrite fo_wf_unfold. cbn.
        destruct (wf_flags child (proj1 Hchild)) as (_ & _ & _ & _ & _ & Hci & _).
        rewrite Hci by (unfold T_Alternate in *; lia). reflexivity.
      - rewrite (tr_alt sid child Etc), Ekids. cbn [map]. rewrite (tr_empty b0) by lia.
        change (tr (mk_node T_Empty (n_o child))) with NEmpty.
        eapply rw_refines_trans; [apply atomic_observes_head; apply trim_first_empty | apply atomic_single_refines; apply single_empty]. }
    rewrite <- Ekids in H.
    destruct (fo_map_res (fo_key strict) (fo_trim (n_kids child))) as [keyed| | |] eqn:Ekeyed; cbn [bind] in H; try discriminate.
    destruct (atomic_alt_sound cat_in isw isew sid e sets Henv strict child keyed (S (length keyed)) HS3 Hchild Etc Ekeyed) as [Hc1 Hh1].
    destruct (fo_reorder (S (length keyed)) keyed) as [brs reordered] eqn:Ero. cbn [fst] in Hc1, Hh1. cbv zeta in H.
    assert (Hc2 : exists child2,
              (if reordered then fo_reduce cat_in isw isew f g strict true 0 T_Atomic (set_kids child brs) else Ok (set_kids child brs)) = Ok child2 /\
              node_ok child2 /\ rw_hrefines e (tr child) (tr child2)).
    { destruct reordered.
      - destruct (fo_reduce cat_in isw isew f g strict true 0 T_Atomic (set_kids child brs)) as [c2| | |] eqn:Ec2; cbn [bind] in H; try discriminate.
        exists c2. split; [reflexivity|]. destruct (IHR _ _ _ _ Ec2 Hc1) as [Hc2 Hr2]. split; [exact Hc2|].
        eapply rw_hrefines_trans; [exact Hh1 | apply rw_refines_hrefines; exact Hr2].
      - exists (set_kids child brs). split; [reflexivity|]. split; assumption. }
    destruct Hc2 as (child2 & E2 & Hc2 & Hh2). rewrite E2 in H. cbn [bind] in H.
    apply (Hdflt child2 Hc2 Hh2 _ H). }
  destruct ((t =? T_PosLook) || (t =? T_NegLook)) eqn:Elk.
  { destruct (fo_ee cat_in isw isew f g strict true false x1) as [x2| | |] eqn:Ex2; cbn [bind] in H; try discriminate.
    destruct (IHE _ _ _ Ex2 Hok1) as (Hok2 & Hh & Hty).
    destruct (Hty ltac:(unfold T_PosLook, T_NegLook in *; rewrite Etx; lia)) as (Ht2 & Ho2 & Hl2).
    destruct (kids_one x1 ltac:(unfold T_PosLook, T_NegLook in *; lia) (proj1 Hok1)) as [k1 Ek1].
    destruct (kids_one x2 ltac:(unfold T_PosLook, T_NegLook in *; lia) (proj1 Hok2)) as [k Ek]. rewrite Ek in H.
    assert (Hk : node_ok k) by (apply (node_ok_kid sets x2); [exact Hok2 | rewrite Ek; left; reflexivity]).
    assert (Hsingle : rw_refines e (tr x1) (tr x2)).
    { destruct (t =? T_PosLook) eqn:Ep.
      - rewrite (tr_poslook sid x1 k1) in * by (first [exact Ek1 | unfold T_PosLook in *; lia]).
        rewrite (tr_poslook sid x2 k) in * by (first [exact Ek | unfold T_PosLook in *; lia]).
        apply hrefines_single; [apply single_poslook | apply single_poslook | exact Hh].
      - rewrite (tr_neglook sid x1 k1) in * by (first [exact Ek1 | unfold T_PosLook, T_NegLook in *; lia]).
        rewrite (tr_neglook sid x2 k) in * by (first [exact Ek | unfold T_PosLook, T_NegLook in *; lia]).
        apply hrefines_single; [apply single_neglook | apply single_neglook | exact Hh]. }
    destruct (n_t k =? T_Empty) eqn:Eke.
    - injection H as <-.
      assert (Hci : useI (if t =? T_Ref then o else clear_I o) = false).
      { destruct (wf_flags x1 (proj1 Hok1)) as (_ & _ & _ & _ & _ & Hci & _).
        replace (if t =? T_Ref then o else clear_I o) with (n_o x1) by (first [rewrite Ex1; reflexivity | unfold x1; rewrite Ex1; reflexivity]).
        apply Hci; unfold T_PosLook, T_NegLook in *; lia. }
      split.
      + split; [|cbn; destruct Hok as [_ Hs]; rewrite Ex in Hs; cbn in Hs; tauto].
        rewrite fo_wf_unfold. cbn [n_t n_kids n_set n_m n_n n_str n_o length forallb].
        destruct (t =? T_PosLook); cbn; rewrite Hci; reflexivity.
      + eapply rw_refines_trans; [exact Hsingle|].
        destruct (t =? T_PosLook) eqn:Ep.
        * rewrite (tr_poslook sid x2 k) by (first [exact Ek | unfold T_PosLook in *; lia]). rewrite (tr_empty k) by lia.
          change (tr (RN T_Empty (if t =? T_Ref then o else clear_I o) ch m n str st [])) with NEmpty.
          apply refines_den. intros s. rewrite fd_den_poslook, !fd_den_empty. cbn. rewrite with_pos_same. reflexivity.
        * rewrite (tr_neglook sid x2 k) by (first [exact Ek | unfold T_PosLook, T_NegLook in *; lia]). rewrite (tr_empty k) by lia.
          change (tr (RN T_Nothing (if t =? T_Ref then o else clear_I o) ch m n str st [])) with NNothing.
          apply refines_den. intros s. rewrite fd_den_neglook, fd_den_empty, fd_den_nothing. reflexivity.
    - injection H as <-. split; [exact Hok2 | exact Hsingle]. }
  destruct (t =? T_ExprCond) eqn:Eec.
  { destruct (kids_three x1 ltac:(unfold T_ExprCond in *; lia) (proj1 Hok1)) as (c0 & y & nn & Ek).
    assert (Hc0 : node_ok c0) by (apply (node_ok_kid sets x1); [exact Hok1 | rewrite Ek; left; reflexivity]).
    assert (Hcond : forall c', node_ok c' -> rw_hrefines e (tr c0) (tr c') -> red_spec x1 (set_kids x1 [c'; y; nn])).
    { intros c' Hc' Hh. destruct (set_kids_fields x1 [c'; y; nn]) as (Ht' & Ho' & _ & _ & _ & _ & _ & Hk2). split.
      - apply node_ok_set_kids; [exact Hok1 | rewrite Ek; reflexivity|].
        constructor; [exact Hc'|]. constructor; [apply (node_ok_kid sets x1); [exact Hok1 | rewrite Ek; right; left; reflexivity]|].
        constructor; [apply (node_ok_kid sets x1); [exact Hok1 | rewrite Ek; right; right; left; reflexivity]|constructor].
      - rewrite (tr_expr_cond sid x1 c0 y nn) by (first [exact Ek | unfold T_ExprCond in *; lia]).
        rewrite (tr_expr_cond sid (set_kids x1 [c'; y; nn]) c' y nn) by (first [exact Hk2 | rewrite Ht'; unfold T_ExprCond in *; lia]).
        rewrite Ho'. apply exprcond_observes_head. exact Hh. }
    assert (Hsame : forall l, set_kids x1 l = RN t (if t =? T_Ref then o else clear_I o) ch m n str st l) by (intros l; unfold x1; rewrite Ex; reflexivity).
    assert (Hkids1 : n_kids x1 = kids) by (unfold x1; rewrite Ex; reflexivity).
    destruct (mode =? 0) eqn:Em0.
    - cbn [andb] in H. rewrite Hkids1 in Ek. rewrite Ek in H. cbn [n_kids] in H.
      destruct (fo_ee cat_in isw isew f g strict true false c0) as [c'| | |] eqn:Ec; cbn [bind] in H; try discriminate.
      injection H as <-. destruct (IHE _ _ _ Ec Hc0) as (Hc' & Hh & _).
      apply Hcond; assumption.
    - rewrite Hkids1 in Ek. rewrite Ek in H.
      destruct (mode =? 2) eqn:Em2.
      + destruct (fo_ee cat_in isw isew f g strict true false c0) as [c1| | |] eqn:Ec1; cbn [bind] in H; try discriminate.
        destruct (IHE _ _ _ Ec1 Hc0) as (Hc1 & Hh1 & _).
        destruct (n_t c1 =? T_Empty) eqn:Ee.
        * injection H as <-. rewrite <- Hsame.
          apply Hcond.
          -- split; [|cbn; tauto]. rewrite fo_wf_unfold. cbn.
             destruct (wf_flags x1 (proj1 Hok1)) as (_ & _ & _ & _ & _ & Hci & _). unfold x1 in Hci. rewrite Ex in Hci. cbn in Hci.
             rewrite Hci by (unfold T_ExprCond in *; lia). reflexivity.
          -- change (tr (mk_node T_Empty (if t =? T_Ref then o else clear_I o))) with NEmpty. rewrite (tr_empty c1) in Hh1 by lia. exact Hh1.
        * destruct (fo_reduce cat_in isw isew f g strict true 0 T_ExprCond c1) as [c2| | |] eqn:Ec2; cbn [bind] in H; try discriminate.
          destruct (IHR _ _ _ _ Ec2 Hc1) as [Hc2 Hr2].
          destruct (fo_ee cat_in isw isew f g strict true false c2) as [c3| | |] eqn:Ec3; cbn [bind] in H; try discriminate.
          destruct (IHE _ _ _ Ec3 Hc2) as (Hc3 & Hh3 & _). injection H as <-. rewrite <- Hsame.
          apply Hcond; [exact Hc3|].
          eapply rw_hrefines_trans; [exact Hh1|]. eapply rw_hrefines_trans; [apply rw_refines_hrefines; exact Hr2 | exact Hh3].
      + destruct (fo_ee cat_in isw isew f g strict true false c0) as [c'| | |] eqn:Ec; cbn [bind] in H; try discriminate.
        injection H as <-. destruct (IHE _ _ _ Ec Hc0) as (Hc' & Hh & _). rewrite <- Hsame. apply Hcond; assumption. }
  injection H as <-. split; [exact Hok1 | apply rw_refines_refl].
Qed.

End EE.

End End.
