(* C20 — case-insensitive matching ignores case, on the reference semantics Model/Spec.v.

   [sim] is an abstract "same letter up to case" relation on runes (only reflexivity and symmetry
   are ever used).  Two environments [e], [e'] agree on everything but the text; the texts have the
   same length and are pointwise [sim].  [ci_closed e t] says that every character test in the
   tree [t] respects [sim]; it is exactly the shape of tree the parser builds under IgnoreCase
   (cased literal -> case-closed Set, class and subtraction closed under case, One/Notone only
   for characters without case variants, Multi/Ref compared through ToLower).  The oracle facts a
   leaf needs (ToLower / IsWordChar / IsECMAWordChar respect [sim], newline has no case variant)
   are part of [ci_closed] for the leaves that use them, so a tree without such leaves needs no
   assumption on the oracle at all.

   Main theorem [ci_input_invariant]: sem e' fuel t s = sem e fuel t s  for every fuel and state
   (identical result LISTS: positions, captures, order), hence [attempt], [scan_from], [find]
   (both directions, every start offset) and their CPS twins agree. *)
From Verif Require Import Base.Prelude Model.Tree Model.Spec.
From Coq Require Import ZifyBool.

(* ------------------------------------------------------------------------------------------ *)
(* generic extensionality of the result-list combinators                                       *)

Lemma case_bindl_ext {A B} (f g : A -> res (list B)) (l : list A) :
  (forall a, f a = g a) -> bindl l f = bindl l g.
Proof.
  intros H. induction l as [|a l IH]; [reflexivity|].
  cbn [bindl]. rewrite H, IH. reflexivity.
Qed.

Lemma case_bindr_ext {A B} (r r' : res (list A)) (f g : A -> res (list B)) :
  r = r' -> (forall a, f a = g a) -> bindr r f = bindr r' g.
Proof.
  intros -> H. unfold bindr. destruct r' as [l| | |]; cbn [bind]; try reflexivity.
  apply case_bindl_ext, H.
Qed.

Lemma case_iter_ext (body body' : st -> res (list st)) :
  (forall s, body s = body' s) ->
  forall fuel lazy limit s mark count,
    iter fuel body lazy limit s mark count = iter fuel body' lazy limit s mark count.
Proof.
  intros Hb. induction fuel as [|f IH]; intros lazy limit s mark count; [reflexivity|].
  cbn [iter].
  assert (Hag : bindr (body s) (fun s' => iter f body lazy limit s' (pos s) (count + 1))
              = bindr (body' s) (fun s' => iter f body' lazy limit s' (pos s) (count + 1))).
  { apply case_bindr_ext; [apply Hb | intros a; apply IH]. }
  rewrite Hag. reflexivity.
Qed.

(* ------------------------------------------------------------------------------------------ *)
Section CaseInvariance.

Variable sim : Z -> Z -> Prop.
Hypothesis sim_refl : forall x, sim x x.
Hypothesis sim_sym : forall x y, sim x y -> sim y x.

(* c has no case variant *)
Definition caseless (c : Z) : Prop := forall x, sim x c -> x = c.
(* a predicate / function on runes does not see case *)
Definition resp_b (f : Z -> bool) : Prop := forall x y, sim x y -> f x = f y.
Definition resp_z (f : Z -> Z) : Prop := forall x y, sim x y -> f x = f y.

Section Closed.
Variable e : env.

Definition ci_leaf (k : ckind) (c : Z) : Prop :=
  match k with
  | COne | CNotone => caseless c
  | CSet => resp_b (set_in e c)
  end.

Definition ci_anchor (a : anchor) : Prop :=
  match a with
  | ABol | AEol | AEndZ => caseless 10
  | ABoundary | ANonboundary => resp_b (is_word e)
  | AECMABoundary | ANonECMABoundary => resp_b (is_eword e)
  | ABeginning | AStart | AEnd => True
  end.

(* every character test of the tree respects [sim] *)
Fixpoint ci_closed (t : node) : Prop :=
  match t with
  | NChar k _ c => ci_leaf k c
  | NCharLoop k _ _ c _ _ => ci_leaf k c
  | NMulti o str => if is_ci o then resp_z (lower e) else Forall caseless str
  | NRef o _ => is_ci o = true /\ resp_z (lower e)
  | NAnchor a => ci_anchor a
  | NNothing | NEmpty | NBump => True
  | NConcat _ l | NAlternate _ l =>
      (fix all (l : list node) : Prop :=
         match l with [] => True | x :: l' => ci_closed x /\ all l' end) l
  | NLoop _ _ _ _ r | NCapture _ _ _ r | NGroup r | NPosLook _ r | NNegLook _ r | NAtomic r =>
      ci_closed r
  | NBackRefCond _ _ yes no =>
      ci_closed yes /\ match no with Some n => ci_closed n | None => True end
  | NExprCond _ c yes no =>
      ci_closed c /\ ci_closed yes /\ match no with Some n => ci_closed n | None => True end
  end.

Definition ci_closed_list (l : list node) : Prop :=
  (fix all (l : list node) : Prop :=
     match l with [] => True | x :: l' => ci_closed x /\ all l' end) l.

Lemma ci_closed_list_Forall l : ci_closed_list l <-> Forall ci_closed l.
Proof.
  induction l as [|x l IH]; cbn.
  - split; auto.
  - split.
    + intros [H1 H2]. constructor; [exact H1 | apply IH, H2].
    + intros H. inversion H; subst. split; [assumption | apply IH; assumption].
Qed.

End Closed.

(* ---- two environments that differ only in the case of the text ---- *)
Variables e e' : env.
Hypothesis E_tstart : tstart e' = tstart e.
Hypothesis E_ecma : ecma e' = ecma e.
Hypothesis E_endz : endz_strict e' = endz_strict e.
Hypothesis E_set : forall sid x, set_in e' sid x = set_in e sid x.
Hypothesis E_lower : forall x, lower e' x = lower e x.
Hypothesis E_word : forall x, is_word e' x = is_word e x.
Hypothesis E_eword : forall x, is_eword e' x = is_eword e x.
Hypothesis E_len : length (txt e') = length (txt e).
Hypothesis E_sim : forall i, 0 <= i < tlen e -> sim (char_at e i) (char_at e' i).

Lemma case_tlen : tlen e' = tlen e.
Proof. unfold tlen, zlen. rewrite E_len. reflexivity. Qed.

(* out of range both sides read 0; a negative index reads index 0 on both sides *)
Lemma case_sim_at : forall i, sim (char_at e i) (char_at e' i).
Proof.
  intros i. destruct (Z_lt_dec i 0) as [Hn|Hn].
  - unfold char_at. replace (Z.to_nat i) with O by lia.
    destruct (txt e) as [|a l] eqn:Ta, (txt e') as [|a' l'] eqn:Tb; cbn in E_len; try discriminate.
    + apply sim_refl.
    + specialize (E_sim 0). unfold char_at, tlen, zlen in E_sim. rewrite Ta, Tb in E_sim.
      cbn in E_sim. apply E_sim. lia.
  - destruct (Z_lt_dec i (tlen e)) as [Hl|Hl].
    + apply E_sim. lia.
    + unfold char_at. unfold tlen, zlen in Hl.
      rewrite (nth_overflow (txt e)) by lia.
      rewrite (nth_overflow (txt e')) by lia. apply sim_refl.
Qed.

Lemma case_avail o p : avail e' o p = avail e o p.
Proof. unfold avail. rewrite case_tlen. reflexivity. Qed.

Lemma case_next_sim o p : sim (next_char e o p) (next_char e' o p).
Proof. unfold next_char. destruct (is_rtl o); apply case_sim_at. Qed.

Lemma case_caseless_eqb c x x' : caseless c -> sim x x' -> (x' =? c) = (x =? c).
Proof.
  intros Hc Hs.
  destruct (Z.eqb_spec x c) as [->|Hn].
  - apply sim_sym in Hs. apply Hc in Hs. subst. apply Z.eqb_refl.
  - destruct (Z.eqb_spec x' c) as [->|Hn']; [|reflexivity].
    apply Hc in Hs. contradiction.
Qed.

Lemma case_caseless_eqb_l c x x' : caseless c -> sim x x' -> (c =? x') = (c =? x).
Proof. intros Hc Hs. rewrite !(Z.eqb_sym c). apply case_caseless_eqb; assumption. Qed.

Lemma case_char_test k c x x' :
  ci_leaf e k c -> sim x x' -> char_test e' k c x' = char_test e k c x.
Proof.
  intros Hl Hs. destruct k; cbn [char_test ci_leaf] in *.
  - apply case_caseless_eqb; assumption.
  - f_equal. apply case_caseless_eqb; assumption.
  - rewrite E_set. symmetry. apply Hl, Hs.
Qed.

Lemma case_step_test k c o p :
  ci_leaf e k c ->
  (0 <? avail e' o p) && char_test e' k c (next_char e' o p)
  = (0 <? avail e o p) && char_test e k c (next_char e o p).
Proof.
  intros Hl. rewrite case_avail.
  rewrite (case_char_test k c (next_char e o p) (next_char e' o p) Hl (case_next_sim o p)).
  reflexivity.
Qed.

Lemma case_run_len k c o : ci_leaf e k c ->
  forall maxn p, run_len e' k c o maxn p = run_len e k c o maxn p.
Proof.
  intros Hl. induction maxn as [|m IH]; intros p; [reflexivity|].
  cbn [run_len]. rewrite (case_step_test k c o p Hl). rewrite IH. reflexivity.
Qed.

Lemma case_sem_charloop k l o c m n s : ci_leaf e k c ->
  sem_charloop e' k l o c m n s = sem_charloop e k l o c m n s.
Proof.
  intros Hl. unfold sem_charloop. rewrite case_avail.
  rewrite (case_run_len k c o Hl). reflexivity.
Qed.

Lemma case_str_match_ci : resp_z (lower e) ->
  forall str p, str_match_at e' true str p = str_match_at e true str p.
Proof.
  intros Hr. induction str as [|c str IH]; intros p; [reflexivity|].
  cbn [str_match_at]. rewrite IH, E_lower.
  rewrite (Hr _ _ (case_sim_at p)). reflexivity.
Qed.

Lemma case_str_match_exact :
  forall str, Forall caseless str ->
  forall p, str_match_at e' false str p = str_match_at e false str p.
Proof.
  induction 1 as [|c str Hc _ IH]; intros p; [reflexivity|].
  cbn [str_match_at]. rewrite IH.
  rewrite (case_caseless_eqb_l c _ _ Hc (case_sim_at p)). reflexivity.
Qed.

Lemma case_sem_multi o str s : ci_closed e (NMulti o str) ->
  sem_multi e' o str s = sem_multi e o str s.
Proof.
  cbn [ci_closed]. intros H. unfold sem_multi. rewrite case_avail.
  destruct (is_ci o).
  - rewrite (case_str_match_ci H). reflexivity.
  - rewrite (case_str_match_exact str H). reflexivity.
Qed.

Lemma case_ref_match_ci : resp_z (lower e) ->
  forall len i p, ref_match_at e' true len i p = ref_match_at e true len i p.
Proof.
  intros Hr. induction len as [|len IH]; intros i p; [reflexivity|].
  cbn [ref_match_at]. rewrite IH, !E_lower.
  rewrite (Hr _ _ (case_sim_at i)), (Hr _ _ (case_sim_at p)). reflexivity.
Qed.

Lemma case_sem_ref o g s : ci_closed e (NRef o g) ->
  sem_ref e' o g s = sem_ref e o g s.
Proof.
  cbn [ci_closed]. intros [Hci Hr]. unfold sem_ref. rewrite E_ecma.
  destruct (cap_get g (caps s)) as [|[i len] _]; [reflexivity|].
  rewrite case_avail, Hci, (case_ref_match_ci Hr). reflexivity.
Qed.

Lemma case_is_boundary w w' i : resp_b w -> (forall x, w' x = w x) ->
  is_boundary e' w' i = is_boundary e w i.
Proof.
  intros Hw Hww. unfold is_boundary. rewrite case_tlen, !Hww.
  rewrite (Hw _ _ (case_sim_at (i - 1))), (Hw _ _ (case_sim_at i)). reflexivity.
Qed.

Lemma case_anchor_ok a p : ci_anchor e a -> anchor_ok e' a p = anchor_ok e a p.
Proof.
  intros Ha. destruct a; cbn [anchor_ok ci_anchor] in *;
    rewrite ?case_tlen, ?E_tstart, ?E_endz; try reflexivity.
  - rewrite (case_caseless_eqb 10 _ _ Ha (case_sim_at (p - 1))). reflexivity.
  - rewrite (case_caseless_eqb 10 _ _ Ha (case_sim_at p)). reflexivity.
  - apply case_is_boundary; assumption.
  - f_equal. apply case_is_boundary; assumption.
  - rewrite (case_caseless_eqb 10 _ _ Ha (case_sim_at p)). reflexivity.
  - apply case_is_boundary; assumption.
  - f_equal. apply case_is_boundary; assumption.
Qed.

(* ---- the main theorem ---- *)
Theorem ci_input_invariant :
  forall fuel t s, ci_closed e t -> sem e' fuel t s = sem e fuel t s.
Proof.
  induction fuel as [|f IH]; intros t s Hc; [reflexivity|].
  destruct t; cbn [sem]; cbn [ci_closed] in Hc.
  - (* NChar *) rewrite (case_step_test k c o (pos s) Hc). reflexivity.
  - (* NCharLoop *) rewrite (case_sem_charloop k l o c m n s Hc). reflexivity.
  - (* NMulti *) rewrite (case_sem_multi o s0 s Hc). reflexivity.
  - (* NRef *) rewrite (case_sem_ref o g s Hc). reflexivity.
  - (* NAnchor *) rewrite (case_anchor_ok a (pos s) Hc). reflexivity.
  - reflexivity.
  - reflexivity.
  - reflexivity.
  - (* NConcat *)
    revert s. induction l as [|x l IHl]; intros s; [reflexivity|].
    destruct Hc as [Hx Hl].
    apply case_bindr_ext; [apply IH, Hx | intros a; apply IHl, Hl].
  - (* NAlternate *)
    induction l as [|x l IHl]; [reflexivity|].
    destruct Hc as [Hx Hl].
    rewrite (IH x s Hx), (IHl Hl). reflexivity.
  - (* NLoop *)
    assert (Hb : forall s0, sem e' f t s0 = sem e f t s0) by (intros s0; apply IH, Hc).
    destruct (m =? 0).
    + apply case_iter_ext, Hb.
    + apply case_bindr_ext; [apply Hb | intros a; apply case_iter_ext, Hb].
  - (* NCapture *)
    rewrite (IH t s Hc). reflexivity.
  - (* NGroup *) apply IH, Hc.
  - (* NPosLook *) rewrite (IH t s Hc). reflexivity.
  - (* NNegLook *) rewrite (IH t s Hc). reflexivity.
  - (* NAtomic *) rewrite (IH t s Hc). reflexivity.
  - (* NBackRefCond *)
    destruct Hc as [Hy Hn]. destruct (is_matched g (caps s)); [apply IH, Hy|].
    destruct no; [apply IH, Hn | reflexivity].
  - (* NExprCond *)
    destruct Hc as [Hcc [Hy Hn]]. rewrite (IH t1 s Hcc).
    destruct (first_only (sem e f t1 s)) as [l| | |]; cbn [bind]; try reflexivity.
    destruct l as [|s' _]; [|apply IH, Hy].
    destruct no; [apply IH, Hn | reflexivity].
Qed.

Corollary ci_attempt_invariant fuel root p :
  ci_closed e root -> attempt e' fuel root p = attempt e fuel root p.
Proof. intros Hc. unfold attempt. rewrite (ci_input_invariant fuel root _ Hc). reflexivity. Qed.

Lemma ci_scan_invariant fuel root rtl : ci_closed e root ->
  forall n p, scan_from e' fuel n root rtl p = scan_from e fuel n root rtl p.
Proof.
  intros Hc. induction n as [|n IHn]; intros p; [reflexivity|].
  cbn [scan_from]. rewrite (ci_attempt_invariant fuel root p Hc), case_tlen.
  destruct (attempt e fuel root p) as [[s|]| | |]; cbn [bind]; try reflexivity.
  destruct (if rtl then p <=? 0 else tlen e <=? p); [reflexivity | apply IHn].
Qed.

(* both directions, every start offset, with or without the empty-previous-match bump *)
Corollary ci_find_invariant fuel root rtl start prevlen :
  ci_closed e root -> find e' fuel root rtl start prevlen = find e fuel root rtl start prevlen.
Proof.
  intros Hc. unfold find. rewrite case_tlen.
  destruct ((prevlen =? 0) && (start =? (if rtl then 0 else tlen e))); [reflexivity|].
  apply ci_scan_invariant, Hc.
Qed.

(* ---- the CPS search (what the extracted model runs) ---- *)
Theorem ci_semk_invariant :
  forall fuel t s k k', ci_closed e t -> (forall x, k' x = k x) ->
    semk e' fuel t s k' = semk e fuel t s k.
Proof.
  assert (Hfs : forall k k' : kont, (forall x, k' x = k x) ->
                 forall l, first_some k' l = first_some k l).
  { intros k k' Hk. induction l as [|x l IHl]; [reflexivity|].
    cbn [first_some]. rewrite Hk, IHl. reflexivity. }
  assert (Hit : forall (body body' : st -> kont -> res (option st)),
             (forall s k k', (forall x, k' x = k x) -> body' s k' = body s k) ->
             forall fuel lazy limit s mark count k k', (forall x, k' x = k x) ->
               iterk fuel body' lazy limit s mark count k' = iterk fuel body lazy limit s mark count k).
  { intros body body' Hb. induction fuel as [|f IHf]; intros lazy limit s mark count k k' Hk;
      [reflexivity|].
    cbn [iterk].
    assert (Hag : body' s (fun s' => iterk f body' lazy limit s' (pos s) (count + 1) k')
                = body s (fun s' => iterk f body lazy limit s' (pos s) (count + 1) k)).
    { apply Hb. intros x. apply IHf, Hk. }
    rewrite Hag, Hk. reflexivity. }
  induction fuel as [|f IH]; intros t s k k' Hc Hk; [reflexivity|].
  destruct t; cbn [semk]; cbn [ci_closed] in Hc.
  - rewrite (case_step_test k0 c o (pos s) Hc), Hk. reflexivity.
  - rewrite (case_sem_charloop k0 l o c m n s Hc). apply Hfs, Hk.
  - rewrite (case_sem_multi o s0 s Hc). apply Hfs, Hk.
  - rewrite (case_sem_ref o g s Hc). apply Hfs, Hk.
  - rewrite (case_anchor_ok a (pos s) Hc), Hk. reflexivity.
  - reflexivity.
  - apply Hk.
  - apply Hk.
  - revert s k k' Hk. induction l as [|x l IHl]; intros s k k' Hk; [apply Hk|].
    destruct Hc as [Hx Hl]. apply IH; [exact Hx|]. intros y. apply IHl; assumption.
  - induction l as [|x l IHl]; [reflexivity|].
    destruct Hc as [Hx Hl]. unfold or_else.
    rewrite (IH x s k k' Hx Hk).
    destruct (semk e f x s k) as [[y|]| | |]; cbn [bind]; try reflexivity.
    apply IHl, Hl.
  - assert (Hb : forall s0 k0 k0', (forall x, k0' x = k0 x) -> semk e' f t s0 k0' = semk e f t s0 k0)
      by (intros; apply IH; assumption).
    destruct (m =? 0).
    + apply (Hit _ _ Hb), Hk.
    + apply Hb. intros x. apply (Hit _ _ Hb), Hk.
  - destruct (u =? -1); apply IH; try exact Hc; intros x.
    + apply Hk.
    + destruct (cap_get u (caps x)); [reflexivity | apply Hk].
  - apply IH; assumption.
  - rewrite (IH t s k_first k_first Hc (fun _ => eq_refl)).
    destruct (semk e f t s k_first) as [[x|]| | |]; cbn [bind]; try reflexivity. apply Hk.
  - rewrite (IH t s k_first k_first Hc (fun _ => eq_refl)).
    destruct (semk e f t s k_first) as [[x|]| | |]; cbn [bind]; try reflexivity. apply Hk.
  - rewrite (IH t s k_first k_first Hc (fun _ => eq_refl)).
    destruct (semk e f t s k_first) as [[x|]| | |]; cbn [bind]; try reflexivity. apply Hk.
  - destruct Hc as [Hy Hn]. destruct (is_matched g (caps s)); [apply IH; assumption|].
    destruct no; [apply IH; assumption | apply Hk].
  - destruct Hc as [Hcc [Hy Hn]].
    rewrite (IH t1 s k_first k_first Hcc (fun _ => eq_refl)).
    destruct (semk e f t1 s k_first) as [[x|]| | |]; cbn [bind]; try reflexivity.
    + apply IH; assumption.
    + destruct no; [apply IH; assumption | apply Hk].
Qed.

Corollary ci_findk_invariant fuel root rtl start prevlen :
  ci_closed e root -> findk e' fuel root rtl start prevlen = findk e fuel root rtl start prevlen.
Proof.
  intros Hc. unfold findk. rewrite case_tlen.
  destruct ((prevlen =? 0) && (start =? (if rtl then 0 else tlen e))); [reflexivity|].
  generalize (if prevlen =? 0 then if rtl then start - 1 else start + 1 else start).
  induction (S (Z.to_nat (tlen e))) as [|n IHn]; intros p; [reflexivity|].
  cbn [scank_from]. unfold attemptk.
  rewrite (ci_semk_invariant fuel root _ k_first k_first Hc (fun _ => eq_refl)), case_tlen.
  destruct (semk e fuel root _ k_first) as [[s|]| | |]; cbn [bind]; try reflexivity.
  destruct (if rtl then p <=? 0 else tlen e <=? p); [reflexivity | apply IHn].
Qed.

End CaseInvariance.

(* ------------------------------------------------------------------------------------------ *)
(* [ci_closed] is decidable whenever the non-trivial part of [sim] is a finite list of pairs   *)
(* (the simple upper/lower pairs): a boolean checker, sound and complete.                      *)
Section CaseCheck.

Variable sim : Z -> Z -> Prop.
Variable pairs : list (Z * Z).
Hypothesis sim_sym : forall x y, sim x y -> sim y x.
Hypothesis pairs_sim : forall x y, In (x, y) pairs -> sim x y.
Hypothesis sim_pairs : forall x y, sim x y -> x = y \/ In (x, y) pairs \/ In (y, x) pairs.

Definition caselessb (c : Z) : bool :=
  forallb (fun p => (negb (fst p =? c) && negb (snd p =? c)) || (fst p =? snd p)) pairs.
Definition resp_bb (f : Z -> bool) : bool :=
  forallb (fun p => Bool.eqb (f (fst p)) (f (snd p))) pairs.
Definition resp_zb (f : Z -> Z) : bool :=
  forallb (fun p => f (fst p) =? f (snd p)) pairs.

Lemma caselessb_iff c : caselessb c = true <-> caseless sim c.
Proof.
  unfold caselessb, caseless. rewrite forallb_forall. split.
  - intros H x Hs. destruct (sim_pairs _ _ Hs) as [Heq|[Hin|Hin]]; [exact Heq| |];
      specialize (H _ Hin); cbn [fst snd] in H; lia.
  - intros H [x y] Hin. cbn [fst snd].
    pose proof (pairs_sim _ _ Hin) as Hs.
    destruct (Z.eqb_spec y c) as [->|Hy].
    + rewrite (H _ Hs). lia.
    + destruct (Z.eqb_spec x c) as [->|Hx]; [|reflexivity].
      rewrite (H _ (sim_sym _ _ Hs)). lia.
Qed.

Lemma resp_bb_iff f : resp_bb f = true <-> resp_b sim f.
Proof.
  unfold resp_bb, resp_b. rewrite forallb_forall. split.
  - intros H x y Hs. destruct (sim_pairs _ _ Hs) as [->|[Hin|Hin]]; [reflexivity| |];
      specialize (H _ Hin); cbn [fst snd] in H; apply eqb_prop in H; congruence.
  - intros H [x y] Hin. cbn [fst snd]. rewrite (H _ _ (pairs_sim _ _ Hin)). apply eqb_reflx.
Qed.

Lemma resp_zb_iff f : resp_zb f = true <-> resp_z sim f.
Proof.
  unfold resp_zb, resp_z. rewrite forallb_forall. split.
  - intros H x y Hs. destruct (sim_pairs _ _ Hs) as [->|[Hin|Hin]]; [reflexivity| |];
      specialize (H _ Hin); cbn [fst snd] in H; lia.
  - intros H [x y] Hin. cbn [fst snd]. rewrite (H _ _ (pairs_sim _ _ Hin)). apply Z.eqb_refl.
Qed.

Variable e : env.

Definition ci_leafb (k : ckind) (c : Z) : bool :=
  match k with COne | CNotone => caselessb c | CSet => resp_bb (set_in e c) end.

Definition ci_anchorb (a : anchor) : bool :=
  match a with
  | ABol | AEol | AEndZ => caselessb 10
  | ABoundary | ANonboundary => resp_bb (is_word e)
  | AECMABoundary | ANonECMABoundary => resp_bb (is_eword e)
  | ABeginning | AStart | AEnd => true
  end.

Fixpoint ci_closedb (t : node) : bool :=
  match t with
  | NChar k _ c => ci_leafb k c
  | NCharLoop k _ _ c _ _ => ci_leafb k c
  | NMulti o str => if is_ci o then resp_zb (lower e) else forallb caselessb str
  | NRef o _ => is_ci o && resp_zb (lower e)
  | NAnchor a => ci_anchorb a
  | NNothing | NEmpty | NBump => true
  | NConcat _ l | NAlternate _ l =>
      (fix all (l : list node) : bool :=
         match l with [] => true | x :: l' => ci_closedb x && all l' end) l
  | NLoop _ _ _ _ r | NCapture _ _ _ r | NGroup r | NPosLook _ r | NNegLook _ r | NAtomic r =>
      ci_closedb r
  | NBackRefCond _ _ yes no =>
      ci_closedb yes && match no with Some n => ci_closedb n | None => true end
  | NExprCond _ c yes no =>
      ci_closedb c && ci_closedb yes && match no with Some n => ci_closedb n | None => true end
  end.

Lemma ci_leafb_iff k c : ci_leafb k c = true <-> ci_leaf sim e k c.
Proof. destruct k; cbn [ci_leafb ci_leaf]; first [apply caselessb_iff | apply resp_bb_iff]. Qed.

Lemma ci_anchorb_iff a : ci_anchorb a = true <-> ci_anchor sim e a.
Proof.
  destruct a; cbn [ci_anchorb ci_anchor];
    first [apply caselessb_iff | apply resp_bb_iff | split; auto].
Qed.

Lemma ci_closedb_iff : forall t, ci_closedb t = true <-> ci_closed sim e t.
Proof.
  fix IH 1. intros t.
  destruct t; cbn [ci_closedb ci_closed].
  - apply ci_leafb_iff.
  - apply ci_leafb_iff.
  - destruct (is_ci o); [apply resp_zb_iff|].
    rewrite forallb_forall, Forall_forall. split; intros H x Hx; apply caselessb_iff, H, Hx.
  - rewrite andb_true_iff, resp_zb_iff. reflexivity.
  - apply ci_anchorb_iff.
  - split; auto.
  - split; auto.
  - split; auto.
  - induction l as [|x l IHl]; [split; auto|].
    rewrite andb_true_iff, (IH x), IHl. reflexivity.
  - induction l as [|x l IHl]; [split; auto|].
    rewrite andb_true_iff, (IH x), IHl. reflexivity.
  - apply IH.
  - apply IH.
  - apply IH.
  - apply IH.
  - apply IH.
  - apply IH.
  - rewrite andb_true_iff, (IH t). destruct no as [n|]; [rewrite (IH n)|]; intuition.
  - rewrite !andb_true_iff, (IH t1), (IH t2).
    destruct no as [n|]; [rewrite (IH n)|]; intuition.
Qed.

Corollary ci_closed_dec t : {ci_closed sim e t} + {~ ci_closed sim e t}.
Proof.
  destruct (ci_closedb t) eqn:E.
  - left. apply ci_closedb_iff, E.
  - right. intros H. apply ci_closedb_iff in H. congruence.
Qed.

End CaseCheck.

(* ------------------------------------------------------------------------------------------ *)
(* A concrete instance: ASCII letters, and the two trees syntax.Parse builds (tree.Dump()) for
     (?i)(a)[b-c]+12\1$         Capture0(Concat(Capture1(Set[Aa]) SetloopAtomic[BCbc]{1,inf} Multi"12" Ref-I(1) EndZ))
     (?i)xy[^b-c][a-z-[m]]\b    Capture0(Concat(Set[Xx] Set[Yy] Set[^BCbc] Set[A-Za-zſK-[Mm]] Boundary))   *)

Definition ascii_sim (x y : Z) : Prop :=
  x = y \/ (97 <= x <= 122 /\ y = x - 32) \/ (65 <= x <= 90 /\ y = x + 32).

Lemma ascii_sim_refl x : ascii_sim x x.
Proof. left. reflexivity. Qed.
Lemma ascii_sim_sym x y : ascii_sim x y -> ascii_sim y x.
Proof. unfold ascii_sim. lia. Qed.
Lemma ascii_sim_trans x y z : ascii_sim x y -> ascii_sim y z -> ascii_sim x z.
Proof. unfold ascii_sim. lia. Qed.

(* the non-trivial pairs (lower, upper) *)
Definition ascii_pairs : list (Z * Z) :=
  map (fun i => (97 + Z.of_nat i, 65 + Z.of_nat i)) (seq 0 26).

Lemma ascii_pairs_sim x y : In (x, y) ascii_pairs -> ascii_sim x y.
Proof.
  unfold ascii_pairs. rewrite in_map_iff. intros [i [Hi Hin]]. apply in_seq in Hin.
  assert (x = 97 + Z.of_nat i /\ y = 65 + Z.of_nat i) as [-> ->] by (split; congruence).
  unfold ascii_sim. lia.
Qed.

Lemma ascii_sim_pairs x y :
  ascii_sim x y -> x = y \/ In (x, y) ascii_pairs \/ In (y, x) ascii_pairs.
Proof.
  intros [H|[[H1 H2]|[H1 H2]]]; [left; exact H | right; left | right; right];
    unfold ascii_pairs; apply in_map_iff.
  - exists (Z.to_nat (x - 97)). split; [f_equal; lia | apply in_seq; lia].
  - exists (Z.to_nat (x - 65)). split; [f_equal; lia | apply in_seq; lia].
Qed.

Definition case_ascii_lower (x : Z) : Z := if (65 <=? x) && (x <=? 90) then x + 32 else x.
Definition case_ascii_word (x : Z) : bool :=
  ((48 <=? x) && (x <=? 57)) || ((65 <=? x) && (x <=? 90)) || ((97 <=? x) && (x <=? 122)) || (x =? 95).

Definition case_in_rng (a b x : Z) : bool := (a <=? x) && (x <=? b).

(* set ids: 0 [Aa]  1 [BCbc]  2 [Xx]  3 [Yy]  4 [^BCbc]  5 [A-Za-zſK-[Mm]]  6 [A-Za-z-[m]] NOT closed:
   the shape built for (?i)[a-z-[m]] before addCaseEquivalences descended into the subtraction *)
Definition case_ex_set_in (sid x : Z) : bool :=
  if sid =? 0 then (x =? 65) || (x =? 97)
  else if sid =? 1 then case_in_rng 66 67 x || case_in_rng 98 99 x
  else if sid =? 2 then (x =? 88) || (x =? 120)
  else if sid =? 3 then (x =? 89) || (x =? 121)
  else if sid =? 4 then negb (case_in_rng 66 67 x || case_in_rng 98 99 x)
  else if sid =? 5 then (case_in_rng 65 90 x || case_in_rng 97 122 x || (x =? 383) || (x =? 8490))
                        && negb ((x =? 77) || (x =? 109))
  else if sid =? 6 then (case_in_rng 65 90 x || case_in_rng 97 122 x) && negb (x =? 109)
  else false.

Definition case_ex_env (text : list Z) : env :=
  {| txt := text; tstart := 0; ecma := false; endz_strict := false;
     set_in := case_ex_set_in; lower := case_ascii_lower; is_word := case_ascii_word; is_eword := case_ascii_word |}.

Definition case_ex_tree1 : node :=
  NCapture 0 0 (-1) (NConcat 1 [NCapture 1 1 (-1) (NChar CSet 1 0);
                                NCharLoop CSet LAtomic 1 1 1 INF;
                                NMulti 0 [49; 50];
                                NRef 1 1;
                                NAnchor AEndZ]).
(* (?i)a[b-c]+ under RightToLeft:  Capture-L(Concatenate-L(Setloop-L[BCbc]{1,inf} Set-L[Aa])) *)
Definition case_ex_tree3 : node :=
  NCapture 64 0 (-1) (NConcat 64 [NCharLoop CSet LGreedy 65 1 1 INF; NChar CSet 65 0]).
Definition case_ex_tree2 : node :=
  NCapture 0 0 (-1) (NConcat 1 [NChar CSet 1 2; NChar CSet 1 3; NChar CSet 1 4; NChar CSet 1 5;
                                NAnchor ABoundary]).

(* any two case_ex_env texts of equal length that are pointwise ascii_sim satisfy the section hypotheses *)
Lemma case_ex_find_invariant (t : node) (w w' : list Z) :
  length w' = length w ->
  (forall i, 0 <= i < zlen w -> ascii_sim (nth (Z.to_nat i) w 0) (nth (Z.to_nat i) w' 0)) ->
  ci_closedb ascii_pairs (case_ex_env w) t = true ->
  forall fuel rtl start prevlen,
    find (case_ex_env w') fuel t rtl start prevlen = find (case_ex_env w) fuel t rtl start prevlen.
Proof.
  intros Hlen Hsim Hb fuel rtl start prevlen.
  apply (ci_find_invariant ascii_sim ascii_sim_refl ascii_sim_sym (case_ex_env w) (case_ex_env w'));
    try reflexivity; try assumption.
  apply (ci_closedb_iff ascii_sim ascii_pairs ascii_sim_sym ascii_pairs_sim ascii_sim_pairs), Hb.
Qed.

(* ------------------------------------------------------------------------------------------ *)
(* Closed statements (all section hypotheses packed into one predicate)                        *)

(* e' is e with another text of the same length whose runes are pointwise [sim] *)
Definition case_variant (sim : Z -> Z -> Prop) (e e' : env) : Prop :=
  tstart e' = tstart e /\ ecma e' = ecma e /\ endz_strict e' = endz_strict e /\
  (forall sid x, set_in e' sid x = set_in e sid x) /\ (forall x, lower e' x = lower e x) /\
  (forall x, is_word e' x = is_word e x) /\ (forall x, is_eword e' x = is_eword e x) /\
  length (txt e') = length (txt e) /\
  (forall i, 0 <= i < tlen e -> sim (char_at e i) (char_at e' i)).

Definition sim_ok (sim : Z -> Z -> Prop) : Prop :=
  (forall x, sim x x) /\ (forall x y, sim x y -> sim y x).

Lemma case_sem_invariant sim e e' : sim_ok sim -> case_variant sim e e' ->
  forall t, ci_closed sim e t -> forall fuel s, sem e' fuel t s = sem e fuel t s.
Proof.
  intros [Hr Hs] (H1 & H2 & H3 & H4 & H5 & H6 & H7 & H8 & H9) t Hc fuel s.
  apply (ci_input_invariant sim Hr Hs e e' H1 H2 H3 H4 H5 H6 H7 H8 H9 fuel t s Hc).
Qed.

Lemma case_find_invariant sim e e' : sim_ok sim -> case_variant sim e e' ->
  forall root, ci_closed sim e root ->
  forall fuel rtl start prevlen,
    find e' fuel root rtl start prevlen = find e fuel root rtl start prevlen
    /\ findk e' fuel root rtl start prevlen = findk e fuel root rtl start prevlen
    /\ (forall p, attempt e' fuel root p = attempt e fuel root p).
Proof.
  intros [Hr Hs] (H1 & H2 & H3 & H4 & H5 & H6 & H7 & H8 & H9) root Hc fuel rtl start prevlen.
  split; [|split].
  - apply (ci_find_invariant sim Hr Hs e e' H1 H2 H3 H4 H5 H6 H7 H8 H9 fuel root rtl start prevlen Hc).
  - apply (ci_findk_invariant sim Hr Hs e e' H1 H2 H3 H4 H5 H6 H7 H8 H9 fuel root rtl start prevlen Hc).
  - intros p. apply (ci_attempt_invariant sim Hr Hs e e' H1 H2 H3 H4 H5 H6 H7 H8 H9 fuel root p Hc).
Qed.

(* the relation is symmetric, so is the hypothesis: ci_closed transports along a case variant *)
Lemma case_variant_closed sim e e' : case_variant sim e e' ->
  forall t, ci_closed sim e t -> ci_closed sim e' t.
Proof.
  intros (_ & _ & _ & H4 & H5 & H6 & H7 & _ & _).
  assert (Hleaf : forall k c, ci_leaf sim e k c -> ci_leaf sim e' k c).
  { intros [| |] c H; cbn [ci_leaf] in *; try exact H.
    intros x y Hxy. rewrite !H4. apply H, Hxy. }
  assert (Hlow : resp_z sim (lower e) -> resp_z sim (lower e')).
  { intros H x y Hxy. rewrite !H5. apply H, Hxy. }
  fix IH 1. intros t. destruct t; cbn [ci_closed].
  - apply Hleaf.
  - apply Hleaf.
  - destruct (is_ci o); [apply Hlow | exact (fun H => H)].
  - intros [Ha Hb]. split; [exact Ha | apply Hlow, Hb].
  - destruct a; cbn [ci_anchor]; try exact (fun H => H);
      intros H x y Hxy; rewrite ?H6, ?H7; apply H, Hxy.
  - exact (fun H => H).
  - exact (fun H => H).
  - exact (fun H => H).
  - induction l as [|x l IHl]; [exact (fun H => H)|].
    intros [Hx Hl]. split; [apply IH, Hx | apply IHl, Hl].
  - induction l as [|x l IHl]; [exact (fun H => H)|].
    intros [Hx Hl]. split; [apply IH, Hx | apply IHl, Hl].
  - apply IH.
  - apply IH.
  - apply IH.
  - apply IH.
  - apply IH.
  - apply IH.
  - intros [Hy Hn]. split; [apply IH, Hy|]. destruct no; [apply IH, Hn | exact I].
  - intros [Hc [Hy Hn]]. split; [apply IH, Hc|]. split; [apply IH, Hy|].
    destruct no; [apply IH, Hn | exact I].
Qed.

Lemma case_ex_variant (w w' : list Z) :
  length w' = length w ->
  (forall i, 0 <= i < zlen w -> ascii_sim (nth (Z.to_nat i) w 0) (nth (Z.to_nat i) w' 0)) ->
  case_variant ascii_sim (case_ex_env w) (case_ex_env w').
Proof. intros Hl Hs. unfold case_variant. cbn. repeat split; auto. Qed.

(* pointwise check of two concrete texts *)
Fixpoint ascii_simb_list (w w' : list Z) : bool :=
  match w, w' with
  | [], [] => true
  | x :: w1, y :: w1' =>
      ((x =? y) || (case_in_rng 97 122 x && (y =? x - 32)) || (case_in_rng 65 90 x && (y =? x + 32)))
      && ascii_simb_list w1 w1'
  | _, _ => false
  end.

Lemma ascii_simb_list_ok : forall w w', ascii_simb_list w w' = true ->
  length w' = length w /\
  (forall i, 0 <= i < zlen w -> ascii_sim (nth (Z.to_nat i) w 0) (nth (Z.to_nat i) w' 0)).
Proof.
  induction w as [|x w IH]; intros [|y w'] H; cbn [ascii_simb_list] in H; try discriminate.
  - split; [reflexivity|]. unfold zlen. cbn. lia.
  - apply andb_true_iff in H. destruct H as [Hxy Hr]. destruct (IH _ Hr) as [Hl Hs].
    split; [cbn; lia|]. intros i Hi. unfold zlen in *. cbn [length] in Hi.
    destruct (Z.eq_dec i 0) as [->|Hn].
    + cbn. unfold ascii_sim, case_in_rng in *. lia.
    + replace (Z.to_nat i) with (S (Z.to_nat (i - 1))) by lia. cbn [nth]. apply Hs. lia.
Qed.

Lemma case_ex_variant_b w w' : ascii_simb_list w w' = true ->
  case_variant ascii_sim (case_ex_env w) (case_ex_env w').
Proof. intros H. destruct (ascii_simb_list_ok _ _ H). apply case_ex_variant; assumption. Qed.

Lemma ascii_sim_ok : sim_ok ascii_sim.
Proof. split; [exact ascii_sim_refl | exact ascii_sim_sym]. Qed.

Lemma case_ex_closedb_closed w t :
  ci_closedb ascii_pairs (case_ex_env w) t = true -> ci_closed ascii_sim (case_ex_env w) t.
Proof. apply (ci_closedb_iff ascii_sim ascii_pairs ascii_sim_sym ascii_pairs_sim ascii_sim_pairs). Qed.
