(* [caps_rel2 / leadsg2 / ok_node2] version of Proofs/CompileStage1.v for compile_correct2 (balancing captures,
   see Proofs/CompileBal.v): the same lemmas and proofs over the marker-aware capture relation of
   Proofs/CompileBalDen.v.  Lemma names: cc_X -> c2_X. *)
(* compile_correct, stage 1: leaves, anchors, single characters, Concat, Alternate, plain Capture, Group. *)
From Verif Require Import Base.Prelude Model.Tree Model.Spec Model.VM Model.Writer Gen.RunnerGen
  Proofs.SpecProofs Proofs.SpecBoundsProofs Proofs.MaskProofs
  Proofs.VMU Proofs.VMUOps Proofs.VMUOps2 Proofs.VMUOps6 Proofs.VMUOps3 Proofs.CompileBase Proofs.CompileDefs Proofs.CompileStage1 Proofs.CompileBalDen Proofs.CompileBalBase Proofs.CompileBalDefs.
From Coq Require Import Relations ZifyBool.

Section CC.
Variable e : env.
Variable p : program.
Hypothesis tc_nonneg : 0 <= trackcount p.

Notation rsteps := (VMUOps2.rsteps e p).
Notation leadsg2 := (CompileBalBase.leadsg2 e p).
Notation has_code := (CompileBase.has_code p).
Notation track_ok := (CompileBase.track_ok p).
Notation caps_rel2 := (CompileBalDen.caps_rel2 p).

Notation code_ex := (CompileDefs.code_ex p).
Notation tbl_ok := (CompileDefs.tbl_ok p).
Notation ok_node2 := (CompileBalDefs.ok_node2 e p).
Notation ok_at2 := (CompileBalDefs.ok_at2 e p).
Notation seqf := (CompileStage1.seqf e).
Notation altf := (CompileStage1.altf e).

(* ---------- leaves ---------- *)
Lemma c2_char f k o c : ok_node2 (S f) (NChar k o c).
Proof.
  intros s res Hsem Hst a tbl T S C M Hc Hex Hk Hr Htb.
  cbn [sem] in Hsem. injection Hsem as <-.
  cbn [emit fst csize] in *.
  apply has_code_cons in Hc. destruct Hc as [H0 Hc]. apply has_code_cons in Hc. destruct Hc as [H1 _].
  destruct Hex as [w2 H2]. destruct Hst as [Hp _].
  destruct ((0 <? avail e o (pos s)) && char_test e k c (next_char e o (pos s))) eqn:E.
  - apply leadsg2_leaf; [exact Hk|exact Hr|]. cbn [pos with_pos]. eapply rs_char_ok; eassumption.
  - destruct Hk as (np & T' & -> & w3 & H3). eapply leadsg2_fail; [reflexivity|]. eapply rs_char_fail; eassumption.
Qed.

Lemma c2_anchor f an : ok_node2 (S f) (NAnchor an).
Proof.
  intros s res Hsem Hst a tbl T S C M Hc Hex Hk Hr Htb.
  cbn [sem] in Hsem. injection Hsem as <-.
  cbn [emit fst csize] in *.
  apply has_code_cons in Hc. destruct Hc as [H0 _].
  destruct Hex as [w2 H2]. destruct Hst as [Hp _].
  pose proof Hk as (np & T' & -> & w3 & H3).
  assert (G : rsteps (mkr a 0 (pos s) (np :: T') S C M)
            (if anchor_ok e an (pos s) then mkr (a + 1) 0 (pos s) (np :: T') S C M else bkr np (pos s) T' S C M))
    by (eapply rs_anchor; eassumption).
  destruct (anchor_ok e an (pos s)).
  - apply leadsg2_leaf; [exact Hk|exact Hr|exact G].
  - eapply leadsg2_fail; [reflexivity|exact G].
Qed.

Lemma c2_nothing f : ok_node2 (S f) NNothing.
Proof.
  intros s res Hsem Hst a tbl T S C M Hc Hex Hk Hr Htb.
  cbn [sem] in Hsem. injection Hsem as <-.
  cbn [emit fst csize] in *.
  apply has_code_cons in Hc. destruct Hc as [H0 _].
  destruct Hk as (np & T' & -> & w3 & H3). eapply leadsg2_fail; [reflexivity|]. eapply rs_nothing; eassumption.
Qed.

Lemma c2_empty f : ok_node2 (S f) NEmpty.
Proof.
  intros s res Hsem Hst a tbl T S C M Hc Hex Hk Hr Htb.
  cbn [sem] in Hsem. injection Hsem as <-.
  cbn [csize]. rewrite Z.add_0_r. apply leadsg2_leaf; [exact Hk|exact Hr|apply rsteps_refl].
Qed.

Lemma c2_bump f : ok_node2 (S f) NBump.
Proof.
  intros s res Hsem Hst a tbl T S C M Hc Hex Hk Hr Htb.
  cbn [sem] in Hsem. injection Hsem as <-.
  cbn [emit fst csize] in *.
  apply has_code_cons in Hc. destruct Hc as [H0 _]. destruct Hex as [w2 H2].
  apply leadsg2_leaf; [exact Hk|exact Hr|]. eapply rs_bump; eassumption.
Qed.

(* ---------- Group ---------- *)
Lemma c2_group f r : ok_node2 f r -> ok_node2 (S f) (NGroup r).
Proof. intros Hr s res Hsem. cbn [sem] in Hsem. cbn [emit csize]. apply Hr. exact Hsem. Qed.

(* ---------- Concat ---------- *)

Lemma c2_concat_list f : ok_at2 f -> forall l,
  Forall (fun t => supported2 t = true) l -> Forall (groups_ok2 (capsize p)) l ->
  forall s res, seqf f l s = Ok res -> st_ok e s ->
  forall a tbl T S C M, has_code a (fst (emit_seq cfg0 l a tbl)) -> code_ex (a + csize_seq cfg0 l) ->
    track_ok T -> caps_rel2 (caps s) M -> tbl_ok (snd (emit_seq cfg0 l a tbl)) ->
    leadsg2 (a + csize_seq cfg0 l) T S S C M (mkr a 0 (pos s) T S C M) res.
Proof.
  intros Hok. induction l as [|x l IH]; intros Hsl Hgl s res Hsem Hst a tbl T S C M Hc Hex Hk Hr Htb.
  - cbn [CompileStage1.seqf] in Hsem. injection Hsem as <-. cbn [csize_seq]. rewrite Z.add_0_r.
    apply leadsg2_leaf; [exact Hk|exact Hr|apply rsteps_refl].
  - inversion Hsl as [|? ? Hsx Hsl']; subst. inversion Hgl as [|? ? Hgx Hgl']; subst.
    cbn [CompileStage1.seqf] in Hsem. apply sp_bindr_ok in Hsem. destruct Hsem as [la [Hla Hb]].
    cbn [emit_seq] in Hc, Htb. pose proof (emit_length cfg0 x a tbl) as Lx.
    destruct (emit cfg0 x a tbl) as [cx t1] eqn:Ex. cbn [fst] in Lx. rewrite Lx in Hc, Htb.
    pose proof (emit_seq_tbl_ext cfg0 l (proj2 (Forall_forall _ _) (fun t _ => emit_tbl_ext cfg0 t)) (a + csize cfg0 x) t1) as Hext.
    destruct (emit_seq cfg0 l (a + csize cfg0 x) t1) as [cr t2] eqn:Er. cbn [fst snd] in Hc, Htb, Hext.
    apply has_code_app in Hc. destruct Hc as [Hcx Hcr]. rewrite Lx in Hcr.
    assert (Lr : zlen cr = csize_seq cfg0 l).
    { replace cr with (fst (emit_seq cfg0 l (a + csize cfg0 x) t1)) by (rewrite Er; reflexivity).
      apply emit_seq_length. apply Forall_forall. intros t _. apply emit_length. }
    cbn [csize_seq] in *. rewrite Z.add_assoc in *.
    assert (Hexx : code_ex (a + csize cfg0 x)).
    { eapply cc_code_ex_start; [exact Hcr|]. rewrite Lr. exact Hex. }
    eapply leadsg2_bindl with (m := a + csize cfg0 x) (Ss1 := S) (f := seqf f l); [|exact Hb|].
    + apply (Hok x Hsx Hgx s la Hla Hst a tbl T S C M); [rewrite Ex; exact Hcx|exact Hexx|exact Hk|exact Hr|].
      rewrite Ex. cbn [snd]. eapply tbl_ok_ext; eassumption.
    + intros q rq T' C' M' Hin Hq Hcq Hu Hkq.
      apply IH with (tbl := t1); try assumption.
      * eapply c2_res_ok_in; eassumption.
      * rewrite Er. exact Hcr.
      * rewrite Er. exact Htb.
Qed.

Lemma c2_concat f o l : ok_at2 f -> supported2 (NConcat o l) = true -> groups_ok2 (capsize p) (NConcat o l) ->
  ok_node2 (S f) (NConcat o l).
Proof.
  intros Hok Hs Hg s res Hsem Hst a tbl T S C M Hc Hex Hk Hr Htb.
  cbn [sem] in Hsem. change (seqf f l s = Ok res) in Hsem.
  rewrite wr_emit_concat_eq in Hc, Htb. rewrite wr_csize_concat_eq in *.
  eapply c2_concat_list; try eassumption.
  - apply c2_supported_list_forall. exact Hs.
  - apply c2_groups_list. destruct Hg as [_ Hg]. exact Hg.
Qed.

(* ---------- Alternate ---------- *)

Lemma c2_alt_list f lend : ok_at2 f -> forall l, l <> [] ->
  Forall (fun t => supported2 t = true) l -> Forall (groups_ok2 (capsize p)) l ->
  forall s res, altf f s l = Ok res -> st_ok e s ->
  forall a tbl T S C M, has_code a (fst (emit_alt cfg0 lend l a tbl)) -> lend = a + csize_alt cfg0 l ->
    code_ex lend -> track_ok T -> caps_rel2 (caps s) M -> tbl_ok (snd (emit_alt cfg0 lend l a tbl)) ->
    leadsg2 lend T S S C M (mkr a 0 (pos s) T S C M) res.
Proof.
  intros Hok. induction l as [|x l IH]; intros Hne Hsl Hgl s res Hsem Hst a tbl T S C M Hc Hl Hex Hk Hr Htb;
    [congruence|].
  inversion Hsl as [|? ? Hsx Hsl']; subst l0 x0. inversion Hgl as [|? ? Hgx Hgl']; subst l0 x0.
  cbn [CompileStage1.altf] in Hsem. apply sp_appr_ok in Hsem. destruct Hsem as (rx & ry & Hrx & Hry & ->).
  destruct l as [|y l'].
  - cbn [CompileStage1.altf] in Hry. injection Hry as <-. rewrite app_nil_r.
    cbn [emit_alt csize_alt] in *. subst lend.
    apply (Hok x Hsx Hgx s rx Hrx Hst a tbl T S C M); assumption.
  - rewrite wr_emit_alt_cons2 in Hc, Htb. rewrite wr_csize_alt_cons2 in Hl.
    pose proof (emit_length cfg0 x (a + 2) tbl) as Lx.
    destruct (emit cfg0 x (a + 2) tbl) as [cx t1] eqn:Ex. cbn [fst] in Lx. cbv zeta in Hc, Htb.
    pose proof (emit_alt_tbl_ext cfg0 lend (y :: l') (proj2 (Forall_forall _ _) (fun t _ => emit_tbl_ext cfg0 t)) (a + 2 + zlen cx + 2) t1) as Hext.
    destruct (emit_alt cfg0 lend (y :: l') (a + 2 + zlen cx + 2) t1) as [cr t2] eqn:Er. cbn [fst snd] in Hc, Htb, Hext.
    rewrite Lx in *.
    apply has_code_cons in Hc. destruct Hc as [H0 Hc]. apply has_code_cons in Hc. destruct Hc as [H1 Hc].
    replace (a + 1 + 1) with (a + 2) in Hc by lia.
    apply has_code_app in Hc. destruct Hc as [Hcx Hc]. rewrite Lx in Hc.
    apply has_code_cons in Hc. destruct Hc as [Hg0 Hc]. apply has_code_cons in Hc. destruct Hc as [Hg1 Hcr].
    replace (a + 2 + csize cfg0 x + 1 + 1) with (a + 2 + csize cfg0 x + 2) in Hcr by lia.
    pose proof (code_at_nonneg p _ _ H0) as Ha.
    destruct Hex as [wl Hwl].
    eapply leadsg2_pre.
    { eapply rs_lazybranch; try exact tc_nonneg; [exact H0|exact H1|].
      instantiate (1 := match cx with [] => Goto | w :: _ => w end).
      destruct cx as [|w cx']; [rewrite <- Lx, zlen_nil, Z.add_0_r in Hg0; exact Hg0|].
      apply has_code_cons in Hcx. destruct Hcx as [Hcx _]. exact Hcx. }
    eapply leadsg2_app with (T1 := [a; pos s]) (Cx := []) (Sf1 := S) (M1 := M); [|reflexivity|].
    + eapply leadsg2_exit_map with (m := a + 2 + csize cfg0 x).
      { intros t T0 C0 M0. eapply rs_goto; eassumption. }
      apply (Hok x Hsx Hgx s rx Hrx Hst (a + 2) tbl ([a; pos s] ++ T) S C M).
      * rewrite Ex. exact Hcx.
      * exists Goto. exact Hg0.
      * cbn [app]. eapply track_ok_cons. rewrite Z.abs_eq by lia. exact H0.
      * exact Hr.
      * rewrite Ex. cbn [snd]. eapply tbl_ok_ext; eassumption.
    + intros np T' t HT. cbn [app] in HT. injection HT as <- <-.
      rewrite bkr_pos by exact Ha.
      eapply leadsg2_pre.
      { eapply rs_lazybranch_back; try exact tc_nonneg; [exact H0|exact H1|].
        instantiate (1 := match cr with [] => wl | w :: _ => w end).
        destruct cr as [|w cr'].
        - assert (Lr : zlen (fst (emit_alt cfg0 lend (y :: l') (a + 2 + csize cfg0 x + 2) t1)) = csize_alt cfg0 (y :: l')).
          { apply emit_alt_length. apply Forall_forall. intros t0 _. apply emit_length. }
          rewrite Er in Lr. cbn [fst] in Lr. rewrite zlen_nil in Lr.
          replace (a + 2 + csize cfg0 x + 2) with lend by lia. exact Hwl.
        - apply has_code_cons in Hcr. destruct Hcr as [Hcr _]. exact Hcr. }
      apply IH with (tbl := t1); try assumption.
      * discriminate.
      * rewrite Er. exact Hcr.
      * lia.
      * exists wl. exact Hwl.
      * rewrite Er. exact Htb.
Qed.

Lemma c2_alternate f o l : ok_at2 f -> supported2 (NAlternate o l) = true -> groups_ok2 (capsize p) (NAlternate o l) ->
  ok_node2 (S f) (NAlternate o l).
Proof.
  intros Hok Hs Hg s res Hsem Hst a tbl T S C M Hc Hex Hk Hr Htb.
  cbn [sem] in Hsem. change (altf f s l = Ok res) in Hsem.
  rewrite wr_emit_alternate_eq in Hc, Htb.
  cbn [supported2] in Hs. apply andb_prop in Hs. destruct Hs as [Hne Hs].
  eapply c2_alt_list; try eassumption.
  - destruct l; [discriminate|discriminate].
  - apply c2_supported_list_forall. exact Hs.
  - apply c2_groups_list. destruct Hg as [_ Hg]. exact Hg.
  - reflexivity.
Qed.

(* ---------- Capture (plain) ---------- *)


Lemma c2_capture f o g r : ok_node2 f r -> supported2 r = true -> 0 <= g < capsize p ->
  ok_node2 (S f) (NCapture o g (-1) r).
Proof.
  intros Hokr Hsr Hg s res Hsem Hst a tbl T S C M Hc Hex Hk Hr Htb.
  rewrite cc_sem_capture in Hsem. apply sp_bindr_ok in Hsem. destruct Hsem as [la [Hla Hb]].
  rewrite cc_emit_capture in Hc, Htb by lia.
  pose proof (emit_length cfg0 r (a + 1) tbl) as Lr.
  destruct (emit cfg0 r (a + 1) tbl) as [cr t1] eqn:Er. cbn [fst snd] in Lr, Hc, Htb.
  replace (csize cfg0 (NCapture o g (-1) r)) with (1 + csize cfg0 r + 3) in * by reflexivity.
  apply has_code_cons in Hc. destruct Hc as [H0 Hc].
  apply has_code_app in Hc. destruct Hc as [Hcr Hc]. rewrite Lr in Hc.
  apply has_code_cons in Hc. destruct Hc as [Hm0 Hc]. apply has_code_cons in Hc. destruct Hc as [Hm1 Hc].
  apply has_code_cons in Hc. destruct Hc as [Hm2 _].
  set (m := a + 1 + csize cfg0 r) in *.
  replace (a + (1 + csize cfg0 r + 3)) with (m + 3) in * by (unfold m; lia).
  pose proof (code_at_nonneg p _ _ H0) as Ha. pose proof (code_at_nonneg p _ _ Hm0) as Hm.
  replace (m + 1 + 1) with (m + 2) in Hm2 by lia.
  destruct Hex as [wx Hwx].
  assert (Hex1 : code_ex (a + 1)).
  { eapply cc_code_ex_start; [exact Hcr|]. rewrite Lr. exists Capturemark. exact Hm0. }
  destruct Hex1 as [w1 Hw1].
  eapply leadsg2_pre. { eapply rs_setmark; try exact tc_nonneg; eassumption. }
  rewrite <- (app_nil_r res).
  eapply leadsg2_app with (T1 := [a]) (Cx := []) (Sf1 := pos s :: S) (M1 := M); [|reflexivity|].
  - cbn [app].
    eapply leadsg2_bindl with (m := m) (Ss1 := pos s :: S); [|exact Hb|].
    + apply (Hokr s la Hla Hst (a + 1) tbl (a :: T) (pos s :: S) C M).
      * rewrite Er. exact Hcr.
      * exists Capturemark. exact Hm0.
      * eapply track_ok_cons. rewrite Z.abs_eq by lia. exact H0.
      * exact Hr.
      * rewrite Er. exact Htb.
    + intros q rq T' C' M' Hin Hq Hcq Hu Hkq. injection Hq as <-.
      destruct Hcq as [HlM HcM].
      assert (Hzn : znth M' g = Some (nth (Z.to_nat g) M' [])) by (apply cc_znth_nth; lia).
      exists [m; pos s], [g], (mc_set g (nth (Z.to_nat g) M' [] ++ [Z.min (pos s) (pos q); Z.abs (pos q - pos s)]) M').
      cbn [pos caps].
      assert (Hstq : st_ok e q) by (eapply c2_res_ok_in; eassumption).
      split. { apply (bd_caps_rel_push p (caps q) M' g (span (pos s) (pos q))); [split; assumption|exact Hg| |];
               destruct Hst as [Hps _]; destruct Hstq as [Hpq _]; cbn [span fst snd]; lia. }
      split. { cbn [unwind]. rewrite cc_remove_match_set by exact Hzn. reflexivity. }
      split. { cbn [app]. eapply track_ok_cons. rewrite Z.abs_eq by lia. exact Hm0. }
      split. { cbn [app]. eapply rs_capturemark; try exact tc_nonneg; eassumption. }
      intros np T'' t HT. cbn [app] in HT. injection HT as <- <-.
      rewrite bkr_pos by exact Hm.
      destruct Hkq as (np' & T3 & HT3 & w3 & Hw3).
      eapply leadsg2_fail; [exact HT3|].
      rewrite HT3. eapply rs_capturemark_back; try exact tc_nonneg; try eassumption.
      apply cc_remove_match_set. exact Hzn.
  - intros np T' t HT. cbn [app] in HT. injection HT as <- <-.
    rewrite bkr_pos by exact Ha. destruct Hk as (np' & T3 & -> & w3 & Hw3).
    eapply leadsg2_fail; [reflexivity|].
    eapply rs_mark_back; try exact tc_nonneg; try eassumption. left. reflexivity.
Qed.

End CC.
