(* C04, part 3: soundness of the leading literal computed by tryFindPrefix (Analysis.try_find_prefix):
   on a left-to-right pattern every match reads, from the attempt position on, text whose UTF-8
   encoding starts with the published bytes. *)
From Coq Require Import ZifyBool.
From Verif Require Import Base.Prelude Base.Utf8 Model.Tree Model.Spec Model.Analysis
     Proofs.SpecProofs Proofs.Utf8Proofs Proofs.AnalysisReach Proofs.AnalysisProofs.

(* ------------------------------------------------------------------------------------------ *)
(* list prefixes                                                                               *)

Definition an_prefix (a b : list Z) : Prop := exists r, b = a ++ r.

Lemma an_prefix_nil a : an_prefix [] a.
Proof. exists a. reflexivity. Qed.

Lemma an_prefix_refl a : an_prefix a a.
Proof. exists []. rewrite app_nil_r. reflexivity. Qed.

Lemma an_prefix_trans a b c : an_prefix a b -> an_prefix b c -> an_prefix a c.
Proof. intros [r ->] [r' ->]. exists (r ++ r'). rewrite app_assoc. reflexivity. Qed.

Lemma an_prefix_app a b c : an_prefix b c -> an_prefix (a ++ b) (a ++ c).
Proof. intros [r ->]. exists r. rewrite app_assoc. reflexivity. Qed.

Lemma an_prefix_app_r a b c : an_prefix a b -> an_prefix a (b ++ c).
Proof. intros [r ->]. exists (r ++ c). rewrite app_assoc. reflexivity. Qed.

Lemma an_prefix_firstn n (l : list Z) : an_prefix (firstn n l) l.
Proof. exists (skipn n l). symmetry. apply firstn_skipn. Qed.

Lemma an_prefix_firstn_le i j (l : list Z) : (i <= j)%nat -> an_prefix (firstn i l) (firstn j l).
Proof.
  intros Hij. replace (firstn i l) with (firstn i (firstn j l)); [apply an_prefix_firstn|].
  rewrite firstn_firstn. f_equal. lia.
Qed.

Lemma an_cpl_le a : forall b, (common_prefix_len a b <= length a)%nat.
Proof.
  induction a as [|x a IH]; intros b; cbn [common_prefix_len length]; [lia|].
  destruct b as [|y b]; [lia|]. destruct (x =? y); [specialize (IH b)|]; lia.
Qed.

Lemma an_cpl_prefix a : forall b, an_prefix (firstn (common_prefix_len a b) a) b.
Proof.
  induction a as [|x a IH]; intros b; cbn [common_prefix_len].
  - cbn. apply an_prefix_nil.
  - destruct b as [|y b]; [cbn; apply an_prefix_nil|].
    destruct (x =? y) eqn:E; [|cbn; apply an_prefix_nil].
    assert (x = y) by lia. subst y. cbn [firstn].
    apply (an_prefix_app [x]). apply IH.
Qed.

Lemma an_repeat_bytes_app b : forall i j, repeat_bytes (i + j) b = repeat_bytes i b ++ repeat_bytes j b.
Proof.
  induction i as [|i IH]; intros j; cbn [repeat_bytes Nat.add]; [reflexivity|].
  rewrite IH, app_assoc. reflexivity.
Qed.

Lemma an_repeat_bytes_le b i j : (i <= j)%nat -> an_prefix (repeat_bytes i b) (repeat_bytes j b).
Proof.
  intros Hij. replace j with (i + (j - i))%nat by lia. rewrite an_repeat_bytes_app.
  exists (repeat_bytes (j - i) b). reflexivity.
Qed.

Lemma an_encode_string_app a b : encode_string (a ++ b) = encode_string a ++ encode_string b.
Proof. unfold encode_string. apply flat_map_app. Qed.

Lemma an_encode_string_repeat c : forall n, encode_string (repeat c n) = repeat_bytes n (encode c).
Proof.
  induction n as [|n IH]; cbn [repeat repeat_bytes]; [reflexivity|].
  change (c :: repeat c n) with ([c] ++ repeat c n). rewrite an_encode_string_app, IH.
  unfold encode_string at 1. cbn [flat_map]. rewrite app_nil_r. reflexivity.
Qed.

Lemma an_encode_string_prefix a b : an_prefix a b -> an_prefix (encode_string a) (encode_string b).
Proof. intros [r ->]. rewrite an_encode_string_app. exists (encode_string r). reflexivity. Qed.

(* the alternation loop of tryFindPrefix (after the fix): the kept length only shrinks, and what is
   kept is a prefix of every branch seen *)
Lemma an_alt_prefix_fold (first : list Z) : forall others k0,
  let k := fold_left (alt_prefix_step true first) others k0 in
  (k <= k0)%nat /\ forall br, In br others -> an_prefix (firstn k first) br.
Proof.
  induction others as [|b others IH]; intros k0; cbn [fold_left].
  - split; [lia|]. intros br [].
  - specialize (IH (alt_prefix_step true first k0 b)). cbv zeta in IH. destruct IH as [Hle Hall].
    assert (Hstep : (alt_prefix_step true first k0 b <= k0)%nat /\
                    an_prefix (firstn (alt_prefix_step true first k0 b) first) b).
    { unfold alt_prefix_step. destruct k0 as [|k0]; [split; [lia|cbn; apply an_prefix_nil]|].
      pose proof (an_cpl_le (firstn (S k0) first) b) as Hl.
      pose proof (firstn_le_length (S k0) first) as Hl2.
      split; [lia|].
      pose proof (an_cpl_prefix (firstn (S k0) first) b) as Hp.
      rewrite firstn_firstn in Hp. rewrite Nat.min_l in Hp by lia. exact Hp. }
    destruct Hstep as [Hs1 Hs2].
    split; [lia|]. intros br [<-|Hin].
    + eapply an_prefix_trans; [apply an_prefix_firstn_le; exact Hle|exact Hs2].
    + apply Hall. exact Hin.
Qed.

(* ------------------------------------------------------------------------------------------ *)
(* text slices                                                                                 *)

Section Prefix.
Variable e : env.

Definition slice (p q : Z) : list Z := firstn (Z.to_nat (q - p)) (skipn (Z.to_nat p) (txt e)).

Lemma an_slice_nil p : slice p p = [].
Proof. unfold slice. replace (p - p) with 0 by lia. reflexivity. Qed.

Lemma an_firstn_add (l : list Z) : forall a b, firstn (a + b) l = firstn a l ++ firstn b (skipn a l).
Proof.
  intros a. revert l. induction a as [|a IH]; intros l b; [reflexivity|].
  destruct l as [|x l]; cbn [Nat.add firstn skipn app].
  - destruct b; reflexivity.
  - rewrite IH. reflexivity.
Qed.

Lemma an_slice_app p q r : 0 <= p <= q -> q <= r -> slice p r = slice p q ++ slice q r.
Proof.
  intros Hpq Hqr. unfold slice.
  replace (Z.to_nat (r - p)) with (Z.to_nat (q - p) + Z.to_nat (r - q))%nat by lia.
  rewrite an_firstn_add. f_equal. f_equal.
  replace (Z.to_nat q) with (Z.to_nat p + Z.to_nat (q - p))%nat by lia.
  rewrite skipn_add. reflexivity.
Qed.

Lemma an_skipn_nth (l : list Z) : forall n, (n < length l)%nat -> firstn 1 (skipn n l) = [nth n l 0].
Proof.
  induction l as [|x l IH]; intros n Hn; cbn [length] in Hn; [lia|].
  destruct n as [|n]; [reflexivity|]. cbn [skipn nth]. apply IH. lia.
Qed.

Lemma an_slice_one p : 0 <= p < tlen e -> slice p (p + 1) = [char_at e p].
Proof.
  intros Hp. unfold slice, char_at. replace (p + 1 - p) with 1 by lia.
  change (Z.to_nat 1) with 1%nat. apply an_skipn_nth. unfold tlen, zlen in Hp. lia.
Qed.

Lemma an_slice_prefix_from p q : an_prefix (slice p q) (skipn (Z.to_nat p) (txt e)).
Proof. unfold slice. apply an_prefix_firstn. Qed.

Lemma an_str_match_slice : forall str p,
  0 <= p -> str_match_at e false str p = true -> zlen str <= tlen e - p -> slice p (p + zlen str) = str.
Proof.
  induction str as [|c str IH]; intros p Hp Hm Hlen.
  - unfold zlen. cbn [length]. replace (p + Z.of_nat 0) with p by lia. apply an_slice_nil.
  - cbn [str_match_at] in Hm. apply andb_true_iff in Hm. destruct Hm as [Hc Hrest].
    assert (Hz : zlen (c :: str) = 1 + zlen str) by (unfold zlen; cbn [length]; lia).
    rewrite Hz in *.
    assert (Hz0 : 0 <= zlen str) by (unfold zlen; lia).
    rewrite (an_slice_app p (p + 1) (p + (1 + zlen str))) by lia.
    rewrite an_slice_one by lia.
    replace (p + (1 + zlen str)) with (p + 1 + zlen str) by lia.
    rewrite IH by (try assumption; lia).
    assert (c = char_at e p) by lia. subst c. reflexivity.
Qed.

(* a run of the character c, read left to right *)
Lemma an_run_slice (c o : Z) : is_rtl o = false -> forall maxn p j,
  0 <= p -> 0 <= j <= run_len e COne c o maxn p -> slice p (p + j) = repeat c (Z.to_nat j).
Proof.
  intros Ho. induction maxn as [|m IH]; intros p j Hp Hj; cbn [run_len] in Hj.
  - assert (j = 0) by lia. subst j. replace (p + 0) with p by lia. apply an_slice_nil.
  - destruct (Z.eq_dec j 0) as [->|Hj0].
    { replace (p + 0) with p by lia. apply an_slice_nil. }
    unfold avail, next_char, dir in Hj. rewrite Ho in Hj. cbn [char_test] in Hj.
    destruct ((0 <? tlen e - p) && (char_at e p =? c)) eqn:Ec; [|lia].
    rewrite (an_slice_app p (p + 1) (p + j)) by lia.
    rewrite an_slice_one by lia.
    replace (p + j) with (p + 1 + (j - 1)) by lia.
    rewrite (IH (p + 1) (j - 1)) by lia.
    replace (Z.to_nat j) with (S (Z.to_nat (j - 1))) by lia. cbn [repeat app].
    assert (char_at e p = c) by lia. congruence.
Qed.

Lemma an_charloop_in2 k l o c m n s y :
  In y (sem_charloop e k l o c m n s) ->
  exists j maxn, y = with_pos s (pos s + dir o * j) /\ m <= j <= run_len e k c o maxn (pos s) /\
                 (n <> INF -> j <= Z.max 0 n).
Proof.
  unfold sem_charloop.
  set (cap := if n =? INF then avail e o (pos s) else Z.min n (avail e o (pos s))).
  set (r := run_len e k c o (Z.to_nat cap) (pos s)).
  assert (Hr : 0 <= r <= Z.of_nat (Z.to_nat cap)) by apply an_run_len_bounds.
  assert (Hcap2 : n <> INF -> Z.of_nat (Z.to_nat cap) <= Z.max 0 n).
  { intros Hn. subst cap. destruct (n =? INF) eqn:E; lia. }
  destruct (r <? m) eqn:Erm; [intros []|]. intros H.
  assert (Hj : exists j, y = with_pos s (pos s + dir o * j) /\ m <= j <= r).
  { destruct l.
    - apply in_map_iff in H. destruct H as [j [<- Hj]]. exists j. split; [reflexivity|].
      apply an_count_down_in in Hj. lia.
    - apply in_map_iff in H. destruct H as [j [<- Hj]]. exists j. split; [reflexivity|].
      apply an_count_up_in in Hj. lia.
    - destruct H as [<-|[]]. exists r. split; [reflexivity|]. lia. }
  destruct Hj as [j [-> Hj]]. exists j, (Z.to_nat cap). split; [reflexivity|].
  split; [exact Hj|]. intros Hn. specialize (Hcap2 Hn). lia.
Qed.

(* ------------------------------------------------------------------------------------------ *)
(* the master lemma for tryFindPrefix                                                          *)

Definition enc_slice (s y : st) : list Z := encode_string (slice (pos s) (pos y)).

(* (bytes, continue) is sound for the text read between s and y *)
Definition pref_ok (bc : list Z * bool) (s y : st) : Prop :=
  an_prefix (fst bc) (enc_slice s y) /\ (snd bc = true -> fst bc = enc_slice s y).

Definition QT (t : node) (s y : st) : Prop :=
  shape_ok false t = true -> no_ci_lit t = true -> inb e s -> caps_nonneg (caps s) ->
  pref_ok (try_find_prefix_gen true t) s y.

Definition QS (l : list node) (s y : st) : Prop :=
  forallb (shape_ok false) l = true -> forallb no_ci_lit l = true -> inb e s -> caps_nonneg (caps s) ->
  forall last, pref_ok (concat_prefix (map (try_find_prefix_gen true) l) last) s y.

Definition QI (r : node) (limit : Z) (s : st) (count : Z) (y : st) : Prop :=
  shape_ok false r = true -> no_ci_lit r = true -> 0 <= limit -> inb e s -> caps_nonneg (caps s) ->
  snd (try_find_prefix_gen true r) = true ->
  exists k : nat, enc_slice s y = repeat_bytes k (fst (try_find_prefix_gen true r)) /\
                  (count < 0 -> - count <= Z.of_nat k) /\ (count <= limit -> Z.of_nat k <= limit - count).

Lemma an_pref_trivial s y : pref_ok ([], false) s y.
Proof. split; [apply an_prefix_nil|discriminate]. Qed.

Lemma an_pref_zero s : pref_ok ([], true) s s.
Proof. unfold pref_ok, enc_slice. rewrite an_slice_nil. split; [apply an_prefix_nil|reflexivity]. Qed.

Lemma an_enc_slice_trans s s1 y :
  0 <= pos s <= pos s1 -> pos s1 <= pos y -> enc_slice s y = enc_slice s s1 ++ enc_slice s1 y.
Proof. intros H1 H2. unfold enc_slice. rewrite (an_slice_app _ (pos s1)) by lia. apply an_encode_string_app. Qed.

(* positions only move forward on a left-to-right node *)
Lemma an_fwd t s y : Reach e t s y -> shape_ok false t = true -> inb e s -> caps_nonneg (caps s) ->
  inb e y /\ pos s <= pos y.
Proof.
  intros Hr Hs Hb Hcn. destruct (proj1 (an_shape_all e false) _ _ _ Hr Hs Hb Hcn) as [Hy [H0 _]].
  unfold disp in H0. split; [exact Hy|lia].
Qed.

Lemma an_fwd_seq l s y : ReachSeq e l s y -> forallb (shape_ok false) l = true -> inb e s -> caps_nonneg (caps s) ->
  inb e y /\ pos s <= pos y.
Proof.
  intros Hr Hs Hb Hcn. destruct (proj1 (proj2 (an_shape_all e false)) _ _ _ Hr Hs Hb Hcn) as [Hy [H0 _]].
  unfold disp in H0. split; [exact Hy|lia].
Qed.

Lemma an_fwd_iter r limit s count y : ReachIter e r limit s count y -> shape_ok false r = true -> 0 <= limit ->
  inb e s -> caps_nonneg (caps s) -> inb e y /\ pos s <= pos y.
Proof.
  intros Hr Hs Hl Hb Hcn. destruct (proj2 (proj2 (an_shape_all e false)) _ _ _ _ _ Hr Hs Hl Hb Hcn) as [Hy [H0 _]].
  unfold disp in H0. split; [exact Hy|lia].
Qed.

Lemma an_prefix_all :
  (forall t s y, Reach e t s y -> QT t s y) /\
  (forall l s y, ReachSeq e l s y -> QS l s y) /\
  (forall r limit s count y, ReachIter e r limit s count y -> QI r limit s count y).
Proof.
  apply Reach_mutind.
  - (* R_char *)
    intros k o c s Hc Hs Hn Hb Hcn. cbn [try_find_prefix_gen].
    destruct k; try apply an_pref_trivial.
    cbn [shape_ok] in Hs. apply eqb_prop in Hs.
    apply andb_true_iff in Hc. destruct Hc as [Hav Hch].
    unfold avail, next_char, dir in *. rewrite Hs in *. cbn [char_test] in Hch. cbn [negb].
    unfold inb in Hb. unfold pref_ok, enc_slice. cbn [pos with_pos fst snd].
    rewrite an_slice_one by lia. assert (char_at e (pos s) = c) as -> by lia.
    unfold encode_string. cbn [flat_map]. rewrite app_nil_r.
    split; [apply an_prefix_refl|reflexivity].
  - (* R_charloop *)
    intros k l o c m n s y Hin Hs Hn Hb Hcn. cbn [try_find_prefix_gen].
    destruct k; try apply an_pref_trivial.
    destruct l; try apply an_pref_trivial.
    + (* greedy *)
      destruct (m <=? 0) eqn:Em; [apply an_pref_trivial|].
      cbn [shape_ok] in Hs. apply andb_true_iff in Hs. destruct Hs as [Hs Hmn]. apply andb_true_iff in Hs. destruct Hs as [Hs Hm0].
      apply eqb_prop in Hs.
      apply an_charloop_in2 in Hin. destruct Hin as [j [maxn [-> [Hj Hjn]]]].
      unfold dir. rewrite Hs. unfold inb in Hb.
      unfold pref_ok, enc_slice. cbn [pos with_pos fst snd].
      replace (pos s + 1 * j) with (pos s + j) by lia.
      rewrite (an_run_slice c o Hs maxn (pos s) j) by lia.
      rewrite an_encode_string_repeat.
      set (count := if m <? 32 then m else 32).
      assert (Hc : 0 < count <= m) by (subst count; destruct (m <? 32) eqn:E; lia).
      split.
      * apply an_repeat_bytes_le. lia.
      * intros Hx. apply andb_true_iff in Hx. destruct Hx as [Hcn' _].
        assert (Hn2 : n <> INF) by (unfold INF; subst count; destruct (m <? 32) eqn:E32; lia).
        specialize (Hjn Hn2). f_equal. lia.
    + (* lazy *)
      destruct (m <=? 0) eqn:Em; [apply an_pref_trivial|].
      cbn [shape_ok] in Hs. apply andb_true_iff in Hs. destruct Hs as [Hs Hmn]. apply andb_true_iff in Hs. destruct Hs as [Hs Hm0].
      apply eqb_prop in Hs.
      apply an_charloop_in2 in Hin. destruct Hin as [j [maxn [-> [Hj Hjn]]]].
      unfold dir. rewrite Hs. unfold inb in Hb.
      unfold pref_ok, enc_slice. cbn [pos with_pos fst snd].
      replace (pos s + 1 * j) with (pos s + j) by lia.
      rewrite (an_run_slice c o Hs maxn (pos s) j) by lia.
      rewrite an_encode_string_repeat.
      set (count := if m <? 32 then m else 32).
      assert (Hc : 0 < count <= m) by (subst count; destruct (m <? 32) eqn:E; lia).
      split.
      * apply an_repeat_bytes_le. lia.
      * intros Hx. apply andb_true_iff in Hx. destruct Hx as [Hcn' _].
        assert (Hn2 : n <> INF) by (unfold INF; subst count; destruct (m <? 32) eqn:E32; lia).
        specialize (Hjn Hn2). f_equal. lia.
  - (* R_multi *)
    intros o str s y Hin Hs Hn Hb Hcn. cbn [try_find_prefix_gen shape_ok no_ci_lit] in *.
    apply eqb_prop in Hs. apply negb_true_iff in Hn.
    apply an_multi_in in Hin. destruct Hin as [-> [Hav Hm]].
    unfold avail, dir in *. rewrite Hs, Hn in *. unfold inb in Hb.
    unfold pref_ok, enc_slice. cbn [pos with_pos fst snd negb].
    replace (pos s + 1 * zlen str) with (pos s + zlen str) by lia.
    rewrite an_str_match_slice by (try assumption; lia).
    split; [apply an_prefix_refl|reflexivity].
  - (* R_ref *) unfold QT; intros; apply an_pref_trivial.
  - (* R_anchor *) unfold QT; intros; apply an_pref_zero.
  - (* R_empty *) unfold QT; intros; apply an_pref_zero.
  - (* R_bump *) unfold QT; intros; apply an_pref_zero.
  - (* R_concat *)
    intros o l s y _ IH Hs Hn Hb Hcn. cbn [try_find_prefix_gen shape_ok no_ci_lit] in *.
    apply IH; assumption.
  - (* R_alt *)
    intros o l x s y Hin _ IH Hs Hn Hb Hcn. cbn [try_find_prefix_gen].
    destruct (is_rtl o); [apply an_pref_trivial|].
    pose proof (an_alt_forallb false l Hs) as Hfa. cbn [no_ci_lit] in Hn.
    assert (Hx : shape_ok false x = true) by (rewrite forallb_forall in Hfa; apply Hfa; exact Hin).
    assert (Hnx : no_ci_lit x = true) by (rewrite forallb_forall in Hn; apply Hn; exact Hin).
    destruct (IH Hx Hnx Hb Hcn) as [Hp _].
    assert (Hi : In (fst (try_find_prefix_gen true x)) (map (fun x => fst (try_find_prefix_gen true x)) l)).
    { apply (in_map (fun x => fst (try_find_prefix_gen true x))). exact Hin. }
    destruct (map (fun x => fst (try_find_prefix_gen true x)) l) as [|first others]; [destruct Hi|].
    split; [|discriminate]. cbn [fst].
    destruct (an_alt_prefix_fold first others (length first)) as [Hle Hall].
    eapply an_prefix_trans; [|exact Hp].
    destruct Hi as [<-|Hi]; [apply an_prefix_firstn|apply Hall; exact Hi].
  - (* R_loop0 *)
    intros lazy o m n r s y Hm0 _ _ Hs Hn Hb Hcn. subst m. cbn [try_find_prefix_gen].
    apply an_pref_trivial.
  - (* R_loop1 *)
    intros lazy o m n r s s1 y Hm0 Hr1 IH1 Hr2 IH2 Hs Hn Hb Hcn.
    cbn [try_find_prefix_gen shape_ok no_ci_lit] in *.
    apply andb_true_iff in Hs. destruct Hs as [Hmn Hr].
    destruct (m <=? 0) eqn:Em; [apply an_pref_trivial|].
    assert (Hlim : 0 <= loop_limit m n) by (unfold loop_limit, INF; destruct (n =? 2147483647); lia).
    destruct (an_fwd _ _ _ Hr1 Hr Hb Hcn) as [Hb1 Hf1].
    pose proof (an_reach_caps e _ _ _ Hr1 Hcn) as Hcn1.
    destruct (an_fwd_iter _ _ _ _ _ Hr2 Hr Hlim Hb1 Hcn1) as [Hb2 Hf2].
    unfold inb in Hb.
    destruct (IH1 Hr Hn Hb Hcn) as [Hp1 He1].
    destruct (try_find_prefix_gen true r) as [b c] eqn:Etf. cbn [fst snd] in *.
    destruct c.
    + specialize (He1 eq_refl).
      assert (Hsnd : snd (try_find_prefix_gen true r) = true) by (rewrite Etf; reflexivity).
      destruct (IH2 Hr Hn Hlim Hb1 Hcn1 Hsnd) as [k [Hk [Hklo Hkhi]]]. rewrite Etf in Hk. cbn [fst] in Hk.
      unfold pref_ok. cbn [fst snd].
      rewrite (an_enc_slice_trans s s1 y) by lia. rewrite Hk, <- He1.
      change (b ++ repeat_bytes k b) with (repeat_bytes (S k) b).
      set (lim := if m <? 4 then m else 4).
      assert (Hl : 0 < lim <= m) by (subst lim; destruct (m <? 4) eqn:E4; lia).
      assert (Hmk : m <= Z.of_nat (S k)).
      { destruct (Z.eq_dec m 1); [lia|]. specialize (Hklo ltac:(lia)). lia. }
      split.
      * apply an_repeat_bytes_le. lia.
      * intros Hx. apply andb_true_iff in Hx. destruct Hx as [Hln _].
        assert (Hn2 : (n =? INF) = false) by (unfold INF; subst lim; destruct (m <? 4) eqn:E4; lia).
        unfold loop_limit in Hkhi. rewrite Hn2 in Hkhi. specialize (Hkhi ltac:(lia)).
        f_equal. lia.
    + split; [|discriminate]. cbn [fst].
      rewrite (an_enc_slice_trans s s1 y) by lia. apply an_prefix_app_r. exact Hp1.
  - (* R_capture *)
    intros o g r s s1 _ IH Hs Hn Hb Hcn. cbn [try_find_prefix_gen shape_ok no_ci_lit] in *.
    exact (IH Hs Hn Hb Hcn).
  - (* R_balance *)
    intros o g u r s s1 top rest _ _ IH _ Hs Hn Hb Hcn. cbn [try_find_prefix_gen shape_ok no_ci_lit] in *.
    exact (IH Hs Hn Hb Hcn).
  - (* R_group *) unfold QT; intros; apply an_pref_trivial.
  - (* R_poslook *)
    intros o r s s1 _ _ Hs Hn Hb Hcn. cbn [try_find_prefix_gen].
    unfold pref_ok, enc_slice. cbn [pos with_pos fst snd]. rewrite an_slice_nil.
    split; [apply an_prefix_nil|reflexivity].
  - (* R_neglook *) unfold QT; intros; apply an_pref_zero.
  - (* R_atomic *)
    intros r s y _ IH Hs Hn Hb Hcn. cbn [try_find_prefix_gen shape_ok no_ci_lit] in *.
    exact (IH Hs Hn Hb Hcn).
  - (* R_brc_yes *) unfold QT; intros; apply an_pref_trivial.
  - (* R_brc_no *) unfold QT; intros; apply an_pref_trivial.
  - (* R_brc_none *) unfold QT; intros; apply an_pref_trivial.
  - (* R_ec_yes *) unfold QT; intros; apply an_pref_trivial.
  - (* R_ec_no *) unfold QT; intros; apply an_pref_trivial.
  - (* R_ec_none *) unfold QT; intros; apply an_pref_trivial.
  - (* RS_nil *)
    intros s _ _ _ _ last. cbn [map concat_prefix].
    unfold pref_ok, enc_slice. rewrite an_slice_nil. cbn [fst snd].
    split; [apply an_prefix_nil|reflexivity].
  - (* RS_cons *)
    intros x l s s1 y Hr1 IH1 Hr2 IH2 Hs Hn Hb Hcn last. cbn [forallb] in Hs, Hn.
    apply andb_true_iff in Hs. destruct Hs as [Hx Hl].
    apply andb_true_iff in Hn. destruct Hn as [Hnx Hnl].
    destruct (an_fwd _ _ _ Hr1 Hx Hb Hcn) as [Hb1 Hf1].
    pose proof (an_reach_caps e _ _ _ Hr1 Hcn) as Hcn1.
    destruct (an_fwd_seq _ _ _ Hr2 Hl Hb1 Hcn1) as [Hb2 Hf2].
    unfold inb in Hb.
    destruct (IH1 Hx Hnx Hb Hcn) as [Hp1 He1].
    specialize (IH2 Hl Hnl Hb1 Hcn1 last). destruct IH2 as [Hp2 He2].
    cbn [map concat_prefix].
    destruct (try_find_prefix_gen true x) as [b c]. cbn [fst snd] in *.
    destruct c.
    + specialize (He1 eq_refl).
      destruct (concat_prefix (map (try_find_prefix_gen true) l) last) as [b' c']. cbn [fst snd] in *.
      unfold pref_ok. cbn [fst snd].
      rewrite (an_enc_slice_trans s s1 y) by lia. rewrite <- He1.
      split; [apply an_prefix_app; exact Hp2|]. intros Hc'. rewrite (He2 Hc'). reflexivity.
    + split; [|discriminate]. cbn [fst].
      rewrite (an_enc_slice_trans s s1 y) by lia. apply an_prefix_app_r. exact Hp1.
  - (* RI_stop *)
    intros r limit s count Hc Hr Hn Hlim Hb Hcn Hsnd. exists 0%nat.
    unfold enc_slice. rewrite an_slice_nil. cbn [repeat_bytes]. split; [reflexivity|]. lia.
  - (* RI_more *)
    intros r limit s count s1 y Hc Hr1 IH1 Hr2 IH2 Hr Hn Hlim Hb Hcn Hsnd.
    destruct (an_fwd _ _ _ Hr1 Hr Hb Hcn) as [Hb1 Hf1].
    pose proof (an_reach_caps e _ _ _ Hr1 Hcn) as Hcn1.
    destruct (an_fwd_iter _ _ _ _ _ Hr2 Hr Hlim Hb1 Hcn1) as [Hb2 Hf2].
    unfold inb in Hb.
    destruct (IH1 Hr Hn Hb Hcn) as [_ He1]. specialize (He1 Hsnd).
    destruct (IH2 Hr Hn Hlim Hb1 Hcn1 Hsnd) as [k [Hk [Hklo Hkhi]]].
    exists (S k). rewrite (an_enc_slice_trans s s1 y) by lia. rewrite Hk, <- He1.
    split; [reflexivity|]. split; intros; lia.
Qed.

Theorem an_find_prefix_sound fuel root p s' :
  shape_ok false root = true -> no_ci_lit root = true -> 0 <= p <= tlen e ->
  attempt e fuel root p = Ok (Some s') ->
  an_prefix (find_prefix root) (encode_string (skipn (Z.to_nat p) (txt e))).
Proof.
  intros Hs Hn Hp Ha. pose proof (attempt_reach e _ _ _ _ Ha) as Hr.
  destruct (proj1 an_prefix_all _ _ _ Hr Hs Hn Hp an_caps_nonneg_nil) as [Hpre _].
  unfold find_prefix, try_find_prefix. eapply an_prefix_trans; [exact Hpre|].
  unfold enc_slice. cbn [pos]. apply an_encode_string_prefix. apply an_slice_prefix_from.
Qed.

End Prefix.
