(* C04, part 12: the decoration of a published fixed-distance set (FixedDistanceSet.Chars / Range / Negated,
   prefixanalyzer.go:734-749) abbreviates the set exactly, and findFixedDistanceString / the single-character
   case extract literals that hold at every match. *)
From Coq Require Import ZifyBool.
From Verif Require Import Base.Prelude Model.CharClass Base.Utf8 Model.Tree Model.Spec Model.Analysis Model.Analysis2
     Proofs.SpecProofs Proofs.CharClassRanges Proofs.CharClassProofs
     Proofs.AnalysisReach Proofs.AnalysisProofs Proofs.Analysis2Cls Proofs.Analysis2Ffcc Proofs.Analysis2Fixed
     Proofs.Analysis2Lal.

Section Abbrev.
Variable cat_in : Z -> Z -> bool.
Variable sets : list cls.
Hypothesis Hgood : sets_good cat_in sets.

(* every set findFixedDistanceSets publishes is in normal form *)
Lemma abbrev_raw_good th root :
  shape_ok false root = true -> lits_ok root = true ->
  forall S d, In (S, d) (fixed_distance_raw cat_in sets th root) -> gcls cat_in S.
Proof.
  intros Hs Hl S d Hin. unfold fixed_distance_raw in Hin.
  destruct (syn_loc cat_in sets th root (syn_all cat_in sets th Hgood root Hs Hl)) as (_ & Hall & _).
  unfold locof, rf_res in Hall. destruct (raw_fixed cat_in sets th root [] 0) as [[ok res] dd]. cbn [fst snd] in Hall.
  destruct (filter (fun sd : cls * Z => negb (anything (fst sd))) res) as [|f0 fl] eqn:Ef.
  - destruct (find_first_char_class cat_in sets root) as [c|] eqn:Ec; [|destruct Hin].
    destruct (anything c); [destruct Hin|]. destruct Hin as [Heq|[]]. injection Heq as <- <-.
    unfold find_first_char_class in Ec. destruct (ffcc_mono_all cat_in sets Hgood root None Hl I) as (A & _ & _).
    destruct (try_ffcc cat_in sets root None) as [v cc]. cbn [snd] in A.
    destruct (v =? 1); [|discriminate Ec]. subst cc. exact (proj1 A).
  - rewrite <- Ef in Hin. apply filter_In in Hin. destruct Hin as [Hin _]. exact (proj1 (Hall S d Hin)).
Qed.

Lemma abbrev_existsb_in (x : Z) (l : list Z) : existsb (Z.eqb x) l = true <-> In x l.
Proof.
  rewrite existsb_exists. split.
  - intros [y [Hy He]]. assert (x = y) by lia. subst y. exact Hy.
  - intros H. exists x. split; [exact H|apply Z.eqb_refl].
Qed.

(* Range / Chars / Negated say exactly what the Set says *)
Lemma abbrev_decorate S d :
  gcls cat_in S ->
  let f := fd_decorate cat_in (S, d) in
  fs_set f = S /\ fs_dist f = d /\ fs_neg f = neg S /\
  (forall a b, fs_range f = Some (a, b) ->
     forall x, char_in cat_in S x = xorb (fs_neg f) ((a <=? x) && (x <=? b))) /\
  (fs_chars f <> [] -> forall x, char_in cat_in S x = xorb (fs_neg f) (existsb (Z.eqb x) (fs_chars f))).
Proof.
  intros Hg. cbv zeta. pose proof (a2_cmem_plain cat_in S) as Hplain. unfold cmem in Hplain.
  assert (Hchars : forall chars, get_set_chars cat_in S 128 = chars -> chars <> [] ->
            forall x, char_in cat_in S x = xorb (neg S) (existsb (Z.eqb x) chars)).
  { intros chars Hc Hne x. destruct chars as [|x0 l0]; [congruence|].
    destruct (neg S) eqn:En.
    - destruct (get_set_chars_spec cat_in S 128 x0 l0 Hc) as (Hcat & Hsub & Hiff). specialize (Hsub En).
      rewrite (Hplain x Hg), plain_in_top. unfold top_in, sub_in. rewrite En, Hcat, Hsub.
      change (cats_in cat_in [] x) with false. rewrite orb_false_r, andb_true_r. f_equal.
      destruct (existsb (Z.eqb x) (x0 :: l0)) eqn:Ee.
      + apply abbrev_existsb_in in Ee. apply Hiff in Ee. destruct Ee as [Ee _]. exact Ee.
      + destruct (mem (ranges S) x) eqn:Em; [|reflexivity].
        assert (In x (x0 :: l0)) by (apply Hiff; split; [exact Em|left; exact Hsub]).
        apply abbrev_existsb_in in H. congruence.
    - cbn [xorb]. pose proof (get_set_chars_complete cat_in S 128 x0 l0 Hg En Hc x) as Hiff. unfold cmem in Hiff.
      destruct (existsb (Z.eqb x) (x0 :: l0)) eqn:Ee.
      + apply abbrev_existsb_in in Ee. apply Hiff. exact Ee.
      + destruct (char_in cat_in S x) eqn:Ei; [|reflexivity].
        assert (Hin : In x (x0 :: l0)) by (apply Hiff; reflexivity). apply abbrev_existsb_in in Hin. congruence. }
  unfold fd_decorate. cbn [fst snd].
  destruct (get_if_one_range S) as [[a b]|] eqn:Er.
  - assert (Hr : cats S = [] /\ sub S = None /\ ranges S = [(a, b)]).
    { unfold get_if_one_range in Er. destruct (cats S); [|discriminate Er]. unfold no_sub in Er.
      destruct (sub S); [discriminate Er|]. destruct (ranges S) as [|r [|r2 rs]]; try discriminate Er.
      injection Er as ->. auto. }
    destruct Hr as (Hc & Hsb & Hrg).
    destruct (1 <? b - a); cbn [fs_set fs_dist fs_neg fs_range fs_chars].
    + split; [reflexivity|]. split; [reflexivity|]. split; [reflexivity|]. split; [|intros Hne; congruence].
      intros a' b' Heq. injection Heq as <- <-. intros x.
      rewrite (Hplain x Hg), plain_in_top. unfold top_in, sub_in. rewrite Hc, Hsb, Hrg.
      unfold mem, in_range. cbn [existsb cats_in fst snd]. rewrite !orb_false_r, andb_true_r. reflexivity.
    + split; [reflexivity|]. split; [reflexivity|]. split; [reflexivity|]. split; [intros ? ? Heq; discriminate Heq|].
      intros Hne. apply (Hchars _ eq_refl Hne).
  - cbn [fs_set fs_dist fs_neg fs_range fs_chars].
    split; [reflexivity|]. split; [reflexivity|]. split; [reflexivity|]. split; [intros ? ? Heq; discriminate Heq|].
    intros Hne. apply (Hchars _ eq_refl Hne).
Qed.

(* ---- literals extracted from the sets ---- *)
Variable e : env.
Variable p : Z.

(* the entry holds at the match that starts at p, and its Chars say what its Set says *)
Definition fd_true (f : fdset) : Prop :=
  0 <= fs_dist f /\ p + fs_dist f < tlen e /\ char_in cat_in (fs_set f) (char_at e (p + fs_dist f)) = true /\
  (fs_chars f <> [] -> forall x, char_in cat_in (fs_set f) x = xorb (fs_neg f) (existsb (Z.eqb x) (fs_chars f))).

Lemma fds_single_true f c : fd_true f -> fds_single f = Some c -> char_at e (p + fs_dist f) = c.
Proof.
  intros (_ & _ & Hin & Hab). unfold fds_single. destruct (fs_chars f) as [|c0 [|c1 cs]] eqn:Ec; try discriminate.
  destruct (fs_neg f || negb (Utf8.valid_rune c0)) eqn:En; [discriminate|]. intros H. injection H as <-.
  apply orb_false_iff in En. destruct En as [En _].
  rewrite (Hab ltac:(discriminate)) in Hin. rewrite En in Hin. cbn [existsb] in Hin.
  destruct (char_at e (p + fs_dist f) =? c0) eqn:E; [lia|]. cbn in Hin. discriminate Hin.
Qed.

Definition lit_at (s : list Z) (d0 : Z) : Prop :=
  forall i, 0 <= i < zlen s -> char_at e (p + d0 + i) = nth (Z.to_nat i) s 0.

Definition cur_ok (cur : option (Z * list Z * Z)) : Prop :=
  match cur with None => True | Some (d0, s, dl) => dl = d0 + zlen s - 1 /\ lit_at s d0 end.
Definition best_ok (best : option (list Z * Z)) : Prop :=
  match best with None => True | Some (s, d0) => lit_at s d0 end.

Lemma fds_close_ok cur best : cur_ok cur -> best_ok best -> best_ok (fds_close_b cur best).
Proof.
  intros Hc Hb. unfold fds_close_b. destruct cur as [[[d0 s] dl]|]; [|exact Hb].
  destruct (_ <=? zlen s); [exact (proj2 Hc)|exact Hb].
Qed.

Lemma lit_at_snoc s d0 c : lit_at s d0 -> char_at e (p + d0 + zlen s) = c -> lit_at (s ++ [c]) d0.
Proof.
  intros Hs Hc i Hi. unfold zlen in *. rewrite app_length in Hi. cbn [length] in Hi.
  destruct (Z_lt_ge_dec i (Z.of_nat (length s))) as [Hl|Hl].
  - rewrite app_nth1 by lia. apply Hs. unfold zlen. lia.
  - assert (i = Z.of_nat (length s)) by lia. subst i. rewrite app_nth2 by lia.
    replace (Z.to_nat (Z.of_nat (length s)) - length s)%nat with 0%nat by lia. cbn [nth]. exact Hc.
Qed.

Lemma lit_at_single c d0 : char_at e (p + d0) = c -> lit_at [c] d0.
Proof.
  intros Hc i Hi. unfold zlen in Hi. cbn [length] in Hi. assert (i = 0) by lia. subst i.
  replace (p + d0 + 0) with (p + d0) by lia. exact Hc.
Qed.

Lemma fds_walk_ok : forall l cur best,
  (forall f, In f l -> fd_true f) -> cur_ok cur -> best_ok best -> best_ok (fds_walk_b l cur best).
Proof.
  induction l as [|x l IH]; intros cur best Hl Hc Hb; cbn [fds_walk_b]; [apply fds_close_ok; assumption|].
  assert (Hx : fd_true x) by (apply Hl; left; reflexivity).
  assert (Hl' : forall f, In f l -> fd_true f) by (intros f Hf; apply Hl; right; exact Hf).
  destruct (fds_single x) as [c|] eqn:Es.
  - pose proof (fds_single_true x c Hx Es) as Hch.
    destruct cur as [[[d0 s] dl]|].
    + destruct (fs_dist x =? dl + 1) eqn:Ed.
      * apply IH; [exact Hl'| |exact Hb]. destruct Hc as [Hdl Hs]. cbn [cur_ok]. split.
        -- unfold zlen in *. rewrite app_length. cbn [length]. lia.
        -- apply lit_at_snoc; [exact Hs|]. rewrite <- Hch. f_equal. lia.
      * apply IH; [exact Hl'| |apply fds_close_ok; assumption]. cbn [cur_ok]. split; [unfold zlen; cbn [length]; lia|].
        apply lit_at_single. exact Hch.
    + apply IH; [exact Hl'| |exact Hb]. cbn [cur_ok]. split; [unfold zlen; cbn [length]; lia|].
      apply lit_at_single. exact Hch.
  - apply IH; [exact Hl'|exact I|apply fds_close_ok; assumption].
Qed.

Lemma fds_insert_in x l f : In f (fds_insert x l) -> f = x \/ In f l.
Proof.
  induction l as [|y l IH]; cbn [fds_insert]; [intros [<-|[]]; left; reflexivity|].
  destruct (fs_dist x <? fs_dist y).
  - intros [<-|H]; [left; reflexivity|right; exact H].
  - intros [<-|H]; [right; left; reflexivity|]. destruct (IH H) as [->|H']; [left; reflexivity|right; right; exact H'].
Qed.

Lemma fds_sort_in l f : In f (fds_sort l) -> In f l.
Proof.
  induction l as [|x l IH]; cbn [fds_sort fold_right]; [intros []|].
  intros H. apply fds_insert_in in H. destruct H as [->|H]; [left; reflexivity|right; apply IH; exact H].
Qed.

(* findFixedDistanceString: the string occurs at p + its distance *)
Lemma fds_string_true l str d0 :
  (forall f, In f l -> fd_true f) -> find_fixed_distance_string l = Some (str, d0) -> lit_at str d0.
Proof.
  intros Hl. unfold find_fixed_distance_string. destruct (zlen l <? 2); [discriminate|]. intros H.
  assert (Hb : best_ok (fds_walk_b (fds_sort l) None None)).
  { apply fds_walk_ok; [|exact I|exact I]. intros f Hf. apply Hl. apply fds_sort_in. exact Hf. }
  rewrite H in Hb. exact Hb.
Qed.

Hypothesis Hagree : forall id x, set_in e id x = cmem cat_in (set_cls sets id) x.
Hypothesis Hvalid : forall i, valid_rune (char_at e i).
Hypothesis Hshort : tlen e < INF.

Lemma abbrev_all_true th fuel root s' :
  shape_ok false root = true -> no_ci_lit root = true -> lits_ok root = true -> 0 <= p <= tlen e ->
  attempt e fuel root p = Ok (Some s') ->
  forall f, In f (find_fixed_distance_sets cat_in sets th root) -> fd_true f.
Proof.
  intros Hs Hn Hl Hp Ha f Hin.
  destruct (a2_fixed_distance_sets_sound cat_in sets th Hgood e Hagree Hvalid Hshort fuel root p s' Hs Hn Hl Hp Ha f Hin)
    as (A & B & C).
  unfold find_fixed_distance_sets in Hin. apply in_map_iff in Hin. destruct Hin as [[S d] [<- Hin]].
  destruct (abbrev_decorate S d (abbrev_raw_good th root Hs Hl S d Hin)) as (E1 & E2 & E3 & E4 & E5).
  unfold fd_true. split; [exact A|]. split; [exact B|]. split; [exact C|].
  intros Hne x. rewrite E1. apply E5. exact Hne.
Qed.

End Abbrev.
