(* C13's dichotomy WITHOUT a control-flow hypothesis, for every program the static frame-shape verifier accepts.

   VMCapacityProofs.cp_limit_dichotomy assumes that every state the limited engine reaches from ANY state at code
   position 0 is at an instruction boundary.  Here the scan's attempts start from FRESH states (as vm_find's do),
   the unlimited twin of every reached state satisfies the verifier's invariant (CompileCfSafe.winv, preserved by
   every successful step), hence is at an instruction boundary, and the capacity argument applies:
       typed_limit_dichotomy :  cp_need (codes p) 0 <= 4 * trackcount p  ->  tyck_auto p = true  ->
           vm_find under any limit L  is  ErrBacktrackingStackLimit,  or agrees with the unlimited vm_find in every
           outcome (result, error, crash reason, fuel exhaustion).
   No compile_correct, no fuel or termination assumption, every input. *)
From Verif Require Import Base.Prelude Model.Tree Model.Spec Model.VM Model.Writer Gen.RunnerGen
  Proofs.VMLimitProofs Proofs.VMLimitSimProofs Proofs.VMCapacityProofs Proofs.VMU Proofs.VMUBridge
  Proofs.CompileTotal Proofs.CompileLimit Proofs.CompileCfSafe.
From Coq Require Import Relations ZifyBool.

Section Typed.
Variable e : env.
Variable p : program.
Variable sh : list (Z * shape).
Hypothesis Hw : cp_need (codes p) 0 <= trackcount p * G_ensure_factor.
Hypothesis Hty : tyck p sh = true.
Variable L : Z.

Notation winv := (CompileCfSafe.winv p sh).

Lemma ty_HL : lim_le L (-1). Proof. left. lia. Qed.

Definition tprel (r1 r2 : vm * bool) : Prop :=
  simrel L (fst r1) (fst r2) /\ snd r1 = snd r2 /\ (snd r1 = false -> cp_inv p (fst r1) /\ winv (fst r2)).

Lemma ty_pc s1 s2 : simrel L s1 s2 -> pc s1 = pc s2.
Proof. intros [HE _]. unfold eqv in HE. tauto. Qed.

Lemma ty_run_steps_sim k : forall s1 s2, simrel L s1 s2 -> cp_inv p s1 -> winv s2 ->
  res_rel0 tprel (run_steps e p L k s1) (run_steps e p (-1) k s2).
Proof.
  induction k as [|k IH]; intros s1 s2 HR Hc Hi; cbn [run_steps].
  - apply res_rel0_ok. split; [exact HR|]. split; [reflexivity|]. intros _. split; assumption.
  - destruct (winv_good p sh Hty s2 Hi) as [[w Hb] _]. rewrite <- (ty_pc s1 s2 HR) in Hb.
    pose proof (cp_step_sim e p L (-1) ty_HL s1 s2 w Hb Hc HR) as S.
    destruct (step e p L s1) as [o1|c1|w1|] eqn:E1.
    + destruct S as [S|S]; [discriminate|].
      destruct (step e p (-1) s2) as [o2|c2|w2|] eqn:E2; try contradiction.
      destruct o1 as [a|a|c|w0], o2 as [b|b|c'|w']; cbn [out_rel] in S; try contradiction.
      * apply IH; [exact S| |].
        -- change (cp_out_inv p (Next a)). eapply cp_step_inv; [exact Hw|exact Hb|exact Hc|exact E1].
        -- eapply winv_step; [exact Hty|exact Hi|exact E2].
      * apply res_rel0_ok. split; [exact S|]. split; [reflexivity|]. intros D. discriminate D.
      * subst. apply res_rel0_err.
      * subst. apply res_rel0_crash.
    + destruct S as [S|S]; [injection S as ->; apply res_rel0_limit|].
      destruct (step e p (-1) s2); try contradiction. subst. apply res_rel0_err.
    + destruct S as [S|S]; [discriminate|].
      destruct (step e p (-1) s2); try contradiction. subst. apply res_rel0_crash.
    + destruct S as [S|S]; [discriminate|].
      destruct (step e p (-1) s2); try contradiction. apply res_rel0_fuel.
Qed.

Lemma ty_run_sim fuel : forall s1 s2, simrel L s1 s2 -> cp_inv p s1 -> winv s2 ->
  res_rel0 (simrel L) (run e p L fuel s1) (run e p (-1) fuel s2).
Proof.
  induction fuel as [|f IH]; intros s1 s2 HR Hc Hi; cbn [run]; [apply res_rel0_fuel|].
  apply res_rel0_bind with (R := tprel); [apply ty_run_steps_sim; assumption|].
  intros [a b1] [b b2] (H1 & H2 & H3). cbn [fst snd] in *. subst b2.
  destruct b1; [apply res_rel0_ok; exact H1|]. destruct (H3 eq_refl) as [Hc' Hi']. apply IH; assumption.
Qed.

(* goTo(0) from related FRESH states *)
Lemma ty_goto0_sim c1 c2 t : simrel L c1 c2 ->
  res_rel0 (fun a b => simrel L a b /\ cp_inv p a /\ winv b)
           (goto p L (fresh p c1 t) 0) (goto p (-1) (fresh p c2 t) 0).
Proof.
  intros HR.
  assert (HRf : simrel L (fresh p c1 t) (fresh p c2 t)).
  { destruct HR as [HE HT]. unfold eqv in HE. unfold simrel, eqv, fresh. vm_cbn. repeat split; tauto. }
  pose proof (sim_goto p L (-1) ty_HL (fresh p c1 t) (fresh p c2 t) 0 HRf) as S. unfold cont in S.
  destruct (goto p L (fresh p c1 t) 0) as [a| | |] eqn:E1; cbn [bind] in S.
  - destruct S as [S|S]; [discriminate|].
    destruct (goto p (-1) (fresh p c2 t) 0) as [b| | |] eqn:E2; cbn [bind] in S; try contradiction.
    apply res_rel0_ok. split; [exact S|]. split.
    + eapply cp_inv_goto_back; [exact Hw| |exact E1]. cbn [fresh pc]. lia.
    + assert (Hb : cont (goto p (-1) (fresh p c2 t) 0) = Ok (Next b)) by (unfold cont; rewrite E2; reflexivity).
      apply (cf_goto_inv p (-1)) in Hb. destruct Hb as (B1 & B2 & B3 & B4).
      pose proof (winv_init p sh Hty t) as Hi0.
      eapply winv_same4; [| | | |exact Hi0]; cbn [a0 VMU.mk pc mode track stack]; [symmetry; exact B1|symmetry; exact B2|
        rewrite B3; reflexivity|rewrite B4; reflexivity].
  - destruct S as [S|S]; [injection S as ->; apply res_rel0_limit|].
    destruct (goto p (-1) (fresh p c2 t) 0); cbn [bind] in S; try contradiction. subst. apply res_rel0_err.
  - destruct S as [S|S]; [discriminate|].
    destruct (goto p (-1) (fresh p c2 t) 0); cbn [bind] in S; try contradiction. subst. apply res_rel0_crash.
  - destruct S as [S|S]; [discriminate|].
    destruct (goto p (-1) (fresh p c2 t) 0); cbn [bind] in S; try contradiction. apply res_rel0_fuel.
Qed.

Lemma ty_scan_sim fuel n : forall rtl c1 c2 t, simrel L c1 c2 ->
  res_rel0 (opt_rel (simrel L)) (vm_scan_from e p L fuel n rtl c1 t) (vm_scan_from e p (-1) fuel n rtl c2 t).
Proof.
  induction n as [|n IH]; intros rtl c1 c2 t HR; cbn [vm_scan_from].
  - apply res_rel0_ok. exact I.
  - change {| pc := 0; mode := 0; tp := t; track := []; tcap := tcap c1; stack := []; scap := scap c1;
              crawl := []; mcaps := repeat [] (Z.to_nat (capsize p)) |} with (fresh p c1 t).
    change {| pc := 0; mode := 0; tp := t; track := []; tcap := tcap c2; stack := []; scap := scap c2;
              crawl := []; mcaps := repeat [] (Z.to_nat (capsize p)) |} with (fresh p c2 t).
    apply res_rel0_bind with (R := fun a b => simrel L a b /\ cp_inv p a /\ winv b); [apply ty_goto0_sim; exact HR|].
    intros a b (Hab & Hca & Hib).
    apply res_rel0_bind with (R := simrel L); [apply ty_run_sim; assumption|].
    intros a2 b2 H2.
    assert (Hm : matched0 a2 = matched0 b2).
    { unfold matched0. destruct H2 as [HE _]. unfold eqv in HE.
      replace (mcaps b2) with (mcaps a2) by tauto. reflexivity. }
    rewrite <- Hm. destruct (matched0 a2); [apply res_rel0_ok; exact H2|].
    destruct (if rtl then t <=? 0 else tlen e <=? t); [apply res_rel0_ok; exact I|].
    apply IH. exact H2.
Qed.

Lemma ty_find_sim fuel rtl start prevlen :
  res_rel0 (opt_rel (simrel L)) (vm_find e p L fuel rtl start prevlen) (vm_find e p (-1) fuel rtl start prevlen).
Proof.
  unfold vm_find.
  destruct ((prevlen =? 0) && (start =? (if rtl then 0 else tlen e))); [apply res_rel0_ok; exact I|].
  apply ty_scan_sim. apply sim_init. exact ty_HL.
Qed.

End Typed.

Theorem typed_limit_dichotomy e p L fuel rtl start prevlen :
  cp_need (codes p) 0 <= trackcount p * G_ensure_factor ->
  tyck_auto p = true ->
  let r1 := vm_find e p L fuel rtl start prevlen in
  let r2 := vm_find e p (-1) fuel rtl start prevlen in
  r1 = Err E_StackLimit \/
  match r1, r2 with
  | Ok a, Ok b => same_result a b
  | Err c, Err c' => c = c'
  | Crash w, Crash w' => w = w'
  | Fuel, Fuel => True
  | _, _ => False
  end.
Proof.
  intros Hw Hty. cbv zeta.
  destruct (ty_find_sim e p (infer p) Hw Hty L fuel rtl start prevlen) as [H|H]; [left; exact H|].
  right.
  destruct (vm_find e p L fuel rtl start prevlen), (vm_find e p (-1) fuel rtl start prevlen); try exact H.
  eapply opt_rel_weaken. exact H.
Qed.

Print Assumptions typed_limit_dichotomy.

(* for every program the writer emits the weight hypothesis is a theorem (C13_compiled_push_weight) *)
Theorem typed_limit_dichotomy_compiled c root strs cs e L fuel rtl start prevlen :
  let code := fst (compile c root) in
  let p := {| codes := code; strings := strs; trackcount := track_count code; capsize := cs |} in
  tyck_auto p = true ->
  let r1 := vm_find e p L fuel rtl start prevlen in
  let r2 := vm_find e p (-1) fuel rtl start prevlen in
  r1 = Err E_StackLimit \/
  match r1, r2 with
  | Ok a, Ok b => same_result a b
  | Err c, Err c' => c = c'
  | Crash w, Crash w' => w = w'
  | Fuel, Fuel => True
  | _, _ => False
  end.
Proof.
  cbv zeta. intros Hty. apply typed_limit_dichotomy; [|exact Hty].
  exact (cp_compiled_weight c root strs cs).
Qed.

Print Assumptions typed_limit_dichotomy_compiled.
