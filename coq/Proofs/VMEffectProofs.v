(* C13 / translator tie (DESIGN §2.2): the hand-written interpreter model Model/VM.v pops and pushes,
   per opcode and per control path, exactly what the table Gen/EffectGen.v says — a table that tools/gen
   reads off runner.go's executeDefault on every run (case labels, trackPush*/stackPush*/Pop* calls whose
   arities are read from the helpers' bodies, trackto, Capture/uncapture, advance / goTo / break).

     vm_step_effect_in_table   for every program, limit and state: the outcome of VM.step is one of the
                               paths G_effects_x lists for the state's case code (opcode | Back | Back2):
                               the track / grouping stack / capture-undo stack after the step are the old
                               ones minus the words the path pops plus the number of words it pushes, and
                               the step leaves by the path's exit (advance(k), goTo(operand i), backtrack,
                               return); ErrBacktrackingStackLimit only on paths ending in goTo or backtrack;
                               "unknown opcode" exactly on the codes [eff_dispatch] rejects
     vm_table_paths_are_model_paths
                               the converse at path level: every path the table lists for a case code is the
                               path VM.step takes from some state (found by computation over a small family of
                               candidate states), so a source edit that ADDS a way through a case is reported too
     eff_dispatch_is_keys      [eff_dispatch] accepts exactly the keys of G_effects_x (vm_compute over all
                               64 opcodes x 3 entry modes): model and source implement the same case codes
     vm_ustep_effect_in_table  the same for the unbounded-stack machine of Proofs/VMU.v
     vm_step_net_effect        the net form over G_effects (delta track, delta stack, exit kind)
     eff_pushers_are_counted, eff_net_push_le_weight
                               cross-checks between the two generated tables: an opcode one of whose paths
                               pushes track words is counted by opcodeBacktracks (Gen/CodeGen.v) — except
                               Nullmark, the known uncounted pusher — and no path's net push exceeds the
                               weight the capacity argument (Proofs/VMCapacityProofs.v) gives the opcode. *)
From Verif Require Import Base.Prelude Model.Tree Model.Spec Model.VM Model.Writer Gen.CodeGen Gen.RunnerGen
  Gen.EffectGen Proofs.VMLimitProofs Proofs.VMLimitSimProofs Proofs.VMU Proofs.VMCapacityProofs.
From Coq Require Import ZifyBool.

(* ---------- reading the generated table ---------- *)
Definition eff_path : Type := (Z * Z * Z * Z * Z * Z * Z)%type.

Fixpoint eff_find (c : Z) (l : list (Z * list eff_path)) : option (list eff_path) :=
  match l with
  | [] => None
  | (k, ps) :: l' => if c =? k then Some ps else eff_find c l'
  end.
Definition eff_paths (c : Z) : list eff_path := match eff_find c G_effects_x with Some ps => ps | None => [] end.
Definition eff_is_key (c : Z) : bool := match eff_find c G_effects_x with Some _ => true | None => false end.

(* the source's r.operator for a model state: opcode | Back | Back2 *)
Definition eff_mode_bits (m : Z) : Z := if m =? 0 then 0 else if m =? BackBit then G_Back else G_Back2.
Definition eff_case_code (w m : Z) : Z := Z.land w G_Mask + eff_mode_bits m.

(* [after] is [before] minus its [pop] top words plus [push] new top words *)
Definition eff_lists (pop push : Z) (before after : list Z) : Prop :=
  skipn (Z.to_nat push) after = skipn (Z.to_nat pop) before /\ 0 <= pop <= zlen before /\ 0 <= push <= zlen after.

(* flags 0: plain; 1: trackto — cut back to a saved height (any number of words), then push;
   2: the root (oldest) word is overwritten, nothing else changes *)
Definition eff_track (fl tpop tpush : Z) (before after : list Z) : Prop :=
  if fl =? 0 then eff_lists tpop tpush before after
  else if fl =? 1 then exists k, eff_lists k tpush before after
  else if fl =? 2 then tpop = 0 /\ tpush = 0 /\ exists pre a b, before = pre ++ [a] /\ after = pre ++ [b]
  else False.

(* crawl code = min pushes + 10*max pushes + 100*pops + 1000*(pop down to a saved height) *)
Definition eff_crawl_dec (c : Z) : Z * Z * Z * Z := (c mod 10, (c / 10) mod 10, (c / 100) mod 10, c / 1000).
Definition eff_crawl_sem (d : Z * Z * Z * Z) (before after : list Z) : Prop :=
  let '(pmin, pmax, pops, loop) := d in
  if loop =? 0 then exists j, pmin <= j <= pmax /\ eff_lists pops j before after
  else if (loop =? 1) && (pmin =? 0) && (pmax =? 0) && (pops =? 0) then exists k, eff_lists k 0 before after
  else False.
Definition eff_crawl (c : Z) (before after : list Z) : Prop := eff_crawl_sem (eff_crawl_dec c) before after.

(* exit kinds of the table *)
Definition eff_is_advance (ex : Z) : bool := (0 <=? ex) && (ex <=? 9).
Definition eff_is_goto (ex : Z) : bool := (10 <=? ex) && (ex <=? 19).
Definition eff_can_fail (pt : eff_path) : bool :=
  let '(_, _, _, _, ex, _, _) := pt in eff_is_goto ex || (ex =? 20).

(* which (opcode, entry mode) pairs VM.step implements: the skeleton of its dispatch, tied to VM.step by
   vm_step_effect_in_table (step = Crash C_unknown_op  <->  eff_dispatch = false) *)
Definition eff_disp0 (op : Z) : bool :=
  (op =? Stop) || (op =? Nothing) || (op =? Goto) || (op =? Testref) || (op =? Lazybranch) || (op =? Setmark)
  || (op =? Nullmark) || (op =? Getmark) || (op =? Capturemark) || (op =? Branchmark) || (op =? Lazybranchmark)
  || (op =? Setcount) || (op =? Nullcount) || (op =? Branchcount) || (op =? Lazybranchcount) || (op =? Setjump)
  || (op =? Backjump) || (op =? Forejump) || (op =? Bol) || (op =? Eol) || (op =? Boundary) || (op =? Nonboundary)
  || (op =? ECMABoundary) || (op =? NonECMABoundary) || (op =? Beginning) || (op =? Start) || (op =? EndZ)
  || (op =? EndOp) || ((op =? One) || (op =? Notone) || (op =? SetOp)) || (op =? Multi) || (op =? Ref)
  || ((op =? Onerep) || (op =? Notonerep) || (op =? Setrep))
  || ((op =? Oneloop) || (op =? Notoneloop) || (op =? Setloop) || (op =? Oneloopatomic) || (op =? Notoneloopatomic)
      || (op =? Setloopatomic))
  || ((op =? Onelazy) || (op =? Notonelazy) || (op =? Setlazy)) || (op =? UpdateBumpalong).
Definition eff_disp1 (op : Z) : bool :=
  (op =? Lazybranch) || ((op =? Setmark) || (op =? Nullmark)) || (op =? Getmark) || (op =? Capturemark)
  || (op =? Branchmark) || (op =? Lazybranchmark) || ((op =? Setcount) || (op =? Nullcount)) || (op =? Branchcount)
  || (op =? Lazybranchcount) || (op =? Setjump) || (op =? Forejump)
  || ((op =? Oneloop) || (op =? Notoneloop) || (op =? Setloop))
  || ((op =? Onelazy) || (op =? Notonelazy) || (op =? Setlazy)).
Definition eff_disp2 (op : Z) : bool :=
  (op =? Branchmark) || (op =? Lazybranchmark) || (op =? Branchcount) || (op =? Lazybranchcount).
Definition eff_dispatch (op m : Z) : bool :=
  if m =? 0 then eff_disp0 op else if m =? BackBit then eff_disp1 op else eff_disp2 op.

Section Eff.
Variable e : env.
Variable p : program.
Variable L : Z.

(* one path of the table describes the step from s with outcome o *)
Definition eff_path_ok (pt : eff_path) (s : vm) (o : outcome) : Prop :=
  let '(tpop, tpush, spop, spush, ex, fl, cw) := pt in
  let body := fun (T S C : list Z) =>
    eff_track fl tpop tpush (track s) T /\ eff_lists spop spush (stack s) S /\ eff_crawl cw (crawl s) C in
  if eff_is_advance ex then
    exists s', o = Next s' /\ mode s' = 0 /\ pc s' = pc s + ex + 1 /\ body (track s') (stack s') (crawl s')
  else if eff_is_goto ex then
    exists s', o = Next s' /\ mode s' = 0 /\ code_at p (pc s + (ex - 10) + 1) = Some (pc s') /\
               body (track s') (stack s') (crawl s')
  else if ex =? 20 then
    (* backtrack() pops the frame head np left on top by the path and enters |np| in Back / Back2 mode *)
    exists s' np, o = Next s' /\ pc s' = Z.abs np /\ mode s' = (if np <? 0 then Back2Bit else BackBit) /\
                  body (np :: track s') (stack s') (crawl s')
  else if ex =? 30 then
    exists s', o = Done s' /\ pc s' = pc s /\ body (track s') (stack s') (crawl s')
  else False.

Definition eff_spec (s : vm) (op m : Z) (r : res outcome) : Prop :=
  (eff_dispatch op m = false -> r = Crash C_unknown_op) /\
  match r with
  | Ok o => exists pt, In pt (eff_paths (op + eff_mode_bits m)) /\ eff_path_ok pt s o
  | Err c => c = E_StackLimit /\ exists pt, In pt (eff_paths (op + eff_mode_bits m)) /\ eff_can_fail pt = true
  | Crash w => w = C_unknown_op -> eff_dispatch op m = false
  | Fuel => True
  end.


(* ---------- how the three ways out of a case body act on the state ---------- *)
Lemma eff_adv_inv S k r :
  cont (advance p S k) = r -> r = Ok (Next (set_pc S (pc S + k + 1) 0)) \/ r = Crash C_code.
Proof.
  unfold cont, advance. intros <-. destruct (code_at p (pc S + k + 1)); cbn [bind]; [left|right]; reflexivity.
Qed.

Lemma eff_ensure_inv S S' : ensure_storage p L S = Ok S' ->
  pc S' = pc S /\ mode S' = mode S /\ track S' = track S /\ stack S' = stack S /\ crawl S' = crawl S.
Proof.
  unfold ensure_storage. intros H.
  repeat match type of H with context [if ?b then _ else _] => destruct b end;
    try discriminate; injection H as <-; vm_cbn; repeat split; reflexivity.
Qed.
Lemma eff_ensure_res S : match ensure_storage p L S with Ok _ => True | Err c => c = E_StackLimit | _ => False end.
Proof.
  unfold ensure_storage.
  repeat match goal with |- context [if ?b then _ else _] => destruct b end; try exact I; reflexivity.
Qed.

Definition eff_same (S S' : vm) : Prop := track S' = track S /\ stack S' = stack S /\ crawl S' = crawl S.

Lemma eff_goto_inv S a r :
  cont (goto p L S a) = r ->
  (exists S', r = Ok (Next S') /\ pc S' = a /\ mode S' = 0 /\ eff_same S S') \/ r = Err E_StackLimit \/ r = Crash C_code.
Proof.
  unfold cont, goto. intros <-.
  assert (G : forall S1, pc S1 = pc S -> eff_same S S1 ->
    (exists S', bind (match code_at p a with Some _ => Ok (set_pc S1 a 0) | None => Crash C_code end)
                     (fun s1 => Ok (Next s1)) = Ok (Next S') /\ pc S' = a /\ mode S' = 0 /\ eff_same S S') \/
    bind (match code_at p a with Some _ => Ok (set_pc S1 a 0) | None => Crash C_code end) (fun s1 => Ok (Next s1)) = Crash C_code).
  { intros S1 _ HS. destruct (code_at p a); cbn [bind]; [left|right; reflexivity].
    eexists. split; [reflexivity|]. vm_cbn. repeat split; apply HS. }
  destruct (a <=? pc S).
  - pose proof (eff_ensure_res S) as R. destruct (ensure_storage p L S) as [S1|c|w|] eqn:E; try contradiction.
    + apply eff_ensure_inv in E. cbn [bind].
      destruct (G S1) as [G1|G1]; [tauto|unfold eff_same; tauto|left; exact G1|right; right; exact G1].
    + subst c. right. left. reflexivity.
  - cbn [bind]. destruct (G S) as [G1|G1]; [reflexivity|unfold eff_same; tauto|left; exact G1|right; right; exact G1].
Qed.

Lemma eff_brk_inv S r :
  brk p L S = r ->
  (exists S' np T, track S = np :: T /\ r = Ok (Next S') /\ pc S' = Z.abs np /\
                   mode S' = (if np <? 0 then Back2Bit else BackBit) /\
                   track S' = T /\ stack S' = stack S /\ crawl S' = crawl S) \/
  r = Err E_StackLimit \/ r = Crash C_code \/ r = Crash C_track.
Proof.
  unfold brk, backtrack. intros <-. destruct (track S) as [|np T] eqn:Et; [right; right; right; reflexivity|].
  assert (Hab : (if np <? 0 then (- np, Back2Bit) else (np, BackBit)) = (Z.abs np, if np <? 0 then Back2Bit else BackBit)).
  { destruct (np <? 0) eqn:E; f_equal; lia. }
  rewrite Hab. destruct (code_at p (Z.abs np)); [|right; right; left; reflexivity].
  destruct (Z.abs np <? pc S).
  - pose proof (eff_ensure_res (set_track S T)) as R.
    destruct (ensure_storage p L (set_track S T)) as [S1|c|w|] eqn:E; try contradiction.
    + apply eff_ensure_inv in E. vm_cbn_in E. cbn [bind]. left. eexists _, np, T. split; [reflexivity|].
      split; [reflexivity|]. vm_cbn. tauto.
    + subst c. right. left. reflexivity.
  - cbn [bind]. left. eexists _, np, T. split; [reflexivity|]. split; [reflexivity|]. vm_cbn. tauto.
Qed.

End Eff.

(* ---------- list bookkeeping ---------- *)
Lemma eff_lists_intro pop push before after :
  skipn (Z.to_nat push) after = skipn (Z.to_nat pop) before ->
  0 <= pop <= zlen before -> 0 <= push <= zlen after -> eff_lists pop push before after.
Proof. unfold eff_lists. tauto. Qed.

Lemma eff_track_plain tpop tpush b a : eff_lists tpop tpush b a -> eff_track 0 tpop tpush b a.
Proof. intros H. exact H. Qed.
Lemma eff_track_to k tpop tpush b a : eff_lists k tpush b a -> eff_track 1 tpop tpush b a.
Proof. intros H. exists k. exact H. Qed.
Lemma eff_track_root pre x y b a : b = pre ++ [x] -> a = pre ++ [y] -> eff_track 2 0 0 b a.
Proof. intros Hb Ha. cbv [eff_track Z.eqb Pos.eqb]. split; [reflexivity|split; [reflexivity|]]. exists pre, x, y. tauto. Qed.

Lemma eff_crawl_noloop c pmin pmax pops j b a :
  eff_crawl_dec c = (pmin, pmax, pops, 0) -> pmin <= j <= pmax -> eff_lists pops j b a -> eff_crawl c b a.
Proof. intros Hd Hj Hl. unfold eff_crawl. rewrite Hd. cbn. exists j. tauto. Qed.
Lemma eff_crawl_loop c k b a :
  eff_crawl_dec c = (0, 0, 0, 1) -> eff_lists k 0 b a -> eff_crawl c b a.
Proof. intros Hd Hl. unfold eff_crawl. rewrite Hd. cbn. exists k. exact Hl. Qed.

Lemma eff_skipn_len {A} k (l : list A) : 0 <= k <= zlen l -> zlen (skipn (Z.to_nat k) l) = zlen l - k.
Proof. unfold zlen. rewrite skipn_length. lia. Qed.

(* uncapture down to a saved height: the capture-undo stack loses some top words *)
Lemma eff_unc_pure f : forall cr m t,
  match unc_pure f cr m t with
  | Ok cm => exists k, eff_lists k 0 cr (fst cm)
  | Err _ => False
  | Crash w => w <> C_unknown_op
  | Fuel => True
  end.
Proof.
  induction f as [|f IH]; intros cr m t; cbn [unc_pure]; [exact I|].
  destruct (zlen cr =? t).
  - exists 0. apply eff_lists_intro; [reflexivity| |]; cbn [fst]; pose proof (vml_zlen_nonneg cr); lia.
  - destruct cr as [|c cr']; [discriminate|].
    destruct (remove_match c m) as [m'|]; [|discriminate].
    specialize (IH cr' m' t). destruct (unc_pure f cr' m' t) as [cm| | |]; try exact IH.
    destruct IH as [k (Hs & Hk & Hp)]. exists (k + 1).
    apply eff_lists_intro; [|rewrite vml_zlen_cons; lia|exact Hp].
    rewrite Hs. replace (Z.to_nat (k + 1)) with (S (Z.to_nat k)) by lia. reflexivity.
Qed.

Section Main.
Variable e : env.
Variable p : program.
Variable L : Z.

Definition eff_body (pt : eff_path) (s S : vm) : Prop :=
  let '(tpop, tpush, spop, spush, ex, fl, cw) := pt in
  eff_track fl tpop tpush (track s) (track S) /\ eff_lists spop spush (stack s) (stack S) /\
  eff_crawl cw (crawl s) (crawl S).

Lemma eff_body_intro tpop tpush spop spush ex fl cw s S :
  eff_track fl tpop tpush (track s) (track S) -> eff_lists spop spush (stack s) (stack S) ->
  eff_crawl cw (crawl s) (crawl S) -> eff_body (tpop, tpush, spop, spush, ex, fl, cw) s S.
Proof. unfold eff_body. tauto. Qed.

Definition eff_exit (pt : eff_path) : Z := let '(_, _, _, _, ex, _, _) := pt in ex.

Lemma eff_ok_adv pt s S k :
  eff_exit pt = k -> eff_is_advance k = true -> pc S = pc s -> eff_body pt s S ->
  eff_path_ok p pt s (Next (set_pc S (pc S + k + 1) 0)).
Proof.
  destruct pt as [[[[[[tpop tpush] spop] spush] ex] fl] cw]. cbn [eff_exit]. intros -> Hk Hpc HB.
  unfold eff_path_ok. rewrite Hk. eexists. split; [reflexivity|]. vm_cbn. rewrite Hpc.
  split; [reflexivity|split; [reflexivity|exact HB]].
Qed.

Lemma eff_ok_goto pt s S S' ex a :
  eff_exit pt = ex -> eff_is_advance ex = false -> eff_is_goto ex = true ->
  code_at p (pc s + (ex - 10) + 1) = Some a -> pc S' = a -> mode S' = 0 -> eff_same S S' ->
  eff_body pt s S -> eff_path_ok p pt s (Next S').
Proof.
  destruct pt as [[[[[[tpop tpush] spop] spush] ex0] fl] cw]. cbn [eff_exit]. intros -> H1 H2 Hc Hpc Hm (Ht & Hs & Hc') HB.
  unfold eff_path_ok. rewrite H1, H2. exists S'. rewrite Hpc, Ht, Hs, Hc'.
  split; [reflexivity|split; [exact Hm|split; [exact Hc|exact HB]]].
Qed.

Lemma eff_ok_back pt s S S' np T :
  eff_exit pt = 20 -> track S = np :: T -> pc S' = Z.abs np -> mode S' = (if np <? 0 then Back2Bit else BackBit) ->
  track S' = T -> stack S' = stack S -> crawl S' = crawl S ->
  eff_body pt s S -> eff_path_ok p pt s (Next S').
Proof.
  destruct pt as [[[[[[tpop tpush] spop] spush] ex0] fl] cw]. cbn [eff_exit]. intros -> Ht Hpc Hm HT Hs Hc HB.
  unfold eff_path_ok. change (eff_is_advance 20) with false. change (eff_is_goto 20) with false. change (20 =? 20) with true.
  cbv iota. exists S', np. rewrite HT, Hs, Hc, <- Ht.
  split; [reflexivity|split; [exact Hpc|split; [exact Hm|exact HB]]].
Qed.

Lemma eff_ok_done pt s S :
  eff_exit pt = 30 -> pc S = pc s -> eff_body pt s S -> eff_path_ok p pt s (Done S).
Proof.
  destruct pt as [[[[[[tpop tpush] spop] spush] ex0] fl] cw]. cbn [eff_exit]. intros -> Hpc HB.
  unfold eff_path_ok. change (eff_is_advance 30) with false. change (eff_is_goto 30) with false.
  change (30 =? 20) with false. change (30 =? 30) with true. cbv iota. exists S.
  split; [reflexivity|split; [exact Hpc|exact HB]].
Qed.

(* the statement with the dispatch bit and the path list made explicit *)
Definition eff_spec2 (s : vm) (d : bool) (ps : list eff_path) (r : res outcome) : Prop :=
  (d = false -> r = Crash C_unknown_op) /\
  match r with
  | Ok o => exists pt, In pt ps /\ eff_path_ok p pt s o
  | Err c => c = E_StackLimit /\ exists pt, In pt ps /\ eff_can_fail pt = true
  | Crash w => w = C_unknown_op -> d = false
  | Fuel => True
  end.

Lemma eff_spec2_crash s ps w : w <> C_unknown_op -> eff_spec2 s true ps (Crash w).
Proof. intros H. split; [discriminate|]. intros E. contradiction. Qed.
Lemma eff_spec2_fuel s ps : eff_spec2 s true ps Fuel.
Proof. split; [discriminate|exact I]. Qed.
Lemma eff_spec2_ok s ps o pt : In pt ps -> eff_path_ok p pt s o -> eff_spec2 s true ps (Ok o).
Proof. intros Hi Ho. split; [discriminate|]. exists pt. tauto. Qed.
Lemma eff_spec2_err s ps pt : In pt ps -> eff_can_fail pt = true -> eff_spec2 s true ps (Err E_StackLimit).
Proof. intros Hi Ho. split; [discriminate|]. split; [reflexivity|]. exists pt. tauto. Qed.

Ltac eff_cbv_in H :=
  cbv beta iota zeta delta
      [pc mode tp track tcap stack scap crawl mcaps
       set_pc set_tp set_track set_stack set_caps set_tcap set_scap bind] in H.

Ltac eff_case_in H :=
  match type of H with
  | context [match ?x with _ => _ end] =>
      lazymatch x with
      | context [match _ with _ => _ end] => fail
      | context [bind _ _] => fail
      | _ => destruct x eqn:?
      end
  | context [bind ?x _] =>
      lazymatch x with
      | context [match _ with _ => _ end] => fail
      | context [bind _ _] => fail
      | _ => destruct x eqn:?
      end
  end.

Ltac eff_op_split H op :=
  repeat match type of H with
         | (if ?c then ?A else ?B) = ?r =>
             lazymatch c with
             | context [op] => destruct c eqn:?; [change (A = r) in H | change (B = r) in H]
             end
         end.

(* fix the opcode of a dispatched branch: the last test succeeded, the failed ones are dropped *)
Ltac eff_fix_op op :=
  repeat match goal with
         | X : _ = false |- _ => lazymatch type of X with context [op] => clear X end
         end;
  repeat match goal with
         | X : (_ || _) = true |- _ =>
             lazymatch type of X with context [op] => apply orb_true_iff in X; destruct X as [X|X] end
         end;
  match goal with
  | X : (op =? _) = true |- _ => apply Z.eqb_eq in X; subst op
  end.

Ltac eff_lens :=
  repeat match goal with
         | X : @eq ?T _ _ |- _ => lazymatch T with Z => fail | bool => fail | _ => clear X end
         end;
  rewrite ?vml_zlen_app, ?vml_zlen_cons; change (zlen (@nil Z)) with 0;
  repeat match goal with
         | |- context [zlen (skipn (Z.to_nat ?k) ?l)] => rewrite (eff_skipn_len k l) by lia
         end;
  repeat match goal with
         | |- context [zlen ?l] =>
             lazymatch l with
             | _ :: _ => fail
             | _ ++ _ => fail
             | [] => fail
             | _ => lazymatch goal with X : 0 <= zlen l |- _ => fail | _ => pose proof (vml_zlen_nonneg l) end
             end
         end;
  lia.

Ltac eff_lists_tac := apply eff_lists_intro; [reflexivity | eff_lens | eff_lens].

Ltac eff_track_tac :=
  first
    [ apply eff_track_plain; eff_lists_tac
    | match goal with
      | |- eff_track 1 _ _ _ ?after =>
          match after with context [skipn (Z.to_nat ?k) _] => apply (eff_track_to k); eff_lists_tac end
      end
    | match goal with
      | X : rev ?l = ?root :: ?rest |- eff_track 2 _ _ ?l (rev (?y :: ?rest)) =>
          apply (eff_track_root (rev rest) root y);
          [ rewrite <- (rev_involutive l), X; reflexivity | reflexivity ]
      end ].

Ltac eff_crawl_tac :=
  first
    [ eapply (eff_crawl_noloop _ _ _ _ 0); [vm_compute; reflexivity | lia | eff_lists_tac]
    | eapply (eff_crawl_noloop _ _ _ _ 1); [vm_compute; reflexivity | lia | eff_lists_tac]
    | eapply (eff_crawl_noloop _ _ _ _ 2); [vm_compute; reflexivity | lia | eff_lists_tac]
    | match goal with
      | X : unc_pure ?f ?cr ?m ?t = Ok ?a |- eff_crawl _ ?cr (fst ?a) =>
          let Y := fresh in
          pose proof (eff_unc_pure f cr m t) as Y; rewrite X in Y; destruct Y as [k Y];
          eapply (eff_crawl_loop _ k); [vm_compute; reflexivity | exact Y]
      end ].

Ltac eff_body_tac :=
  apply eff_body_intro; vm_cbn; [eff_track_tac | eff_lists_tac | eff_crawl_tac].

Ltac eff_in_tac := cbn [In]; repeat (first [left; reflexivity | right]).

(* try the paths of the (explicit) list one after the other *)
Ltac eff_try_paths tac :=
  match goal with
  | |- eff_spec2 _ true ?ps _ =>
      let rec go l :=
        lazymatch l with
        | ?x :: ?t => first [ solve [tac x] | go t ]
        end in
      go ps
  end.

Ltac eff_crash_tac := apply eff_spec2_crash; intros X; vm_compute in X; discriminate X.

Ltac eff_leaf H :=
  lazymatch type of H with
  | cont (advance _ ?S ?k) = _ =>
      apply eff_adv_inv in H; destruct H as [H|H]; rewrite H;
      [ eff_try_paths ltac:(fun pt =>
          eapply (eff_spec2_ok _ _ _ pt); [eff_in_tac|];
          apply (eff_ok_adv pt _ S k); [reflexivity | reflexivity | reflexivity | eff_body_tac])
      | eff_crash_tac ]
  | cont (goto _ _ ?S ?a) = _ =>
      let S' := fresh "S'" in let Hpc := fresh in let Hmd := fresh in let Hsame := fresh in
      apply eff_goto_inv in H; destruct H as [(S' & H & Hpc & Hmd & Hsame)|[H|H]]; rewrite H;
      [ eff_try_paths ltac:(fun pt =>
          eapply (eff_spec2_ok _ _ _ pt); [eff_in_tac|];
          eapply (eff_ok_goto pt _ S S');
          [reflexivity | reflexivity | reflexivity | vm_cbn; eassumption | exact Hpc | exact Hmd | exact Hsame | eff_body_tac])
      | eff_try_paths ltac:(fun pt => apply (eff_spec2_err _ _ pt); [eff_in_tac | reflexivity])
      | eff_crash_tac ]
  | brk _ _ ?S = _ =>
      let S' := fresh "S'" in let np := fresh "np" in let T := fresh "T" in
      let Ht := fresh in let Hpc := fresh in let Hmd := fresh in let H1 := fresh in let H2 := fresh in let H3 := fresh in
      apply eff_brk_inv in H; destruct H as [(S' & np & T & Ht & H & Hpc & Hmd & H1 & H2 & H3)|[H|[H|H]]]; rewrite H;
      [ eff_try_paths ltac:(fun pt =>
          eapply (eff_spec2_ok _ _ _ pt); [eff_in_tac|];
          eapply (eff_ok_back pt _ S S' np T);
          [reflexivity | exact Ht | exact Hpc | exact Hmd | exact H1 | exact H2 | exact H3 | eff_body_tac])
      | eff_try_paths ltac:(fun pt => apply (eff_spec2_err _ _ pt); [eff_in_tac | reflexivity])
      | eff_crash_tac
      | eff_crash_tac ]
  | Ok (Done ?S) = _ =>
      rewrite <- H;
      eff_try_paths ltac:(fun pt =>
        eapply (eff_spec2_ok _ _ _ pt); [eff_in_tac|]; apply (eff_ok_done pt _ S); [reflexivity | reflexivity | eff_body_tac])
  | Crash ?w0 = _ =>
      rewrite <- H;
      first [ eff_crash_tac
            | match goal with
              | X : unc_pure ?f ?c ?m ?t = Crash w0 |- _ =>
                  let Y := fresh in
                  pose proof (eff_unc_pure f c m t) as Y; rewrite X in Y; apply eff_spec2_crash; exact Y
              end ]
  | Err ?c0 = _ =>
      match goal with
      | X : unc_pure ?f ?c ?m ?t = Err c0 |- _ =>
          let Y := fresh in
          pose proof (eff_unc_pure f c m t) as Y; rewrite X in Y; contradiction
      end
  | Fuel = _ => rewrite <- H; apply eff_spec2_fuel
  end.

(* an atomic loop never takes the pushing branch *)
Ltac eff_atomic :=
  match goal with
  | X : (43 <=? _) = _ |- _ => vm_compute in X; discriminate X
  | X : (_ && negb true) = true |- _ => apply andb_true_iff in X; destruct X as [_ X]; discriminate X
  end.

Lemma eff_step_spec s w : code_at p (pc s) = Some w -> eff_spec p s (Z.land w 63) (mode s) (step e p L s).
Proof.
  intros Hw. remember (step e p L s) as r eqn:H. symmetry in H.
  change (eff_spec2 s (eff_dispatch (Z.land w 63) (mode s)) (eff_paths (Z.land w 63 + eff_mode_bits (mode s))) r).
  destruct s as [pc0 md tp0 tr tc st sc cr mc].
  unfold step in H. vm_cbn_in H. vm_cbn_in Hw. rewrite Hw in H.
  unfold tpush, spush, opnd, trackto, uncapture, do_capture, do_transfer in H.
  eff_cbv_in H.
  unfold eff_dispatch, eff_mode_bits. vm_cbn. set (op := Z.land w 63) in *. clearbody op.
  destruct (md =? 0) eqn:Hm0; [|destruct (md =? BackBit) eqn:Hm1].
  all: eff_op_split H op.
  (* the three "unknown opcode" leaves *)
  all: try (lazymatch type of H with Crash C_unknown_op = _ => idtac end;
            rewrite <- H; split; [intros _; reflexivity|intros _];
            unfold eff_disp0, eff_disp1, eff_disp2;
            repeat match goal with X : ?c = false |- context [?c] => rewrite X end; reflexivity).
  all: eff_fix_op op.
  all: match goal with |- eff_spec2 ?s ?d ?ps ?r =>
         let d' := eval vm_compute in d in let ps' := eval vm_compute in ps in change (eff_spec2 s d' ps' r) end.
  all: repeat (eff_cbv_in H; rewrite ?uncapture_to_pure in H; eff_cbv_in H; eff_case_in H).
  all: eff_cbv_in H.
  all: first [eff_atomic | eff_leaf H].
Qed.

End Main.

(* ---------- the model implements exactly the case codes the source has ---------- *)
Definition eff_all_ops : list Z := map Z.of_nat (seq 0 64).
Definition eff_all_modes : list Z := [0; BackBit; Back2Bit].

(* by computation over 64 opcodes x 3 entry modes: VM.step's dispatch accepts a code iff it is a key of the
   generated table; and every key of the table (the default case -1 aside) is such a code *)
Lemma eff_dispatch_is_keys :
  forallb (fun op => forallb (fun m => Bool.eqb (eff_dispatch op m) (eff_is_key (op + eff_mode_bits m))) eff_all_modes)
          eff_all_ops = true /\
  forallb (fun k => (k =? -1) || existsb (fun op => existsb (fun m => k =? op + eff_mode_bits m) eff_all_modes) eff_all_ops)
          (map fst G_effects_x) = true /\
  eff_paths (-1) = [(0, 0, 0, 0, 31, 0, 0)].
Proof. vm_compute. repeat split; reflexivity. Qed.

Lemma eff_land_in_ops w : In (Z.land w 63) eff_all_ops.
Proof.
  assert (H : 0 <= Z.land w 63 < 64).
  { change 63 with (Z.ones 6). rewrite Z.land_ones by lia. apply Z.mod_pos_bound. reflexivity. }
  unfold eff_all_ops. rewrite <- (Z2Nat.id (Z.land w 63)) by lia. apply in_map. apply in_seq. lia.
Qed.

Lemma eff_dispatch_key w m : eff_dispatch (Z.land w 63) m = eff_is_key (eff_case_code w m).
Proof.
  destruct eff_dispatch_is_keys as [H _]. rewrite forallb_forall in H.
  specialize (H _ (eff_land_in_ops w)). rewrite forallb_forall in H.
  unfold eff_case_code. change G_Mask with 63.
  assert (C : exists m', In m' eff_all_modes /\ eff_dispatch (Z.land w 63) m = eff_dispatch (Z.land w 63) m' /\
                         eff_mode_bits m = eff_mode_bits m').
  { unfold eff_dispatch, eff_mode_bits, eff_all_modes. destruct (m =? 0) eqn:E0.
    - exists 0. cbn [In]. split; [tauto|split; reflexivity].
    - destruct (m =? BackBit) eqn:E1.
      + exists BackBit. cbn [In]. split; [tauto|split; reflexivity].
      + exists Back2Bit. cbn [In]. split; [tauto|split; reflexivity]. }
  destruct C as (m' & Hin & -> & ->). apply Bool.eqb_prop. apply H. exact Hin.
Qed.

Section Thm.
Variable e : env.
Variable p : program.

(* THE conformance theorem: VM.step against the table generated from runner.go *)
Theorem vm_step_effect_in_table L s w :
  code_at p (pc s) = Some w ->
  let c := eff_case_code w (mode s) in
  match step e p L s with
  | Ok o => exists pt, In pt (eff_paths c) /\ eff_path_ok p pt s o
  | Err x => x = E_StackLimit /\ exists pt, In pt (eff_paths c) /\ eff_can_fail pt = true
  | Crash why => why = C_unknown_op <-> eff_is_key c = false
  | Fuel => True
  end.
Proof.
  intros Hw c. pose proof (eff_step_spec e p L s w Hw) as [HD HS].
  pose proof (eff_dispatch_key w (mode s)) as HK. fold c in HK.
  change (Z.land w 63 + eff_mode_bits (mode s)) with c in HS.
  destruct (step e p L s) as [o|x|why|]; try exact HS.
  split.
  - intros E. rewrite <- HK. apply HS. exact E.
  - intros E. rewrite <- HK in E. specialize (HD E). injection HD as ->. reflexivity.
Qed.

(* "unknown opcode" (the source's default case) exactly on the case codes the table does not have *)
Theorem vm_step_unknown_iff_not_key L s w :
  code_at p (pc s) = Some w ->
  (step e p L s = Crash C_unknown_op <-> eff_is_key (eff_case_code w (mode s)) = false).
Proof.
  intros Hw. pose proof (eff_step_spec e p L s w Hw) as [HD HS].
  rewrite <- (eff_dispatch_key w (mode s)). split.
  - intros E. rewrite E in HS. apply HS. reflexivity.
  - exact HD.
Qed.

(* states that agree on everything the table talks about *)
Definition eff_eqv (a b : vm) : Prop :=
  pc a = pc b /\ mode a = mode b /\ track a = track b /\ stack a = stack b /\ crawl a = crawl b.
Definition eff_out_eqv (a b : outcome) : Prop :=
  match a, b with
  | Next x, Next y => eff_eqv x y
  | Done x, Done y => eff_eqv x y
  | _, _ => False
  end.

Lemma eff_path_ok_eqv pt s1 s2 o1 o2 :
  eff_eqv s1 s2 -> eff_out_eqv o1 o2 -> eff_path_ok p pt s1 o1 -> eff_path_ok p pt s2 o2.
Proof.
  destruct pt as [[[[[[tpop tpush] spop] spush] ex] fl] cw].
  intros (Hpc & Hm & Ht & Hs & Hc) Ho. unfold eff_path_ok. rewrite Hpc, Ht, Hs, Hc.
  destruct (eff_is_advance ex); [|destruct (eff_is_goto ex); [|destruct (ex =? 20); [|destruct (ex =? 30)]]].
  - intros (s' & -> & H). destruct o2 as [y|y|?|?]; try contradiction.
    destruct Ho as (Hpc' & Hm' & Ht' & Hs' & Hc'). exists y. rewrite <- ?Hpc', <- ?Hm', <- ?Ht', <- ?Hs', <- ?Hc'.
    split; [reflexivity|exact H].
  - intros (s' & -> & H). destruct o2 as [y|y|?|?]; try contradiction.
    destruct Ho as (Hpc' & Hm' & Ht' & Hs' & Hc'). exists y. rewrite <- ?Hpc', <- ?Hm', <- ?Ht', <- ?Hs', <- ?Hc'.
    split; [reflexivity|exact H].
  - intros (s' & np & -> & H). destruct o2 as [y|y|?|?]; try contradiction.
    destruct Ho as (Hpc' & Hm' & Ht' & Hs' & Hc'). exists y, np. rewrite <- ?Hpc', <- ?Hm', <- ?Ht', <- ?Hs', <- ?Hc'.
    split; [reflexivity|exact H].
  - intros (s' & -> & H). destruct o2 as [y|y|?|?]; try contradiction.
    destruct Ho as (Hpc' & Hm' & Ht' & Hs' & Hc'). exists y. rewrite <- ?Hpc', <- ?Hm', <- ?Ht', <- ?Hs', <- ?Hc'.
    split; [reflexivity|exact H].
  - intros [].
Qed.

Lemma eff_path_ok_out pt s o : eff_path_ok p pt s o -> exists s', o = Next s' \/ o = Done s'.
Proof.
  destruct pt as [[[[[[tpop tpush] spop] spush] ex] fl] cw]. unfold eff_path_ok.
  destruct (eff_is_advance ex); [|destruct (eff_is_goto ex); [|destruct (ex =? 20); [|destruct (ex =? 30)]]].
  - intros (s' & -> & _). exists s'. left. reflexivity.
  - intros (s' & -> & _). exists s'. left. reflexivity.
  - intros (s' & np & -> & _). exists s'. left. reflexivity.
  - intros (s' & -> & _). exists s'. right. reflexivity.
  - intros [].
Qed.

(* the same for the unbounded-stack machine used by the compiler-correctness proofs *)
Theorem vm_ustep_effect_in_table s w :
  code_at p (pc s) = Some w ->
  let c := eff_case_code w (mode s) in
  match ustep e p s with
  | Ok o => exists pt, In pt (eff_paths c) /\ eff_path_ok p pt s o
  | Err x => x = E_StackLimit /\ exists pt, In pt (eff_paths c) /\ eff_can_fail pt = true
  | Crash why => why = C_unknown_op <-> eff_is_key c = false
  | Fuel => True
  end.
Proof.
  intros Hw c. pose proof (vm_step_effect_in_table (-1) (repad p s) w Hw) as H. cbv zeta in H.
  change (mode (repad p s)) with (mode s) in H. fold c in H.
  unfold ustep. destruct (step e p (-1) (repad p s)) as [o|x|why|]; try exact H.
  destruct H as (pt & Hin & Hok).
  assert (E : eff_eqv (repad p s) s) by (unfold eff_eqv, repad; vm_cbn; tauto).
  destruct (eff_path_ok_out _ _ _ Hok) as [s' [-> | ->]].
  - exists pt. split; [exact Hin|]. eapply eff_path_ok_eqv; [exact E| |exact Hok].
    unfold eff_out_eqv, eff_eqv, norm, VMU.mk. vm_cbn. tauto.
  - exists pt. split; [exact Hin|]. eapply eff_path_ok_eqv; [exact E| |exact Hok].
    unfold eff_out_eqv, eff_eqv, norm, VMU.mk. vm_cbn. tauto.
Qed.

End Thm.

(* ---------- the net form over G_effects: (delta track, delta stack, exit kind) ---------- *)
Definition eff_proj (pt : eff_path) : Z * Z * Z * Z * Z :=
  let '(tpop, tpush, spop, spush, ex, fl, cw) := pt in
  ((if Z.odd fl then -1 else tpop), tpush, spop, spush, ex).

Fixpoint eff_find5 (c : Z) (l : list (Z * list (Z * Z * Z * Z * Z))) : list (Z * Z * Z * Z * Z) :=
  match l with
  | [] => []
  | (k, ps) :: l' => if c =? k then ps else eff_find5 c l'
  end.
Definition eff_paths5 (c : Z) : list (Z * Z * Z * Z * Z) := eff_find5 c G_effects.

Definition eff_t5_eqb (a b : Z * Z * Z * Z * Z) : bool :=
  let '(a1, a2, a3, a4, a5) := a in let '(b1, b2, b3, b4, b5) := b in
  (a1 =? b1) && (a2 =? b2) && (a3 =? b3) && (a4 =? b4) && (a5 =? b5).

Lemma eff_t5_eqb_eq a b : eff_t5_eqb a b = true -> a = b.
Proof.
  destruct a as [[[[a1 a2] a3] a4] a5], b as [[[[b1 b2] b3] b4] b5]. unfold eff_t5_eqb.
  rewrite !andb_true_iff, !Z.eqb_eq. intros [[[[-> ->] ->] ->] ->]. reflexivity.
Qed.

(* G_effects is G_effects_x with flags and crawl dropped: same keys, and for every key the 5-tuples are
   exactly the projections of the 7-tuples *)
Lemma eff_G_effects_is_projection :
  map fst G_effects = map fst G_effects_x /\
  forallb (fun kv => forallb (fun pt => existsb (eff_t5_eqb (eff_proj pt)) (eff_paths5 (fst kv))) (snd kv)) G_effects_x = true /\
  forallb (fun kv => forallb (fun t => existsb (fun pt => eff_t5_eqb (eff_proj pt) t) (eff_paths (fst kv))) (snd kv)) G_effects = true.
Proof. vm_compute. repeat split; reflexivity. Qed.

Lemma eff_find_in c l ps : eff_find c l = Some ps -> In (c, ps) l.
Proof.
  induction l as [|[k q] l IH]; cbn [eff_find]; [discriminate|].
  destruct (c =? k) eqn:E; [|intros H; right; apply IH; exact H].
  apply Z.eqb_eq in E. subst k. intros H. injection H as ->. left. reflexivity.
Qed.

Lemma eff_proj_in c pt : In pt (eff_paths c) -> In (eff_proj pt) (eff_paths5 c).
Proof.
  unfold eff_paths. destruct (eff_find c G_effects_x) as [ps|] eqn:E; [|intros []].
  intros Hin. apply eff_find_in in E.
  destruct eff_G_effects_is_projection as (_ & H & _). rewrite forallb_forall in H.
  specialize (H _ E). cbn [fst snd] in H. rewrite forallb_forall in H. specialize (H _ Hin).
  apply existsb_exists in H. destruct H as (t & Ht & Heq). apply eff_t5_eqb_eq in Heq. rewrite Heq. exact Ht.
Qed.

Lemma eff_lists_delta pop push b a : eff_lists pop push b a -> zlen a - zlen b = push - pop.
Proof.
  intros (Hs & Hp & Hq). apply (f_equal (@zlen Z)) in Hs. unfold zlen in *. rewrite !skipn_length in Hs. lia.
Qed.

Section Net.
Variable e : env.
Variable p : program.

(* what one path of G_effects says about a step from s to s' (Next) or its end (Done):
   delta track = pushed - popped (- 1 more, the frame head, when the path falls to backtrack(); no claim
   where the path cuts the track back with trackto, popped = -1), delta stack = pushed - popped, exit kind *)
Definition eff_net_ok (t : Z * Z * Z * Z * Z) (s : vm) (o : outcome) : Prop :=
  let '(tpop, tpush, spop, spush, ex) := t in
  let dt := fun s' => tpop = -1 \/ zlen (track s') - zlen (track s) = tpush - tpop - (if ex =? 20 then 1 else 0) in
  let ds := fun s' => zlen (stack s') - zlen (stack s) = spush - spop in
  match o with
  | Next s' =>
      dt s' /\ ds s' /\
      (if eff_is_advance ex then mode s' = 0 /\ pc s' = pc s + ex + 1
       else if eff_is_goto ex then mode s' = 0 /\ code_at p (pc s + (ex - 10) + 1) = Some (pc s')
       else ex = 20 /\ (mode s' = BackBit \/ mode s' = Back2Bit))
  | Done s' => ex = 30 /\ dt s' /\ ds s'
  | _ => False
  end.

Lemma eff_track_delta fl tpop tpush b a :
  eff_track fl tpop tpush b a -> (if Z.odd fl then -1 else tpop) = -1 \/ zlen a - zlen b = tpush - (if Z.odd fl then -1 else tpop).
Proof.
  unfold eff_track. destruct (fl =? 0) eqn:E0; [apply Z.eqb_eq in E0; subst fl|].
  { intros H. right. apply eff_lists_delta in H. exact H. }
  destruct (fl =? 1) eqn:E1; [apply Z.eqb_eq in E1; subst fl; intros _; left; reflexivity|].
  destruct (fl =? 2) eqn:E2; [apply Z.eqb_eq in E2; subst fl|intros []].
  intros (-> & -> & pre & x & y & -> & ->). right. change (Z.odd 2) with false. cbv iota. rewrite !vml_zlen_app, !vml_zlen_cons. change (zlen (@nil Z)) with 0. lia.
Qed.

Lemma eff_path_ok_net pt s o : eff_path_ok p pt s o -> eff_net_ok (eff_proj pt) s o.
Proof.
  destruct pt as [[[[[[tpop tpush] spop] spush] ex] fl] cw]. unfold eff_path_ok, eff_net_ok, eff_proj.
  destruct (eff_is_advance ex) eqn:Ea; [|destruct (eff_is_goto ex) eqn:Eg; [|destruct (ex =? 20) eqn:E20; [|destruct (ex =? 30) eqn:E30]]].
  - intros (s' & -> & Hm & Hpc & Ht & Hs & _).
    assert (E20 : (ex =? 20) = false) by (unfold eff_is_advance in Ea; lia). rewrite ?E20.
    apply eff_track_delta in Ht. apply eff_lists_delta in Hs.
    split; [destruct Ht as [Ht|Ht]; [left; exact Ht|right; lia]|]. split; [exact Hs|]. split; [exact Hm|exact Hpc].
  - intros (s' & -> & Hm & Hpc & Ht & Hs & _).
    assert (E20 : (ex =? 20) = false) by (unfold eff_is_goto in Eg; lia). rewrite ?E20.
    apply eff_track_delta in Ht. apply eff_lists_delta in Hs.
    split; [destruct Ht as [Ht|Ht]; [left; exact Ht|right; lia]|]. split; [exact Hs|]. split; [exact Hm|exact Hpc].
  - intros (s' & np & -> & Hpc & Hm & Ht & Hs & _).
    apply eff_track_delta in Ht. apply eff_lists_delta in Hs. rewrite vml_zlen_cons in Ht.
    split; [destruct Ht as [Ht|Ht]; [left; exact Ht|right; lia]|]. split; [exact Hs|].
    split; [lia|]. rewrite Hm. destruct (np <? 0); [right|left]; reflexivity.
  - intros (s' & -> & Hpc & Ht & Hs & _).
    apply eff_track_delta in Ht. apply eff_lists_delta in Hs.
    split; [lia|]. split; [destruct Ht as [Ht|Ht]; [left; exact Ht|right; lia]|exact Hs].
  - intros [].
Qed.

Theorem vm_step_net_effect L s w o :
  code_at p (pc s) = Some w -> step e p L s = Ok o ->
  exists t, In t (eff_paths5 (eff_case_code w (mode s))) /\ eff_net_ok t s o.
Proof.
  intros Hw Hs. pose proof (vm_step_effect_in_table e p L s w Hw) as H. cbv zeta in H. rewrite Hs in H.
  destruct H as (pt & Hin & Hok). exists (eff_proj pt). split; [apply eff_proj_in; exact Hin|].
  apply eff_path_ok_net. exact Hok.
Qed.

End Net.

(* ---------- the two generated tables check each other ---------- *)
Definition eff_tpush (pt : eff_path) : Z := let '(_, tpush, _, _, _, _, _) := pt in tpush.
(* net push of a path at its own code position: pushed - popped, and for a Back / Back2 variant one word less
   (the frame head backtrack() popped on the way in); trackto only removes words *)
Definition eff_net_push (c : Z) (pt : eff_path) : Z :=
  let '(tpop, tpush, _, _, _, fl, _) := pt in
  tpush - (if Z.odd fl then 0 else tpop) - (if c <? 64 then 0 else 1).

(* (a) an opcode one of whose paths (forward, Back or Back2) pushes track words is counted by opcodeBacktracks —
       except Nullmark, which pushes one word and is not counted (DESIGN Appendix A; the writer always emits it
       next to a counted Goto, Proofs/VMCapacityProofs);
   (b) conversely every opcode opcodeBacktracks counts has a case in the table;
   (c) no path's net push exceeds the weight cp_weight the capacity argument assigns the opcode
       (4 if counted, Goto 0, Nullmark 1, else 0) *)
Lemma eff_pushers_are_counted :
  forallb (fun kv => negb (existsb (fun pt => 0 <? eff_tpush pt) (snd kv)) ||
                     zmem (Z.land (fst kv) 63) opcode_backtracks_list || (Z.land (fst kv) 63 =? G_Nullmark))
          G_effects_x = true /\
  forallb (fun op => eff_is_key op) opcode_backtracks_list = true.
Proof. vm_compute. split; reflexivity. Qed.

Lemma eff_net_push_le_weight :
  forallb (fun kv => (fst kv =? -1) || forallb (fun pt => eff_net_push (fst kv) pt <=? cp_weight (fst kv)) (snd kv))
          G_effects_x = true.
Proof. vm_compute. reflexivity. Qed.

(* the helper arities the table was built with, as read from the helpers' bodies *)
Lemma eff_helper_arities :
  (G_eff_trackPush, G_eff_trackPush1, G_eff_trackPush2, G_eff_trackPush3, G_eff_trackPushNeg1, G_eff_trackPushNeg2) = (1, 2, 3, 4, 2, 3) /\
  (G_eff_stackPush, G_eff_stackPush2, G_eff_trackPop, G_eff_stackPop, G_eff_backtrack_pops) = (1, 2, 1, 1, 1) /\
  (G_eff_Capture, G_eff_transferCapture, G_eff_uncapture) = ((1, 1), (1, 2), 1).
Proof. vm_compute. repeat split; reflexivity. Qed.

(* ---------- the converse at path level: every path the table lists is taken by the model ---------- *)
(* boolean versions of the path predicates (sound: eff_path_okb_sound) *)
Lemma eff_zlist_eqb_eq a : forall b, zlist_eqb a b = true -> a = b.
Proof.
  induction a as [|x a IH]; intros [|y b] H; cbn [zlist_eqb] in H; try discriminate; [reflexivity|].
  apply andb_true_iff in H. destruct H as [H1 H2]. apply Z.eqb_eq in H1. subst y. f_equal. apply IH. exact H2.
Qed.

Definition eff_listsb (pop push : Z) (before after : list Z) : bool :=
  (0 <=? pop) && (pop <=? zlen before) && (0 <=? push) && (push <=? zlen after) &&
  zlist_eqb (skipn (Z.to_nat push) after) (skipn (Z.to_nat pop) before).
Lemma eff_listsb_sound pop push b a : eff_listsb pop push b a = true -> eff_lists pop push b a.
Proof.
  unfold eff_listsb, eff_lists. rewrite !andb_true_iff. intros [[[[H1 H2] H3] H4] H5].
  apply eff_zlist_eqb_eq in H5. split; [exact H5|lia].
Qed.

Definition eff_heights (l : list Z) : list Z := map Z.of_nat (seq 0 (S (length l))).

Definition eff_trackb (fl tpop tpush : Z) (before after : list Z) : bool :=
  if fl =? 0 then eff_listsb tpop tpush before after
  else if fl =? 1 then existsb (fun k => eff_listsb k tpush before after) (eff_heights before)
  else if fl =? 2 then
    (tpop =? 0) && (tpush =? 0) &&
    match rev before, rev after with
    | _ :: rb, _ :: ra => zlist_eqb rb ra
    | _, _ => false
    end
  else false.
Lemma eff_trackb_sound fl tpop tpush b a : eff_trackb fl tpop tpush b a = true -> eff_track fl tpop tpush b a.
Proof.
  unfold eff_trackb, eff_track. destruct (fl =? 0); [apply eff_listsb_sound|].
  destruct (fl =? 1).
  { intros H. apply existsb_exists in H. destruct H as (k & _ & H). exists k. apply eff_listsb_sound. exact H. }
  destruct (fl =? 2); [|discriminate].
  rewrite !andb_true_iff, !Z.eqb_eq. intros [[-> ->] H]. split; [reflexivity|split; [reflexivity|]].
  destruct (rev b) as [|x rb] eqn:Eb; [discriminate|]. destruct (rev a) as [|y ra] eqn:Ea; [discriminate|].
  apply eff_zlist_eqb_eq in H. subst ra. exists (rev rb), x, y.
  rewrite <- (rev_involutive b), <- (rev_involutive a), Eb, Ea. split; reflexivity.
Qed.

Definition eff_crawlb (c : Z) (before after : list Z) : bool :=
  let '(pmin, pmax, pops, loop) := eff_crawl_dec c in
  if loop =? 0 then existsb (fun j => (pmin <=? j) && (j <=? pmax) && eff_listsb pops j before after) (eff_heights after)
  else if (loop =? 1) && (pmin =? 0) && (pmax =? 0) && (pops =? 0) then
    existsb (fun k => eff_listsb k 0 before after) (eff_heights before)
  else false.
Lemma eff_crawlb_sound c b a : eff_crawlb c b a = true -> eff_crawl c b a.
Proof.
  unfold eff_crawlb, eff_crawl, eff_crawl_sem. destruct (eff_crawl_dec c) as [[[pmin pmax] pops] loop].
  destruct (loop =? 0).
  { intros H. apply existsb_exists in H. destruct H as (j & _ & H). rewrite !andb_true_iff in H.
    destruct H as [[H1 H2] H3]. exists j. split; [lia|apply eff_listsb_sound; exact H3]. }
  destruct ((loop =? 1) && (pmin =? 0) && (pmax =? 0) && (pops =? 0)); [|discriminate].
  intros H. apply existsb_exists in H. destruct H as (k & _ & H). exists k. apply eff_listsb_sound. exact H.
Qed.

Section Real.
Variable p : program.

Definition eff_bodyb (tpop tpush spop spush fl cw : Z) (s : vm) (T S C : list Z) : bool :=
  eff_trackb fl tpop tpush (track s) T && eff_listsb spop spush (stack s) S && eff_crawlb cw (crawl s) C.

Definition eff_path_okb (pt : eff_path) (s : vm) (o : outcome) : bool :=
  let '(tpop, tpush, spop, spush, ex, fl, cw) := pt in
  if eff_is_advance ex then
    match o with
    | Next s' => (mode s' =? 0) && (pc s' =? pc s + ex + 1) && eff_bodyb tpop tpush spop spush fl cw s (track s') (stack s') (crawl s')
    | _ => false
    end
  else if eff_is_goto ex then
    match o with
    | Next s' => (mode s' =? 0) &&
                 match code_at p (pc s + (ex - 10) + 1) with Some v => v =? pc s' | None => false end &&
                 eff_bodyb tpop tpush spop spush fl cw s (track s') (stack s') (crawl s')
    | _ => false
    end
  else if ex =? 20 then
    match o with
    | Next s' =>
        let np := if mode s' =? Back2Bit then - pc s' else pc s' in
        (pc s' =? Z.abs np) && (mode s' =? (if np <? 0 then Back2Bit else BackBit)) &&
        eff_bodyb tpop tpush spop spush fl cw s (np :: track s') (stack s') (crawl s')
    | _ => false
    end
  else if ex =? 30 then
    match o with
    | Done s' => (pc s' =? pc s) && eff_bodyb tpop tpush spop spush fl cw s (track s') (stack s') (crawl s')
    | _ => false
    end
  else false.

Lemma eff_bodyb_sound tpop tpush spop spush fl cw s T S C :
  eff_bodyb tpop tpush spop spush fl cw s T S C = true ->
  eff_track fl tpop tpush (track s) T /\ eff_lists spop spush (stack s) S /\ eff_crawl cw (crawl s) C.
Proof.
  unfold eff_bodyb. rewrite !andb_true_iff. intros [[H1 H2] H3].
  split; [apply eff_trackb_sound; exact H1|split; [apply eff_listsb_sound; exact H2|apply eff_crawlb_sound; exact H3]].
Qed.

Lemma eff_path_okb_sound pt s o : eff_path_okb pt s o = true -> eff_path_ok p pt s o.
Proof.
  destruct pt as [[[[[[tpop tpush] spop] spush] ex] fl] cw]. unfold eff_path_okb, eff_path_ok.
  destruct (eff_is_advance ex); [|destruct (eff_is_goto ex); [|destruct (ex =? 20); [|destruct (ex =? 30)]]].
  - destruct o as [s'| | |]; try discriminate. rewrite !andb_true_iff, !Z.eqb_eq. intros [[H1 H2] H3].
    exists s'. split; [reflexivity|split; [exact H1|split; [exact H2|apply eff_bodyb_sound; exact H3]]].
  - destruct o as [s'| | |]; try discriminate. rewrite !andb_true_iff, !Z.eqb_eq. intros [[H1 H2] H3].
    exists s'. split; [reflexivity|split; [exact H1|split; [|apply eff_bodyb_sound; exact H3]]].
    destruct (code_at p (pc s + (ex - 10) + 1)) as [v|]; [|discriminate]. apply Z.eqb_eq in H2. subst v. reflexivity.
  - destruct o as [s'| | |]; try discriminate. cbv zeta. rewrite !andb_true_iff, !Z.eqb_eq. intros [[H1 H2] H3].
    exists s', (if mode s' =? Back2Bit then - pc s' else pc s').
    split; [reflexivity|split; [exact H1|split; [exact H2|apply eff_bodyb_sound; exact H3]]].
  - destruct o as [|s'| |]; try discriminate. rewrite !andb_true_iff, !Z.eqb_eq. intros [H1 H3].
    exists s'. split; [reflexivity|split; [exact H1|apply eff_bodyb_sound; exact H3]].
  - discriminate.
Qed.

End Real.

(* candidate states: the code word of case code c at position 0 with operands (a, b), followed by Stop words;
   a small family of operands, text positions and stack contents, enough to drive every path of every case *)
Definition eff_env : env :=
  {| txt := [97; 98]; tstart := 0; ecma := false; endz_strict := false; set_in := fun _ x => x =? 97;
     lower := fun x => x; is_word := fun x => x =? 97; is_eword := fun x => x =? 97 |}.
Definition eff_prog (c a b : Z) : program :=
  {| codes := [Z.land c 63; a; b; Stop; Stop; Stop; Stop; Stop]; strings := [[97]]; trackcount := 1; capsize := 2 |}.
Definition eff_state (c t : Z) (T S C : list Z) (M : list (list Z)) : vm :=
  {| pc := 0; mode := (if c <? 128 then 0 else if c <? 256 then BackBit else Back2Bit); tp := t;
     track := T; tcap := 64; stack := S; scap := 64; crawl := C; mcaps := M |}.

Definition eff_cand_operands : list (Z * Z) := [(3, 1); (97, 1); (0, -1); (0, 1); (1, 1)].
Definition eff_cand_tp : list Z := [0; 1; 2; 3].
Definition eff_cand_track : list (list Z) :=
  [[2; 2; 2; 2; 2; 2]; [0; 0; 2; 2; 2; 2]; [0; 1; 2; 2; 2; 2]; [1; 0; 0; 2; 2; 2]; [1; 1; 2; 2; 2; 2]].
Definition eff_cand_stack : list (list Z) := [[0; 0; 0]; [1; 1; 1]; [-1; 0; 0]; [0; 6; 0]; [2; 2; 2]].
Definition eff_cand_caps : list (list Z * list (list Z)) :=
  [([], [[]; []]); ([0; 0], [[0; 1; 0; 1]; [0; 1]]); ([], [[]; [0; 1]])].

Definition eff_realised (c : Z) (pt : eff_path) : bool :=
  existsb (fun ab => existsb (fun t => existsb (fun T => existsb (fun S => existsb (fun CM =>
    let pr := eff_prog c (fst ab) (snd ab) in
    let s := eff_state c t T S (fst CM) (snd CM) in
    (eff_case_code (Z.land c 63) (mode s) =? c) &&
    match step eff_env pr (-1) s with
    | Ok o => eff_path_okb pr pt s o
    | _ => false
    end) eff_cand_caps) eff_cand_stack) eff_cand_track) eff_cand_tp) eff_cand_operands.

Lemma eff_all_paths_realised :
  forallb (fun kv => (fst kv =? -1) || forallb (eff_realised (fst kv)) (snd kv)) G_effects_x = true.
Proof. vm_compute. reflexivity. Qed.

(* every path of every case of the table is the path VM.step takes from some state: the table has no path the
   model lacks (a source edit that ADDS a way through a case body is reported, not only one that changes a way) *)
Theorem vm_table_paths_are_model_paths c pts pt :
  In (c, pts) G_effects_x -> c <> -1 -> In pt pts ->
  exists e p s w o, code_at p (pc s) = Some w /\ eff_case_code w (mode s) = c /\
                    step e p (-1) s = Ok o /\ eff_path_ok p pt s o.
Proof.
  intros Hc Hn Hpt. pose proof eff_all_paths_realised as H. rewrite forallb_forall in H.
  specialize (H _ Hc). cbn [fst snd] in H. apply orb_true_iff in H. destruct H as [H|H]; [lia|].
  rewrite forallb_forall in H. specialize (H _ Hpt). unfold eff_realised in H.
  apply existsb_exists in H. destruct H as (ab & _ & H).
  apply existsb_exists in H. destruct H as (t & _ & H).
  apply existsb_exists in H. destruct H as (T & _ & H).
  apply existsb_exists in H. destruct H as (S & _ & H).
  apply existsb_exists in H. destruct H as (CM & _ & H).
  cbv zeta in H. apply andb_true_iff in H. destruct H as [H1 H2]. apply Z.eqb_eq in H1.
  destruct (step eff_env (eff_prog c (fst ab) (snd ab)) (-1) (eff_state c t T S (fst CM) (snd CM))) as [o| | |] eqn:E;
    try discriminate.
  exists eff_env, (eff_prog c (fst ab) (snd ab)), (eff_state c t T S (fst CM) (snd CM)), (Z.land c 63), o.
  split; [reflexivity|]. split; [exact H1|]. split; [exact E|]. apply eff_path_okb_sound. exact H2.
Qed.
